import Pycoin.Proofs.Group
import Pycoin.Proofs.CubicRoot
import Mathlib.GroupTheory.Perm.Cycle.Type
/-!
The number of points of a short Weierstrass curve over `ZMod p`, without Hasse's theorem.

`E = (W c).Point` is a finite group with at most `2p + 1` elements (for each abscissa at most two ordinates, plus
infinity).  If `G ≠ ∞` and `n • G = ∞` with `n` prime then `n ∣ #E`; with `2p + 1 < 3n` this leaves `#E ∈ {n, 2n}`;
`#E = 2n` would give a point of order two (Cauchy), i.e. a point with `y = 0`, i.e. a root of `x³ + ax + b` in
`ZMod p`.  So on a curve whose cubic has no root (certificate: `Spec/CubicRoot.lean`) `#E = n`, hence `n • P = ∞` for
every point, and every point other than infinity has order exactly `n`.
-/
namespace Pycoin.Curve
open Pycoin WeierstrassCurve

variable (c : CurveParams) [Good c]

/-- for every abscissa one ordinate of the curve, if there is any -/
noncomputable def canonY (x : ZMod c.p) : ZMod c.p := by
  classical exact if h : ∃ y, (W c).Equation x y then h.choose else 0

/-- a point as "infinity, or its abscissa and whether its ordinate is the chosen one" -/
noncomputable def ptCode : (W c).Point → Option (ZMod c.p × Bool)
  | .zero => none
  | .some x y _ => by classical exact some (x, decide (y = canonY c x))

theorem ptCode_injective : Function.Injective (ptCode c) := by
  intro P Q h
  cases P with
  | zero =>
    cases Q with
    | zero => rfl
    | some x' y' hQ => simp [ptCode] at h
  | some x y hP =>
    cases Q with
    | zero => simp [ptCode] at h
    | some x' y' hQ =>
      simp only [ptCode, Option.some.injEq, Prod.mk.injEq] at h
      obtain ⟨hx, hb⟩ := h
      subst hx
      have hex : ∃ y, (W c).Equation x y := ⟨y, hP.1⟩
      have hc : (W c).Equation x (canonY c x) := by
        simp only [canonY, hex, dite_true]; exact hex.choose_spec
      have hy : y = y' := by
        by_cases h1 : y = canonY c x
        · have h2 : y' = canonY c x := by simpa [h1] using hb
          rw [h1, h2]
        · have h2 : ¬ y' = canonY c x := by simpa [h1] using hb
          rcases Affine.Y_eq_of_X_eq hP.1 hc rfl with e | e
          · exact absurd e h1
          · rcases Affine.Y_eq_of_X_eq hQ.1 hc rfl with e' | e'
            · exact absurd e' h2
            · rw [e, e']
      subst hy
      rfl

instance neZero_p : NeZero c.p := ⟨(Good.prime (c := c)).ne_zero⟩

instance finite_point : Finite (W c).Point := Finite.of_injective (ptCode c) (ptCode_injective c)

/-- `#E(F_p) ≤ 2p + 1` -/
theorem card_point_le : Nat.card (W c).Point ≤ 2 * c.p + 1 := by
  have h := Nat.card_le_card_of_injective (ptCode c) (ptCode_injective c)
  have : Nat.card (Option (ZMod c.p × Bool)) = 2 * c.p + 1 := by
    rw [Nat.card_eq_fintype_card, Fintype.card_option, Fintype.card_prod, ZMod.card, Fintype.card_bool]; ring
  omega

theorem two_ne_zero_zmod (hp2 : c.p ≠ 2) : (2 : ZMod c.p) ≠ 0 := by
  intro h
  have h' : ((2 : Nat) : ZMod c.p) = 0 := by exact_mod_cast h
  rw [ZMod.natCast_eq_zero_iff] at h'
  have := Nat.le_of_dvd (by norm_num) h'
  have := (Good.prime (c := c)).two_le
  omega

/-- a point of order two has `y = 0`, so its abscissa is a root of the cubic -/
theorem root_of_order_two (hp2 : c.p ≠ 2) (T : (W c).Point) (hT : addOrderOf T = 2) :
    ∃ x : ZMod c.p, x ^ 3 + (c.a : ZMod c.p) * x + (c.b : ZMod c.p) = 0 := by
  cases T with
  | zero =>
    rw [← Affine.Point.zero_def, addOrderOf_zero] at hT
    omega
  | some x y h =>
    have h2 : (2 : Nat) • Affine.Point.some x y h = 0 := by rw [← hT]; exact addOrderOf_nsmul_eq_zero _
    rw [two_nsmul] at h2
    have hneg := eq_neg_of_add_eq_zero_left h2
    rw [Affine.Point.neg_some] at hneg
    injection hneg with _ hy
    have hy0 : y = 0 := by
      have : (2 : ZMod c.p) * y = 0 := by
        simp only [Affine.negY] at hy
        linear_combination hy
      rcases mul_eq_zero.mp this with h' | h'
      · exact absurd h' (two_ne_zero_zmod c hp2)
      · exact h'
    subst hy0
    have he := (W_equation_iff c x 0).mp h.1
    exact ⟨x, by rw [← he]; ring⟩

/-- `−a mod p` as a natural number: the coefficient handed to the certificate checker -/
def negCoeff (p : Nat) (a : Int) : Nat := ((-a) % (p : Int)).toNat

omit [Good c] in
theorem cast_negCoeff (p : Nat) [NeZero p] (a : Int) : ((negCoeff p a : Nat) : ZMod p) = -(a : ZMod p) := by
  have h0 : (0 : Int) ≤ (-a) % (p : Int) := Int.emod_nonneg _ (by exact_mod_cast NeZero.ne p)
  have : ((negCoeff p a : Nat) : Int) = (-a) % (p : Int) := Int.toNat_of_nonneg h0
  rw [← Int.cast_natCast, this, ZMod.intCast_mod]
  push_cast; rfl

/-- a certificate accepted by the checker of `Spec/CubicRoot.lean` shows that `x³ + ax + b` has no root in `ZMod p`:
the curve has no point with `y = 0` -/
theorem no_root_of_cert (v : Pycoin.CubicRoot.Tri)
    (h : Pycoin.CubicRoot.certifies c.p (negCoeff c.p c.a) (negCoeff c.p c.b) v = true) (x : ZMod c.p) :
    x ^ 3 + (c.a : ZMod c.p) * x + (c.b : ZMod c.p) ≠ 0 := by
  intro hx
  apply Pycoin.CubicRoot.certifies_sound _ _ v h x
  rw [cast_negCoeff, cast_negCoeff]
  linear_combination hx

variable (hn : Nat.Prime c.n) (hG : containsXY c c.gx c.gy = true)
  (hord : (c.n : Int) • toPoint c (basis c) = 0) (hb : 2 * c.p + 1 < 3 * c.n) (hp2 : c.p ≠ 2)
  (hroot : ∀ x : ZMod c.p, x ^ 3 + (c.a : ZMod c.p) * x + (c.b : ZMod c.p) ≠ 0)
include hn hG hord hb hp2 hroot

/-- `#E(F_p) = n`: `n` prime, `G ≠ ∞`, `n • G = ∞`, `2p + 1 < 3n`, `p` odd, and `x³ + ax + b` without a root -/
theorem card_point_eq : Nat.card (W c).Point = c.n := by
  have : Fact c.n.Prime := ⟨hn⟩
  have hG0 : toPoint c (basis c) ≠ 0 := by
    have : basis c = some (c.gx, c.gy) := rfl
    rw [this, toPoint_some c hG]; exact Affine.Point.some_ne_zero _
  have hordG : addOrderOf (toPoint c (basis c)) = c.n :=
    addOrderOf_eq_prime (by rw [← natCast_zsmul]; exact hord) hG0
  obtain ⟨k, hk⟩ : c.n ∣ Nat.card (W c).Point := hordG ▸ addOrderOf_dvd_natCard _
  have hle := card_point_le c
  have hpos : 0 < Nat.card (W c).Point := Nat.card_pos
  have hk0 : k ≠ 0 := by rintro rfl; omega
  have hk3 : k < 3 := by
    by_contra hcon
    have : c.n * 3 ≤ c.n * k := Nat.mul_le_mul_left _ (by omega)
    omega
  have hk12 : k = 1 ∨ k = 2 := by omega
  rcases hk12 with rfl | rfl
  · omega
  · exfalso
    have : Fact (Nat.Prime 2) := ⟨Nat.prime_two⟩
    obtain ⟨T, hT⟩ := exists_prime_addOrderOf_dvd_card' (G := (W c).Point) 2 ⟨c.n, by rw [hk]; ring⟩
    obtain ⟨x, hx⟩ := root_of_order_two c hp2 T hT
    exact hroot x hx

/-- the order annihilates every point of the curve -/
theorem order_smul_eq_zero (P : (W c).Point) : (c.n : Int) • P = 0 := by
  rw [natCast_zsmul, ← card_point_eq c hn hG hord hb hp2 hroot]
  exact card_nsmul_eq_zero'

/-- every point other than infinity has order exactly `n` -/
theorem addOrderOf_eq_order (P : (W c).Point) (hP : P ≠ 0) : addOrderOf P = c.n := by
  have : Fact c.n.Prime := ⟨hn⟩
  refine addOrderOf_eq_prime ?_ hP
  rw [← natCast_zsmul]
  exact order_smul_eq_zero c hn hG hord hb hp2 hroot P

end Pycoin.Curve
