import Pycoin.Proofs.BIP32Curve
import Pycoin.Spec.BIP32
import Pycoin.Proofs.Bytes
/-!
C09 helper lemmas: `bip32.py` against the BIP32 specification read over Mathlib's group of the curve.
-/
namespace Pycoin.BIP32
open Pycoin Pycoin.Curve WeierstrassCurve

variable (c : CurveParams) [Good c]

/-- BIP32's `serP` on Mathlib's points: `(0x02 or 0x03) ‖ ser256(x)` by the parity of `y` (nothing for infinity,
which the BIP never serialises) -/
noncomputable def serPoint : (W c).Point → Bytes
  | .zero => []
  | .some x y _ => (if y.val % 2 = 1 then 3 else 2) :: beBytes x.val 32

/-- the BIP's functions read over Mathlib's group of the curve; HMAC-SHA512 and HASH160 are the function symbols
`Hash.hmacSha512`, `Hash.hash160` -/
noncomputable def mathCrypto : Spec.BIP32.Crypto (W c).Point where
  n := c.n
  point k := (k : Int) • toPoint c (basis c)
  add P Q := P + Q
  inf := 0
  serP := serPoint c
  hmacSha512 := Hash.hmacSha512
  hash160 := Hash.hash160

theorem val_of_reduced {x : Int} (h0 : 0 ≤ x) (h1 : x < c.p) : ((x : ZMod c.p)).val = x.toNat := by
  have hp : 0 < c.p := p_pos c
  have : NeZero c.p := ⟨hp.ne'⟩
  have := ZMod.val_intCast (n := c.p) x
  rw [Int.emod_eq_of_lt h0 h1] at this
  omega

/-- `public_pair_to_sec(pair)` of a reduced on-curve pair is the BIP's `serP` of the point it denotes -/
theorem publicPairToSec_eq {x y : Int} (h : containsXY c x y = true) (r : Reduced c (some (x, y))) (hp : c.p ≤ 2 ^ 256) :
    publicPairToSec (x, y) = .ok (serPoint c (toPoint c (some (x, y)))) := by
  obtain ⟨x0, x1, y0, y1⟩ := r
  rw [toPoint_some c h]
  unfold publicPairToSec toBytes32 serPoint
  have hx : ¬ (x < 0 ∨ x ≥ 2 ^ 256) := by
    have : (c.p : Int) ≤ 2 ^ 256 := by exact_mod_cast hp
    omega
  simp only [hx, if_false]
  rw [val_of_reduced c x0 x1, val_of_reduced c y0 y1]
  have : (fmod y 2 = 1) ↔ (y.toNat % 2 = 1) := by
    rw [show fmod y 2 = y % 2 from fmod_eq_emod y (by norm_num)]
    omega
  simp only [this]


omit [Good c] in
theorem fmod_natCast (a : Int) (n : Nat) : fmod a (n : Int) = a % (n : Int) := fmod_eq_emod a (Int.natCast_nonneg n)

variable {g : Gen} [Good g.c]

/-- the public pair `Key.__init__` computes for the exponent `s` denotes `s • G` and is `serP`-serialised as the BIP says -/
theorem sec_of_pub (S : Setting g) {s : Nat} {pp : Int × Int} (hpub : g.mul (s : Int) = .ok (some pp)) :
    containsXY g.c pp.1 pp.2 = true ∧ Reduced g.c (some pp) ∧
    toPoint g.c (some pp) = (mathCrypto g.c).point s ∧
    publicPairToSec pp = .ok ((mathCrypto g.c).serP ((mathCrypto g.c).point s)) := by
  obtain ⟨R, r1, r2, r3, r4⟩ := Gen.mul_spec S (s : Int)
  rw [hpub] at r1
  injection r1 with r1
  subst r1
  obtain ⟨x, y⟩ := pp
  refine ⟨r2, r3, r4, ?_⟩
  rw [publicPairToSec_eq g.c r2 r3 S.hp256, r4]
  rfl

/-- **CKDpriv.** `subkey_secret_exponent_chain_code_pair` on a constructed private key `(s, pp)`, any chain code, any
child number `j < 2³²` (hardened iff `j ≥ 2³¹`): when the BIP's CKDpriv yields a key (`I_L < n`, child `≠ 0`) the first
iteration returns exactly that key and chain code; otherwise the loop goes on with `0x01 ‖ I_R ‖ ser32(j)`. -/
theorem ckdPriv_matches (S : Setting g) {s j : Nat} {pp : Int × Int} (hs : s < g.c.n)
    (hpub : g.mul (s : Int) = .ok (some pp)) (cc : Bytes) (hj : j < 2 ^ 32) (fuel : Nat) :
    subkeySecretExponentChainCodePair g (fuel + 1) s cc j (decide ((2 : Int) ^ 31 ≤ j)) pp =
      match Spec.BIP32.CKDpriv (mathCrypto g.c) ⟨s, cc⟩ j with
      | .ok x => .ok ((x.k : Int), x.c)
      | _ =>
        let data := if Spec.BIP32.isHardened j then (0 : UInt8) :: (Spec.BIP32.ser256 s ++ Spec.BIP32.ser32 j)
          else (mathCrypto g.c).serP ((mathCrypto g.c).point s) ++ Spec.BIP32.ser32 j
        ckdLoop g.c.n s cc (Spec.BIP32.ser32 j) fuel
          (1 :: ((Hash.hmacSha512 cc data).drop 32 ++ Spec.BIP32.ser32 j)) := by
  obtain ⟨-, -, -, hsec⟩ := sec_of_pub S hpub
  have hn256 : (g.c.n : Int) ≤ 2 ^ 256 := by exact_mod_cast S.hn256
  have hpack : packL (j : Int) = .ok (Spec.BIP32.ser32 j) := by
    unfold packL Spec.BIP32.ser32
    have : ¬ ((j : Int) < 0 ∨ (j : Int) ≥ 2 ^ 32) := by
      have : (j : Int) < 2 ^ 32 := by exact_mod_cast hj
      omega
    rw [if_neg this, Int.toNat_natCast]
  have hb32 : toBytes32 (s : Int) = .ok (Spec.BIP32.ser256 s) := by
    unfold toBytes32 Spec.BIP32.ser256
    have : ¬ ((s : Int) < 0 ∨ (s : Int) ≥ 2 ^ 256) := by
      have : (s : Int) < g.c.n := by exact_mod_cast hs
      omega
    rw [if_neg this, Int.toNat_natCast]
  have hhard : decide ((2 : Int) ^ 31 ≤ (j : Int)) = Spec.BIP32.isHardened j := by
    unfold Spec.BIP32.isHardened
    congr 1
    apply propext
    constructor
    · intro h; exact_mod_cast h
    · intro h; exact_mod_cast h
  unfold subkeySecretExponentChainCodePair Spec.BIP32.CKDpriv
  simp only [hpack, hb32, hsec, hhard]
  -- both sides now speak of the same data
  cases hh : Spec.BIP32.isHardened j <;>
  · simp only [Bool.false_eq_true, if_false, if_true]
    rw [ckdLoop]
    simp only [fromBytes32, Spec.BIP32.parse256]
    generalize hI : Hash.hmacSha512 cc _ = I
    have hI' : (mathCrypto g.c).hmacSha512 = Hash.hmacSha512 := rfl
    have hn' : (mathCrypto g.c).n = g.c.n := rfl
    simp only [hI', hn', hI]
    have hk : fmod ((beNat (List.take 32 I) : Int) + (s : Int)) (g.c.n : Int) = (((beNat (List.take 32 I) + s) % g.c.n : Nat) : Int) := by
      rw [fmod_natCast]; push_cast; rfl
    simp only [hk]
    by_cases hc : g.c.n ≤ beNat (List.take 32 I) ∨ (beNat (List.take 32 I) + s) % g.c.n = 0
    · have : ¬ ((beNat (List.take 32 I) : Int) < (g.c.n : Int) ∧ (((beNat (List.take 32 I) + s) % g.c.n : Nat) : Int) ≠ 0) := by
        rintro ⟨a, b⟩
        rcases hc with hc | hc
        · have : (g.c.n : Int) ≤ beNat (List.take 32 I) := by exact_mod_cast hc
          omega
        · apply b; exact_mod_cast hc
      simp only [if_pos hc, if_neg this]
    · have hc0 := hc
      push Not at hc
      have : ((beNat (List.take 32 I) : Int) < (g.c.n : Int) ∧ (((beNat (List.take 32 I) + s) % g.c.n : Nat) : Int) ≠ 0) := by
        refine ⟨by exact_mod_cast hc.1, ?_⟩
        intro h; apply hc.2; exact_mod_cast h
      simp only [if_neg hc0, if_pos this]


/-- what `subkey_public_pair_chain_code_pair` computes, for every `I_L` (it reduces `I_L` modulo `n`): the sum
`(I_L mod n) • G + K` with reduced coordinates, `DerivationError` exactly when that sum is infinity -/
theorem ckdPub_general (S : Setting g) {pp : Int × Int} (hon : containsXY g.c pp.1 pp.2 = true)
    (hred : Reduced g.c (some pp)) (cc : Bytes) {j : Nat} (hj : j < 2 ^ 31) :
    let I := Hash.hmacSha512 cc ((mathCrypto g.c).serP (toPoint g.c (some pp)) ++ Spec.BIP32.ser32 j)
    ∃ R : Pt, OnCurve g.c R ∧ Reduced g.c R ∧
      toPoint g.c R = ((Spec.BIP32.parse256 (I.take 32) % g.c.n : Nat) : Int) • toPoint g.c (basis g.c) + toPoint g.c (some pp) ∧
      subkeyPublicPairChainCodePair g pp cc j =
        (match R with
         | none => .error .derivation
         | some q => .ok (q, I.drop 32)) := by
  intro I
  obtain ⟨x, y⟩ := pp
  have hpack : packl (j : Int) = .ok (Spec.BIP32.ser32 j) := by
    unfold packl Spec.BIP32.ser32
    have hj' : (j : Int) < 2 ^ 31 := by exact_mod_cast hj
    have : ¬ ((j : Int) < -(2 ^ 31) ∨ (j : Int) ≥ 2 ^ 31) := by omega
    rw [if_neg this]
    have : fmod (j : Int) (2 ^ 32) = j := by
      rw [show fmod (j : Int) (2 ^ 32) = (j : Int) % (2 ^ 32) from fmod_eq_emod _ (by norm_num)]
      omega
    rw [this, Int.toNat_natCast]
  have hsec := publicPairToSec_eq g.c hon hred S.hp256
  have he : fmod (fromBytes32 (I.take 32)) (g.c.n : Int) = ((Spec.BIP32.parse256 (I.take 32) % g.c.n : Nat) : Int) := by
    rw [fmod_natCast]; unfold fromBytes32 Spec.BIP32.parse256; push_cast; rfl
  obtain ⟨P1, p1, p2, p3, p4⟩ := Gen.mul_spec S ((Spec.BIP32.parse256 (I.take 32) % g.c.n : Nat) : Int)
  obtain ⟨R, r1, r2, r3, -, r4⟩ := add_refines g.c P1 (some (x, y)) p2 hon
  refine ⟨R, r2, r4 p3 hred, by rw [r3, p4], ?_⟩
  unfold subkeyPublicPairChainCodePair
  simp only [hpack, hsec]
  have hI : Hash.hmacSha512 cc (serPoint g.c (toPoint g.c (some (x, y))) ++ Spec.BIP32.ser32 j) = I := rfl
  rw [hI, he, p1]
  simp only [mkPoint, hon, if_true, r1]
  cases R <;> rfl

open Classical in
/-- **CKDpub.** When the BIP's CKDpub yields a key (`I_L < n`, `K_i ≠ ∞`), `subkey_public_pair_chain_code_pair`
returns the reduced coordinates of exactly that point, and the same chain code. -/
theorem ckdPub_matches (S : Setting g) {pp : Int × Int} (hon : containsXY g.c pp.1 pp.2 = true)
    (hred : Reduced g.c (some pp)) (cc : Bytes) {j : Nat} (hj : j < 2 ^ 31) {x : Spec.BIP32.XPub (W g.c).Point}
    (hspec : Spec.BIP32.CKDpub (mathCrypto g.c) ⟨toPoint g.c (some pp), cc⟩ j = .ok x) :
    ∃ q : Int × Int, subkeyPublicPairChainCodePair g pp cc j = .ok (q, x.c) ∧ containsXY g.c q.1 q.2 = true ∧
      Reduced g.c (some q) ∧ toPoint g.c (some q) = x.K := by
  obtain ⟨R, r1, r2, r3, r4⟩ := ckdPub_general S hon hred cc hj
  unfold Spec.BIP32.CKDpub at hspec
  have hh : Spec.BIP32.isHardened j = false := by
    unfold Spec.BIP32.isHardened; simp; omega
  simp only [hh, Bool.false_eq_true, if_false] at hspec
  split at hspec
  · cases hspec
  · rename_i hc
    push Not at hc
    injection hspec with hspec
    subst hspec
    simp only
    have hmod : Spec.BIP32.parse256 (List.take 32 (Hash.hmacSha512 cc ((mathCrypto g.c).serP (toPoint g.c (some pp)) ++ Spec.BIP32.ser32 j))) % g.c.n =
        Spec.BIP32.parse256 (List.take 32 (Hash.hmacSha512 cc ((mathCrypto g.c).serP (toPoint g.c (some pp)) ++ Spec.BIP32.ser32 j))) :=
      Nat.mod_eq_of_lt hc.1
    rw [hmod] at r3
    match R, r1, r2, r3, r4 with
    | none, _, _, r3, _ =>
      exfalso; apply hc.2
      rw [toPoint_none] at r3
      exact r3.symm
    | some q, r1, r2, r3, r4 =>
      exact ⟨q, r4, r1, r2, r3⟩


/-- **commutation, at the level of `bip32.py`.** Non-hardened child number, CKDpriv yields `(k', c')` on the first
iteration: the public pair `Key.__init__` computes for `k'` is the pair `subkey_public_pair_chain_code_pair` returns
from the parent's public pair, with the same chain code (both are infinity/`DerivationError` together — which cannot
happen for a prime order, and is not needed here). -/
theorem ckd_commute_fn (S : Setting g) {s j : Nat} {pp : Int × Int} (hs : s < g.c.n)
    (hpub : g.mul (s : Int) = .ok (some pp)) (cc : Bytes) (hj : j < 2 ^ 31) {x : Spec.BIP32.XPrv}
    (hfirst : Spec.BIP32.CKDpriv (mathCrypto g.c) ⟨s, cc⟩ j = .ok x) :
    ∃ R : Pt, g.mul (x.k : Int) = .ok R ∧
      subkeyPublicPairChainCodePair g pp cc j =
        (match R with
         | none => .error .derivation
         | some q => .ok (q, x.c)) := by
  obtain ⟨hon, hred, hpt, -⟩ := sec_of_pub S hpub
  obtain ⟨R, r1, r2, r3, r4⟩ := ckdPub_general S hon hred cc hj
  unfold Spec.BIP32.CKDpriv at hfirst
  have hh : Spec.BIP32.isHardened j = false := by
    unfold Spec.BIP32.isHardened; simp; omega
  simp only [hh, Bool.false_eq_true, if_false] at hfirst
  rw [hpt] at r3 r4
  have hI' : (mathCrypto g.c).hmacSha512 = Hash.hmacSha512 := rfl
  have hn' : (mathCrypto g.c).n = g.c.n := rfl
  simp only [hI', hn'] at hfirst
  generalize Hash.hmacSha512 cc ((mathCrypto g.c).serP ((mathCrypto g.c).point s) ++ Spec.BIP32.ser32 j) = I at hfirst r3 r4
  split at hfirst
  · cases hfirst
  · rename_i hc
    push Not at hc
    injection hfirst with hfirst
    subst hfirst
    simp only at r4 ⊢
    obtain ⟨R', q1, q2, q3, q4⟩ := Gen.mul_spec S (((Spec.BIP32.parse256 (List.take 32 I) + s) % g.c.n : Nat) : Int)
    have heq : toPoint g.c R = toPoint g.c R' := by
      rw [r3, q4, Nat.mod_eq_of_lt hc.1]
      have hpts : (mathCrypto g.c).point s = (s : Int) • toPoint g.c (basis g.c) := rfl
      rw [hpts, ← add_zsmul]
      have hdiv : ((Spec.BIP32.parse256 (List.take 32 I) : Int) + (s : Int)) =
          (((Spec.BIP32.parse256 (List.take 32 I) + s) % g.c.n : Nat) : Int) +
            (((Spec.BIP32.parse256 (List.take 32 I) + s) / g.c.n : Nat) : Int) * (g.c.n : Int) := by
        have := Nat.mod_add_div (Spec.BIP32.parse256 (List.take 32 I) + s) g.c.n
        push_cast
        have h2 := congrArg (fun t : Nat => (t : Int)) this
        push_cast at h2
        rw [mul_comm]
        exact h2.symm
      rw [hdiv, add_zsmul, mul_zsmul, S.hord, zsmul_zero, add_zero]
    have hRR : R = R' := toPoint_inj g.c r1 q2 r2 q3 heq
    subst hRR
    exact ⟨R, q1, r4⟩

end Pycoin.BIP32
