import Pycoin.Proofs.BIP32Ckd
import Pycoin.Model.Electrum
/-!
C09 helper lemmas: Electrum derivation commutes with going public.
-/
namespace Pycoin.Electrum
open Pycoin Pycoin.Curve Pycoin.BIP32 WeierstrassCurve

variable {g : Gen} [Good g.c]

theorem offsetFor_pub (w : Wallet) (path : List Char) :
    offsetFor ({ w with secretExponent := none } : Wallet) path = offsetFor w path := rfl

/-- **Electrum commutation.** -/
theorem electrum_commute (S : Setting g) (w w' : Wallet) (k : Int) (hk : w.secretExponent = some k)
    (hvalid : keyInit g (.priv k) = .ok (some k, w.publicPair)) (path : List Char)
    (h : w.subkey g path = .ok w') :
    ({ w with secretExponent := none } : Wallet).subkey g path = .ok { w' with secretExponent := none } := by
  obtain ⟨-, k1, k2, hpub, hon⟩ := keyInit_priv_ok hvalid
  obtain ⟨s, rfl⟩ := Int.eq_ofNat_of_zero_le (show (0 : Int) ≤ k by omega)
  obtain ⟨_, hred, hpt, -⟩ := sec_of_pub S hpub
  unfold Wallet.subkey at h ⊢
  rw [offsetFor_pub]
  cases ho : offsetFor w path with
  | error e => simp [ho] at h
  | ok o =>
    simp only [ho, hk] at h ⊢
    have hk0 : (s : Int) ≠ 0 := by omega
    simp only [hk0, ne_eq, not_false_eq_true, if_true] at h
    rw [BIP32.fmod_natCast] at h
    -- the private child
    have hmk : ∀ v : Int, mkWallet g (.masterPrivateKey v) =
        (match keyInit g (.priv v) with
         | .error e => .error e
         | .ok (se, pp) => .ok ⟨se, pp⟩) := fun _ => rfl
    have hmp : ∀ q : Pt, mkWallet g (.publicPair q) =
        (match keyInit g (.pub q) with
         | .error e => .error e
         | .ok (se, pp) => .ok ⟨se, pp⟩) := fun _ => rfl
    rw [hmk] at h
    cases hki : keyInit g (.priv (((s : Int) + o) % g.c.n)) with
    | error e => simp [hki] at h
    | ok r =>
      obtain ⟨se', pp'⟩ := r
      simp only [hki, Except.ok.injEq] at h
      subst h
      obtain ⟨-, -, -, hmul', hon'⟩ := keyInit_priv_ok hki
      -- the public side
      obtain ⟨P1, p1, p2, p3, p4⟩ := Gen.mul_spec S o
      obtain ⟨R, r1, r2, r3, -, r4⟩ := add_refines g.c P1 (some w.publicPair) p2 hon
      obtain ⟨R', q1, q2, q3, q4⟩ := Gen.mul_spec S (((s : Int) + o) % g.c.n)
      have heq : toPoint g.c R = toPoint g.c R' := by
        rw [r3, p4, q4, hpt]
        have hpts : (mathCrypto g.c).point s = (s : Int) • toPoint g.c (basis g.c) := rfl
        rw [hpts, ← add_zsmul]
        conv_lhs => rw [show o + (s : Int) = ((s : Int) + o) % g.c.n + g.c.n * (((s : Int) + o) / g.c.n) by
          rw [Int.emod_add_mul_ediv]; ring]
        rw [add_zsmul, mul_comm, mul_zsmul, S.hord, zsmul_zero, add_zero]
      have hRR : R = R' := toPoint_inj g.c r2 q2 (r4 p3 hred) q3 heq
      rw [hmul'] at q1
      injection q1 with q1
      subst q1; subst hRR
      simp only [p1, mkPoint, hon, if_true, r1, hmp, keyInit, hon']

end Pycoin.Electrum
