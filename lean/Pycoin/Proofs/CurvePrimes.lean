import Pycoin.Proofs.Pratt
import Pycoin.Gen.Curves
/-!
Primality of the field and group orders of the shipped curves: the generated Pratt certificates
(`Gen/Curves.lean`, produced by sympy, not trusted) are run through the verified checker inside the kernel.
-/
namespace Pycoin.Gen.Curves
open Pycoin.Pratt

theorem prime_p_secp256k1 : Nat.Prime secp256k1.p := certifies_sound pratt_secp256k1_p _ (by decide +kernel)
theorem prime_n_secp256k1 : Nat.Prime secp256k1.n := certifies_sound pratt_secp256k1_n _ (by decide +kernel)
theorem prime_p_secp256r1 : Nat.Prime secp256r1.p := certifies_sound pratt_secp256r1_p _ (by decide +kernel)
theorem prime_n_secp256r1 : Nat.Prime secp256r1.n := certifies_sound pratt_secp256r1_n _ (by decide +kernel)
theorem prime_p_bls12_381 : Nat.Prime bls12_381.p := certifies_sound pratt_bls12_381_p _ (by decide +kernel)
theorem prime_n_bls12_381 : Nat.Prime bls12_381.n := certifies_sound pratt_bls12_381_n _ (by decide +kernel)

end Pycoin.Gen.Curves
