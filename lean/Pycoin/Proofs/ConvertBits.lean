import Pycoin.Model.Bech32
import Pycoin.Proofs.Base58
/-!
`convertbits`: the loop keeps, for the number `N` spelled by the `frombits`-bit values read so far
(`T` bits in all), the high `T - bits` bits of `N` as `tobits`-bit groups in `ret` and `N mod 2^(frombits+tobits-1)`
in `acc`.  Closed forms for both padding modes and the two round trips.  Core Lean only.
-/
namespace Pycoin.Bech32
open Pycoin.Base58 (ofDigits foldl_digits_append foldl_digits_zero)

/-! ### arithmetic -/

theorem mask_eq (k : Nat) : (1 <<< k) - 1 = 2 ^ k - 1 := by rw [Nat.one_shiftLeft]

theorem and_mask (x k : Nat) : x &&& ((1 <<< k) - 1) = x % 2 ^ k := by
  rw [mask_eq, Nat.and_two_pow_sub_one_eq_mod]

theorem pow_split {a b : Nat} (h : a ≤ b) : 2 ^ b = 2 ^ a * 2 ^ (b - a) := by
  rw [← Nat.pow_add]; congr 1; omega

/-- reading `t` bits at offset `k` of `N mod 2^W` is reading them of `N`, when they lie below `W` -/
theorem mod_div_mod (N W k t : Nat) (h : k + t ≤ W) : (N % 2 ^ W / 2 ^ k) % 2 ^ t = (N / 2 ^ k) % 2 ^ t := by
  rw [pow_split (show k ≤ W by omega), Nat.mod_mul_right_div_self]
  apply Nat.mod_mod_of_dvd
  exact Nat.pow_dvd_pow 2 (by omega)

theorem mod_mod_pow (N W b : Nat) (h : b ≤ W) : N % 2 ^ W % 2 ^ b = N % 2 ^ b :=
  Nat.mod_mod_of_dvd N (Nat.pow_dvd_pow 2 h)

theorem shl_mod (a t b : Nat) (h : b ≤ t) : (a * 2 ^ (t - b)) % 2 ^ t = (a % 2 ^ b) * 2 ^ (t - b) := by
  rw [pow_split h, Nat.mul_mod_mul_right]

theorem div_pow_add (N a b : Nat) : N / 2 ^ (a + b) = N / 2 ^ a / 2 ^ b := by
  rw [Nat.pow_add, Nat.div_div_eq_div_mul]

theorem ofDigits_append_one (b : Nat) (l : List Nat) (d : Nat) : ofDigits b (l ++ [d]) = ofDigits b l * b + d := by
  unfold ofDigits; exact foldl_digits_append b l d 0

theorem ofDigits_cons (b : Nat) (d : Nat) (ds : List Nat) : ofDigits b (d :: ds) = d * b ^ ds.length + ofDigits b ds := by
  unfold ofDigits
  rw [List.foldl_cons, foldl_digits_zero, Nat.zero_mul, Nat.zero_add]

theorem ofDigits_lt (b : Nat) (l : List Nat) (h : ∀ d ∈ l, d < b) : ofDigits b l < b ^ l.length := by
  induction l with
  | nil => simp [ofDigits]
  | cons d ds ih =>
    rw [ofDigits_cons, List.length_cons, Nat.pow_succ]
    have h1 := ih (fun x hx => h x (by simp [hx]))
    have h2 : d + 1 ≤ b := h d (by simp)
    calc d * b ^ ds.length + ofDigits b ds < d * b ^ ds.length + b ^ ds.length := by omega
      _ = (d + 1) * b ^ ds.length := by rw [Nat.add_mul, Nat.one_mul]
      _ ≤ b * b ^ ds.length := Nat.mul_le_mul_right _ h2
      _ = b ^ ds.length * b := Nat.mul_comm _ _

/-- digit strings of the same length with the same value are equal -/
theorem ofDigits_inj (b : Nat) (l1 l2 : List Nat) (hl : l1.length = l2.length) (h1 : ∀ d ∈ l1, d < b)
    (h2 : ∀ d ∈ l2, d < b) (h : ofDigits b l1 = ofDigits b l2) : l1 = l2 := by
  induction l1 generalizing l2 with
  | nil => cases l2 with
    | nil => rfl
    | cons _ _ => cases hl
  | cons d ds ih =>
    cases l2 with
    | nil => cases hl
    | cons e es =>
      have hlen : ds.length = es.length := by simpa using hl
      rw [ofDigits_cons, ofDigits_cons, hlen] at h
      have r1 := ofDigits_lt b ds (fun x hx => h1 x (by simp [hx]))
      have r2 := ofDigits_lt b es (fun x hx => h2 x (by simp [hx]))
      rw [hlen] at r1
      have hpos : 0 < b ^ es.length := by omega
      have hd : d = e := by
        have : (d * b ^ es.length + ofDigits b ds) / b ^ es.length =
            (e * b ^ es.length + ofDigits b es) / b ^ es.length := by rw [h]
        rwa [Nat.mul_comm d, Nat.mul_comm e, Nat.mul_add_div hpos, Nat.mul_add_div hpos, Nat.div_eq_of_lt r1,
          Nat.div_eq_of_lt r2, Nat.add_zero, Nat.add_zero] at this
      subst hd
      have hr : ofDigits b ds = ofDigits b es := by omega
      rw [ih es hlen (fun x hx => h1 x (by simp [hx])) (fun x hx => h2 x (by simp [hx])) hr]

/-! ### the loops -/

/-- the loop invariant: `acc`, `bits`, `ret` describe the number `N` of `T` bits read so far -/
structure Inv (f t N T acc bits : Nat) (ret : List Nat) : Prop where
  acc_eq : acc = N % 2 ^ (f + t - 1)
  len_eq : ret.length * t + bits = T
  val_eq : ofDigits (2 ^ t) ret = N / 2 ^ bits
  lt : ∀ r ∈ ret, r < 2 ^ t

theorem drain_inv (f t : Nat) (ht : 0 < t) (N T acc : Nat) (b : Nat) (ret : List Nat)
    (hb : b ≤ f + t - 1) (h : Inv f t N T acc b ret) :
    ∃ b' ret', drain t ht ((1 <<< t) - 1) acc b ret = (b', ret') ∧ b' < t ∧ Inv f t N T acc b' ret' := by
  induction b using Nat.strongRecOn generalizing ret with
  | _ b ih =>
    rw [drain]
    by_cases hge : b ≥ t
    · simp only [hge, dite_true]
      apply ih (b - t) (by omega) _ (by omega)
      have he : (acc >>> (b - t)) &&& ((1 <<< t) - 1) = (N / 2 ^ (b - t)) % 2 ^ t := by
        rw [and_mask, Nat.shiftRight_eq_div_pow, h.acc_eq, mod_div_mod _ _ _ _ (by omega)]
      rw [he]
      refine ⟨h.acc_eq, ?_, ?_, ?_⟩
      · rw [List.length_append, List.length_singleton, Nat.add_mul, Nat.one_mul]
        have := h.len_eq; omega
      · rw [ofDigits_append_one, h.val_eq]
        have hb' : b = (b - t) + t := by omega
        rw [show N / 2 ^ b = N / 2 ^ (b - t) / 2 ^ t by rw [← div_pow_add]; congr 2]
        exact Nat.div_add_mod' _ _
      · intro r hr
        rcases List.mem_append.mp hr with hr | hr
        · exact h.lt r hr
        · rw [List.mem_singleton.mp hr]; exact Nat.mod_lt _ (Nat.two_pow_pos t)
    · simp only [hge, dite_false]
      exact ⟨b, ret, rfl, by omega, h⟩

theorem acc_step (f W N acc x : Nat) (hacc : acc = N % 2 ^ W) (hx : x < 2 ^ f) :
    ((acc <<< f) ||| x) &&& ((1 <<< W) - 1) = (N * 2 ^ f + x) % 2 ^ W := by
  rw [and_mask, ← Nat.shiftLeft_add_eq_or_of_lt hx, Nat.shiftLeft_eq, hacc]
  rw [Nat.add_mod, Nat.mul_mod, Nat.mod_mod, ← Nat.mul_mod, ← Nat.add_mod]

theorem convertLoop_inv (f t : Nat) (ht : 0 < t) (data : List Nat) (hd : ∀ x ∈ data, x < 2 ^ f)
    (N T acc bits : Nat) (ret : List Nat) (hbits : bits < t) (h : Inv f t N T acc bits ret) :
    ∃ acc' bits' ret',
      convertLoop f t ht ((1 <<< t) - 1) ((1 <<< (f + t - 1)) - 1) data acc bits ret = some (acc', bits', ret') ∧
      bits' < t ∧
      Inv f t (data.foldl (fun v d => v * 2 ^ f + d) N) (T + f * data.length) acc' bits' ret' := by
  induction data generalizing N T acc bits ret with
  | nil => exact ⟨acc, bits, ret, rfl, hbits, by simpa using h⟩
  | cons x xs ih =>
    have hx := hd x (by simp)
    have hx0 : x >>> f = 0 := by rw [Nat.shiftRight_eq_div_pow]; exact Nat.div_eq_of_lt hx
    rw [convertLoop]
    simp only [hx0, ne_eq, not_true_eq_false, if_false]
    have hacc' := acc_step f (f + t - 1) N acc x h.acc_eq hx
    have hinv : Inv f t (N * 2 ^ f + x) (T + f) (((acc <<< f) ||| x) &&& ((1 <<< (f + t - 1)) - 1)) (bits + f) ret := by
      refine ⟨hacc', ?_, ?_, h.lt⟩
      · have := h.len_eq; omega
      · rw [h.val_eq, Nat.add_comm bits f, div_pow_add]
        congr 1
        rw [Nat.mul_comm, Nat.mul_add_div (Nat.two_pow_pos f), Nat.div_eq_of_lt hx, Nat.add_zero]
    obtain ⟨b', ret', hdr, hb', hinv'⟩ := drain_inv f t ht _ _ _ (bits + f) ret (by omega) hinv
    rw [hdr]
    obtain ⟨acc2, bits2, ret2, hc, hb2, hinv2⟩ :=
      ih (fun y hy => hd y (by simp [hy])) _ _ _ b' ret' hb' hinv'
    refine ⟨acc2, bits2, ret2, hc, hb2, ?_⟩
    simp only [List.foldl_cons, List.length_cons]
    rw [show T + f * (xs.length + 1) = T + f + f * xs.length by rw [Nat.mul_add]; omega]
    exact hinv2

theorem inv_init (f t : Nat) : Inv f t 0 0 0 0 [] :=
  ⟨by simp, by simp, by simp [ofDigits], by simp⟩

/-- a value that does not fit in `frombits` bits makes `convertbits` return `None` -/
theorem convertLoop_none (f t : Nat) (ht : 0 < t) (maxv maxAcc : Nat) (data : List Nat)
    (h : ∃ x ∈ data, 2 ^ f ≤ x) (acc bits : Nat) (ret : List Nat) :
    convertLoop f t ht maxv maxAcc data acc bits ret = none := by
  induction data generalizing acc bits ret with
  | nil => obtain ⟨x, hx, _⟩ := h; cases hx
  | cons y ys ih =>
    rw [convertLoop]
    by_cases hy : y >>> f ≠ 0
    · simp [hy]
    · simp only [hy, if_false]
      have hy' : y < 2 ^ f := by
        rw [Nat.shiftRight_eq_div_pow] at hy
        rcases Nat.lt_or_ge y (2 ^ f) with h1 | h1
        · exact h1
        · exact absurd (Nat.ne_of_gt (Nat.div_pos h1 (Nat.two_pow_pos f))) hy
      obtain ⟨x, hx, hge⟩ := h
      rcases List.mem_cons.mp hx with rfl | hx
      · omega
      · exact ih ⟨x, hx, hge⟩ _ _ _

/-! ### closed forms -/

/-- `convertbits(data, f, t, pad=True)` on values below `2^f`: `t`-bit groups spelling `N · 2^p`, `p < t` pad bits -/
theorem convertbits_pad (f t : Nat) (ht : 0 < t) (data : List Nat) (hd : ∀ x ∈ data, x < 2 ^ f) :
    ∃ R p, convertbits data f t ht true = some R ∧ (∀ r ∈ R, r < 2 ^ t) ∧ p < t ∧
      R.length * t = f * data.length + p ∧ ofDigits (2 ^ t) R = ofDigits (2 ^ f) data * 2 ^ p := by
  obtain ⟨acc, bits, ret, hc, hb, hinv⟩ := convertLoop_inv f t ht data hd 0 0 0 0 [] ht (inv_init f t)
  unfold convertbits
  simp only [hc, if_true]
  have hN : data.foldl (fun v d => v * 2 ^ f + d) 0 = ofDigits (2 ^ f) data := rfl
  rw [hN, Nat.zero_add] at hinv
  by_cases h0 : bits = 0
  · subst h0
    refine ⟨ret, 0, by simp, hinv.lt, ht, ?_, ?_⟩
    · have := hinv.len_eq; omega
    · rw [hinv.val_eq]; simp
  · simp only [h0, ne_eq, not_false_eq_true, if_true]
    have he : (acc <<< (t - bits)) &&& ((1 <<< t) - 1) =
        (ofDigits (2 ^ f) data % 2 ^ bits) * 2 ^ (t - bits) := by
      rw [and_mask, Nat.shiftLeft_eq, shl_mod _ _ _ (by omega), hinv.acc_eq, mod_mod_pow _ _ _ (by omega)]
    refine ⟨_, t - bits, rfl, ?_, by omega, ?_, ?_⟩
    · intro r hr
      rcases List.mem_append.mp hr with hr | hr
      · exact hinv.lt r hr
      · rw [List.mem_singleton.mp hr, and_mask]; exact Nat.mod_lt _ (Nat.two_pow_pos t)
    · rw [List.length_append, List.length_singleton, Nat.add_mul, Nat.one_mul]
      have := hinv.len_eq; omega
    · rw [he, ofDigits_append_one, hinv.val_eq, pow_split (show bits ≤ t by omega), ← Nat.mul_assoc, ← Nat.add_mul,
        Nat.div_add_mod']

/-- `convertbits(data, f, t, pad=False)` on values below `2^f`: with `b = (f·len) mod t` left-over bits it returns
`None` when `b ≥ f` or the left-over bits are not all zero, and otherwise the `t`-bit groups spelling `N / 2^b` -/
theorem convertbits_nopad (f t : Nat) (ht : 0 < t) (data : List Nat) (hd : ∀ x ∈ data, x < 2 ^ f) :
    ∃ R b, b < t ∧ R.length * t + b = f * data.length ∧ (∀ r ∈ R, r < 2 ^ t) ∧
      ofDigits (2 ^ t) R = ofDigits (2 ^ f) data / 2 ^ b ∧
      convertbits data f t ht false =
        if b ≥ f ∨ ofDigits (2 ^ f) data % 2 ^ b ≠ 0 then none else some R := by
  obtain ⟨acc, bits, ret, hc, hb, hinv⟩ := convertLoop_inv f t ht data hd 0 0 0 0 [] ht (inv_init f t)
  have hN : data.foldl (fun v d => v * 2 ^ f + d) 0 = ofDigits (2 ^ f) data := rfl
  rw [hN, Nat.zero_add] at hinv
  refine ⟨ret, bits, hb, hinv.len_eq, hinv.lt, hinv.val_eq, ?_⟩
  unfold convertbits
  simp only [hc]
  have he : (acc <<< (t - bits)) &&& ((1 <<< t) - 1) =
      (ofDigits (2 ^ f) data % 2 ^ bits) * 2 ^ (t - bits) := by
    rw [and_mask, Nat.shiftLeft_eq, shl_mod _ _ _ (by omega), hinv.acc_eq, mod_mod_pow _ _ _ (by omega)]
  rw [he]
  have hz : (ofDigits (2 ^ f) data % 2 ^ bits) * 2 ^ (t - bits) ≠ 0 ↔ ofDigits (2 ^ f) data % 2 ^ bits ≠ 0 := by
    have : 0 < 2 ^ (t - bits) := Nat.two_pow_pos _
    constructor
    · intro h h0; rw [h0] at h; simp at h
    · intro h; exact Nat.ne_of_gt (Nat.mul_pos (Nat.pos_of_ne_zero h) this)
  simp only [Bool.false_eq_true, if_false, hz]

theorem convertbits_none_of_big (f t : Nat) (ht : 0 < t) (data : List Nat) (pad : Bool)
    (h : ∃ x ∈ data, 2 ^ f ≤ x) : convertbits data f t ht pad = none := by
  simp only [convertbits, convertLoop_none f t ht _ _ data h]

/-! ### the two round trips between bytes and 5-bit groups -/

/-- 8→5 with padding, then 5→8 without: the original bytes -/
theorem convertbits_8_5_8 (data : List Nat) (hd : ∀ x ∈ data, x < 256) :
    ∃ R, convertbits data 8 5 pos5 true = some R ∧ (∀ r ∈ R, r < 32) ∧
      R.length = (data.length * 8 + 4) / 5 ∧ convertbits R 5 8 pos8 false = some data := by
  obtain ⟨R, p, hR, hlt, hp, hlen, hval⟩ := convertbits_pad 8 5 pos5 data hd
  refine ⟨R, hR, hlt, by omega, ?_⟩
  obtain ⟨R8, b, hb, hlen8, hlt8, hval8, hres⟩ := convertbits_nopad 5 8 pos8 R hlt
  have hbp : b = p := by omega
  subst hbp
  rw [hres, hval]
  have hmod : ofDigits (2 ^ 8) data * 2 ^ b % 2 ^ b = 0 := Nat.mul_mod_left _ _
  have hcond : ¬ (b ≥ 5 ∨ ofDigits (2 ^ 8) data * 2 ^ b % 2 ^ b ≠ 0) := by
    rw [hmod]; omega
  rw [if_neg hcond]
  congr 1
  apply ofDigits_inj (2 ^ 8) R8 data (by omega) hlt8 hd
  rw [hval8, hval, Nat.mul_div_cancel _ (Nat.two_pow_pos b)]

/-- 5→8 without padding succeeded: converting the bytes back 8→5 with padding gives the original groups -/
theorem convertbits_5_8_5 (data R : List Nat) (h : convertbits data 5 8 pos8 false = some R) :
    (∀ r ∈ R, r < 256) ∧ R.length = data.length * 5 / 8 ∧ data.length * 5 % 8 < 5 ∧
      convertbits R 8 5 pos5 true = some data := by
  have hd : ∀ x ∈ data, x < 2 ^ 5 := by
    intro x hx
    apply Classical.byContradiction
    intro hn
    rw [convertbits_none_of_big 5 8 pos8 data false ⟨x, hx, by omega⟩] at h
    cases h
  obtain ⟨R8, b, hb, hlen8, hlt8, hval8, hres⟩ := convertbits_nopad 5 8 pos8 data hd
  rw [hres] at h
  split at h
  · cases h
  · rename_i hcond
    injection h with h
    subst h
    have hb5 : b < 5 := by omega
    have hdiv : ofDigits (2 ^ 5) data % 2 ^ b = 0 := by
      apply Classical.byContradiction
      intro hn; exact hcond (Or.inr hn)
    have h1 : data.length * 5 = 8 * R8.length + b := by omega
    have hmod8 : data.length * 5 % 8 = b := by rw [h1, Nat.mul_add_mod]; exact Nat.mod_eq_of_lt hb
    have hdiv8 : data.length * 5 / 8 = R8.length := by
      rw [h1, Nat.mul_add_div (by decide), Nat.div_eq_of_lt hb]; rfl
    refine ⟨hlt8, hdiv8.symm, by omega, ?_⟩
    obtain ⟨R5, p, hR5, hlt5, hp, hlen5, hval5⟩ := convertbits_pad 8 5 pos5 R8 hlt8
    rw [hR5]
    congr 1
    have hpb : p = b := by omega
    subst hpb
    apply ofDigits_inj (2 ^ 5) R5 data (by omega) hlt5 hd
    rw [hval5, hval8]
    exact Nat.div_mul_cancel (Nat.dvd_of_mod_eq_zero hdiv)

end Pycoin.Bech32
