import Pycoin.Proofs.ChainLookup
/-!
What a state that satisfies the full invariant and the records invariant reports, in terms of the specification over
the delivered set (core Lean only).
-/
namespace Pycoin.Chain
open Pycoin.Spec.Chain

theorem chainWeight_reverse (w : Dict Nat) (c : List Nat) : chainWeight w c.reverse = chainWeight w c := by
  simp [chainWeight, List.sum_reverse]

/-- the locked part is a chain of the specification from the first anchor -/
theorem state_locked_chain {anchor0 : Nat} {D : List Header} {bc : BC} (r : Rec anchor0 D bc)
    (hc : Consistent (D.map Header.toHdr)) : IsChainFrom (D.map Header.toHdr) anchor0 (lockedSpec bc) := by
  have rc := r.toC hc
  -- go through membership: every item is a delivered header, parents are linked by `ItemsFrom`
  have key : ∀ (a : Nat) (l : List Item), ItemsFrom D a l → (∀ it ∈ l, ∃ w, it.2.2 = some w ∧
      (⟨it.1, it.2.1, w⟩ : Hdr) ∈ D.map Header.toHdr) →
      IsChainFrom (D.map Header.toHdr) a (l.map fun it => (⟨it.1, it.2.1, it.2.2.getD 0⟩ : Hdr)) := by
    intro a l
    induction l generalizing a with
    | nil => intro _ _; exact IsChainFrom.nil _
    | cons it r ih =>
      obtain ⟨h, p, w⟩ := it
      intro hi hm
      obtain ⟨h1, _, _, h4⟩ := hi
      obtain ⟨wv, e, hmem⟩ := hm (h, p, w) (by simp)
      simp only at e hmem
      subst e
      simp only [List.map_cons, Option.getD_some]
      exact IsChainFrom.cons hmem h1 (ih h h4 (fun it hit => hm it (List.mem_cons_of_mem _ hit)))
  exact key anchor0 bc.locked r.items rc.item

/-- the unlocked part is a chain of the specification from the current anchor -/
theorem state_unlocked_chain {anchor0 : Nat} {DS : List Hdr} {bc : BC} {c : List Nat} (g : Good anchor0 bc c)
    (rc : RecC anchor0 DS bc) : IsChainFrom DS bc.parentHash (specOf bc.finder.parent bc.weight c.reverse) := by
  refine upPath_chain DS _ _ ?_ _ c g.path
  intro h p hp
  obtain ⟨wv, hwv⟩ := (dhas_iff _ _).mp (g.weights h ((dhas_iff _ _).mpr ⟨p, hp⟩))
  exact ⟨wv, hwv, rc.sound h p wv hp hwv⟩

/-- no chain of the specification from the current anchor, over ALL delivered headers, is heavier than the reported
unlocked chain -/
theorem state_heaviest {anchor0 : Nat} {D : List Header} {bc : BC} {c : List Nat} (f : Full anchor0 bc c)
    (r : Rec anchor0 D bc) (hc : Consistent (D.map Header.toHdr)) :
    ∀ sc, IsChainFrom (D.map Header.toHdr) bc.parentHash sc → totalWeight sc ≤ chainWeight bc.weight c := by
  intro sc hsc
  have rc := r.toC hc
  obtain ⟨hpar, hq⟩ := anchor_not_parent_field f.good r
  have hav := chain_avoids_locked hc rc hpar bc.parentHash sc hsc hq
  -- the delivered headers that are not locked: all of them are recorded
  let D' := (D.map Header.toHdr).filter fun hd => decide (hd.hash ∉ lockedHashes bc)
  have hsc' : IsChainFrom D' bc.parentHash sc := by
    refine IsChainFrom.restrict hsc ?_
    intro hd hm
    exact List.mem_filter.mpr ⟨IsChainFrom.mem hsc hd hm, by simpa using hav hd hm⟩
  have hD' : ∀ hd ∈ D', dget bc.finder.parent hd.hash = some hd.parent ∧ dget bc.weight hd.hash = some hd.weight := by
    intro hd hm
    obtain ⟨h1, h2⟩ := List.mem_filter.mp hm
    exact rc.unlocked hd h1 (by simpa using h2)
  obtain ⟨l, e⟩ := spec_chain_links D' _ _ hD' _ sc hsc'
  have hanchor : dget bc.finder.parent bc.parentHash = none :=
    UpPath.last_unregistered _ f.good.path bc.parentHash (by simp)
  have hu : UpPath bc.finder.parent ((sc.map (·.hash)).reverse ++ [bc.parentHash]) := by
    refine UpPath.of_links _ (by simp) l ?_
    intro x hx
    simp at hx; subst hx; exact hanchor
  rw [e]; exact f.heaviest _ hu

/-- **what a good state reports**, against the specification over the delivered set -/
theorem state_final {anchor0 : Nat} {D : List Header} {bc : BC} {c : List Nat} (rev : Bool) (f : Full anchor0 bc c)
    (r : Rec anchor0 D bc) (hc : Consistent (D.map Header.toHdr)) :
    ∃ lockedC unlockedC : List Hdr,
      lockedC.map (·.hash) = lockedHashes bc ∧ unlockedC.map (·.hash) = c.reverse ∧
      IsChainFrom (D.map Header.toHdr) anchor0 (lockedC ++ unlockedC) ∧
      IsHeaviestFrom (D.map Header.toHdr) bc.parentHash unlockedC ∧
      ∀ i (hi : i < (lockedC ++ unlockedC).length), bc.tupleForIndex rev i =
        .ok ((lockedC ++ unlockedC)[i].hash, (lockedC ++ unlockedC)[i].parent, some (lockedC ++ unlockedC)[i].weight) := by
  have rc := r.toC hc
  have g := f.good
  have hl := state_locked_chain r hc
  have hu := state_unlocked_chain g rc
  have hlen : (lockedSpec bc).length = bc.locked.length := by simp [lockedSpec]
  refine ⟨lockedSpec bc, specOf bc.finder.parent bc.weight c.reverse, lockedSpec_hash bc, specOf_hash _ _ _, ?_, ⟨hu, ?_⟩, ?_⟩
  · refine IsChainFrom.append hl _ ?_
    rw [lockedSpec_hash, ← g.parentIs]; exact hu
  · intro sc hsc
    rw [specOf_weight, chainWeight_reverse]
    exact state_heaviest f r hc sc hsc
  · intro i hi
    by_cases hlt : i < bc.locked.length
    · rw [tupleForIndex_locked rev bc i hlt, List.getElem_append_left (by omega)]
      obtain ⟨w, e, _⟩ := rc.item bc.locked[i] (List.getElem_mem _)
      simp only [lockedSpec, List.getElem_map, e, Option.getD_some]
      rw [← e]
    · have hj : i - bc.locked.length < c.length := by
        simp only [List.length_append, hlen, specOf, List.length_map, List.length_reverse] at hi; omega
      obtain ⟨x, p, hx, hp, ht⟩ := tupleForIndex_unlocked rev g (i - bc.locked.length) hj
      have hi' : bc.locked.length + (i - bc.locked.length) = i := by omega
      rw [hi'] at ht
      rw [ht]
      have hget : (lockedSpec bc ++ specOf bc.finder.parent bc.weight c.reverse)[i]? =
          some (lockedSpec bc ++ specOf bc.finder.parent bc.weight c.reverse)[i] := List.getElem?_eq_getElem hi
      generalize (lockedSpec bc ++ specOf bc.finder.parent bc.weight c.reverse)[i] = hd at hget ⊢
      rw [List.getElem?_append_right (by omega), hlen] at hget
      have hpg : (bc.parentHash :: c.reverse)[i - bc.locked.length]? = some hd.parent := by
        obtain ⟨hlt', e⟩ := List.getElem?_eq_some_iff.mp hget
        have := IsChainFrom.parent_get hu (i - bc.locked.length) hlt'
        rw [specOf_hash, e] at this
        exact this
      rw [hp] at hpg
      simp only [Option.some.injEq] at hpg
      have hxe : hd = ⟨x, (dget bc.finder.parent x).getD 0, (dget bc.weight x).getD 0⟩ := by
        simp only [specOf, List.getElem?_map, hx, Option.map_some, Option.some.injEq] at hget
        exact hget.symm
      have hxc : x ∈ c := by
        have := List.mem_of_getElem? hx
        simpa using this
      obtain ⟨v, hv⟩ := UpPath.registered c _ g.path x hxc
      obtain ⟨wv, hwv⟩ := (dhas_iff _ _).mp (g.weights x ((dhas_iff _ _).mpr ⟨v, hv⟩))
      rw [hpg]
      rw [hxe]
      simp only [hwv, Option.getD_some]

/-- chains of the specification that share their hashes and live in a consistent set are equal -/
theorem eq_of_hashes {DS : List Hdr} (hc : Consistent DS) : ∀ (a b : List Hdr), (∀ x ∈ a, x ∈ DS) → (∀ x ∈ b, x ∈ DS) →
    a.map (·.hash) = b.map (·.hash) → a = b
  | [], [], _, _, _ => rfl
  | [], _ :: _, _, _, h => by simp at h
  | _ :: _, [], _, _, h => by simp at h
  | x :: a, y :: b, ha, hb, h => by
      simp only [List.map_cons, List.cons.injEq] at h
      have := hc x (ha x (by simp)) y (hb y (by simp)) h.1
      subst this
      rw [eq_of_hashes hc a b (fun z hz => ha z (List.mem_cons_of_mem _ hz))
        (fun z hz => hb z (List.mem_cons_of_mem _ hz)) h.2]

theorem totalWeight_append (a b : List Hdr) : totalWeight (a ++ b) = totalWeight a + totalWeight b := by
  simp [totalWeight]

/-- among the chains from the FIRST anchor that extend the locked prefix, the reported chain is a heaviest one -/
theorem heaviest_extending {DS : List Hdr} (hc : Consistent DS) (anchor0 : Nat) (lockedC unlockedC : List Hdr)
    (hwhole : IsChainFrom DS anchor0 (lockedC ++ unlockedC))
    (hmax : ∀ sc, IsChainFrom DS (((lockedC.map (·.hash)).getLast?).getD anchor0) sc → totalWeight sc ≤ totalWeight unlockedC) :
    ∀ sc, IsChainFrom DS anchor0 sc → (sc.map (·.hash)).take lockedC.length = lockedC.map (·.hash) →
      totalWeight sc ≤ totalWeight (lockedC ++ unlockedC) := by
  intro sc hsc hpre
  have hsplit : sc = sc.take lockedC.length ++ sc.drop lockedC.length := (List.take_append_drop _ _).symm
  rw [hsplit] at hsc
  obtain ⟨h1, h2⟩ := IsChainFrom.split _ _ _ hsc
  have hlk := (IsChainFrom.split _ _ _ hwhole).1
  have e : sc.take lockedC.length = lockedC := by
    refine eq_of_hashes hc _ _ (IsChainFrom.mem h1) (IsChainFrom.mem hlk) ?_
    rw [List.map_take]; exact hpre
  rw [e] at h2
  rw [hsplit, e, totalWeight_append, totalWeight_append]
  have := hmax _ h2
  omega

end Pycoin.Chain
