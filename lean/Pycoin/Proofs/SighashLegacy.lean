import Pycoin.Proofs.SighashTail
import Pycoin.Props.C07
/-!
C04 helper lemmas: the temporary transaction `_signature_hash` builds, serialised by `Tx.stream` and followed by the
hash type, is byte for byte what Core's `CTransactionSignatureSerializer` writes.
-/
namespace Pycoin.Sighash
open Pycoin Pycoin.Wire Pycoin.Spec.Sighash Pycoin.Spec.Wire

/-! ## list helpers -/

theorem range_map_getElem? {α β : Type} (l : List α) (d : β) (g : Nat → α → β) :
    (List.range l.length).map (fun i => match l[i]? with | none => d | some a => g i a) = l.mapIdx g := by
  apply List.ext_getElem?
  intro i
  by_cases h : i < l.length
  · simp [h]
  · simp [h]

theorem map_mapIdx' {α β γ : Type} (l : List α) (f : Nat → α → β) (g : β → γ) :
    (l.mapIdx f).map g = l.mapIdx (fun i a => g (f i a)) := by
  apply List.ext_getElem?
  intro i
  simp [List.getElem?_mapIdx]
  rfl

theorem mapIdx_const_eq_map {α β : Type} (l : List α) (g : α → β) : l.mapIdx (fun _ a => g a) = l.map g := by
  apply List.ext_getElem?
  intro i
  simp [List.getElem?_mapIdx]

theorem range_map_const {β : Type} (n : Nat) (f : Nat → β) (c : β) (h : ∀ i, i < n → f i = c) :
    (List.range n).map f = List.replicate n c := by
  have := (List.map_eq_replicate_iff (l := List.range n) (f := f) (b := c)).mpr
    (fun x hx => h x (List.mem_range.mp hx))
  simpa using this

/-! ## the generated constants -/

theorem c_mask : Gen.Sighash.legacyMask = 0x1f := rfl
theorem c_none : Gen.Sighash.sighashNone = 2 := rfl
theorem c_single : Gen.Sighash.sighashSingle = 3 := rfl
theorem c_acp : Gen.Sighash.sighashAnyonecanpay = 0x80 := rfl
theorem c_null : nullOut = ⟨0xffffffffffffffff, []⟩ := rfl
theorem c_fmt (c : Coin) :
    (if c.singleSha then Gen.Formats.grsTx_hash_hashType else Gen.Formats.tx_hash_hashType) = ['L'] := by
  cases c.singleSha <;> rfl

/-! ## the temporary transaction, described by the three flags -/

def zFlag (ht : Nat) : Bool := fHashSingle ht || fHashNone ht

def ins0 (tx : Tx) (stripped : Bytes) (idx : Nat) : List TxIn := tx.ins.mapIdx fun i t => txInForIdx i idx t stripped

def ins1 (tx : Tx) (stripped : Bytes) (idx ht : Nat) : List TxIn :=
  if zFlag ht then zeroOtherSequences idx (ins0 tx stripped idx) else ins0 tx stripped idx

def insOf (tx : Tx) (stripped : Bytes) (idx ht : Nat) : List TxIn :=
  if fAnyoneCanPay ht then (ins1 tx stripped idx ht)[idx]?.toList else ins1 tx stripped idx ht

def outsOf (tx : Tx) (idx ht : Nat) : List TxOut :=
  if fHashNone ht then []
  else if fHashSingle ht then
    match tx.outs[idx]? with
    | some o => List.replicate idx nullOut ++ [o]
    | none => []
  else tx.outs

theorem ins1_length (tx : Tx) (stripped : Bytes) (idx ht : Nat) : (ins1 tx stripped idx ht).length = tx.ins.length := by
  unfold ins1 zeroOtherSequences ins0
  split <;> simp

theorem flags_excl (ht : Nat) (h : fHashNone ht = true) : fHashSingle ht = false := by
  unfold fHashNone at h
  unfold fHashSingle
  simp only [beq_iff_eq] at h
  simp [h, SIGHASH_NONE, SIGHASH_SINGLE]

theorem legacyTmpTx_eq (tx : Tx) (stripped : Bytes) (idx ht : Nat) (hidx : idx < tx.ins.length) :
    legacyTmpTx tx stripped idx ht =
      .ok (if fHashSingle ht && decide (idx ≥ tx.outs.length) then none
           else some ⟨tx.version, insOf tx stripped idx ht, outsOf tx idx ht, tx.lockTime⟩) := by
  have hlen := ins1_length tx stripped idx ht
  have hsome : ∃ t, (ins1 tx stripped idx ht)[idx]? = some t := by
    have : idx < (ins1 tx stripped idx ht).length := by omega
    exact ⟨_, List.getElem?_eq_getElem this⟩
  obtain ⟨t1, ht1⟩ := hsome
  unfold legacyTmpTx blank
  simp only [c_mask, c_none, c_single, c_acp]
  by_cases hN : ht &&& 0x1f = 2
  · have fN : fHashNone ht = true := by simp [fHashNone, SIGHASH_NONE, hN]
    have fS : fHashSingle ht = false := flags_excl ht fN
    have hz : zFlag ht = true := by simp [zFlag, fN]
    have h1 : ins1 tx stripped idx ht = zeroOtherSequences idx (ins0 tx stripped idx) := by simp [ins1, hz]
    simp only [ins0] at h1
    simp only [hN, if_true, fS, Bool.false_and, Bool.false_eq_true, if_false, ← h1]
    by_cases hA : ht &&& 0x80 ≠ 0
    · have fA : fAnyoneCanPay ht = true := by simp [fAnyoneCanPay, SIGHASH_ANYONECANPAY, hA]
      simp [hA, ht1, insOf, fA, outsOf, fN]
    · have fA : fAnyoneCanPay ht = false := by
        simp only [ne_eq, Decidable.not_not] at hA
        simp [fAnyoneCanPay, SIGHASH_ANYONECANPAY, hA]
      simp [hA, insOf, fA, outsOf, fN]
  · have fN : fHashNone ht = false := by simp [fHashNone, SIGHASH_NONE, hN]
    simp only [hN, if_false]
    by_cases hS : ht &&& 0x1f = 3
    · have fS : fHashSingle ht = true := by simp [fHashSingle, SIGHASH_SINGLE, hS]
      have hz : zFlag ht = true := by simp [zFlag, fS]
      have h1 : ins1 tx stripped idx ht = zeroOtherSequences idx (ins0 tx stripped idx) := by simp [ins1, hz]
      simp only [ins0] at h1
      simp only [hS, if_true, fS, Bool.true_and, ← h1]
      cases ho : tx.outs[idx]? with
      | none =>
        have : idx ≥ tx.outs.length := by
          rcases Nat.lt_or_ge idx tx.outs.length with h | h
          · rw [List.getElem?_eq_getElem h] at ho; cases ho
          · exact h
        simp [this]
      | some o =>
        have : ¬ idx ≥ tx.outs.length := by
          intro h
          rw [List.getElem?_eq_none h] at ho; cases ho
        simp only [this, decide_false, Bool.false_eq_true, if_false]
        by_cases hA : ht &&& 0x80 ≠ 0
        · have fA : fAnyoneCanPay ht = true := by simp [fAnyoneCanPay, SIGHASH_ANYONECANPAY, hA]
          simp [hA, ht1, insOf, fA, outsOf, fN, fS, ho]
        · have fA : fAnyoneCanPay ht = false := by
            simp only [ne_eq, Decidable.not_not] at hA
            simp [fAnyoneCanPay, SIGHASH_ANYONECANPAY, hA]
          simp [hA, insOf, fA, outsOf, fN, fS, ho]
    · have fS : fHashSingle ht = false := by simp [fHashSingle, SIGHASH_SINGLE, hS]
      have hz : zFlag ht = false := by simp [zFlag, fS, fN]
      have h1 : ins1 tx stripped idx ht = ins0 tx stripped idx := by simp [ins1, hz]
      simp only [ins0] at h1
      simp only [hS, if_false, fS, Bool.false_and, Bool.false_eq_true, ← h1]
      by_cases hA : ht &&& 0x80 ≠ 0
      · have fA : fAnyoneCanPay ht = true := by simp [fAnyoneCanPay, SIGHASH_ANYONECANPAY, hA]
        simp [hA, ht1, insOf, fA, outsOf, fN, fS]
      · have fA : fAnyoneCanPay ht = false := by
          simp only [ne_eq, Decidable.not_not] at hA
          simp [fAnyoneCanPay, SIGHASH_ANYONECANPAY, hA]
        simp [hA, insOf, fA, outsOf, fN, fS]

/-! ## inputs -/

/-- what position `i` of the input list must serialise to -/
def inBytes (idx : Nat) (stripped : Bytes) (z : Bool) (i : Nat) (t : TxIn) : Bytes :=
  t.prevHash ++ le 4 t.prevIndex.toNat ++ (if i = idx then varBytes stripped else compactSize 0) ++
    (if i ≠ idx ∧ z = true then le 4 0 else le 4 t.sequence.toNat)

theorem ins1_bytes (tx : Tx) (stripped : Bytes) (idx ht : Nat) :
    (ins1 tx stripped idx ht).map txin = tx.ins.mapIdx (inBytes idx stripped (zFlag ht)) := by
  unfold ins1
  cases zFlag ht with
  | false =>
    simp only [Bool.false_eq_true, if_false, ins0, map_mapIdx']
    congr 1
    funext i t
    by_cases h : i = idx <;> simp [txin, txInForIdx, inBytes, h, varBytes]
  | true =>
    simp only [if_true, ins0, zeroOtherSequences, List.mapIdx_mapIdx, map_mapIdx']
    congr 1
    funext i t
    by_cases h : i = idx <;> simp [txin, txInForIdx, inBytes, h, varBytes]

theorem spec_ins (tx : Tx) (script stripped : Bytes) (idx ht : Nat) (hacp : fAnyoneCanPay ht = false)
    (hser : serializeScriptCode script = varBytes stripped) :
    (List.range tx.ins.length).map (serializeInput tx script idx ht) = tx.ins.mapIdx (inBytes idx stripped (zFlag ht)) := by
  rw [← range_map_getElem? tx.ins [] (inBytes idx stripped (zFlag ht))]
  congr 1
  funext i
  unfold serializeInput
  simp only [hacp, Bool.false_eq_true, if_false]
  cases tx.ins[i]? with
  | none => rfl
  | some t =>
    by_cases h : i = idx
    · simp [inBytes, h, hser]
    · simp [inBytes, h, zFlag]

theorem spec_ins_acp (tx : Tx) (script stripped : Bytes) (idx ht : Nat) (hacp : fAnyoneCanPay ht = true)
    (hser : serializeScriptCode script = varBytes stripped) (t : TxIn) (ht0 : tx.ins[idx]? = some t) (z : Bool) :
    (List.range 1).map (serializeInput tx script idx ht) = [inBytes idx stripped z idx t] := by
  simp [List.range_succ, serializeInput, hacp, ht0, inBytes, hser]

/-- the inputs of the temporary transaction serialise to what `SerializeInput` writes -/
theorem insOf_bytes (tx : Tx) (script stripped : Bytes) (idx ht : Nat) (hidx : idx < tx.ins.length)
    (hser : serializeScriptCode script = varBytes stripped) :
    (insOf tx stripped idx ht).length = (if fAnyoneCanPay ht then 1 else tx.ins.length) ∧
    (insOf tx stripped idx ht).map txin =
      (List.range (if fAnyoneCanPay ht then 1 else tx.ins.length)).map (serializeInput tx script idx ht) := by
  unfold insOf
  cases hacp : fAnyoneCanPay ht with
  | false =>
    simp only [Bool.false_eq_true, if_false]
    exact ⟨ins1_length tx stripped idx ht, by rw [ins1_bytes, spec_ins tx script stripped idx ht hacp hser]⟩
  | true =>
    simp only [if_true]
    have ht0 : tx.ins[idx]? = some tx.ins[idx] := List.getElem?_eq_getElem hidx
    have hb := congrArg (fun l => l[idx]?) (ins1_bytes tx stripped idx ht)
    simp only [List.getElem?_map, List.getElem?_mapIdx, ht0, Option.map_some] at hb
    rw [spec_ins_acp tx script stripped idx ht hacp hser _ ht0 (zFlag ht)]
    cases h1 : (ins1 tx stripped idx ht)[idx]? with
    | none => simp [h1] at hb
    | some t1 =>
      simp only [h1, Option.map_some, Option.some.injEq] at hb
      simp [Option.toList, hb]

/-! ## outputs -/

theorem txout_null : txout nullOut = le 8 0xffffffffffffffff ++ compactSize 0 := by
  simp [c_null, txout, varBytes]

/-- the outputs of the temporary transaction serialise to what `SerializeOutput` writes -/
theorem outsOf_bytes (tx : Tx) (idx ht : Nat) (hb : ¬ (fHashSingle ht = true ∧ idx ≥ tx.outs.length)) :
    (outsOf tx idx ht).length = (if fHashNone ht then 0 else if fHashSingle ht then idx + 1 else tx.outs.length) ∧
    (outsOf tx idx ht).map txout =
      (List.range (if fHashNone ht then 0 else if fHashSingle ht then idx + 1 else tx.outs.length)).map
        (serializeOutput tx idx ht) := by
  unfold outsOf
  cases fN : fHashNone ht with
  | true => simp
  | false =>
    simp only [Bool.false_eq_true, if_false]
    cases fS : fHashSingle ht with
    | true =>
      simp only [if_true]
      have hlt : idx < tx.outs.length := by
        rcases Nat.lt_or_ge idx tx.outs.length with h | h
        · exact h
        · exact absurd ⟨fS, h⟩ hb
      have ho : tx.outs[idx]? = some tx.outs[idx] := List.getElem?_eq_getElem hlt
      simp only [ho]
      refine ⟨by simp, ?_⟩
      rw [List.range_succ, List.map_append, List.map_append]
      congr 1
      · rw [range_map_const idx (serializeOutput tx idx ht) (txout nullOut)]
        · simp
        · intro i hi
          have : i ≠ idx := by omega
          simp [serializeOutput, fS, this, txout_null]
      · simp [serializeOutput, fS, ho]
    | false =>
      simp only [Bool.false_eq_true, if_false, true_and]
      have e := range_map_getElem? tx.outs ([] : Bytes) (fun _ o => txout o)
      rw [mapIdx_const_eq_map] at e
      rw [← e]
      congr 1
      funext i
      unfold serializeOutput
      simp only [fS, Bool.false_and, Bool.false_eq_true, if_false]
      cases tx.outs[i]? <;> rfl

/-! ## the temporary transaction has its fields in range -/

theorem ins1_wf (tx : Tx) (hwf : tx.WF) (stripped : Bytes) (hs : LenOk stripped) (idx ht : Nat) :
    ∀ t ∈ ins1 tx stripped idx ht, t.WF := by
  intro t ht'
  unfold ins1 zeroOtherSequences ins0 at ht'
  have key : ∃ i, ∃ h : i < tx.ins.length,
      t = txInForIdx i idx tx.ins[i] stripped ∨ t = { txInForIdx i idx tx.ins[i] stripped with sequence := 0 } := by
    split at ht'
    · rw [List.mapIdx_mapIdx] at ht'
      obtain ⟨i, h, e⟩ := List.mem_mapIdx.mp ht'
      refine ⟨i, h, ?_⟩
      simp only [Function.comp] at e
      split at e
      · right; exact e.symm
      · left; exact e.symm
    · obtain ⟨i, h, e⟩ := List.mem_mapIdx.mp ht'
      exact ⟨i, h, Or.inl e.symm⟩
  obtain ⟨i, h, e⟩ := key
  have hw := hwf.ins tx.ins[i] (List.getElem_mem h)
  have hsc : LenOk (if i = idx then stripped else []) := by
    split
    · exact hs
    · show ([] : Bytes).length < 2 ^ 63
      simp
  rcases e with e | e <;> subst e
  · exact ⟨hw.hash, hw.index, hsc, hw.sequence, by simp [txInForIdx], by simp [txInForIdx]⟩
  · exact ⟨hw.hash, hw.index, hsc, (show U32 (0 : Int) from ⟨by decide, by decide⟩), by simp [txInForIdx], by simp [txInForIdx]⟩

theorem tmp_wf (tx : Tx) (hwf : tx.WF) (stripped : Bytes) (hs : LenOk stripped) (idx ht : Nat) (hidx : idx < tx.ins.length)
    (hb : ¬ (fHashSingle ht = true ∧ idx ≥ tx.outs.length)) :
    (⟨tx.version, insOf tx stripped idx ht, outsOf tx idx ht, tx.lockTime⟩ : Tx).WF := by
  have hi := ins1_wf tx hwf stripped hs idx ht
  have hil := ins1_length tx stripped idx ht
  refine ⟨hwf.version, hwf.lockTime, ?_, ?_, ?_, ?_⟩
  · have := hwf.inCount
    show (insOf tx stripped idx ht).length < _
    unfold insOf
    split
    · cases (ins1 tx stripped idx ht)[idx]? <;> simp [Option.toList]
    · omega
  · have := hwf.outCount
    have h2 := (outsOf_bytes tx idx ht hb).1
    show (outsOf tx idx ht).length < _
    rw [h2]
    split
    · simp
    · split
      · rename_i fS
        have : idx < tx.outs.length := by
          rcases Nat.lt_or_ge idx tx.outs.length with h | h
          · exact h
          · exact absurd ⟨fS, h⟩ hb
        omega
      · omega
  · intro t ht'
    show t.WF
    have ht' : t ∈ insOf tx stripped idx ht := ht'
    unfold insOf at ht'
    split at ht'
    · cases h1 : (ins1 tx stripped idx ht)[idx]? with
      | none => simp [h1, Option.toList] at ht'
      | some t1 =>
        simp only [h1, Option.toList, List.mem_singleton] at ht'
        subst ht'
        exact hi t (List.mem_of_getElem? h1)
    · exact hi t ht'
  · intro o ho
    have ho : o ∈ outsOf tx idx ht := ho
    unfold outsOf at ho
    split at ho
    · simp at ho
    · split at ho
      · cases h1 : tx.outs[idx]? with
        | none => simp [h1] at ho
        | some o1 =>
          simp only [h1, List.mem_append, List.mem_replicate, List.mem_singleton] at ho
          rcases ho with ⟨_, rfl⟩ | rfl
          · exact ⟨⟨by decide, by decide⟩, by show ([] : Bytes).length < 2 ^ 63; simp⟩
          · exact hwf.outs o (List.mem_of_getElem? h1)
      · exact hwf.outs o ho

/-! ## assembly -/

/-- **the bytes `_signature_hash` digests are the bytes `CTransactionSignatureSerializer` writes**, and the early
return happens exactly when consensus returns the constant one -/
theorem legacyPreimage_eq_tw (c : Coin) (tx : Tx) (hwf : tx.WF) (idx : Nat) (hidx : idx < tx.ins.length)
    (script : Bytes) (hc : TailWritten script) (hlen : LenOk script) (ht : Nat) (hht : ht < 2 ^ 32) :
    Sighash.legacyPreimage c tx script idx ht =
      .ok (if fHashSingle ht && decide (idx ≥ tx.outs.length) then none
           else some (Spec.Sighash.legacyPreimage tx idx script ht)) := by
  obtain ⟨stripped, hdel, hsl, hser⟩ := strip_is_serializeScriptCode_tw script hc
  have hs : LenOk stripped := by unfold LenOk at hlen ⊢; omega
  unfold Sighash.legacyPreimage
  rw [hdel]
  simp only [legacyTmpTx_eq tx stripped idx ht hidx]
  by_cases hb : fHashSingle ht = true ∧ idx ≥ tx.outs.length
  · simp [hb.1, hb.2]
  · have hb' : (fHashSingle ht && decide (idx ≥ tx.outs.length)) = false := by
      cases h1 : fHashSingle ht with
      | false => rfl
      | true =>
        have : ¬ idx ≥ tx.outs.length := fun h => hb ⟨h1, h⟩
        simp [this]
    simp only [hb', Bool.false_eq_true, if_false]
    have hwf' := tmp_wf tx hwf stripped hs idx ht hidx hb
    have hstream := stream_eq_spec _ hwf' false
    simp only [Bool.false_and, Bool.false_eq_true, if_false] at hstream
    have hU : U32 (ht : Int) := ⟨by omega, by omega⟩
    have hL := streamStruct_L_eq (ht : Int) hU
    unfold hashTypePreimage
    rw [hstream, c_fmt c, hL]
    simp only [Int.toNat_natCast]
    apply congrArg Except.ok
    apply congrArg some
    obtain ⟨hil, hib⟩ := insOf_bytes tx script stripped idx ht hidx hser
    obtain ⟨hol, hob⟩ := outsOf_bytes tx idx ht hb
    unfold Spec.Wire.legacy Spec.Sighash.legacyPreimage
    simp only [hil, hib, hol, hob, List.append_assoc]

theorem legacyPreimage_eq (c : Coin) (tx : Tx) (hwf : tx.WF) (idx : Nat) (hidx : idx < tx.ins.length)
    (script : Bytes) (hc : Complete script) (hlen : LenOk script) (ht : Nat) (hht : ht < 2 ^ 32) :
    Sighash.legacyPreimage c tx script idx ht =
      .ok (if fHashSingle ht && decide (idx ≥ tx.outs.length) then none
           else some (Spec.Sighash.legacyPreimage tx idx script ht)) :=
  legacyPreimage_eq_tw c tx hwf idx hidx script (tailWritten_of_complete hc) hlen ht hht

end Pycoin.Sighash
