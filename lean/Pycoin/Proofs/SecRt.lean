import Pycoin.Proofs.Sec
/-! SEC round trip (`decode (encode P) = P`) for both forms.  The compressed form goes through `points_for_x`
(`Proofs/Sqrt.lean`, C02). -/
namespace Pycoin.Sec
open Pycoin Pycoin.Curve

theorem slice_cons_left (b : UInt8) (xs ys : Bytes) (k : Nat) (h : xs.length = k) :
    slice (b :: (xs ++ ys)) 1 (1 + k) = xs := by
  subst h; simp [slice]

theorem slice_cons_right (b : UInt8) (xs ys : Bytes) (k : Nat) (hx : xs.length = k) (hy : ys.length = k) :
    slice (b :: (xs ++ ys)) (1 + k) (1 + 2 * k) = ys := by
  subst hx
  unfold slice
  have : (b :: (xs ++ ys)).drop (1 + xs.length) = ys := by
    rw [Nat.add_comm]; simp
  rw [this]
  apply List.take_of_length_le
  omega

theorem slice_cons_all (b : UInt8) (xs : Bytes) (k : Nat) (h : xs.length = k) :
    slice (b :: xs) 1 (1 + k) = xs := by
  have := slice_cons_left b xs [] k h
  simpa using this

/-- uncompressed form: `04 ‖ x ‖ y` decodes to `(x, y)` in both modes -/
theorem secToPublicPair_uncompressed (c : CurveParams) (hc : Field32 c) (x y : Int)
    (hx0 : 0 ≤ x) (hx : x < c.p) (hy0 : 0 ≤ y) (hy : y < c.p) (strict : Bool) :
    ∃ blob, publicPairToSec x y false = .ok blob ∧ blob.length = 65 ∧ blob.take 1 = [4] ∧
      isSecCompressed blob = false ∧ secToPublicPair c blob strict = .ok (x, y) := by
  have hlt := hc.lt
  have hx1 : x < 2 ^ 256 := by omega
  have hy1 : y < 2 ^ 256 := by omega
  refine ⟨4 :: (beBytes x.toNat 32 ++ beBytes y.toNat 32), ?_, by simp, by simp, by simp [isSecCompressed], ?_⟩
  · unfold publicPairToSec
    rw [toBytes32_ok hx0 hx1, toBytes32_ok hy0 hy1]
    simp
  · unfold secToPublicPair
    simp only [hc.bc]
    have hlen : ((4 : UInt8) :: (beBytes x.toNat 32 ++ beBytes y.toNat 32)).length = 1 + 32 * 2 := by simp
    rw [if_pos hlen]
    have h0 : ((4 : UInt8) :: (beBytes x.toNat 32 ++ beBytes y.toNat 32)).take 1 = [4] := by simp
    simp only [h0, true_or, if_true]
    rw [slice_cons_left _ _ _ 32 (by simp), slice_cons_right _ _ _ 32 (by simp) (by simp)]
    rw [fromBytes32_beBytes (by omega), fromBytes32_beBytes (by omega)]
    have hxx : ((x.toNat : Nat) : Int) = x := by omega
    have hyy : ((y.toNat : Nat) : Int) = y := by omega
    rw [hxx, hyy]
    have : ¬ (x ≥ c.p ∨ y ≥ c.p) := by omega
    rw [if_neg this]

variable (c : CurveParams) [Good c]

/-- compressed form: `(02 | 03) ‖ x` decodes to `(x, y)` in both modes, for a reduced curve point with `y ≠ 0`
(a point with `y = 0` has order two; `points_for_x` raises on it) -/
theorem secToPublicPair_compressed (hc : Field32 c) (h4 : c.p % 4 = 3) (x y : Int)
    (hx0 : 0 ≤ x) (hx : x < c.p) (hy0 : 0 < y) (hy : y < c.p) (hon : containsXY c x y = true) (strict : Bool) :
    ∃ blob, publicPairToSec x y true = .ok blob ∧ blob.length = 33 ∧ (blob.take 1 = [2] ∨ blob.take 1 = [3]) ∧
      isSecCompressed blob = true ∧ secToPublicPair c blob strict = .ok (x, y) := by
  have hlt := hc.lt
  have hx1 : x < 2 ^ 256 := by omega
  -- α = y² is a non-zero square
  have heq : alphaOf c x = (y : ZMod c.p) ^ 2 := by
    have := (containsXY_iff c x y).mp hon
    rw [W_equation_iff] at this
    unfold alphaOf
    exact this.symm
  have hyne : (y : ZMod c.p) ≠ 0 := by
    intro h0
    rw [ZMod.intCast_zmod_eq_zero_iff_dvd] at h0
    have := Int.le_of_dvd hy0 h0
    omega
  have hα : alphaOf c x ≠ 0 := by rw [heq]; exact pow_ne_zero 2 hyne
  have hsq : IsSquare (alphaOf c x) := ⟨(y : ZMod c.p), by rw [heq]; ring⟩
  obtain ⟨y0, y1, hpfx, -, -, hy0p, hy0l, hy1p, hy1l, hev, hsum, huniq⟩ := (pointsForX_spec c h4 x hα).1 hsq
  have hodd := hc.odd
  have hxx : ((x.toNat : Nat) : Int) = x := by omega
  have dec : ∀ (b : UInt8), (b = 2 ∧ y = y0) ∨ (b = 3 ∧ y = y1) →
      secToPublicPair c (b :: beBytes x.toNat 32) strict = .ok (x, y) := by
    intro b hb
    unfold secToPublicPair
    simp only [hc.bc]
    have hlen : ¬ ((b :: beBytes x.toNat 32).length = 1 + 32 * 2) := by simp
    have hlen2 : (b :: beBytes x.toNat 32).length = 1 + 32 := by simp
    rw [if_neg hlen, if_pos hlen2]
    have h0 : (b :: beBytes x.toNat 32).take 1 = [b] := by simp
    rw [slice_cons_all _ _ 32 (by simp), fromBytes32_beBytes (by omega), hxx]
    have hpre : ¬ (strict = true) ∨ (b :: beBytes x.toNat 32).take 1 = [2] ∨ (b :: beBytes x.toNat 32).take 1 = [3] := by
      rcases hb with ⟨hb, -⟩ | ⟨hb, -⟩ <;> simp [hb]
    rw [if_pos hpre]
    have : ¬ (x ≥ c.p) := by omega
    rw [if_neg this]
    simp only [hpfx]
    rcases hb with ⟨hb, hyy⟩ | ⟨hb, hyy⟩
    · subst hb; subst hyy; simp
    · subst hb; subst hyy; simp
  rcases huniq y (by omega) hy hon with hyy | hyy
  · refine ⟨2 :: beBytes x.toNat 32, ?_, by simp, by simp, by simp [isSecCompressed], dec 2 (Or.inl ⟨rfl, hyy⟩)⟩
    unfold publicPairToSec
    rw [toBytes32_ok hx0 hx1, fmod2]
    have : y % 2 = 0 := by rw [hyy]; exact hev
    simp [this]
  · refine ⟨3 :: beBytes x.toNat 32, ?_, by simp, by simp, by simp [isSecCompressed], dec 3 (Or.inr ⟨rfl, hyy⟩)⟩
    unfold publicPairToSec
    rw [toBytes32_ok hx0 hx1, fmod2]
    have : y % 2 = 1 := by omega
    simp [this]

end Pycoin.Sec
