import Pycoin.Py.Bytes
/-! Lemmas about the int <-> bytes helpers (core Lean only). -/
namespace Pycoin

@[simp] theorem leBytes_length (n k : Nat) : (leBytes n k).length = k := by
  induction k generalizing n with
  | zero => rfl
  | succ k ih => simp [leBytes, ih]

theorem leNat_lt (b : Bytes) : leNat b < 256 ^ b.length := by
  induction b with
  | nil => simp [leNat]
  | cons x xs ih =>
    have hx : x.toNat < 256 := x.toNat_lt
    simp only [leNat, List.length_cons, Nat.pow_succ]
    omega

theorem leNat_leBytes (n k : Nat) : leNat (leBytes n k) = n % 256 ^ k := by
  induction k generalizing n with
  | zero => simp [leBytes, leNat, Nat.mod_one]
  | succ k ih =>
    simp only [leBytes, leNat, ih, Nat.pow_succ]
    have h1 : (UInt8.ofNat (n % 256)).toNat = n % 256 := by
      simp [UInt8.toNat_ofNat']
    rw [h1]
    rw [Nat.mul_comm (256 ^ k) 256, Nat.mod_mul]

theorem leNat_leBytes_of_lt {n k : Nat} (h : n < 256 ^ k) : leNat (leBytes n k) = n := by
  rw [leNat_leBytes, Nat.mod_eq_of_lt h]

theorem leBytes_leNat (b : Bytes) : leBytes (leNat b) b.length = b := by
  induction b with
  | nil => rfl
  | cons x xs ih =>
    have hx : x.toNat < 256 := x.toNat_lt
    simp only [leNat, List.length_cons, leBytes]
    have h1 : (x.toNat + 256 * leNat xs) % 256 = x.toNat := by omega
    have h2 : (x.toNat + 256 * leNat xs) / 256 = leNat xs := by omega
    rw [h1, h2, ih]
    simp

theorem leBytes_inj {a b k : Nat} (ha : a < 256 ^ k) (hb : b < 256 ^ k)
    (h : leBytes a k = leBytes b k) : a = b := by
  have := congrArg leNat h
  rwa [leNat_leBytes_of_lt ha, leNat_leBytes_of_lt hb] at this

@[simp] theorem beBytes_length (n k : Nat) : (beBytes n k).length = k := by
  simp [beBytes]

theorem beNat_beBytes_of_lt {n k : Nat} (h : n < 256 ^ k) : beNat (beBytes n k) = n := by
  simp [beNat, beBytes, leNat_leBytes_of_lt h]

theorem beBytes_beNat (b : Bytes) : beBytes (beNat b) b.length = b := by
  have := leBytes_leNat b.reverse
  simp only [List.length_reverse] at this
  simp [beBytes, beNat, this]

end Pycoin
