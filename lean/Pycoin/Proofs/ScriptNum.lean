import Pycoin.Model.ScriptNum
import Pycoin.Proofs.Bytes
/-! Helper lemmas for the C12 script-number theorems (core Lean only). -/
namespace Pycoin.ScriptNum

theorem leNat_append (a b : Bytes) : leNat (a ++ b) = leNat a + 256 ^ a.length * leNat b := by
  induction a with
  | nil => simp [leNat]
  | cons x xs ih =>
    simp only [List.cons_append, leNat, ih, List.length_cons, Nat.pow_succ]
    grind

theorem leNat_singleton (b : UInt8) : leNat [b] = b.toNat := by simp [leNat]

theorem accumulate_eq (v : Nat) (rest : Bytes) :
    accumulate v rest = leNat rest.reverse + 256 ^ rest.length * v := by
  induction rest generalizing v with
  | nil => simp [accumulate, leNat]
  | cons b r ih =>
    have h : accumulate v (b :: r) = accumulate (v * 256 + b.toNat) r := by simp [accumulate]
    rw [h, ih, List.reverse_cons, leNat_append, leNat_singleton, List.length_reverse, List.length_cons, Nat.pow_succ]
    grind

/-! byte facts, by evaluation over all 256 values -/
theorem byte_all {P : UInt8 → Prop} (h : ∀ n, n < 256 → P (UInt8.ofNat n)) (b : UInt8) : P b := by
  have := h b.toNat b.toNat_lt
  simpa using this

theorem and7f (b : UInt8) : (b &&& 0x7F).toNat = b.toNat % 128 :=
  byte_all (P := fun b => (b &&& 0x7F).toNat = b.toNat % 128) (by decide +kernel) b

theorem and80_pos (b : UInt8) : ((b &&& 0x80).toNat > 0) ↔ 128 ≤ b.toNat :=
  byte_all (P := fun b => ((b &&& 0x80).toNat > 0) ↔ 128 ≤ b.toNat) (by decide +kernel) b

theorem and80_eq0 (b : UInt8) : ((b &&& 0x80) == 0) = decide (b.toNat < 128) :=
  byte_all (P := fun b => ((b &&& 0x80) == 0) = decide (b.toNat < 128)) (by decide +kernel) b

theorem or80 (b : UInt8) (h : b.toNat < 128) : (b ||| 0x80).toNat = b.toNat + 128 :=
  byte_all (P := fun b => b.toNat < 128 → (b ||| 0x80).toNat = b.toNat + 128) (by decide +kernel) b h

theorem magLoop_spec (v : Nat) :
    (magLoop v).2 < 256 ∧ v = leNat (magLoop v).1 + 256 ^ (magLoop v).1.length * (magLoop v).2 ∧
    (0 < v → 0 < (magLoop v).2) := by
  induction v using Nat.strongRecOn with
  | _ v ih =>
    rw [magLoop]
    by_cases h : 256 ≤ v
    · simp only [h, if_true]
      obtain ⟨h1, h2, h3⟩ := ih (v / 256) (by omega)
      refine ⟨h1, ?_, fun _ => h3 (by omega)⟩
      simp only [leNat, List.length_cons, Nat.pow_succ]
      have hb : (UInt8.ofNat (v % 256)).toNat = v % 256 := by simp [UInt8.toNat_ofNat']
      rw [hb]
      have : v = v % 256 + 256 * (v / 256) := by omega
      grind
    · simp only [h, if_false]
      refine ⟨by omega, by simp [leNat], fun h => h⟩

theorem magLoop_unique (lo : Bytes) (t : Nat) (ht : 0 < t) (ht' : t < 256) :
    magLoop (leNat lo + 256 ^ lo.length * t) = (lo, t) := by
  induction lo with
  | nil =>
    rw [magLoop]
    simp [leNat]; omega
  | cons b lo ih =>
    rw [magLoop]
    have hb : b.toNat < 256 := b.toNat_lt
    have hpos : 0 < 256 ^ lo.length * t := Nat.mul_pos (Nat.pow_pos (by decide)) ht
    have hv : leNat (b :: lo) + 256 ^ (b :: lo).length * t = b.toNat + 256 * (leNat lo + 256 ^ lo.length * t) := by
      simp only [leNat, List.length_cons, Nat.pow_succ]; grind
    rw [hv]
    have h256 : 256 ≤ b.toNat + 256 * (leNat lo + 256 ^ lo.length * t) := by omega
    simp only [h256, if_true]
    have h1 : (b.toNat + 256 * (leNat lo + 256 ^ lo.length * t)) % 256 = b.toNat := by omega
    have h2 : (b.toNat + 256 * (leNat lo + 256 ^ lo.length * t)) / 256 = leNat lo + 256 ^ lo.length * t := by omega
    rw [h1, h2, ih]
    simp

end Pycoin.ScriptNum

namespace Pycoin.ScriptNum

/-- magnitude and sign of a non-empty encoding `init ++ [i]` -/
def magOf (init : Bytes) (i : UInt8) : Nat := leNat init + 256 ^ init.length * (i.toNat % 128)

/-- the `require_minimal` test on `init ++ [i]`, on numbers -/
def nonMinimal (init : Bytes) (i : UInt8) : Bool :=
  i.toNat % 128 == 0 && (match init.reverse with | [] => true | b :: _ => decide (b.toNat < 128))

theorem decode_snoc (init : Bytes) (i : UInt8) (m : Bool) :
    intFromScriptBytes (init ++ [i]) m =
      if m && nonMinimal init i then .error .scriptError
      else .ok (if 128 ≤ i.toNat then -(magOf init i : Int) else (magOf init i : Int)) := by
  unfold intFromScriptBytes nonMinimal magOf
  simp only [List.reverse_append, List.reverse_cons, List.reverse_nil, List.nil_append, List.cons_append,
    and7f, accumulate_eq, List.reverse_reverse, List.length_reverse]
  have hneg : decide ((i &&& 0x80).toNat > 0) = decide (128 ≤ i.toNat) :=
    decide_eq_decide.mpr (and80_pos i)
  rw [hneg]
  cases init.reverse <;> cases m <;> simp [and80_eq0]

theorem decode_nil (m : Bool) : intFromScriptBytes [] m = .ok 0 := by
  simp [intFromScriptBytes]

end Pycoin.ScriptNum
