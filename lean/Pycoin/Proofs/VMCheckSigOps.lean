import Mathlib.Tactic.SplitIfs
import Pycoin.Proofs.VMCheckSig
import Pycoin.Proofs.VMStepPick
/-!
Handler level, CHECKSIG family: `do_OP_CHECKSIG`, `do_OP_CHECKSIGVERIFY`, `do_OP_CHECKMULTISIG`,
`do_OP_CHECKMULTISIGVERIFY` of `checksigops.py` against `execCheckSig` / `execCheckMultiSig` of the specification, for
every Core state: stack-depth errors, 4-byte minimal key and signature counts, their ranges, NULLDUMMY, the matching
loops (`VMCheckSig.lean`), NULLFAIL, the VERIFY suffix, and the op-count contribution of the key count (Core adds it and
tests the limit first, pycoin last: compared through `cntCheck`, the test `eval_instruction` makes after the handler).
-/
namespace Pycoin.VM
open Pycoin.Spec Pycoin.Gen.VM CondStack Consensus

variable (chk : Bytes → Bytes → Bytes → Bool → Bool) (cfg : Config)

/-- the script code pycoin's sighash closure hashes: `script[begin_code_hash:]`, with every signature push removed by
`_delete_signature` in the base version (`_make_sighash_f`), untouched in the witness version -/
def pyCode (codeSep : Nat) (sigs : List Bytes) : M Bytes :=
  if cfg.witness then pure (cfg.script.drop codeSep) else deleteSignatures (cfg.script.drop codeSep) sigs.reverse

/-- pycoin's signature deletion and Core's `FindAndDelete` give the same script code (content of property C04;
trivially true in the witness version, where nothing is deleted) -/
def DelAgrees (st : Consensus.State) (sigs : List Bytes) : Prop :=
  pyCode cfg st.codeSep sigs = .ok (scriptCodeFor (specEnv cfg) st sigs)

theorem delAgrees_witness (h : cfg.witness = true) (st : Consensus.State) (sigs : List Bytes) : DelAgrees cfg st sigs := by
  simp [DelAgrees, pyCode, h, scriptCodeFor, specEnv, pure, Except.pure]

/-- Core's OP_CHECKSIG(VERIFY) / OP_CHECKMULTISIG(VERIFY) arms with the pure checker -/
def specCheckSig (st : Consensus.State) (op : Nat) : Res Consensus.State :=
  Id.run (execCheckSig (m := Id) (fun a b c d => pure (specChk chk a b c d)) (specEnv cfg) st op)

def specCheckMultiSig (st : Consensus.State) (op : Nat) : Res Consensus.State :=
  Id.run (execCheckMultiSig (m := Id) (fun a b c d => pure (specChk chk a b c d)) (specEnv cfg) st op)

/-- `checksigs(vm, sig_blobs, public_pair_blobs)` against Core's loop followed by the NULLFAIL rule -/
theorem checksigs_spec (hwp : hasFlag cfg.flags VERIFY_WITNESS_PUBKEYTYPE = true → cfg.witness = true) (hchk : ChkWF chk)
    (sigs pubs : List Bytes) (s : State) (c : Bytes) (hlen : sigs.length ≤ pubs.length)
    (hcode : pyCode cfg s.beginCodeHash sigs = .ok c) :
    (checksigs (stdEnv chk) cfg sigs pubs s).toOption =
      match specMulti chk cfg c sigs pubs with
      | .error _ => none
      | .ok f =>
        if !f && (Flags.ofBits cfg.flags).nullfail && sigs.any (fun x => !x.isEmpty) then none
        else some (push (boolBytes f) s) := by
  have hl := checksigsLoop_spec chk cfg hwp hchk c sigs pubs hlen
  unfold checksigs
  unfold pyCode at hcode
  simp only [hcode, flag_nullfail, bind, Except.bind]
  have hany : (sigs.any fun b => decide (b.length > 0)) = sigs.any (fun x => !x.isEmpty) := by
    congr 1; funext b; cases b <;> simp
  rw [hany]
  cases hm : specMulti chk cfg c sigs pubs with
  | error e =>
    rw [hm] at hl
    obtain ⟨e', he⟩ := (toOption_none_iff _).mp hl
    simp [he, Except.toOption]
  | ok f =>
    rw [hm] at hl
    have := (toOption_ok_iff _ _).mp hl
    simp only [this]
    cases f <;> simp only [Bool.not_true, Bool.not_false, Bool.false_and, Bool.true_and, Bool.false_eq_true, if_false, if_true,
      boolBytes, vchTrue, vchFalse, VM_TRUE, VM_FALSE, pure, Except.pure, Except.toOption]
    split_ifs <;> rfl

theorem specMulti_single (c sig pk : Bytes) :
    specMulti chk cfg c [sig] [pk] = (corePair chk cfg sig pk c) := by
  rw [specMulti_cons]
  cases corePair chk cfg sig pk c with
  | error e => rfl
  | ok f => cases f <;> simp [specMulti_nil]

theorem specCheckSig_eq (st : Consensus.State) (op : Nat) :
    specCheckSig chk cfg st op =
      match st.stack with
      | pk :: sig :: rest =>
        match corePair chk cfg sig pk (scriptCodeFor (specEnv cfg) st [sig]) with
        | .error e => .error e
        | .ok f =>
          if !f && (Flags.ofBits cfg.flags).nullfail && !sig.isEmpty then .error .SIG_NULLFAIL
          else if op == OP_CHECKSIGVERIFY then
            if f then .ok { st with stack := rest } else .error .CHECKSIGVERIFY
          else .ok { st with stack := boolBytes f :: rest }
      | _ => .error .INVALID_STACK_OPERATION := by
  unfold specCheckSig execCheckSig corePair
  rcases hs : st.stack with _ | ⟨pk, _ | ⟨sig, rest⟩⟩
  · rfl
  · rfl
  · have hf : (specEnv cfg).flags = Flags.ofBits cfg.flags := rfl
    simp only [Id.run, hf]
    cases checkSignatureEncoding sig (Flags.ofBits cfg.flags) with
    | some e => rfl
    | none =>
      cases checkPubKeyEncoding pk (Flags.ofBits cfg.flags) (specEnv cfg).sigversion with
      | some e => rfl
      | none =>
        simp only [bind, pure]

theorem h_CHECKSIG (hwp : hasFlag cfg.flags VERIFY_WITNESS_PUBKEYTYPE = true → cfg.witness = true) (hchk : ChkWF chk)
    (st : Consensus.State) (pc' : Nat) (hdel : ∀ sigs, (∀ x ∈ sigs, x ∈ st.stack) → DelAgrees cfg st sigs) :
    Agree pc' (do_CHECKSIG (stdEnv chk) cfg (absS st pc')) (specCheckSig chk cfg st 0xac) := by
  rw [specCheckSig_eq]
  rcases st with ⟨stk, alt, vf, n, cs⟩
  rcases stk with _ | ⟨pk, _ | ⟨sig, rest⟩⟩
  · simp [Agree, do_CHECKSIG, absS, pop, bind, Except.bind, Except.toOption]
  · simp [Agree, do_CHECKSIG, absS, pop, bind, Except.bind, Except.toOption]
  · have hd := hdel [sig] (by simp)
    unfold DelAgrees at hd
    have hcs := checksigs_spec chk cfg hwp hchk [sig] [pk] ⟨pc', rest, alt, absC vf, n, cs⟩ _ (by simp) hd
    rw [specMulti_single] at hcs
    simp only [Agree, do_CHECKSIG, absS, pop, bind, Except.bind]
    rw [hcs]
    cases corePair chk cfg sig pk (scriptCodeFor (specEnv cfg) ⟨pk :: sig :: rest, alt, vf, n, cs⟩ [sig]) with
    | error e => rfl
    | ok f =>
      simp only [List.any_cons, List.any_nil, Bool.or_false, OP_CHECKSIGVERIFY]
      split_ifs <;> simp_all [Except.toOption, push]

theorem toOption_bind {ε α β} (r : Except ε α) (g : α → Except ε β) :
    (r >>= g).toOption = r.toOption.bind (fun a => (g a).toOption) := by
  cases r <;> rfl

theorem verifyTop_push (code : Nat) (b : Bool) (s : State) :
    verifyTop code (push (boolBytes b) s) = if b then .ok s else .error (scriptErr code) := by
  cases b <;> simp [verifyTop, push, pop, boolBytes, vchTrue, vchFalse, bind, Except.bind, boolFromScriptBytes_false, pure, Except.pure]

/-- what `do_OP_CHECKSIG` leaves, in terms of Core's treatment of the pair -/
theorem do_CHECKSIG_spec (hwp : hasFlag cfg.flags VERIFY_WITNESS_PUBKEYTYPE = true → cfg.witness = true) (hchk : ChkWF chk)
    (pk sig : Bytes) (rest alt : List Bytes) (vf : List Bool) (n cs pc' : Nat)
    (hd : DelAgrees cfg ⟨pk :: sig :: rest, alt, vf, n, cs⟩ [sig]) :
    (do_CHECKSIG (stdEnv chk) cfg (absS ⟨pk :: sig :: rest, alt, vf, n, cs⟩ pc')).toOption =
      match corePair chk cfg sig pk (scriptCodeFor (specEnv cfg) ⟨pk :: sig :: rest, alt, vf, n, cs⟩ [sig]) with
      | .error _ => none
      | .ok f =>
        if !f && (Flags.ofBits cfg.flags).nullfail && !sig.isEmpty then none
        else some (push (boolBytes f) (absS ⟨rest, alt, vf, n, cs⟩ pc')) := by
  unfold DelAgrees at hd
  have hcs := checksigs_spec chk cfg hwp hchk [sig] [pk] ⟨pc', rest, alt, absC vf, n, cs⟩ _ (by simp) hd
  rw [specMulti_single] at hcs
  simp only [do_CHECKSIG, absS, pop, bind, Except.bind]
  rw [hcs]
  simp only [List.any_cons, List.any_nil, Bool.or_false]

theorem h_CHECKSIGVERIFY (hwp : hasFlag cfg.flags VERIFY_WITNESS_PUBKEYTYPE = true → cfg.witness = true) (hchk : ChkWF chk)
    (st : Consensus.State) (pc' : Nat) (hdel : ∀ sigs, (∀ x ∈ sigs, x ∈ st.stack) → DelAgrees cfg st sigs) :
    Agree pc' (do_CHECKSIGVERIFY (stdEnv chk) cfg (absS st pc')) (specCheckSig chk cfg st 0xad) := by
  rw [specCheckSig_eq]
  rcases st with ⟨stk, alt, vf, n, cs⟩
  rcases stk with _ | ⟨pk, _ | ⟨sig, rest⟩⟩
  · simp [Agree, do_CHECKSIGVERIFY, do_CHECKSIG, absS, pop, bind, Except.bind, Except.toOption]
  · simp [Agree, do_CHECKSIGVERIFY, do_CHECKSIG, absS, pop, bind, Except.bind, Except.toOption]
  · have hs := do_CHECKSIG_spec chk cfg hwp hchk pk sig rest alt vf n cs pc' (hdel [sig] (by simp))
    unfold Agree do_CHECKSIGVERIFY
    rw [toOption_bind, hs]
    dsimp only
    cases corePair chk cfg sig pk (scriptCodeFor (specEnv cfg) ⟨pk :: sig :: rest, alt, vf, n, cs⟩ [sig]) with
    | error e => rfl
    | ok f =>
      simp only [OP_CHECKSIGVERIFY]
      cases f <;> split_ifs <;> simp_all [Except.toOption, verifyTop_push]

theorem popN_eq (k : Nat) : ∀ (p : Nat) (stk alt : List Bytes) (c : CondStack) (oc : Int) (bc : Nat),
    popN k ⟨p, stk, alt, c, oc, bc⟩ =
      if k ≤ stk.length then .ok (stk.take k, ⟨p, stk.drop k, alt, c, oc, bc⟩) else .error invalidStack := by
  induction k with
  | zero => intro p stk alt c oc bc; simp [popN]
  | succ k ih =>
    intro p stk alt c oc bc
    cases stk with
    | nil => simp [popN, pop, bind, Except.bind]
    | cons x r =>
      simp only [popN, pop, bind, Except.bind, ih, List.length_cons, Nat.add_le_add_iff_right]
      split_ifs <;> simp [pure, Except.pure]

/-- the op-count test `eval_instruction` applies after the handler -/
def cntCheck (s : State) : M State :=
  if s.opCount > MAX_OP_COUNT then .error (scriptErr errno_OP_COUNT) else .ok s

theorem specCheckMultiSig_eq (st : Consensus.State) (op : Nat) :
    specCheckMultiSig chk cfg st op =
      match st.stack with
      | [] => .error .INVALID_STACK_OPERATION
      | vKeys :: r1 =>
        match scriptNum vKeys (Flags.ofBits cfg.flags).minimaldata with
        | .error e => .error e
        | .ok bnKeys =>
          if scriptNumGetInt bnKeys < 0 || scriptNumGetInt bnKeys > Int.ofNat MAX_PUBKEYS_PER_MULTISIG then .error .PUBKEY_COUNT else
          if st.nOpCount + (scriptNumGetInt bnKeys).toNat > MAX_OPS_PER_SCRIPT then .error .OP_COUNT else
          if r1.length < (scriptNumGetInt bnKeys).toNat + 1 then .error .INVALID_STACK_OPERATION else
          match r1.drop (scriptNumGetInt bnKeys).toNat with
          | [] => .error .INVALID_STACK_OPERATION
          | vSigs :: r2 =>
            match scriptNum vSigs (Flags.ofBits cfg.flags).minimaldata with
            | .error e => .error e
            | .ok bnSigs =>
              if scriptNumGetInt bnSigs < 0 || scriptNumGetInt bnSigs > scriptNumGetInt bnKeys then .error .SIG_COUNT else
              if r2.length < (scriptNumGetInt bnSigs).toNat + 1 then .error .INVALID_STACK_OPERATION else
              match specMulti chk cfg (scriptCodeFor (specEnv cfg) st (r2.take (scriptNumGetInt bnSigs).toNat))
                  (r2.take (scriptNumGetInt bnSigs).toNat) (r1.take (scriptNumGetInt bnKeys).toNat) with
              | .error e => .error e
              | .ok f =>
                if !f && (Flags.ofBits cfg.flags).nullfail && (r2.take (scriptNumGetInt bnSigs).toNat).any (fun s => !s.isEmpty) then
                  .error .SIG_NULLFAIL
                else
                  match r2.drop (scriptNumGetInt bnSigs).toNat with
                  | [] => .error .INVALID_STACK_OPERATION
                  | dummy :: r4 =>
                    if (Flags.ofBits cfg.flags).nulldummy && !dummy.isEmpty then .error .SIG_NULLDUMMY
                    else if op == OP_CHECKMULTISIGVERIFY then
                      if f then .ok { st with stack := r4, nOpCount := st.nOpCount + (scriptNumGetInt bnKeys).toNat }
                      else .error .CHECKMULTISIGVERIFY
                    else .ok { st with stack := boolBytes f :: r4, nOpCount := st.nOpCount + (scriptNumGetInt bnKeys).toNat } := by
  unfold specCheckMultiSig execCheckMultiSig
  have hf : (specEnv cfg).flags = Flags.ofBits cfg.flags := rfl
  rcases hs : st.stack with _ | ⟨vKeys, r1⟩
  · rfl
  simp only [Id.run, hf, Consensus.num]
  cases scriptNum vKeys (Flags.ofBits cfg.flags).minimaldata with
  | error e => rfl
  | ok bnKeys =>
    simp only []
    by_cases h1 : (decide (scriptNumGetInt bnKeys < 0) || decide (scriptNumGetInt bnKeys > Int.ofNat MAX_PUBKEYS_PER_MULTISIG)) = true
    · simp only [h1, if_true]; rfl
    simp only [h1, Bool.false_eq_true, if_false]
    by_cases h2 : st.nOpCount + (scriptNumGetInt bnKeys).toNat > MAX_OPS_PER_SCRIPT
    · simp only [h2, if_true]; rfl
    simp only [h2, if_false]
    by_cases h3 : r1.length < (scriptNumGetInt bnKeys).toNat + 1
    · simp only [h3, if_true]; rfl
    simp only [h3, if_false]
    rcases hd : List.drop (scriptNumGetInt bnKeys).toNat r1 with _ | ⟨vSigs, r2⟩
    · rfl
    simp only []
    cases scriptNum vSigs (Flags.ofBits cfg.flags).minimaldata with
    | error e => rfl
    | ok bnSigs =>
      simp only []
      by_cases h4 : (decide (scriptNumGetInt bnSigs < 0) || decide (scriptNumGetInt bnSigs > scriptNumGetInt bnKeys)) = true
      · simp only [h4, if_true]; rfl
      simp only [h4, Bool.false_eq_true, if_false]
      by_cases h5 : r2.length < (scriptNumGetInt bnSigs).toNat + 1
      · simp only [h5, if_true]; rfl
      simp only [h5, if_false, bind, specMulti, Id.run]
      rfl

/-- what `do_OP_CHECKMULTISIG` followed by the op-count test of `eval_instruction` leaves, against Core's arm
(Core adds the key count and tests the limit *before* looking at the keys, pycoin after everything else) -/
theorem do_CHECKMULTISIG_spec (hwp : hasFlag cfg.flags VERIFY_WITNESS_PUBKEYTYPE = true → cfg.witness = true) (hchk : ChkWF chk)
    (st : Consensus.State) (pc' : Nat) (hdel : ∀ sigs, (∀ x ∈ sigs, x ∈ st.stack) → DelAgrees cfg st sigs) :
    ((do_CHECKMULTISIG (stdEnv chk) cfg (absS st pc')).bind cntCheck).toOption =
      (specCheckMultiSig chk cfg st 0xae).toOption.map (absS · pc') := by
  rw [specCheckMultiSig_eq]
  rcases st with ⟨stk, alt, vf, n, cs⟩
  rcases stk with _ | ⟨vKeys, r1⟩
  · simp [do_CHECKMULTISIG, absS, popInt_nil, bind, Except.bind, Except.toOption]
  rcases num_cases cfg.flags vKeys 4 with ⟨v, h1, h2⟩ | ⟨e, h1, h2⟩
  swap
  · simp [do_CHECKMULTISIG, absS, popInt_cons, maxIntSize_eq, h1, h2, Except.map, bind, Except.bind, Except.toOption]
  have hb := pyNum4_bound _ _ _ h1
  have hg := getInt_id v hb
  simp only [do_CHECKMULTISIG, absS, popInt_cons, maxIntSize_eq, h1, h2, hg, Except.map, bind, Except.bind,
    MAX_PUBKEYS_PER_MULTISIG, MAX_OPS_PER_SCRIPT]
  by_cases hr : v < 0 ∨ v > 20
  · have : (decide (v < 0) || decide (v > 20)) = true := by simpa using hr
    have h' : (decide (v < 0) || decide (v > Int.ofNat 20)) = true := this
    simp [this, h', Except.toOption]
  have hr1 : (decide (v < 0) || decide (v > 20)) = false := by
    rcases Bool.eq_false_or_eq_true (decide (v < 0) || decide (v > 20)) with h | h
    · exfalso; apply hr; simpa using h
    · exact h
  have hr1' : (decide (v < 0) || decide (v > Int.ofNat 20)) = false := hr1
  simp only [hr1, hr1', Bool.false_eq_true, if_false, popN_eq]
  have hnn : 0 ≤ v := by omega
  by_cases hk : v.toNat ≤ r1.length
  swap
  · have : r1.length < v.toNat + 1 := by omega
    simp only [hk, this, if_true, if_false, Except.toOption]
    split_ifs <;> rfl
  simp only [hk, if_true]
  rcases hd : List.drop v.toNat r1 with _ | ⟨vSigs, r2⟩
  · simp only [popInt_nil, Except.toOption]
    split_ifs <;> rfl
  have hk2 : ¬ r1.length < v.toNat + 1 := by
    have := congrArg List.length hd
    simp only [List.length_drop, List.length_cons] at this
    omega
  simp only [hk2, if_false, popInt_cons]
  rcases num_cases cfg.flags vSigs 4 with ⟨w, g1, g2⟩ | ⟨e, g1, g2⟩
  swap
  · simp only [g1, g2, Except.map, Except.toOption]
    split_ifs <;> rfl
  have hbw := pyNum4_bound _ _ _ g1
  have hgw := getInt_id w hbw
  simp only [g1, g2, hgw, Except.map]
  by_cases hrw : w < 0 ∨ w > v
  · have : (decide (w < 0) || decide (w > v)) = true := by simpa using hrw
    simp only [this, if_true, Except.toOption]
    split_ifs <;> rfl
  have hrw1 : (decide (w < 0) || decide (w > v)) = false := by
    rcases Bool.eq_false_or_eq_true (decide (w < 0) || decide (w > v)) with h | h
    · exfalso; apply hrw; simpa using h
    · exact h
  simp only [hrw1, Bool.false_eq_true, if_false, popN_eq]
  by_cases hs : w.toNat ≤ r2.length
  swap
  · have : r2.length < w.toNat + 1 := by omega
    simp only [hs, this, if_true, if_false, Except.toOption]
    split_ifs <;> rfl
  simp only [hs, if_true]
  have hs2 : ¬ r2.length < w.toNat + 1 ↔ (List.drop w.toNat r2) ≠ [] := by
    rw [Ne, List.drop_eq_nil_iff]; omega
  rcases hdd : List.drop w.toNat r2 with _ | ⟨dummy, r4⟩
  · have : r2.length < w.toNat + 1 := by
      by_contra hh; exact (hs2.mp hh) hdd
    simp only [pop, this, if_true, Except.toOption]
    split_ifs <;> rfl
  have hs3 : ¬ r2.length < w.toNat + 1 := by rw [hs2, hdd]; simp
  simp only [pop, hs3, if_false, flag_nulldummy]
  have hdm : (dummy != []) = !dummy.isEmpty := by cases dummy <;> rfl
  rw [hdm]
  -- the signatures and keys pycoin hands to `checksigs`
  have hmem : ∀ x ∈ List.take w.toNat r2, x ∈ (vKeys :: r1) := by
    intro x hx
    have h1 : x ∈ r2 := List.mem_of_mem_take hx
    have h2 : x ∈ List.drop v.toNat r1 := by rw [hd]; exact List.mem_cons_of_mem _ h1
    exact List.mem_cons_of_mem _ (List.mem_of_mem_drop h2)
  have hdl := hdel (List.take w.toNat r2) hmem
  unfold DelAgrees at hdl
  have hlen : (List.take w.toNat r2).length ≤ (List.take v.toNat r1).length := by
    rw [List.length_take, List.length_take, Nat.min_eq_left hs, Nat.min_eq_left hk]; omega
  have hcs := checksigs_spec chk cfg hwp hchk (List.take w.toNat r2) (List.take v.toNat r1)
    ⟨pc', r4, alt, absC vf, n, cs⟩ _ hlen hdl
  by_cases hnd : ((Flags.ofBits cfg.flags).nulldummy && !dummy.isEmpty) = true
  · simp only [hnd, if_true]
    repeat' (first | rfl | split)
  simp only [hnd, Bool.false_eq_true, if_false]
  have hcast : ((n + v.toNat : Nat) : Int) = (n : Int) + v := by
    rw [Nat.cast_add, Int.toNat_of_nonneg hnn]
  generalize specMulti chk cfg _ _ _ = sm at hcs ⊢
  generalize checksigs (stdEnv chk) cfg _ _ _ = cr at hcs ⊢
  cases sm with
  | error e =>
    obtain ⟨e', he⟩ := (toOption_none_iff _).mp hcs
    subst he
    simp only [Except.toOption]
    split_ifs <;> rfl
  | ok f =>
    simp only [] at hcs
    by_cases hnf : (!f && (Flags.ofBits cfg.flags).nullfail && (List.take w.toNat r2).any fun x => !List.isEmpty x) = true
    · simp only [hnf, if_true] at hcs ⊢
      obtain ⟨e', he⟩ := (toOption_none_iff _).mp hcs
      subst he
      simp only [Except.toOption]
      split_ifs <;> rfl
    · simp only [hnf, Bool.false_eq_true, if_false] at hcs ⊢
      have := (toOption_ok_iff _ _).mp hcs
      subst this
      have h174 : ((174 : Nat) == OP_CHECKMULTISIGVERIFY) = false := by decide
      simp only [h174, Bool.false_eq_true, if_false, push, pure, Except.pure, cntCheck, MAX_OP_COUNT]
      by_cases hc : n + v.toNat > 201
      · have : (201 : Int) < (n : Int) + v := by omega
        simp [hc, this, Except.toOption]
      · have : ¬ ((201 : Int) < (n : Int) + v) := by omega
        simp [hc, this, Except.toOption, hcast]

/-- the VERIFY suffix of OP_CHECKMULTISIGVERIFY, Core side -/
def verifyPost (st' : Consensus.State) : Res Consensus.State :=
  match st'.stack with
  | top :: rest => if castToBool top then .ok { st' with stack := rest } else .error .CHECKMULTISIGVERIFY
  | [] => .error .INVALID_STACK_OPERATION

theorem specCMS_verify (st : Consensus.State) :
    specCheckMultiSig chk cfg st 0xaf = (specCheckMultiSig chk cfg st 0xae).bind verifyPost := by
  rw [specCheckMultiSig_eq, specCheckMultiSig_eq]
  have h174 : ((174 : Nat) == OP_CHECKMULTISIGVERIFY) = false := by decide
  have h175 : ((175 : Nat) == OP_CHECKMULTISIGVERIFY) = true := by decide
  simp only [h174, h175, if_true, Bool.false_eq_true, if_false]
  repeat' split
  all_goals first
    | rfl
    | (simp_all [Except.bind, verifyPost, boolBytes, vchTrue, vchFalse]; done)

theorem verifyTop_cnt (code : Nat) (s : State) :
    ((verifyTop code s).bind cntCheck).toOption = ((cntCheck s).bind (verifyTop code)).toOption := by
  rcases s with ⟨p, stk, alt, c, oc, bc⟩
  cases stk with
  | nil => simp [verifyTop, pop, cntCheck, bind, Except.bind, Except.toOption]; split_ifs <;> rfl
  | cons x r =>
    simp only [verifyTop, pop, cntCheck, bind, Except.bind, boolFromScriptBytes_false, pure, Except.pure]
    by_cases h1 : castToBool x = true <;> by_cases h2 : oc > (MAX_OP_COUNT : Nat) <;>
      simp [h1, h2, Except.toOption, Except.bind]

theorem verifyTop_post (st' : Consensus.State) (pc' : Nat) :
    (verifyTop errno_VERIFY (absS st' pc')).toOption = (verifyPost st').toOption.map (absS · pc') := by
  rcases st' with ⟨stk, alt, vf, n, cs⟩
  cases stk with
  | nil => simp [verifyTop, verifyPost, absS, pop, bind, Except.bind, Except.toOption]
  | cons x r =>
    simp only [verifyTop, verifyPost, absS, pop, bind, Except.bind, boolFromScriptBytes_false, pure, Except.pure]
    by_cases h1 : castToBool x = true <;> simp [h1, Except.toOption]

theorem do_CHECKMULTISIGVERIFY_spec (hwp : hasFlag cfg.flags VERIFY_WITNESS_PUBKEYTYPE = true → cfg.witness = true) (hchk : ChkWF chk)
    (st : Consensus.State) (pc' : Nat) (hdel : ∀ sigs, (∀ x ∈ sigs, x ∈ st.stack) → DelAgrees cfg st sigs) :
    ((do_CHECKMULTISIGVERIFY (stdEnv chk) cfg (absS st pc')).bind cntCheck).toOption =
      (specCheckMultiSig chk cfg st 0xaf).toOption.map (absS · pc') := by
  have h := do_CHECKMULTISIG_spec chk cfg hwp hchk st pc' hdel
  rw [specCMS_verify]
  unfold do_CHECKMULTISIGVERIFY
  cases hr : do_CHECKMULTISIG (stdEnv chk) cfg (absS st pc') with
  | error e =>
    rw [hr] at h
    cases hs : specCheckMultiSig chk cfg st 0xae with
    | error e' => rfl
    | ok st' => rw [hs] at h; simp [Except.bind, Except.toOption] at h
  | ok s =>
    rw [hr] at h
    simp only [bind, Except.bind] at h ⊢
    have hv := verifyTop_cnt errno_VERIFY s
    change (Except.bind (verifyTop errno_VERIFY s) cntCheck).toOption = _
    rw [hv]
    cases hc : cntCheck s with
    | error e =>
      rw [hc] at h
      cases hs : specCheckMultiSig chk cfg st 0xae with
      | error e' => rfl
      | ok st' => rw [hs] at h; simp [Except.toOption] at h
    | ok s2 =>
      rw [hc] at h
      cases hs : specCheckMultiSig chk cfg st 0xae with
      | error e' => rw [hs] at h; simp [Except.toOption] at h
      | ok st' =>
        rw [hs] at h
        simp only [Except.toOption, Option.map, Option.some.injEq] at h
        subst h
        exact verifyTop_post st' pc'
end Pycoin.VM
