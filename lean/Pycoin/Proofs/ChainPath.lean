import Pycoin.Proofs.ChainDict
/-! upward paths in a parent dict; the scan of `find_ancestral_path` (core Lean only) -/
namespace Pycoin.Chain

/-- `t` is the walk from its head along `parent_lookup` up to the first hash without an entry -/
def UpPath (pl : Dict Nat) : List Nat → Prop
  | [] => False
  | [x] => dget pl x = none
  | x :: y :: r => dget pl x = some y ∧ UpPath pl (y :: r)

theorem UpPath.ne_nil {pl : Dict Nat} {t : List Nat} (h : UpPath pl t) : t ≠ [] := by
  cases t with
  | nil => exact absurd h (by simp [UpPath])
  | cons a r => simp

theorem UpPath.det {pl : Dict Nat} : ∀ (t1 t2 : List Nat), UpPath pl t1 → UpPath pl t2 → t1.head? = t2.head? → t1 = t2
  | [], _, h, _, _ => absurd h (by simp [UpPath])
  | _ :: _, [], _, h, _ => absurd h (by simp [UpPath])
  | [x], [y], _, _, he => by simp at he; simp [he]
  | [x], y :: z :: r, h1, h2, he => by
      simp at he; subst he
      simp [UpPath] at h1 h2; rw [h1] at h2; exact absurd h2.1 (by simp)
  | x :: z :: r, [y], h1, h2, he => by
      simp at he; subst he
      simp [UpPath] at h1 h2; rw [h2] at h1; exact absurd h1.1 (by simp)
  | x :: z :: r, y :: z' :: r', h1, h2, he => by
      simp at he; subst he
      simp only [UpPath] at h1 h2
      have hz : z = z' := by
        have := h1.1.symm.trans h2.1
        injection this
      subst hz
      have := UpPath.det (z :: r) (z :: r') h1.2 h2.2 rfl
      rw [this]

theorem UpPath.suffix {pl : Dict Nat} : ∀ (a b : List Nat), UpPath pl (a ++ b) → b ≠ [] → UpPath pl b
  | [], _, h, _ => h
  | [x], b, h, hb => by
      cases b with
      | nil => exact absurd rfl hb
      | cons y r => simp only [List.cons_append, List.nil_append, UpPath] at h; exact h.2
  | x :: y :: r, b, h, hb => by
      simp only [List.cons_append, UpPath] at h
      exact UpPath.suffix (y :: r) b h.2 hb

theorem UpPath.nodup {pl : Dict Nat} : ∀ (t : List Nat), UpPath pl t → t.Nodup
  | [], h => absurd h (by simp [UpPath])
  | [x], _ => by simp
  | x :: y :: r, h => by
      have ih := UpPath.nodup (y :: r) (by simp only [UpPath] at h; exact h.2)
      refine List.nodup_cons.mpr ⟨?_, ih⟩
      intro hx
      obtain ⟨r1, r2, hr⟩ := List.append_of_mem hx
      have hsuf : UpPath pl (x :: r2) := by
        have h' : UpPath pl ((x :: r1) ++ (x :: r2)) := by
          rw [List.cons_append, ← hr]; exact h
        exact UpPath.suffix (x :: r1) (x :: r2) h' (by simp)
      have := UpPath.det (x :: r2) (x :: y :: r) hsuf h rfl
      have hl := congrArg List.length this
      rw [hr] at hl
      simp at hl
      omega

theorem UpPath.mono {pl pl' : Dict Nat} (hext : ∀ k v, dget pl k = some v → dget pl' k = some v) :
    ∀ (t : List Nat), UpPath pl t → (∀ x, t.getLast? = some x → dget pl' x = none) → UpPath pl' t
  | [], h, _ => absurd h (by simp [UpPath])
  | [x], _, hl => by simp only [UpPath]; exact hl x (by simp)
  | x :: y :: r, h, hl => by
      simp only [UpPath] at h ⊢
      refine ⟨hext _ _ h.1, UpPath.mono hext (y :: r) h.2 ?_⟩
      intro z hz
      apply hl z
      simpa [List.getLast?_cons_cons] using hz

/-- every element but the last has an entry -/
theorem UpPath.registered {pl : Dict Nat} : ∀ (c : List Nat) (a : Nat), UpPath pl (c ++ [a]) → ∀ x ∈ c, ∃ v, dget pl x = some v
  | [], _, _, x, hx => by simp at hx
  | [y], a, h, x, hx => by
      simp at hx; subst hx
      simp only [List.cons_append, List.nil_append, UpPath] at h
      exact ⟨a, h.1⟩
  | y :: z :: r, a, h, x, hx => by
      simp only [List.cons_append, UpPath] at h
      rcases List.mem_cons.mp hx with hx | hx
      · subst hx; exact ⟨z, h.1⟩
      · exact UpPath.registered (z :: r) a (by simpa using h.2) x hx

theorem UpPath.last_unregistered {pl : Dict Nat} : ∀ (t : List Nat), UpPath pl t → ∀ x, t.getLast? = some x → dget pl x = none
  | [], h, _, _ => absurd h (by simp [UpPath])
  | [y], h, x, hx => by simp at hx; subst hx; exact h
  | y :: z :: r, h, x, hx => by
      simp only [UpPath] at h
      exact UpPath.last_unregistered (z :: r) h.2 x (by simpa [List.getLast?_cons_cons] using hx)

theorem walkParents_spec (pl : Dict Nat) : ∀ (fuel h : Nat) (r : List Nat),
    walkParents pl fuel h = .ok r → UpPath pl r ∧ r.head? = some h
  | 0, _, _, hr => by simp [walkParents] at hr
  | fuel + 1, h, r, hr => by
      unfold walkParents at hr
      split at hr
      · rename_i hn
        injection hr with hr; subst hr
        exact ⟨by simpa [UpPath] using hn, rfl⟩
      · rename_i p hp
        cases hw : walkParents pl fuel p with
        | error e => simp [hw, bind, Except.bind] at hr
        | ok r' =>
          simp [hw, bind, Except.bind] at hr
          subst hr
          obtain ⟨h1, h2⟩ := walkParents_spec pl fuel p r' hw
          cases r' with
          | nil => simp at h2
          | cons a t =>
            simp at h2; subst h2
            exact ⟨by simp only [UpPath]; exact ⟨hp, h1⟩, rfl⟩

theorem scanEq_spec : ∀ (a b : List Nat) (k : Nat), scanEq a b = some k →
    ∃ z, a[k]? = some z ∧ b[k]? = some z
  | [], _, _, h => by simp [scanEq] at h
  | _ :: _, [], _, h => by simp [scanEq] at h
  | x :: as, y :: bs, k, h => by
      unfold scanEq at h
      by_cases hxy : x = y
      · simp [hxy] at h; subst h; exact ⟨y, by simp [hxy], by simp⟩
      · simp only [hxy, if_false, Option.map_eq_some_iff] at h
        obtain ⟨k', hk', rfl⟩ := h
        obtain ⟨z, h1, h2⟩ := scanEq_spec as bs k' hk'
        exact ⟨z, by simpa using h1, by simpa using h2⟩

/-- two upward paths that share a hash share everything above it -/
theorem UpPath.common_suffix {pl : Dict Nat} (p1 p2 : List Nat) (h1 : UpPath pl p1) (h2 : UpPath pl p2)
    (j1 j2 z : Nat) (e1 : p1[j1]? = some z) (e2 : p2[j2]? = some z) : p1.drop j1 = p2.drop j2 := by
  have l1 : j1 < p1.length := by
    rcases Nat.lt_or_ge j1 p1.length with h | h
    · exact h
    · rw [List.getElem?_eq_none h] at e1; cases e1
  have l2 : j2 < p2.length := by
    rcases Nat.lt_or_ge j2 p2.length with h | h
    · exact h
    · rw [List.getElem?_eq_none h] at e2; cases e2
  have d1 : p1.drop j1 ≠ [] := by simp; omega
  have d2 : p2.drop j2 ≠ [] := by simp; omega
  have s1 : UpPath pl (p1.drop j1) := UpPath.suffix (p1.take j1) _ (by rw [List.take_append_drop]; exact h1) d1
  have s2 : UpPath pl (p2.drop j2) := UpPath.suffix (p2.take j2) _ (by rw [List.take_append_drop]; exact h2) d2
  apply UpPath.det _ _ s1 s2
  rw [List.head?_drop, List.head?_drop, e1, e2]

end Pycoin.Chain
