import Pycoin.Proofs.Base64
namespace Pycoin.MsgSigning
open Pycoin

/-- the 65 bytes of a compact signature: header byte, `r` and `s` as 32-byte big-endian integers -/
def rawSig (first : Nat) (r s : Nat) : Bytes := UInt8.ofNat first :: (beBytes r 32 ++ beBytes s 32)

theorem rawSig_length (first r s : Nat) : (rawSig first r s).length = 65 := by simp [rawSig]

theorem toBytes32_nat (k : Nat) (hk : k < 2 ^ 256) : toBytes32 (k : Int) = .ok (beBytes k 32) := by
  unfold toBytes32
  have h0 : ¬ ((k : Int) < 0) := by omega
  have hk' : k < 256 ^ 32 := by simpa using hk
  simp [h0, beBytes?, hk']

theorem toBytes32_isOk {v : Int} {b : Bytes} (h : toBytes32 v = .ok b) : 0 ≤ v ∧ v < 2 ^ 256 ∧ b = beBytes v.toNat 32 := by
  unfold toBytes32 at h
  by_cases hv : v < 0
  · simp [hv] at h
  · simp only [hv, if_false, beBytes?] at h
    by_cases hlt : v.toNat < 256 ^ 32
    · simp only [hlt, if_true] at h
      have hb : beBytes v.toNat 32 = b := by injection h
      have : (256 : Nat) ^ 32 = 2 ^ 256 := by decide
      refine ⟨by omega, by omega, hb.symm⟩
    · simp [hlt] at h

theorem headerByte_nat (recid : Nat) (comp : Bool) :
    headerByte (recid : Int) comp = ((27 + recid + (if comp then 4 else 0) : Nat) : Int) := by
  unfold headerByte; cases comp <;> simp

theorem decodeHeader_headerByte (recid : Nat) (comp : Bool) (h : recid < 4) :
    decodeHeader (27 + recid + (if comp then 4 else 0)) = .ok (comp, recid) := by
  have : recid = 0 ∨ recid = 1 ∨ recid = 2 ∨ recid = 3 := by omega
  rcases this with rfl | rfl | rfl | rfl <;> cases comp <;> simp [decodeHeader]

/-- `encodeSignature` on in-range values: base64 (no newline) of the 65 raw bytes -/
theorem encodeSignature_ok (r s recid : Nat) (comp : Bool) (hr : r < 2 ^ 256) (hs : s < 2 ^ 256) (hrec : recid < 4) :
    encodeSignature (r : Int) (s : Int) (recid : Int) comp
      = .ok (asciiStr (b64Groups (rawSig (27 + recid + (if comp then 4 else 0)) r s))) := by
  unfold encodeSignature
  rw [headerByte_nat]
  have h1 : ¬ ((((27 + recid + (if comp then 4 else 0) : Nat) : Int) < 0) ∨ (((27 + recid + (if comp then 4 else 0) : Nat) : Int) ≥ 256)) := by
    cases comp <;> simp <;> omega
  simp only [h1, if_false, toBytes32_nat r hr, toBytes32_nat s hs, bind, Except.bind, pure, Except.pure, Int.toNat_natCast]
  rw [bytesStrip_b2aBase64]
  rfl

theorem slice_rawSig_r (first r s : Nat) : slice (rawSig first r s) 1 33 = beBytes r 32 := by
  simp [slice, rawSig, List.take_append_of_le_length]

theorem slice_rawSig_s (first r s : Nat) : slice (rawSig first r s) 33 (33 + 32) = beBytes s 32 := by
  have : (rawSig first r s).drop 33 = beBytes s 32 := by
    simp [rawSig, List.drop_append_of_le_length]
  rw [slice, this]
  exact List.take_of_length_le (by simp)

/-- decoding what `encodeSignature` wrote gives back the four fields -/
theorem decodeSignature_encode (r s recid : Nat) (comp : Bool) (hr : r < 2 ^ 256) (hs : s < 2 ^ 256) (hrec : recid < 4) :
    decodeSignature (asciiStr (b64Groups (rawSig (27 + recid + (if comp then 4 else 0)) r s))) = .ok (comp, recid, r, s) := by
  have hdec : a2bBase64Str (asciiStr (b64Groups (rawSig (27 + recid + (if comp then 4 else 0)) r s)))
      = .ok (rawSig (27 + recid + (if comp then 4 else 0)) r s) := by
    have := a2bBase64Str_encode (rawSig (27 + recid + (if comp then 4 else 0)) r s)
    rwa [bytesStrip_b2aBase64] at this
  unfold decodeSignature
  rw [hdec]
  simp only [rawSig_length, ne_eq, not_true_eq_false, if_false]
  have hr' : r < 256 ^ 32 := by simpa using hr
  have hs' : s < 256 ^ 32 := by simpa using hs
  have hf : (UInt8.ofNat (27 + recid + (if comp then 4 else 0))).toNat = 27 + recid + (if comp then 4 else 0) := by
    rw [UInt8.toNat_ofNat']; cases comp <;> simp <;> omega
  rw [show rawSig (27 + recid + (if comp then 4 else 0)) r s
        = UInt8.ofNat (27 + recid + (if comp then 4 else 0)) :: (beBytes r 32 ++ beBytes s 32) from rfl]
  simp only []
  rw [show (UInt8.ofNat (27 + recid + (if comp then 4 else 0)) :: (beBytes r 32 ++ beBytes s 32))
        = rawSig (27 + recid + (if comp then 4 else 0)) r s from rfl]
  rw [slice_rawSig_r, slice_rawSig_s, hf, decodeHeader_headerByte recid comp hrec,
    beNat_beBytes_of_lt hr', beNat_beBytes_of_lt hs']

end Pycoin.MsgSigning
