import Pycoin.Proofs.SolveMultisig
/-!
C05 — `Solve.solve` (the machinery end to end: `determine_constraints`, `solve_for_constraints`, `compile_push_data_list`) on the
standard templates, wrapper by wrapper, in terms of the result-level `Sign.solveBase`.
-/
namespace Pycoin.Solve
open Pycoin Pycoin.VM Pycoin.Sign

/-- the machinery handles the base script `bs` as the result-level model says for `base`: its stage yields constraints `cs`, and
the solver loop turns them (with any closing constraints) into `solveBase`'s items -/
structure BaseOK (a : SolveArgs) (bs : Bytes) (base : Base) : Prop where
  ok : ∃ cs : Nat → Bool → Bool → List Term, BaseRun bs cs ∧
    ∀ (ex : List Bytes) (isW : Bool) (r : Nat) (wit : Bool) (cx cw : Option Bytes),
      (((isW = false ∧ cx.isSome) ∨ (isW = true ∧ cw.isSome)) → 0 < r) →
      solveForConstraints a ex (cs r isW wit ++ closingTerms cx cw) =
        match solveBase a.C a.lookup (a.sighash wit bs) ex a.ht a.placeholder base with
        | .error e => .error e
        | .ok items => .ok (splitByLetter isW items cx cw)

theorem baseOK_p2pk (a : SolveArgs) (ph : Bytes) (hph : a.placeholder = some ph) (key : Bytes) (h1 : 1 ≤ key.length)
    (h75 : key.length ≤ 75) : BaseOK a (p2pkScript key) (.p2pk key) :=
  ⟨_, baseRun_p2pk key h1 h75, fun ex isW r wit cx cw hpos => by
    have := solveFor_p2pk a ex key (Atom.mk isW r) wit cx cw ph hph (by rw [Atom.mk_isW, Atom.mk_number]; exact hpos)
    rw [Atom.mk_isW] at this
    exact this⟩

theorem baseOK_p2pkh (a : SolveArgs) (ph : Bytes) (hph : a.placeholder = some ph) (h : Bytes) (hlen : h.length = 20) :
    BaseOK a (p2pkhScript h) (.p2pkh h) :=
  ⟨_, baseRun_p2pkh h hlen, fun ex isW r wit cx cw hpos => by
    have := solveFor_p2pkh a ex h (Atom.mk isW r) (Atom.mk isW (r + 1)) wit cx cw ph hph
      (by rw [Atom.mk_number, Atom.mk_number]; omega) (by rw [Atom.mk_isW, Atom.mk_isW])
      (by rw [Atom.mk_isW, Atom.mk_number]; exact hpos)
    rw [Atom.mk_isW] at this
    exact this⟩

theorem baseOK_multisig (a : SolveArgs) (ph : Bytes) (hph : a.placeholder = some ph) (m : Nat) (keys : List Bytes)
    (hm1 : 1 ≤ m) (hmn : m ≤ keys.length) (hn : keys.length ≤ 20) (hkeys : ∀ k ∈ keys, 1 ≤ k.length ∧ k.length ≤ 75) :
    BaseOK a (multisigScriptN m keys) (.multisig m keys) :=
  ⟨_, baseRun_multisig m keys hm1 hmn hn hkeys, fun ex isW r wit cx cw hpos =>
    solveFor_multisig a ex m keys isW r wit cx cw ph hph hpos⟩

theorem closing_x (u : Bytes) : [Term.equal (.atom (.x 0)) (.const u)] = closingTerms (some u) none := rfl
theorem closing_w (ws : Bytes) : [Term.equal (.atom (.w 0)) (.const ws)] = closingTerms none (some ws) := rfl
theorem closing_xw (u ws : Bytes) :
    [Term.equal (.atom (.x 0)) (.const u), Term.equal (.atom (.w 0)) (.const ws)] = closingTerms (some u) (some ws) := rfl
theorem closing_none (l : List Term) : l = l ++ closingTerms none none := by simp [closingTerms]

/-- **bare**: the items are pushed -/
theorem solve_bare (a : SolveArgs) (ctx : TxCtx) (bs : Bytes) (base : Base) (hb : BaseOK a bs base) (script : Bytes)
    (witness : List Bytes) (hsh : scriptHash bs = none) (hv : witnessProgramVersion bs = none) :
    Solve.solve a ctx bs script witness =
      match existingScript script witness with
      | .error e => .error e
      | .ok existing =>
        match solveBase a.C a.lookup (a.sighash false bs) existing a.ht a.placeholder base with
        | .error e => .error e
        | .ok items =>
          match pushAll items with
          | .error e => .error e
          | .ok sc => .ok (sc, none) := by
  obtain ⟨cs, hrun, hsolve⟩ := hb.ok
  unfold Solve.solve
  cases existingScript script witness with
  | error e => rfl
  | ok existing =>
    simp only [determineConstraints_bare a.p2sh ctx bs cs hrun hsh hv]
    rw [closing_none (cs 0 false false), hsolve existing false 0 false none none (by simp)]
    cases solveBase a.C a.lookup (a.sighash false bs) existing a.ht a.placeholder base with
    | error e => rfl
    | ok items => simp only [splitByLetter]; cases hp : pushAll (items ++ []) <;> simp_all

/-- **P2SH**: the items, then the redeem script -/
theorem solve_p2sh (a : SolveArgs) (ctx : TxCtx) (h bs : Bytes) (base : Base) (hb : BaseOK a bs base) (script : Bytes)
    (witness : List Bytes) (hlen : h.length = 20) (hl : a.p2sh h = some bs) (hu : bs.length ≤ 520)
    (hv : witnessProgramVersion bs = none) :
    Solve.solve a ctx (p2shScript h) script witness =
      match existingScript script witness with
      | .error e => .error e
      | .ok existing =>
        match solveBase a.C a.lookup (a.sighash false bs) existing a.ht a.placeholder base with
        | .error e => .error e
        | .ok items =>
          match pushAll (items ++ [some bs]) with
          | .error e => .error e
          | .ok sc => .ok (sc, none) := by
  obtain ⟨cs, hrun, hsolve⟩ := hb.ok
  unfold Solve.solve
  cases existingScript script witness with
  | error e => rfl
  | ok existing =>
    simp only [determineConstraints_p2sh a.p2sh ctx h bs hlen cs hrun hl hu hv]
    rw [closing_x, hsolve existing false 1 false (some bs) none (by simp)]
    cases solveBase a.C a.lookup (a.sighash false bs) existing a.ht a.placeholder base with
    | error e => rfl
    | ok items => simp only [splitByLetter]; cases hp : pushAll (items ++ [some bs]) <;> simp_all

/-- **P2WSH**: empty scriptSig; witness = the items, then the witness script -/
theorem solve_p2wsh (a : SolveArgs) (ctx : TxCtx) (prog ws : Bytes) (base : Base) (hb : BaseOK a ws base) (script : Bytes)
    (witness : List Bytes) (hlen : prog.length = 32) (hl : a.p2sh prog = some ws) (hsha : Hash.sha256 ws = prog) :
    Solve.solve a ctx (witnessV0Script prog) script witness =
      match existingScript script witness with
      | .error e => .error e
      | .ok existing =>
        match solveBase a.C a.lookup (a.sighash true ws) existing a.ht a.placeholder base with
        | .error e => .error e
        | .ok items => .ok ([], some (items ++ [some ws])) := by
  obtain ⟨cs, hrun, hsolve⟩ := hb.ok
  unfold Solve.solve
  cases existingScript script witness with
  | error e => rfl
  | ok existing =>
    simp only [determineConstraints_p2wsh a.p2sh ctx prog ws hlen cs hrun hl hsha]
    rw [closing_w, hsolve existing true 1 true none (some ws) (by simp)]
    cases solveBase a.C a.lookup (a.sighash true ws) existing a.ht a.placeholder base with
    | error e => rfl
    | ok items => simp [splitByLetter, pushAll, Script.compilePushDataList]

/-- **P2SH-P2WSH**: scriptSig = the push of `OP_0 <sha256 ws>`; witness = the items, then the witness script -/
theorem solve_p2sh_p2wsh (a : SolveArgs) (ctx : TxCtx) (h prog ws : Bytes) (base : Base) (hb : BaseOK a ws base) (script : Bytes)
    (witness : List Bytes) (hlen : h.length = 20) (hplen : prog.length = 32) (hl : a.p2sh h = some (witnessV0Script prog))
    (hlw : a.p2sh prog = some ws) (hsha : Hash.sha256 ws = prog) :
    Solve.solve a ctx (p2shScript h) script witness =
      match existingScript script witness with
      | .error e => .error e
      | .ok existing =>
        match solveBase a.C a.lookup (a.sighash true ws) existing a.ht a.placeholder base with
        | .error e => .error e
        | .ok items =>
          match pushAll [some (witnessV0Script prog)] with
          | .error e => .error e
          | .ok sc => .ok (sc, some (items ++ [some ws])) := by
  obtain ⟨cs, hrun, hsolve⟩ := hb.ok
  unfold Solve.solve
  cases existingScript script witness with
  | error e => rfl
  | ok existing =>
    simp only [determineConstraints_p2sh_p2wsh a.p2sh ctx h prog ws hlen hplen cs hrun hl hlw hsha]
    rw [closing_xw, hsolve existing true 1 true (some (witnessV0Script prog)) (some ws) (by simp)]
    cases solveBase a.C a.lookup (a.sighash true ws) existing a.ht a.placeholder base with
    | error e => rfl
    | ok items => simp only [splitByLetter]; cases hp : pushAll [some (witnessV0Script prog)] <;> simp_all

theorem solveBase_p2pkh_ne_nil {C : Crypto} {lookup : Lookup} {dig : Digest} {ex : List Bytes} {ht : Nat} {ph : Option Bytes}
    {h : Bytes} {items : List (Option Bytes)} (hs : solveBase C lookup dig ex ht ph (.p2pkh h) = .ok items) : items ≠ [] := by
  simp only [solveBase] at hs
  cases hl : lookup h with
  | none => rw [hl] at hs; cases hs
  | some e =>
    rw [hl] at hs
    simp only [] at hs
    cases hsec : publicPairToSec e.x e.y e.compressed with
    | error er => rw [hsec] at hs; cases hs
    | ok sec =>
      rw [hsec] at hs
      simp only [] at hs
      cases hsg : signingSolver C lookup dig [sec] 1 ex ht ph with
      | error er => rw [hsg] at hs; cases hs
      | ok sigs =>
        rw [hsg] at hs
        cases hs
        simp

/-- **P2WPKH**: empty scriptSig; witness = signature, key -/
theorem solve_p2wpkh (a : SolveArgs) (ctx : TxCtx) (prog : Bytes) (ph : Bytes) (hph : a.placeholder = some ph) (script : Bytes)
    (witness : List Bytes) (hlen : prog.length = 20) :
    Solve.solve a ctx (witnessV0Script prog) script witness =
      match existingScript script witness with
      | .error e => .error e
      | .ok existing =>
        match solveBase a.C a.lookup (a.sighash true (p2pkhScript prog)) existing a.ht a.placeholder (.p2pkh prog) with
        | .error e => .error e
        | .ok items => .ok ([], some items) := by
  unfold Solve.solve
  cases existingScript script witness with
  | error e => rfl
  | ok existing =>
    simp only [determineConstraints_p2wpkh a.p2sh ctx prog hlen]
    rw [closing_none (p2pkhConstraints prog (.w 0) (.w 1) true),
      solveFor_p2pkh a existing prog (.w 0) (.w 1) true none none ph hph (by decide) rfl (by simp)]
    cases hsb : solveBase a.C a.lookup (a.sighash true (p2pkhScript prog)) existing a.ht a.placeholder (.p2pkh prog) with
    | error e => rfl
    | ok items =>
      have hne := solveBase_p2pkh_ne_nil hsb
      cases items with
      | nil => exact absurd rfl hne
      | cons i r => simp [splitByLetter, Atom.isW, pushAll, Script.compilePushDataList]

/-- **P2SH-P2WPKH**: scriptSig = the push of `OP_0 <hash160 key>`; witness = signature, key -/
theorem solve_p2sh_p2wpkh (a : SolveArgs) (ctx : TxCtx) (h prog : Bytes) (ph : Bytes) (hph : a.placeholder = some ph)
    (script : Bytes) (witness : List Bytes) (hlen : h.length = 20) (hplen : prog.length = 20)
    (hl : a.p2sh h = some (witnessV0Script prog)) :
    Solve.solve a ctx (p2shScript h) script witness =
      match existingScript script witness with
      | .error e => .error e
      | .ok existing =>
        match solveBase a.C a.lookup (a.sighash true (p2pkhScript prog)) existing a.ht a.placeholder (.p2pkh prog) with
        | .error e => .error e
        | .ok items =>
          match pushAll [some (witnessV0Script prog)] with
          | .error e => .error e
          | .ok sc => .ok (sc, some items) := by
  unfold Solve.solve
  cases existingScript script witness with
  | error e => rfl
  | ok existing =>
    simp only [determineConstraints_p2sh_p2wpkh a.p2sh ctx h prog hlen hplen hl]
    rw [closing_x, solveFor_p2pkh a existing prog (.w 0) (.w 1) true (some (witnessV0Script prog)) none ph hph (by decide) rfl
      (by simp [Atom.isW])]
    cases hsb : solveBase a.C a.lookup (a.sighash true (p2pkhScript prog)) existing a.ht a.placeholder (.p2pkh prog) with
    | error e => rfl
    | ok items =>
      have hne := solveBase_p2pkh_ne_nil hsb
      cases items with
      | nil => exact absurd rfl hne
      | cons i r =>
        simp only [splitByLetter, Atom.isW]
        cases hp : pushAll [some (witnessV0Script prog)] <;> simp_all

end Pycoin.Solve
