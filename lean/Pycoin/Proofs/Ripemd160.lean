import Pycoin.Proofs.Lo32
import Pycoin.Proofs.Bytes
import Pycoin.Model.Ripemd160Py
import Pycoin.Spec.Ripemd160
/-!
C19 — proof that the function-by-function model of `pycoin/contrib/ripemd160.py`
(`Model/Ripemd160Py.lean`: unbounded Python integers, masks where the code masks, the code's
padding arithmetic, tables from `Gen/HashTables.lean`) computes the standard RIPEMD-160
(`Spec/Ripemd160.lean`), layer by layer: `fi`, `rol`, one line of a round, a round, the 80-round
fold, `compress`, the block loop, the padding, the output.  Core Lean only.
-/
namespace Pycoin.Ripemd160Py
open Pycoin.Hash Pycoin.Gen.HashTables

@[simp] theorem ok_bind {ε α β} (a : α) (f : α → Except ε β) : (Except.ok a >>= f) = f a := rfl
@[simp] theorem pure_eq_ok {ε α} (a : α) : (pure a : Except ε α) = Except.ok a := rfl

theorem and_ones (a : UInt32) : a &&& 4294967295 = a := by
  apply UInt32.toBitVec_inj.1
  rw [UInt32.toBitVec_and]
  exact BitVec.and_allOnes

theorem lo32_ones : lo32 0xFFFFFFFF = 4294967295 := by decide

theorem fi_ok (x y z : Int) (i : Nat) (hi : i ≤ 4) :
    ∃ v, fi x y z (i : Int) = .ok v ∧ lo32 v = Rmd.f i (lo32 x) (lo32 y) (lo32 z) := by
  have : i = 0 ∨ i = 1 ∨ i = 2 ∨ i = 3 ∨ i = 4 := by omega
  rcases this with rfl | rfl | rfl | rfl | rfl <;>
    exact ⟨_, rfl, by simp [Rmd.f, lo32_xor, lo32_and, lo32_or, lo32_not]⟩

theorem rol_ok (x : Int) (i : Nat) (h0 : 0 < i) (h1 : i < 32) :
    ∃ v, rol x (i : Int) = .ok v ∧ lo32 v = Rmd.rotl (lo32 x) i := by
  have e1 : pyShlE x (i : Int) = .ok (x <<< i) := by simp [pyShlE]
  have e2 : pyShrE (pyAnd x 0xFFFFFFFF) (32 - (i : Int)) = .ok ((pyAnd x 0xFFFFFFFF) >>> (32 - i)) := by
    have : (32 - (i : Int)) = ((32 - i : Nat) : Int) := by omega
    rw [this]; simp [pyShrE]
  refine ⟨_, by simp only [rol, e1, e2, ok_bind]; rfl, ?_⟩
  rw [lo32_and, lo32_or, lo32_shl _ h1, lo32_shr_masked _ (by omega : 32 - i < 32), lo32_ones, and_ones]
  rfl


def lo5 (s : St) : Rmd.St := ⟨lo32 s.a, lo32 s.b, lo32 s.c, lo32 s.d, lo32 s.e⟩

theorem line_ok {x : List Int} {X : List UInt32} {Mt Rt Kt : List Int} {j m r fidx : Nat} {kv : Int}
    (hx : ∃ v, pyGetItem x (m : Int) = .ok v ∧ lo32 v = X.getD m 0)
    (hm : pyGetItem Mt (j : Int) = .ok (m : Int))
    (hr : pyGetItem Rt (j : Int) = .ok (r : Int)) (hr0 : 0 < r) (hr1 : r < 32)
    (hk : pyGetItem Kt ((j : Int) >>> 4) = .ok kv)
    (hf : fidx ≤ 4) (s : St) :
    ∃ s', line x Mt Rt Kt (fidx : Int) j s = .ok s' ∧
      lo5 s' = Rmd.step fidx (lo32 kv) (X.getD m 0) r (lo5 s) := by
  obtain ⟨xv, hxv, hxl⟩ := hx
  obtain ⟨f, hf1, hf2⟩ := fi_ok s.b s.c s.d fidx hf
  obtain ⟨a, ha1, ha2⟩ := rol_ok (s.a + f + xv + kv) r hr0 hr1
  obtain ⟨c, hc1, hc2⟩ := rol_ok s.c 10 (by decide) (by decide)
  refine ⟨⟨s.e, a + s.e, s.b, c, s.d⟩, ?_, ?_⟩
  · simp only [line, hf1, hm, hxv, hk, hr, ha1, ok_bind, pure_eq_ok]
    have : rol s.c 10 = .ok c := hc1
    rw [this]; rfl
  · simp only [lo5, Rmd.step, lo32_add, ha2, hc2, hf2, hxl]


/-! ### the generated tables are the standard's (kernel-checked over all 80 steps) -/

theorem tbl_ML : ∀ j : Nat, j < 80 → pyGetItem ML (j : Int) = .ok ((Rmd.rL.getD j 0 : Nat) : Int) ∧ Rmd.rL.getD j 0 < 16 := by
  decide
theorem tbl_MR : ∀ j : Nat, j < 80 → pyGetItem MR (j : Int) = .ok ((Rmd.rR.getD j 0 : Nat) : Int) ∧ Rmd.rR.getD j 0 < 16 := by
  decide
theorem tbl_RL : ∀ j : Nat, j < 80 → pyGetItem RL (j : Int) = .ok ((Rmd.sL.getD j 0 : Nat) : Int) ∧
    0 < Rmd.sL.getD j 0 ∧ Rmd.sL.getD j 0 < 32 := by
  decide
theorem tbl_RR : ∀ j : Nat, j < 80 → pyGetItem RR (j : Int) = .ok ((Rmd.sR.getD j 0 : Nat) : Int) ∧
    0 < Rmd.sR.getD j 0 ∧ Rmd.sR.getD j 0 < 32 := by
  decide
theorem tbl_KL : ∀ j : Nat, j < 80 → pyGetItem KL ((j : Int) >>> 4) = .ok (((Rmd.kL.getD (j / 16) 0).toNat : Nat) : Int) := by
  decide
theorem tbl_KR : ∀ j : Nat, j < 80 → pyGetItem KR ((j : Int) >>> 4) = .ok (((Rmd.kR.getD (j / 16) 0).toNat : Nat) : Int) := by
  decide

theorem lo32_toNat (u : UInt32) : lo32 ((u.toNat : Nat) : Int) = u := by
  rw [lo32_natCast]; simp

theorem shr4 (j : Nat) : (j : Int) >>> 4 = ((j / 16 : Nat) : Int) := by
  show ((j >>> 4 : Nat) : Int) = _
  rw [Nat.shiftRight_eq_div_pow]

theorem round_ok {x : List Int} {X : List UInt32}
    (hx : ∀ m : Nat, m < 16 → ∃ v, pyGetItem x (m : Int) = .ok v ∧ lo32 v = X.getD m 0)
    (j : Nat) (hj : j < 80) (p : St × St) :
    ∃ p', round x p j = .ok p' ∧ (lo5 p'.1, lo5 p'.2) = Rmd.round X (lo5 p.1, lo5 p.2) j := by
  have hq : j / 16 ≤ 4 := by omega
  obtain ⟨l, hl1, hl2⟩ := line_ok (fidx := j / 16) (hx _ (tbl_ML j hj).2) (tbl_ML j hj).1 (tbl_RL j hj).1
    (tbl_RL j hj).2.1 (tbl_RL j hj).2.2 (tbl_KL j hj) hq p.1
  obtain ⟨r, hr1, hr2⟩ := line_ok (fidx := 4 - j / 16) (hx _ (tbl_MR j hj).2) (tbl_MR j hj).1 (tbl_RR j hj).1
    (tbl_RR j hj).2.1 (tbl_RR j hj).2.2 (tbl_KR j hj) (by omega) p.2
  refine ⟨(l, r), ?_, ?_⟩
  · have e : (4 : Int) - ((j / 16 : Nat) : Int) = ((4 - j / 16 : Nat) : Int) := by omega
    simp only [round, shr4, e, hl1, hr1, ok_bind, pure_eq_ok]
  · simp only [Rmd.round, hl2, hr2, lo32_toNat]


/-- simulation of a `foldlM` in `Except` by a pure `foldl` along a relation -/
theorem foldlM_sim {σ τ ι : Type} (R : σ → τ → Prop) (f : σ → ι → Except PyErr σ) (g : τ → ι → τ) (P : ι → Prop)
    (hstep : ∀ j s t, P j → R s t → ∃ s', f s j = .ok s' ∧ R s' (g t j)) :
    ∀ (l : List ι), (∀ j ∈ l, P j) → ∀ s t, R s t → ∃ s', l.foldlM f s = .ok s' ∧ R s' (l.foldl g t) := by
  intro l
  induction l with
  | nil => intro _ s t h; exact ⟨s, rfl, h⟩
  | cons a l ih =>
    intro hl s t h
    obtain ⟨s1, h1, h2⟩ := hstep a s t (hl a (by simp)) h
    obtain ⟨s2, h3, h4⟩ := ih (fun j hj => hl j (by simp [hj])) s1 (g t a) h2
    exact ⟨s2, by simp only [List.foldlM_cons, h1, ok_bind, h3], by simpa using h4⟩

/-- the words of a block as Python integers -/
def wordsInt : Bytes → List Int
  | a :: b :: c :: d :: rest => ((leNat [a, b, c, d] : Nat) : Int) :: wordsInt rest
  | _ => []

theorem wordsLE_eq : ∀ (b : Bytes), Rmd.wordsLE b = (wordsInt b).map lo32
  | a :: b :: c :: d :: rest => by simp only [Rmd.wordsLE, wordsInt, List.map_cons, lo32_natCast, wordsLE_eq rest]
  | [] => rfl
  | [_] => rfl
  | [_, _] => rfl
  | [_, _, _] => rfl

theorem wordsInt_length : ∀ (b : Bytes) (n : Nat), b.length = 4 * n → (wordsInt b).length = n
  | a :: b :: c :: d :: rest, n, h => by
    cases n with
    | zero => simp at h
    | succ n => simp only [wordsInt, List.length_cons, wordsInt_length rest n (by simp at h; omega)]
  | [], n, h => by
    have : n = 0 := by simp at h; omega
    subst this; rfl
  | [_], n, h => by simp at h; omega
  | [_, _], n, h => by simp at h; omega
  | [_, _, _], n, h => by simp at h; omega

theorem mapM_range_succ {α} (f : Nat → Except PyErr α) (n : Nat) :
    (List.range (n + 1)).mapM f = (do let a ← f 0; let r ← (List.range n).mapM (fun i => f (i + 1)); pure (a :: r)) := by
  rw [List.range_succ_eq_map, List.mapM_cons, List.mapM_map]
  rfl

theorem unpack_loop : ∀ (n : Nat) (b : Bytes), b.length = 4 * n →
    (List.range n).mapM (fun i => unpackL (slice b (4 * i) (4 * (i + 1)))) = .ok (wordsInt b)
  | 0, b, h => by
    have : b = [] := List.eq_nil_of_length_eq_zero (by omega)
    subst this; rfl
  | n + 1, a :: b :: c :: d :: rest, h => by
    rw [mapM_range_succ]
    have h0 : unpackL (slice (a :: b :: c :: d :: rest) (4 * 0) (4 * (0 + 1))) = .ok ((leNat [a, b, c, d] : Nat) : Int) := by
      simp [slice, unpackL]
    have hrest : ∀ i : Nat, slice (a :: b :: c :: d :: rest) (4 * (i + 1)) (4 * (i + 1 + 1)) = slice rest (4 * i) (4 * (i + 1)) := by
      intro i
      have e1 : 4 * (i + 1) = 4 * i + 4 := by omega
      have e2 : 4 * (i + 1 + 1) - (4 * i + 4) = 4 * (i + 1) - 4 * i := by omega
      simp only [slice, e1, e2]
      rfl
    simp only [h0, hrest, ok_bind, unpack_loop n rest (by simp at h; omega), pure_eq_ok, wordsInt]
  | n + 1, [], h => by simp at h
  | n + 1, [_], h => by simp at h; omega
  | n + 1, [_, _], h => by simp at h; omega
  | n + 1, [_, _, _], h => by simp at h; omega

theorem blockWords_ok (b : Bytes) (h : b.length = 64) : blockWords b = .ok (wordsInt b) :=
  unpack_loop 16 b h

theorem getItem_words {x : List Int} (hl : x.length = 16) (m : Nat) (hm : m < 16) :
    ∃ v, pyGetItem x (m : Int) = .ok v ∧ lo32 v = (x.map lo32).getD m 0 := by
  have h1 : x[m]? = some (x[m]'(by omega)) := List.getElem?_eq_getElem (by omega)
  refine ⟨x[m]'(by omega), ?_, ?_⟩
  · have : ¬ ((m : Int) < 0) := by omega
    simp [pyGetItem, this, h1]
  · simp [List.getD_eq_getElem?_getD, h1]

theorem compress_ok (h : St) (b : Bytes) (hb : b.length = 64) :
    ∃ s, compress h b = .ok s ∧ lo5 s = Rmd.compress (lo5 h) (Rmd.wordsLE b) := by
  have hx := getItem_words (wordsInt_length b 16 hb)
  rw [← wordsLE_eq] at hx
  obtain ⟨p, hp1, hp2⟩ := foldlM_sim (fun (p : St × St) (q : Rmd.St × Rmd.St) => (lo5 p.1, lo5 p.2) = q)
    (round (wordsInt b)) (Rmd.round (Rmd.wordsLE b)) (fun j => j < 80)
    (fun j s t hj hR => by subst hR; exact round_ok hx j hj s)
    (List.range 80) (fun j hj => by simpa using hj) (h, h) (lo5 h, lo5 h) rfl
  refine ⟨⟨h.b + p.1.c + p.2.d, h.c + p.1.d + p.2.e, h.d + p.1.e + p.2.a, h.e + p.1.a + p.2.b, h.a + p.1.b + p.2.c⟩, ?_, ?_⟩
  · simp only [compress, blockWords_ok b hb, hp1, ok_bind, pure_eq_ok]
  · simp only [Rmd.compress]
    rw [← hp2]
    simp only [lo5, lo32_add]


/-! ### block loop -/

/-- `for b in range(n): state = compress(*state, buf[64*b : 64*(b+1)])` -/
def loop (n : Nat) (buf : Bytes) (st : St) : M St :=
  (List.range n).foldlM (fun st b => compress st (slice buf (64 * b) (64 * (b + 1)))) st

theorem loop_succ (n : Nat) (buf : Bytes) (st : St) :
    loop (n + 1) buf st = (compress st (buf.take 64) >>= fun st' => loop n (buf.drop 64) st') := by
  unfold loop
  rw [List.range_succ_eq_map, List.foldlM_cons]
  simp only [List.foldlM_map]
  have h0 : slice buf (64 * 0) (64 * (0 + 1)) = buf.take 64 := by simp [slice]
  have hs : ∀ b : Nat, slice buf (64 * (b + 1)) (64 * (b + 1 + 1)) = slice (buf.drop 64) (64 * b) (64 * (b + 1)) := by
    intro b
    have e1 : 64 * (b + 1) = 64 + 64 * b := by omega
    have e2 : 64 * (b + 1 + 1) - (64 + 64 * b) = 64 * (b + 1) - 64 * b := by omega
    simp only [slice, e1, e2, List.drop_drop]
  simp only [h0, hs]

theorem loop_ok : ∀ (n : Nat) (buf : Bytes) (st : St), 64 * n ≤ buf.length →
    ∃ st', loop n buf st = .ok st' ∧ lo5 st' = Rmd.foldBlocks n (lo5 st) buf
  | 0, _, st, _ => ⟨st, rfl, rfl⟩
  | n + 1, buf, st, h => by
    obtain ⟨s1, h1, h2⟩ := compress_ok st (buf.take 64) (by simp; omega)
    obtain ⟨s2, h3, h4⟩ := loop_ok n (buf.drop 64) s1 (by simp; omega)
    exact ⟨s2, by rw [loop_succ, h1, ok_bind, h3], by rw [h4, h2]; rfl⟩

theorem blocks_ok (buf : Bytes) (st : St) :
    ∃ st', blocks buf st = .ok st' ∧ lo5 st' = Rmd.foldBlocks (buf.length / 64) (lo5 st) buf := by
  have e : buf.length >>> 6 = buf.length / 64 := by rw [Nat.shiftRight_eq_div_pow]
  have := loop_ok (buf.length / 64) buf st (by omega)
  simpa only [blocks, loop, e] using this

/-! ### the standard's block fold -/

theorem foldBlocks_append : ∀ (a b : Nat) (s : Rmd.St) (xs ys : Bytes), xs.length = 64 * a →
    Rmd.foldBlocks (a + b) s (xs ++ ys) = Rmd.foldBlocks b (Rmd.foldBlocks a s xs) ys
  | 0, b, s, xs, ys, h => by
    have : xs = [] := List.eq_nil_of_length_eq_zero (by omega)
    subst this; simp [Rmd.foldBlocks]
  | a + 1, b, s, xs, ys, h => by
    have e : a + 1 + b = (a + b) + 1 := by omega
    rw [e]
    simp only [Rmd.foldBlocks]
    have h1 : (xs ++ ys).take 64 = xs.take 64 := by
      rw [List.take_append_of_le_length (by omega)]
    have h2 : (xs ++ ys).drop 64 = xs.drop 64 ++ ys := by
      rw [List.drop_append_of_le_length (by omega)]
    rw [h1, h2, foldBlocks_append a b _ (xs.drop 64) ys (by simp; omega)]

theorem foldBlocks_take (a : Nat) (s : Rmd.St) (xs : Bytes) (h : 64 * a ≤ xs.length) :
    Rmd.foldBlocks a s xs = Rmd.foldBlocks a s (xs.take (64 * a)) := by
  have := foldBlocks_append a 0 s (xs.take (64 * a)) (xs.drop (64 * a)) (by simp; omega)
  simpa [Rmd.foldBlocks] using this

/-! ### padding arithmetic -/

theorem andNot_low (n k : Nat) : Nat.andNot n (2 ^ k - 1) = 2 ^ k * (n / 2 ^ k) := by
  apply Nat.eq_of_testBit_eq
  intro i
  simp only [Nat.andNot, Nat.testBit_xor, Nat.and_two_pow_sub_one_eq_mod, Nat.testBit_mod_two_pow,
    Nat.testBit_two_pow_mul, Nat.testBit_div_two_pow]
  by_cases h : i < k
  · simp [h]; omega
  · have : k ≤ i := by omega
    simp [h, this, Nat.sub_add_cancel this]

theorem pad_start (n : Nat) : (pyAnd (n : Int) (~~~(63 : Int))).toNat = 64 * (n / 64) := by
  show (Int.ofNat (Nat.andNot n 63)).toNat = _
  exact andNot_low n 6

theorem pad_zeros (n : Nat) : (pyAnd (119 - (n : Int)) 63).toNat = (119 - n % 64) % 64 := by
  have := pyAnd_mask (119 - (n : Int)) 6
  simp only [BitVec.toNat_ofInt] at this
  have e : ((2 ^ 6 - 1 : Nat) : Int) = 63 := by decide
  rw [e] at this
  rw [this]
  omega

theorem init_ok : init = .ok ⟨0x67452301, 0xEFCDAB89, 0x98BADCFE, 0x10325476, 0xC3D2E1F0⟩ := by decide

theorem init_lo5 : lo5 ⟨0x67452301, 0xEFCDAB89, 0x98BADCFE, 0x10325476, 0xC3D2E1F0⟩ = Rmd.init := by decide

theorem packL_masked (h : Int) : packL (pyAnd h 0xFFFFFFFF) = .ok (leBytes (lo32 h).toNat 4) := by
  rw [pyAnd_mask32]
  have h1 := (lo32 h).toNat_lt
  have h2 : (0 : Int) ≤ ((lo32 h).toNat : Int) ∧ ((lo32 h).toNat : Int) < 2 ^ 32 := by omega
  simp only [packL, h2, and_self, if_true, pure_eq_ok, Int.toNat_natCast]


theorem packQ_ok (n : Nat) (h : n < 2 ^ 61) : packQ (8 * (n : Int)) = .ok (leBytes (8 * n) 8) := by
  have h2 : (0 : Int) ≤ 8 * (n : Int) ∧ 8 * (n : Int) < 2 ^ 64 := by omega
  have h3 : (8 * (n : Int)).toNat = 8 * n := by omega
  simp only [packQ, h2, and_self, if_true, pure_eq_ok, h3]

theorem packQ_overflow (n : Nat) (h : 2 ^ 61 ≤ n) : packQ (8 * (n : Int)) = .error .structError := by
  have h2 : ¬ ((0 : Int) ≤ 8 * (n : Int) ∧ 8 * (n : Int) < 2 ^ 64) := by omega
  simp only [packQ, h2, if_false]
  rfl

/-- the Python-style RIPEMD-160 equals the standard's for every message the code can length-encode -/
theorem ripemd160_py_eq_spec (data : Bytes) (h : data.length < 2 ^ 61) :
    ripemd160 data = .ok (Hash.ripemd160 data) := by
  obtain ⟨s1, h1, h1'⟩ := blocks_ok data ⟨0x67452301, 0xEFCDAB89, 0x98BADCFE, 0x10325476, 0xC3D2E1F0⟩
  let fin : Bytes := data.drop (64 * (data.length / 64)) ++ ([0x80] ++ List.replicate ((119 - data.length % 64) % 64) 0) ++
    leBytes (8 * data.length) 8
  obtain ⟨s2, h2, h2'⟩ := blocks_ok fin s1
  have hfl : fin.length = (data.length - 64 * (data.length / 64)) + (1 + (119 - data.length % 64) % 64) + 8 := by
    simp [fin]
    omega
  have hp : Rmd.pad data = data.take (64 * (data.length / 64)) ++ fin := by
    simp only [Rmd.pad, fin, ← List.append_assoc, List.take_append_drop]
  have hpl : (Rmd.pad data).length / 64 = data.length / 64 + fin.length / 64 := by
    rw [hp, List.length_append, List.length_take]
    omega
  have hspec : Hash.ripemd160 data = Rmd.out (lo5 s2) := by
    simp only [Hash.ripemd160]
    rw [hpl, hp, foldBlocks_append _ _ _ _ _ (by rw [List.length_take]; omega),
      ← foldBlocks_take _ _ _ (by omega), h2', h1', init_lo5]
  rw [hspec]
  simp only [ripemd160, init_ok, ok_bind, h1, packQ_ok _ h, pad_start, pad_zeros]
  have : blocks (List.drop (64 * (data.length / 64)) data ++ ([128] ++ List.replicate ((119 - data.length % 64) % 64) 0) ++
      leBytes (8 * data.length) 8) s1 = .ok s2 := h2
  simp only [this, ok_bind, List.mapM_cons, List.mapM_nil, packL_masked, pure_eq_ok, Rmd.out, lo5]
  simp

/-- beyond `2^61` bytes `struct.pack("<Q", 8 * len(data))` raises `struct.error` -/
theorem ripemd160_py_overflow (data : Bytes) (h : 2 ^ 61 ≤ data.length) :
    ripemd160 data = .error .structError := by
  obtain ⟨s1, h1, _⟩ := blocks_ok data ⟨0x67452301, 0xEFCDAB89, 0x98BADCFE, 0x10325476, 0xC3D2E1F0⟩
  simp only [ripemd160, init_ok, ok_bind, h1, packQ_overflow _ h]
  rfl

end Pycoin.Ripemd160Py
