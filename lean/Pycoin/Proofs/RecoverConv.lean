import Pycoin.Proofs.RecoverX
/-!
C01 — the converse of public-key recovery.

For a curve on which the order `n` annihilates every point (`#E(F_p) = n`: secp256k1, secp256r1) a public key `Q`
verifies `(z, r, s)` exactly when `Q = r⁻¹(s•R − z•G)` for a curve point `R` whose abscissa is `≡ r (mod n)`;
with `p ≤ 2n` the abscissa is `r` or `r + n`, and `possible_public_pairs_for_signature` called with the abscissa
(`r`, as `Generator` users do, or `r + n`, as the compact-signature code of C17 does) returns exactly those keys.
-/
namespace Pycoin.Curve
open Pycoin WeierstrassCurve

variable {c : CurveParams} [Good c]

/-- every group element other than infinity is denoted by a reduced coordinate pair of the model -/
theorem exists_pt_of_point (P : (W c).Point) (hP : P ≠ 0) :
    ∃ x y : Int, containsXY c x y = true ∧ 0 ≤ x ∧ x < c.p ∧ 0 ≤ y ∧ y < c.p ∧ toPoint c (some (x, y)) = P ∧
      xModN c P = some (x % c.n) := by
  have : NeZero c.p := ⟨(p_pos c).ne'⟩
  match P, hP with
  | .zero, h => exact absurd rfl h
  | .some x y h, _ =>
    have hc : containsXY c (x.val : Int) (y.val : Int) = true := by
      rw [containsXY_iff]; simpa using h.1
    refine ⟨x.val, y.val, hc, by positivity, by exact_mod_cast ZMod.val_lt x, by positivity,
      by exact_mod_cast ZMod.val_lt y, ?_, rfl⟩
    rw [toPoint_some c hc]
    exact some_congr c _ _ (by simp) (by simp)

variable (ok : ECDSAOk c)
include ok

/-- **recovery at any abscissa, both parities** (`y_parity=None`).  For `0 ≤ x < p`, `x ≢ 0 (mod n)`, `p ≡ 3 (mod 4)`:
`possible_public_pairs_for_signature` raises nothing; it returns `[]` when no curve point with `y ≠ 0` has abscissa `x`,
and otherwise the two keys `((s/x) mod n)•(x, yᵢ) − (z/x)•G` for the two curve points `(x, y₀)`, `(x, y₁)`. -/
theorem recover_none_x (h4 : c.p % 4 = 3) (bf z x s : Int) (hx0 : 0 ≤ x) (hxp : x < c.p) (hxn : (x : ZMod c.n) ≠ 0) :
    (possiblePublicPairsForSignature c bf z x s none = .ok [] ∧
      ∀ y : Int, 0 < y → y < c.p → containsXY c x y = false) ∨
    ∃ (y0 y1 invR : Int) (Q0 Q1 : Pt), containsXY c x y0 = true ∧ containsXY c x y1 = true ∧
      0 < y0 ∧ y0 < c.p ∧ 0 < y1 ∧ y1 < c.p ∧
      (∀ y : Int, 0 ≤ y → y < c.p → containsXY c x y = true → y = y0 ∨ y = y1) ∧
      (invR : ZMod c.n) = (x : ZMod c.n)⁻¹ ∧
      possiblePublicPairsForSignature c bf z x s none = .ok [Q0, Q1] ∧
      OnCurve c Q0 ∧ Reduced c Q0 ∧ OnCurve c Q1 ∧ Reduced c Q1 ∧
      toPoint c Q0 = ((s * invR) % (c.n : Int)) • toPoint c (some (x, y0)) +
        zsm c (-((x : ZMod c.n)⁻¹ * (z : ZMod c.n))) (G c) ∧
      toPoint c Q1 = ((s * invR) % (c.n : Int)) • toPoint c (some (x, y1)) +
        zsm c (-((x : ZMod c.n)⁻¹ * (z : ZMod c.n))) (G c) := by
  have hrp : ¬ x ≥ c.p := by omega
  by_cases hα : alphaOf c x = 0
  · left
    refine ⟨by unfold possiblePublicPairsForSignature; rw [if_neg hrp, pointsForX_alpha_zero h4 x hα]; rfl, ?_⟩
    intro y hy0 hyp
    by_contra hc
    have hc' : containsXY c x y = true := by simpa using hc
    have h2 : (y : ZMod c.p) ^ 2 = alphaOf c x := by
      have := (containsXY_iff c x y).mp hc'
      rw [W_equation_iff] at this; exact this
    rw [hα] at h2
    have h3 : (y : ZMod c.p) = 0 := by simpa using h2
    have := Int.le_of_dvd hy0 ((ZMod.intCast_zmod_eq_zero_iff_dvd y c.p).mp h3)
    omega
  obtain ⟨hsq, hnsq⟩ := pointsForX_spec c h4 x hα
  by_cases hs : IsSquare (alphaOf c x)
  · right
    obtain ⟨y0, y1, hpx, c0, c1, y0p, y0l, y1p, y1l, hev, hsum, hall⟩ := hsq hs
    obtain ⟨invR, mE, hinv, hinvc, hmE, mEc, mEr, mEt⟩ := recover_setup_x ok bf z x hxn
    rw [recover_unfold bf z x s none _ _ invR mE hrp hpx hinv hmE]
    obtain ⟨Q0, s0, q0c, q0r, q0t⟩ := recover_step_x ok s invR mE x y0 c0 hx0 hxp y0p y0l mEc mEr
    obtain ⟨Q1, s1, q1c, q1r, q1t⟩ := recover_step_x ok s invR mE x y1 c1 hx0 hxp y1p y1l mEc mEr
    exact ⟨y0, y1, invR, Q0, Q1, c0, c1, y0p, y0l, y1p, y1l, hall, hinvc, by simp [mapMExcept, s0, s1],
      q0c, q0r, q1c, q1r, by rw [q0t, mEt], by rw [q1t, mEt]⟩
  · left
    obtain ⟨hpx, hno⟩ := hnsq hs
    exact ⟨by unfold possiblePublicPairsForSignature; rw [if_neg hrp, hpx]; rfl, fun y _ _ => hno y⟩

/-- the key a candidate nonce point `R` determines: `r⁻¹(s•R − z•G)` -/
noncomputable def keyOfNonce (c : CurveParams) [Good c] (z r s : Int) (R : (W c).Point) : (W c).Point :=
  zsm c ((s : ZMod c.n) * (r : ZMod c.n)⁻¹) R + zsm c (-((r : ZMod c.n)⁻¹ * (z : ZMod c.n))) (G c)

/-- the point the verification equation looks at: `(z/s)•G + (r/s)•Q` -/
noncomputable def noncePointOf (c : CurveParams) [Good c] (z r s : Int) (Q : (W c).Point) : (W c).Point :=
  zsm c ((z : ZMod c.n) * (s : ZMod c.n)⁻¹) (G c) + zsm c ((r : ZMod c.n) * (s : ZMod c.n)⁻¹) Q

/-- `Q ↦ (z/s)•G + (r/s)•Q` and `R ↦ r⁻¹(s•R − z•G)` are inverse bijections of the `n`-torsion (for `r, s ≢ 0`) -/
theorem keyOfNonce_noncePointOf (z r s : Int) (hr : (r : ZMod c.n) ≠ 0) (hs : (s : ZMod c.n) ≠ 0)
    (Q : (W c).Point) (hQn : (c.n : Int) • Q = 0) : keyOfNonce c z r s (noncePointOf c z r s Q) = Q := by
  have := ok.neZero
  have := ok.fact
  have hn1 : 1 < c.n := ok.nprime.one_lt
  unfold keyOfNonce noncePointOf
  rw [zsm_smul_add, ← zsm_mul ok.gOrd, ← zsm_mul hQn, add_assoc, add_comm (zsm c _ Q), ← add_assoc, ← zsm_add ok.gOrd]
  have e1 : (s : ZMod c.n) * (r : ZMod c.n)⁻¹ * ((r : ZMod c.n) * (s : ZMod c.n)⁻¹) = 1 := by field_simp
  have e2 : (s : ZMod c.n) * (r : ZMod c.n)⁻¹ * ((z : ZMod c.n) * (s : ZMod c.n)⁻¹) +
      -((r : ZMod c.n)⁻¹ * (z : ZMod c.n)) = 0 := by field_simp; ring
  rw [e1, e2, zsm_one hn1, zsm_zero, zero_add]

theorem noncePointOf_keyOfNonce (z r s : Int) (hr : (r : ZMod c.n) ≠ 0) (hs : (s : ZMod c.n) ≠ 0)
    (R : (W c).Point) (hRn : (c.n : Int) • R = 0) : noncePointOf c z r s (keyOfNonce c z r s R) = R := by
  have := ok.neZero
  have := ok.fact
  have hn1 : 1 < c.n := ok.nprime.one_lt
  unfold keyOfNonce noncePointOf
  rw [zsm_smul_add, ← zsm_mul hRn, ← zsm_mul ok.gOrd, ← add_assoc, add_comm (zsm c _ (G c)), add_assoc,
    ← zsm_add ok.gOrd]
  have e1 : (r : ZMod c.n) * (s : ZMod c.n)⁻¹ * ((s : ZMod c.n) * (r : ZMod c.n)⁻¹) = 1 := by field_simp
  have e2 : (z : ZMod c.n) * (s : ZMod c.n)⁻¹ + (r : ZMod c.n) * (s : ZMod c.n)⁻¹ * -((r : ZMod c.n)⁻¹ * (z : ZMod c.n)) = 0 := by
    field_simp; ring
  rw [e1, e2, zsm_one hn1, zsm_zero, add_zero]

theorem keyOfNonce_torsion (z r s : Int) (R : (W c).Point) (hRn : (c.n : Int) • R = 0) :
    (c.n : Int) • keyOfNonce c z r s R = 0 := by
  have := ok.neZero
  unfold keyOfNonce
  rw [zsmul_add, zsm_torsion hRn, zsm_torsion ok.gOrd, add_zero]

/-- **the verifying keys of `(z, r, s)`, in the group.**  A reduced curve point `Q` of the `n`-torsion verifies `(z, r, s)`
(`z ≠ 0`) exactly when `1 ≤ r, s < n` and `Q = r⁻¹(s•R − z•G)` for a point `R` of the `n`-torsion whose abscissa is
`≡ r (mod n)`; that `R` is `(z/s)•G + (r/s)•Q`. -/
theorem verify_true_iff_nonce_point (bf : Int) (Q : Pt) (hQ : OnCurve c Q) (rQ : Reduced c Q)
    (hQn : (c.n : Int) • toPoint c Q = 0) (z r s : Int) (hz : z ≠ 0) :
    verify c bf Q z r s = .ok true ↔
      1 ≤ r ∧ r < c.n ∧ 1 ≤ s ∧ s < c.n ∧
      ∃ R : (W c).Point, (c.n : Int) • R = 0 ∧ xModN c R = some r ∧ toPoint c Q = keyOfNonce c z r s R := by
  obtain ⟨b, hb, hiff⟩ := verify_iff ok bf Q hQ rQ hQn z r s hz
  rw [hb]
  have hb' : (Except.ok b : Except Err Bool) = .ok true ↔ b = true := by
    constructor
    · intro h; injection h
    · intro h; rw [h]
  rw [hb', hiff]
  constructor
  · rintro ⟨h1, h2, h3, h4, h5⟩
    have hr := intCast_ne_zero_of_range r h1 h2
    have hs := intCast_ne_zero_of_range s h3 h4
    refine ⟨h1, h2, h3, h4, noncePointOf c z r s (toPoint c Q), ?_, h5, (keyOfNonce_noncePointOf ok z r s hr hs _ hQn).symm⟩
    have := ok.neZero
    unfold noncePointOf
    rw [zsmul_add, zsm_torsion ok.gOrd, zsm_torsion hQn, add_zero]
  · rintro ⟨h1, h2, h3, h4, R, hRn, hx, hQR⟩
    have hr := intCast_ne_zero_of_range r h1 h2
    have hs := intCast_ne_zero_of_range s h3 h4
    refine ⟨h1, h2, h3, h4, ?_⟩
    have := noncePointOf_keyOfNonce ok z r s hr hs R hRn
    unfold noncePointOf at this
    rw [hQR, this, hx]

/-- what `possible_public_pairs_for_signature(z, (x, s))` returns, `x` the abscissa of a candidate nonce point with
`x ≡ r (mod n)`: exactly the keys `r⁻¹(s•R − z•G)` for the curve points `R` with abscissa `x` (both of them, or none) -/
theorem mem_recover_iff (h4 : c.p % 4 = 3) (hall : ∀ P : (W c).Point, (c.n : Int) • P = 0)
    (bf z r x s : Int) (hx0 : 0 ≤ x) (hxp : x < c.p) (hr1 : 1 ≤ r) (hr2 : r < c.n) (hxr : x % c.n = r)
    (Q : Pt) (hQ : OnCurve c Q) (rQ : Reduced c Q) :
    (∃ l, possiblePublicPairsForSignature c bf z x s none = .ok l ∧ Q ∈ l) ↔
      ∃ y : Int, 0 ≤ y ∧ y < c.p ∧ containsXY c x y = true ∧
        toPoint c Q = keyOfNonce c z r s (toPoint c (some (x, y))) := by
  have := ok.neZero
  have := ok.fact
  have hxr' : (x : ZMod c.n) = (r : ZMod c.n) := by
    rw [← hxr, ZMod.intCast_mod]
  have hrne : (r : ZMod c.n) ≠ 0 := intCast_ne_zero_of_range r hr1 hr2
  have hxn : (x : ZMod c.n) ≠ 0 := by rw [hxr']; exact hrne
  have hform : ∀ (invR y : Int), (invR : ZMod c.n) = (x : ZMod c.n)⁻¹ → containsXY c x y = true →
      ((s * invR) % (c.n : Int)) • toPoint c (some (x, y)) + zsm c (-((x : ZMod c.n)⁻¹ * (z : ZMod c.n))) (G c) =
        keyOfNonce c z r s (toPoint c (some (x, y))) := by
    intro invR y hinv _
    unfold keyOfNonce
    rw [zsmul_eq_zsm (hall _), ZMod.intCast_mod]
    push_cast
    rw [hinv, hxr']
  rcases recover_none_x ok h4 bf z x s hx0 hxp hxn with ⟨e, hno⟩ |
    ⟨y0, y1, invR, Q0, Q1, c0, c1, y0p, y0l, y1p, y1l, hys, hinvc, e, q0c, q0r, q1c, q1r, q0t, q1t⟩
  · constructor
    · rintro ⟨l, hl, hm⟩
      rw [e] at hl; injection hl with hl; subst hl; simp at hm
    · rintro ⟨y, hy0, hyp, hc, -⟩
      have hypos : 0 < y := y_pos_of_torsion ok hc hy0 (hall _)
      have := hno y hypos hyp
      rw [hc] at this; cases this
  · rw [hform invR y0 hinvc c0] at q0t
    rw [hform invR y1 hinvc c1] at q1t
    constructor
    · rintro ⟨l, hl, hm⟩
      rw [e] at hl; injection hl with hl; subst hl
      simp only [List.mem_cons, List.not_mem_nil, or_false] at hm
      rcases hm with rfl | rfl
      · exact ⟨y0, y0p.le, y0l, c0, q0t⟩
      · exact ⟨y1, y1p.le, y1l, c1, q1t⟩
    · rintro ⟨y, hy0, hyp, hc, hQy⟩
      refine ⟨[Q0, Q1], e, ?_⟩
      rcases hys y hy0 hyp hc with rfl | rfl
      · have : Q = Q0 := toPoint_inj c hQ q0c rQ q0r (by rw [hQy, q0t])
        simp [this]
      · have : Q = Q1 := toPoint_inj c hQ q1c rQ q1r (by rw [hQy, q1t])
        simp [this]

/-- **the verifying keys of `(z, r, s)` are exactly the recovered ones.**  On a curve where `n` annihilates every point
(`#E(F_p) = n`) and `p ≤ 2n` (so an abscissa `≡ r (mod n)` is `r` or `r + n`): a reduced curve point `Q` verifies
`(z, r, s)`, `z ≠ 0`, exactly when `1 ≤ r, s < n` and `Q` is returned by `possible_public_pairs_for_signature` called with
the abscissa `r` **or with the abscissa `r + n`**.  `Generator` users (and `Key`) only ever call it with `r`: the keys
whose nonce point has `x(R) ≥ n` verify but are not recovered (they are when the caller passes `r + n`, as the
compact-signature code does for recovery ids 2 and 3). -/
theorem verify_iff_recovered (h4 : c.p % 4 = 3) (hall : ∀ P : (W c).Point, (c.n : Int) • P = 0) (hp2n : c.p ≤ 2 * c.n)
    (bf bf' : Int) (Q : Pt) (hQ : OnCurve c Q) (rQ : Reduced c Q) (z r s : Int) (hz : z ≠ 0) :
    verify c bf Q z r s = .ok true ↔
      1 ≤ r ∧ r < c.n ∧ 1 ≤ s ∧ s < c.n ∧
      ((∃ l, possiblePublicPairsForSignature c bf' z r s none = .ok l ∧ Q ∈ l) ∨
       (∃ l, possiblePublicPairsForSignature c bf' z (r + c.n) s none = .ok l ∧ Q ∈ l)) := by
  have := ok.neZero
  rw [verify_true_iff_nonce_point ok bf Q hQ rQ (hall _) z r s hz]
  have hnpos : (0 : Int) < c.n := by exact_mod_cast ok.nprime.pos
  constructor
  · rintro ⟨h1, h2, h3, h4', R, -, hx, hQR⟩
    refine ⟨h1, h2, h3, h4', ?_⟩
    have hR0 : R ≠ 0 := by rintro rfl; simp [xModN] at hx
    obtain ⟨x, y, hc, hx0, hxp, hy0, hyp, hRe, hxm⟩ := exists_pt_of_point R hR0
    rw [hx] at hxm
    have hxr : x % c.n = r := by injection hxm with h; exact h.symm
    have hcases : x = r ∨ x = r + c.n := by
      have h1' := Int.emod_add_mul_ediv x c.n
      have hq0 : 0 ≤ x / (c.n : Int) := Int.ediv_nonneg hx0 hnpos.le
      have hq2 : x / (c.n : Int) < 2 := by
        by_contra hcon
        have : (c.n : Int) * 2 ≤ c.n * (x / c.n) := by nlinarith
        have hp' : (c.p : Int) ≤ 2 * c.n := by exact_mod_cast hp2n
        omega
      have : x / (c.n : Int) = 0 ∨ x / (c.n : Int) = 1 := by omega
      rcases this with h | h <;> rw [h] at h1' <;> [left; right] <;> omega
    rw [← hRe] at hQR
    rcases hcases with rfl | rfl
    · left
      exact (mem_recover_iff ok h4 hall bf' z x x s hx0 hxp h1 h2 hxr Q hQ rQ).mpr ⟨y, hy0, hyp, hc, hQR⟩
    · right
      exact (mem_recover_iff ok h4 hall bf' z r (r + c.n) s hx0 hxp h1 h2 hxr Q hQ rQ).mpr ⟨y, hy0, hyp, hc, hQR⟩
  · rintro ⟨h1, h2, h3, h4', hor⟩
    refine ⟨h1, h2, h3, h4', ?_⟩
    rcases hor with h | h
    · by_cases hrp : r < c.p
      · obtain ⟨y, hy0, hyp, hc, hQy⟩ := (mem_recover_iff ok h4 hall bf' z r r s (by omega) hrp h1 h2
          (Int.emod_eq_of_lt (by omega) h2) Q hQ rQ).mp h
        exact ⟨_, hall _, by rw [xModN_toPoint_some hc (by omega) hrp, Int.emod_eq_of_lt (by omega) h2], hQy⟩
      · obtain ⟨l, hl, hm⟩ := h
        have : possiblePublicPairsForSignature c bf' z r s none = .ok [] := by
          unfold possiblePublicPairsForSignature; rw [if_pos (by omega)]
        rw [this] at hl; injection hl with hl; subst hl; simp at hm
    · by_cases hrp : r + c.n < c.p
      · have hxr : (r + c.n) % (c.n : Int) = r := by
          rw [Int.add_emod_right, Int.emod_eq_of_lt (by omega) h2]
        obtain ⟨y, hy0, hyp, hc, hQy⟩ := (mem_recover_iff ok h4 hall bf' z r (r + c.n) s (by omega) hrp h1 h2
          hxr Q hQ rQ).mp h
        exact ⟨_, hall _, by rw [xModN_toPoint_some hc (by omega) hrp, hxr], hQy⟩
      · obtain ⟨l, hl, hm⟩ := h
        have : possiblePublicPairsForSignature c bf' z (r + c.n) s none = .ok [] := by
          unfold possiblePublicPairsForSignature; rw [if_pos (by omega)]
        rw [this] at hl; injection hl with hl; subst hl; simp at hm

/-- **completeness of recovery for every verifying key whose nonce point has `x(R) < n`**: if `(z, r, s)` verifies under
the reduced curve point `Q` and the point `(z/s)•G + (r/s)•Q` the verification looks at is `(x, y)` with `x < n`, then
`possible_public_pairs_for_signature(z, (r, s))` returns `Q` (honest signer or not) -/
theorem recovered_of_verify_small_x (h4 : c.p % 4 = 3) (hall : ∀ P : (W c).Point, (c.n : Int) • P = 0)
    (bf bf' : Int) (Q : Pt) (hQ : OnCurve c Q) (rQ : Reduced c Q) (z r s : Int) (hz : z ≠ 0)
    (hv : verify c bf Q z r s = .ok true) (x y : Int) (hc : containsXY c x y = true) (hx0 : 0 ≤ x) (hxp : x < c.p)
    (hy0 : 0 ≤ y) (hyp : y < c.p) (hR : toPoint c (some (x, y)) = noncePointOf c z r s (toPoint c Q)) (hxn : x < c.n) :
    ∃ l, possiblePublicPairsForSignature c bf' z r s none = .ok l ∧ Q ∈ l := by
  have := ok.neZero
  obtain ⟨b, hb, hiff⟩ := verify_iff ok bf Q hQ rQ (hall _) z r s hz
  rw [hb] at hv
  obtain ⟨h1, h2, h3, h4', h5⟩ := hiff.mp (by injection hv)
  have hr := intCast_ne_zero_of_range r h1 h2
  have hs := intCast_ne_zero_of_range s h3 h4'
  have h5' : xModN c (noncePointOf c z r s (toPoint c Q)) = some r := h5
  rw [← hR, xModN_toPoint_some hc hx0 hxp, Int.emod_eq_of_lt hx0 hxn] at h5'
  have hxr : x = r := by injection h5'
  subst hxr
  refine (mem_recover_iff ok h4 hall bf' z x x s hx0 hxp h1 h2 (Int.emod_eq_of_lt hx0 hxn) Q hQ rQ).mpr
    ⟨y, hy0, hyp, hc, ?_⟩
  rw [hR, keyOfNonce_noncePointOf ok z x s hr hs _ (hall _)]

/-- when `r + n ≥ p` (on secp256k1: all but a fraction `2⁻¹²⁷` of the values of `r`) no nonce point has abscissa `r + n`, and
the verifying keys are exactly the keys recovery returns -/
theorem verify_iff_recovered_large_r (h4 : c.p % 4 = 3) (hall : ∀ P : (W c).Point, (c.n : Int) • P = 0) (hp2n : c.p ≤ 2 * c.n)
    (bf bf' : Int) (Q : Pt) (hQ : OnCurve c Q) (rQ : Reduced c Q) (z r s : Int) (hz : z ≠ 0) (hr : (c.p : Int) ≤ r + c.n) :
    verify c bf Q z r s = .ok true ↔
      1 ≤ r ∧ r < c.n ∧ 1 ≤ s ∧ s < c.n ∧
      ∃ l, possiblePublicPairsForSignature c bf' z r s none = .ok l ∧ Q ∈ l := by
  rw [verify_iff_recovered ok h4 hall hp2n bf bf' Q hQ rQ z r s hz]
  have hempty : possiblePublicPairsForSignature c bf' z (r + c.n) s none = .ok [] := by
    unfold possiblePublicPairsForSignature; rw [if_pos (by omega)]
  constructor
  · rintro ⟨h1, h2, h3, h4', h | ⟨l, hl, hm⟩⟩
    · exact ⟨h1, h2, h3, h4', h⟩
    · rw [hempty] at hl; injection hl with hl; subst hl; simp at hm
  · rintro ⟨h1, h2, h3, h4', h⟩
    exact ⟨h1, h2, h3, h4', Or.inl h⟩

end Pycoin.Curve
