import Pycoin.Model.ParseText
import Pycoin.Proofs.CodecLaws
import Pycoin.Proofs.AddressLemmas
import Pycoin.Proofs.Bytes
/-!
C18 — what the key classes accept and how the accepted object re-serialises (lemmas over `Model/ParseText.lean`).

`KeyLaws` is to the curve parameter `KeyEnv` what `CodecLaws` is to the codecs: the facts about `points_for_x`,
`contains_point`, `se * G` and HMAC-SHA512 the re-serialisation theorems use (each a C02 / C10 / C19 theorem about the
concrete functions).
-/
namespace Pycoin.Addr
open Pycoin.Gen.Networks

/-- what the re-serialisation theorems assume of the curve object and the hash -/
structure KeyLaws (ke : KeyEnv) : Prop where
  /-- `points_for_x(x)` returns two reduced points with that `x`, the even one first (C02 `points_for_x`) -/
  pfx_sound : ∀ x e o, ke.pointsForX x = some (e, o) →
    e.1 = x ∧ o.1 = x ∧ 0 ≤ e.2 ∧ e.2 < ke.p ∧ 0 ≤ o.2 ∧ o.2 < ke.p ∧ e.2 % 2 = 0 ∧ o.2 % 2 = 1
  /-- a reduced curve point is the point of its parity among the two `points_for_x` gives for its `x` -/
  pfx_complete : ∀ x y, ke.containsPoint x y = true → 0 ≤ x → x < ke.p → 0 ≤ y → y < ke.p →
    ∃ e o, ke.pointsForX x = some (e, o) ∧ (if y % 2 = 1 then o else e) = (x, y)
  /-- `se * G` has reduced coordinates -/
  mulG_reduced : ∀ se : Nat, 1 ≤ se → se < ke.order →
    0 ≤ (ke.mulG se).1 ∧ (ke.mulG se).1 < ke.p ∧ 0 ≤ (ke.mulG se).2 ∧ (ke.mulG se).2 < ke.p
  p256 : ke.p ≤ 2 ^ 256
  order256 : ke.order ≤ 2 ^ 256
  /-- HMAC-SHA512 yields 64 bytes -/
  hmac_len : ∀ k m, (ke.hmacSha512 k m).length = 64

theorem pow256_32 : (256 : Nat) ^ 32 = 2 ^ 256 := by decide

theorem beNat_lt (b : Bytes) : beNat b < 256 ^ b.length := by
  have := leNat_lt b.reverse
  simpa [beNat] using this

theorem beNat_lt32 (b : Bytes) (h : b.length = 32) : beNat b < 2 ^ 256 := by
  have := beNat_lt b
  rw [h, pow256_32] at this
  exact this

theorem beBytes_beNat32 (b : Bytes) (h : b.length = 32) : beBytes (beNat b) 32 = b := by
  have := beBytes_beNat b
  rwa [h] at this

theorem toBytes32_nat (n : Nat) (h : n < 2 ^ 256) : toBytes32 (n : Int) = .ok (beBytes n 32) := by
  unfold toBytes32
  have h1 : ¬ ((n : Int) < 0 ∨ (n : Int) ≥ 2 ^ 256) := by
    have : ((n : Int) < 2 ^ 256) := by exact_mod_cast h
    omega
  simp only [h1, if_false, Int.toNat_natCast]

theorem toBytes32_int {v : Int} (h0 : 0 ≤ v) (h1 : v < 2 ^ 256) : toBytes32 v = .ok (beBytes v.toNat 32) := by
  unfold toBytes32
  have : ¬ (v < 0 ∨ v ≥ 2 ^ 256) := by omega
  simp only [this, if_false]

/-! ## what `Key.__init__` accepts -/

theorem mkPrivateKey_inv {ke : KeyEnv} {v : Int} {c : Bool} {k : KeyObj} (h : mkPrivateKey ke v c = .ok k) :
    1 ≤ v ∧ v < ke.order ∧ k = ⟨some v.toNat, ke.mulG v.toNat, c⟩ ∧
      ke.containsPoint (ke.mulG v.toNat).1 (ke.mulG v.toNat).2 = true := by
  unfold mkPrivateKey at h
  split at h
  · cases h
  · split at h
    · rename_i hr hc
      injection h with h
      exact ⟨by omega, by omega, h.symm, hc⟩
    · cases h

theorem mkPrivateKey_of {ke : KeyEnv} {v : Int} (c : Bool) (h1 : 1 ≤ v) (h2 : v < ke.order)
    (hc : ke.containsPoint (ke.mulG v.toNat).1 (ke.mulG v.toNat).2 = true) :
    mkPrivateKey ke v c = .ok ⟨some v.toNat, ke.mulG v.toNat, c⟩ := by
  unfold mkPrivateKey
  have : ¬ (v < 1 ∨ v ≥ ke.order) := by omega
  simp only [this, if_false, hc, if_true]

/-- out of range: refused with `InvalidSecretExponentError` -/
theorem mkPrivateKey_range {ke : KeyEnv} {v : Int} (c : Bool) (h : v < 1 ∨ v ≥ ke.order) :
    mkPrivateKey ke v c = .error .invalidSecretExponent := by
  unfold mkPrivateKey
  simp only [h, if_true]

theorem mkPublicKey_inv {ke : KeyEnv} {x y : Int} {c : Bool} {k : KeyObj} (h : mkPublicKey ke x y c = .ok k) :
    k = ⟨none, (x, y), c⟩ ∧ ke.containsPoint x y = true := by
  unfold mkPublicKey at h
  split at h
  · rename_i hc; injection h with h; exact ⟨h.symm, hc⟩
  · cases h

/-! ## strict SEC decoding -/

/-- the two shapes `sec_to_public_pair` (strict) accepts, with what it returns -/
inductive SecShape (ke : KeyEnv) : Bytes → Pt → Prop
  | uncompressed (xs ys : Bytes) (hx : xs.length = 32) (hy : ys.length = 32) (hxp : beNat xs < ke.p) (hyp : beNat ys < ke.p) :
      SecShape ke (4 :: (xs ++ ys)) ((beNat xs : Int), (beNat ys : Int))
  | compressed (b : UInt8) (xs : Bytes) (hb : b = 2 ∨ b = 3) (hx : xs.length = 32) (hxp : beNat xs < ke.p) (e o : Pt)
      (hp : ke.pointsForX (beNat xs : Int) = some (e, o)) :
      SecShape ke (b :: xs) (if b ≠ 2 then o else e)

theorem slice_cons_all (b : UInt8) (xs : Bytes) (k : Nat) (h : xs.length = k) : slice (b :: xs) 1 (k + 1) = xs := by
  simp [slice, ← h]

theorem slice_cons_left (b : UInt8) (xs ys : Bytes) (k : Nat) (h : xs.length = k) :
    slice (b :: (xs ++ ys)) 1 (k + 1) = xs := by
  simp [slice, ← h]

theorem slice_cons_right (b : UInt8) (xs ys : Bytes) (k : Nat) (hx : xs.length = k) (hy : ys.length = k) :
    slice (b :: (xs ++ ys)) (k + 1) (2 * k + 1) = ys := by
  have : 2 * k + 1 - (k + 1) = k := by omega
  simp only [slice, this, List.drop_succ_cons]
  rw [← hx, List.drop_left, hx, ← hy, List.take_length]

theorem secToPublicPair_inv {ke : KeyEnv} {sec : Bytes} {pp : Pt} (h : secToPublicPair ke sec = .ok pp) :
    SecShape ke sec pp := by
  unfold secToPublicPair at h
  split at h
  · rename_i h65
    obtain ⟨hl, h4⟩ := h65
    match sec, hl, h4 with
    | b :: rest, hl, h4 =>
      simp only [List.take_succ_cons, List.take_zero, List.cons.injEq, and_true] at h4
      subst h4
      have hr : rest.length = 64 := by simpa using hl
      have hsplit : rest = rest.take 32 ++ rest.drop 32 := (List.take_append_drop 32 rest).symm
      have hx : (rest.take 32).length = 32 := by simp [hr]
      have hy : (rest.drop 32).length = 32 := by simp [hr]
      have s1 : slice (4 :: rest) 1 33 = rest.take 32 := by
        rw [hsplit]; simpa using slice_cons_left 4 (rest.take 32) (rest.drop 32) 32 hx
      have s2 : slice (4 :: rest) 33 65 = rest.drop 32 := by
        rw [hsplit]; simpa using slice_cons_right 4 (rest.take 32) (rest.drop 32) 32 hx hy
      rw [s1, s2] at h
      split at h
      · cases h
      · rename_i hr'
        injection h with h; subst h
        rw [hsplit]
        simp only [List.take_left' hx, List.drop_left' hx]
        exact .uncompressed _ _ hx hy (by omega) (by omega)
  · split at h
    · rename_i h33
      obtain ⟨hl, hb⟩ := h33
      match sec, hl, hb with
      | b :: rest, hl, hb =>
        simp only [List.take_succ_cons, List.take_zero, List.cons.injEq, and_true] at hb
        have hr : rest.length = 32 := by simpa using hl
        have s1 : slice (b :: rest) 1 33 = rest := slice_cons_all b rest 32 hr
        rw [s1] at h
        split at h
        · cases h
        · rename_i hxp
          split at h
          · rename_i e o hp
            injection h with h; subst h
            simp only [List.take_succ_cons, List.take_zero, ne_eq, List.cons.injEq, and_true]
            exact .compressed b rest hb hr (by omega) e o hp
          · cases h
    · cases h

/-- a strict SEC blob of neither shape is refused -/
theorem secToPublicPair_shape {ke : KeyEnv} {sec : Bytes}
    (h : ¬ ((sec.length = 65 ∧ sec.take 1 = [4]) ∨ (sec.length = 33 ∧ (sec.take 1 = [2] ∨ sec.take 1 = [3])))) :
    secToPublicPair ke sec = .error .encodingError := by
  unfold secToPublicPair
  have h1 : ¬ (sec.length = 65 ∧ sec.take 1 = [4]) := fun x => h (Or.inl x)
  have h2 : ¬ (sec.length = 33 ∧ (sec.take 1 = [2] ∨ sec.take 1 = [3])) := fun x => h (Or.inr x)
  simp only [h1, h2, if_false]

/-- ★ the strict SEC decoder is canonical: the key built from an accepted blob encodes (with the compression flag read
off the blob) to that very blob; its coordinates are reduced and the point is on the curve -/
theorem keyFromSec_canon {ke : KeyEnv} (kl : KeyLaws ke) {sec : Bytes} {k : KeyObj} (h : keyFromSec ke sec = .ok k) :
    k.se = none ∧ k.compressed = decide (sec.take 1 = [2] ∨ sec.take 1 = [3]) ∧
      ke.containsPoint k.pub.1 k.pub.2 = true ∧ 0 ≤ k.pub.1 ∧ k.pub.1 < ke.p ∧ 0 ≤ k.pub.2 ∧ k.pub.2 < ke.p ∧
      secOf k k.compressed = .ok sec := by
  unfold keyFromSec at h
  cases hs : secToPublicPair ke sec with
  | error e => simp [hs, bind, Except.bind] at h
  | ok pp =>
    simp only [hs, bind, Except.bind] at h
    obtain ⟨rfl, hon⟩ := mkPublicKey_inv h
    have hp256 := kl.p256
    cases secToPublicPair_inv hs with
    | uncompressed xs ys hx hy hxp hyp =>
      refine ⟨rfl, by simp, hon, by simp, by simp; omega, by simp, by simp; omega, ?_⟩
      have hc : decide ((4 :: (xs ++ ys)).take 1 = [2] ∨ (4 :: (xs ++ ys)).take 1 = [3]) = false := by simp
      simp only [hc, secOf, bind, Except.bind, toBytes32_nat _ (beNat_lt32 xs hx), toBytes32_nat _ (beNat_lt32 ys hy),
        beBytes_beNat32 xs hx, beBytes_beNat32 ys hy, Bool.false_eq_true, if_false, pure, Except.pure]
    | compressed b xs hb hx hxp e o hp =>
      obtain ⟨e1, o1, e2, e3, o2, o3, ep, op⟩ := kl.pfx_sound _ e o hp
      have hc : decide ((b :: xs).take 1 = [2] ∨ (b :: xs).take 1 = [3]) = true := by simpa using hb
      have hx1 : (if b ≠ 2 then o else e).1 = (beNat xs : Int) := by split <;> assumption
      refine ⟨rfl, hc.symm ▸ rfl, hon, ?_, ?_, ?_, ?_, ?_⟩
      · simp only [hx1]; omega
      · simp only [hx1]; omega
      · show 0 ≤ (if b ≠ 2 then o else e).2; split <;> assumption
      · show (if b ≠ 2 then o else e).2 < _; split <;> assumption
      · simp only [hc, secOf, bind, Except.bind, hx1, toBytes32_nat _ (beNat_lt32 xs hx), beBytes_beNat32 xs hx, if_true,
          pure, Except.pure]
        rcases hb with rfl | rfl
        · simp [ep]
        · simp [op]

/-- re-encoding: a key whose point is reduced and on the curve encodes to a blob `Key.from_sec` maps back to the point
and the flag -/
theorem keyFromSec_secOf {ke : KeyEnv} (kl : KeyLaws ke) (k : KeyObj) (hon : ke.containsPoint k.pub.1 k.pub.2 = true)
    (hx0 : 0 ≤ k.pub.1) (hx1 : k.pub.1 < ke.p) (hy0 : 0 ≤ k.pub.2) (hy1 : k.pub.2 < ke.p) :
    ∃ sec, secOf k k.compressed = .ok sec ∧ keyFromSec ke sec = .ok ⟨none, k.pub, k.compressed⟩ := by
  have hp256 := kl.p256
  obtain ⟨se, ⟨x, y⟩, c⟩ := k
  simp only at hon hx0 hx1 hy0 hy1
  obtain ⟨xn, rfl⟩ := Int.eq_ofNat_of_zero_le hx0
  obtain ⟨yn, rfl⟩ := Int.eq_ofNat_of_zero_le hy0
  have hxn : xn < ke.p := by exact_mod_cast hx1
  have hyn : yn < ke.p := by exact_mod_cast hy1
  have hx256 : xn < 256 ^ 32 := by rw [pow256_32]; omega
  have hy256 : yn < 256 ^ 32 := by rw [pow256_32]; omega
  cases c with
  | false =>
    refine ⟨4 :: (beBytes xn 32 ++ beBytes yn 32), ?_, ?_⟩
    · simp only [secOf, bind, Except.bind, toBytes32_nat xn (by omega), toBytes32_nat yn (by omega), Bool.false_eq_true,
        if_false, pure, Except.pure]
    · have s1 : slice (4 :: (beBytes xn 32 ++ beBytes yn 32)) 1 33 = beBytes xn 32 :=
        slice_cons_left 4 _ _ 32 (by simp)
      have s2 : slice (4 :: (beBytes xn 32 ++ beBytes yn 32)) 33 65 = beBytes yn 32 :=
        slice_cons_right 4 _ _ 32 (by simp) (by simp)
      have hl : (4 :: (beBytes xn 32 ++ beBytes yn 32) : Bytes).length = 65 := by simp
      have hr : ¬ (xn ≥ ke.p ∨ yn ≥ ke.p) := by omega
      simp only [keyFromSec, secToPublicPair, hl, true_and, List.take_succ_cons, List.take_zero, if_true, s1, s2,
        beNat_beBytes_of_lt hx256, beNat_beBytes_of_lt hy256, hr, if_false, bind, Except.bind, mkPublicKey, hon]
      simp
  | true =>
    obtain ⟨e, o, hp, hsel⟩ := kl.pfx_complete _ _ hon hx0 hx1 hy0 hy1
    refine ⟨(if (yn : Int) % 2 = 1 then 3 else 2) :: beBytes xn 32, ?_, ?_⟩
    · simp only [secOf, bind, Except.bind, toBytes32_nat xn (by omega), if_true, pure, Except.pure]
    · have s1 : ∀ b : UInt8, slice (b :: beBytes xn 32) 1 33 = beBytes xn 32 := fun b => slice_cons_all b _ 32 (by simp)
      have hl : ∀ b : UInt8, (b :: beBytes xn 32 : Bytes).length = 33 := by simp
      have hr : ¬ (xn ≥ ke.p) := by omega
      by_cases hodd : (yn : Int) % 2 = 1
      · simp only [hodd, if_true] at hsel ⊢
        simp only [keyFromSec, secToPublicPair, hl, List.take_succ_cons, List.take_zero, s1,
          beNat_beBytes_of_lt hx256, hr, if_false, bind, Except.bind, hp]
        simp [hsel, mkPublicKey, hon]
      · simp only [hodd, if_false] at hsel ⊢
        simp only [keyFromSec, secToPublicPair, hl, List.take_succ_cons, List.take_zero, s1,
          beNat_beBytes_of_lt hx256, hr, if_false, bind, Except.bind, hp]
        simp [hsel, mkPublicKey, hon]

end Pycoin.Addr
