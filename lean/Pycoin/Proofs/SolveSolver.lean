import Pycoin.Proofs.SolveAssoc
import Pycoin.Proofs.SolveConstraints
import Pycoin.Proofs.SignOrder
/-!
C05 — the solver loop (`Solve.solveForConstraints`) on the constraints of the standard templates: which solver fires on which
constraint, what the first round assigns, and the lists `solve_for_constraints` returns — equal to what the result-level model
`Sign.solveBase` says, template by template, with the closing constraints of P2SH / P2WSH appended.
-/
namespace Pycoin.Solve
open Pycoin Pycoin.Sign

/-! ## the closing constraints of `determine_constraints` -/

/-- `EQUAL(x_0, underlying_script)` and `EQUAL(w_0, underlying_script_wit)` -/
def closingTerms (cx cw : Option Bytes) : List Term :=
  (match cx with | some u => [.equal (.atom (.x 0)) (.const u)] | none => []) ++
  (match cw with | some ws => [.equal (.atom (.w 0)) (.const ws)] | none => [])

def closingSols (cx cw : Option Bytes) : List Sol :=
  (match cx with | some u => [.constEq (.x 0) u] | none => []) ++ (match cw with | some ws => [.constEq (.w 0) ws] | none => [])

def closingAtoms (cx cw : Option Bytes) : List Atom :=
  (match cx with | some _ => [.x 0] | none => []) ++ (match cw with | some _ => [.w 0] | none => [])

def closingDone (cx cw : Option Bytes) : Solved :=
  (match cx with | some u => [(.x 0, some u)] | none => []) ++ (match cw with | some ws => [(.w 0, some ws)] | none => [])

theorem solverOrder_eq : Gen.Solve.solverOrder = [.hashLookup, .constantEquality, .signing] := rfl

theorem collect_append (a b : List Term) :
    collectSolutions (a ++ b) =
      match collectSolutions a, collectSolutions b with
      | .ok x, .ok y => .ok (x ++ y)
      | .error e, _ => .error e
      | .ok _, .error e => .error e := by
  induction a with
  | nil => simp only [List.nil_append, collectSolutions]; cases collectSolutions b <;> rfl
  | cons c r ih =>
    simp only [List.cons_append, collectSolutions]
    cases solutionsForConstraint c Gen.Solve.solverOrder with
    | error e => rfl
    | ok o =>
      simp only [ih]
      cases collectSolutions r with
      | error e => rfl
      | ok x =>
        cases collectSolutions b with
        | error e => rfl
        | ok y => cases o <;> rfl

theorem collect_closing (cx cw : Option Bytes) : collectSolutions (closingTerms cx cw) = .ok (closingSols cx cw) := by
  cases cx <;> cases cw <;>
    simp [closingTerms, closingSols, collectSolutions, solutionsForConstraint, solverOrder_eq, matchSolver]

theorem collect_isPubkey (l : List Term) : collectSolutions (l.map Term.isPubkey) = .ok [] := by
  induction l with
  | nil => rfl
  | cons t r ih => simp [collectSolutions, solutionsForConstraint, solverOrder_eq, matchSolver, ih]

theorem collect_isSignature (l : List Term) : collectSolutions (l.map Term.isSignature) = .ok [] := by
  induction l with
  | nil => rfl
  | cons t r ih => simp [collectSolutions, solutionsForConstraint, solverOrder_eq, matchSolver, ih]

theorem solverPass_append (a : SolveArgs) (ex : List Bytes) (s1 s2 : List Sol) (sv : Solved) (p : Bool) :
    solverPass a ex (s1 ++ s2) sv p =
      match solverPass a ex s1 sv p with
      | .error e => .error e
      | .ok (sv', p') => solverPass a ex s2 sv' p' := by
  induction s1 generalizing sv p with
  | nil => rfl
  | cons s r ih =>
    simp only [List.cons_append, solverPass]
    split
    · exact ih sv p
    · cases depsUnsolved sv s.deps with
      | error e => rfl
      | ok b =>
        cases b with
        | true => exact ih sv p
        | false =>
          simp only []
          cases s.apply a ex sv with
          | error e => rfl
          | ok d => exact ih _ _

/-- the closing constraints assign `x_0` and `w_0` -/
theorem solverPass_closing (a : SolveArgs) (ex : List Bytes) (cx cw : Option Bytes) (done : Solved) (p : Bool)
    (hx' : cx.isSome → Atom.x 0 ∉ Solved.keys done) (hw'' : cw.isSome → Atom.w 0 ∉ Solved.keys done) :
    solverPass a ex (closingSols cx cw) (done ++ (closingAtoms cx cw).map (fun k => (k, none))) p =
      .ok (done ++ closingDone cx cw, p || (cx.isSome || cw.isSome)) := by
  have hxw : Atom.x 0 ≠ Atom.w 0 := by decide
  cases cx with
  | none =>
    cases cw with
    | none => simp [closingSols, closingAtoms, closingDone, solverPass]
    | some ws =>
      have hw := hw'' rfl
      simp only [closingSols, closingAtoms, closingDone, List.nil_append, List.map_cons, List.map_nil, solverPass, Sol.targets,
        List.any_cons, List.any_nil, Bool.or_false, Sol.deps, depsUnsolved, Sol.apply, Solved.update]
      rw [Solved.get_append_of_not_mem _ _ _ hw, Solved.get_cons_self, Solved.set_after _ _ _ _ _ hw]
      simp
  | some u =>
    have hx := hx' rfl
    cases cw with
    | none =>
      simp only [closingSols, closingAtoms, closingDone, List.append_nil, List.map_cons, List.map_nil, solverPass, Sol.targets,
        List.any_cons, List.any_nil, Bool.or_false, Sol.deps, depsUnsolved, Sol.apply, Solved.update]
      rw [Solved.get_append_of_not_mem _ _ _ hx, Solved.get_cons_self, Solved.set_after _ _ _ _ _ hx]
      simp
    | some ws =>
      have hw := hw'' rfl
      simp only [closingSols, closingAtoms, closingDone, List.map_cons, List.map_nil, solverPass, Sol.targets,
        List.any_cons, List.any_nil, Bool.or_false, Sol.deps, depsUnsolved, Sol.apply, Solved.update, List.cons_append,
        List.nil_append]
      rw [Solved.get_append_of_not_mem _ _ _ hx, Solved.get_cons_self, Solved.set_after _ _ _ _ _ hx]
      simp only [Option.join, Option.isSome, Bool.false_eq_true, if_false]
      have hw' : Atom.w 0 ∉ Solved.keys (done ++ [(Atom.x 0, some u)]) := by
        intro hm
        rw [Solved.keys_append, List.mem_append] at hm
        rcases hm with h | h
        · exact hw h
        · simp [Solved.keys] at h
      have e : done ++ (Atom.x 0, some u) :: [(Atom.w 0, none)] = (done ++ [(Atom.x 0, some u)]) ++ [(Atom.w 0, none)] := by simp
      rw [e, Solved.get_append_of_not_mem _ _ _ hw', Solved.get_cons_self, Solved.set_after _ _ _ _ _ hw']
      simp

/-! ## the loop when the first round solves everything -/

theorem solverLoop_one (a : SolveArgs) (ex : List Bytes) (sols : List Sol) (fuel : Nat) (sv sv' : Solved) (p : Bool)
    (hun : sv.any (fun q => q.2.isNone) = true)
    (hpass : solverPass a ex sols sv false = .ok (sv', p)) (hall : sv'.any (fun q => q.2.isNone) = false) :
    solverLoop a ex sols (fuel + 1) sv = .ok sv' := by
  simp only [solverLoop, hun, Bool.not_true, Bool.false_eq_true, if_false, hpass]
  cases p with
  | false => rfl
  | true =>
    simp only [if_true]
    cases fuel with
    | zero => rfl
    | succ f => simp [solverLoop, hall]

theorem solverLoop_err (a : SolveArgs) (ex : List Bytes) (sols : List Sol) (fuel : Nat) (sv : Solved) (e : Sign.Err)
    (hun : sv.any (fun q => q.2.isNone) = true) (hpass : solverPass a ex sols sv false = .error e) :
    solverLoop a ex sols (fuel + 1) sv = .error e := by
  simp [solverLoop, hun, hpass]

theorem dedup_of_nodup (l : List Atom) (h : l.Nodup) : dedup l = l := by
  induction l with
  | nil => rfl
  | cons a r ih =>
    have := List.nodup_cons.mp h
    simp [dedup, this.1, ih this.2]

/-! ## what `solve_for_constraints` returns, from the values of the atoms -/

/-- the two lists `solve_for_constraints` returns when the base template's atoms (letter `L`) got `items` (highest atom first) -/
def splitByLetter (L : Bool) (items : List (Option Bytes)) (cx cw : Option Bytes) :
    List (Option Bytes) × List (Option Bytes) :=
  ((if L then [] else items) ++ (match cx with | some u => [some u] | none => []),
   (if L then items else []) ++ (match cw with | some ws => [some ws] | none => []))

theorem filter_letter_all (asc : List Atom) (L b : Bool) (hL : ∀ k ∈ asc, k.isW = L) :
    asc.filter (fun k => k.isW == b) = if L = b then asc else [] := by
  induction asc with
  | nil => simp
  | cons k r ih =>
    have hk := hL k (by simp)
    have := ih (fun x hx => hL x (List.mem_cons_of_mem _ hx))
    by_cases hb : L = b
    · simp [List.filter_cons, hk, hb] at this ⊢; exact this
    · have : (k.isW == b) = false := by rw [hk]; simpa using hb
      simp [List.filter_cons, this, hb] at *
      assumption

/-- `valuesOf` of the final dict: base atoms `asc` (numbered upwards, one letter) with values `vs`, then the closing atoms -/
theorem valuesOf_final (asc : List Atom) (vs : List Bytes) (cx cw : Option Bytes) (L : Bool)
    (hlen : asc.length = vs.length) (hL : ∀ k ∈ asc, k.isW = L) (hasc : asc.Pairwise (fun x y => x.number < y.number))
    (hpos : ((L = false ∧ cx.isSome) ∨ (L = true ∧ cw.isSome)) → ∀ k ∈ asc, 0 < k.number) :
    (valuesOf ((asc.zip vs).map (fun p => (p.1, some p.2)) ++ closingDone cx cw) false,
     valuesOf ((asc.zip vs).map (fun p => (p.1, some p.2)) ++ closingDone cx cw) true) =
      splitByLetter L (vs.reverse.map some) cx cw := by
  have hnd : asc.Nodup := by
    apply List.Pairwise.imp (fun {a b} h e => by subst e; omega) hasc
  have hkeys : ((asc.zip vs).map (fun p => (p.1, some p.2)) ++ closingDone cx cw).map (·.1) = asc ++ closingAtoms cx cw := by
    rw [List.map_append, List.map_map]
    have : ((fun p : Atom × Option Bytes => p.1) ∘ fun p : Atom × Bytes => (p.1, some p.2)) = Prod.fst := rfl
    rw [this, List.map_fst_zip (by omega)]
    cases cx <;> cases cw <;> rfl
  -- the values of the base atoms, in key order
  have hget := Solved.map_get_zip asc vs (closingDone cx cw) hnd hlen
  have hgetr : asc.reverse.map (fun k => (Solved.get ((asc.zip vs).map (fun p => (p.1, some p.2)) ++ closingDone cx cw) k).join)
      = vs.reverse.map some := by
    rw [List.map_reverse, hget, List.map_reverse]
  have hnot : ∀ z, z ∉ asc → Solved.get ((asc.zip vs).map (fun p => (p.1, some p.2)) ++ closingDone cx cw) z =
      Solved.get (closingDone cx cw) z := by
    intro z hz
    apply Solved.get_append_of_not_mem
    simp only [Solved.keys, List.map_map]
    have : ((fun p : Atom × Option Bytes => p.1) ∘ fun p : Atom × Bytes => (p.1, some p.2)) = Prod.fst := rfl
    rw [this, List.map_fst_zip (by omega)]
    exact hz
  have hx0 : (L = false ∧ cx.isSome) → Atom.x 0 ∉ asc := fun h hm => by
    have := hpos (Or.inl h) _ hm; simp [Atom.number] at this
  have hw0 : (L = true ∧ cw.isSome) → Atom.w 0 ∉ asc := fun h hm => by
    have := hpos (Or.inr h) _ hm; simp [Atom.number] at this
  have hx0' : L = true → Atom.x 0 ∉ asc := fun h hm => by have := hL _ hm; simp [Atom.isW, h] at this
  have hw0' : L = false → Atom.w 0 ∉ asc := fun h hm => by have := hL _ hm; simp [Atom.isW, h] at this
  have hs0 : sortDesc asc = asc.reverse := by simpa using sortDesc_asc asc [] hasc (by simp) rfl
  unfold valuesOf
  rw [hkeys]
  simp only [List.filter_append, filter_letter_all asc L _ hL]
  cases L with
  | false =>
    cases cx with
    | none =>
      cases cw with
      | none =>
        simp only [closingAtoms, List.filter_nil, List.append_nil, if_true, Bool.false_eq_true, if_false, splitByLetter]
        rw [hs0]
        simp [hgetr, sortDesc]
      | some ws =>
        simp only [closingAtoms, List.nil_append, if_true, Bool.false_eq_true, if_false, splitByLetter]
        rw [show [Atom.w 0].filter (fun k => k.isW == false) = [] from rfl,
          show [Atom.w 0].filter (fun k => k.isW == true) = [Atom.w 0] from rfl, List.append_nil, hs0]
        simp only [List.append_nil, hgetr, List.nil_append, sortDesc, insertDesc, List.map_cons, List.map_nil]
        rw [hnot _ (hw0' rfl)]
        simp [closingDone, Solved.get]
    | some u =>
      have hx := hx0 ⟨rfl, rfl⟩
      have hz : ∀ a ∈ asc, ∀ z ∈ [Atom.x 0], z.number < a.number := by
        intro a ha z hz; simp at hz; subst hz; exact hpos (Or.inl ⟨rfl, rfl⟩) a ha
      cases cw with
      | none =>
        simp only [closingAtoms, List.append_nil, if_true, Bool.false_eq_true, if_false, splitByLetter]
        rw [show [Atom.x 0].filter (fun k => k.isW == false) = [Atom.x 0] from rfl,
          show [Atom.x 0].filter (fun k => k.isW == true) = [] from rfl, sortDesc_asc asc [Atom.x 0] hasc hz rfl]
        simp only [List.map_append, hgetr, List.map_cons, List.map_nil, List.nil_append, sortDesc]
        rw [hnot _ hx]
        simp [closingDone, Solved.get]
      | some ws =>
        simp only [closingAtoms, if_true, Bool.false_eq_true, if_false, splitByLetter]
        rw [show ([Atom.x 0] ++ [Atom.w 0]).filter (fun k => k.isW == false) = [Atom.x 0] from rfl,
          show ([Atom.x 0] ++ [Atom.w 0]).filter (fun k => k.isW == true) = [Atom.w 0] from rfl,
          sortDesc_asc asc [Atom.x 0] hasc hz rfl]
        simp only [List.map_append, hgetr, List.map_cons, List.map_nil, List.nil_append, sortDesc, insertDesc]
        rw [hnot _ hx, hnot _ (hw0' rfl)]
        simp [closingDone, Solved.get]
  | true =>
    cases cw with
    | none =>
      cases cx with
      | none =>
        simp only [closingAtoms, List.filter_nil, List.append_nil, if_true, Bool.true_eq_false, if_false, splitByLetter]
        rw [hs0]
        simp [hgetr, sortDesc]
      | some u =>
        simp only [closingAtoms, List.append_nil, if_true, Bool.true_eq_false, if_false, splitByLetter]
        rw [show [Atom.x 0].filter (fun k => k.isW == false) = [Atom.x 0] from rfl,
          show [Atom.x 0].filter (fun k => k.isW == true) = [] from rfl, List.append_nil, hs0]
        simp only [List.append_nil, hgetr, List.nil_append, sortDesc, insertDesc, List.map_cons, List.map_nil]
        rw [hnot _ (hx0' rfl)]
        simp [closingDone, Solved.get]
    | some ws =>
      have hw := hw0 ⟨rfl, rfl⟩
      have hz : ∀ a ∈ asc, ∀ z ∈ [Atom.w 0], z.number < a.number := by
        intro a ha z hz; simp at hz; subst hz; exact hpos (Or.inr ⟨rfl, rfl⟩) a ha
      cases cx with
      | none =>
        simp only [closingAtoms, List.nil_append, if_true, Bool.true_eq_false, if_false, splitByLetter]
        rw [show [Atom.w 0].filter (fun k => k.isW == false) = [] from rfl,
          show [Atom.w 0].filter (fun k => k.isW == true) = [Atom.w 0] from rfl, sortDesc_asc asc [Atom.w 0] hasc hz rfl]
        simp only [List.map_append, hgetr, List.map_cons, List.map_nil, List.nil_append, sortDesc]
        rw [hnot _ hw]
        simp [closingDone, Solved.get]
      | some u =>
        simp only [closingAtoms, if_true, Bool.true_eq_false, if_false, splitByLetter]
        rw [show ([Atom.x 0] ++ [Atom.w 0]).filter (fun k => k.isW == false) = [Atom.x 0] from rfl,
          show ([Atom.x 0] ++ [Atom.w 0]).filter (fun k => k.isW == true) = [Atom.w 0] from rfl,
          sortDesc_asc asc [Atom.w 0] hasc hz rfl]
        simp only [List.map_append, hgetr, List.map_cons, List.map_nil, List.nil_append, sortDesc, insertDesc]
        rw [hnot _ hw, hnot _ (hx0' rfl)]
        simp [closingDone, Solved.get]

end Pycoin.Solve
