import Pycoin.Proofs.Group
import Mathlib.NumberTheory.LegendreSymbol.Basic
/-!
F5 — `pow(a, e, p)`, `modular_sqrt` for `p ≡ 3 (mod 4)` (Euler's criterion) and `points_for_x`.
-/
namespace Pycoin.Curve
open Pycoin WeierstrassCurve

theorem powMod_spec (p : Nat) (hp : 0 < p) (a : Int) : ∀ e : Nat,
    ((powMod a e p : Int) : ZMod p) = (a : ZMod p) ^ e ∧ 0 ≤ powMod a e p ∧ powMod a e p < p := by
  intro e
  induction e using Nat.strong_induction_on with
  | _ e ih =>
    rw [powMod]
    by_cases h0 : e = 0
    · subst h0
      simp only [dite_true]
      exact ⟨by rw [intCast_fmod]; simp, fmod_range p hp 1⟩
    · simp only [h0, dite_false]
      obtain ⟨hc, -, -⟩ := ih (e / 2) (by omega)
      have hsplit : (a : ZMod p) ^ e = ((a : ZMod p) ^ (e / 2)) ^ 2 * (a : ZMod p) ^ (e % 2) := by
        rw [← pow_mul, ← pow_add]; congr 1; omega
      by_cases h1 : e % 2 = 1
      · rw [if_pos h1]
        refine ⟨?_, fmod_range p hp _⟩
        rw [intCast_fmod]; push_cast; rw [intCast_fmod]; push_cast
        rw [hc, hsplit, h1]; ring
      · rw [if_neg h1]
        refine ⟨?_, fmod_range p hp _⟩
        rw [intCast_fmod]; push_cast
        rw [hc, hsplit, show e % 2 = 0 by omega]; ring

variable (c : CurveParams) [Good c]

/-- `x³ + a x + b` in the field -/
def alphaOf (x : Int) : ZMod c.p := (x : ZMod c.p) ^ 3 + (c.a : ZMod c.p) * x + (c.b : ZMod c.p)

omit [Good c] in
theorem p_odd_of_mod4 (h4 : c.p % 4 = 3) : c.p % 2 = 1 := by omega

/-- `modular_sqrt(α)²` is `α` when `α` is a square and `−α` otherwise (`p ≡ 3 mod 4`) -/
theorem sqrt_sq (h4 : c.p % 4 = 3) (α : ZMod c.p) (hα : α ≠ 0) :
    (IsSquare α → (α ^ ((c.p + 1) / 4)) ^ 2 = α) ∧ (¬ IsSquare α → (α ^ ((c.p + 1) / 4)) ^ 2 = -α) := by
  have hexp : (α ^ ((c.p + 1) / 4)) ^ 2 = α * α ^ (c.p / 2) := by
    rw [← pow_mul, ← pow_succ']; congr 1; omega
  rw [hexp]
  constructor
  · intro hs; rw [(ZMod.euler_criterion c.p hα).mp hs, mul_one]
  · intro hs
    rcases ZMod.pow_div_two_eq_neg_one_or_one c.p hα with h | h
    · exact absurd ((ZMod.euler_criterion c.p hα).mpr h) hs
    · rw [h]; ring

/-- `Generator.points_for_x(x)` for `0 ≤ x < p`, `p ≡ 3 (mod 4)`, `α = x³+ax+b ≠ 0`:
* `α` a square: returns `(P₀, P₁) = ((x, y₀), (x, y₁))`, both reduced and on the curve, `y₀` even, `y₀ + y₁ = p`,
  and every reduced curve point with abscissa `x` is one of the two;
* `α` not a square: raises `NoSuchPointError` (a `ValueError`) — and then no curve point has abscissa `x`. -/
theorem pointsForX_spec (h4 : c.p % 4 = 3) (x : Int) (hα : alphaOf c x ≠ 0) :
    (IsSquare (alphaOf c x) →
      ∃ y0 y1 : Int, pointsForX c x = .ok (some (x, y0), some (x, y1)) ∧
        containsXY c x y0 = true ∧ containsXY c x y1 = true ∧ 0 < y0 ∧ y0 < c.p ∧ 0 < y1 ∧ y1 < c.p ∧
        y0 % 2 = 0 ∧ y0 + y1 = c.p ∧
        ∀ y : Int, 0 ≤ y → y < c.p → containsXY c x y = true → y = y0 ∨ y = y1) ∧
    (¬ IsSquare (alphaOf c x) →
      pointsForX c x = .error .noSuchPoint ∧ ∀ y : Int, containsXY c x y = false) := by
  have hp := p_pos c
  have hodd := p_odd_of_mod4 c h4
  -- the integer α of the code and its image in the field
  obtain ⟨h3c, -, -⟩ := powMod_spec c.p hp x 3
  set ai : Int := fmod (powMod x 3 c.p + c.a * x + c.b) c.p with hai
  have haic : (ai : ZMod c.p) = alphaOf c x := by
    rw [hai, intCast_fmod]; push_cast; rw [h3c]; rfl
  have hk : (fdiv ((c.p : Int) + 1) 4).toNat = (c.p + 1) / 4 := by
    rw [fdiv_eq_ediv _ (by norm_num)]; norm_cast
  obtain ⟨hyc, hy0, hyp⟩ := powMod_spec c.p hp ai ((c.p + 1) / 4)
  set yi : Int := powMod ai ((c.p + 1) / 4) c.p with hyi
  rw [haic] at hyc
  have hsq := sqrt_sq c h4 (alphaOf c x) hα
  have hyne : yi ≠ 0 := by
    intro h
    rw [h] at hyc
    have : alphaOf c x ^ ((c.p + 1) / 4) = 0 := by rw [← hyc]; simp
    exact hα (pow_eq_zero_iff (by omega) |>.mp this)
  have hcontains : ∀ y : Int, containsXY c x y = true ↔ (y : ZMod c.p) ^ 2 = alphaOf c x := by
    intro y; rw [containsXY_iff, W_equation_iff]; rfl
  have hunfold : pointsForX c x =
      (match mkPoint c x yi with
      | .error e => .error e
      | .ok p0 =>
        match mkPoint c x ((c.p : Int) - yi) with
        | .error e => .error e
        | .ok p1 => if fmod yi 2 = 0 then .ok (p0, p1) else .ok (p1, p0)) := by
    unfold pointsForX modularSqrt
    simp only [hk]
    rw [← hai, ← hyi, if_neg hyne]
    rfl
  constructor
  · intro hs
    have hy2 : (yi : ZMod c.p) ^ 2 = alphaOf c x := by rw [hyc]; exact hsq.1 hs
    have hc0 : containsXY c x yi = true := (hcontains yi).mpr hy2
    have hc1 : containsXY c x ((c.p : Int) - yi) = true := by
      rw [hcontains]; push_cast; simp; exact hy2
    have hm0 : mkPoint c x yi = .ok (some (x, yi)) := by simp [mkPoint, hc0]
    have hm1 : mkPoint c x ((c.p : Int) - yi) = .ok (some (x, (c.p : Int) - yi)) := by simp [mkPoint, hc1]
    have hall : ∀ y : Int, 0 ≤ y → y < c.p → containsXY c x y = true → y = yi ∨ y = (c.p : Int) - yi := by
      intro y h0 h1 hy
      have : (y : ZMod c.p) ^ 2 = (yi : ZMod c.p) ^ 2 := by rw [(hcontains y).mp hy, hy2]
      rcases sq_eq_sq_iff_eq_or_eq_neg.mp this with h | h
      · left; exact intCast_inj_of_reduced c h0 h1 hy0 hyp h
      · right
        apply intCast_inj_of_reduced c h0 h1 (by omega) (by omega)
        rw [h]; push_cast; simp
    rw [hunfold, hm0, hm1]
    simp only
    rw [fmod_eq_emod _ (by norm_num)]
    by_cases hpar : yi % 2 = 0
    · rw [if_pos hpar]
      exact ⟨yi, c.p - yi, rfl, hc0, hc1, by omega, hyp, by omega, by omega, hpar, by omega, hall⟩
    · rw [if_neg hpar]
      refine ⟨c.p - yi, yi, rfl, hc1, hc0, by omega, by omega, by omega, hyp, by omega, by omega, ?_⟩
      intro y h0 h1 hy
      exact (hall y h0 h1 hy).symm
  · intro hs
    have hy2 : (yi : ZMod c.p) ^ 2 = - alphaOf c x := by rw [hyc]; exact hsq.2 hs
    have hne : (yi : ZMod c.p) ^ 2 ≠ alphaOf c x := by
      rw [hy2]
      intro h
      have h2 : (2 : ZMod c.p) * alphaOf c x = 0 := by linear_combination -h
      rcases mul_eq_zero.mp h2 with h | h
      · have : ((2 : Nat) : ZMod c.p) = 0 := by exact_mod_cast h
        rw [ZMod.natCast_eq_zero_iff] at this
        have := Nat.le_of_dvd (by norm_num) this
        omega
      · exact hα h
    have hc0 : containsXY c x yi = false := by
      rw [Bool.eq_false_iff]; intro h; exact hne ((hcontains yi).mp h)
    refine ⟨by rw [hunfold]; simp [mkPoint, hc0], ?_⟩
    intro y
    rw [Bool.eq_false_iff]
    intro h
    exact hs ⟨(y : ZMod c.p), by rw [← (hcontains y).mp h]; ring⟩

end Pycoin.Curve
