import Pycoin.Proofs.ChainBC
/-! `add_headers` preserves the BlockChain invariant and its ops replay (core Lean only) -/
namespace Pycoin.Chain

theorem mem_locked_index (bc : BC) (c : List Nat) (h : Nat) (hm : h ∈ lockedHashes bc) :
    ∃ n : Nat, n < bc.locked.length ∧ (lockedHashes bc ++ c.reverse)[n]? = some h := by
  obtain ⟨n, hn, e⟩ := List.getElem_of_mem hm
  refine ⟨n, by simpa [lockedHashes] using hn, ?_⟩
  rw [List.getElem?_append_left hn, List.getElem?_eq_getElem hn, e]

theorem reverse_enumFrom_idx (p : List Nat) (j : Nat) (hj : j < ((enumFrom 0 p).reverse).length) :
    (((enumFrom 0 p).reverse)[j]).1 = p.length - 1 - j := by
  have hl : j < p.length := by simpa [enumFrom_length] using hj
  have h1 : ((enumFrom 0 p).reverse)[j]? = (p[p.length - 1 - j]?).map (fun h => (0 + (p.length - 1 - j), h)) := by
    rw [List.getElem?_reverse (by simpa [enumFrom_length] using hl), enumFrom_length, enumFrom_getElem?]
  rw [List.getElem?_eq_getElem hj, List.getElem?_eq_getElem (by omega)] at h1
  simp only [Option.map_some, Option.some.injEq] at h1
  rw [h1]; simp

theorem addHeaders_good (anchor0 : Nat) (rev : Bool) (rank : List Nat) (bc bc' : BC) (c : List Nat)
    (batch : List Header) (ops : List Op)
    (h0 : ∀ hd ∈ batch, hd.hash ≠ anchor0)
    (g : Good anchor0 bc c)
    (hr : bc.addHeaders rev rank batch = .ok (ops, bc'))
    (hs : FinderSound bc'.finder) :
    ∃ c', Good anchor0 bc' c' ∧ lockedHashes bc' = lockedHashes bc ∧
      replay ops (lockedHashes bc ++ c.reverse) = some (lockedHashes bc' ++ c'.reverse) := by
  unfold BC.addHeaders at hr
  obtain ⟨⟨old, bc1⟩, h1, hr⟩ := bind_ok hr
  have e1 := h1.symm.trans (longest_of_cur rev bc c g.cur)
  simp only [Except.ok.injEq, Prod.mk.injEq] at e1
  obtain ⟨e1a, e1b⟩ := e1
  subst e1b
  have e1a' := e1a.symm
  subst e1a'
  try simp only at hr
  obtain ⟨finder', h2, hr⟩ := bind_ok hr
  try simp only at hr
  obtain ⟨⟨new, bc3⟩, h3, hr⟩ := bind_ok hr
  try simp only at hr
  obtain ⟨⟨oldPath, newPath⟩, h4, hr⟩ := bind_ok hr
  try simp only at hr
  -- the second `_longest_local_block_chain()`
  unfold BC.longest at h3
  try simp only at h3
  obtain ⟨chains, h3a, h3⟩ := bind_ok h3
  simp only [Except.ok.injEq, Prod.mk.injEq] at h3
  obtain ⟨rfl, rfl⟩ := h3
  -- the two op loops
  unfold BC.emitOps at hr
  obtain ⟨⟨rops, m1⟩, h5, hr⟩ := bind_ok hr
  try simp only at hr
  generalize h6 : addOps _ _ (enumFrom 0 newPath).reverse m1 = res at hr
  obtain ⟨aops, m2⟩ := res
  simp only [Except.ok.injEq, Prod.mk.injEq] at hr
  obtain ⟨rfl, rfl⟩ := hr
  simp only at hs h3a h4 h5 h6
  -- names
  generalize hw : (feed bc.h2i bc.locked.length bc.weight batch).1 = w at *
  generalize hnodes : (feed bc.h2i bc.locked.length bc.weight batch).2 = nodes at *
  obtain ⟨fw, fn⟩ := feed_spec bc.h2i bc.locked.length batch bc.weight
  rw [hw] at fw fn; rw [hnodes] at fn
  have hpl := loadNodes_parent rev rank bc.finder finder' nodes h2
  have Fext : ∀ k v, dget bc.finder.parent k = some v → dget finder'.parent k = some v := by
    intro k v hk; rw [hpl]; exact register_ext _ _ _ _ _ hk
  have Fnew : ∀ k v, dget finder'.parent k = some v → dget bc.finder.parent k = some v ∨ (k, v) ∈ nodes := by
    intro k v hk; rw [hpl] at hk; exact register_new _ _ _ _ _ hk
  have unreg' : ∀ x, dget bc.finder.parent x = none → (∀ p, (x, p) ∉ nodes) → dget finder'.parent x = none := by
    intro x hx hn
    cases hv : dget finder'.parent x with
    | none => rfl
    | some v =>
      rcases Fnew x v hv with h | h
      · rw [hx] at h; cases h
      · exact absurd h (hn v)
  have lockedSkip : ∀ h ∈ lockedHashes bc, ∀ p, (h, p) ∉ nodes := by
    intro h hm p hmem
    obtain ⟨n, hn, e⟩ := mem_locked_index bc c h hm
    have := (g.exact h n).mpr ⟨n, rfl, e⟩
    obtain ⟨_, hns, _⟩ := fn h p hmem
    apply hns
    rw [this]; simp; exact_mod_cast hn
  have anchorSkip : ∀ p, (anchor0, p) ∉ nodes := by
    intro p hmem
    obtain ⟨_, _, hd, hm, e, _⟩ := fn anchor0 p hmem
    exact h0 hd hm e
  have lockedUnreg' : ∀ h ∈ lockedHashes bc, dget finder'.parent h = none :=
    fun h hm => unreg' h (g.lockedUnreg h hm) (lockedSkip h hm)
  have anchorUnreg' : dget finder'.parent anchor0 = none := unreg' anchor0 g.anchorUnreg anchorSkip
  have parentUnreg' : dget finder'.parent bc.parentHash = none := by
    rw [g.parentIs]
    cases hl : (lockedHashes bc).getLast? with
    | none => simpa using anchorUnreg'
    | some x => simpa using lockedUnreg' x (List.mem_of_getLast? hl)
  have P1 : UpPath finder'.parent (c ++ [bc.parentHash]) := by
    apply UpPath.mono Fext _ g.path
    intro x hx
    simp at hx; subst hx; exact parentUnreg'
  generalize hbest : (pickBest w chains (0, [])).2 = best at *
  have P2 : UpPath finder'.parent (best.dropLast ++ [bc.parentHash]) := by
    rcases pickBest_mem w chains (0, []) with h | h
    · rw [hbest] at h; simp at h; subst h
      simpa [UpPath] using parentUnreg'
    · rw [hbest] at h
      obtain ⟨u, hl⟩ := allChains_spec rev finder' hs bc.parentHash chains h3a best h
      obtain ⟨ys, hys⟩ := List.getLast?_eq_some_iff.mp hl
      have : best.dropLast ++ [bc.parentHash] = best := by rw [hys]; simp
      rw [this]; exact u
  -- the split into a common part
  have P3 : ∃ s, c = oldPath ++ s ∧ best.dropLast = newPath ++ s := by
    cases hc0 : c with
    | nil =>
      rw [hc0] at h4
      simp only [BC.diffPaths, pure, Except.pure, Except.ok.injEq, Prod.mk.injEq] at h4
      obtain ⟨rfl, rfl⟩ := h4
      exact ⟨[], by simp, by simp⟩
    | cons o oc =>
      cases hn0 : best.dropLast with
      | nil =>
        rw [hc0, hn0] at h4
        simp only [BC.diffPaths, pure, Except.pure, Except.ok.injEq, Prod.mk.injEq] at h4
        obtain ⟨rfl, rfl⟩ := h4
        exact ⟨[], by simp, by simp⟩
      | cons n nc =>
        rw [hc0, hn0] at h4
        simp only [BC.diffPaths] at h4
        obtain ⟨⟨a, b⟩, h4a, h4⟩ := bind_ok h4
        simp only [pure, Except.pure, Except.ok.injEq, Prod.mk.injEq] at h4
        obtain ⟨rfl, rfl⟩ := h4
        rw [hc0] at P1
        rw [hn0] at P2
        exact findAncestral_split finder' hs (o :: oc) (n :: nc) bc.parentHash o n P1 P2 rfl rfl a b h4a
  obtain ⟨s, hc, hn⟩ := P3
  -- weights of everything on the two chains
  have wOf : ∀ t : List Nat, UpPath finder'.parent (t ++ [bc.parentHash]) → ∀ x ∈ t, dhas w x = true := by
    intro t ht x hx
    obtain ⟨v, hv⟩ := UpPath.registered t _ ht x hx
    rcases Fnew x v hv with h | h
    · exact fw x (g.weights x ((dhas_iff _ _).mpr ⟨v, h⟩))
    · exact (fn x v h).1
  have hbase : lockedHashes bc ++ c.reverse = (lockedHashes bc ++ s.reverse) ++ oldPath.reverse := by
    rw [hc]; simp
  have hnew : lockedHashes bc ++ best.dropLast.reverse = (lockedHashes bc ++ s.reverse) ++ newPath.reverse := by
    rw [hn]; simp
  have gex := g.exact
  have gnd := g.nodup
  rw [hbase] at gex gnd
  obtain ⟨ex1, rp1⟩ := removeOps_spec _ _ oldPath 0 (lockedHashes bc ++ s.reverse) bc.h2i m1 rops gex gnd
    (by intro h hm; exact wOf c P1 h (by rw [hc]; simp [hm]))
    (by simp [lockedHashes, hc, List.length_append]; omega) h5
  -- the new chain is duplicate free and avoids the locked hashes
  have ndNew : (lockedHashes bc ++ best.dropLast.reverse).Nodup := by
    have nd := UpPath.nodup _ P2
    have nd1 : best.dropLast.Nodup := (List.nodup_append.mp nd).1
    have lk : (lockedHashes bc).Nodup := (List.nodup_append.mp g.nodup).1
    refine List.nodup_append.mpr ⟨lk, (by simpa [List.Nodup, List.pairwise_reverse, eq_comm] using nd1), ?_⟩
    intro a ha b hb e
    subst e
    obtain ⟨v, hv⟩ := UpPath.registered _ _ P2 a (List.mem_reverse.mp hb)
    rw [lockedUnreg' a ha] at hv; cases hv
  rw [hnew] at ndNew
  have hxs : ((enumFrom 0 newPath).reverse).map (·.2) = newPath.reverse := by
    rw [List.map_reverse, enumFrom_map_snd]
  obtain ⟨ex2, rp2⟩ := addOps_spec _ _ ((enumFrom 0 newPath).reverse) (lockedHashes bc ++ s.reverse) m1 m2 aops ex1
    (by rw [hxs]; exact ndNew)
    (by
      intro e he
      have : e.2 ∈ newPath := by
        have := List.mem_map_of_mem (f := (·.2)) he
        rw [hxs] at this; exact List.mem_reverse.mp this
      exact wOf _ P2 e.2 (by rw [hn]; simp [this]))
    (by
      intro j hj
      rw [reverse_enumFrom_idx newPath j hj]
      have hl : j < newPath.length := by simpa [enumFrom_length] using hj
      simp only [hn, lockedHashes, List.length_append, List.length_map, List.length_reverse]
      omega)
    h6
  rw [hxs] at ex2 rp2
  refine ⟨best.dropLast, ⟨Or.inl rfl, P2, ?_, ?_, lockedUnreg', ?_, anchorUnreg', g.parentIs⟩, rfl, ?_⟩
  · show Exact m2 (lockedHashes bc ++ best.dropLast.reverse)
    rw [hnew]; exact ex2
  · show (lockedHashes bc ++ best.dropLast.reverse).Nodup
    rw [hnew]; exact ndNew
  · intro h hh
    obtain ⟨v, hv⟩ := (dhas_iff _ _).mp hh
    rcases Fnew h v hv with h' | h'
    · exact fw h (g.weights h ((dhas_iff _ _).mpr ⟨v, h'⟩))
    · exact (fn h v h').1
  · show replay (rops ++ aops) (lockedHashes bc ++ c.reverse) = some (lockedHashes bc ++ best.dropLast.reverse)
    rw [replay_append, hbase, rp1, hnew]
    simpa using rp2

end Pycoin.Chain
