import Pycoin.Proofs.RecoverX
import Pycoin.Proofs.DerRt
import Pycoin.Proofs.SecRt
import Pycoin.Model.KeySign
/-!
C01 — `Key.sign` / `Key.verify` (`pycoin/key/Key.py`) as compositions of the ECDSA model with the DER model of C10.
-/
namespace Pycoin.KeySign
open Pycoin Pycoin.Curve Pycoin.KeyCtor WeierstrassCurve

variable {c : CurveParams} [Good c] (ok : ECDSAOk c)

include ok in
/-- `Generator.verify` never raises on a curve point (reduced or not, of the `n`-torsion or not), whatever `z`, `r`, `s` -/
theorem verify_total (bf : Int) (Q : Pt) (hQ : OnCurve c Q) (z r s : Int) : ∃ b, verify c bf Q z r s = .ok b := by
  have := ok.neZero
  unfold verify
  by_cases hz : z = 0
  · rw [if_pos hz]; exact ⟨_, rfl⟩
  rw [if_neg hz]
  by_cases hr : r < 1 ∨ r ≥ c.n ∨ s < 1 ∨ s ≥ c.n
  · rw [if_pos hr]; exact ⟨_, rfl⟩
  rw [if_neg hr]
  push Not at hr
  obtain ⟨hr1, hr2, hs1, hs2⟩ := hr
  obtain ⟨si, hsi, -⟩ := inverseN_spec ok s (intCast_ne_zero_of_range s hs1 hs2)
  simp only [hsi]
  obtain ⟨A, a1, a2, -⟩ := mulG_refines c ok.gOn ok.nprime.pos.ne' ok.n256 ok.gOrd bf (z * si)
  simp only [a1]
  have hQ' : containsPoint c Q = true := hQ
  simp only [hQ', not_true_eq_false, if_false]
  obtain ⟨B, b1, b2, -⟩ := multiply_total Q hQ (r * si) ok.nprime.pos.ne'
  simp only [b1]
  obtain ⟨S, s1, -⟩ := add_refines c A B a2 b2
  simp only [s1]
  match S with
  | none => exact ⟨_, rfl⟩
  | some (x, y) => exact ⟨_, rfl⟩

omit [Good c] in
/-- `Key.verify` looks at the public pair only -/
theorem keyVerify_pub (bf : Int) (k k' : Key) (h : k.pub = k'.pub) (hh sig : Bytes) :
    keyVerify c bf k hh sig = keyVerify c bf k' hh sig := by
  unfold keyVerify keyVerifyWith; rw [h]

omit [Good c] in
/-- a signature blob that is not strict DER is answered `False` (the exception is swallowed) -/
theorem keyVerify_bad_der (bf : Int) (k : Key) (hh sig : Bytes) (e : Der.Err) (h : Der.sigdecodeDer sig false = .error e) :
    keyVerify c bf k hh sig = .ok false := by
  unfold keyVerify keyVerifyWith
  rw [h]
  rcases Der.sigdecodeDer_err sig false e h with rfl | rfl <;> rfl

include ok in
/-- on a strict-DER blob `Key.verify` is `Generator.verify` of the decoded pair -/
theorem keyVerify_decoded (bf : Int) (k : Key) (hk : containsXY c k.pub.1 k.pub.2 = true) (hh sig : Bytes) (r s : Int)
    (h : Der.sigdecodeDer sig false = .ok (r, s)) :
    ∃ b, verify c bf (some k.pub) (fromBytes32 hh) r s = .ok b ∧ keyVerify c bf k hh sig = .ok b := by
  obtain ⟨b, hb⟩ := verify_total ok bf (some k.pub) hk (fromBytes32 hh) r s
  refine ⟨b, hb, ?_⟩
  unfold keyVerify keyVerifyWith
  rw [h]; simp only [hb]

include ok in
/-- **`Key.verify` is total**: for a key whose public pair is on the curve (what the `Key` constructor checks), every
hash and every byte string presented as signature get a Boolean; no exception escapes -/
theorem keyVerify_total (bf : Int) (k : Key) (hk : containsXY c k.pub.1 k.pub.2 = true) (hh sig : Bytes) :
    ∃ b, keyVerify c bf k hh sig = .ok b := by
  cases hd : Der.sigdecodeDer sig false with
  | error e => exact ⟨false, keyVerify_bad_der bf k hh sig e hd⟩
  | ok rs =>
    obtain ⟨r, s⟩ := rs
    obtain ⟨b, -, h⟩ := keyVerify_decoded ok bf k hk hh sig r s hd
    exact ⟨b, h⟩

omit [Good c] in
theorem keySign_public (bf : Int) (k : Key) (hse : k.se = none) (hh : Bytes) : keySign c bf k hh = .error .runtime := by
  unfold keySign keySignWith; rw [hse]

omit [Good c] in
theorem publicCopy_pub (k : Key) : (publicCopy k).pub = k.pub ∧ (publicCopy k).se = none ∧
    (publicCopy k).compressed = k.compressed := by
  unfold publicCopy
  cases h : k.se <;> simp [h]

theorem byteLen_small (v : Int) (h0 : 0 ≤ v) (h1 : v < 2 ^ 256) : Der.byteLen v.toNat < 2 ^ 64 := by
  have : v.toNat < 256 ^ 32 := by
    have : (256 : Nat) ^ 32 = 2 ^ 256 := by norm_num
    omega
  have := Der.byteLen_le_of_lt this
  omega

include ok in
/-- **`Key.verify(h, Key.sign(h)) = True`**: whatever `Key.sign` returns for a private key made by the `Key` constructor
verifies under that key, under its `public_copy()` and under every key with the same public pair, whatever the blinding
factors of the generator objects involved.  The hash is necessarily non-zero (`sign` raises `ValueError` on zero) and the
blob is the strict DER encoding of a pair `1 ≤ r, s < n`. -/
theorem keySign_verifies (bf0 bf bf' d : Int) (comp : Bool) (k : Key) (hk : keyFromSecret c bf0 d comp = .ok k)
    (hh sig : Bytes) (hs : keySign c bf k hh = .ok sig) :
    fromBytes32 hh ≠ 0 ∧
    (∃ r s : Int, 1 ≤ r ∧ r < c.n ∧ 1 ≤ s ∧ s < c.n ∧ Der.sigencodeDer r s = .ok sig ∧ Der.sigdecodeDer sig false = .ok (r, s)) ∧
    keyVerify c bf' k hh sig = .ok true ∧ keyVerify c bf' (publicCopy k) hh sig = .ok true ∧
    ∀ k' : Key, k'.pub = k.pub → keyVerify c bf' k' hh sig = .ok true := by
  -- the key: secret exponent d, public pair d•G
  unfold keyFromSecret keyFromSecretWith at hk
  split at hk
  · cases hk
  cases hm : mulG c bf0 d with
  | error e => rw [hm] at hk; cases hk
  | ok Q =>
    rw [hm] at hk
    match Q, hm with
    | none, _ => cases hk
    | some (x, y), hm =>
      simp only at hk
      split at hk
      · injection hk with hk
        subst hk
        -- the signature
        unfold keySign keySignWith at hs
        simp only at hs
        cases hsg : Pycoin.RFC6979.sign c bf d (fromBytes32 hh) with
        | error e => rw [hsg] at hs; cases hs
        | ok rs =>
          obtain ⟨r, s⟩ := rs
          rw [hsg] at hs
          simp only at hs
          cases henc : Der.sigencodeDer r s with
          | error e => rw [henc] at hs; cases hs
          | ok blob =>
            rw [henc] at hs
            injection hs with hs
            subst hs
            -- Generator.sign is sign_with_recid without the recovery id
            unfold Pycoin.RFC6979.sign Curve.sign at hsg
            cases hsw : signWithRecid c bf Pycoin.RFC6979.deterministicGenerateK d (fromBytes32 hh) with
            | error e => rw [hsw] at hsg; cases hsg
            | ok t =>
              obtain ⟨r', s', v⟩ := t
              rw [hsw] at hsg
              injection hsg with hsg
              injection hsg with e1 e2
              subst e1; subst e2
              obtain ⟨hz, r1, r2, s1, s2, Q', q1, q2⟩ := sign_verifies ok _ bf bf0 bf' d (fromBytes32 hh) r' s' v hsw
              rw [hm] at q1
              injection q1 with q1
              subst q1
              have hn256 : (c.n : Int) ≤ 2 ^ 256 := by exact_mod_cast ok.n256
              obtain ⟨blob', hb1, hb2⟩ := Der.sigdecodeDer_sigencodeDer r' s' (by omega) (by omega)
                (byteLen_small r' (by omega) (by omega)) (byteLen_small s' (by omega) (by omega)) false
              rw [henc] at hb1
              injection hb1 with hb1
              subst hb1
              have hv : ∀ k' : Key, k'.pub = (x, y) → keyVerify c bf' k' hh blob = .ok true := by
                intro k' hp
                unfold keyVerify keyVerifyWith
                rw [hb2, hp]
                simp only [q2]
              exact ⟨hz, ⟨r', s', r1, r2, s1, s2, henc, hb2⟩, hv _ rfl, hv _ (publicCopy_pub _).1, hv⟩
      · cases hk

/-! ### histories -/

/-- what the history theorems assume of the key a history starts from: what the constructors establish (a reduced
curve point with `y ≠ 0`; `y = 0` would be a point of order two) -/
def KInv (c : CurveParams) (k : Key) : Prop :=
  containsXY c k.pub.1 k.pub.2 = true ∧ 0 ≤ k.pub.1 ∧ k.pub.1 < c.p ∧ 0 < k.pub.2 ∧ k.pub.2 < c.p

/-- `Key.from_sec(key.sec())` is a public key with the same pair and the same compression flag -/
theorem viaSec_ok (hc : Sec.Field32 c) (h4 : c.p % 4 = 3) (k : Key) (hk : KInv c k) :
    ∃ sec k', k.sec none = .ok sec ∧ keyFromSec c sec = .ok k' ∧ k'.pub = k.pub ∧ k'.se = none ∧
      k'.compressed = k.compressed := by
  obtain ⟨hon, hx0, hx, hy0, hy⟩ := hk
  unfold Key.sec
  simp only [Option.getD_none]
  cases hcomp : k.compressed with
  | true =>
    obtain ⟨blob, henc, -, -, hic, hdec⟩ := Sec.secToPublicPair_compressed (c := c) hc h4 k.pub.1 k.pub.2 hx0 hx hy0 hy hon true
    refine ⟨blob, ⟨none, k.pub, true⟩, henc, ?_, rfl, rfl, rfl⟩
    unfold keyFromSec
    rw [hdec]
    simp only [keyFromPair, hon, hic, if_true]
  | false =>
    obtain ⟨blob, henc, -, -, hic, hdec⟩ := Sec.secToPublicPair_uncompressed c hc k.pub.1 k.pub.2 hx0 hx hy0.le hy true
    refine ⟨blob, ⟨none, k.pub, false⟩, henc, ?_, rfl, rfl, rfl⟩
    unfold keyFromSec
    rw [hdec]
    simp only [keyFromPair, hon, hic, if_true]

/-- a step of a history never changes the public pair (nor the invariant) -/
theorem step_pub (hc : Sec.Field32 c) (h4 : c.p % 4 = 3) (bf : Int) (st : HState) (hk : KInv c st.key) (s : Step) :
    (step c bf st s).1.key.pub = st.key.pub ∧ KInv c (step c bf st s).1.key := by
  cases s with
  | sign h =>
    simp only [step, stepWith]
    split <;> exact ⟨rfl, hk⟩
  | verify h sig => exact ⟨rfl, hk⟩
  | verifyLast h => exact ⟨rfl, hk⟩
  | pubCopy =>
    have := publicCopy_pub st.key
    have e : (step c bf st .pubCopy).1.key = publicCopy st.key := rfl
    rw [e]
    refine ⟨this.1, ?_⟩
    unfold KInv
    rw [this.1]; exact hk
  | viaSec =>
    obtain ⟨sec, k', h1, h2, h3, -, -⟩ := viaSec_ok hc h4 st.key hk
    unfold step stepWith
    simp only [h1, h2]
    refine ⟨h3, ?_⟩
    unfold KInv
    rw [h3]; exact hk

/-- the answers of a history -/
def answersOK (c : CurveParams) (bf : Int) (pub : Int × Int) : HState → List Step → Prop
  | _, [] => True
  | st, s :: ss =>
    (match s with
      | .verify h sig => (step c bf st s).2 =
          (match keyVerify c bf ⟨none, pub, true⟩ h sig with | .ok b => (if b then "1" else "0") | .error e => "!" ++ e.tag)
      | .verifyLast h => (step c bf st s).2 =
          (match keyVerify c bf ⟨none, pub, true⟩ h st.last with | .ok b => (if b then "1" else "0") | .error e => "!" ++ e.tag)
      | _ => True) ∧ answersOK c bf pub (step c bf st s).1 ss

/-- **history theorem**: in any sequence of `sign`, `verify`, `public_copy()`, `Key.from_sec(key.sec())` steps on one key
object and the objects derived from it, every `verify` answer is the one a FRESH public key built from the initial
public pair gives on the same arguments (no state of the object, of a copy, or of an earlier call enters) -/
theorem history_fresh (hc : Sec.Field32 c) (h4 : c.p % 4 = 3) (bf : Int) (pub : Int × Int) :
    ∀ (steps : List Step) (st : HState), KInv c st.key → st.key.pub = pub → answersOK c bf pub st steps := by
  intro steps
  induction steps with
  | nil => intro st _ _; trivial
  | cons s ss ih =>
    intro st hk hp
    obtain ⟨h1, h2⟩ := step_pub hc h4 bf st hk s
    refine ⟨?_, ih _ h2 (h1.trans hp)⟩
    cases s with
    | verify h sig =>
      show (step c bf st (.verify h sig)).2 = _
      unfold step stepWith
      simp only
      rw [show keyVerifyWith (verify c bf) = keyVerify c bf from rfl, keyVerify_pub bf st.key ⟨none, pub, true⟩ hp]
      rfl
    | verifyLast h =>
      show (step c bf st (.verifyLast h)).2 = _
      unfold step stepWith
      simp only
      rw [show keyVerifyWith (verify c bf) = keyVerify c bf from rfl, keyVerify_pub bf st.key ⟨none, pub, true⟩ hp]
      rfl
    | sign h => trivial
    | pubCopy => trivial
    | viaSec => trivial

end Pycoin.KeySign
