import Pycoin.Model.Sign
/-!
C05 — the order `existing_signatures.sort()` uses on `(key index, signature)` tuples is a total order; insertion sort by it
is a permutation, sorted, and therefore independent of the order of its input.
-/
namespace Pycoin.Sign
open Pycoin

theorem bytesLt_irrefl : ∀ a : Bytes, bytesLt a a = false
  | [] => rfl
  | x :: xs => by simp [bytesLt, bytesLt_irrefl xs]

theorem bytesLt_trichotomy : ∀ a b : Bytes, bytesLt a b = true ∨ a = b ∨ bytesLt b a = true
  | [], [] => Or.inr (Or.inl rfl)
  | [], _ :: _ => Or.inl rfl
  | _ :: _, [] => Or.inr (Or.inr rfl)
  | x :: xs, y :: ys => by
    simp only [bytesLt]
    by_cases h1 : x.toNat < y.toNat
    · simp [h1]
    · by_cases h2 : y.toNat < x.toNat
      · simp [h1, h2]
      · have : x = y := UInt8.toNat_inj.mp (by omega)
        subst this
        simp only [h1, if_false]
        rcases bytesLt_trichotomy xs ys with h | h | h
        · exact Or.inl h
        · exact Or.inr (Or.inl (by rw [h]))
        · exact Or.inr (Or.inr h)

theorem bytesLt_asymm : ∀ a b : Bytes, bytesLt a b = true → bytesLt b a = false
  | [], [], h => by simp [bytesLt] at h
  | [], _ :: _, _ => rfl
  | _ :: _, [], h => by simp [bytesLt] at h
  | x :: xs, y :: ys, h => by
    simp only [bytesLt] at h ⊢
    by_cases h1 : x.toNat < y.toNat
    · have : ¬ y.toNat < x.toNat := by omega
      simp [h1, this]
    · by_cases h2 : y.toNat < x.toNat
      · simp [h1, h2] at h
      · simp only [h1, h2, if_false] at h ⊢
        exact bytesLt_asymm xs ys h

theorem bytesLt_trans : ∀ a b c : Bytes, bytesLt a b = true → bytesLt b c = true → bytesLt a c = true
  | [], [], _, h, _ => by simp [bytesLt] at h
  | [], _ :: _, [], _, h => by simp [bytesLt] at h
  | [], _ :: _, _ :: _, _, _ => rfl
  | _ :: _, [], _, h, _ => by simp [bytesLt] at h
  | _ :: _, _ :: _, [], _, h => by simp [bytesLt] at h
  | x :: xs, y :: ys, z :: zs, h1, h2 => by
    simp only [bytesLt] at h1 h2 ⊢
    by_cases a1 : x.toNat < y.toNat
    · by_cases b1 : y.toNat < z.toNat
      · have : x.toNat < z.toNat := by omega
        simp [this]
      · by_cases b2 : z.toNat < y.toNat
        · simp [b1, b2] at h2
        · have : x.toNat < z.toNat := by omega
          simp [this]
    · by_cases a2 : y.toNat < x.toNat
      · simp [a1, a2] at h1
      · simp only [a1, a2, if_false] at h1
        by_cases b1 : y.toNat < z.toNat
        · have : x.toNat < z.toNat := by omega
          simp [this]
        · by_cases b2 : z.toNat < y.toNat
          · simp [b1, b2] at h2
          · simp only [b1, b2, if_false] at h2
            have c1 : ¬ x.toNat < z.toNat := by omega
            have c2 : ¬ z.toNat < x.toNat := by omega
            simp only [c1, c2, if_false]
            exact bytesLt_trans xs ys zs h1 h2

theorem sigLe_total (a b : Int × Bytes) : sigLe a b = true ∨ sigLe b a = true := by
  unfold sigLe
  by_cases h1 : a.1 < b.1
  · simp [h1]
  · by_cases h2 : b.1 < a.1
    · simp [h1, h2]
    · simp only [h1, h2, if_false]
      rcases bytesLt_trichotomy a.2 b.2 with h | h | h
      · left; simp [bytesLt_asymm _ _ h]
      · left; rw [h]; simp [bytesLt_irrefl]
      · right; simp [bytesLt_asymm _ _ h]

theorem sigLe_antisymm (a b : Int × Bytes) (h1 : sigLe a b = true) (h2 : sigLe b a = true) : a = b := by
  unfold sigLe at h1 h2
  by_cases a1 : a.1 < b.1
  · have : ¬ b.1 < a.1 := by omega
    simp [a1, this] at h2
  · by_cases a2 : b.1 < a.1
    · simp [a1, a2] at h1
    · simp only [a1, a2, if_false] at h1 h2
      have e1 : a.1 = b.1 := by omega
      rcases bytesLt_trichotomy a.2 b.2 with h | h | h
      · simp [h] at h2
      · exact Prod.ext e1 h
      · simp [h] at h1

theorem sigLe_trans (a b c : Int × Bytes) (h1 : sigLe a b = true) (h2 : sigLe b c = true) : sigLe a c = true := by
  unfold sigLe at h1 h2 ⊢
  by_cases a1 : a.1 < b.1
  · by_cases b1 : b.1 < c.1
    · have : a.1 < c.1 := by omega
      simp [this]
    · by_cases b2 : c.1 < b.1
      · simp [b1, b2] at h2
      · have : a.1 < c.1 := by omega
        simp [this]
  · by_cases a2 : b.1 < a.1
    · simp [a1, a2] at h1
    · simp only [a1, a2, if_false] at h1
      by_cases b1 : b.1 < c.1
      · have : a.1 < c.1 := by omega
        simp [this]
      · by_cases b2 : c.1 < b.1
        · simp [b1, b2] at h2
        · simp only [b1, b2, if_false] at h2
          have c1 : ¬ a.1 < c.1 := by omega
          have c2 : ¬ c.1 < a.1 := by omega
          simp only [c1, c2, if_false]
          -- ¬ c.2 < a.2 from ¬ b.2 < a.2 and ¬ c.2 < b.2
          cases hca : bytesLt c.2 a.2 with
          | false => rfl
          | true =>
            exfalso
            rcases bytesLt_trichotomy a.2 b.2 with h | h | h
            · have := bytesLt_trans _ _ _ hca h
              simp [this] at h2
            · rw [h] at hca; simp [hca] at h2
            · simp [h] at h1

theorem insertSig_perm (a : Int × Bytes) (l : List (Int × Bytes)) : (insertSig a l).Perm (a :: l) := by
  induction l with
  | nil => simp [insertSig]
  | cons b r ih =>
    simp only [insertSig]
    split
    · exact List.Perm.refl _
    · exact (List.Perm.cons b ih).trans (List.Perm.swap a b r)

theorem sortSigs_perm (l : List (Int × Bytes)) : (sortSigs l).Perm l := by
  induction l with
  | nil => simp [sortSigs]
  | cons a r ih => exact (insertSig_perm a _).trans (List.Perm.cons a ih)

theorem insertSig_sorted (a : Int × Bytes) (l : List (Int × Bytes)) (h : l.Pairwise (fun x y => sigLe x y = true)) :
    (insertSig a l).Pairwise (fun x y => sigLe x y = true) := by
  induction l with
  | nil => simp [insertSig]
  | cons b r ih =>
    rw [List.pairwise_cons] at h
    simp only [insertSig]
    split
    · rename_i hab
      rw [List.pairwise_cons]
      refine ⟨?_, List.pairwise_cons.mpr h⟩
      intro x hx
      rcases List.mem_cons.mp hx with hx | hx
      · rw [hx]; exact hab
      · exact sigLe_trans _ _ _ hab (h.1 x hx)
    · rename_i hab
      have hba : sigLe b a = true := by
        rcases sigLe_total a b with h' | h'
        · exact absurd h' hab
        · exact h'
      rw [List.pairwise_cons]
      refine ⟨?_, ih h.2⟩
      intro x hx
      have := (insertSig_perm a r).subset hx
      rcases List.mem_cons.mp this with hx | hx
      · rw [hx]; exact hba
      · exact h.1 x hx

theorem sortSigs_sorted (l : List (Int × Bytes)) : (sortSigs l).Pairwise (fun x y => sigLe x y = true) := by
  induction l with
  | nil => simp [sortSigs]
  | cons a r ih => exact insertSig_sorted a _ ih

/-- `sort()` forgets the order in which the signatures were collected -/
theorem sortSigs_eq_of_perm {l₁ l₂ : List (Int × Bytes)} (h : l₁.Perm l₂) : sortSigs l₁ = sortSigs l₂ := by
  apply List.Perm.eq_of_pairwise (le := fun x y => sigLe x y = true)
  · intro a b _ _ h1 h2; exact sigLe_antisymm a b h1 h2
  · exact sortSigs_sorted l₁
  · exact sortSigs_sorted l₂
  · exact (sortSigs_perm l₁).trans (h.trans (sortSigs_perm l₂).symm)

theorem sigLe_refl (a : Int × Bytes) : sigLe a a = true := by
  unfold sigLe; simp [bytesLt_irrefl]

/-- with `k` missing signatures the placeholder sits in the first `k` slots and the signatures follow by key index -/
theorem sortSigs_padded (ex : List (Int × Bytes)) (ph : Bytes) (k : Nat) (hidx : ∀ p ∈ ex, 0 ≤ p.1) :
    sortSigs (ex ++ List.replicate k ((-1 : Int), ph)) = List.replicate k ((-1 : Int), ph) ++ sortSigs ex := by
  apply List.Perm.eq_of_pairwise (le := fun x y => sigLe x y = true)
  · intro a b _ _ h1 h2; exact sigLe_antisymm a b h1 h2
  · exact sortSigs_sorted _
  · rw [List.pairwise_append]
    refine ⟨?_, sortSigs_sorted ex, ?_⟩
    · rw [List.pairwise_replicate]
      right; exact sigLe_refl _
    · intro a ha b hb
      rw [List.mem_replicate] at ha
      have hb' := (sortSigs_perm ex).subset hb
      have := hidx b hb'
      rw [ha.2]
      unfold sigLe
      have : (-1 : Int) < b.1 := by omega
      simp [this]
  · exact (sortSigs_perm _).trans (List.perm_append_comm.trans (List.Perm.append_left _ (sortSigs_perm ex).symm))

/-- with `j ≤ m` collected signatures (key indices ≥ 0) the result is `m − j` placeholders followed by the `j` signatures in
key-index order -/
theorem assemble_placeholders (nSigs : Nat) (ph : Bytes) (ex : List (Int × Bytes)) (hidx : ∀ p ∈ ex, 0 ≤ p.1)
    (hle : ex.length ≤ nSigs) :
    assemble nSigs (some ph) ex =
      List.replicate (nSigs - ex.length) (some ph) ++ (sortSigs ex).map (fun t => some t.2) := by
  unfold assemble
  simp only [sortSigs_padded ex ph _ hidx]
  have hlen : (sortSigs ex).length = ex.length := (sortSigs_perm ex).length_eq
  simp only [List.map_append, List.map_replicate, List.length_append, List.length_replicate, List.length_map, hlen]
  have : nSigs - (nSigs - ex.length + ex.length) = 0 := by omega
  rw [this]
  simp only [List.replicate_zero, List.append_nil]
  apply List.take_of_length_le
  simp [hlen]; omega

/-- the padded, sorted result does not depend on the order in which the signatures were collected -/
theorem assemble_perm (nSigs : Nat) (placeholder : Option Bytes) {ex₁ ex₂ : List (Int × Bytes)} (h : ex₁.Perm ex₂) :
    assemble nSigs placeholder ex₁ = assemble nSigs placeholder ex₂ := by
  unfold assemble
  have hl : ex₁.length = ex₂.length := h.length_eq
  cases placeholder with
  | none => simp only [sortSigs_eq_of_perm h]
  | some ph =>
    simp only [hl]
    rw [sortSigs_eq_of_perm (List.Perm.append_right _ h)]

/-- a list that is already in order is left alone by `sort()` -/
theorem sortSigs_of_sorted (l : List (Int × Bytes)) (h : l.Pairwise (fun x y => sigLe x y = true)) : sortSigs l = l := by
  apply List.Perm.eq_of_pairwise (le := fun x y => sigLe x y = true)
  · intro a b _ _ h1 h2; exact sigLe_antisymm a b h1 h2
  · exact sortSigs_sorted l
  · exact h
  · exact sortSigs_perm l

end Pycoin.Sign
