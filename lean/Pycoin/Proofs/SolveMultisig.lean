import Pycoin.Proofs.SolveBase
/-!
C05 — `Solve.solveForConstraints` on the constraints of `m <key>… n CHECKMULTISIG` (every `m`, every key list): the dummy and the
signatures, as `Sign.solveBase` lists them.
-/
namespace Pycoin.Solve
open Pycoin Pycoin.Sign

theorem collect_pubkeys (l : List Bytes) : collectSolutions (l.map (fun k => Term.isPubkey (.const k))) = .ok [] := by
  induction l with
  | nil => rfl
  | cons t r ih => simp [collectSolutions, solutionsForConstraint, solverOrder_eq, matchSolver, ih]

theorem collect_sigatoms (l : List Atom) : collectSolutions (l.map (fun a => Term.isSignature (.atom a))) = .ok [] := by
  induction l with
  | nil => rfl
  | cons t r ih => simp [collectSolutions, solutionsForConstraint, solverOrder_eq, matchSolver, ih]

theorem mapM_leafAtoms (l : List Atom) :
    (l.map Leaf.atom).mapM Leaf.atom? = some l := by
  induction l with
  | nil => rfl
  | cons a r ih => simp only [List.map_cons, List.mapM_cons, ih]; rfl

theorem mapM_leafConsts (l : List Bytes) (sv : Solved) :
    (l.map Leaf.const).mapM (Leaf.value sv) = some l := by
  induction l with
  | nil => rfl
  | cons a r ih => simp only [List.map_cons, List.mapM_cons, ih]; rfl

theorem filterMap_leafConsts (l : List Bytes) :
    (l.map Leaf.const).filterMap Leaf.atom? = [] := by
  induction l with
  | nil => rfl
  | cons a r ih => simpa [Leaf.atom?] using ih

theorem deps_pubkeys (l : List Bytes) : (l.map (fun k => Term.isPubkey (.const k))).flatMap Term.deps = [] := by
  induction l with
  | nil => rfl
  | cons a r ih => simpa [Term.deps] using ih

theorem deps_sigatoms (l : List Atom) : (l.map (fun a => Term.isSignature (.atom a))).flatMap Term.deps = l := by
  induction l with
  | nil => rfl
  | cons a r ih => simp [Term.deps, ih]

theorem get_map_none (ks : List Atom) (rest : Solved) (t : Atom) (ht : t ∈ ks) :
    Solved.get (ks.map (fun k => (k, none)) ++ rest) t = some none := by
  induction ks with
  | nil => cases ht
  | cons k r ih =>
    by_cases hk : k = t
    · subst hk; simp [Solved.get]
    · have : t ∈ r := by rcases List.mem_cons.mp ht with rfl | h; exact absurd rfl hk; exact h
      simp only [List.map_cons, List.cons_append]
      rw [Solved.get_cons_ne t k _ _ hk]
      exact ih this

theorem fresh_nodup (isW : Bool) (c n : Nat) : (freshAtoms isW c n).Nodup :=
  (fresh_pairwise isW c n).imp (fun {a b} h e => by subst e; omega)

theorem fresh_length (isW : Bool) (c n : Nat) : (freshAtoms isW c n).length = n := by simp [freshAtoms]

theorem dummy_not_fresh (isW : Bool) (c n : Nat) : Atom.mk isW (c + n) ∉ freshAtoms isW c n := by
  intro h
  obtain ⟨i, hi, he⟩ := List.mem_map.mp h
  have := Atom.mk_inj isW _ _ he
  have := (List.mem_range'_1.mp hi).2
  omega

theorem solverPass_run (a : SolveArgs) (ex : List Bytes) (sol : Sol) (r : List Sol) (sv : Solved) (p : Bool)
    (h1 : sol.targets.any (fun t => (sv.get t).join.isSome) = false) (h2 : depsUnsolved sv sol.deps = .ok false) :
    solverPass a ex (sol :: r) sv p =
      match sol.apply a ex sv with
      | .error e => .error e
      | .ok s => solverPass a ex r (sv.update s) (p || !s.isEmpty) := by
  simp only [solverPass, h1, Bool.false_eq_true, if_false, h2]
  rfl

/-- `m <key>… n CHECKMULTISIG`: the atoms `r … r+m-1` are the signatures (lowest = top of the stack), `r+m` the dummy -/
theorem solveFor_multisig (a : SolveArgs) (ex : List Bytes) (m : Nat) (keys : List Bytes) (isW : Bool) (r : Nat) (wit : Bool)
    (cx cw : Option Bytes) (ph : Bytes) (hph : a.placeholder = some ph)
    (hpos : ((isW = false ∧ cx.isSome) ∨ (isW = true ∧ cw.isSome)) → 0 < r) :
    solveForConstraints a ex (multisigConstraints m keys isW r wit ++ closingTerms cx cw) =
      match solveBase a.C a.lookup (a.sighash wit (multisigScriptN m keys)) ex a.ht a.placeholder (.multisig m keys) with
      | .error e => .error e
      | .ok items => .ok (splitByLetter isW items cx cw) := by
  let fresh := freshAtoms isW r m
  let dummy := Atom.mk isW (r + m)
  let script := multisigScriptN m keys
  let R : Except Sign.Err (List Bytes) :=
    match signingSolver a.C a.lookup (a.sighash wit script) keys.reverse m ex a.ht (some ph) with
    | .error e => .error e
    | .ok vals => .ok (vals.filterMap id ++ [[]])
  have hasc : freshAtoms isW r (m + 1) = fresh ++ [dummy] := fresh_succ isW r m
  have hdn : dummy ∉ fresh := dummy_not_fresh isW r m
  have := solveFor_generic a ex (multisigConstraints m keys isW r wit)
    [.constEq dummy [], .signing (keys.reverse.map Leaf.const) fresh wit script] (freshAtoms isW r (m + 1)) cx cw isW R
    (by
      simp only [multisigConstraints]
      rw [collect_append, collect_append, collect_pubkeys, collect_sigatoms]
      simp only [collectSolutions, solutionsForConstraint, solverOrder_eq, matchSolver, mapM_leafAtoms]
      rfl)
    (by
      simp only [multisigConstraints, List.flatMap_append, deps_pubkeys, deps_sigatoms, List.nil_append]
      rw [show ([Term.equal (.atom (Atom.mk isW (r + m))) (.const []),
          Term.sigsCorrect (keys.reverse.map Leaf.const) ((freshAtoms isW r m).map Leaf.atom) wit (multisigScriptN m keys)]).flatMap
          Term.deps = [dummy] from rfl, ← hasc]
      exact dedup_of_nodup _ (fresh_nodup isW r (m + 1)))
    (by rw [hasc]; simp)
    (fresh_isW isW r (m + 1)) (fresh_pairwise isW r (m + 1))
    (by
      intro hh k hk
      have := fresh_number isW r (m + 1) k hk
      have := hpos hh
      omega)
    (by
      intro tail p htail
      rw [hasc] at htail ⊢
      have hd : dummy ∉ Solved.keys (fresh.map (fun k => ((k, none) : Atom × Option Bytes))) := by
        simp only [Solved.keys, List.map_map]
        have : ((fun p : Atom × Option Bytes => p.1) ∘ fun k : Atom => (k, none)) = id := rfl
        rw [this, List.map_id]; exact hdn
      simp only [List.map_append, List.map_cons, List.map_nil, List.append_assoc, List.cons_append, List.nil_append]
      -- the constant-equality solver assigns the dummy
      rw [solverPass_run a ex _ _ _ _
        (by simp only [Sol.targets, List.any_cons, List.any_nil, Bool.or_false]
            rw [Solved.get_append_of_not_mem _ _ _ hd, Solved.get_cons_self]; rfl)
        (by rfl)]
      simp only [Sol.apply, Solved.update]
      rw [Solved.set_after _ _ _ _ _ hd]
      -- the signing solver: no target is solved, no dependency
      rw [solverPass_run a ex _ _ _ _
        (by simp only [Sol.targets]
            rw [List.any_eq_false]
            intro t ht
            rw [get_map_none fresh _ t ht]; simp)
        (by simp only [Sol.deps, filterMap_leafConsts]; rfl)]
      simp only [Sol.apply, mapM_leafConsts, fresh_length, hph, R, script, fresh]
      cases hs : signingSolver a.C a.lookup (a.sighash wit (multisigScriptN m keys)) keys.reverse m ex a.ht (some ph) with
      | error e => simp [Except.map]
      | ok vals =>
        obtain ⟨vs, rfl, hlen⟩ := signingSolver_some hs
        simp only [zip_filterMap_some, Except.map]
        have hu := Solved.update_zip (freshAtoms isW r m) vs [] ((dummy, some []) :: tail) (fresh_nodup isW r m) (by intro k _; simp [Solved.keys])
          (by rw [fresh_length, hlen])
        simp only [List.nil_append] at hu
        rw [hu]
        have hfm : (vs.map some).filterMap id = vs := by simp
        rw [hfm, List.zip_append (by rw [fresh_length, hlen])]
        simp [dummy, solverPass])
    (by
      intro vs hvs
      simp only [R] at hvs
      cases hs : signingSolver a.C a.lookup (a.sighash wit script) keys.reverse m ex a.ht (some ph) with
      | error e => rw [hs] at hvs; cases hvs
      | ok vals =>
        rw [hs] at hvs
        obtain ⟨vs', rfl, hlen⟩ := signingSolver_some hs
        cases hvs
        simp [fresh_length, hlen])
  rw [this]
  simp only [R, solveBase, hph, script]
  cases hs : signingSolver a.C a.lookup (a.sighash wit (multisigScriptN m keys)) keys.reverse m ex a.ht (some ph) with
  | error e => rfl
  | ok vals =>
    obtain ⟨vs, rfl, hlen⟩ := signingSolver_some hs
    simp [Except.map, List.map_reverse]

end Pycoin.Solve
