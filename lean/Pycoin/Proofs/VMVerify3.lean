import Mathlib.Tactic.SplitIfs
import Pycoin.Proofs.VMVerify2
import Pycoin.Proofs.VMDelShared
/-!
`check_solution` against `VerifyScript`, part 3: the agreement of the three base-version VMs with `EvalScript`
(`VerifyAgree`) holds with no hypothesis (`evalScript_eq_full`; the stack the scriptSig leaves has items within 520
bytes: `spec_eval_items`), hence `verify_eq_full`.
-/
namespace Pycoin.VM
open Pycoin.Spec Pycoin.Gen.VM CondStack Consensus

variable (chk : Bytes → Bytes → Bytes → Bool → Bool) (cfg : Config)

/-- the state Core's loop ends in is one of the states of its run -/
theorem reach_of_loop (stack0 : List Bytes) : ∀ (fuel : Nat) (pc : Nat) (st st' : Consensus.State),
    Reach chk cfg stack0 pc st → specLoop chk cfg fuel (cfg.script.drop pc) pc st = .ok st' →
    ∃ pc', Reach chk cfg stack0 pc' st' := by
  intro fuel
  induction fuel with
  | zero =>
    intro pc st st' hr h
    rw [specLoop_zero] at h
    split_ifs at h
    cases h
    exact ⟨pc, hr⟩
  | succ f ih =>
    intro pc st st' hr h
    rw [specLoop_succ] at h
    split_ifs at h
    · cases h; exact ⟨pc, hr⟩
    · cases hg : getScriptOp (cfg.script.drop pc) with
      | none => rw [hg] at h; cases h
      | some r =>
        obtain ⟨op, data, rest', size⟩ := r
        rw [hg] at h
        simp only at h
        cases hs : specStep chk cfg st op data (pc + size) with
        | error e => rw [hs] at h; cases h
        | ok st1 =>
          rw [hs] at h
          obtain ⟨hrest, _, _⟩ := getScriptOp_rest _ _ _ _ _ hg
          have hdrop : rest' = cfg.script.drop (pc + size) := by rw [hrest, List.drop_drop]
          rw [hdrop] at h
          exact ih (pc + size) st1 st' (Reach.step hr hg hs) h

/-- a successful `EvalScript` on items within 520 bytes leaves items within 520 bytes -/
theorem spec_eval_items (stack out : List Bytes) (hok : okL stack)
    (h : Consensus.evalScript (specChk chk) stack cfg.script (Flags.ofBits cfg.flags)
      ⟨cfg.ctx.version, cfg.ctx.lockTime, cfg.ctx.sequence⟩ (if cfg.witness then .witnessV0 else .base) = .ok out) :
    okL out := by
  rw [specEval_def] at h
  split_ifs at h
  cases hs : specLoop chk cfg cfg.script.length cfg.script 0 { stack := stack } with
  | error e => rw [hs] at h; cases h
  | ok st' =>
    rw [hs] at h
    simp only at h
    split_ifs at h
    cases h
    obtain ⟨pc', hr⟩ := reach_of_loop chk cfg stack cfg.script.length 0 _ st' Reach.init (by simpa using hs)
    exact (reach_items chk cfg stack hok pc' st' hr).1

/-- the three base-version VMs of `check_solution` agree with `EvalScript`, with no hypothesis -/
theorem verifyAgree_full (hchk : ChkWF chk) (c : SolCtx) (flags : Nat) : VerifyAgree chk c flags where
  sig := evalScript_eq_full chk _ (by rw [strip_minimalif]; exact id) (by rw [strip_wpk]; exact id) hchk [] okL_nil
  spk := fun sc hs =>
    evalScript_eq_full chk _ (by rw [strip_minimalif]; exact id) (by rw [strip_wpk]; exact id) hchk sc
      (spec_eval_items chk ⟨c.solutionScript, c.tx, flags, false⟩ [] sc okL_nil hs)
  redeem := fun r s2 hs =>
    evalScript_eq_full chk _ (by rw [strip_minimalif_p2sh]; exact id) (by rw [strip_wpk_p2sh]; exact id) hchk s2
      ((okL_cons _ _).mp (spec_eval_items chk ⟨c.solutionScript, c.tx, flags, false⟩ [] (r :: s2) okL_nil hs)).2

/-- **C03.verify_eq, unconditional**: `check_solution` succeeds exactly when `VerifyScript` does -/
theorem verify_eq_full (hchk : ChkWF chk) (c : SolCtx) (flags : Nat) :
    (checkSolution (stdEnv chk) c flags).toOption.isSome =
      (verifyScript (specChk chk) c.solutionScript c.puzzleScript c.witnessPy (Flags.ofBits flags) (specTx c.tx)).isNone :=
  verify_eq chk hchk c flags (verifyAgree_full chk hchk c flags)
end Pycoin.VM
