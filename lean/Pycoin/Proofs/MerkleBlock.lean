import Pycoin.Proofs.Merkle
import Pycoin.Model.MerkleBlock
/-! Lemmas for C14: `level_widths`, leaves below a node, the model verifier run on the BIP37 spec builder output. -/
namespace Pycoin.MerkleBlock
open Pycoin.Spec.Merkle

/-! ### `level_widths` -/

theorem widthsLoop_eq (n : Nat) : ∀ f k acc, treeWidth n k ≤ f + 1 →
    widthsLoop f (treeWidth n k) acc = acc ++ (List.range' k (heightLoop n f k - k)).map (treeWidth n) ∧ k ≤ heightLoop n f k := by
  intro f
  induction f with
  | zero => intro k acc h; simp [widthsLoop, heightLoop]
  | succ f ih =>
    intro k acc h
    unfold widthsLoop heightLoop
    split
    · have h' : treeWidth n (k + 1) ≤ f + 1 := by rw [treeWidth_succ]; omega
      have := ih (k + 1) (acc ++ [treeWidth n k]) h'
      rw [← treeWidth_succ, this.1]
      refine ⟨?_, by omega⟩
      have e : heightLoop n f (k + 1) - k = (heightLoop n f (k + 1) - (k + 1)) + 1 := by omega
      rw [e, List.range'_succ]
      simp
    · simp

theorem levelWidths_eq {n : Nat} (hn : 0 < n) :
    levelWidths n = ((List.range' 0 (height n + 1)).map (treeWidth n)).reverse := by
  have h := (widthsLoop_eq n n 0 [] (by rw [treeWidth_zero]; omega)).1
  rw [treeWidth_zero] at h
  unfold levelWidths
  rw [h]
  rw [List.range'_1_concat, List.map_append]
  have := treeWidth_height hn
  unfold height at this
  simp [height, this]

theorem levelWidths_length {n : Nat} (hn : 0 < n) : (levelWidths n).length = height n + 1 := by
  simp [levelWidths_eq hn]

theorem levelWidths_get {n : Nat} (hn : 0 < n) {k : Nat} (hk : k ≤ height n) :
    (levelWidths n)[height n - k]? = some (treeWidth n k) := by
  rw [levelWidths_eq hn, List.getElem?_reverse (by simp; omega)]
  simp only [List.length_map, List.length_range', List.getElem?_map]
  have e : height n + 1 - 1 - (height n - k) = k := by omega
  rw [e, List.getElem?_range' ]
  simp; omega


/-! ### leaves below a node -/

theorem leavesBelow_zero {n pos : Nat} (h : pos < n) : leavesBelow n 0 pos = [pos] := by
  have : min (pos + 1) n - pos = 1 := by omega
  simp [leavesBelow, this]

theorem leavesBelow_succ (n h pos : Nat) :
    leavesBelow n (h + 1) pos = leavesBelow n h (2 * pos) ++ leavesBelow n h (2 * pos + 1) := by
  simp only [leavesBelow, Nat.shiftLeft_eq, Nat.pow_succ]
  generalize hA : 2 ^ h = A
  have e1 : pos * (A * 2) = 2 * (pos * A) := by rw [Nat.mul_comm A 2, ← Nat.mul_assoc, Nat.mul_comm pos 2, Nat.mul_assoc]
  have e2 : (pos + 1) * (A * 2) = 2 * (pos * A) + 2 * A := by rw [Nat.add_mul, e1]; omega
  have e3 : 2 * pos * A = 2 * (pos * A) := by rw [Nat.mul_assoc]
  have e4 : (2 * pos + 1) * A = 2 * (pos * A) + A := by rw [Nat.add_mul, e3]; omega
  have e5 : (2 * pos + 1 + 1) * A = 2 * (pos * A) + 2 * A := by rw [Nat.add_mul, e4]; omega
  rw [e1, e2, e3, e4, e5]
  generalize pos * A = P
  by_cases hc : 2 * P + A ≤ n
  · have e6 : min (2 * P + A) n - 2 * P = A := by omega
    have e7 : min (2 * P + 2 * A) n - 2 * P = A + (min (2 * P + 2 * A) n - (2 * P + A)) := by omega
    rw [e6, e7, List.range'_append_1]
  · have z : min (2 * P + 2 * A) n - (2 * P + A) = 0 := by omega
    rw [z]; simp; congr 1; omega

theorem leavesBelow_right_nil {n h pos : Nat} (hr : ¬ 2 * pos + 1 < treeWidth n h) :
    leavesBelow n h (2 * pos + 1) = [] := by
  rw [lt_treeWidth] at hr
  simp only [leavesBelow, Nat.shiftLeft_eq, List.range'_eq_nil_iff]
  omega

theorem leavesBelow_root {n : Nat} (hn : 0 < n) : leavesBelow n (height n) 0 = List.range n := by
  have h1 := treeWidth_height hn
  have h2 : ¬ 1 < treeWidth n (height n) := by omega
  rw [lt_treeWidth] at h2
  simp only [leavesBelow, Nat.shiftLeft_eq, List.range_eq_range', Nat.zero_mul, Nat.zero_add, Nat.one_mul, Nat.sub_zero] at h2 ⊢
  congr 1; omega


/-! ### the verifier on the spec builder's output -/

section accept
variable (H : Bytes → Bytes) (leaf : Nat → Bytes) (mtch : Nat → Bool) (n : Nat)

/-- matched txids below a node, in block order -/
def matchedBelow (h pos : Nat) : List Bytes := ((leavesBelow n h pos).filter mtch).map leaf

/-- no node has two equal children (honest blocks: distinct txids, no hash collision) -/
def NoEqualSiblings : Prop :=
  ∀ h pos, 2 * pos + 1 < treeWidth n h → calcHash H leaf n h (2 * pos) ≠ calcHash H leaf n h (2 * pos + 1)

theorem pop_reverse_cons (x : Bytes) (rest : List Bytes) : pop ((x :: rest).reverse) = .ok (x, rest.reverse) := by
  simp [pop]

theorem parentOfMatch_succ (h pos : Nat) : parentOfMatch mtch n (h + 1) pos =
    (parentOfMatch mtch n h (2 * pos) || parentOfMatch mtch n h (2 * pos + 1)) := by
  simp [parentOfMatch, leavesBelow_succ]

theorem matchedBelow_succ (h pos : Nat) : matchedBelow leaf mtch n (h + 1) pos =
    matchedBelow leaf mtch n h (2 * pos) ++ matchedBelow leaf mtch n h (2 * pos + 1) := by
  simp [matchedBelow, leavesBelow_succ]

theorem matchedBelow_nil {h pos : Nat} (hp : parentOfMatch mtch n h pos = false) : matchedBelow leaf mtch n h pos = [] := by
  simp only [parentOfMatch, List.any_eq_false] at hp
  simp only [matchedBelow, List.map_eq_nil_iff, List.filter_eq_nil_iff]
  exact hp

theorem build_bits_pos (h pos : Nat) : 0 < (build H leaf mtch n h pos).1.length := by
  cases h with
  | zero => simp [build]
  | succ h =>
    unfold build
    split
    · dsimp only; split <;> simp
    · simp

theorem recurse_build (hn : 0 < n) (hsib : NoEqualSiblings H leaf n) (flags : Bytes) :
    ∀ h, h ≤ height n → ∀ pos, pos < treeWidth n h → ∀ rest fi acc,
      (∀ j, j < (build H leaf mtch n h pos).1.length →
          flagBit flags (fi + j) = (build H leaf mtch n h pos).1[j]?) →
      recurse H (levelWidths n) flags h (height n - h) pos ((build H leaf mtch n h pos).2 ++ rest).reverse fi acc
        = .ok (calcHash H leaf n h pos, rest.reverse, fi + (build H leaf mtch n h pos).1.length,
            acc ++ matchedBelow leaf mtch n h pos) := by
  intro h
  induction h with
  | zero =>
    intro _ pos hpos rest fi acc hb
    have hp : pos < n := by rwa [treeWidth_zero] at hpos
    have hb0 := hb 0 (by simp [build])
    simp [build, parentOfMatch, leavesBelow_zero hp] at hb0
    unfold recurse
    rw [hb0]
    cases hm : mtch pos <;>
      simp [build, pop, levelWidths_length hn, matchedBelow, leavesBelow_zero hp, hm, calcHash]
  | succ h ih =>
    intro hle pos hpos rest fi acc hb
    have hb0 := hb 0 (build_bits_pos ..)
    have hW : (levelWidths n)[height n - (h + 1) + 1]? = some (treeWidth n h) := by
      have := levelWidths_get hn (k := h) (by omega)
      rwa [show height n - (h + 1) + 1 = height n - h by omega]
    have hlast : ¬ (height n - (h + 1) = (levelWidths n).length - 1) := by
      rw [levelWidths_length hn]; omega
    cases hp : parentOfMatch mtch n (h + 1) pos
    · have hbuild : build H leaf mtch n (h + 1) pos = ([false], [calcHash H leaf n (h + 1) pos]) := by
        simp [build, hp]
      rw [hbuild] at hb0 ⊢
      simp only [Nat.add_zero, List.getElem?_cons_zero] at hb0
      rw [recurse, hb0]
      simp [pop, matchedBelow_nil _ _ _ hp]
    · have hl : 2 * pos < treeWidth n h := by rw [treeWidth_succ] at hpos; omega
      by_cases hr : 2 * pos + 1 < treeWidth n h
      · have hbuild : build H leaf mtch n (h + 1) pos =
            (true :: ((build H leaf mtch n h (2 * pos)).1 ++ (build H leaf mtch n h (2 * pos + 1)).1),
              (build H leaf mtch n h (2 * pos)).2 ++ (build H leaf mtch n h (2 * pos + 1)).2) := by
          simp [build, hp, hr]
        rw [hbuild] at hb hb0 ⊢
        simp only [Nat.add_zero, List.getElem?_cons_zero] at hb0
        rw [recurse, hb0]
        simp only [hlast, if_false]
        have ihl := ih (by omega) (2 * pos) hl ((build H leaf mtch n h (2 * pos + 1)).2 ++ rest) (fi + 1) acc (by
          intro j hj
          have := hb (j + 1) (by simp; omega)
          rw [show fi + 1 + j = fi + (j + 1) by omega, this]
          simp [List.getElem?_append_left hj])
        rw [show height n - (h + 1) + 1 = height n - h by omega, Nat.mul_comm pos 2]
        rw [show height n - (h + 1) + 1 = height n - h by omega] at hW
        rw [List.append_assoc, ihl]
        have ihr := ih (by omega) (2 * pos + 1) hr rest (fi + 1 + (build H leaf mtch n h (2 * pos)).1.length)
          (acc ++ matchedBelow leaf mtch n h (2 * pos)) (by
          intro j hj
          have := hb ((build H leaf mtch n h (2 * pos)).1.length + j + 1) (by simp; omega)
          rw [show fi + 1 + (build H leaf mtch n h (2 * pos)).1.length + j
              = fi + ((build H leaf mtch n h (2 * pos)).1.length + j + 1) by omega, this]
          simp only [List.getElem?_cons_succ]
          rw [List.getElem?_append_right (by omega)]
          simp)
        simp only [hW, hr, if_true, ihr, hsib h pos hr, if_false]
        simp [calcHash, hr, matchedBelow_succ, Nat.add_assoc, Nat.add_comm 1]
      · have hbuild : build H leaf mtch n (h + 1) pos =
            (true :: (build H leaf mtch n h (2 * pos)).1, (build H leaf mtch n h (2 * pos)).2) := by
          simp [build, hp, hr]
        rw [hbuild] at hb hb0 ⊢
        simp only [Nat.add_zero, List.getElem?_cons_zero] at hb0
        rw [recurse, hb0]
        simp only [hlast, if_false]
        have ihl := ih (by omega) (2 * pos) hl rest (fi + 1) acc (by
          intro j hj
          have := hb (j + 1) (by simp; omega)
          rw [show fi + 1 + j = fi + (j + 1) by omega, this]
          simp)
        rw [show height n - (h + 1) + 1 = height n - h by omega] at hW
        rw [show height n - (h + 1) + 1 = height n - h by omega, Nat.mul_comm pos 2, ihl]
        simp only [hW, hr, if_false]
        simp [calcHash, hr, matchedBelow, leavesBelow_succ, leavesBelow_right_nil hr, Nat.add_assoc, Nat.add_comm 1]
end accept

/-! ### flag bits -/

theorem and_two_pow_ne_zero (x k : Nat) : (x &&& 2 ^ k != 0) = x.testBit k := by
  cases h : x.testBit k
  · have : x &&& 2 ^ k = 0 := by
      apply Nat.eq_of_testBit_eq; intro i
      simp only [Nat.testBit_and, Nat.testBit_two_pow, Nat.zero_testBit, Bool.and_eq_false_iff, decide_eq_false_iff_not]
      by_cases hk : k = i
      · subst hk; left; exact h
      · right; exact hk
    simp [this]
  · have : x &&& 2 ^ k = 2 ^ k := by
      apply Nat.eq_of_testBit_eq; intro i
      simp only [Nat.testBit_and, Nat.testBit_two_pow]
      by_cases hk : k = i
      · subst hk; simp [h]
      · simp [hk]
    simp [this]

theorem flagBit_eq (flags : Bytes) (j : Nat) :
    flagBit flags j = (flags[j / 8]?).map (fun b => b.toNat.testBit (j % 8)) := by
  unfold flagBit
  cases flags[j / 8]? <;> simp [Nat.one_shiftLeft, and_two_pow_ne_zero]

theorem byteOfBits_lt (b0 b1 b2 b3 b4 b5 b6 b7 : Bool) : byteOfBits b0 b1 b2 b3 b4 b5 b6 b7 < 256 := by
  cases b0 <;> cases b1 <;> cases b2 <;> cases b3 <;> cases b4 <;> cases b5 <;> cases b6 <;> cases b7 <;> decide

theorem byteOfBits_testBit : ∀ (b0 b1 b2 b3 b4 b5 b6 b7 : Bool) (k : Fin 8),
    (byteOfBits b0 b1 b2 b3 b4 b5 b6 b7).testBit k.val = [b0, b1, b2, b3, b4, b5, b6, b7][k.val]?.getD false := by
  decide


theorem flagByte_testBit (bits : List Bool) (i k : Nat) (hk : k < 8) :
    (flagByte bits i).toNat.testBit k = bitAt bits (8 * i + k) := by
  unfold flagByte
  rw [UInt8.toNat_ofNat', Nat.mod_eq_of_lt (byteOfBits_lt ..)]
  have := byteOfBits_testBit (bitAt bits (8 * i)) (bitAt bits (8 * i + 1)) (bitAt bits (8 * i + 2)) (bitAt bits (8 * i + 3))
    (bitAt bits (8 * i + 4)) (bitAt bits (8 * i + 5)) (bitAt bits (8 * i + 6)) (bitAt bits (8 * i + 7)) ⟨k, hk⟩
  rw [this]
  match k, hk with
  | 0, _ | 1, _ | 2, _ | 3, _ | 4, _ | 5, _ | 6, _ | 7, _ => simp

@[simp] theorem packBits_length (bits : List Bool) : (packBits bits).length = (bits.length + 7) / 8 := by
  simp [packBits]

theorem packBits_get (bits : List Bool) {i : Nat} (hi : i < (bits.length + 7) / 8) :
    (packBits bits)[i]? = some (flagByte bits i) := by
  simp [packBits, hi]

theorem flagBit_packBits (bits : List Bool) {j : Nat} (hj : j < bits.length) :
    flagBit (packBits bits) j = bits[j]? := by
  rw [flagBit_eq, packBits_get bits (by omega)]
  simp only [Option.map_some, flagByte_testBit bits (j / 8) (j % 8) (by omega)]
  rw [show 8 * (j / 8) + j % 8 = j by omega]
  simp [bitAt, hj]

/-- the last flag byte of an honest proof has no bit above the last consumed one -/
theorem flagByte_last_le (bits : List Bool) (hL : 0 < bits.length) :
    (flagByte bits ((bits.length - 1) / 8)).toNat ≤ (1 <<< ((bits.length - 1) % 8 + 1)) - 1 := by
  rw [Nat.one_shiftLeft]
  have : (flagByte bits ((bits.length - 1) / 8)).toNat < 2 ^ ((bits.length - 1) % 8 + 1) := by
    apply Nat.lt_pow_two_of_testBit
    intro k hk
    by_cases hk8 : k < 8
    · rw [flagByte_testBit _ _ _ hk8]
      simp only [bitAt]
      rw [List.getElem?_eq_none (by omega)]
      rfl
    · apply Nat.testBit_lt_two_pow
      have h1 : (flagByte bits ((bits.length - 1) / 8)).toNat < 2 ^ 8 := (flagByte bits _).toNat_lt
      have h2 : 2 ^ 8 ≤ 2 ^ k := Nat.pow_le_pow_right (by decide) (by omega)
      omega
  omega


section top
variable (H : Bytes → Bytes) (leaf : Nat → Bytes) (mtch : Nat → Bool) (n : Nat)

theorem matchedBelow_root (hn : 0 < n) : matchedBelow leaf mtch n (height n) 0 = matched leaf mtch n := by
  simp [matchedBelow, matched, leavesBelow_root hn]

/-- the verifier on the honest hashes and *any* flag bytes whose first bits are the honest ones:
only the two padding checks and the root comparison remain -/
theorem verify_honest_bits (hn : 0 < n) (hsib : NoEqualSiblings H leaf n) (flags root' : Bytes)
    (hbits : ∀ j, j < (build H leaf mtch n (height n) 0).1.length →
      flagBit flags j = (build H leaf mtch n (height n) 0).1[j]?) :
    verify H n (build H leaf mtch n (height n) 0).2 flags root' =
      (let L := (build H leaf mtch n (height n) 0).1.length
       if (L - 1) / 8 = flags.length - 1 then
        match flags[(L - 1) / 8]? with
        | none => .error .indexError
        | some b =>
          if (1 <<< ((L - 1) % 8 + 1)) - 1 < b.toNat then .error .unconsumedBits
          else if root H leaf n = root' then .ok (matched leaf mtch n)
          else .error .rootMismatch
       else .error .notEnoughFlags) := by
  have hrec := recurse_build H leaf mtch n hn hsib flags (height n) (Nat.le_refl _) 0
    (by rw [treeWidth_height hn]; omega) [] 0 [] (by simpa using hbits)
  simp only [Nat.sub_self, List.append_nil, List.reverse_nil, Nat.zero_add, List.nil_append] at hrec
  unfold verify
  simp only [levelWidths_length hn, Nat.add_sub_cancel, hrec, matchedBelow_root leaf mtch n hn]
  simp only [root, gt_iff_lt, List.length_nil, Nat.lt_irrefl, if_false, ne_eq, ite_not]
  rfl

end top
/-! ### arbitrary runs of `_recurse`: consumption is determined by the flags; equal results come from equal hashes or a collision -/

/-- how many hashes and flag bits `_recurse` consumes: a function of the flags and the tree geometry only -/
def shape (widths : List Nat) (flags : Bytes) : Nat → Nat → Nat → Nat → Option (Nat × Nat)
  | fuel, levelIndex, nodeIndex, flagIndex =>
    match flagBit flags flagIndex with
    | none => none
    | some false => some (1, flagIndex + 1)
    | some true =>
      if levelIndex = widths.length - 1 then some (1, flagIndex + 1)
      else
        match fuel with
        | 0 => none
        | fuel + 1 =>
          match shape widths flags fuel (levelIndex + 1) (nodeIndex * 2) (flagIndex + 1) with
          | none => none
          | some (k1, f1) =>
            match widths[levelIndex + 1]? with
            | none => none
            | some w =>
              if nodeIndex * 2 + 1 < w then
                match shape widths flags fuel (levelIndex + 1) (nodeIndex * 2 + 1) f1 with
                | none => none
                | some (k2, f2) => some (k1 + k2, f2)
              else some (k1, f1)

theorem pop_ok {stk s : List Bytes} {h : Bytes} (hp : pop stk = .ok (h, s)) : stk = s ++ [h] := by
  unfold pop at hp
  split at hp
  · cases hp
  · rename_i x hx
    injection hp with hp
    injection hp with h1 h2
    subst h1 h2
    obtain ⟨ys, hys⟩ := List.getLast?_eq_some_iff.mp hx
    subst hys
    simp

variable (H : Bytes → Bytes) (W : List Nat) (flags : Bytes)

theorem recurse_ok_inv : ∀ fuel li ni stk fi acc h s f a,
    recurse H W flags fuel li ni stk fi acc = .ok (h, s, f, a) →
    ∃ seg, stk = s ++ seg ∧ shape W flags fuel li ni fi = some (seg.length, f) := by
  intro fuel
  induction fuel with
  | zero =>
    intro li ni stk fi acc h s f a hr
    rw [recurse] at hr
    rw [shape]
    split at hr
    · cases hr
    · split at hr
      · cases hr
      · rename_i heq
        injection hr with hr; injection hr with e1 hr; injection hr with e2 hr; injection hr with e3 e4
        subst e1 e2 e3 e4
        exact ⟨[_], pop_ok heq, by simp [*]⟩
    · split at hr
      · split at hr
        · cases hr
        · rename_i heq
          injection hr with hr; injection hr with e1 hr; injection hr with e2 hr; injection hr with e3 e4
          subst e1 e2 e3 e4
          exact ⟨[_], pop_ok heq, by simp [*]⟩
      · cases hr
  | succ fuel ih =>
    intro li ni stk fi acc h s f a hr
    rw [recurse] at hr
    rw [shape]
    split at hr
    · cases hr
    · split at hr
      · cases hr
      · rename_i heq
        injection hr with hr; injection hr with e1 hr; injection hr with e2 hr; injection hr with e3 e4
        subst e1 e2 e3 e4
        exact ⟨[_], pop_ok heq, by simp [*]⟩
    · split at hr
      · split at hr
        · cases hr
        · rename_i heq
          injection hr with hr; injection hr with e1 hr; injection hr with e2 hr; injection hr with e3 e4
          subst e1 e2 e3 e4
          exact ⟨[_], pop_ok heq, by simp [*]⟩
      · rename_i hbit hlast
        simp only [hbit, hlast, if_false]
        split at hr
        · cases hr
        · rename_i left s1 f1 a1 hleft
          obtain ⟨seg1, hs1, hsh1⟩ := ih _ _ _ _ _ _ _ _ _ hleft
          simp only [hsh1]
          split at hr
          · cases hr
          · rename_i w hw
            split at hr
            · rename_i hlt
              split at hr
              · cases hr
              · rename_i right s2 f2 a2 hright
                obtain ⟨seg2, hs2, hsh2⟩ := ih _ _ _ _ _ _ _ _ _ hright
                split at hr
                · cases hr
                · injection hr with hr; injection hr with e1 hr; injection hr with e2 hr; injection hr with e3 e4
                  subst e1 e2 e3 e4
                  refine ⟨seg2 ++ seg1, by rw [hs1, hs2, List.append_assoc], ?_⟩
                  simp only [hw, hlt, if_true, hsh2, List.length_append]
                  rw [Nat.add_comm]
            · rename_i hlt
              injection hr with hr; injection hr with e1 hr; injection hr with e2 hr; injection hr with e3 e4
              subst e1 e2 e3 e4
              exact ⟨seg1, hs1, by simp only [hw, hlt, if_false]⟩


theorem verify_ok_inv {n : Nat} {hs : List Bytes} {root : Bytes} {r : List Bytes}
    (hv : verify H n hs flags root = .ok r) :
    ∃ f, recurse H (levelWidths n) flags ((levelWidths n).length - 1) 0 0 hs.reverse 0 [] = .ok (root, [], f, r) := by
  unfold verify at hv
  dsimp only at hv
  split at hv
  · cases hv
  · rename_i h rest f a hrec
    split at hv
    · cases hv
    · rename_i hrest
      split at hv
      · cases hv
      · split at hv
        · cases hv
        · split at hv
          · cases hv
          · split at hv
            · cases hv
            · rename_i hroot
              injection hv with hv
              subst hv
              have : rest = [] := by
                cases rest with
                | nil => rfl
                | cons x xs => simp at hrest
              subst this
              have : h = root := Classical.not_not.mp hroot
              subst this
              exact ⟨f, hrec⟩

/-- two accepted proofs for the same transaction count and flag bytes carry the same number of hashes -/
theorem verify_count {n : Nat} {hs hs' : List Bytes} {root root' : Bytes} {r r' : List Bytes}
    (hv : verify H n hs flags root = .ok r) (hv' : verify H n hs' flags root' = .ok r') : hs.length = hs'.length := by
  obtain ⟨f, h1⟩ := verify_ok_inv H flags hv
  obtain ⟨f', h2⟩ := verify_ok_inv H flags hv'
  obtain ⟨seg, e1, s1⟩ := recurse_ok_inv H _ flags _ _ _ _ _ _ _ _ _ _ h1
  obtain ⟨seg', e2, s2⟩ := recurse_ok_inv H _ flags _ _ _ _ _ _ _ _ _ _ h2
  rw [s1] at s2
  injection s2 with s2
  injection s2 with s2 _
  have l1 := congrArg List.length e1
  have l2 := congrArg List.length e2
  simp at l1 l2
  omega


/-- an explicit collision of the node hash on two 64-byte inputs -/
def Collision : Prop := ∃ x y : Bytes, x.length = 64 ∧ y.length = 64 ∧ x ≠ y ∧ H x = H y

theorem append_inj32 {a b c d : Bytes} (ha : a.length = 32) (hc : c.length = 32) (h : a ++ b = c ++ d) : a = c ∧ b = d :=
  List.append_inj h (by omega)

theorem pop_two {stk1 stk2 s1 s2 : List Bytes} {h1 h2 : Bytes}
    (m1 : ∀ x ∈ stk1, x.length = 32) (m2 : ∀ x ∈ stk2, x.length = 32)
    (p1 : pop stk1 = .ok (h1, s1)) (p2 : pop stk2 = .ok (h2, s2)) :
    ∃ seg1 seg2, stk1 = s1 ++ seg1 ∧ stk2 = s2 ++ seg2 ∧ h1.length = 32 ∧ h2.length = 32 ∧
      (h1 = h2 → seg1 = seg2 ∨ Collision H) := by
  have e1 := pop_ok p1
  have e2 := pop_ok p2
  refine ⟨[h1], [h2], e1, e2, m1 h1 (by simp [e1]), m2 h2 (by simp [e2]), ?_⟩
  intro h; left; rw [h]

theorem recurse_two (hlen : ∀ x, (H x).length = 32) : ∀ fuel li ni fi stk1 stk2 acc1 acc2 h1 h2 s1 s2 f1 f2 a1 a2,
    (∀ x ∈ stk1, x.length = 32) → (∀ x ∈ stk2, x.length = 32) →
    recurse H W flags fuel li ni stk1 fi acc1 = .ok (h1, s1, f1, a1) →
    recurse H W flags fuel li ni stk2 fi acc2 = .ok (h2, s2, f2, a2) →
    ∃ seg1 seg2, stk1 = s1 ++ seg1 ∧ stk2 = s2 ++ seg2 ∧ f1 = f2 ∧ h1.length = 32 ∧ h2.length = 32 ∧
      (h1 = h2 → seg1 = seg2 ∨ Collision H) := by
  intro fuel
  induction fuel with
  | zero =>
    intro li ni fi stk1 stk2 acc1 acc2 h1 h2 s1 s2 f1 f2 a1 a2 m1 m2 hr1 hr2
    rw [recurse] at hr1 hr2
    cases hbit : flagBit flags fi with
    | none => simp [hbit] at hr1
    | some b =>
      simp only [hbit] at hr1 hr2
      cases b with
      | false =>
        dsimp only at hr1 hr2
        split at hr1
        · cases hr1
        · rename_i p1
          split at hr2
          · cases hr2
          · rename_i p2
            injection hr1 with hr1; injection hr1 with e1 hr1; injection hr1 with e2 hr1; injection hr1 with e3 e4
            injection hr2 with hr2; injection hr2 with e1' hr2; injection hr2 with e2' hr2; injection hr2 with e3' e4'
            subst e1 e2 e3 e4 e1' e2' e3' e4'
            obtain ⟨g1, g2, q1, q2, q3, q4, q5⟩ := pop_two H m1 m2 p1 p2
            exact ⟨g1, g2, q1, q2, rfl, q3, q4, q5⟩
      | true =>
        dsimp only at hr1 hr2
        by_cases hl : li = W.length - 1
        · rw [if_pos hl] at hr1 hr2
          split at hr1
          · cases hr1
          · rename_i p1
            split at hr2
            · cases hr2
            · rename_i p2
              injection hr1 with hr1; injection hr1 with e1 hr1; injection hr1 with e2 hr1; injection hr1 with e3 e4
              injection hr2 with hr2; injection hr2 with e1' hr2; injection hr2 with e2' hr2; injection hr2 with e3' e4'
              subst e1 e2 e3 e4 e1' e2' e3' e4'
              obtain ⟨g1, g2, q1, q2, q3, q4, q5⟩ := pop_two H m1 m2 p1 p2
              exact ⟨g1, g2, q1, q2, rfl, q3, q4, q5⟩
        · rw [if_neg hl] at hr1
          cases hr1
  | succ fuel ih =>
    intro li ni fi stk1 stk2 acc1 acc2 h1 h2 s1 s2 f1 f2 a1 a2 m1 m2 hr1 hr2
    rw [recurse] at hr1 hr2
    cases hbit : flagBit flags fi with
    | none => simp [hbit] at hr1
    | some b =>
      simp only [hbit] at hr1 hr2
      cases b with
      | false =>
        dsimp only at hr1 hr2
        split at hr1
        · cases hr1
        · rename_i p1
          split at hr2
          · cases hr2
          · rename_i p2
            injection hr1 with hr1; injection hr1 with e1 hr1; injection hr1 with e2 hr1; injection hr1 with e3 e4
            injection hr2 with hr2; injection hr2 with e1' hr2; injection hr2 with e2' hr2; injection hr2 with e3' e4'
            subst e1 e2 e3 e4 e1' e2' e3' e4'
            obtain ⟨g1, g2, q1, q2, q3, q4, q5⟩ := pop_two H m1 m2 p1 p2
            exact ⟨g1, g2, q1, q2, rfl, q3, q4, q5⟩
      | true =>
        dsimp only at hr1 hr2
        by_cases hl : li = W.length - 1
        · rw [if_pos hl] at hr1 hr2
          split at hr1
          · cases hr1
          · rename_i p1
            split at hr2
            · cases hr2
            · rename_i p2
              injection hr1 with hr1; injection hr1 with e1 hr1; injection hr1 with e2 hr1; injection hr1 with e3 e4
              injection hr2 with hr2; injection hr2 with e1' hr2; injection hr2 with e2' hr2; injection hr2 with e3' e4'
              subst e1 e2 e3 e4 e1' e2' e3' e4'
              obtain ⟨g1, g2, q1, q2, q3, q4, q5⟩ := pop_two H m1 m2 p1 p2
              exact ⟨g1, g2, q1, q2, rfl, q3, q4, q5⟩
        · rw [if_neg hl] at hr1 hr2
          split at hr1
          · cases hr1
          · rename_i l1 t1 g1 b1 hL1
            split at hr2
            · cases hr2
            · rename_i l2 t2 g2 b2 hL2
              obtain ⟨sl1, sl2, es1, es2, ef, ll1, ll2, imp⟩ := ih _ _ _ _ _ _ _ _ _ _ _ _ _ _ _ m1 m2 hL1 hL2
              subst ef
              cases hw : W[li + 1]? with
              | none => simp [hw] at hr1
              | some w =>
                simp only [hw] at hr1 hr2
                by_cases hlt : ni * 2 + 1 < w
                · rw [if_pos hlt] at hr1 hr2
                  split at hr1
                  · cases hr1
                  · rename_i r1 u1 k1 c1 hR1
                    split at hr2
                    · cases hr2
                    · rename_i r2 u2 k2 c2 hR2
                      have m1' : ∀ x ∈ t1, x.length = 32 := fun x hx => m1 x (by rw [es1]; simp [hx])
                      have m2' : ∀ x ∈ t2, x.length = 32 := fun x hx => m2 x (by rw [es2]; simp [hx])
                      obtain ⟨sr1, sr2, et1, et2, ef', lr1, lr2, impR⟩ :=
                        ih _ _ _ _ _ _ _ _ _ _ _ _ _ _ _ m1' m2' hR1 hR2
                      split at hr1
                      · cases hr1
                      · split at hr2
                        · cases hr2
                        · injection hr1 with hr1; injection hr1 with e1 hr1; injection hr1 with e2 hr1; injection hr1 with e3 e4
                          injection hr2 with hr2; injection hr2 with e1' hr2; injection hr2 with e2' hr2; injection hr2 with e3' e4'
                          subst e1 e2 e3 e4 e1' e2' e3' e4'
                          refine ⟨sr1 ++ sl1, sr2 ++ sl2, by rw [es1, et1, List.append_assoc],
                            by rw [es2, et2, List.append_assoc], ef', hlen _, hlen _, ?_⟩
                          intro heq
                          by_cases hxy : l1 ++ r1 = l2 ++ r2
                          · obtain ⟨ea, eb⟩ := append_inj32 ll1 ll2 hxy
                            rcases imp ea with h | h
                            · rcases impR eb with h' | h'
                              · left; rw [h, h']
                              · right; exact h'
                            · right; exact h
                          · right
                            exact ⟨l1 ++ r1, l2 ++ r2, by simp [ll1, lr1], by simp [ll2, lr2], hxy, heq⟩
                · rw [if_neg hlt] at hr1 hr2
                  injection hr1 with hr1; injection hr1 with e1 hr1; injection hr1 with e2 hr1; injection hr1 with e3 e4
                  injection hr2 with hr2; injection hr2 with e1' hr2; injection hr2 with e2' hr2; injection hr2 with e3' e4'
                  subst e1 e2 e3 e4 e1' e2' e3' e4'
                  refine ⟨sl1, sl2, es1, es2, rfl, hlen _, hlen _, ?_⟩
                  intro heq
                  by_cases hxy : l1 ++ l1 = l2 ++ l2
                  · obtain ⟨ea, _⟩ := append_inj32 ll1 ll2 hxy
                    exact imp ea
                  · right
                    exact ⟨l1 ++ l1, l2 ++ l2, by simp [ll1], by simp [ll2], hxy, heq⟩

end Pycoin.MerkleBlock
