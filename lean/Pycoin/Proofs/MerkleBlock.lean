import Pycoin.Proofs.Merkle
import Pycoin.Model.MerkleBlock
/-! Lemmas for C14: `level_widths`, leaves below a node, the model verifier run on the BIP37 spec builder output. -/
namespace Pycoin.MerkleBlock
open Pycoin.Spec.Merkle

/-! ### `level_widths` -/

theorem widthsLoop_eq (n : Nat) : ∀ f k acc, treeWidth n k ≤ f + 1 →
    widthsLoop f (treeWidth n k) acc = acc ++ (List.range' k (heightLoop n f k - k)).map (treeWidth n) ∧ k ≤ heightLoop n f k := by
  intro f
  induction f with
  | zero => intro k acc h; simp [widthsLoop, heightLoop]
  | succ f ih =>
    intro k acc h
    unfold widthsLoop heightLoop
    split
    · have h' : treeWidth n (k + 1) ≤ f + 1 := by rw [treeWidth_succ]; omega
      have := ih (k + 1) (acc ++ [treeWidth n k]) h'
      rw [← treeWidth_succ, this.1]
      refine ⟨?_, by omega⟩
      have e : heightLoop n f (k + 1) - k = (heightLoop n f (k + 1) - (k + 1)) + 1 := by omega
      rw [e, List.range'_succ]
      simp
    · simp

theorem levelWidths_eq {n : Nat} (hn : 0 < n) :
    levelWidths n = ((List.range' 0 (height n + 1)).map (treeWidth n)).reverse := by
  have h := (widthsLoop_eq n n 0 [] (by rw [treeWidth_zero]; omega)).1
  rw [treeWidth_zero] at h
  unfold levelWidths
  rw [h]
  rw [List.range'_1_concat, List.map_append]
  have := treeWidth_height hn
  unfold height at this
  simp [height, this]

theorem levelWidths_length {n : Nat} (hn : 0 < n) : (levelWidths n).length = height n + 1 := by
  simp [levelWidths_eq hn]

theorem levelWidths_get {n : Nat} (hn : 0 < n) {k : Nat} (hk : k ≤ height n) :
    (levelWidths n)[height n - k]? = some (treeWidth n k) := by
  rw [levelWidths_eq hn, List.getElem?_reverse (by simp; omega)]
  simp only [List.length_map, List.length_range', List.getElem?_map]
  have e : height n + 1 - 1 - (height n - k) = k := by omega
  rw [e, List.getElem?_range' ]
  simp; omega


/-! ### leaves below a node -/

theorem leavesBelow_zero {n pos : Nat} (h : pos < n) : leavesBelow n 0 pos = [pos] := by
  have : min (pos + 1) n - pos = 1 := by omega
  simp [leavesBelow, this]

theorem leavesBelow_succ (n h pos : Nat) :
    leavesBelow n (h + 1) pos = leavesBelow n h (2 * pos) ++ leavesBelow n h (2 * pos + 1) := by
  simp only [leavesBelow, Nat.shiftLeft_eq, Nat.pow_succ]
  generalize hA : 2 ^ h = A
  have e1 : pos * (A * 2) = 2 * (pos * A) := by rw [Nat.mul_comm A 2, ← Nat.mul_assoc, Nat.mul_comm pos 2, Nat.mul_assoc]
  have e2 : (pos + 1) * (A * 2) = 2 * (pos * A) + 2 * A := by rw [Nat.add_mul, e1]; omega
  have e3 : 2 * pos * A = 2 * (pos * A) := by rw [Nat.mul_assoc]
  have e4 : (2 * pos + 1) * A = 2 * (pos * A) + A := by rw [Nat.add_mul, e3]; omega
  have e5 : (2 * pos + 1 + 1) * A = 2 * (pos * A) + 2 * A := by rw [Nat.add_mul, e4]; omega
  rw [e1, e2, e3, e4, e5]
  generalize pos * A = P
  by_cases hc : 2 * P + A ≤ n
  · have e6 : min (2 * P + A) n - 2 * P = A := by omega
    have e7 : min (2 * P + 2 * A) n - 2 * P = A + (min (2 * P + 2 * A) n - (2 * P + A)) := by omega
    rw [e6, e7, List.range'_append_1]
  · have z : min (2 * P + 2 * A) n - (2 * P + A) = 0 := by omega
    rw [z]; simp; congr 1; omega

theorem leavesBelow_right_nil {n h pos : Nat} (hr : ¬ 2 * pos + 1 < treeWidth n h) :
    leavesBelow n h (2 * pos + 1) = [] := by
  rw [lt_treeWidth] at hr
  simp only [leavesBelow, Nat.shiftLeft_eq, List.range'_eq_nil_iff]
  omega

theorem leavesBelow_root {n : Nat} (hn : 0 < n) : leavesBelow n (height n) 0 = List.range n := by
  have h1 := treeWidth_height hn
  have h2 : ¬ 1 < treeWidth n (height n) := by omega
  rw [lt_treeWidth] at h2
  simp only [leavesBelow, Nat.shiftLeft_eq, List.range_eq_range', Nat.zero_mul, Nat.zero_add, Nat.one_mul, Nat.sub_zero] at h2 ⊢
  congr 1; omega


/-! ### the verifier on the spec builder's output -/

section accept
variable (H : Bytes → Bytes) (leaf : Nat → Bytes) (mtch : Nat → Bool) (n : Nat)

/-- matched txids below a node, in block order -/
def matchedBelow (h pos : Nat) : List Bytes := ((leavesBelow n h pos).filter mtch).map leaf

/-- no node has two equal children (honest blocks: distinct txids, no hash collision) -/
def NoEqualSiblings : Prop :=
  ∀ h pos, 2 * pos + 1 < treeWidth n h → calcHash H leaf n h (2 * pos) ≠ calcHash H leaf n h (2 * pos + 1)

theorem pop_reverse_cons (x : Bytes) (rest : List Bytes) : pop ((x :: rest).reverse) = .ok (x, rest.reverse) := by
  simp [pop]

theorem parentOfMatch_succ (h pos : Nat) : parentOfMatch mtch n (h + 1) pos =
    (parentOfMatch mtch n h (2 * pos) || parentOfMatch mtch n h (2 * pos + 1)) := by
  simp [parentOfMatch, leavesBelow_succ]

theorem matchedBelow_succ (h pos : Nat) : matchedBelow leaf mtch n (h + 1) pos =
    matchedBelow leaf mtch n h (2 * pos) ++ matchedBelow leaf mtch n h (2 * pos + 1) := by
  simp [matchedBelow, leavesBelow_succ]

theorem matchedBelow_nil {h pos : Nat} (hp : parentOfMatch mtch n h pos = false) : matchedBelow leaf mtch n h pos = [] := by
  simp only [parentOfMatch, List.any_eq_false] at hp
  simp only [matchedBelow, List.map_eq_nil_iff, List.filter_eq_nil_iff]
  exact hp

theorem build_bits_pos (h pos : Nat) : 0 < (build H leaf mtch n h pos).1.length := by
  cases h with
  | zero => simp [build]
  | succ h =>
    unfold build
    split
    · dsimp only; split <;> simp
    · simp

theorem recurse_build (hn : 0 < n) (hsib : NoEqualSiblings H leaf n) (flags : Bytes) :
    ∀ h, h ≤ height n → ∀ pos, pos < treeWidth n h → ∀ rest fi acc,
      (∀ j, j < (build H leaf mtch n h pos).1.length →
          flagBit flags (fi + j) = (build H leaf mtch n h pos).1[j]?) →
      recurse H (levelWidths n) flags h (height n - h) pos ((build H leaf mtch n h pos).2 ++ rest).reverse fi acc
        = .ok (calcHash H leaf n h pos, rest.reverse, fi + (build H leaf mtch n h pos).1.length,
            acc ++ matchedBelow leaf mtch n h pos) := by
  intro h
  induction h with
  | zero =>
    intro _ pos hpos rest fi acc hb
    have hp : pos < n := by rwa [treeWidth_zero] at hpos
    have hb0 := hb 0 (by simp [build])
    simp [build, parentOfMatch, leavesBelow_zero hp] at hb0
    unfold recurse
    rw [hb0]
    cases hm : mtch pos <;>
      simp [build, pop, levelWidths_length hn, matchedBelow, leavesBelow_zero hp, hm, calcHash]
  | succ h ih =>
    intro hle pos hpos rest fi acc hb
    have hb0 := hb 0 (build_bits_pos ..)
    have hW : (levelWidths n)[height n - (h + 1) + 1]? = some (treeWidth n h) := by
      have := levelWidths_get hn (k := h) (by omega)
      rwa [show height n - (h + 1) + 1 = height n - h by omega]
    have hlast : ¬ (height n - (h + 1) = (levelWidths n).length - 1) := by
      rw [levelWidths_length hn]; omega
    cases hp : parentOfMatch mtch n (h + 1) pos
    · have hbuild : build H leaf mtch n (h + 1) pos = ([false], [calcHash H leaf n (h + 1) pos]) := by
        simp [build, hp]
      rw [hbuild] at hb0 ⊢
      simp only [Nat.add_zero, List.getElem?_cons_zero] at hb0
      rw [recurse, hb0]
      simp [pop, matchedBelow_nil _ _ _ hp]
    · have hl : 2 * pos < treeWidth n h := by rw [treeWidth_succ] at hpos; omega
      by_cases hr : 2 * pos + 1 < treeWidth n h
      · have hbuild : build H leaf mtch n (h + 1) pos =
            (true :: ((build H leaf mtch n h (2 * pos)).1 ++ (build H leaf mtch n h (2 * pos + 1)).1),
              (build H leaf mtch n h (2 * pos)).2 ++ (build H leaf mtch n h (2 * pos + 1)).2) := by
          simp [build, hp, hr]
        rw [hbuild] at hb hb0 ⊢
        simp only [Nat.add_zero, List.getElem?_cons_zero] at hb0
        rw [recurse, hb0]
        simp only [hlast, if_false]
        have ihl := ih (by omega) (2 * pos) hl ((build H leaf mtch n h (2 * pos + 1)).2 ++ rest) (fi + 1) acc (by
          intro j hj
          have := hb (j + 1) (by simp; omega)
          rw [show fi + 1 + j = fi + (j + 1) by omega, this]
          simp [List.getElem?_append_left hj])
        rw [show height n - (h + 1) + 1 = height n - h by omega, Nat.mul_comm pos 2]
        rw [show height n - (h + 1) + 1 = height n - h by omega] at hW
        rw [List.append_assoc, ihl]
        have ihr := ih (by omega) (2 * pos + 1) hr rest (fi + 1 + (build H leaf mtch n h (2 * pos)).1.length)
          (acc ++ matchedBelow leaf mtch n h (2 * pos)) (by
          intro j hj
          have := hb ((build H leaf mtch n h (2 * pos)).1.length + j + 1) (by simp; omega)
          rw [show fi + 1 + (build H leaf mtch n h (2 * pos)).1.length + j
              = fi + ((build H leaf mtch n h (2 * pos)).1.length + j + 1) by omega, this]
          simp only [List.getElem?_cons_succ]
          rw [List.getElem?_append_right (by omega)]
          simp)
        simp only [hW, hr, if_true, ihr, hsib h pos hr, if_false]
        simp [calcHash, hr, matchedBelow_succ, Nat.add_assoc, Nat.add_comm 1]
      · have hbuild : build H leaf mtch n (h + 1) pos =
            (true :: (build H leaf mtch n h (2 * pos)).1, (build H leaf mtch n h (2 * pos)).2) := by
          simp [build, hp, hr]
        rw [hbuild] at hb hb0 ⊢
        simp only [Nat.add_zero, List.getElem?_cons_zero] at hb0
        rw [recurse, hb0]
        simp only [hlast, if_false]
        have ihl := ih (by omega) (2 * pos) hl rest (fi + 1) acc (by
          intro j hj
          have := hb (j + 1) (by simp; omega)
          rw [show fi + 1 + j = fi + (j + 1) by omega, this]
          simp)
        rw [show height n - (h + 1) + 1 = height n - h by omega] at hW
        rw [show height n - (h + 1) + 1 = height n - h by omega, Nat.mul_comm pos 2, ihl]
        simp only [hW, hr, if_false]
        simp [calcHash, hr, matchedBelow, leavesBelow_succ, leavesBelow_right_nil hr, Nat.add_assoc, Nat.add_comm 1]
end accept

/-! ### flag bits -/

theorem and_two_pow_ne_zero (x k : Nat) : (x &&& 2 ^ k != 0) = x.testBit k := by
  cases h : x.testBit k
  · have : x &&& 2 ^ k = 0 := by
      apply Nat.eq_of_testBit_eq; intro i
      simp only [Nat.testBit_and, Nat.testBit_two_pow, Nat.zero_testBit, Bool.and_eq_false_iff, decide_eq_false_iff_not]
      by_cases hk : k = i
      · subst hk; left; exact h
      · right; exact hk
    simp [this]
  · have : x &&& 2 ^ k = 2 ^ k := by
      apply Nat.eq_of_testBit_eq; intro i
      simp only [Nat.testBit_and, Nat.testBit_two_pow]
      by_cases hk : k = i
      · subst hk; simp [h]
      · simp [hk]
    simp [this]

theorem flagBit_eq (flags : Bytes) (j : Nat) :
    flagBit flags j = (flags[j / 8]?).map (fun b => b.toNat.testBit (j % 8)) := by
  unfold flagBit
  cases flags[j / 8]? <;> simp [Nat.one_shiftLeft, and_two_pow_ne_zero]

theorem byteOfBits_lt (b0 b1 b2 b3 b4 b5 b6 b7 : Bool) : byteOfBits b0 b1 b2 b3 b4 b5 b6 b7 < 256 := by
  cases b0 <;> cases b1 <;> cases b2 <;> cases b3 <;> cases b4 <;> cases b5 <;> cases b6 <;> cases b7 <;> decide

theorem byteOfBits_testBit : ∀ (b0 b1 b2 b3 b4 b5 b6 b7 : Bool) (k : Fin 8),
    (byteOfBits b0 b1 b2 b3 b4 b5 b6 b7).testBit k.val = [b0, b1, b2, b3, b4, b5, b6, b7][k.val]?.getD false := by
  decide


theorem flagByte_testBit (bits : List Bool) (i k : Nat) (hk : k < 8) :
    (flagByte bits i).toNat.testBit k = bitAt bits (8 * i + k) := by
  unfold flagByte
  rw [UInt8.toNat_ofNat', Nat.mod_eq_of_lt (byteOfBits_lt ..)]
  have := byteOfBits_testBit (bitAt bits (8 * i)) (bitAt bits (8 * i + 1)) (bitAt bits (8 * i + 2)) (bitAt bits (8 * i + 3))
    (bitAt bits (8 * i + 4)) (bitAt bits (8 * i + 5)) (bitAt bits (8 * i + 6)) (bitAt bits (8 * i + 7)) ⟨k, hk⟩
  rw [this]
  match k, hk with
  | 0, _ | 1, _ | 2, _ | 3, _ | 4, _ | 5, _ | 6, _ | 7, _ => simp

@[simp] theorem packBits_length (bits : List Bool) : (packBits bits).length = (bits.length + 7) / 8 := by
  simp [packBits]

theorem packBits_get (bits : List Bool) {i : Nat} (hi : i < (bits.length + 7) / 8) :
    (packBits bits)[i]? = some (flagByte bits i) := by
  simp [packBits, hi]

theorem flagBit_packBits (bits : List Bool) {j : Nat} (hj : j < bits.length) :
    flagBit (packBits bits) j = bits[j]? := by
  rw [flagBit_eq, packBits_get bits (by omega)]
  simp only [Option.map_some, flagByte_testBit bits (j / 8) (j % 8) (by omega)]
  rw [show 8 * (j / 8) + j % 8 = j by omega]
  simp [bitAt, hj]

/-- the last flag byte of an honest proof has no bit above the last consumed one -/
theorem flagByte_last_le (bits : List Bool) (hL : 0 < bits.length) :
    (flagByte bits ((bits.length - 1) / 8)).toNat ≤ (1 <<< ((bits.length - 1) % 8 + 1)) - 1 := by
  rw [Nat.one_shiftLeft]
  have : (flagByte bits ((bits.length - 1) / 8)).toNat < 2 ^ ((bits.length - 1) % 8 + 1) := by
    apply Nat.lt_pow_two_of_testBit
    intro k hk
    by_cases hk8 : k < 8
    · rw [flagByte_testBit _ _ _ hk8]
      simp only [bitAt]
      rw [List.getElem?_eq_none (by omega)]
      rfl
    · apply Nat.testBit_lt_two_pow
      have h1 : (flagByte bits ((bits.length - 1) / 8)).toNat < 2 ^ 8 := (flagByte bits _).toNat_lt
      have h2 : 2 ^ 8 ≤ 2 ^ k := Nat.pow_le_pow_right (by decide) (by omega)
      omega
  omega


section top
variable (H : Bytes → Bytes) (leaf : Nat → Bytes) (mtch : Nat → Bool) (n : Nat)

theorem matchedBelow_root (hn : 0 < n) : matchedBelow leaf mtch n (height n) 0 = matched leaf mtch n := by
  simp [matchedBelow, matched, leavesBelow_root hn]

/-- the verifier on the honest hashes and *any* flag bytes whose first bits are the honest ones:
only the two padding checks and the root comparison remain -/
theorem verify_honest_bits (hn : 0 < n) (hsib : NoEqualSiblings H leaf n) (flags root' : Bytes)
    (hbits : ∀ j, j < (build H leaf mtch n (height n) 0).1.length →
      flagBit flags j = (build H leaf mtch n (height n) 0).1[j]?) :
    verify H n (build H leaf mtch n (height n) 0).2 flags root' =
      (let L := (build H leaf mtch n (height n) 0).1.length
       if (L - 1) / 8 = flags.length - 1 then
        match flags[(L - 1) / 8]? with
        | none => .error .indexError
        | some b =>
          if (1 <<< ((L - 1) % 8 + 1)) - 1 < b.toNat then .error .unconsumedBits
          else if root H leaf n = root' then .ok (matched leaf mtch n)
          else .error .rootMismatch
       else .error .notEnoughFlags) := by
  have hrec := recurse_build H leaf mtch n hn hsib flags (height n) (Nat.le_refl _) 0
    (by rw [treeWidth_height hn]; omega) [] 0 [] (by simpa using hbits)
  simp only [Nat.sub_self, List.append_nil, List.reverse_nil, Nat.zero_add, List.nil_append] at hrec
  unfold verify
  simp only [levelWidths_length hn, Nat.add_sub_cancel, hrec, matchedBelow_root leaf mtch n hn]
  simp only [root, gt_iff_lt, List.length_nil, Nat.lt_irrefl, if_false, ne_eq, ite_not]
  rfl

end top
end Pycoin.MerkleBlock
