import Pycoin.Proofs.Bech32Syn
import Pycoin.Proofs.Bech32SynA
import Pycoin.Proofs.Bech32SynB
import Pycoin.Proofs.Bech32SynC
import Pycoin.Proofs.Bech32SynD
/-!
No error word of weight 1..4 spanning at most 89 symbols has syndrome 0 (minimum distance 5 of the Bech32 code at the
BIP173 length limit), from the kernel-checked table (`Bech32SynA..D`) and the two symmetries (`Bech32Syn`).
Core Lean only.
-/
namespace Pycoin.Bech32
open Pycoin.Gen.Bech32Syn

/-- the four chunks cover every lower position 1..88 -/
theorem synChecked : SynChecked := by
  intro k l d hk hkl hl hd1 hd
  by_cases h1 : k < 13
  · exact chunk_sound 1 12 synChunkA k l d hk (by omega) hkl hl hd1 hd
  · by_cases h2 : k < 27
    · exact chunk_sound 13 14 synChunkB k l d (by omega) (by omega) hkl hl hd1 hd
    · by_cases h3 : k < 46
      · exact chunk_sound 27 19 synChunkC k l d (by omega) (by omega) hkl hl hd1 hd
      · exact chunk_sound 46 43 synChunkD k l d (by omega) (by omega) hkl hl hd1 hd

/-- two single-error syndromes at non-zero positions `k < l < 89` xor any third single-error syndrome: never below 32 -/
theorem core (k l c d j v : Nat) (hk : 1 ≤ k) (hkl : k < l) (hl : l < 89)
    (hc1 : 1 ≤ c) (hc : c < 32) (hd1 : 1 ≤ d) (hd : d < 32) (hj : j < 89) (hv : v < 32) :
    ¬ (single k c ^^^ single l d ^^^ single j v < 32) :=
  core_of_checked synChecked k l c d j v hk hkl hl hc1 hc hd1 hd hj hv

/-- position shift: `single (m + j0) v` is `single m v` after `j0` more rounds -/
theorem single_shift (j j0 v : Nat) (h : j0 ≤ j) : single j v = shiftZ j0 (single (j - j0) v) := by
  rw [shiftZ_single]
  congr 1
  omega

/-- **three errors**: positions `j0 < j1 < j2 < 89`, non-zero symbols -/
theorem no3 (j0 j1 j2 v0 v1 v2 : Nat) (h01 : j0 < j1) (h12 : j1 < j2) (h2 : j2 < 89)
    (a0 : 1 ≤ v0) (b0 : v0 < 32) (a1 : 1 ≤ v1) (b1 : v1 < 32) (a2 : 1 ≤ v2) (b2 : v2 < 32) :
    single j2 v2 ^^^ (single j1 v1 ^^^ single j0 v0) ≠ 0 := by
  intro h
  rw [single_shift j2 j0 v2 (by omega), single_shift j1 j0 v1 (by omega), single_shift j0 j0 v0 (by omega),
    ← shiftZ_xor, ← shiftZ_xor, Nat.sub_self, single_zero v0 b0] at h
  have hlt : single (j2 - j0) v2 ^^^ (single (j1 - j0) v1 ^^^ v0) < 2 ^ 30 :=
    Nat.xor_lt_two_pow (single_lt _ _ b2) (Nat.xor_lt_two_pow (single_lt _ _ b1) (by omega))
  have h0 := shiftZ_eq_zero j0 hlt h
  apply core (j1 - j0) (j2 - j0) v1 v2 0 0 (by omega) (by omega) (by omega) a1 b1 a2 b2 (by omega) (by omega)
  rw [single_val_zero, Nat.xor_zero]
  have : single (j1 - j0) v1 ^^^ single (j2 - j0) v2 = v0 := by
    apply xor_eq_zero
    rw [← h0]
    ac_rfl
  omega

/-- **four errors**: positions `j0 < j1 < j2 < j3 < 89`, non-zero symbols -/
theorem no4 (j0 j1 j2 j3 v0 v1 v2 v3 : Nat) (h01 : j0 < j1) (h12 : j1 < j2) (h23 : j2 < j3) (h3 : j3 < 89)
    (a0 : 1 ≤ v0) (b0 : v0 < 32) (_a1 : 1 ≤ v1) (b1 : v1 < 32) (a2 : 1 ≤ v2) (b2 : v2 < 32)
    (a3 : 1 ≤ v3) (b3 : v3 < 32) :
    single j3 v3 ^^^ (single j2 v2 ^^^ (single j1 v1 ^^^ single j0 v0)) ≠ 0 := by
  intro h
  rw [single_shift j3 j0 v3 (by omega), single_shift j2 j0 v2 (by omega), single_shift j1 j0 v1 (by omega),
    single_shift j0 j0 v0 (by omega), ← shiftZ_xor, ← shiftZ_xor, ← shiftZ_xor, Nat.sub_self, single_zero v0 b0] at h
  have hlt : single (j3 - j0) v3 ^^^ (single (j2 - j0) v2 ^^^ (single (j1 - j0) v1 ^^^ v0)) < 2 ^ 30 :=
    Nat.xor_lt_two_pow (single_lt _ _ b3)
      (Nat.xor_lt_two_pow (single_lt _ _ b2) (Nat.xor_lt_two_pow (single_lt _ _ b1) (by omega)))
  have h0 := shiftZ_eq_zero j0 hlt h
  apply core (j2 - j0) (j3 - j0) v2 v3 (j1 - j0) v1 (by omega) (by omega) (by omega) a2 b2 a3 b3 (by omega) b1
  have : single (j2 - j0) v2 ^^^ single (j3 - j0) v3 ^^^ single (j1 - j0) v1 = v0 := by
    apply xor_eq_zero
    rw [← h0]
    ac_rfl
  omega

/-! ### error words as lists of (position, symbol) -/

/-- number of non-zero symbols of an error word -/
def weight (e : List Nat) : Nat := (e.filter (· ≠ 0)).length

/-- the non-zero symbols of an error word with their distance from the end -/
def supp : List Nat → List (Nat × Nat)
  | [] => []
  | v :: rest => if v = 0 then supp rest else (rest.length, v) :: supp rest

def xorSingles : List (Nat × Nat) → Nat
  | [] => 0
  | p :: ps => single p.1 p.2 ^^^ xorSingles ps

/-- first symbol and the rest contribute independently -/
theorem syndrome_cons (v : Nat) (rest : List Nat) :
    syndrome (v :: rest) = single rest.length v ^^^ syndrome rest := by
  have h := foldl_polymodStep_xor (v :: List.replicate rest.length 0) (0 :: rest) (by simp) 0 0
  rw [List.zipWith_cons_cons, zipWith_zeros] at h
  simp only [Nat.xor_zero] at h
  unfold single syndrome
  rw [h, List.foldl_cons (b := 0) (a := 0), polymodStep_zero_zero]

theorem syndrome_eq_supp (e : List Nat) : syndrome e = xorSingles (supp e) := by
  induction e with
  | nil => rfl
  | cons v rest ih =>
    rw [syndrome_cons, supp]
    split
    · rename_i h0
      rw [h0, single_val_zero, Nat.zero_xor, ih]
    · rw [xorSingles, ih]

theorem supp_length (e : List Nat) : (supp e).length = weight e := by
  induction e with
  | nil => rfl
  | cons v rest ih =>
    unfold weight at ih ⊢
    rw [supp]
    by_cases h0 : v = 0
    · simp [h0, ih]
    · simp [h0, ih]

theorem supp_mem (e : List Nat) : ∀ p ∈ supp e, p.1 < e.length ∧ p.2 ≠ 0 ∧ p.2 ∈ e := by
  induction e with
  | nil => intro p hp; cases hp
  | cons v rest ih =>
    intro p hp
    rw [supp] at hp
    split at hp
    · have := ih p hp
      exact ⟨by simp; omega, this.2.1, List.mem_cons_of_mem _ this.2.2⟩
    · rename_i h0
      rcases List.mem_cons.mp hp with rfl | hp
      · exact ⟨by simp, h0, List.mem_cons_self⟩
      · have := ih p hp
        exact ⟨by simp; omega, this.2.1, List.mem_cons_of_mem _ this.2.2⟩

theorem supp_pairwise (e : List Nat) : (supp e).Pairwise (fun p q => q.1 < p.1) := by
  induction e with
  | nil => exact List.Pairwise.nil
  | cons v rest ih =>
    rw [supp]
    split
    · exact ih
    · exact List.Pairwise.cons (fun q hq => (supp_mem rest q hq).1) ih

/-- **minimum distance 5 up to the BIP173 length.** No error word of at most 89 symbols (each below 32) with one to
four non-zero symbols has syndrome 0. -/
theorem syndrome_ne_zero_le4 (e : List Nat) (he : e.length ≤ 89) (hlt : ∀ x ∈ e, x < 32)
    (hw1 : 1 ≤ weight e) (hw4 : weight e ≤ 4) : syndrome e ≠ 0 := by
  rw [syndrome_eq_supp]
  have hlen := supp_length e
  have hmem : ∀ p ∈ supp e, p.1 < 89 ∧ 1 ≤ p.2 ∧ p.2 < 32 := by
    intro p hp
    have := supp_mem e p hp
    exact ⟨by omega, by omega, hlt _ this.2.2⟩
  have hpw := supp_pairwise e
  generalize supp e = s at hlen hmem hpw
  rcases s with _ | ⟨p, _ | ⟨q, _ | ⟨r, _ | ⟨t, _ | ⟨u, s⟩⟩⟩⟩⟩
  · simp at hlen; omega
  · have hp := hmem p (by simp)
    simp only [xorSingles, Nat.xor_zero]
    exact (single_ne p.1 p.2 hp.1 hp.2.1 hp.2.2).1
  · have hp := hmem p (by simp); have hq := hmem q (by simp)
    simp only [List.pairwise_cons, List.mem_cons, List.not_mem_nil, or_false, forall_eq] at hpw
    simp only [xorSingles, Nat.xor_zero]
    exact (single_pair_ne p.1 p.2 q.1 q.2 hp.1 hp.2.1 hp.2.2 hq.1 hq.2.1 hq.2.2 (by omega)).1
  · have hp := hmem p (by simp); have hq := hmem q (by simp); have hr := hmem r (by simp)
    simp only [List.pairwise_cons, List.mem_cons, List.not_mem_nil, or_false, forall_eq_or_imp, forall_eq] at hpw
    simp only [xorSingles, Nat.xor_zero]
    exact no3 r.1 q.1 p.1 r.2 q.2 p.2 (by omega) (by omega) hp.1 hr.2.1 hr.2.2 hq.2.1 hq.2.2 hp.2.1 hp.2.2
  · have hp := hmem p (by simp); have hq := hmem q (by simp); have hr := hmem r (by simp); have ht := hmem t (by simp)
    simp only [List.pairwise_cons, List.mem_cons, List.not_mem_nil, or_false, forall_eq_or_imp, forall_eq] at hpw
    simp only [xorSingles, Nat.xor_zero]
    exact no4 t.1 r.1 q.1 p.1 t.2 r.2 q.2 p.2 (by omega) (by omega) (by omega) hp.1 ht.2.1 ht.2.2 hr.2.1 hr.2.2
      hq.2.1 hq.2.2 hp.2.1 hp.2.2
  · simp at hlen; omega

end Pycoin.Bech32
