import Pycoin.Proofs.TamperBridge
import Pycoin.Proofs.ValidateOracle
import Pycoin.Proofs.Bytes
/-!
C06 — the two cryptographic hypotheses, the glue from "the committed bytes differ" to "the signature check of the tampered
state refuses the old signature", and, kind by kind, "a standard input validates only if its signatures verify for the
digests of the current state" through `Validate.stdVM`.
-/
namespace Pycoin.Validate
open Pycoin Pycoin.Sighash Pycoin.Spec.Consensus Pycoin.Sign

/-! ## the cryptographic hypotheses -/

/-- the digest function the closures of class `c` apply to the committed bytes: double SHA-256, or Groestlcoin's single one -/
def msgHash (c : Coin) (witness : Bool) : Bytes → Bytes :=
  sha (if witness || requiresForkId c then segwitSingleSha c else legacySingleSha c)

/-- the number handed to `generator.verify` for committed bytes `p` -/
def msgDigest (c : Coin) (witness : Bool) (p : Bytes) : Nat := beNat (msgHash c witness p)

/-- **collision freeness on a named pair**: the digest function does not collide on these two byte strings -/
def CollisionFree (H : Bytes → Bytes) (p p' : Bytes) : Prop := H p = H p' → p = p'

/-- **no forgery**: a signature blob that verifies for the message `z` under one of the keys verifies for the other message
`z'` that occurs under none of them (for one key: the signature made over `z` is not a signature over `z'`) -/
def NoForgery (keys : List Bytes) (sig : Bytes) (z z' : Nat) : Prop :=
  (∃ k ∈ keys, sigVerifies k sig z = true) → z' ≠ z → ∀ k ∈ keys, sigVerifies k sig z' = false

/-- the bytes a signature of hash type `ht` on input `idx` (closure kind `witness`) commits to are `p` in state `s`, where
the script code is `code`, and `p' ≠ p` in state `s'`, where the script code is `code'` (the same one unless the script
being satisfied was changed) -/
structure Tampered (c : Coin) (s s' : State) (witness : Bool) (code code' : Bytes) (idx ht : Nat) (p p' : Bytes) : Prop where
  pre : preimageOf c s witness code idx ht = .ok (some p)
  pre' : preimageOf c s' witness code' idx ht = .ok (some p')
  ne : p ≠ p'

theorem sha_length (single : Bool) (b : Bytes) : (sha single b).length = 32 := by
  cases single <;> simp [sha, Pycoin.Hash.dsha256, Pycoin.Hash.sha256, Pycoin.Hash.u32be]

theorem beNat_inj_of_length {a b : Bytes} (hl : a.length = b.length) (h : beNat a = beNat b) : a = b := by
  unfold beNat at h
  have ha := leBytes_leNat a.reverse
  have hb := leBytes_leNat b.reverse
  rw [h] at ha
  simp only [List.length_reverse] at ha hb
  rw [hl, hb] at ha
  have := congrArg List.reverse ha
  simpa using this.symm

/-- different committed bytes give different messages, the digest function not colliding on them -/
theorem msgDigest_ne (c : Coin) (w : Bool) (p p' : Bytes) (hne : p ≠ p') (hCR : CollisionFree (msgHash c w) p p') :
    msgDigest c w p' ≠ msgDigest c w p := by
  intro h
  apply hne
  apply hCR
  exact (beNat_inj_of_length (by simp [msgHash, sha_length]) h).symm

/-! ## the signature check over the closures, read back -/

/-- `checksig` for a signature with hash-type byte `ht`, when the closure commits to the bytes `p`: ECDSA-verify of their digest -/
theorem chkOf_eq (c : Coin) (s : State) (idx : Nat) (w : Bool) (code sig key : Bytes) (ht : UInt8)
    (hl : sig.getLast? = some ht) (p : Bytes) (hp : preimageOf c s w code idx ht.toNat = .ok (some p)) :
    chkOf (oracle c s idx) sig key code w = sigVerifies key sig (msgDigest c w p) := by
  unfold chkOf
  rw [hl]
  simp only
  rw [oracle_reads_preimage_only]
  have hc : closureCode c ⟨w, code, [], ht.toNat⟩ = .ok code := by
    unfold closureCode
    split
    · rfl
    · rfl
  rw [hc]
  simp only [hp, digestOf]
  rfl

/-- **the glue**: the signature verified in `s` for one of the keys; the bytes it commits to differ in `s'`; the digest
function does not collide on the two; the signature is no forgery for the other digest ⇒ in `s'` the signature check refuses
it for every key -/
theorem tamper_glue (c : Coin) (s s' : State) (idx : Nat) (w : Bool) (code code' sig : Bytes) (keys : List Bytes) (ht : UInt8)
    (hl : sig.getLast? = some ht) (p p' : Bytes) (hT : Tampered c s s' w code code' idx ht.toNat p p')
    (hCR : CollisionFree (msgHash c w) p p') (hUF : NoForgery keys sig (msgDigest c w p) (msgDigest c w p'))
    (hs : ∃ k ∈ keys, chkOf (oracle c s idx) sig k code w = true) :
    ∀ k ∈ keys, chkOf (oracle c s' idx) sig k code' w = false := by
  intro k hk
  rw [chkOf_eq c s' idx w code' sig k ht hl p' hT.pre']
  obtain ⟨k0, hk0, hv⟩ := hs
  rw [chkOf_eq c s idx w code sig k0 ht hl p hT.pre] at hv
  exact hUF ⟨k0, hk0, hv⟩ (msgDigest_ne c w p p' hT.ne hCR) k hk

/-! ## shapes -/

/-- input `idx` of the state is not a coinbase input, carries this scriptSig and witness, and its recorded spent output has
this script -/
structure InputIs (st : State) (idx : Nat) (scriptSig : Bytes) (witness : List Bytes) (spk : Bytes) : Prop where
  nocb : st.tx.isCoinbase = false
  tin : ∃ t, st.tx.ins[idx]? = some t ∧ t.script = scriptSig ∧ t.witness = witness
  out : ∃ o, st.us[idx]?.join = some o ∧ o.script = spk

/-- the flags `Tx.check_solution(idx)` runs with -/
abbrev F0 : Flags := { p2sh := true, witness := true }

theorem not_valid_of_spec' (c : Coin) (st : State) (idx : Nat) (scriptSig : Bytes) (witness : List Bytes) (spk : Bytes)
    (hi : InputIs st idx scriptSig witness spk)
    (hspec : ∀ tx, verifyScript (VM.specChk (chkOf (oracle c st idx))) scriptSig spk witness F0 tx ≠ none) :
    isSolutionOk (stdVM c) c st idx ≠ .ok true := by
  obtain ⟨t, ht, hs, hw⟩ := hi.tin
  obtain ⟨o, ho, hsp⟩ := hi.out
  apply not_valid_of_spec c st idx t o ht ho hi.nocb
  intro tx
  rw [hs, hw, hsp, defaultFlags_eq]
  exact hspec tx

theorem sigEnc_default (sig : Bytes) : checkSignatureEncoding sig F0 = none := by
  simp [checkSignatureEncoding]

theorem keyEnc_default (key : Bytes) (sv : SigVersion) : checkPubKeyEncoding key F0 sv = none := by
  simp [checkPubKeyEncoding]

/-- the script code of a legacy `CHECKSIG`/`CHECKMULTISIG` of a script without `OP_CODESEPARATOR`: the script with the pushes
of the signatures being checked removed (`FindAndDelete`) -/
def baseCode (script : Bytes) (sigs : List Bytes) : Bytes :=
  sigs.foldl (fun c sig => findAndDelete c (pushData sig)) script

theorem scriptCodeFor_base (script : Bytes) (flags : Flags) (tx : TxCtx) (sigs : List Bytes) :
    scriptCodeFor ⟨script, flags, .base, tx⟩ ⟨[], [], [], 0, 0⟩ sigs = baseCode script sigs := by
  simp [scriptCodeFor, baseCode]

theorem scriptCodeFor_wit (script : Bytes) (flags : Flags) (tx : TxCtx) (sigs : List Bytes) :
    scriptCodeFor ⟨script, flags, .witnessV0, tx⟩ ⟨[], [], [], 0, 0⟩ sigs = script := by
  simp [scriptCodeFor]

/-! ## kind by kind: a refused signature check (or a wrong hash) ⇒ `is_solution_ok` does not return `True` -/

/-- **P2PKH** -/
theorem p2pkh_not_valid (c : Coin) (st : State) (idx : Nat) (sig key h : Bytes)
    (hi : InputIs st idx (pushesOf [sig, key]) [] (p2pkhScript h)) (hlen : h.length = 20)
    (hs2 : 2 ≤ sig.length) (hs : sig.length ≤ 75) (hk2 : 2 ≤ key.length) (hk : key.length ≤ 75)
    (hbad : Hash.hash160 key ≠ h ∨ chkOf (oracle c st idx) sig key (baseCode (p2pkhScript h) [sig]) false = false) :
    isSolutionOk (stdVM c) c st idx ≠ .ok true := by
  apply not_valid_of_spec' c st idx _ _ _ hi
  intro tx
  rw [verifyScript_bare_eq _ _ _ F0 tx [key, sig]
    (isPushOnly_pushes _ (by intro d hd; simp at hd; rcases hd with rfl | rfl <;> omega))
    (by have := evalScript_two_pushes (VM.specChk (chkOf (oracle c st idx))) sig key F0 tx hs2 hs hk2 hk
        simpa [pushesOf] using this)
    (p2pkh_not_witness h hlen) (p2pkh_not_p2sh h hlen)]
  apply legacyVerdict_ne_none (rest := [])
  apply evalScript_p2pkh_bad _ sig key h F0 tx .base hlen (sigEnc_default sig) (keyEnc_default key .base) rfl
  rw [scriptCodeFor_base]
  exact hbad

/-- **P2PKH followed by `NOP`** — a spent script changed so that the same `<sig> <key>` still runs -/
theorem p2pkhNop_not_valid (c : Coin) (st : State) (idx : Nat) (sig key h : Bytes)
    (hi : InputIs st idx (pushesOf [sig, key]) [] (p2pkhNopScript h)) (hlen : h.length = 20)
    (hs2 : 2 ≤ sig.length) (hs : sig.length ≤ 75) (hk2 : 2 ≤ key.length) (hk : key.length ≤ 75)
    (hbad : Hash.hash160 key ≠ h ∨ chkOf (oracle c st idx) sig key (baseCode (p2pkhNopScript h) [sig]) false = false) :
    isSolutionOk (stdVM c) c st idx ≠ .ok true := by
  apply not_valid_of_spec' c st idx _ _ _ hi
  intro tx
  rw [verifyScript_bare_eq _ _ _ F0 tx [key, sig]
    (isPushOnly_pushes _ (by intro d hd; simp at hd; rcases hd with rfl | rfl <;> omega))
    (by have := evalScript_two_pushes (VM.specChk (chkOf (oracle c st idx))) sig key F0 tx hs2 hs hk2 hk
        simpa [pushesOf] using this)
    (p2pkhNop_not_witness h hlen) (p2pkhNop_not_p2sh h hlen)]
  apply legacyVerdict_ne_none (rest := [])
  apply evalScript_p2pkhNop_bad _ sig key h F0 tx .base hlen (sigEnc_default sig) (keyEnc_default key .base) rfl
  rw [scriptCodeFor_base]
  exact hbad

/-- **P2PK** -/
theorem p2pk_not_valid (c : Coin) (st : State) (idx : Nat) (sig key : Bytes)
    (hi : InputIs st idx (pushesOf [sig]) [] (p2pkScript key))
    (hs2 : 2 ≤ sig.length) (hs : sig.length ≤ 75) (hk33 : 33 ≤ key.length) (hk : key.length ≤ 75)
    (hbad : chkOf (oracle c st idx) sig key (baseCode (p2pkScript key) [sig]) false = false) :
    isSolutionOk (stdVM c) c st idx ≠ .ok true := by
  apply not_valid_of_spec' c st idx _ _ _ hi
  intro tx
  rw [verifyScript_bare_eq _ _ _ F0 tx [sig]
    (isPushOnly_pushes _ (by intro d hd; simp at hd; subst hd; omega))
    (evalScript_one_push _ sig F0 tx hs2 hs)
    (p2pk_not_witness key hk33 hk) (p2pk_not_p2sh key hk33)]
  apply legacyVerdict_ne_none (rest := [])
  right
  apply evalScript_p2pk_bad _ sig key F0 tx (by omega) hk (sigEnc_default sig) (keyEnc_default key .base) rfl
  rw [scriptCodeFor_base]
  exact hbad

/-- **P2WPKH** -/
theorem p2wpkh_not_valid (c : Coin) (st : State) (idx : Nat) (sig key h : Bytes)
    (hi : InputIs st idx [] [sig, key] (witnessV0Script h)) (hlen : h.length = 20)
    (hs : sig.length ≤ 520) (hk : key.length ≤ 520)
    (hbad : Hash.hash160 key ≠ h ∨ chkOf (oracle c st idx) sig key (p2pkhScript h) true = false) :
    isSolutionOk (stdVM c) c st idx ≠ .ok true := by
  apply not_valid_of_spec' c st idx _ _ _ hi
  intro tx
  apply verifyScript_p2wpkh_bad _ sig key h F0 tx rfl hlen hs hk (sigEnc_default sig) (keyEnc_default key .witnessV0) rfl
  rw [scriptCodeFor_wit]
  exact hbad

/-- **P2SH-P2WPKH** -/
theorem p2sh_p2wpkh_not_valid (c : Coin) (st : State) (idx : Nat) (sig key h hr : Bytes)
    (hi : InputIs st idx (pushesOf [witnessV0Script h]) [sig, key] (p2shScript hr)) (hlen : h.length = 20)
    (hrlen : hr.length = 20) (hs : sig.length ≤ 520) (hk : key.length ≤ 520)
    (hbad : Hash.hash160 (witnessV0Script h) ≠ hr ∨ Hash.hash160 key ≠ h ∨
      chkOf (oracle c st idx) sig key (p2pkhScript h) true = false) :
    isSolutionOk (stdVM c) c st idx ≠ .ok true := by
  apply not_valid_of_spec' c st idx _ _ _ hi
  intro tx
  apply verifyScript_p2sh_p2wpkh_bad _ sig key h hr F0 tx rfl rfl hlen hrlen hs hk (sigEnc_default sig)
    (keyEnc_default key .witnessV0) rfl
  rw [scriptCodeFor_wit]
  exact hbad

/-- the script code of the signature checks of an m-of-n multisig script under wrapper `w` -/
def multisigCode (w : Wrap) (m : Nat) (keys sigsTop : List Bytes) : Bytes :=
  if w.witness then multisigScriptN m keys else baseCode (multisigScriptN m keys) sigsTop

theorem scriptCodeFor_multisig (w : Wrap) (m : Nat) (keys sigsTop : List Bytes) (flags : Flags) (tx : TxCtx) :
    scriptCodeFor ⟨multisigScriptN m keys, flags, w.sv, tx⟩ ⟨[], [], [], 0, 0⟩ sigsTop = multisigCode w m keys sigsTop := by
  unfold multisigCode Wrap.sv
  cases w.witness
  · simp [scriptCodeFor_base]
  · simp [scriptCodeFor_wit]

theorem specChk_wrap (f : Query → Except Sighash.Err Nat) (w : Wrap) (sig key code : Bytes) :
    VM.specChk (chkOf f) sig key code w.sv = chkOf f sig key code w.witness := by
  unfold VM.specChk Wrap.sv
  cases w.witness <;> rfl

/-- **m-of-n multisig, bare / P2SH / P2WSH / P2SH-P2WSH** (`sigsTop`: the signatures, last pushed first): one signature that
the check refuses for every key ⇒ not valid -/
theorem multisig_not_valid (c : Coin) (st : State) (idx : Nat) (w : Wrap) (m : Nat) (keys sigsTop : List Bytes)
    (hi : InputIs st idx (w.scriptSig (multisigScriptN m keys) ([] :: sigsTop.reverse))
      (w.wit (multisigScriptN m keys) ([] :: sigsTop.reverse)) (w.spk (multisigScriptN m keys)))
    (ok : w.Ok (multisigScriptN m keys) F0)
    (hm : sigsTop.length = m) (hm1 : 1 ≤ m) (hmn : m ≤ keys.length) (hn : keys.length ≤ 20)
    (hkeys : ∀ k ∈ keys, 2 ≤ k.length ∧ k.length ≤ 75) (hsigs : ∀ s ∈ sigsTop, 2 ≤ s.length ∧ s.length ≤ 75)
    (hbad : ∃ sg ∈ sigsTop, ∀ k ∈ keys,
      chkOf (oracle c st idx) sg k (multisigCode w m keys sigsTop) w.witness = false) :
    isSolutionOk (stdVM c) c st idx ≠ .ok true := by
  apply not_valid_of_spec' c st idx _ _ _ hi
  intro tx
  have hitems : ∀ d ∈ ([] : Bytes) :: sigsTop.reverse, d.length = 0 ∨ (2 ≤ d.length ∧ d.length ≤ 75) := by
    intro d hd
    rcases List.mem_cons.mp hd with h | h
    · left; rw [h]; rfl
    · right; exact hsigs d (List.mem_reverse.mp h)
  rw [verifyScript_wrap_eq _ w _ _ F0 tx ok hitems (by simp; omega)]
  have hrev : (([] : Bytes) :: sigsTop.reverse).reverse = sigsTop ++ [[]] := by simp
  rw [hrev]
  apply w.verdict_ne_none F0 (rest := [])
  apply evalScript_multisigN_bad _ m keys sigsTop F0 tx w.sv hm hm1 hmn hn hkeys
  obtain ⟨sg, hsg, hall⟩ := hbad
  refine ⟨sg, hsg, fun k hk => ?_⟩
  rw [scriptCodeFor_multisig, specChk_wrap]
  exact hall k hk

end Pycoin.Validate
