import Pycoin.Model.BIP32
/-!
C09 helper lemmas (core Lean only): inversion of the constructors, what `_subkey` leaves in the child.
-/
namespace Pycoin.BIP32

theorem mkNode_ok {g : Gen} {k : Kind} {cc : Bytes} {d : Nat} {fp : Bytes} {idx : Nat} {key : KeyArg} {nd : Node}
    (h : mkNode g k cc d fp idx key = .ok nd) :
    nd.kind = k ∧ nd.chainCode = cc ∧ nd.depth = d ∧ nd.parentFingerprint = fp ∧ nd.childIndex = idx ∧
      cc.length = 32 ∧ fp.length = 4 ∧ keyInit g key = .ok (nd.secretExponent, nd.publicPair) := by
  unfold mkNode at h
  split at h
  · cases h
  · rename_i se pp hk
    split at h
    · cases h
    · split at h
      · cases h
      · rename_i h1 h2
        injection h with h; subst h
        simp at h1 h2
        exact ⟨rfl, rfl, rfl, rfl, rfl, h1, h2, hk⟩

theorem keyInit_pub_ok {g : Gen} {pp : Curve.Pt} {se : Option Int} {q : Int × Int}
    (h : keyInit g (.pub pp) = .ok (se, q)) : se = none ∧ pp = some q ∧ Curve.containsXY g.c q.1 q.2 = true := by
  match pp with
  | none => simp [keyInit] at h
  | some (x, y) =>
    simp only [keyInit] at h
    split at h
    · rename_i hc; injection h with h; injection h with h1 h2; subst h1; subst h2; exact ⟨rfl, rfl, hc⟩
    · cases h

theorem keyInit_priv_ok {g : Gen} {k : Int} {se : Option Int} {q : Int × Int}
    (h : keyInit g (.priv k) = .ok (se, q)) :
    se = some k ∧ 1 ≤ k ∧ k < g.c.n ∧ g.mul k = .ok (some q) ∧ Curve.containsXY g.c q.1 q.2 = true := by
  simp only [keyInit] at h
  split at h
  · cases h
  · rename_i hr
    split at h
    · cases h
    · cases h
    · rename_i x y hm
      split at h
      · rename_i hc; injection h with h; injection h with h1 h2; subst h1; subst h2
        exact ⟨rfl, by omega, by omega, hm, hc⟩
      · cases h

theorem publicCopy_ok {g : Gen} {n m : Node} (h : n.publicCopy g = .ok m) :
    m = { n with secretExponent := none } := by
  unfold Node.publicCopy at h
  obtain ⟨h1, h2, h3, h4, h5, -, -, hk⟩ := mkNode_ok h
  obtain ⟨k1, k2, -⟩ := keyInit_pub_ok hk
  cases m; cases n
  simp_all

theorem subkeyChild_meta {g : Gen} {fuel : Nat} {n key : Node} {idx : Int} {hardened : Bool} {fp : Bytes}
    (hidx : 0 ≤ idx) (h : subkeyChild g fuel n idx hardened fp = .ok key) :
    key.kind = n.kind ∧ key.depth = n.depth + 1 ∧ key.parentFingerprint = fp ∧ (key.childIndex : Int) = idx ∧
      key.secretExponent.isSome = n.secretExponent.isSome ∧ (n.secretExponent = none → hardened = false) := by
  unfold subkeyChild at h
  cases hse : n.secretExponent with
  | none =>
    simp only [hse] at h
    cases hardened with
    | true => simp at h
    | false =>
      simp only [Bool.false_eq_true, if_false] at h
      cases hp : subkeyPublicPairChainCodePair g n.publicPair n.chainCode idx with
      | error e => simp [hp] at h
      | ok r =>
        obtain ⟨q, cc⟩ := r
        simp only [hp] at h
        obtain ⟨a1, -, a3, a4, a5, -, -, hk⟩ := mkNode_ok h
        obtain ⟨k1, -, -⟩ := keyInit_pub_ok hk
        exact ⟨a1, a3, a4, by rw [a5]; exact Int.toNat_of_nonneg hidx, by simp [k1], fun _ => rfl⟩
  | some se =>
    simp only [hse] at h
    cases hp : subkeySecretExponentChainCodePair g fuel se n.chainCode idx hardened n.publicPair with
    | error e => simp [hp] at h
    | ok r =>
      obtain ⟨k, cc⟩ := r
      simp only [hp] at h
      obtain ⟨a1, -, a3, a4, a5, -, -, hk⟩ := mkNode_ok h
      obtain ⟨k1, -⟩ := keyInit_priv_ok hk
      exact ⟨a1, a3, a4, by rw [a5]; exact Int.toNat_of_nonneg hidx, by simp [k1], fun hn => by simp at hn⟩

/-- what `_subkey` leaves in the child besides the key material -/
theorem subkeyRaw_meta {g : Gen} {fuel : Nat} {n child : Node} {i : Int} {hardened asPrivate : Bool}
    (h : subkeyRaw g fuel n i hardened asPrivate = .ok child) :
    0 ≤ i ∧ i < 0x80000000 ∧
    child.kind = n.kind ∧ child.depth = n.depth + 1 ∧
    n.fingerprint = .ok child.parentFingerprint ∧
    (child.childIndex : Int) = (if hardened then i + 0x80000000 else i) ∧
    (asPrivate = false → child.secretExponent = none) ∧
    (asPrivate = true → (child.secretExponent.isSome = n.secretExponent.isSome)) ∧
    (n.secretExponent = none → hardened = false) := by
  unfold subkeyRaw at h
  by_cases h0 : i < 0
  · simp [h0] at h
  by_cases h1 : i ≥ 0x80000000
  · simp [h0, h1] at h
  simp only [h0, h1, if_false] at h
  cases hfp : n.fingerprint with
  | error e => simp [hfp] at h
  | ok fp =>
    simp only [hfp] at h
    have hidx : (0 : Int) ≤ (if hardened then i + 0x80000000 else i) := by split <;> omega
    cases hc : subkeyChild g fuel n (if hardened then i + 0x80000000 else i) hardened fp with
    | error e => simp [hc] at h
    | ok key =>
      simp only [hc] at h
      obtain ⟨b1, b2, b3, b4, b5, b6⟩ := subkeyChild_meta hidx hc
      cases asPrivate with
      | true =>
        simp only [if_true] at h
        injection h with h; subst h
        exact ⟨by omega, by omega, b1, b2, by rw [b3], b4, by simp, fun _ => b5, b6⟩
      | false =>
        simp only [Bool.false_eq_true, if_false] at h
        have := publicCopy_ok h
        subst this
        exact ⟨by omega, by omega, b1, b2, by simp [b3], b4, fun _ => rfl, by simp, b6⟩

/-- the node is what its own constructor returns on its own fields: true of every node the code builds
(`mkNode_valid`), since every node is built by `BIP32Node.__init__` -/
def Node.Valid (g : Gen) (n : Node) : Prop :=
  mkNode g n.kind n.chainCode n.depth n.parentFingerprint n.childIndex
    (match n.secretExponent with
     | some se => .priv se
     | none => .pub (some n.publicPair)) = .ok n

theorem mkNode_valid {g : Gen} {k : Kind} {cc : Bytes} {d : Nat} {fp : Bytes} {idx : Nat} {key : KeyArg} {nd : Node}
    (h : mkNode g k cc d fp idx key = .ok nd) : nd.Valid g := by
  obtain ⟨h1, h2, h3, h4, h5, -, -, hk⟩ := mkNode_ok h
  unfold Node.Valid
  cases key with
  | priv se =>
    obtain ⟨k1, -⟩ := keyInit_priv_ok hk
    rw [h1, h2, h3, h4, h5, k1]; exact h
  | pub pp =>
    obtain ⟨k1, k2, -⟩ := keyInit_pub_ok hk
    rw [h1, h2, h3, h4, h5, k1, ← k2]; exact h

/-- a valid public node is its own public copy; a valid private node's public copy drops the exponent -/
theorem publicCopy_of_valid {g : Gen} {n : Node} (hv : n.Valid g) :
    n.publicCopy g = .ok { n with secretExponent := none } := by
  unfold Node.Valid at hv
  obtain ⟨-, -, -, -, -, l1, l2, hk⟩ := mkNode_ok hv
  have hc : Curve.containsXY g.c n.publicPair.1 n.publicPair.2 = true := by
    cases hse : n.secretExponent with
    | none => rw [hse] at hk; exact (keyInit_pub_ok hk).2.2
    | some se => rw [hse] at hk; exact (keyInit_priv_ok hk).2.2.2.2
  unfold Node.publicCopy mkNode
  simp [keyInit, hc, l1, l2]

end Pycoin.BIP32
