import Pycoin.Model.ConstraintSolver
/-!
C05 — list lemmas for the solver loop of `Solve.solveForConstraints`: the dict `solved_values` as an association list with
distinct keys, `sorted(…, key=atom_number, reverse=True)` on atoms numbered upwards, the closing constraints.
-/
namespace Pycoin.Solve
open Pycoin Pycoin.Sign

def Solved.keys (sv : Solved) : List Atom := sv.map (·.1)

theorem Solved.keys_append (a b : Solved) : Solved.keys (a ++ b) = Solved.keys a ++ Solved.keys b := by
  simp [Solved.keys]

theorem Solved.get_append_of_not_mem (l r : Solved) (a : Atom) (h : a ∉ Solved.keys l) :
    Solved.get (l ++ r) a = Solved.get r a := by
  induction l with
  | nil => rfl
  | cons p t ih =>
    have hp : p.1 ≠ a := fun e => h (by simp [Solved.keys, ← e])
    have ht : a ∉ Solved.keys t := fun e => h (by simp [Solved.keys] at e ⊢; exact Or.inr e)
    simp only [Solved.get, List.cons_append, List.find?_cons, hp, decide_false] at ih ⊢
    exact ih ht

theorem Solved.get_cons_self (a : Atom) (v : Option Bytes) (r : Solved) : Solved.get ((a, v) :: r) a = some v := by
  simp [Solved.get]

theorem Solved.get_cons_ne (a b : Atom) (v : Option Bytes) (r : Solved) (h : b ≠ a) :
    Solved.get ((b, v) :: r) a = Solved.get r a := by
  simp [Solved.get, List.find?_cons, h]

theorem Solved.get_nil (a : Atom) : Solved.get [] a = none := rfl

theorem Solved.set_after (done : Solved) (a : Atom) (o : Option Bytes) (v : Bytes) (rest : Solved) (h : a ∉ Solved.keys done) :
    Solved.set a v (done ++ (a, o) :: rest) = done ++ (a, some v) :: rest := by
  induction done with
  | nil => simp [Solved.set]
  | cons p t ih =>
    obtain ⟨k, old⟩ := p
    have hp : k ≠ a := fun e => h (by simp [Solved.keys, e])
    have ht : a ∉ Solved.keys t := fun e => h (by simp [Solved.keys] at e ⊢; exact Or.inr e)
    simp only [List.cons_append, Solved.set, hp, if_false]
    rw [ih ht]

/-- assigning the values `vs` to the still unsolved atoms `ks` -/
theorem Solved.update_zip : ∀ (ks : List Atom) (vs : List Bytes) (done tail : Solved), ks.Nodup →
    (∀ k ∈ ks, k ∉ Solved.keys done) → ks.length = vs.length →
    Solved.update (done ++ (ks.map (fun k => (k, none)) ++ tail)) (ks.zip vs) =
      done ++ ((ks.zip vs).map (fun p => (p.1, some p.2)) ++ tail) := by
  intro ks
  induction ks with
  | nil => intro vs done tail _ _ _; simp [Solved.update]
  | cons k r ih =>
    intro vs done tail hnd hdis hlen
    match vs, hlen with
    | v :: vs', hlen =>
      have hk : k ∉ Solved.keys done := hdis k (by simp)
      simp only [List.map_cons, List.cons_append, List.zip_cons_cons, Solved.update]
      rw [Solved.set_after done k none v _ hk]
      have := ih vs' (done ++ [(k, some v)]) tail (List.nodup_cons.mp hnd).2
        (by
          intro x hx
          rw [Solved.keys_append]
          simp only [List.mem_append, not_or]
          refine ⟨hdis x (List.mem_cons_of_mem _ hx), ?_⟩
          simp only [Solved.keys, List.map_cons, List.map_nil, List.mem_singleton]
          intro e; subst e
          exact (List.nodup_cons.mp hnd).1 hx)
        (by simpa using hlen)
      simpa [List.append_assoc] using this

theorem zip_filterMap_some (ks : List Atom) (vs : List Bytes) :
    ((ks.zip (vs.map some)).filterMap (fun p => p.2.map (fun v => (p.1, v)))) = ks.zip vs := by
  induction ks generalizing vs with
  | nil => simp
  | cons k r ih =>
    cases vs with
    | nil => simp
    | cons v t => simp [ih t]

/-- looking the keys up in the order they were assigned -/
theorem Solved.map_get_zip : ∀ (ks : List Atom) (vs : List Bytes) (tail : Solved), ks.Nodup → ks.length = vs.length →
    ks.map (fun k => (Solved.get ((ks.zip vs).map (fun p => (p.1, some p.2)) ++ tail) k).join) = vs.map some := by
  intro ks
  induction ks with
  | nil => intro vs tail _ hl; cases vs <;> simp_all
  | cons k r ih =>
    intro vs tail hnd hlen
    match vs, hlen with
    | v :: vs', hlen =>
      have hk := (List.nodup_cons.mp hnd).1
      simp only [List.zip_cons_cons, List.map_cons, List.cons_append, Solved.get_cons_self]
      rw [← ih vs' tail (List.nodup_cons.mp hnd).2 (by simpa using hlen)]
      congr 1
      apply List.map_congr_left
      intro x hx
      rw [Solved.get_cons_ne x k _ _ (fun e => hk (e ▸ hx))]

/-! ## sorting -/

theorem insertDesc_after (a : Atom) : ∀ (big rest : List Atom), (∀ b ∈ big, a.number < b.number) →
    insertDesc a (big ++ rest) = big ++ insertDesc a rest := by
  intro big
  induction big with
  | nil => intro rest _; rfl
  | cons b t ih =>
    intro rest h
    have hb := h b (by simp)
    simp only [List.cons_append, insertDesc, show ¬ b.number ≤ a.number by omega, if_false]
    rw [ih rest (fun x hx => h x (List.mem_cons_of_mem _ hx))]

/-- atoms numbered upwards come out reversed; atoms with smaller numbers that were sorted already stay behind them -/
theorem sortDesc_asc : ∀ (asc small : List Atom), asc.Pairwise (fun x y => x.number < y.number) →
    (∀ a ∈ asc, ∀ z ∈ small, z.number < a.number) → sortDesc small = small →
    sortDesc (asc ++ small) = asc.reverse ++ small := by
  intro asc
  induction asc with
  | nil => intro small _ _ hs; simpa using hs
  | cons a r ih =>
    intro small hp hz hs
    have hp' := List.pairwise_cons.mp hp
    simp only [List.cons_append, sortDesc]
    rw [ih small hp'.2 (fun x hx z hz' => hz x (List.mem_cons_of_mem _ hx) z hz') hs,
      insertDesc_after a r.reverse small (fun b hb => hp'.1 b (List.mem_reverse.mp hb))]
    have : insertDesc a small = a :: small := by
      cases small with
      | nil => rfl
      | cons z t =>
        have := hz a (by simp) z (by simp)
        simp [insertDesc, show z.number ≤ a.number by omega]
    rw [this]; simp

/-! ## atoms a dynamic stack invents -/

theorem Atom.mk_number (isW : Bool) (n : Nat) : (Atom.mk isW n).number = n := by
  cases isW <;> rfl

theorem Atom.mk_isW (isW : Bool) (n : Nat) : (Atom.mk isW n).isW = isW := by
  cases isW <;> rfl

theorem Atom.mk_inj (isW : Bool) (a b : Nat) (h : Atom.mk isW a = Atom.mk isW b) : a = b := by
  have := congrArg Atom.number h
  rwa [Atom.mk_number, Atom.mk_number] at this

end Pycoin.Solve
