import Pycoin.Proofs.SighashBip143
/-!
C06 helper lemmas: the legacy preimage is the wire form of the temporary transaction followed by the hash type, and the
wire form is injective; so two preimages are equal exactly when the temporary transactions are.
-/
namespace Pycoin.Sighash
open Pycoin Pycoin.Wire Pycoin.Spec.Sighash Pycoin.Spec.Wire

/-- what a legacy signature commits to: the temporary transaction `_signature_hash` builds (`none` = the SINGLE-bug
early return, which commits to nothing) -/
def committedLegacy (tx : Tx) (script : Bytes) (idx ht : Nat) : Except Err (Option Tx) :=
  match deleteSubscript script Gen.Sighash.strippedSubscript with
  | .error e => .error e
  | .ok s' => legacyTmpTx tx s' idx ht

def isBug (tx : Tx) (idx ht : Nat) : Bool := fHashSingle ht && decide (idx ≥ tx.outs.length)

def tmpOf (tx : Tx) (stripped : Bytes) (idx ht : Nat) : Tx :=
  ⟨tx.version, insOf tx stripped idx ht, outsOf tx idx ht, tx.lockTime⟩

theorem committedLegacy_eq (tx : Tx) (idx : Nat) (hidx : idx < tx.ins.length) (script stripped : Bytes)
    (hdel : deleteSubscript script Gen.Sighash.strippedSubscript = .ok stripped) (ht : Nat) :
    committedLegacy tx script idx ht = .ok (if isBug tx idx ht then none else some (tmpOf tx stripped idx ht)) := by
  unfold committedLegacy
  rw [hdel]
  exact legacyTmpTx_eq tx stripped idx ht hidx

/-- the model preimage is the wire form of the temporary transaction, then the hash type -/
theorem legacyPreimage_tmp (c : Coin) (tx : Tx) (hwf : tx.WF) (idx : Nat) (hidx : idx < tx.ins.length)
    (script stripped : Bytes) (hdel : deleteSubscript script Gen.Sighash.strippedSubscript = .ok stripped)
    (hs : LenOk stripped) (ht : Nat) (hht : ht < 2 ^ 32) :
    Sighash.legacyPreimage c tx script idx ht =
      .ok (if isBug tx idx ht then none else some (Spec.Wire.legacy (tmpOf tx stripped idx ht) ++ le 4 ht)) := by
  unfold Sighash.legacyPreimage
  rw [hdel]
  simp only [legacyTmpTx_eq tx stripped idx ht hidx]
  by_cases hb : fHashSingle ht = true ∧ idx ≥ tx.outs.length
  · simp [isBug, hb.1, hb.2]
  · have hb' : (fHashSingle ht && decide (idx ≥ tx.outs.length)) = false := by
      cases h1 : fHashSingle ht with
      | false => rfl
      | true =>
        have : ¬ idx ≥ tx.outs.length := fun h => hb ⟨h1, h⟩
        simp [this]
    simp only [isBug, hb', Bool.false_eq_true, if_false]
    have hwf' := tmp_wf tx hwf stripped hs idx ht hidx hb
    have hstream := stream_eq_spec _ hwf' false
    simp only [Bool.false_and, Bool.false_eq_true, if_false] at hstream
    have hU : U32 (ht : Int) := ⟨by omega, by omega⟩
    have hL := streamStruct_L_eq (ht : Int) hU
    unfold hashTypePreimage
    rw [hstream, c_fmt c, hL]
    simp only [Int.toNat_natCast, tmpOf]

theorem ins1_nowit (tx : Tx) (stripped : Bytes) (idx ht : Nat) : ∀ t ∈ ins1 tx stripped idx ht, t.witness = [] := by
  intro t ht'
  unfold ins1 zeroOtherSequences ins0 at ht'
  split at ht'
  · rw [List.mapIdx_mapIdx] at ht'
    obtain ⟨i, h, e⟩ := List.mem_mapIdx.mp ht'
    simp only [Function.comp] at e
    split at e <;> (subst e; rfl)
  · obtain ⟨i, h, e⟩ := List.mem_mapIdx.mp ht'
    subst e; rfl

theorem tmp_nowit (tx : Tx) (stripped : Bytes) (idx ht : Nat) :
    Spec.Wire.hasWitness (tmpOf tx stripped idx ht) = false := by
  unfold Spec.Wire.hasWitness tmpOf
  rw [List.any_eq_false]
  intro t ht'
  have ht' : t ∈ insOf tx stripped idx ht := ht'
  have : t.witness = [] := by
    unfold insOf at ht'
    split at ht'
    · cases h1 : (ins1 tx stripped idx ht)[idx]? with
      | none => simp [h1, Option.toList] at ht'
      | some t1 =>
        simp only [h1, Option.toList, List.mem_singleton] at ht'
        subst ht'
        exact ins1_nowit tx stripped idx ht t (List.mem_of_getElem? h1)
    · exact ins1_nowit tx stripped idx ht t ht'
  simp [this]

theorem tmp_ins_pos (tx : Tx) (stripped : Bytes) (idx ht : Nat) (hidx : idx < tx.ins.length) :
    1 ≤ (tmpOf tx stripped idx ht).ins.length := by
  show 1 ≤ (insOf tx stripped idx ht).length
  have hl := ins1_length tx stripped idx ht
  unfold insOf
  split
  · have : idx < (ins1 tx stripped idx ht).length := by omega
    simp [List.getElem?_eq_getElem this, Option.toList]
  · omega

/-- the wire form (legacy layout) is injective on in-range transactions without witness data and with an input -/
theorem legacy_injective (a b : Tx) (ha : a.WF) (hb : b.WF) (ha1 : 1 ≤ a.ins.length) (hb1 : 1 ≤ b.ins.length)
    (hwa : Spec.Wire.hasWitness a = false) (hwb : Spec.Wire.hasWitness b = false)
    (h : Spec.Wire.legacy a = Spec.Wire.legacy b) : a = b := by
  apply ser_injective a b ha hb ha1 hb1
  simp [Spec.Wire.ser, hwa, hwb, h]

/-- the ten items of the BIP143 message (the outpoint as two fields) -/
structure Items143 where
  version : Nat
  hashPrevouts : Bytes
  hashSequence : Bytes
  prevHash : Bytes
  prevIndex : Nat
  code : Bytes
  amount : Nat
  sequence : Nat
  hashOutputs : Bytes
  lockTime : Nat
  hashType : Nat
  deriving DecidableEq

def committed143 (H : Bytes → Bytes) (tx : Tx) (idx : Nat) (code : Bytes) (amount ht : Nat) : Option Items143 :=
  match tx.ins[idx]? with
  | none => none
  | some t =>
    some ⟨tx.version.toNat, Spec.Sighash.hashPrevouts H tx ht, Spec.Sighash.hashSequence H tx ht, t.prevHash, t.prevIndex.toNat,
      code, amount, t.sequence.toNat, Spec.Sighash.hashOutputs H tx idx ht, tx.lockTime.toNat, ht⟩

theorem le_length : ∀ (k n : Nat), (le k n).length = k
  | 0, _ => rfl
  | k + 1, n => by simp [le, le_length k]

theorem le_inj {k a b : Nat} (ha : a < 256 ^ k) (hb : b < 256 ^ k) (h : le k a = le k b) : a = b := by
  rw [le_eq_leBytes, le_eq_leBytes] at h
  exact leBytes_inj ha hb h

theorem peel {a a' b b' : Bytes} (hl : a.length = a'.length) (h : a ++ b = a' ++ b') : a = a' ∧ b = b' :=
  List.append_inj h hl

theorem varBytes_unique {c c' r r' : Bytes} (hc : LenOk c) (hc' : LenOk c') (h : varBytes c ++ r = varBytes c' ++ r') :
    c = c' ∧ r = r' :=
  satoshiString_law.unique c c' _ _ r r' hc hc' (streamSatoshiString_eq c (lenOk_lt hc)) (streamSatoshiString_eq c' (lenOk_lt hc')) h

theorem hp_len (H : Bytes → Bytes) (hH : ∀ b, (H b).length = 32) (tx : Tx) (ht : Nat) :
    (Spec.Sighash.hashPrevouts H tx ht).length = 32 := by
  unfold Spec.Sighash.hashPrevouts; split <;> simp [hH, Spec.Sighash.zero32]
theorem hs_len (H : Bytes → Bytes) (hH : ∀ b, (H b).length = 32) (tx : Tx) (ht : Nat) :
    (Spec.Sighash.hashSequence H tx ht).length = 32 := by
  unfold Spec.Sighash.hashSequence; split <;> simp [hH, Spec.Sighash.zero32]
theorem ho_len (H : Bytes → Bytes) (hH : ∀ b, (H b).length = 32) (tx : Tx) (idx ht : Nat) :
    (Spec.Sighash.hashOutputs H tx idx ht).length = 32 := by
  unfold Spec.Sighash.hashOutputs
  split
  · simp [hH]
  · split
    · split <;> simp [hH, Spec.Sighash.zero32]
    · simp [Spec.Sighash.zero32]

theorem bip143_items_iff (H : Bytes → Bytes) (hH : ∀ b, (H b).length = 32)
    (tx tx' : Tx) (hwf : tx.WF) (hwf' : tx'.WF) (idx idx' : Nat) (hidx : idx < tx.ins.length) (hidx' : idx' < tx'.ins.length)
    (code code' : Bytes) (hc : LenOk code) (hc' : LenOk code') (amt amt' : Nat) (ha : amt < 2 ^ 64) (ha' : amt' < 2 ^ 64)
    (ht ht' : Nat) (hht : ht < 2 ^ 32) (hht' : ht' < 2 ^ 32) :
    bip143Preimage H tx idx code amt ht = bip143Preimage H tx' idx' code' amt' ht' ↔
      committed143 H tx idx code amt ht = committed143 H tx' idx' code' amt' ht' := by
  have hin : tx.ins[idx]? = some tx.ins[idx] := List.getElem?_eq_getElem hidx
  have hin' : tx'.ins[idx']? = some tx'.ins[idx'] := List.getElem?_eq_getElem hidx'
  have hw := hwf.ins _ (List.getElem_mem hidx)
  have hw' := hwf'.ins _ (List.getElem_mem hidx')
  unfold bip143Preimage committed143
  simp only [hin, hin', outpoint, List.append_assoc, Option.some.injEq]
  constructor
  · intro h
    obtain ⟨e1, h⟩ := peel (by simp [le_length]) h
    obtain ⟨e2, h⟩ := peel (by rw [hp_len H hH, hp_len H hH]) h
    obtain ⟨e3, h⟩ := peel (by rw [hs_len H hH, hs_len H hH]) h
    obtain ⟨e4, h⟩ := peel (by rw [hw.hash, hw'.hash]) h
    obtain ⟨e5, h⟩ := peel (by simp [le_length]) h
    obtain ⟨e6, h⟩ := varBytes_unique hc hc' h
    obtain ⟨e7, h⟩ := peel (by simp [le_length]) h
    obtain ⟨e8, h⟩ := peel (by simp [le_length]) h
    obtain ⟨e9, h⟩ := peel (by rw [ho_len H hH, ho_len H hH]) h
    obtain ⟨e10, e11⟩ := peel (by simp [le_length]) h
    have u32 : ∀ v : Int, U32 v → v.toNat < 256 ^ 4 := by
      intro v hv; have := hv.1; have := hv.2; omega
    have f1 := le_inj (u32 _ hwf.version) (u32 _ hwf'.version) e1
    have f5 := le_inj (u32 _ hw.index) (u32 _ hw'.index) e5
    have f7 := le_inj (k := 8) (by omega) (by omega) e7
    have f8 := le_inj (u32 _ hw.sequence) (u32 _ hw'.sequence) e8
    have f10 := le_inj (u32 _ hwf.lockTime) (u32 _ hwf'.lockTime) e10
    have f11 := le_inj (k := 4) (by omega) (by omega) e11
    rw [f1, e2, e3, e4, f5, e6, f7, f8, e9, f10, f11]
  · intro h
    injection h with h1 h2 h3 h4 h5 h6 h7 h8 h9 h10 h11
    rw [h1, h2, h3, h4, h5, h6, h7, h8, h9, h10, h11]

end Pycoin.Sighash
