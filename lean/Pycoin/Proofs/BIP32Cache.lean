import Pycoin.Proofs.BIP32Basic
/-!
C09 helper lemmas (core Lean only): the sub-key cache is transparent — for one node (`Cache`) and along paths from one
root object (`PCache`).
-/
namespace Pycoin.BIP32

/-! ### the sub-key cache of one node -/

/-- invariant of `_subkey_cache`: every entry is what `_subkey` returns for its key -/
def Cache.Sound (g : Gen) (fuel : Nat) (n : Node) (c : Cache) : Prop :=
  ∀ k v, (k, v) ∈ c → subkeyRaw g fuel n k.1 k.2.1 k.2.2 = .ok v

theorem Cache.get?_mem {c : Cache} {k : CKey} {v : Node} (h : c.get? k = some v) : (k, v) ∈ c := by
  unfold Cache.get? at h
  cases hf : c.find? (·.1 = k) with
  | none => simp [hf] at h
  | some e =>
    simp only [hf, Option.map_some, Option.some.injEq] at h
    have hm := List.mem_of_find?_eq_some hf
    have hp := List.find?_some hf
    simp only [decide_eq_true_eq] at hp
    obtain ⟨k', v'⟩ := e
    simp only at hp h
    subst hp; subst h
    exact hm

theorem subkey_sound {g : Gen} {fuel : Nat} {n : Node} {c : Cache} (hc : c.Sound g fuel n)
    (i : Int) (hd : Bool) (p : Option Bool) :
    (subkey g fuel n c i hd p).1 = subkey0 g fuel n i hd p ∧ (subkey g fuel n c i hd p).2.Sound g fuel n := by
  unfold subkey subkey0 lookupKey
  simp only
  cases hg : c.get? (i, hd, p.getD n.secretExponent.isSome) with
  | some v =>
    simp only
    exact ⟨(hc _ _ (Cache.get?_mem hg)).symm, hc⟩
  | none =>
    simp only
    cases hr : subkeyRaw g fuel n i hd (p.getD n.secretExponent.isSome) with
    | error e => exact ⟨rfl, hc⟩
    | ok v =>
      refine ⟨rfl, ?_⟩
      intro k w hm
      simp only [List.mem_cons] at hm
      rcases hm with hm | hm
      · injection hm with h1 h2; subst h1; subst h2; exact hr
      · exact hc k w hm

theorem subkeyRun_eq {g : Gen} {fuel : Nat} {n : Node} (calls : List (Int × Bool × Option Bool)) :
    ∀ c : Cache, c.Sound g fuel n →
      subkeyRun g fuel n c calls = calls.map fun q => subkey0 g fuel n q.1 q.2.1 q.2.2 := by
  induction calls with
  | nil => intro c _; rfl
  | cons q rest ih =>
    intro c hc
    obtain ⟨i, hd, p⟩ := q
    obtain ⟨h1, h2⟩ := subkey_sound hc i hd p
    simp only [subkeyRun, List.map_cons]
    rw [← h1, ih _ h2]

/-! ### the caches along paths -/

def stepRaw (g : Gen) (fuel : Nat) (acc : Except Err Node) (k : CKey) : Except Err Node :=
  match acc with
  | .error e => .error e
  | .ok n => subkeyRaw g fuel n k.1 k.2.1 k.2.2

/-- the node object reached from `root` by the cache keys `ks` -/
def derive (g : Gen) (fuel : Nat) (root : Node) (ks : List CKey) : Except Err Node :=
  ks.foldl (stepRaw g fuel) (.ok root)

def PCache.Sound (g : Gen) (fuel : Nat) (root : Node) (c : PCache) : Prop :=
  ∀ p v, (p, v) ∈ c → derive g fuel root p = .ok v

theorem PCache.get?_mem {c : PCache} {k : List CKey} {v : Node} (h : c.get? k = some v) : (k, v) ∈ c := by
  unfold PCache.get? at h
  cases hf : c.find? (·.1 = k) with
  | none => simp [hf] at h
  | some e =>
    simp only [hf, Option.map_some, Option.some.injEq] at h
    have hm := List.mem_of_find?_eq_some hf
    have hp := List.find?_some hf
    simp only [decide_eq_true_eq] at hp
    obtain ⟨k', v'⟩ := e
    simp only at hp h
    subst hp; subst h
    exact hm

theorem pathLoopC_spec {g : Gen} {fuel : Nat} {root : Node} (vs : List (List Char)) :
    ∀ (key : Node) (at_ : List CKey) (c : PCache), c.Sound g fuel root → derive g fuel root at_ = .ok key →
      (pathLoopC g fuel key at_ c vs).1 = pathLoop g fuel key vs ∧ (pathLoopC g fuel key at_ c vs).2.Sound g fuel root := by
  induction vs with
  | nil => intro key at_ c hc _; exact ⟨rfl, hc⟩
  | cons v vs ih =>
    intro key at_ c hc hd
    unfold pathLoopC pathLoop
    cases hp : parseStep v with
    | error e => exact ⟨rfl, hc⟩
    | ok r =>
      obtain ⟨i, hardened⟩ := r
      simp only
      have hstep : derive g fuel root (at_ ++ [(i, hardened, key.secretExponent.isSome)]) =
          subkeyRaw g fuel key i hardened key.secretExponent.isSome := by
        unfold derive at hd ⊢
        rw [List.foldl_append, hd]; rfl
      have h0 : subkey0 g fuel key i hardened (some key.secretExponent.isSome) =
          subkeyRaw g fuel key i hardened key.secretExponent.isSome := rfl
      rw [h0]
      cases hg : c.get? (at_ ++ [(i, hardened, key.secretExponent.isSome)]) with
      | some key' =>
        simp only
        have := hc _ _ (PCache.get?_mem hg)
        rw [hstep] at this
        rw [this]
        exact ih key' _ c hc (by rw [hstep, this])
      | none =>
        simp only
        cases hr : subkeyRaw g fuel key i hardened key.secretExponent.isSome with
        | error e => exact ⟨rfl, hc⟩
        | ok key' =>
          simp only
          apply ih key' _ _ _ (by rw [hstep, hr])
          intro p w hm
          simp only [List.mem_cons] at hm
          rcases hm with hm | hm
          · injection hm with h1 h2; subst h1; subst h2; rw [hstep, hr]
          · exact hc p w hm

theorem subkeyForPathC_spec {g : Gen} {fuel : Nat} {root : Node} {c : PCache} (hc : c.Sound g fuel root) (path : List Char) :
    (subkeyForPathC g fuel root c path).1 = subkeyForPath g fuel root path ∧
      (subkeyForPathC g fuel root c path).2.Sound g fuel root := by
  unfold subkeyForPathC subkeyForPath
  simp only
  generalize (if List.drop (path.length - 4) path = ".pub".toList then List.take (path.length - 4) path else path) = p'
  cases he : p'.isEmpty with
  | true =>
    constructor
    · simp
    · simpa using hc
  | false =>
    simp only [Bool.false_eq_true, if_false]
    obtain ⟨h1, h2⟩ := pathLoopC_spec (g := g) (fuel := fuel) (root := root) (Subpaths.split '/' p') root [] c hc rfl
    rw [← h1]
    refine ⟨?_, ?_⟩
    · cases (pathLoopC g fuel root [] c (Subpaths.split '/' p')).1 <;> rfl
    · cases hh : (pathLoopC g fuel root [] c (Subpaths.split '/' p')).1 <;> simpa [hh] using h2

theorem pathRun_eq {g : Gen} {fuel : Nat} {root : Node} (paths : List (List Char)) :
    ∀ c : PCache, c.Sound g fuel root → pathRun g fuel root c paths = paths.map (subkeyForPath g fuel root) := by
  induction paths with
  | nil => intro c _; rfl
  | cons p rest ih =>
    intro c hc
    obtain ⟨h1, h2⟩ := subkeyForPathC_spec hc p
    simp only [pathRun, List.map_cons]
    rw [← h1, ih _ h2]

end Pycoin.BIP32
