import Pycoin.Model.VM.CondStack
/-!
Conditional stack: pycoin's two counters are an abstraction of Core's `vfExec : List Bool`
(innermost conditional first, as in `Spec/Consensus.lean`).
-/
namespace Pycoin.VM
namespace CondStack

/-- abstraction of Core's `vfExec` (innermost first): `trueCount` = number of leading `true`s seen from the
outermost conditional, `falseCount` = number of entries from the outermost `false` inwards -/
def absC : List Bool → CondStack
  | [] => {}
  | b :: r =>
    let c := absC r
    if c.falseCount > 0 then { c with falseCount := c.falseCount + 1 }
    else if b then { c with trueCount := c.trueCount + 1 } else { c with falseCount := 1 }

/-- Core's side, written from `EvalScript`: what `OP_IF/OP_NOTIF` push, `OP_ELSE`, `OP_ENDIF` -/
inductive CondOp
  | opIf (value : Bool) (notif : Bool)    -- `value` = `CastToBool` of the popped operand (ignored when not executing)
  | opElse
  | opEndif
  deriving DecidableEq, Repr

/-- Core: `fExec = !count(vfExec, false)`; IF pushes `fExec ? (notif ? !value : value) : false`;
ELSE negates the back; ENDIF pops; both fail on an empty `vfExec` -/
def coreStep (vf : List Bool) : CondOp → Option (List Bool)
  | .opIf v n => some ((if vf.all id then (if n then !v else v) else false) :: vf)
  | .opElse => match vf with | [] => none | b :: r => some ((!b) :: r)
  | .opEndif => match vf with | [] => none | _ :: r => some r

/-- pycoin: the same operations on the counters (`the_bool` is only read when executing: `make_if` passes `False`
otherwise) -/
def pyStep (c : CondStack) : CondOp → Option CondStack
  | .opIf v n => some (c.opIf (if c.allIfTrue then v else false) n)
  | .opElse => c.opElse.toOption
  | .opEndif => c.opEndif.toOption

theorem absC_false_zero (vf : List Bool) : (absC vf).falseCount = 0 ↔ vf.all id = true := by
  induction vf with
  | nil => simp [absC]
  | cons b r ih =>
    simp only [absC, List.all_cons, id, Bool.and_eq_true]
    by_cases h : (absC r).falseCount > 0
    · have h1 : ¬ ((absC r).falseCount = 0) := by omega
      have h2 : ¬ (r.all id = true) := fun hh => h1 (ih.mpr hh)
      simp only [h, if_true]
      constructor
      · intro hh; omega
      · intro hh; exact absurd hh.2 h2
    · have h0 : (absC r).falseCount = 0 := by omega
      have h2 : r.all id = true := ih.mp h0
      cases b <;> simp [h0, h2]

theorem absC_allIfTrue (vf : List Bool) : (absC vf).allIfTrue = vf.all id := by
  have h := absC_false_zero vf
  simp only [allIfTrue]
  cases hv : vf.all id
  · have : ¬ ((absC vf).falseCount = 0) := fun hh => by rw [h.mp hh] at hv; cases hv
    simp [this]
  · simp [h.mpr hv]

theorem absC_step (vf : List Bool) (op : CondOp) :
    pyStep (absC vf) op = (coreStep vf op).map absC := by
  cases op with
  | opIf v n =>
    simp only [pyStep, coreStep, Option.map, absC_allIfTrue]
    congr 1
    by_cases h : (absC vf).falseCount > 0
    · have hall : vf.all id = false := by
        cases hv : vf.all id
        · rfl
        · have := (absC_false_zero vf).mpr hv; omega
      simp [opIf, absC, h]
    · have h0 : (absC vf).falseCount = 0 := by omega
      have hall : vf.all id = true := (absC_false_zero vf).mp h0
      simp only [opIf, absC, h0, hall, if_true]
  | opElse =>
    cases vf with
    | nil => simp [pyStep, coreStep, absC, opElse, Except.toOption]
    | cons b r =>
      simp only [pyStep, coreStep, Option.map, absC]
      by_cases h : (absC r).falseCount > 0
      · have h1 : (absC r).falseCount + 1 > 1 := by omega
        simp [h, opElse, h1, Except.toOption]
      · have h0 : (absC r).falseCount = 0 := by omega
        cases b <;> simp [h0, opElse, Except.toOption]
  | opEndif =>
    cases vf with
    | nil => simp [pyStep, coreStep, absC, opEndif, Except.toOption]
    | cons b r =>
      simp only [pyStep, coreStep, Option.map, absC]
      by_cases h : (absC r).falseCount > 0
      · simp [h, opEndif, Except.toOption]
      · have h0 : (absC r).falseCount = 0 := by omega
        cases b <;> simp [h0, opEndif, Except.toOption]
        all_goals (cases hr : absC r; simp_all)

def runCore : List Bool → List CondOp → Option (List Bool)
  | vf, [] => some vf
  | vf, op :: ops => (coreStep vf op).bind (runCore · ops)

def runPy : CondStack → List CondOp → Option CondStack
  | c, [] => some c
  | c, op :: ops => (pyStep c op).bind (runPy · ops)

theorem absC_run (vf : List Bool) (ops : List CondOp) :
    runPy (absC vf) ops = (runCore vf ops).map absC := by
  induction ops generalizing vf with
  | nil => rfl
  | cons op ops ih =>
    simp only [runPy, runCore, absC_step]
    cases coreStep vf op with
    | none => rfl
    | some vf' => simp [ih]

theorem absC_final (vf : List Bool) : (absC vf).checkFinalState = .ok () ↔ vf = [] := by
  cases vf with
  | nil => simp [absC, checkFinalState]
  | cons b r =>
    simp only [absC, checkFinalState]
    by_cases h : (absC r).falseCount > 0
    · simp [h]
    · have h0 : (absC r).falseCount = 0 := by omega
      cases b <;> simp [h0]

theorem tw_snoc (l : List Bool) (x : Bool) :
    ((l ++ [x]).takeWhile id).length =
      (if (l.dropWhile id).length > 0 then (l.takeWhile id).length
       else if x then (l.takeWhile id).length + 1 else (l.takeWhile id).length) ∧
    ((l ++ [x]).dropWhile id).length =
      (if (l.dropWhile id).length > 0 then (l.dropWhile id).length + 1
       else if x then 0 else 1) := by
  induction l with
  | nil => cases x <;> simp
  | cons a l ih =>
    cases a
    · simp
    · simp only [List.cons_append, List.takeWhile_cons, List.dropWhile_cons, id, if_true, List.length_cons]
      refine ⟨?_, ih.2⟩
      rw [ih.1]
      split
      · rfl
      · split <;> rfl

/-- the formulation of DESIGN §6: seen from the outermost conditional, `trueCount` is the length of the leading
run of `true`s and `falseCount` what follows it -/
theorem absC_eq_takeWhile (vf : List Bool) :
    absC vf = ⟨(vf.reverse.takeWhile id).length, (vf.reverse.dropWhile id).length⟩ := by
  induction vf with
  | nil => rfl
  | cons b r ih =>
    have h := tw_snoc r.reverse b
    simp only [absC, List.reverse_cons]
    rw [ih, h.1, h.2]
    by_cases h1 : (r.reverse.dropWhile id).length > 0
    · simp [h1]
    · have h0 : (r.reverse.dropWhile id).length = 0 := by omega
      cases b <;> simp [h0]

end CondStack
end Pycoin.VM
