import Pycoin.Proofs.Bech32Err
import Pycoin.Gen.Bech32Syn
/-!
The table of single-error syndromes (`Gen/Bech32Syn.lean`) re-derived from the model in the kernel, the two symmetries
of the syndrome map used to shrink the weight-3/4 search (shift by a position, multiplication by a scalar of GF(32)),
and the decision procedure that the chunk files `Bech32SynA..D` evaluate, with its soundness proof.
Core Lean only.

Notation: `single j v` is the syndrome of the error word "symbol `v`, then `j` untouched symbols" (`v·x^j mod g`).
-/
namespace Pycoin.Bech32
open Pycoin.Gen.Codecs Pycoin.Gen.Bech32Syn

/-! ### small facts -/

theorem xor_eq_zero {a b : Nat} (h : a ^^^ b = 0) : a = b := by
  have := congrArg (· ^^^ b) h
  simpa [Nat.xor_assoc] using this

/-- two numbers whose xor is below 32 agree above the lowest five bits -/
theorem key_eq_of_xor_lt {a b : Nat} (h : a ^^^ b < 32) : a >>> 5 = b >>> 5 := by
  apply xor_eq_zero
  rw [← Nat.shiftRight_xor_distrib, Nat.shiftRight_eq_div_pow]
  exact Nat.div_eq_of_lt h

/-- one round with a zero symbol: multiplication by `x` modulo the generator polynomial -/
def stepM (c : Nat) : Nat := polymodStep c 0

theorem single_succ' (j v : Nat) : single (j + 1) v = stepM (single j v) := single_succ j v

theorem single_zero (v : Nat) (hv : v < 32) : single 0 v = v := by
  show polymodStep 0 v = v
  rw [polymodStep_small 0 v (by decide) hv]; omega

theorem single_val_zero (j : Nat) : single j 0 = 0 := by
  unfold single syndrome
  rw [← List.replicate_succ]
  exact syndrome_zeros (j + 1) 0 rfl

theorem single_lt (j v : Nat) (hv : v < 32) : single j v < 2 ^ 30 := by
  cases j with
  | zero => rw [single_zero v hv]; omega
  | succ j => rw [single_succ']; exact polymodStep_lt _ 0 (by decide)

/-! ### the table -/

/-- the symbol values 1..31 -/
def baseRow : List Nat := (List.range 31).map (· + 1)

theorem mem_baseRow {v : Nat} : v ∈ baseRow ↔ 1 ≤ v ∧ v < 32 := by
  unfold baseRow
  rw [List.mem_map]
  constructor
  · rintro ⟨a, ha, rfl⟩
    have := List.mem_range.mp ha
    omega
  · intro h
    exact ⟨v - 1, List.mem_range.mpr (by omega), by omega⟩

/-- syndromes of the 31 single errors at distance `j` from the end -/
def rowAt (j : Nat) : List Nat := baseRow.map (single j)

theorem rowAt_head (j : Nat) : (rowAt j).headD 0 = single j 1 := rfl

theorem mem_rowAt {j v : Nat} (h1 : 1 ≤ v) (h2 : v < 32) : single j v ∈ rowAt j :=
  List.mem_map.mpr ⟨v, mem_baseRow.mpr ⟨h1, h2⟩, rfl⟩

/-- `n` rows, each obtained from the previous one by `stepM` -/
def rowsFrom : Nat → List Nat → List (List Nat)
  | 0, _ => []
  | n + 1, r => r :: rowsFrom n (r.map stepM)

theorem rowAt_succ (j : Nat) : (rowAt j).map stepM = rowAt (j + 1) := by
  unfold rowAt
  rw [List.map_map]
  apply List.map_congr_left
  intro v _
  exact (single_succ' j v).symm

theorem rowsFrom_rowAt (n j : Nat) : rowsFrom n (rowAt j) = (List.range' j n).map rowAt := by
  induction n generalizing j with
  | zero => rfl
  | succ n ih => rw [rowsFrom, rowAt_succ, ih, List.range'_succ, List.map_cons]

theorem rowAt_zero : rowAt 0 = baseRow := by
  unfold rowAt
  conv => rhs; rw [← List.map_id baseRow]
  apply List.map_congr_left
  intro v hv
  exact single_zero v (mem_baseRow.mp hv).2

/-- **the generated table is the model's**: kernel evaluation of 88 × 31 rounds of `bech32_polymod` -/
theorem synRows_rowsFrom : synRows = rowsFrom 89 baseRow := by decide +kernel

theorem synRows_eq : synRows = (List.range' 0 89).map rowAt := by
  rw [synRows_rowsFrom, ← rowAt_zero, rowsFrom_rowAt]

theorem synRows_drop (s : Nat) : synRows.drop s = (List.range' s (89 - s)).map rowAt := by
  rw [synRows_eq, ← List.map_drop, List.drop_range']
  congr 2
  omega

theorem rowAt_mem_synRows {j : Nat} (hj : j < 89) : rowAt j ∈ synRows := by
  rw [synRows_eq]
  exact List.mem_map.mpr ⟨j, by rw [List.mem_range'_1]; omega, rfl⟩

/-! ### injectivity of the shift -/

theorem gmix_low_bits : ∀ t, t < 32 → gmix t % 32 = 0 → t = 0 := by decide +kernel

/-- `x` is invertible modulo the generator polynomial: a round with a zero symbol maps only 0 to 0 -/
theorem stepM_eq_zero {c : Nat} (hc : c < 2 ^ 30) (h : stepM c = 0) : c = 0 := by
  unfold stepM at h
  rw [polymodStep_eq, Nat.xor_zero] at h
  have h2 := xor_eq_zero h
  rw [andMask, Nat.shiftLeft_eq, Nat.shiftRight_eq_div_pow] at h2
  have ht : c / 2 ^ 25 < 32 := by
    apply Nat.div_lt_of_lt_mul
    exact hc
  have h3 : gmix (c / 2 ^ 25) % 32 = 0 := by
    rw [← h2]
    omega
  have h4 := gmix_low_bits _ ht h3
  rw [h4, gmix_zero] at h2
  omega

/-- `k` rounds with zero symbols -/
def shiftZ (k c : Nat) : Nat := (List.replicate k 0).foldl polymodStep c

theorem shiftZ_single (g k v : Nat) : shiftZ k (single g v) = single (g + k) v := foldl_zeros_single g k v

theorem shiftZ_xor (k a b : Nat) : shiftZ k (a ^^^ b) = shiftZ k a ^^^ shiftZ k b := by
  unfold shiftZ
  have h := foldl_polymodStep_xor (List.replicate k 0) (List.replicate k 0) rfl a b
  have hz : List.zipWith (· ^^^ ·) (List.replicate k 0) (List.replicate k 0) = List.replicate k 0 := by
    have := zipWith_zeros (List.replicate k 0)
    rwa [List.length_replicate] at this
  rwa [hz] at h

theorem shiftZ_eq_zero (k : Nat) {c : Nat} (hc : c < 2 ^ 30) (h : shiftZ k c = 0) : c = 0 := by
  induction k generalizing c with
  | zero => exact h
  | succ k ih =>
    unfold shiftZ at h
    rw [List.replicate_succ, List.foldl_cons] at h
    exact stepM_eq_zero hc (ih (polymodStep_lt c 0 (by decide)) h)

/-! ### multiplication by a scalar of GF(32)

`sigma` multiplies each of the six 5-bit groups of a state by the primitive element of GF(32) = GF(2)[a]/(a^5+a^3+1).
It is a witness: all that is used is that it is xor-linear (by construction), commutes with `stepM` on the table
(kernel evaluation) and permutes 1..31 in a single cycle (`decide`). -/

def sigma (c : Nat) : Nat :=
  ((c &&& 519552495) <<< 1) ^^^ ((((c >>> 4) &&& 34636833) <<< 3) ^^^ ((c >>> 4) &&& 34636833))

theorem sigma_xor (a b : Nat) : sigma (a ^^^ b) = sigma a ^^^ sigma b := by
  unfold sigma
  simp only [Nat.shiftRight_xor_distrib, Nat.and_xor_distrib_right, Nat.shiftLeft_xor_distrib]
  ac_rfl

theorem sigma_small : ∀ v, v < 32 → sigma v < 32 ∧ (1 ≤ v → 1 ≤ sigma v) := by decide +kernel

/-- kernel evaluation over the table: `sigma` commutes with `stepM` at every single-error syndrome -/
theorem sigma_table :
    synRows.all (fun r => r.all (fun c => sigma (stepM c) == stepM (sigma c))) = true := by decide +kernel

theorem sigma_single (j v : Nat) (hj : j < 89) (hv : v < 32) : sigma (single j v) = single j (sigma v) := by
  by_cases h0 : v = 0
  · subst h0
    have : sigma 0 = 0 := by decide
    rw [single_val_zero, this, single_val_zero]
  · induction j with
    | zero => rw [single_zero v hv, single_zero _ (sigma_small v hv).1]
    | succ j ih =>
      have h := sigma_table
      rw [List.all_eq_true] at h
      have h := h _ (rowAt_mem_synRows (j := j) (by omega))
      rw [List.all_eq_true] at h
      have h := h _ (mem_rowAt (j := j) (by omega) hv)
      rw [single_succ', single_succ', eq_of_beq h, ih (by omega)]

/-- `n`-fold scalar multiplication -/
def sigmaPow : Nat → Nat → Nat
  | 0, c => c
  | n + 1, c => sigmaPow n (sigma c)

theorem sigmaPow_xor (n a b : Nat) : sigmaPow n (a ^^^ b) = sigmaPow n a ^^^ sigmaPow n b := by
  induction n generalizing a b with
  | zero => rfl
  | succ n ih => rw [sigmaPow, sigma_xor, ih]; rfl

theorem sigmaPow_small (n v : Nat) (hv : v < 32) : sigmaPow n v < 32 ∧ (1 ≤ v → 1 ≤ sigmaPow n v) := by
  induction n generalizing v with
  | zero => exact ⟨hv, id⟩
  | succ n ih =>
    have hs := sigma_small v hv
    have := ih (sigma v) hs.1
    exact ⟨this.1, fun h1 => this.2 (hs.2 h1)⟩

theorem sigmaPow_single (n j v : Nat) (hj : j < 89) (hv : v < 32) :
    sigmaPow n (single j v) = single j (sigmaPow n v) := by
  induction n generalizing v with
  | zero => rfl
  | succ n ih => rw [sigmaPow, sigma_single j v hj hv, ih _ (sigma_small v hv).1]; rfl

/-- every non-zero symbol is carried to 1 by some power of the scalar -/
theorem sigma_orbit : ∀ c, c < 32 → 1 ≤ c → ∃ n, n < 31 ∧ sigmaPow n c = 1 := by decide +kernel

/-! ### keys and filters -/

/-- the keys: 0 and every single-error syndrome of rows 1..88 without its lowest five bits -/
def synKeys : List Nat := 0 :: synRows.tail.flatten.map (· >>> 5)

theorem zero_mem_synKeys : 0 ∈ synKeys := List.mem_cons_self

theorem key_mem_synKeys {j v : Nat} (hj1 : 1 ≤ j) (hj : j < 89) (hv1 : 1 ≤ v) (hv : v < 32) :
    single j v >>> 5 ∈ synKeys := by
  apply List.mem_cons_of_mem
  apply List.mem_map_of_mem
  rw [List.mem_flatten]
  refine ⟨rowAt j, ?_, mem_rowAt hv1 hv⟩
  have : synRows.tail = synRows.drop 1 := by rw [List.drop_one]
  rw [this, synRows_drop]
  exact List.mem_map.mpr ⟨j, by rw [List.mem_range'_1]; omega, rfl⟩

/-- the key of any single-error syndrome (any position below 89, any symbol below 32, zero included) is a key -/
theorem key_mem_synKeys' {j v : Nat} (hj : j < 89) (hv : v < 32) : single j v >>> 5 ∈ synKeys := by
  by_cases hv0 : v = 0
  · subst hv0; rw [single_val_zero]; exact zero_mem_synKeys
  · by_cases hj0 : j = 0
    · subst hj0
      rw [single_zero v hv, Nat.shiftRight_eq_div_pow, Nat.div_eq_of_lt hv]
      exact zero_mem_synKeys
    · exact key_mem_synKeys (by omega) hj (by omega) hv

/-- does `z` pass every filter?  (necessary for `z` to be a key) -/
def passAll : List (Nat × Nat) → Nat → Bool
  | [], _ => true
  | mF :: fs, z => mF.2.testBit (z % mF.1) && passAll fs z

/-- kernel evaluation: every generated filter has the bit of every key -/
theorem synFilters_ok :
    synFilters.all (fun mF => synKeys.all (fun u => mF.2.testBit (u % mF.1))) = true := by decide +kernel

theorem passAll_of_all (fs : List (Nat × Nat)) (keys : List Nat)
    (h : fs.all (fun mF => keys.all (fun u => mF.2.testBit (u % mF.1))) = true) {z : Nat} (hz : z ∈ keys) :
    passAll fs z = true := by
  induction fs with
  | nil => rfl
  | cons mF fs ih =>
    rw [List.all_cons, Bool.and_eq_true] at h
    rw [passAll, Bool.and_eq_true]
    exact ⟨List.all_eq_true.mp h.1 z hz, ih h.2⟩

theorem passAll_key {z : Nat} (hz : z ∈ synKeys) : passAll synFilters z = true :=
  passAll_of_all synFilters synKeys synFilters_ok hz

/-! ### the decision procedure -/

/-- no `y` of the row gives a lookup `(x xor y) >> 5` that passes all filters -/
def rowOk (fs : List (Nat × Nat)) (x : Nat) : List Nat → Bool
  | [] => true
  | y :: ys => !passAll fs ((x ^^^ y) >>> 5) && rowOk fs x ys

def rowsOk (fs : List (Nat × Nat)) (x : Nat) : List (List Nat) → Bool
  | [] => true
  | r :: rs => rowOk fs x r && rowsOk fs x rs

/-- for each of the first `m` rows: its first entry against every entry of every later row -/
def pairsOk (fs : List (Nat × Nat)) : Nat → List (List Nat) → Bool
  | 0, _ => true
  | _, [] => true
  | m + 1, r :: rs => rowsOk fs (r.headD 0) rs && pairsOk fs m rs

theorem rowOk_sound (fs : List (Nat × Nat)) (x : Nat) (r : List Nat) (h : rowOk fs x r = true) :
    ∀ y ∈ r, passAll fs ((x ^^^ y) >>> 5) = false := by
  induction r with
  | nil => intro y hy; cases hy
  | cons y0 ys ih =>
    rw [rowOk, Bool.and_eq_true] at h
    intro y hy
    rcases List.mem_cons.mp hy with rfl | hy
    · simpa using h.1
    · exact ih h.2 y hy

theorem rowsOk_sound (fs : List (Nat × Nat)) (x : Nat) (rs : List (List Nat)) (h : rowsOk fs x rs = true) :
    ∀ r ∈ rs, ∀ y ∈ r, passAll fs ((x ^^^ y) >>> 5) = false := by
  induction rs with
  | nil => intro r hr; cases hr
  | cons r0 rs ih =>
    rw [rowsOk, Bool.and_eq_true] at h
    intro r hr
    rcases List.mem_cons.mp hr with rfl | hr
    · exact rowOk_sound fs x _ h.1
    · exact ih h.2 r hr

/-- soundness of `pairsOk` on consecutive rows `s, s+1, …, s+n-1` of the table -/
theorem pairsOk_sound (fs : List (Nat × Nat)) (m s n : Nat)
    (h : pairsOk fs m ((List.range' s n).map rowAt) = true)
    (k l d : Nat) (hk : s ≤ k) (hkm : k < s + m) (hkl : k < l) (hl : l < s + n) (hd1 : 1 ≤ d) (hd : d < 32) :
    passAll fs ((single k 1 ^^^ single l d) >>> 5) = false := by
  induction m generalizing s n with
  | zero => omega
  | succ m ih =>
    cases n with
    | zero => omega
    | succ n =>
      rw [List.range'_succ, List.map_cons, pairsOk, Bool.and_eq_true] at h
      by_cases hks : k = s
      · subst hks
        have hmem : rowAt l ∈ (List.range' (k + 1) n).map rowAt :=
          List.mem_map.mpr ⟨l, by rw [List.mem_range'_1]; omega, rfl⟩
        have := rowsOk_sound fs _ _ h.1 _ hmem _ (mem_rowAt (j := l) hd1 hd)
        rwa [rowAt_head] at this
      · exact ih (s + 1) n h.2 (by omega) (by omega) (by omega)

/-- what the four chunk files prove together -/
def SynChecked : Prop :=
  ∀ k l d, 1 ≤ k → k < l → l < 89 → 1 ≤ d → d < 32 →
    passAll synFilters ((single k 1 ^^^ single l d) >>> 5) = false

/-- a chunk: rows `s .. s+m-1` as the lower position -/
theorem chunk_sound (s m : Nat) (h : pairsOk synFilters m (synRows.drop s) = true)
    (k l d : Nat) (hk : s ≤ k) (hkm : k < s + m) (hkl : k < l) (hl : l < 89) (hd1 : 1 ≤ d) (hd : d < 32) :
    passAll synFilters ((single k 1 ^^^ single l d) >>> 5) = false := by
  rw [synRows_drop] at h
  exact pairsOk_sound synFilters m s (89 - s) h k l d hk hkm hkl (by omega) hd1 hd

/-! ### from the checked table to "three singles never cancel above bit 5" -/

/-- **core.** With `k < l` non-zero positions below 89 and `c`, `d` non-zero symbols: the xor of the two single-error
syndromes and of any third one (any position, any symbol, zero allowed) is never below 32.  Proof: a scalar
multiplication brings `c` to 1; the result says that a checked lookup is a key. -/
theorem core_of_checked (H : SynChecked) (k l c d j v : Nat) (hk : 1 ≤ k) (hkl : k < l) (hl : l < 89)
    (hc1 : 1 ≤ c) (hc : c < 32) (hd1 : 1 ≤ d) (hd : d < 32) (hj : j < 89) (hv : v < 32) :
    ¬ (single k c ^^^ single l d ^^^ single j v < 32) := by
  intro hw
  obtain ⟨n, _, hn⟩ := sigma_orbit c hc hc1
  have hw' := (sigmaPow_small n _ hw).1
  rw [sigmaPow_xor, sigmaPow_xor, sigmaPow_single n k c (by omega) hc, sigmaPow_single n l d hl hd,
    sigmaPow_single n j v hj hv, hn] at hw'
  have hd' := sigmaPow_small n d hd
  have hkey := key_eq_of_xor_lt hw'
  have hmem := key_mem_synKeys' (j := j) (v := sigmaPow n v) hj (sigmaPow_small n v hv).1
  rw [← hkey] at hmem
  have := H k l (sigmaPow n d) hk hkl hl (hd'.2 hd1) hd'.1
  rw [passAll_key hmem] at this
  cases this

end Pycoin.Bech32
