import Pycoin.Proofs.ChainSplit
/-! `missing_parents()`: what the finder still waits on (core Lean only) -/
namespace Pycoin.Chain

/-- `top in missing_parents()` with somebody still waiting on it -/
def CF.waitedOn (cf : CF) (top : Nat) : Bool :=
  match dget cf.dbt top with
  | some (_ :: _) => true
  | _ => false

theorem UpPath.before_last {pl : Dict Nat} : ∀ (t : List Nat) (top : Nat), UpPath pl t → 2 ≤ t.length →
    t.getLast? = some top → ∃ x, dget pl x = some top
  | [], _, h, _, _ => absurd h (by simp [UpPath])
  | [_], _, _, hl, _ => by simp at hl
  | [x, y], top, h, _, hl => by
      simp only [UpPath] at h
      simp at hl; subst hl
      exact ⟨x, h.1⟩
  | x :: y :: z :: r, top, h, _, hl => by
      simp only [UpPath] at h
      exact UpPath.before_last (y :: z :: r) top (by simpa [UpPath] using h.2) (by simp)
        (by simpa [List.getLast?_cons_cons] using hl)

theorem UpPath.unreg_is_last {pl : Dict Nat} : ∀ (t : List Nat) (x : Nat), UpPath pl t → x ∈ t → dget pl x = none →
    t.getLast? = some x
  | [], _, h, _, _ => absurd h (by simp [UpPath])
  | [y], x, _, hm, _ => by simp at hm; subst hm; simp
  | y :: z :: r, x, h, hm, hx => by
      simp only [UpPath] at h
      rcases List.mem_cons.mp hm with e | hm
      · subst e; rw [h.1] at hx; cases hx
      · rw [List.getLast?_cons_cons]
        exact UpPath.unreg_is_last (z :: r) x h.2 hm hx

/-- the hashes somebody waits on are exactly the parents of registered headers that are not registered themselves -/
theorem FinderOK.waitedOn_iff {cf : CF} (fo : FinderOK cf) (top : Nat) :
    cf.waitedOn top = true ↔ dget cf.parent top = none ∧ ∃ h, dget cf.parent h = some top := by
  unfold CF.waitedOn
  constructor
  · intro hw
    cases hd : dget cf.dbt top with
    | none => simp [hd] at hw
    | some s =>
      cases s with
      | nil => simp [hd] at hw
      | cons b r =>
        obtain ⟨t, ht, hl⟩ := fo.inv.dsound top (b :: r) b hd (by simp)
        obtain ⟨_, h2, hq⟩ := fo.inv.tree b t ht
        have hu := (UpQ_nil_iff _ _).mp hq
        exact ⟨UpPath.last_unregistered _ hu top hl, UpPath.before_last t top hu h2 hl⟩
  · rintro ⟨hn, h, hh⟩
    rcases fo.inv.covers h top hh (by simp) with ⟨b, t, hb, hm⟩ | hx
    · have hu := (UpQ_nil_iff _ _).mp (fo.inv.tree b t hb).2.2
      have hlast := UpPath.unreg_is_last t top hu (UpPath.succ_mem t hu h top hm hh) hn
      obtain ⟨top', s, hl', hd, hbs⟩ := fo.inv.dcompl b t hb
      rw [hlast] at hl'
      simp only [Option.some.injEq] at hl'
      subst hl'
      rw [hd]
      cases s with
      | nil => simp at hbs
      | cons _ _ => rfl
    · simp at hx

end Pycoin.Chain
