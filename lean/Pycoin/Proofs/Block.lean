import Pycoin.Props.C07
import Pycoin.Spec.Block
/-! Lemmas for C14 (blocks): header and block codecs obey the prefix law, their streams equal the independent wire format. -/
namespace Pycoin
open Pycoin.Wire Pycoin.Msg

structure Header.WF (h : Header) : Prop where
  version : U32 h.version
  prev : h.prev.length = 32
  root : h.merkleRoot.length = 32
  timestamp : U32 h.timestamp
  difficulty : U32 h.difficulty
  nonce : U32 h.nonce

theorem le_length (k n : Nat) : (Spec.Wire.le k n).length = k := by
  rw [le_eq_leBytes]; simp

theorem Block.streamHeader_eq (h : Header) (hwf : h.WF) : Block.streamHeader h = .ok (Spec.Block.header h) := by
  have h1 : List.take 32 h.prev = h.prev := List.take_of_length_le (by rw [hwf.prev]; exact Nat.le_refl _)
  have h2 : List.take 32 h.merkleRoot = h.merkleRoot := List.take_of_length_le (by rw [hwf.root]; exact Nat.le_refl _)
  simp [Block.streamHeader, Gen.Messages.block_stream_header_stream, streamStruct, tbl_hash, tbl_L, streamLetter,
    packLE4_eq _ hwf.version, packLE4_eq _ hwf.timestamp, packLE4_eq _ hwf.difficulty, packLE4_eq _ hwf.nonce, h1, h2,
    Spec.Block.header]

theorem Spec.Block.header_length (h : Header) (hp : h.prev.length = 32) (hr : h.merkleRoot.length = 32) :
    (Spec.Block.header h).length = 80 := by
  simp [Spec.Block.header, le_length, hp, hr]

theorem Block.header_law : PrefixLaw Block.streamHeader Block.parseAsHeader
    (fun h => h.prev.length = 32 ∧ h.merkleRoot.length = 32) := by
  intro h b rest ⟨hp, hr⟩ hs
  have hwf : StructWF tbl Gen.Messages.block_parse_as_header_parse
      [.int h.version, .bytes h.prev, .bytes h.merkleRoot, .int h.timestamp, .int h.difficulty, .int h.nonce] := by
    simp [Gen.Messages.block_parse_as_header_parse, StructWF, tbl_hash, tbl_L, LetterWF, hp, hr]
  have h' : streamStruct tbl Gen.Messages.block_parse_as_header_parse
      [.int h.version, .bytes h.prev, .bytes h.merkleRoot, .int h.timestamp, .int h.difficulty, .int h.nonce] = .ok b := by
    simpa [Block.streamHeader, Gen.Messages.block_parse_as_header_parse, Gen.Messages.block_stream_header_stream] using hs
  have := parseStruct_streamStruct tbl _ _ b rest hwf h'
  cases h
  simp [Block.parseAsHeader, this]


/-- a block object the wire can carry: header in range, 1 ≤ #tx < 2^64, every transaction in range with ≥ 1 input -/
structure Block.WF (blk : Block) : Prop where
  hdr : blk.hdr.WF
  nonempty : 1 ≤ blk.txs.length
  count : blk.txs.length < 2 ^ 64
  txs : ∀ t ∈ blk.txs, t.WF ∧ 1 ≤ t.ins.length

theorem Block.stream_parts (blk : Block) (b : Bytes) (hne : 1 ≤ blk.txs.length) (h : Block.stream blk = .ok b) :
    ∃ hb nb body, Block.streamHeader blk.hdr = .ok hb ∧ streamStruct tbl ['I'] [.int blk.txs.length] = .ok nb ∧
      streamList (fun t : Tx => t.stream) blk.txs = .ok body ∧ b = hb ++ (nb ++ body) := by
  unfold Block.stream at h
  cases hh : Block.streamHeader blk.hdr with
  | error e => simp [hh] at h
  | ok hb =>
    simp only [hh] at h
    unfold Block.streamTransactions at h
    have hne' : blk.txs.isEmpty = false := by
      cases hx : blk.txs with
      | nil => rw [hx] at hne; simp at hne
      | cons a as => rfl
    simp only [hne', Bool.false_eq_true, if_false, Gen.Messages.block_stream_transactions_stream_count] at h
    cases hn : streamStruct tbl ['I'] [.int blk.txs.length] with
    | error e => simp [hn] at h
    | ok nb =>
      simp only [hn] at h
      cases hb' : streamList (fun t : Tx => t.stream) blk.txs with
      | error e => simp [hb'] at h
      | ok body =>
        simp only [hb'] at h
        exact ⟨hb, nb, body, rfl, rfl, rfl, (Except.ok.inj h).symm⟩

/-- parsing a streamed block up to (not including) `set_txs` -/
theorem Block.parse_stream_core (c : Coin) (blk : Block) (hwf : blk.WF) (b rest : Bytes) (check : Bool)
    (hs : Block.stream blk = .ok b) :
    Block.parse c true check (b ++ rest) =
      (match Block.setTxs c blk.hdr blk.txs check with
       | .error e => .error e
       | .ok blk' => .ok (blk', rest)) := by
  obtain ⟨hb, nb, body, h1, h2, h3, rfl⟩ := Block.stream_parts blk b hwf.nonempty hs
  have l1 := Block.header_law blk.hdr hb ((nb ++ body) ++ rest) ⟨hwf.hdr.prev, hwf.hdr.root⟩ h1
  have l2 := parseStruct_streamStruct tbl ['I'] [.int blk.txs.length] nb (body ++ rest)
    (by simp [StructWF, tbl_I, LetterWF]) h2
  have l3 := parseN_streamList (tx_law c) blk.txs body rest hwf.txs h3
  unfold Block.parse
  simp only [List.append_assoc] at l1 l2 ⊢
  simp only [l1, if_true, Gen.Messages.block_parse_parse_count, l2, Int.toNat_natCast, l3]
  rfl


theorem txs_ne_nil {blk : Block} (h : 1 ≤ blk.txs.length) : blk.txs.isEmpty = false := by
  cases hx : blk.txs with
  | nil => rw [hx] at h; simp at h
  | cons a as => rfl

theorem leNat_lt4 (x : Bytes) (hx : x.length = 4) : leNat x < 4294967296 := by
  have := leNat_lt x
  rw [hx] at this
  have e : (256:Nat) ^ 4 = 4294967296 := by decide
  omega

theorem packLE4_leNat (x : Bytes) (hx : x.length = 4) : packLE 4 (leNat x : Int) = .ok x := by
  have h1 := leNat_lt4 x hx
  have h2 := packLE4_eq (leNat x : Int) ⟨by omega, by omega⟩
  rw [h2, le_eq_leBytes, Int.toNat_natCast]
  rw [← hx, leBytes_leNat]

theorem Block.streamHeader_of (v t d n : Int) (p m bv bt bd bn : Bytes) (hv : packLE 4 v = .ok bv)
    (ht : packLE 4 t = .ok bt) (hd : packLE 4 d = .ok bd) (hn : packLE 4 n = .ok bn)
    (hp : p.take 32 = p) (hm : m.take 32 = m) :
    Block.streamHeader ⟨v, p, m, t, d, n⟩ = .ok (bv ++ (p ++ (m ++ (bt ++ (bd ++ bn))))) := by
  simp only [Block.streamHeader, Gen.Messages.block_stream_header_stream, streamStruct, tbl_hash, tbl_L, streamLetter,
    hv, ht, hd, hn, hp, hm, List.append_nil]

theorem Block.streamHeader_pieces (a p m t d n : Bytes) (ha : a.length = 4) (hp : p.length = 32) (hm : m.length = 32)
    (ht : t.length = 4) (hd : d.length = 4) (hn : n.length = 4) :
    Block.streamHeader ⟨leNat a, p, m, leNat t, leNat d, leNat n⟩ = .ok (a ++ (p ++ (m ++ (t ++ (d ++ n))))) :=
  Block.streamHeader_of _ _ _ _ _ _ _ _ _ _ (packLE4_leNat _ ha) (packLE4_leNat _ ht) (packLE4_leNat _ hd)
    (packLE4_leNat _ hn) (List.take_of_length_le (by omega)) (List.take_of_length_le (by omega))

/-- at least 80 bytes always parse as a header: the header whose stream is exactly those 80 bytes -/
theorem Block.parseAsHeader_of_80 (data : Bytes) (hlen : 80 ≤ data.length) :
    ∃ h : Header, Block.parseAsHeader data = .ok (h, data.drop 80) ∧ Block.streamHeader h = .ok (data.take 80) := by
  let r1 := data.drop 4
  let r2 := r1.drop 32
  let r3 := r2.drop 32
  let r4 := r3.drop 4
  let r5 := r4.drop 4
  have hd : data = (data.take 4 ++ (r1.take 32 ++ (r2.take 32 ++ (r3.take 4 ++ (r4.take 4 ++ r5.take 4))))) ++ r5.drop 4 := by
    simp only [List.append_assoc, List.take_append_drop, r1, r2, r3, r4, r5]
  have hs := Block.streamHeader_pieces (data.take 4) (r1.take 32) (r2.take 32) (r3.take 4) (r4.take 4) (r5.take 4)
    (by simp; omega) (by simp [r1]; omega) (by simp [r1, r2]; omega) (by simp [r1, r2, r3]; omega)
    (by simp [r1, r2, r3, r4]; omega) (by simp [r1, r2, r3, r4, r5]; omega)
  have hl : (data.take 4 ++ (r1.take 32 ++ (r2.take 32 ++ (r3.take 4 ++ (r4.take 4 ++ r5.take 4))))).length = 80 := by
    simp [r1, r2, r3, r4, r5]; omega
  have e1 : data.take 80 = data.take 4 ++ (r1.take 32 ++ (r2.take 32 ++ (r3.take 4 ++ (r4.take 4 ++ r5.take 4)))) := by
    conv => lhs; rw [hd]
    exact List.take_left' hl
  have e2 : data.drop 80 = r5.drop 4 := by
    conv => lhs; rw [hd]
    exact List.drop_left' hl
  refine ⟨_, ?_, by rw [e1]; exact hs⟩
  have := Block.header_law _ _ (r5.drop 4) ⟨by simp [r1]; omega, by simp [r1, r2]; omega⟩ hs
  rw [← hd] at this
  rw [e2]; exact this

end Pycoin
