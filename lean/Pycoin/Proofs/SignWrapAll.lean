import Pycoin.Proofs.SignWrap
import Pycoin.Proofs.SignLink
/-!
C05 — the four ways the solver wraps a multisig script, uniformly: scriptPubKey, scriptSig and witness as `Solver.solve` writes
them from the solved stack items, and `VerifyScript` of the wrapped spend as the verdict on the inner script's run.
-/
namespace Pycoin.Sign
open Pycoin Pycoin.Spec.Consensus

inductive Wrap
  | bare | p2sh | p2wsh | p2shP2wsh
  deriving DecidableEq, Repr

def Wrap.witness : Wrap → Bool
  | .p2wsh => true | .p2shP2wsh => true | _ => false

def Wrap.sv (w : Wrap) : SigVersion := if w.witness then .witnessV0 else .base

/-- the scriptPubKey of script `ms` wrapped as `w` -/
def Wrap.spk (w : Wrap) (ms : Bytes) : Bytes :=
  match w with
  | .bare => ms
  | .p2sh => p2shScript (Hash.hash160 ms)
  | .p2wsh => witnessV0Script (Hash.sha256 ms)
  | .p2shP2wsh => p2shScript (Hash.hash160 (witnessV0Script (Hash.sha256 ms)))

/-- the scriptSig; `items` = the solved stack items, bottom first -/
def Wrap.scriptSig (w : Wrap) (ms : Bytes) (items : List Bytes) : Bytes :=
  match w with
  | .bare => pushesOf items
  | .p2sh => pushesOf items ++ pushData ms
  | .p2wsh => []
  | .p2shP2wsh => pushesOf [witnessV0Script (Hash.sha256 ms)]

/-- the witness -/
def Wrap.wit (w : Wrap) (ms : Bytes) (items : List Bytes) : List Bytes := if w.witness then items ++ [ms] else []

/-- what follows the solved items among the blobs the next pass reads: the pushed redeem script / the witness script -/
def Wrap.extra (w : Wrap) (ms : Bytes) : List Bytes :=
  match w with
  | .bare => []
  | _ => [ms]

/-- how the stack the inner script leaves is judged -/
def Wrap.verdict (w : Wrap) (flags : Flags) : Res (List Bytes) → Option ScriptError :=
  if w.witness then witnessVerdict else legacyVerdict flags

/-- side conditions of a wrapper: the flags that make consensus look inside it; hash lengths; a script hash that is not all
zero bytes; under P2SH the 520-byte limit on the pushed redeem script -/
structure Wrap.Ok (w : Wrap) (ms : Bytes) (flags : Flags) : Prop where
  inner : isWitnessProgram ms = none ∧ isPayToScriptHash ms = false ∧ 2 ≤ ms.length
  p2sh : (w = .p2sh ∨ w = .p2shP2wsh) → flags.p2sh = true
  wit : w.witness = true → flags.witness = true ∧ (Hash.sha256 ms).length = 32 ∧ castToBool (Hash.sha256 ms) = true
  h160 : w = .p2sh → (Hash.hash160 ms).length = 20 ∧ ms.length ≤ 520
  h160w : w = .p2shP2wsh → (Hash.hash160 (witnessV0Script (Hash.sha256 ms))).length = 20

/-- **`VerifyScript` of a wrapped spend = the verdict on the inner script run on the solved items.** -/
theorem verifyScript_wrap_eq (chk : PChk) (w : Wrap) (ms : Bytes) (items : List Bytes) (flags : Flags) (tx : TxCtx)
    (ok : w.Ok ms flags) (hitems : ∀ d ∈ items, d.length = 0 ∨ (2 ≤ d.length ∧ d.length ≤ 75)) (hcount : items.length ≤ 30) :
    verifyScript chk (w.scriptSig ms items) (w.spk ms) (w.wit ms items) flags tx =
      w.verdict flags (evalScript chk items.reverse ms flags tx w.sv) := by
  have h75 : ∀ d ∈ items, d.length ≤ 75 := fun d hd => by rcases hitems d hd with h | h <;> omega
  have h520 : ∀ d ∈ items, d.length ≤ 520 := fun d hd => by have := h75 d hd; omega
  cases w with
  | bare =>
    exact verifyScript_bare_eq chk _ ms flags tx items.reverse (isPushOnly_pushes _ h75)
      (evalScript_pushes chk items flags tx hitems (by omega)) ok.inner.1 ok.inner.2.1
  | p2sh =>
    obtain ⟨h20, hsz⟩ := ok.h160 rfl
    exact verifyScript_p2sh_eq chk _ ms _ items.reverse flags tx (ok.p2sh (Or.inl rfl))
      (isPushOnly_pushes_pushData items ms h75 hsz)
      (evalScript_pushes_pushData chk items ms flags tx hitems (by omega) ok.inner.2.2 hsz) rfl h20
      (by simp; omega) ok.inner.1
  | p2wsh =>
    obtain ⟨hw, h32, htrue⟩ := ok.wit rfl
    exact verifyScript_p2wsh_eq chk items ms _ flags tx hw rfl h32 htrue h520
  | p2shP2wsh =>
    obtain ⟨hw, h32, htrue⟩ := ok.wit rfl
    exact verifyScript_p2sh_p2wsh_eq chk items ms _ _ flags tx (ok.p2sh (Or.inr rfl)) hw rfl h32 htrue rfl (ok.h160w rfl) h520

theorem Wrap.verdict_true (w : Wrap) (flags : Flags) : w.verdict flags (.ok [[1]]) = none := by
  unfold Wrap.verdict; split
  · exact witnessVerdict_true
  · exact legacyVerdict_true flags

theorem Wrap.verdict_ne_none (w : Wrap) (flags : Flags) {r : Res (List Bytes)} {rest : List Bytes}
    (h : (∃ e, r = .error e) ∨ r = .ok ([] :: rest)) : w.verdict flags r ≠ none := by
  unfold Wrap.verdict; split
  · exact witnessVerdict_ne_none h
  · exact legacyVerdict_ne_none h

/-! ### what `compile_push_data_list` writes -/

theorem compilePushDataList_append (a b : List (Option Bytes)) :
    Script.compilePushDataList (a ++ b) =
      (match Script.compilePushDataList a, Script.compilePushDataList b with
       | .ok x, .ok y => .ok (x ++ y)
       | .error e, _ => .error e
       | .ok _, .error e => .error e) := by
  induction a with
  | nil =>
    simp only [List.nil_append, Script.compilePushDataList]
    cases Script.compilePushDataList b <;> simp
  | cons o r ih =>
    cases o with
    | none => simpa [Script.compilePushDataList] using ih
    | some d =>
      simp only [List.cons_append, Script.compilePushDataList, ih]
      cases Script.compilePushData d with
      | error e => simp [bind, Except.bind]
      | ok x =>
        cases Script.compilePushDataList r with
        | error e => simp [bind, Except.bind]
        | ok y =>
          cases Script.compilePushDataList b with
          | error e => simp [bind, Except.bind, pure, Except.pure]
          | ok z => simp [bind, Except.bind, pure, Except.pure]

/-- pycoin's `compile_push_data` and Core's `CScript << vch` agree from two bytes on (below that pycoin uses `OP_n`) -/
theorem minimalPush_eq_pushData (d : Bytes) (h2 : 2 ≤ d.length) (h : d.length ≤ 65535) : Spec.minimalPush d = pushData d := by
  have hs : Spec.smallIntOpcode d = none := by
    match d, h2 with
    | a :: b :: t, _ => rfl
  unfold Spec.minimalPush
  rw [hs]
  simp only []
  by_cases h75 : d.length ≤ 75
  · rw [if_pos h75, pushData_direct d h75]
  · rw [if_neg h75]
    by_cases h255 : d.length ≤ 255
    · rw [if_pos h255, pushData_1 d h75 h255]
      have : d.length % 256 = d.length := Nat.mod_eq_of_lt (by omega)
      simp [leBytes, this]
    · rw [if_neg h255, if_pos h, pushData_2 d h255 h]

/-- the P2SH scriptSig of the model: the items as direct pushes, then the redeem script -/
theorem pushAll_items_redeem (items : List Bytes) (ms : Bytes)
    (hitems : ∀ d ∈ items, d.length = 0 ∨ (2 ≤ d.length ∧ d.length ≤ 75)) (h2 : 2 ≤ ms.length) (h : ms.length ≤ 65535) :
    pushAll (items.map some ++ [some ms]) = .ok (pushesOf items ++ pushData ms) := by
  have h1 := pushAll_direct items hitems
  unfold pushAll at h1 ⊢
  rw [compilePushDataList_append]
  cases hc : Script.compilePushDataList (items.map some) with
  | error e => rw [hc] at h1; cases h1
  | ok x =>
    rw [hc] at h1
    simp only [Except.ok.injEq] at h1
    subst h1
    have : Script.compilePushDataList [some ms] = .ok (pushData ms) := by
      simp only [Script.compilePushDataList]
      rw [Script.compilePushData_eq ms (by omega), minimalPush_eq_pushData ms h2 h]
      simp [bind, Except.bind, pure, Except.pure]
    rw [this]

end Pycoin.Sign
