import Pycoin.Proofs.SignWrapAll
import Pycoin.Proofs.SignReject
/-!
C06 — rejecting runs of the consensus specification on the standard single-signature templates (the multisig ones are in
`Proofs/SignReject.lean`): a failed `CheckSig` makes `OP_CHECKSIG` push false (NULLFAIL off), a wrong hash makes
`OP_EQUALVERIFY` fail / `OP_EQUAL` push false, a wrong witness program is a mismatch.  Every lemma concludes
"an error, or a false on top of the stack", which the verdict lemmas of `Proofs/SignWrap.lean` turn into
`VerifyScript ≠ success`.
-/
namespace Pycoin.Sign
open Pycoin Pycoin.Spec.Consensus

section ops
variable (chk : PChk) (env : Env) (alt : List Bytes) (nOp cs pcNext : Nat)

/-- `OP_CHECKSIG` with a signature and key that pass the encoding rules, NULLFAIL off: pushes the verdict of `CheckSig` -/
theorem stepP_checksig_gen (sig key : Bytes) (stack : List Bytes) (hops : nOp + 1 ≤ 201)
    (hst : stack.length + alt.length + 1 ≤ 1000)
    (hsig : checkSignatureEncoding sig env.flags = none) (hkey : checkPubKeyEncoding key env.flags env.sigversion = none)
    (hnf : env.flags.nullfail = false) :
    stepP chk env ⟨key :: sig :: stack, alt, [], nOp, cs⟩ 0xac [] pcNext =
      .ok ⟨boolBytes (chk sig key (scriptCodeFor env ⟨key :: sig :: stack, alt, [], nOp + 1, cs⟩ [sig]) env.sigversion) :: stack,
        alt, [], nOp + 1, cs⟩ := by
  unfold stepP stepM
  have h1 : ¬ ([] : Bytes).length > MAX_SCRIPT_ELEMENT_SIZE := by simp [MAX_SCRIPT_ELEMENT_SIZE]
  have h3 : ¬ nOp + 1 > MAX_OPS_PER_SCRIPT := by simp [MAX_OPS_PER_SCRIPT]; omega
  simp only [h1, h3, if_false, List.all_nil, show (0xac : Nat) > OP_16 from by decide, if_true,
    show isDisabledOpcode 0xac = false from by decide, Bool.false_eq_true,
    show ¬ (0xac : Nat) ≤ OP_PUSHDATA4 from by decide, Bool.true_and, decide_false, Bool.and_false, Bool.true_or,
    show ((0xac : Nat) == OP_CHECKSIG || (0xac : Nat) == OP_CHECKSIGVERIFY) = true from by decide]
  simp only [execCheckSig, hsig, hkey, liftChk, hnf, bind, pure, Id.run]
  simp [OP_CHECKSIGVERIFY, MAX_STACK_SIZE]
  omega

/-- `OP_EQUALVERIFY` on two different items fails -/
theorem stepP_equalverify_ne (x y : Bytes) (stack : List Bytes) (hne : x ≠ y) (hops : nOp + 1 ≤ 201) :
    stepP chk env ⟨x :: y :: stack, alt, [], nOp, cs⟩ 0x88 [] pcNext = .error .EQUALVERIFY := by
  rw [stepP_nonpush chk env pcNext _ 0x88 rfl (by decide) (by decide) hops (by decide) (by decide)]
  have : (y == x) = false := by simpa using fun h => hne h.symm
  simp [execOp, this, OP_1NEGATE, OP_1, OP_16, OP_NOP, OP_CHECKLOCKTIMEVERIFY, OP_CHECKSEQUENCEVERIFY, OP_NOP1, OP_NOP4, OP_NOP10,
    OP_IF, OP_NOTIF, OP_ELSE, OP_ENDIF, OP_VERIFY, OP_RETURN, OP_TOALTSTACK, OP_FROMALTSTACK, OP_2DROP, OP_2DUP, OP_3DUP,
    OP_2OVER, OP_2ROT, OP_2SWAP, OP_IFDUP, OP_DEPTH, OP_DROP, OP_DUP, OP_NIP, OP_OVER, OP_PICK, OP_ROLL, OP_ROT, OP_SWAP,
    OP_TUCK, OP_SIZE, OP_EQUAL, OP_EQUALVERIFY, MAX_STACK_SIZE]

/-- `OP_EQUAL` on two different items pushes false -/
theorem stepP_equal_ne (x y : Bytes) (stack : List Bytes) (hne : x ≠ y) (hops : nOp + 1 ≤ 201)
    (hst : stack.length + alt.length + 1 ≤ 1000) :
    stepP chk env ⟨x :: y :: stack, alt, [], nOp, cs⟩ 0x87 [] pcNext = .ok ⟨[] :: stack, alt, [], nOp + 1, cs⟩ := by
  rw [stepP_nonpush chk env pcNext _ 0x87 rfl (by decide) (by decide) hops (by decide) (by decide)]
  have : (y == x) = false := by simpa using fun h => hne h.symm
  simp [execOp, this, boolBytes, vchFalse, OP_1NEGATE, OP_1, OP_16, OP_NOP, OP_CHECKLOCKTIMEVERIFY, OP_CHECKSEQUENCEVERIFY, OP_NOP1, OP_NOP4, OP_NOP10,
    OP_IF, OP_NOTIF, OP_ELSE, OP_ENDIF, OP_VERIFY, OP_RETURN, OP_TOALTSTACK, OP_FROMALTSTACK, OP_2DROP, OP_2DUP, OP_3DUP,
    OP_2OVER, OP_2ROT, OP_2SWAP, OP_IFDUP, OP_DEPTH, OP_DROP, OP_DUP, OP_NIP, OP_OVER, OP_PICK, OP_ROLL, OP_ROT, OP_SWAP,
    OP_TUCK, OP_SIZE, OP_EQUAL, OP_EQUALVERIFY, MAX_STACK_SIZE]
  omega

end ops

theorem evalLoopP_step_err (chk : PChk) (env : Env) (b : UInt8) (r : Bytes) (pc : Nat) (st : State) (e : ScriptError)
    {op : Nat} {data rest' : Bytes} {size : Nat} (h : getScriptOp (b :: r) = some (op, data, rest', size))
    (hs : stepP chk env st op data (pc + size) = .error e) :
    evalLoopP chk env (b :: r) pc st = .error e := by
  rw [evalLoopP_cons _ _ _ _ _ _ h, hs]

theorem evalScript_of_loop_err (chk : PChk) (stack : List Bytes) (script : Bytes) (flags : Flags) (tx : TxCtx) (sv : SigVersion)
    (hlen : script.length ≤ 10000) (e : ScriptError)
    (h : evalLoopP chk ⟨script, flags, sv, tx⟩ script 0 ⟨stack, [], [], 0, 0⟩ = .error e) :
    evalScript chk stack script flags tx sv = .error e := by
  rw [evalScript_eq _ _ _ _ _ _ hlen, h]

/-- the script code `CheckSig` is given at a `CHECKSIG` of a script without `OP_CODESEPARATOR` executed so far -/
theorem scriptCodeFor_start (script : Bytes) (flags : Flags) (sv : SigVersion) (tx : TxCtx) (st : State) (sigs : List Bytes)
    (hst : st.codeSep = 0) :
    scriptCodeFor ⟨script, flags, sv, tx⟩ st sigs = scriptCodeFor ⟨script, flags, sv, tx⟩ ⟨[], [], [], 0, 0⟩ sigs := by
  simp [scriptCodeFor, hst]

/-- **P2PKH, rejecting runs**: a key that does not hash to the committed value fails at `EQUALVERIFY`; a signature that
`CheckSig` refuses leaves false (NULLFAIL off) -/
theorem evalScript_p2pkh_bad (chk : PChk) (sig key h : Bytes) (flags : Flags) (tx : TxCtx) (sv : SigVersion)
    (hlen : h.length = 20)
    (hsig : checkSignatureEncoding sig flags = none) (hkey : checkPubKeyEncoding key flags sv = none)
    (hnf : flags.nullfail = false)
    (hbad : Hash.hash160 key ≠ h ∨
      chk sig key (scriptCodeFor ⟨p2pkhScript h, flags, sv, tx⟩ ⟨[], [], [], 0, 0⟩ [sig]) sv = false) :
    (∃ e, evalScript chk [key, sig] (p2pkhScript h) flags tx sv = .error e) ∨
      evalScript chk [key, sig] (p2pkhScript h) flags tx sv = .ok [[]] := by
  have hl : (p2pkhScript h).length ≤ 10000 := by simp [p2pkhScript]; omega
  have e0 : p2pkhScript h = 0x76 :: (0xa9 :: (UInt8.ofNat h.length :: (h ++ [0x88, 0xac]))) := by
    simp [p2pkhScript, hlen]
  by_cases hh : Hash.hash160 key = h
  · have hc : chk sig key (scriptCodeFor ⟨p2pkhScript h, flags, sv, tx⟩ ⟨[], [], [], 0, 0⟩ [sig]) sv = false := by
      rcases hbad with h1 | h1
      · exact absurd hh h1
      · exact h1
    right
    apply evalScript_of_loop _ _ _ _ _ _ hl ⟨[[]], [], [], 4, 0⟩ _ rfl
    have hcode := fun st hst => scriptCodeFor_start (p2pkhScript h) flags sv tx st [sig] hst
    generalize henv : (⟨p2pkhScript h, flags, sv, tx⟩ : Env) = env at *
    have hf : env.flags = flags := by rw [← henv]
    have hv : env.sigversion = sv := by rw [← henv]
    rw [e0, evalLoopP_step _ _ _ _ _ _ _ (getScriptOp_op 0x76 _ (by decide))
      (stepP_dup _ _ _ _ _ _ _ _ (by omega) (by simp))]
    rw [evalLoopP_step _ _ _ _ _ _ _ (getScriptOp_op 0xa9 _ (by decide))
      (stepP_hash160' _ _ _ _ _ _ _ _ _ hh (by omega) (by simp))]
    rw [evalLoopP_step _ _ _ _ _ _ _ (getScriptOp_direct h _ (by omega))
      (stepP_push _ _ _ _ _ _ _ _ _ (by omega) (by omega) (checkMinimalPush_direct h (by omega) (by omega)) (by simp) (by omega))]
    rw [evalLoopP_step _ _ _ _ _ _ _ (getScriptOp_op 0x88 _ (by decide))
      (stepP_equalverify _ _ _ _ _ _ _ _ (by omega) (by simp))]
    rw [evalLoopP_step _ _ _ _ _ _ _ (getScriptOp_op 0xac _ (by decide))
      (stepP_checksig_gen _ _ _ _ _ _ _ _ _ (by omega) (by simp) (by rw [hf]; exact hsig) (by rw [hf, hv]; exact hkey)
        (by rw [hf]; exact hnf))]
    rw [hv, hcode _ rfl, hc, evalLoopP_nil]
    rfl
  · left
    refine ⟨.EQUALVERIFY, ?_⟩
    apply evalScript_of_loop_err _ _ _ _ _ _ hl
    generalize (⟨p2pkhScript h, flags, sv, tx⟩ : Env) = env
    rw [e0, evalLoopP_step _ _ _ _ _ _ _ (getScriptOp_op 0x76 _ (by decide))
      (stepP_dup _ _ _ _ _ _ _ _ (by omega) (by simp))]
    rw [evalLoopP_step _ _ _ _ _ _ _ (getScriptOp_op 0xa9 _ (by decide))
      (stepP_hash160 _ _ _ _ _ _ _ _ (by omega) (by simp))]
    rw [evalLoopP_step _ _ _ _ _ _ _ (getScriptOp_direct h _ (by omega))
      (stepP_push _ _ _ _ _ _ _ _ _ (by omega) (by omega) (checkMinimalPush_direct h (by omega) (by omega)) (by simp) (by omega))]
    exact evalLoopP_step_err _ _ _ _ _ _ _ (getScriptOp_op 0x88 _ (by decide))
      (stepP_equalverify_ne _ _ _ _ _ _ _ _ _ (fun e => hh e.symm) (by omega))

/-- **P2PK, rejecting run**: a signature that `CheckSig` refuses for the key in the script leaves false (NULLFAIL off) -/
theorem evalScript_p2pk_bad (chk : PChk) (sig key : Bytes) (flags : Flags) (tx : TxCtx)
    (hk2 : 2 ≤ key.length) (hk : key.length ≤ 75)
    (hsig : checkSignatureEncoding sig flags = none) (hkey : checkPubKeyEncoding key flags .base = none)
    (hnf : flags.nullfail = false)
    (hbad : chk sig key (scriptCodeFor ⟨p2pkScript key, flags, .base, tx⟩ ⟨[], [], [], 0, 0⟩ [sig]) .base = false) :
    evalScript chk [sig] (p2pkScript key) flags tx .base = .ok [[]] := by
  apply evalScript_of_loop _ _ _ _ _ _ (by simp [p2pkScript, directPush]; omega) ⟨[[]], [], [], 1, 0⟩ _ rfl
  have hcode := fun st hst => scriptCodeFor_start (p2pkScript key) flags .base tx st [sig] hst
  generalize henv : (⟨p2pkScript key, flags, .base, tx⟩ : Env) = env at *
  have hf : env.flags = flags := by rw [← henv]
  have hv : env.sigversion = .base := by rw [← henv]
  rw [show p2pkScript key = UInt8.ofNat key.length :: (key ++ [0xac]) from rfl,
    evalLoopP_step _ _ _ _ _ _ _ (getScriptOp_direct key _ hk)
    (stepP_push _ _ _ _ _ _ _ _ _ (by omega) (by omega) (checkMinimalPush_direct key hk2 hk) (by simp) (by omega))]
  rw [evalLoopP_step _ _ _ _ _ _ _ (getScriptOp_op 0xac _ (by decide))
    (stepP_checksig_gen _ _ _ _ _ _ _ _ _ (by omega) (by simp) (by rw [hf]; exact hsig) (by rw [hf, hv]; exact hkey)
      (by rw [hf]; exact hnf))]
  rw [hv, hcode _ rfl, hbad, evalLoopP_nil]
  rfl

/-! ### witness key-hash programs -/

/-- `VerifyWitnessProgram` for a version-0 key-hash program with a two-item witness, as an equation -/
theorem verifyWitnessProgram_keyhash_eq (chk : PChk) (sig key h : Bytes) (flags : Flags) (tx : TxCtx)
    (hlen : h.length = 20) (hsl : sig.length ≤ 520) (hkl : key.length ≤ 520) :
    verifyWitnessProgramM (m := Id) (fun a b c d => pure (chk a b c d)) [sig, key] 0 h flags tx =
      witnessVerdict (evalScript chk [key, sig] (p2pkhScript h) flags tx .witnessV0) := by
  have hspk : [UInt8.ofNat OP_DUP, UInt8.ofNat OP_HASH160] ++ pushData h ++ [UInt8.ofNat OP_EQUALVERIFY, UInt8.ofNat OP_CHECKSIG]
      = p2pkhScript h := by
    rw [pushData_20 h hlen]; simp [p2pkhScript, OP_DUP, OP_HASH160, OP_EQUALVERIFY, OP_CHECKSIG]
  unfold verifyWitnessProgramM
  have h1 : ¬ sig.length > MAX_SCRIPT_ELEMENT_SIZE := by simp [MAX_SCRIPT_ELEMENT_SIZE]; omega
  have h2 : ¬ key.length > MAX_SCRIPT_ELEMENT_SIZE := by simp [MAX_SCRIPT_ELEMENT_SIZE]; omega
  simp only [hlen, WITNESS_V0_SCRIPTHASH_SIZE, WITNESS_V0_KEYHASH_SIZE, hspk, evalScriptM_id]
  simp [h1, h2, bind, pure]
  cases he : evalScript chk [key, sig] (p2pkhScript h) flags tx .witnessV0 with
  | error e => simp [witnessVerdict]
  | ok out =>
    match out with
    | [] => simp [witnessVerdict]
    | [top] => by_cases ht : castToBool top = true <;> simp [witnessVerdict, ht]
    | a :: b :: t => simp [witnessVerdict]

/-- **P2WPKH, rejecting runs**: empty scriptSig, witness `[sig, key]` against `OP_0 <h>` -/
theorem verifyScript_p2wpkh_bad (chk : PChk) (sig key h : Bytes) (flags : Flags) (tx : TxCtx)
    (hw : flags.witness = true) (hlen : h.length = 20) (hsl : sig.length ≤ 520) (hkl : key.length ≤ 520)
    (hsig : checkSignatureEncoding sig flags = none) (hkey : checkPubKeyEncoding key flags .witnessV0 = none)
    (hnf : flags.nullfail = false)
    (hbad : Hash.hash160 key ≠ h ∨
      chk sig key (scriptCodeFor ⟨p2pkhScript h, flags, .witnessV0, tx⟩ ⟨[], [], [], 0, 0⟩ [sig]) .witnessV0 = false) :
    verifyScript chk [] (witnessV0Script h) [sig, key] flags tx ≠ none := by
  have hvw := verifyWitnessProgram_keyhash_eq chk sig key h flags tx hlen hsl hkl
  have hne : witnessVerdict (evalScript chk [key, sig] (p2pkhScript h) flags tx .witnessV0) ≠ none :=
    witnessVerdict_ne_none (rest := []) (evalScript_p2pkh_bad chk sig key h flags tx .witnessV0 hlen hsig hkey hnf hbad)
  unfold verifyScript verifyScriptM
  have hpo : isPushOnly [] = true := by simp [isPushOnly, isPushOnlyAux]
  simp only [evalScriptM_id, hpo]
  simp only [Id.run, bind, pure]
  rw [evalScript_empty]
  simp only []
  rw [evalScript_witnessV0Script chk [] h flags tx (by omega) (by omega) (by simp)]
  simp only [hw, isWitnessProgram_v0 h (by omega) (by omega), witnessV0_not_p2sh h (Or.inl hlen)]
  by_cases htrue : castToBool h = true
  · simp only [htrue]
    simp only [↓reduceIte]
    have hvw' : verifyWitnessProgramM (m := Id) (fun a b c d => chk a b c d) [sig, key] 0 h flags tx =
        witnessVerdict (evalScript chk [key, sig] (p2pkhScript h) flags tx .witnessV0) := hvw
    rw [hvw']
    cases hv : witnessVerdict (evalScript chk [key, sig] (p2pkhScript h) flags tx .witnessV0) with
    | none => exact absurd hv hne
    | some e => simp
  · simp [htrue]

/-! ### hash mismatches of the wrappers -/

/-- `HASH160 <h> EQUAL` on an item that does not hash to `h` leaves false -/
theorem evalScript_p2sh_ne (chk : PChk) (redeem h : Bytes) (rest : List Bytes) (flags : Flags) (tx : TxCtx)
    (hh : Hash.hash160 redeem ≠ h) (hlen : h.length = 20) (hr : rest.length ≤ 30) :
    evalScript chk (redeem :: rest) (p2shScript h) flags tx .base = .ok ([] :: rest) := by
  apply evalScript_of_loop _ _ _ _ _ _ (by simp [p2shScript, directPush]; omega) ⟨[] :: rest, [], [], 2, 0⟩ _ rfl
  generalize (⟨p2shScript h, flags, .base, tx⟩ : Env) = env
  rw [show p2shScript h = 0xa9 :: (UInt8.ofNat h.length :: (h ++ [0x87])) by simp [p2shScript, directPush],
    evalLoopP_step _ _ _ _ _ _ _ (getScriptOp_op 0xa9 _ (by decide))
    (stepP_hash160 _ _ _ _ _ _ _ _ (by omega) (by simp; omega))]
  rw [evalLoopP_step _ _ _ _ _ _ _ (getScriptOp_direct h _ (by omega))
    (stepP_push _ _ _ _ _ _ _ _ _ (by omega) (by omega) (checkMinimalPush_direct h (by omega) (by omega)) (by simp; omega) (by omega))]
  rw [evalLoopP_step _ _ _ _ _ _ _ (getScriptOp_op 0x87 _ (by decide))
    (stepP_equal_ne _ _ _ _ _ _ _ _ _ (fun e => hh e.symm) (by omega) (by simp; omega))]
  rw [evalLoopP_nil]

/-- **P2SH, wrong script hash**: whatever the scriptSig leaves on top does not hash to the committed value ⇒ EVAL_FALSE,
before any redeem script or witness is looked at -/
theorem verifyScript_p2sh_mismatch (chk : PChk) (scriptSig redeem hr : Bytes) (stack2 : List Bytes) (witness : List Bytes)
    (flags : Flags) (tx : TxCtx)
    (h1 : evalScript chk [] scriptSig flags tx .base = .ok (redeem :: stack2))
    (hne : Hash.hash160 redeem ≠ hr) (hrlen : hr.length = 20) (hs2 : stack2.length ≤ 30) :
    verifyScript chk scriptSig (p2shScript hr) witness flags tx ≠ none := by
  unfold verifyScript verifyScriptM
  by_cases hpo : (flags.sigpushonly && !isPushOnly scriptSig) = true
  · simp [hpo, Id.run, pure]
  · simp only [hpo, evalScriptM_id, h1]
    simp only [Id.run, bind, pure]
    rw [evalScript_p2sh_ne chk redeem hr stack2 flags tx hne hrlen hs2]
    simp [castToBool]

/-- **P2WSH, wrong program**: the witness script does not hash to the program ⇒ WITNESS_PROGRAM_MISMATCH -/
theorem verifyScript_p2wsh_mismatch (chk : PChk) (items : List Bytes) (ws prog : Bytes) (flags : Flags) (tx : TxCtx)
    (hw : flags.witness = true) (hne : Hash.sha256 ws ≠ prog) (hplen : prog.length = 32) :
    verifyScript chk [] (witnessV0Script prog) (items ++ [ws]) flags tx ≠ none := by
  unfold verifyScript verifyScriptM
  have hpo : isPushOnly [] = true := by simp [isPushOnly, isPushOnlyAux]
  simp only [evalScriptM_id, hpo]
  simp only [Id.run, bind, pure]
  rw [evalScript_empty]
  simp only []
  rw [evalScript_witnessV0Script chk [] prog flags tx (by omega) (by omega) (by simp)]
  simp only [hw, isWitnessProgram_v0 prog (by omega) (by omega), witnessV0_not_p2sh prog (Or.inr hplen)]
  by_cases htrue : castToBool prog = true
  · simp only [htrue]
    simp only [↓reduceIte]
    have hrev : (items ++ [ws]).reverse = ws :: items.reverse := by simp
    have hb : (Hash.sha256 ws != prog) = true := by simpa using hne
    unfold verifyWitnessProgramM
    simp [hplen, WITNESS_V0_SCRIPTHASH_SIZE, hrev, hb, pure]
  · simp [htrue]

/-- **P2SH-P2WPKH, rejecting runs**: scriptSig = the push of `OP_0 <h>`, witness `[sig, key]`, against `HASH160 <hr> EQUAL` -/
theorem verifyScript_p2sh_p2wpkh_bad (chk : PChk) (sig key h hr : Bytes) (flags : Flags) (tx : TxCtx)
    (hp : flags.p2sh = true) (hw : flags.witness = true)
    (hlen : h.length = 20) (hrlen : hr.length = 20) (hsl : sig.length ≤ 520) (hkl : key.length ≤ 520)
    (hsig : checkSignatureEncoding sig flags = none) (hkey : checkPubKeyEncoding key flags .witnessV0 = none)
    (hnf : flags.nullfail = false)
    (hbad : Hash.hash160 (witnessV0Script h) ≠ hr ∨ Hash.hash160 key ≠ h ∨
      chk sig key (scriptCodeFor ⟨p2pkhScript h, flags, .witnessV0, tx⟩ ⟨[], [], [], 0, 0⟩ [sig]) .witnessV0 = false) :
    verifyScript chk (pushesOf [witnessV0Script h]) (p2shScript hr) [sig, key] flags tx ≠ none := by
  have hrl : (witnessV0Script h).length = 22 := by simp [witnessV0Script, directPush, hlen]
  have hev := evalScript_one_push chk (witnessV0Script h) flags tx (by omega) (by omega)
  by_cases hhr : Hash.hash160 (witnessV0Script h) = hr
  · have hbad' : Hash.hash160 key ≠ h ∨
        chk sig key (scriptCodeFor ⟨p2pkhScript h, flags, .witnessV0, tx⟩ ⟨[], [], [], 0, 0⟩ [sig]) .witnessV0 = false := by
      rcases hbad with h1 | h1
      · exact absurd hhr h1
      · exact h1
    have hvw := verifyWitnessProgram_keyhash_eq chk sig key h flags tx hlen hsl hkl
    have hne : witnessVerdict (evalScript chk [key, sig] (p2pkhScript h) flags tx .witnessV0) ≠ none :=
      witnessVerdict_ne_none (rest := []) (evalScript_p2pkh_bad chk sig key h flags tx .witnessV0 hlen hsig hkey hnf hbad')
    unfold verifyScript verifyScriptM
    have hpo : isPushOnly (pushesOf [witnessV0Script h]) = true :=
      isPushOnly_pushes _ (by intro d hd; simp at hd; subst hd; omega)
    have hpd : pushesOf [witnessV0Script h] = pushData (witnessV0Script h) := by
      simp [pushesOf, directPush, pushData, hrl, OP_PUSHDATA1]
    simp only [evalScriptM_id, hpo]
    simp only [Id.run, bind, pure]
    rw [hev]
    simp only []
    rw [evalScript_p2sh chk (witnessV0Script h) hr [] flags tx hhr hrlen (by simp)]
    simp only [hw, hp, p2sh_not_witness hr hrlen, p2sh_is_p2sh hr hrlen, hpo]
    simp only [castToBool]
    rw [evalScript_witnessV0Script chk [] h flags tx (by omega) (by omega) (by simp)]
    simp only [isWitnessProgram_v0 h (by omega) (by omega), hpd]
    by_cases htrue : castToBool h = true
    · simp only [htrue]
      simp only [↓reduceIte]
      have hvw' : verifyWitnessProgramM (m := Id) (fun a b c d => chk a b c d) [sig, key] 0 h flags tx =
          witnessVerdict (evalScript chk [key, sig] (p2pkhScript h) flags tx .witnessV0) := hvw
      simp only [bne_self_eq_false, Bool.false_eq_true, if_false]
      rw [hvw']
      cases hv : witnessVerdict (evalScript chk [key, sig] (p2pkhScript h) flags tx .witnessV0) with
      | none => exact absurd hv hne
      | some e => simp
    · simp [htrue]
  · exact verifyScript_p2sh_mismatch chk _ (witnessV0Script h) hr [] [sig, key] flags tx hev hhr hrlen (by simp)

/-! ### a spent script changed into another one that the same unlocking data still runs: `… CHECKSIG NOP` -/

theorem stepP_nop (chk : PChk) (env : Env) (alt : List Bytes) (nOp cs pcNext : Nat) (stack : List Bytes)
    (hops : nOp + 1 ≤ 201) (hst : stack.length + alt.length ≤ 1000) :
    stepP chk env ⟨stack, alt, [], nOp, cs⟩ 0x61 [] pcNext = .ok ⟨stack, alt, [], nOp + 1, cs⟩ := by
  rw [stepP_nonpush chk env pcNext _ 0x61 rfl (by decide) (by decide) hops (by decide) (by decide)]
  simp [execOp, OP_1NEGATE, OP_1, OP_16, OP_NOP, MAX_STACK_SIZE]
  omega

/-- `DUP HASH160 <h> EQUALVERIFY CHECKSIG NOP` -/
def p2pkhNopScript (h : Bytes) : Bytes := [0x76, 0xa9, 0x14] ++ h ++ [0x88, 0xac, 0x61]

theorem p2pkhNop_not_witness (h : Bytes) (hlen : h.length = 20) : isWitnessProgram (p2pkhNopScript h) = none := by
  simp [isWitnessProgram, p2pkhNopScript, hlen, OP_0, OP_1, OP_16]

theorem p2pkhNop_not_p2sh (h : Bytes) (hlen : h.length = 20) : isPayToScriptHash (p2pkhNopScript h) = false := by
  simp [isPayToScriptHash, p2pkhNopScript, hlen]

/-- the script with the trailing `NOP`, rejecting runs: as for P2PKH, the `NOP` leaves the false where it is -/
theorem evalScript_p2pkhNop_bad (chk : PChk) (sig key h : Bytes) (flags : Flags) (tx : TxCtx) (sv : SigVersion)
    (hlen : h.length = 20)
    (hsig : checkSignatureEncoding sig flags = none) (hkey : checkPubKeyEncoding key flags sv = none)
    (hnf : flags.nullfail = false)
    (hbad : Hash.hash160 key ≠ h ∨
      chk sig key (scriptCodeFor ⟨p2pkhNopScript h, flags, sv, tx⟩ ⟨[], [], [], 0, 0⟩ [sig]) sv = false) :
    (∃ e, evalScript chk [key, sig] (p2pkhNopScript h) flags tx sv = .error e) ∨
      evalScript chk [key, sig] (p2pkhNopScript h) flags tx sv = .ok [[]] := by
  have hl : (p2pkhNopScript h).length ≤ 10000 := by simp [p2pkhNopScript]; omega
  have e0 : p2pkhNopScript h = 0x76 :: (0xa9 :: (UInt8.ofNat h.length :: (h ++ [0x88, 0xac, 0x61]))) := by
    simp [p2pkhNopScript, hlen]
  by_cases hh : Hash.hash160 key = h
  · have hc : chk sig key (scriptCodeFor ⟨p2pkhNopScript h, flags, sv, tx⟩ ⟨[], [], [], 0, 0⟩ [sig]) sv = false := by
      rcases hbad with h1 | h1
      · exact absurd hh h1
      · exact h1
    right
    apply evalScript_of_loop _ _ _ _ _ _ hl ⟨[[]], [], [], 5, 0⟩ _ rfl
    have hcode := fun st hst => scriptCodeFor_start (p2pkhNopScript h) flags sv tx st [sig] hst
    generalize henv : (⟨p2pkhNopScript h, flags, sv, tx⟩ : Env) = env at *
    have hf : env.flags = flags := by rw [← henv]
    have hv : env.sigversion = sv := by rw [← henv]
    rw [e0, evalLoopP_step _ _ _ _ _ _ _ (getScriptOp_op 0x76 _ (by decide))
      (stepP_dup _ _ _ _ _ _ _ _ (by omega) (by simp))]
    rw [evalLoopP_step _ _ _ _ _ _ _ (getScriptOp_op 0xa9 _ (by decide))
      (stepP_hash160' _ _ _ _ _ _ _ _ _ hh (by omega) (by simp))]
    rw [evalLoopP_step _ _ _ _ _ _ _ (getScriptOp_direct h _ (by omega))
      (stepP_push _ _ _ _ _ _ _ _ _ (by omega) (by omega) (checkMinimalPush_direct h (by omega) (by omega)) (by simp) (by omega))]
    rw [evalLoopP_step _ _ _ _ _ _ _ (getScriptOp_op 0x88 _ (by decide))
      (stepP_equalverify _ _ _ _ _ _ _ _ (by omega) (by simp))]
    rw [evalLoopP_step _ _ _ _ _ _ _ (getScriptOp_op 0xac _ (by decide))
      (stepP_checksig_gen _ _ _ _ _ _ _ _ _ (by omega) (by simp) (by rw [hf]; exact hsig) (by rw [hf, hv]; exact hkey)
        (by rw [hf]; exact hnf))]
    rw [hv, hcode _ rfl, hc]
    rw [evalLoopP_step _ _ _ _ _ _ _ (getScriptOp_op 0x61 _ (by decide))
      (stepP_nop _ _ _ _ _ _ _ (by omega) (by simp [boolBytes, vchFalse]))]
    rw [evalLoopP_nil]
    rfl
  · left
    refine ⟨.EQUALVERIFY, ?_⟩
    apply evalScript_of_loop_err _ _ _ _ _ _ hl
    generalize (⟨p2pkhNopScript h, flags, sv, tx⟩ : Env) = env
    rw [e0, evalLoopP_step _ _ _ _ _ _ _ (getScriptOp_op 0x76 _ (by decide))
      (stepP_dup _ _ _ _ _ _ _ _ (by omega) (by simp))]
    rw [evalLoopP_step _ _ _ _ _ _ _ (getScriptOp_op 0xa9 _ (by decide))
      (stepP_hash160 _ _ _ _ _ _ _ _ (by omega) (by simp))]
    rw [evalLoopP_step _ _ _ _ _ _ _ (getScriptOp_direct h _ (by omega))
      (stepP_push _ _ _ _ _ _ _ _ _ (by omega) (by omega) (checkMinimalPush_direct h (by omega) (by omega)) (by simp) (by omega))]
    exact evalLoopP_step_err _ _ _ _ _ _ _ (getScriptOp_op 0x88 _ (by decide))
      (stepP_equalverify_ne _ _ _ _ _ _ _ _ _ (fun e => hh e.symm) (by omega))

end Pycoin.Sign
