import Pycoin.Proofs.ChainShape
import Pycoin.Proofs.ChainQueue
/-!
What the dicts record, as a function of the history (core Lean only).

`delivered steps` is Delivered(history): every header of every `add_headers` batch, in arrival order (duplicates kept).
`lockedOf obs` is Locked(history): the items handed to `did_lock_to_index_f`, concatenated; it is `_locked_chain`.
`Rec anchor0 D bc`: `parent_lookup` and `weight_lookup` record exactly the delivered headers that are not locked
(no entry that was not delivered; an entry for every delivered, unlocked header), and `_locked_chain` is a chain of
delivered headers from the first anchor.  Nothing else is forgotten: side branches that hang below the lock point stay
registered (their tops are locked hashes or the first anchor, which have no entry, so no chain from the current
anchor reaches them).
-/
namespace Pycoin.Chain

/-- the headers a call delivers -/
def Step.delivered : Step → List Header
  | .add batch _ => batch
  | .lock _ _ => []

/-- Delivered(history) -/
def delivered (steps : List Step) : List Header := steps.flatMap Step.delivered

/-- the items a call hands to `did_lock_to_index_f` (none when the callback is not called) -/
def Obs.lockedItems (o : Obs) : List Item :=
  match o.lockCb with
  | some (items, _) => items
  | none => []

/-- Locked(history) -/
def lockedOf (obs : List Obs) : List Item := obs.flatMap Obs.lockedItems

/-- `items` is a chain from `a` in index order: each item's parent field is its predecessor's hash (the first one's
is `a`), and hash/parent resp. hash/weight are those of a delivered header -/
def ItemsFrom (D : List Header) : Nat → List Item → Prop
  | _, [] => True
  | a, (h, p, w) :: r =>
    p = a ∧ (∃ hd ∈ D, hd.hash = h ∧ hd.parent = p) ∧ (∃ hd ∈ D, hd.hash = h ∧ w = some hd.weight) ∧ ItemsFrom D h r

theorem ItemsFrom.mono {D D' : List Header} (hs : ∀ hd ∈ D, hd ∈ D') : ∀ (a : Nat) (l : List Item),
    ItemsFrom D a l → ItemsFrom D' a l
  | _, [], _ => trivial
  | a, (h, p, w) :: r, ⟨h1, ⟨x, hx, hx'⟩, ⟨y, hy, hy'⟩, h4⟩ =>
    ⟨h1, ⟨x, hs x hx, hx'⟩, ⟨y, hs y hy, hy'⟩, ItemsFrom.mono hs h r h4⟩

theorem ItemsFrom.append {D : List Header} : ∀ (a : Nat) (x y : List Item),
    ItemsFrom D a x → ItemsFrom D (((x.map (·.1)).getLast?).getD a) y → ItemsFrom D a (x ++ y)
  | a, [], y, _, h => by simpa using h
  | a, (h, p, w) :: r, y, ⟨h1, h2, h3, h4⟩, hy => by
      refine ⟨h1, h2, h3, ItemsFrom.append h r y h4 ?_⟩
      cases r with
      | nil => simpa using hy
      | cons i r' =>
        have hne : (i.1 :: List.map (·.1) r').getLast? = some ((i.1 :: List.map (·.1) r').getLast (by simp)) :=
          List.getLast?_eq_some_getLast (by simp)
        simp only [List.map_cons, List.getLast?_cons_cons] at hy ⊢
        rw [hne] at hy ⊢
        exact hy

/-- the records invariant -/
structure Rec (anchor0 : Nat) (D : List Header) (bc : BC) : Prop where
  parentSound : ∀ h p, dget bc.finder.parent h = some p → ∃ hd ∈ D, hd.hash = h ∧ hd.parent = p
  parentCompl : ∀ hd ∈ D, hd.hash ∉ lockedHashes bc → dhas bc.finder.parent hd.hash = true
  weightSound : ∀ h w, dget bc.weight h = some w → ∃ hd ∈ D, hd.hash = h ∧ hd.weight = w
  weightCompl : ∀ hd ∈ D, hd.hash ∉ lockedHashes bc → dhas bc.weight hd.hash = true
  items : ItemsFrom D anchor0 bc.locked
  avoid : ∀ hd ∈ D, hd.hash ≠ anchor0

theorem Rec.init (anchor0 : Nat) : Rec anchor0 [] (BC.new anchor0) := by
  refine ⟨?_, ?_, ?_, ?_, ?_, ?_⟩ <;> simp [BC.new, CF.empty, dget, ItemsFrom]

/-! ### the generator of `add_headers` -/

theorem feed_weight_sound (h2i : Dict Int) (ls : Nat) : ∀ (batch : List Header) (w : Dict Nat) (k v : Nat),
    dget (feed h2i ls w batch).1 k = some v → dget w k = some v ∨ ∃ hd ∈ batch, hd.hash = k ∧ hd.weight = v
  | [], w, k, v, h => by left; simpa [feed] using h
  | hd :: r, w, k, v, h => by
      unfold feed at h
      by_cases hskip : (dget h2i hd.hash).getD ls < (ls : Int)
      · simp only [hskip, if_true] at h
        rcases feed_weight_sound h2i ls r w k v h with h | ⟨x, hx, e⟩
        · exact Or.inl h
        · exact Or.inr ⟨x, List.mem_cons_of_mem _ hx, e⟩
      · simp only [hskip, if_false] at h
        rcases feed_weight_sound h2i ls r _ k v h with h | ⟨x, hx, e⟩
        · rw [dget_dset] at h
          by_cases e : hd.hash = k
          · simp only [e, if_true, Option.some.injEq] at h
            exact Or.inr ⟨hd, by simp, e, h⟩
          · simp only [e, if_false] at h
            exact Or.inl h
        · exact Or.inr ⟨x, List.mem_cons_of_mem _ hx, e⟩

/-- a header that is not a duplicate of a locked block is yielded, and its weight recorded -/
theorem feed_yield (h2i : Dict Int) (ls : Nat) : ∀ (batch : List Header) (w : Dict Nat) (hd : Header),
    hd ∈ batch → ¬ ((dget h2i hd.hash).getD ls < (ls : Int)) →
    (hd.hash, hd.parent) ∈ (feed h2i ls w batch).2 ∧ dhas (feed h2i ls w batch).1 hd.hash = true
  | [], _, _, h, _ => by simp at h
  | x :: r, w, hd, hm, hns => by
      unfold feed
      by_cases hskip : (dget h2i x.hash).getD ls < (ls : Int)
      · simp only [hskip, if_true]
        rcases List.mem_cons.mp hm with e | hm
        · subst e; exact absurd hskip hns
        · exact feed_yield h2i ls r w hd hm hns
      · simp only [hskip, if_false]
        rcases List.mem_cons.mp hm with e | hm
        · subst e
          refine ⟨by simp, ?_⟩
          exact (feed_spec h2i ls r _).1 _ ((dhas_iff _ _).mpr ⟨_, dget_dset_self _ _ _⟩)
        · obtain ⟨a, b⟩ := feed_yield h2i ls r (dset w x.hash x.weight) hd hm hns
          exact ⟨List.mem_cons_of_mem _ a, b⟩

/-- the generator skips exactly the hashes of the locked part -/
theorem skip_iff_locked {anchor0 : Nat} {bc : BC} {c : List Nat} (g : Good anchor0 bc c) (h : Nat) :
    (dget bc.h2i h).getD bc.locked.length < (bc.locked.length : Int) ↔ h ∈ lockedHashes bc := by
  constructor
  · intro hlt
    cases hg : dget bc.h2i h with
    | none => simp [hg] at hlt
    | some i =>
      simp only [hg, Option.getD_some] at hlt
      obtain ⟨n, e, hn⟩ := (g.exact h i).mp hg
      subst e
      have hn' : n < (lockedHashes bc).length := by simp [lockedHashes]; omega
      rw [List.getElem?_append_left hn'] at hn
      exact List.mem_of_getElem? hn
  · intro hm
    obtain ⟨n, hn, e⟩ := mem_locked_index bc c h hm
    have := (g.exact h n).mpr ⟨n, rfl, e⟩
    simp only [this, Option.getD_some]
    omega

theorem addHeaders_rec (anchor0 : Nat) (rev : Bool) (rank : List Nat) (bc bc' : BC) (c : List Nat)
    (batch : List Header) (ops : List Op) (D : List Header) (h0 : ∀ hd ∈ batch, hd.hash ≠ anchor0)
    (g : Good anchor0 bc c) (r : Rec anchor0 D bc) (hr : bc.addHeaders rev rank batch = .ok (ops, bc')) :
    Rec anchor0 (D ++ batch) bc' := by
  obtain ⟨hw, hload, hlk, _⟩ := addHeaders_shape rev rank bc bc' c batch ops g.cur hr
  have hpl := loadNodes_parent rev rank _ _ _ hload
  have hLH : lockedHashes bc' = lockedHashes bc := by simp [lockedHashes, hlk]
  refine ⟨?_, ?_, ?_, ?_, ?_, ?_⟩
  · intro h p hp
    rw [hpl] at hp
    rcases register_new _ _ _ _ _ hp with hp | hp
    · obtain ⟨hd, hm, e⟩ := r.parentSound h p hp
      exact ⟨hd, List.mem_append_left _ hm, e⟩
    · obtain ⟨_, _, hd, hm, e1, e2⟩ := (feed_spec bc.h2i bc.locked.length batch bc.weight).2 h p hp
      exact ⟨hd, List.mem_append_right _ hm, e1, e2⟩
  · intro hd hm hnl
    rw [hLH] at hnl
    rw [hpl, dhas_iff]
    rcases List.mem_append.mp hm with hm | hm
    · obtain ⟨v, hv⟩ := (dhas_iff _ _).mp (r.parentCompl hd hm hnl)
      exact ⟨v, register_ext _ _ _ _ _ hv⟩
    · have hns : ¬ ((dget bc.h2i hd.hash).getD bc.locked.length < (bc.locked.length : Int)) :=
        fun h => hnl ((skip_iff_locked g hd.hash).mp h)
      exact register_mem _ _ _ _ _ (feed_yield bc.h2i bc.locked.length batch bc.weight hd hm hns).1
  · intro h w hh
    rw [hw] at hh
    rcases feed_weight_sound _ _ _ _ _ _ hh with hh | ⟨hd, hm, e⟩
    · obtain ⟨hd, hm, e⟩ := r.weightSound h w hh
      exact ⟨hd, List.mem_append_left _ hm, e⟩
    · exact ⟨hd, List.mem_append_right _ hm, e⟩
  · intro hd hm hnl
    rw [hLH] at hnl
    rw [hw]
    rcases List.mem_append.mp hm with hm | hm
    · exact (feed_spec bc.h2i bc.locked.length batch bc.weight).1 _ (r.weightCompl hd hm hnl)
    · have hns : ¬ ((dget bc.h2i hd.hash).getD bc.locked.length < (bc.locked.length : Int)) :=
        fun h => hnl ((skip_iff_locked g hd.hash).mp h)
      exact (feed_yield bc.h2i bc.locked.length batch bc.weight hd hm hns).2
  · rw [hlk]
    exact ItemsFrom.mono (fun hd h => List.mem_append_left _ h) _ _ r.items
  · intro hd hm
    rcases List.mem_append.mp hm with hm | hm
    · exact r.avoid hd hm
    · exact h0 hd hm

/-! ### `lock_to_index` -/

theorem Links.last_link {pl : Dict Nat} : ∀ (t : List Nat) (x a : Nat), Links pl (t ++ [x] ++ [a]) → dget pl x = some a
  | [], x, a, h => by simpa [Links] using h.1
  | [y], x, a, h => by
      simp only [List.cons_append, List.nil_append, Links] at h
      exact h.2.1
  | y :: z :: r, x, a, h => by
      simp only [List.cons_append, Links] at h
      exact Links.last_link (z :: r) x a (by simpa using h.2)

/-- the items appended by `lock_to_index` are a chain of delivered headers from the old anchor -/
theorem mkItems_from (D : List Header) (pl w : Dict Nat)
    (hp : ∀ h p, dget pl h = some p → ∃ hd ∈ D, hd.hash = h ∧ hd.parent = p)
    (hw : ∀ h p, dget pl h = some p → ∃ wv, dget w h = some wv ∧ ∃ hd ∈ D, hd.hash = h ∧ hd.weight = wv) :
    ∀ (taken : List Nat) (prev : Nat), Links pl (taken.reverse ++ [prev]) → ItemsFrom D prev (mkItems w prev taken)
  | [], _, _ => trivial
  | h :: r, prev, hl => by
      simp only [List.reverse_cons] at hl
      have hlast := Links.last_link r.reverse h prev hl
      obtain ⟨wv, hwv, hd2, hm2, e2, e2'⟩ := hw h prev hlast
      refine ⟨rfl, hp h prev hlast, ⟨hd2, hm2, e2, by rw [hwv, e2']⟩, ?_⟩
      exact mkItems_from D pl w hp hw r h (Links.prefix _ _ hl)

theorem lockToIndex_rec (anchor0 : Nat) (rev : Bool) (rank : List Nat) (bc bc' : BC) (c : List Nat)
    (index : Nat) (cb : Option (List Item × Nat)) (D : List Header)
    (g : Good anchor0 bc c) (fo : FinderOK bc.finder) (r : Rec anchor0 D bc)
    (hr : bc.lockToIndex rev rank index = .ok (cb, bc')) :
    Rec anchor0 D bc' ∧ bc'.locked = bc.locked ++ Obs.lockedItems ⟨[], cb⟩ := by
  rcases lockToIndex_shape rev rank bc bc' c index cb g.cur hr with
    ⟨_, hcb, hlk, hf, hw, _, _, _⟩ | ⟨hidx, hk2, hcb, hlk, hload, hw, _, _, _⟩
  · have hLH : lockedHashes bc' = lockedHashes bc := by simp [lockedHashes, hlk]
    refine ⟨⟨?_, ?_, ?_, ?_, ?_, r.avoid⟩, by simp [Obs.lockedItems, hcb, hlk]⟩
    · rw [hf]; exact r.parentSound
    · rw [hf, hLH]; exact r.parentCompl
    · rw [hw]; exact r.weightSound
    · rw [hw, hLH]; exact r.weightCompl
    · rw [hlk]; exact r.items
  · generalize hkk : index - bc.locked.length = k at *
    generalize htaken : c.reverse.take k = taken at *
    have hLH : lockedHashes bc' = lockedHashes bc ++ taken := by simp [lockedHashes, hlk, mkItems_map_fst]
    have hc : c = c.take (c.length - k) ++ taken.reverse := by
      have h3 : c.reverse = taken ++ (c.take (c.length - k)).reverse := by
        rw [reverse_split c k hk2, ← htaken, List.take_append_drop]
      have := congrArg List.reverse h3
      simpa using this
    have hRpath : UpPath bc.finder.parent (taken.reverse ++ [bc.parentHash]) := by
      have := g.path
      rw [hc, List.append_assoc] at this
      exact UpPath.suffix _ _ this (by simp)
    have hclosed : Closed bc.finder.parent taken.reverse := by
      intro y hy v hv
      have := UpPath.succ_mem _ hRpath y v (List.mem_append_left _ hy) hv
      rcases List.mem_append.mp this with h | h
      · exact Or.inl h
      · simp at h
        exact Or.inr (h ▸ UpPath.last_unregistered _ hRpath bc.parentHash (by simp))
    have hpl := loadNodes_parent rev rank CF.empty bc'.finder _ hload
    have Fnew : ∀ x v, dget bc'.finder.parent x = some v → dget bc.finder.parent x = some v := by
      intro x v hv
      rw [hpl] at hv
      rcases register_new _ _ _ _ _ hv with h | h
      · simp [CF.empty, dget] at h
      · exact (lockNodes_spec _ _ _ x v h).1
    refine ⟨⟨?_, ?_, ?_, ?_, ?_, r.avoid⟩, by simp [Obs.lockedItems, hcb, hlk]⟩
    · intro h p hp
      exact r.parentSound h p (Fnew h p hp)
    · intro hd hm hnl
      rw [hLH, List.mem_append, not_or] at hnl
      obtain ⟨v, hv⟩ := (dhas_iff _ _).mp (r.parentCompl hd hm hnl.1)
      rcases fo.inv.covers hd.hash v hv (by simp) with ⟨b, t, hb, hmt⟩ | h
      · have ht : t ∈ bc.finder.trees.map (·.2) := List.mem_map.mpr ⟨(b, t), dget_mem _ b t hb, rfl⟩
        rcases lockNodes_complete bc.finder.parent _ taken.reverse fo.trees_upPath hclosed t ht hd.hash hmt v hv with h | h
        · exact absurd (List.mem_reverse.mp h) hnl.2
        · rw [hpl, dhas_iff]
          exact register_mem _ CF.empty.parent [] hd.hash v h
      · simp at h
    · rw [hw]; exact r.weightSound
    · intro hd hm hnl
      rw [hLH, List.mem_append, not_or] at hnl
      rw [hw]; exact r.weightCompl hd hm hnl.1
    · rw [hlk]
      refine ItemsFrom.append anchor0 _ _ r.items ?_
      have : ((bc.locked.map (·.1)).getLast?).getD anchor0 = bc.parentHash := g.parentIs.symm
      rw [this]
      refine mkItems_from D bc.finder.parent bc.weight r.parentSound ?_ taken bc.parentHash (Links.of_upPath _ hRpath)
      intro h p hp
      obtain ⟨wv, hwv⟩ := (dhas_iff _ _).mp (g.weights h ((dhas_iff _ _).mpr ⟨p, hp⟩))
      exact ⟨wv, hwv, r.weightSound h wv hwv⟩

/-! ### whole histories -/

theorem delivered_cons (s : Step) (ss : List Step) : delivered (s :: ss) = s.delivered ++ delivered ss := by
  simp [delivered]

theorem lockedOf_cons (o : Obs) (os : List Obs) : lockedOf (o :: os) = o.lockedItems ++ lockedOf os := by
  simp [lockedOf]

/-- **every history keeps the full invariant and the records invariant**; `_locked_chain` grows by exactly the items
handed to `did_lock_to_index_f` -/
theorem run_rec (anchor0 : Nat) (rev : Bool) : ∀ (steps : List Step) (bc bc' : BC) (c : List Nat) (obs : List Obs)
    (D : List Header),
    Full anchor0 bc c → Rec anchor0 D bc → (∀ s ∈ steps, s.avoids anchor0) →
    runHist rev bc steps = .ok (obs, bc') →
    ∃ c', Full anchor0 bc' c' ∧ Rec anchor0 (D ++ delivered steps) bc' ∧
      bc'.locked = bc.locked ++ lockedOf obs ∧
      replay (allOps obs) (lockedHashes bc ++ c.reverse) = some (lockedHashes bc' ++ c'.reverse) ∧
      qRun (addsOf (lockedHashes bc ++ c.reverse)) (obs.map (·.ops)) = .ok (addsOf (lockedHashes bc' ++ c'.reverse))
  | [], bc, bc', c, obs, D, f, r, _, hr => by
      simp only [runHist, Except.ok.injEq, Prod.mk.injEq] at hr
      obtain ⟨rfl, rfl⟩ := hr
      exact ⟨c, f, by simpa [delivered] using r, by simp [lockedOf], by simp [allOps, replay], by simp [qRun]⟩
  | s :: ss, bc, bc', c, obs, D, f, r, hav, hr => by
      unfold runHist at hr
      obtain ⟨⟨o, bc1⟩, h1, hr⟩ := bind_ok hr
      try simp only at hr
      obtain ⟨⟨os, bc2⟩, h2, hr⟩ := bind_ok hr
      simp only [Except.ok.injEq, Prod.mk.injEq] at hr
      obtain ⟨rfl, rfl⟩ := hr
      have hav' : ∀ s ∈ ss, s.avoids anchor0 := fun s hs => hav s (List.mem_cons_of_mem _ hs)
      cases s with
      | add batch rank =>
        unfold BC.step at h1
        obtain ⟨⟨ops, bcx⟩, h1a, h1⟩ := bind_ok h1
        simp only [Except.ok.injEq, Prod.mk.injEq] at h1
        obtain ⟨rfl, rfl⟩ := h1
        have h0 := hav (.add batch rank) (by simp)
        obtain ⟨c1, f1, _, r1⟩ := addHeaders_full anchor0 rev rank bc bcx c batch ops h0 f h1a
        have rec1 := addHeaders_rec anchor0 rev rank bc bcx c batch ops D h0 f.good r h1a
        have hlk1 := (addHeaders_shape rev rank bc bcx c batch ops f.good.cur h1a).2.2.1
        obtain ⟨c2, f2, rec2, hlk2, r2, q2⟩ := run_rec anchor0 rev ss bcx bc2 c1 os _ f1 rec1 hav' h2
        refine ⟨c2, f2, ?_, ?_, ?_, ?_⟩
        · simpa [delivered_cons, Step.delivered] using rec2
        · rw [hlk2, hlk1, lockedOf_cons]; simp [Obs.lockedItems]
        · simp only [allOps, List.flatMap_cons] at r2 ⊢
          rw [replay_append, r1]; exact r2
        · obtain ⟨rops, aops, e, hro, hao⟩ := addHeaders_ops_shape rev rank bc bcx c batch ops f.good.cur h1a
          subst e
          simp only [List.map_cons, qRun, updateQ_step rops aops _ _ hro hao r1, bind, Except.bind]
          exact q2
      | lock index rank =>
        unfold BC.step at h1
        obtain ⟨⟨cb, bcx⟩, h1a, h1⟩ := bind_ok h1
        simp only [Except.ok.injEq, Prod.mk.injEq] at h1
        obtain ⟨rfl, rfl⟩ := h1
        obtain ⟨c1, f1, e1⟩ := lockToIndex_full' anchor0 rev rank bc bcx c index cb f h1a
        obtain ⟨rec1, hlk1⟩ := lockToIndex_rec anchor0 rev rank bc bcx c index cb D f.good f.finder r h1a
        obtain ⟨c2, f2, rec2, hlk2, r2, q2⟩ := run_rec anchor0 rev ss bcx bc2 c1 os _ f1 rec1 hav' h2
        refine ⟨c2, f2, ?_, ?_, ?_, ?_⟩
        · simpa [delivered_cons, Step.delivered] using rec2
        · rw [hlk2, hlk1, lockedOf_cons, List.append_assoc]
        · simp only [allOps, List.flatMap_cons, List.nil_append] at r2 ⊢
          rw [← e1]; exact r2
        · simp only [List.map_cons, qRun, updateQ, bind, Except.bind]
          rw [← e1]; exact q2

end Pycoin.Chain
