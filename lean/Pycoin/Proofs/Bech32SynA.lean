import Pycoin.Proofs.Bech32Syn
/-!
Kernel evaluation, chunk A of A–D: for the lower position `k` in 1 .. 12, every upper position `l` with
`k < l ≤ 88` and every symbol `d` in 1..31, the lookup `(single k 1 xor single l d) >> 5` is rejected by one of the
generated filters, hence is not a key (`Bech32Syn.chunk_sound`).  Separate files so that lake checks them in parallel.
-/
namespace Pycoin.Bech32
open Pycoin.Gen.Bech32Syn

theorem synChunkA : pairsOk synFilters 12 (synRows.drop 1) = true := by decide +kernel

end Pycoin.Bech32
