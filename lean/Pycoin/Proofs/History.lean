import Pycoin.Model.TxHistory
/-! A history followed by an observer: the last answer is the observer applied to the object as it is then. -/
namespace Pycoin.History
open Pycoin

theorem run_append_obs (c : Coin) (o : Obs) : ∀ (hist : List Step) (st : St),
    run c st (hist ++ [.obs o]) = run c st hist ++ [observe c (after c st hist) o]
  | [], st => by simp [run, step, after]
  | s :: ss, st => by
    simp only [List.cons_append, run, after, List.foldl_cons]
    rw [run_append_obs c o ss]
    rfl

/-- a fresh object with the fields the history has produced -/
def fresh (st : St) : St := ⟨st.tx, st.unspents⟩

theorem observe_fresh (c : Coin) (st : St) (o : Obs) : observe c (fresh st) o = observe c st o := rfl

end Pycoin.History
