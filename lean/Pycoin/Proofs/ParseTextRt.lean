import Pycoin.Proofs.ParseExtRt
/-!
C18 — SEC text, public pairs, secret exponents, seeds and Electrum keys: what is accepted has in-range contents, and the
object's own text (`as_text()`: WIF for a private key, `sec_prefix` + hex of the SEC encoding for a public one) parses
back to an equal object.
-/
namespace Pycoin.Addr
open Pycoin.Gen.Networks

/-! ## tables -/

def keyTableOk (n : Network) : Bool :=
  decide (n.outWif = n.parseWif) && decide (n.hashWif = n.hashParse) &&
  (match n.secPrefix with | some (.inl _) => true | _ => false)

theorem key_table_ok : ∀ n ∈ all, keyTableOk n = true := by decide +kernel

theorem key_table (net : Network) (hn : net ∈ all) :
    net.outWif = net.parseWif ∧ net.hashWif = net.hashParse ∧ ∃ p, net.secPrefix = some (.inl p) := by
  have t := key_table_ok net hn
  simp only [keyTableOk, Bool.and_eq_true, decide_eq_true_eq] at t
  refine ⟨t.1.1, t.1.2, ?_⟩
  have t3 := t.2
  split at t3
  · rename_i p hp; exact ⟨p, hp⟩
  · cases t3

/-! ## WIF: the text `Key.wif()` writes parses back to the key -/

theorem isPrefixOf_append' (p x : Bytes) : isPrefixOf p (p ++ x) = true := by simp [isPrefixOf]

theorem parseWif_wifText (env : Env) (laws : CodecLaws env) (ke : KeyEnv) (kl : KeyLaws ke) (net : Network) (hn : net ∈ all)
    (p : Bytes) (hp : net.parseWif = some p) (se : Nat) (c : Bool) (k : KeyObj) (hk : mkPrivateKey ke (se : Int) c = .ok k) :
    ∃ t, wifText env net se c = .ok t ∧ parseWif env ke net t = .ok (some (.key k)) := by
  obtain ⟨t1, t2, -⟩ := key_table net hn
  obtain ⟨-, hlt, -, -⟩ := mkPrivateKey_inv hk
  have hse : se < 256 ^ 32 := by
    have := kl.order256; rw [pow256_32]
    have : se < ke.order := by exact_mod_cast hlt
    omega
  refine ⟨env.b58cEnc net.hashParse (p ++ (beBytes se 32 ++ if c then [1] else [])), ?_, ?_⟩
  · simp [wifText, b58Text, t1, hp, t2]
  · have hd : parseB58Hashed env net (env.b58cEnc net.hashParse (p ++ (beBytes se 32 ++ if c then [1] else []))) =
        some (p ++ (beBytes se 32 ++ if c then [1] else [])) := by
      unfold parseB58Hashed
      apply laws.b58_rt
      intro h; have := congrArg List.length h
      simp only [List.length_append, beBytes_length, List.length_nil] at this; omega
    unfold parseWif
    simp only [hd, hp, isPrefixOf_append', Bool.not_true, Bool.false_eq_true, if_false, List.drop_left]
    cases c with
    | true =>
      have h1 : (beBytes se 32 ++ [1] : Bytes).length = 33 ∧ (beBytes se 32 ++ [1] : Bytes).drop 32 = [1] := by
        refine ⟨by simp, ?_⟩
        rw [List.drop_left' (by simp)]
      have h2 : (beBytes se 32 ++ [1] : Bytes).take 32 = beBytes se 32 := List.take_left' (by simp)
      simp only [if_true, h1, and_self, h2, wifKey, beNat_beBytes_of_lt hse, hk]
    | false =>
      rw [if_neg (by simp), if_pos (by simp)]
      simp [wifKey, beNat_beBytes_of_lt hse, hk]

/-! ## SEC text -/

theorem secBody_secText (net : Network) (p : String) (hp : net.secPrefix = some (.inl p)) (body : String) :
    secBody net (p ++ body) = body := by
  unfold secBody
  simp only [hp]
  by_cases hp0 : p = ""
  · subst hp0; simp
  · have ht : (p.toList ++ body.toList).take p.length = p.toList := by
      rw [← String.length_toList, List.take_left]
    have hd : (p.toList ++ body.toList).drop p.length = body.toList := by
      rw [← String.length_toList, List.drop_left]
    simp [hp0, ht, hd]

theorem parseSec_inv {ke : KeyEnv} {net : Network} {s : String} {o : Obj} (h : parseSec ke net s = .ok (some o)) :
    ∃ sec k, h2b (secBody net s) = some sec ∧ keyFromSec ke sec = .ok k ∧ o = .key k := by
  unfold parseSec at h
  split at h
  · cases h
  · rename_i sec hsec
    split at h
    · rename_i k hk
      simp only [Except.ok.injEq, Option.some.injEq] at h
      exact ⟨sec, k, hsec, hk, h.symm⟩
    · cases h

theorem h2b_b2h (b : Bytes) : h2b (b2h b) = some b := by
  simp [h2b, unhexlify, b2h_toList, decode_encode]

/-- the text `Key.sec_as_hex()` writes for a key whose SEC encoding `Key.from_sec` accepts parses back through `parse.sec` -/
theorem parseSec_secText (ke : KeyEnv) (net : Network) (p : String) (hp : net.secPrefix = some (.inl p)) (k k' : KeyObj)
    (sec : Bytes) (hs : secOf k k.compressed = .ok sec) (hk : keyFromSec ke sec = .ok k') :
    secText net k = .ok (p ++ b2h sec) ∧ parseSec ke net (p ++ b2h sec) = .ok (some (.key k')) := by
  refine ⟨by simp [secText, hp, hs, bind, Except.bind, pure, Except.pure], ?_⟩
  unfold parseSec
  rw [secBody_secText net p hp, h2b_b2h]
  simp only [hk]

/-- ★ SEC text: an accepted text (with or without the network's `sec_prefix`) is the hex of a blob of one of the two strict
shapes; the key is public, its point reduced and on the curve; it encodes to that very blob with the compression flag
read off the blob, and `as_text()` of the key parses back to the key -/
theorem parseSec_reserialises (ke : KeyEnv) (kl : KeyLaws ke) (net : Network) (hn : net ∈ all) (s : String) (o : Obj)
    (h : parseSec ke net s = .ok (some o)) :
    ∃ sec k t, h2b (secBody net s) = some sec ∧ o = .key k ∧ k.se = none ∧ k.InRange ke ∧
      k.compressed = decide (sec.take 1 = [2] ∨ sec.take 1 = [3]) ∧ secOf k k.compressed = .ok sec ∧
      secText net k = .ok t ∧ parseSec ke net t = .ok (some (.key k)) := by
  obtain ⟨sec, k, hsec, hk, rfl⟩ := parseSec_inv h
  obtain ⟨hse, hc, -, -, -, -, -, hcanon⟩ := keyFromSec_canon kl hk
  obtain ⟨-, -, p, hp⟩ := key_table net hn
  obtain ⟨t1, t2⟩ := parseSec_secText ke net p hp k k sec hcanon hk
  exact ⟨sec, k, _, hsec, rfl, hse, inRange_sec kl hk, hc, hcanon, t1, t2⟩

/-- the text of any public key object with a reduced curve point parses back to it -/
theorem public_key_text_rt (env : Env) (ke : KeyEnv) (kl : KeyLaws ke) (net : Network) (hn : net ∈ all) (k : KeyObj)
    (hse : k.se = none) (hr : k.InRange ke) :
    ∃ t, keyText env net k = .ok t ∧ parseSec ke net t = .ok (some (.key k)) := by
  obtain ⟨hon, a, b, c, d, -⟩ := hr
  obtain ⟨sec, h1, h2⟩ := keyFromSec_secOf kl k hon a b c d
  obtain ⟨-, -, p, hp⟩ := key_table net hn
  have hk : (⟨none, k.pub, k.compressed⟩ : KeyObj) = k := by cases k; simp_all
  rw [hk] at h2
  obtain ⟨t1, t2⟩ := parseSec_secText ke net p hp k k sec h1 h2
  exact ⟨_, by simp [keyText, hse, t1], t2⟩

end Pycoin.Addr
