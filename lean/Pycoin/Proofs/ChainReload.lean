import Pycoin.Proofs.ChainKeys
import Pycoin.Proofs.ChainSpec
import Pycoin.Proofs.ChainLock
/-! the generator inside `lock_to_index` hands every unlocked header on a tree to the rebuilt finder (core Lean only) -/
namespace Pycoin.Chain

/-- `ex` is closed under `parent_lookup`, up to hashes without an entry -/
def Closed (pl : Dict Nat) (ex : List Nat) : Prop :=
  ∀ y ∈ ex, ∀ v, dget pl y = some v → v ∈ ex ∨ dget pl v = none

/-- in an upward path, the parent of a member is a member -/
theorem UpPath.succ_mem {pl : Dict Nat} (t : List Nat) (hu : UpPath pl t) (y v : Nat) (hy : y ∈ t)
    (hv : dget pl y = some v) : v ∈ t := by
  obtain ⟨a, b, e⟩ := List.append_of_mem hy
  have hs : UpPath pl (y :: b) := UpPath.suffix a (y :: b) (e ▸ hu) (by simp)
  cases b with
  | nil => simp only [UpPath] at hs; rw [hs] at hv; cases hv
  | cons z r =>
    simp only [UpPath] at hs
    rw [hs.1] at hv; injection hv with hv; subst hv
    rw [e]; simp

/-- once a walk meets an excluded hash, everything above it with an entry is excluded too -/
theorem closed_chain {pl : Dict Nat} {ex : List Nat} (hc : Closed pl ex) :
    ∀ (t : List Nat), UpPath pl t → (∀ x, t.head? = some x → x ∈ ex) → ∀ z ∈ t, (∃ v, dget pl z = some v) → z ∈ ex
  | [], hu, _, _, _, _ => absurd hu (by simp [UpPath])
  | [x], _, hh, z, hz, _ => by simp at hz; subst hz; exact hh z rfl
  | x :: y :: r, hu, hh, z, hz, hreg => by
      simp only [UpPath] at hu
      rcases List.mem_cons.mp hz with hz | hz
      · subst hz; exact hh z rfl
      · have hx : x ∈ ex := hh x rfl
        rcases hc x hx y hu.1 with h1 | h1
        · exact closed_chain hc (y :: r) hu.2 (by intro w hw; simp at hw; subst hw; exact h1) z hz hreg
        · -- y has no entry: it is the last element, so nothing registered remains
          cases r with
          | nil =>
            simp at hz; subst hz
            obtain ⟨v, hv⟩ := hreg; rw [h1] at hv; cases hv
          | cons w r' =>
            simp only [UpPath] at hu; rw [hu.2.1] at h1; cases h1

/-- one tree: closedness (given closedness up to the head of the tree) and everything with an entry ends up excluded -/
theorem lockTree_closed (pl : Dict Nat) : ∀ (t ex : List Nat), UpPath pl t →
    (∀ y ∈ ex, ∀ v, dget pl y = some v → v ∈ ex ∨ dget pl v = none ∨ t.head? = some v) →
    Closed pl (lockTree pl t ex).1 ∧ ∀ z ∈ t, (∃ v, dget pl z = some v) → z ∈ (lockTree pl t ex).1
  | [], _, hu, _ => absurd hu (by simp [UpPath])
  | [x], ex, hu, hc => by
      simp only [UpPath] at hu
      unfold lockTree
      by_cases hx : x ∈ ex
      · simp only [hx, if_true]
        refine ⟨?_, ?_⟩
        · intro y hy v hv
          rcases hc y hy v hv with h | h | h
          · exact Or.inl h
          · exact Or.inr h
          · simp at h; subst h; exact Or.inr hu
        · intro z hz hreg; simp at hz; subst hz; exact hx
      · simp only [hx, if_false, hu, lockTree]
        refine ⟨?_, ?_⟩
        · intro y hy v hv
          rcases List.mem_cons.mp hy with hy | hy
          · subst hy; rw [hu] at hv; cases hv
          · rcases hc y hy v hv with h | h | h
            · exact Or.inl (List.mem_cons_of_mem _ h)
            · exact Or.inr h
            · simp at h; subst h; exact Or.inr hu
        · intro z hz hreg; simp at hz; subst hz; simp
  | x :: y :: r, ex, hu, hc => by
      have hu' := hu
      simp only [UpPath] at hu
      unfold lockTree
      by_cases hx : x ∈ ex
      · simp only [hx, if_true]
        have hcl : Closed pl ex := by
          intro y0 hy0 v hv
          rcases hc y0 hy0 v hv with h | h | h
          · exact Or.inl h
          · exact Or.inr h
          · simp at h; subst h; exact Or.inl hx
        exact ⟨hcl, closed_chain hcl (x :: y :: r) hu' (by intro w hw; simp at hw; subst hw; exact hx)⟩
      · simp only [hx, if_false, hu.1]
        have ih := lockTree_closed pl (y :: r) (x :: ex) hu.2 (by
          intro y0 hy0 v hv
          rcases List.mem_cons.mp hy0 with hy0 | hy0
          · subst hy0; rw [hu.1] at hv; injection hv with hv; subst hv; right; right; rfl
          · rcases hc y0 hy0 v hv with h | h | h
            · exact Or.inl (List.mem_cons_of_mem _ h)
            · exact Or.inr (Or.inl h)
            · simp at h; subst h; left; simp)
        refine ⟨ih.1, ?_⟩
        intro z hz hreg
        rcases List.mem_cons.mp hz with hz | hz
        · subst hz; exact lockTree_ex pl (y :: r) (z :: ex) z (by simp)
        · exact ih.2 z hz hreg

/-- whatever one tree newly excludes and has an entry, it yields -/
theorem lockTree_yield (pl : Dict Nat) : ∀ (t ex : List Nat), ∀ z ∈ (lockTree pl t ex).1,
    z ∈ ex ∨ ∀ v, dget pl z = some v → (z, v) ∈ (lockTree pl t ex).2
  | [], ex, z, hz => by left; simpa [lockTree] using hz
  | c :: r, ex, z, hz => by
      unfold lockTree at hz ⊢
      by_cases hc : c ∈ ex
      · simp only [hc, if_true] at hz ⊢; exact Or.inl hz
      · simp only [hc, if_false] at hz ⊢
        cases hd : dget pl c with
        | none =>
          simp only [hd] at hz ⊢
          rcases lockTree_yield pl r (c :: ex) z hz with h | h
          · rcases List.mem_cons.mp h with h | h
            · subst h; right; intro v hv; rw [hd] at hv; cases hv
            · exact Or.inl h
          · exact Or.inr h
        | some p =>
          simp only [hd] at hz ⊢
          rcases lockTree_yield pl r (c :: ex) z hz with h | h
          · rcases List.mem_cons.mp h with h | h
            · subst h; right; intro v hv; rw [hd] at hv; injection hv with hv; subst hv; simp
            · exact Or.inl h
          · right; intro v hv; exact List.mem_cons_of_mem _ (h v hv)

/-- all trees: every hash with an entry that lies on a tree was excluded from the start or is yielded -/
theorem lockNodes_complete (pl : Dict Nat) : ∀ (ts : List (List Nat)) (ex : List Nat),
    (∀ t ∈ ts, UpPath pl t) → Closed pl ex →
    ∀ t ∈ ts, ∀ z ∈ t, ∀ v, dget pl z = some v → z ∈ ex ∨ (z, v) ∈ lockNodes pl ts ex
  | [], _, _, _, t, ht, _, _, _, _ => by simp at ht
  | t0 :: rest, ex, hts, hc, t, ht, z, hz, v, hv => by
      unfold lockNodes
      have hu0 := hts t0 (by simp)
      obtain ⟨hc1, hall⟩ := lockTree_closed pl t0 ex hu0 (by
        intro y hy w hw
        rcases hc y hy w hw with h | h
        · exact Or.inl h
        · exact Or.inr (Or.inl h))
      have fromEx1 : z ∈ (lockTree pl t0 ex).1 → z ∈ ex ∨ (z, v) ∈ (lockTree pl t0 ex).2 ++ lockNodes pl rest (lockTree pl t0 ex).1 := by
        intro h1
        rcases lockTree_yield pl t0 ex z h1 with h | h
        · exact Or.inl h
        · exact Or.inr (List.mem_append_left _ (h v hv))
      rcases List.mem_cons.mp ht with ht | ht
      · subst ht
        exact fromEx1 (hall z hz ⟨v, hv⟩)
      · rcases lockNodes_complete pl rest _ (fun t' ht' => hts t' (List.mem_cons_of_mem _ ht')) hc1 t ht z hz v hv with h | h
        · exact fromEx1 h
        · exact Or.inr (List.mem_append_right _ h)

/-- a listed pair gets an entry when registering into an empty dict -/
theorem register_mem : ∀ (nodes : List (Nat × Nat)) (pl : Dict Nat) (new : PSet) (k v : Nat),
    (k, v) ∈ nodes → ∃ v', dget (register pl new nodes).1 k = some v'
  | [], _, _, _, _, h => by simp at h
  | (h, p) :: r, pl, new, k, v, hm => by
      unfold register
      by_cases hh : dhas pl h = true
      · simp only [hh, if_true]
        rcases List.mem_cons.mp hm with hm | hm
        · injection hm with e1 e2; subst e1
          obtain ⟨v', hv'⟩ := (dhas_iff pl k).mp hh
          exact ⟨v', register_ext r pl new k v' hv'⟩
        · exact register_mem r pl new k v hm
      · simp only [hh]
        rcases List.mem_cons.mp hm with hm | hm
        · injection hm with e1 e2; subst e1
          exact ⟨p, register_ext r _ _ k p (dget_dset_self _ _ _)⟩
        · exact register_mem r _ _ k v hm

theorem Links.of_upPath {pl : Dict Nat} : ∀ (t : List Nat), UpPath pl t → Links pl t
  | [], _ => trivial
  | [_], _ => trivial
  | x :: y :: r, h => by
      simp only [UpPath] at h; simp only [Links]
      exact ⟨h.1, Links.of_upPath (y :: r) h.2⟩

theorem Links.prefix {pl : Dict Nat} : ∀ (a b : List Nat), Links pl (a ++ b) → Links pl a
  | [], _, _ => trivial
  | [_], _, _ => trivial
  | x :: y :: r, b, h => by
      simp only [List.cons_append, Links] at h ⊢
      exact ⟨h.1, Links.prefix (y :: r) b h.2⟩

theorem Links.agree {pl pl' : Dict Nat} : ∀ (t : List Nat), Links pl t →
    (∀ x ∈ t.dropLast, ∀ v, dget pl x = some v → dget pl' x = some v) → Links pl' t
  | [], _, _ => trivial
  | [_], _, _ => trivial
  | x :: y :: r, h, ha => by
      simp only [Links] at h ⊢
      refine ⟨ha x (by simp [List.dropLast]) y h.1, Links.agree (y :: r) h.2 ?_⟩
      intro z hz v hv
      exact ha z (by simp only [List.dropLast_cons_cons]; exact List.mem_cons_of_mem _ hz) v hv

end Pycoin.Chain
