import Pycoin.Proofs.ChainFinal
/-! splitting a history at a call; histories without `lock_to_index` (core Lean only) -/
namespace Pycoin.Chain

theorem runHist_append (rev : Bool) : ∀ (s1 s2 : List Step) (bc bc' : BC) (obs : List Obs),
    runHist rev bc (s1 ++ s2) = .ok (obs, bc') →
    ∃ obs1 bc1 obs2, runHist rev bc s1 = .ok (obs1, bc1) ∧ runHist rev bc1 s2 = .ok (obs2, bc') ∧
      obs = obs1 ++ obs2 ∧ obs1.length = s1.length
  | [], s2, bc, bc', obs, h => ⟨[], bc, obs, rfl, by simpa using h, rfl, rfl⟩
  | s :: ss, s2, bc, bc', obs, h => by
      simp only [List.cons_append] at h
      unfold runHist at h
      obtain ⟨⟨o, bc1⟩, h1, h⟩ := bind_ok h
      try simp only at h
      obtain ⟨⟨os, bc2⟩, h2, h⟩ := bind_ok h
      simp only [Except.ok.injEq, Prod.mk.injEq] at h
      obtain ⟨rfl, rfl⟩ := h
      obtain ⟨obs1, bcm, obs2, r1, r2, e, hl⟩ := runHist_append rev ss s2 bc1 bc2 os h2
      refine ⟨o :: obs1, bcm, obs2, ?_, r2, by simp [e], by simp [hl]⟩
      unfold runHist
      simp [h1, r1, bind, Except.bind]

theorem mkItems_length (w : Dict Nat) (l : List Nat) (prev : Nat) : (mkItems w prev l).length = l.length := by
  have := congrArg List.length (mkItems_map_fst w l prev)
  simpa using this

def Step.isAdd : Step → Bool
  | .add _ _ => true
  | .lock _ _ => false

/-- without `lock_to_index` calls nothing is ever locked -/
theorem runHist_no_lock (rev : Bool) : ∀ (steps : List Step) (bc bc' : BC) (obs : List Obs),
    (∀ s ∈ steps, s.isAdd = true) → runHist rev bc steps = .ok (obs, bc') → lockedOf obs = []
  | [], bc, bc', obs, _, h => by
      simp only [runHist, Except.ok.injEq, Prod.mk.injEq] at h
      obtain ⟨rfl, _⟩ := h; rfl
  | s :: ss, bc, bc', obs, hall, h => by
      unfold runHist at h
      obtain ⟨⟨o, bc1⟩, h1, h⟩ := bind_ok h
      try simp only at h
      obtain ⟨⟨os, bc2⟩, h2, h⟩ := bind_ok h
      simp only [Except.ok.injEq, Prod.mk.injEq] at h
      obtain ⟨rfl, rfl⟩ := h
      have ih := runHist_no_lock rev ss bc1 bc2 os (fun s hs => hall s (List.mem_cons_of_mem _ hs)) h2
      cases s with
      | add batch rank =>
        unfold BC.step at h1
        obtain ⟨⟨ops, bcx⟩, _, h1⟩ := bind_ok h1
        simp only [Except.ok.injEq, Prod.mk.injEq] at h1
        obtain ⟨rfl, _⟩ := h1
        simp [lockedOf_cons, Obs.lockedItems, ih]
      | lock index rank =>
        have := hall (.lock index rank) (by simp)
        simp [Step.isAdd] at this

end Pycoin.Chain
