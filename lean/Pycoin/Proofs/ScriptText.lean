import Pycoin.Proofs.ScriptNames
import Pycoin.Proofs.ScriptPush
/-! C12: compile ∘ disassemble on scripts assembled from known opcodes and minimal pushes (token level). -/
namespace Pycoin.Script
open Pycoin.Gen.Opcodes

/-! ## hex digits round-trip -/

theorem hex_byte : ∀ n, n < 256 →
    (Hex.val? (Hex.digit (n / 16)) == some (n / 16) && Hex.val? (Hex.digit (n % 16)) == some (n % 16)) = true := by
  decide +kernel

theorem unhexlify_hexlify (d : Bytes) : unhexlify (hexlify d) = some d := by
  unfold unhexlify hexlify
  induction d with
  | nil => rfl
  | cons b bs ih =>
    have h := hex_byte b.toNat b.toNat_lt
    simp only [Bool.and_eq_true, beq_iff_eq] at h
    have : 16 * (b.toNat / 16) + b.toNat % 16 = b.toNat := by omega
    simp only [Hex.encodeChars, Hex.decodeChars, h.1, h.2, ih]
    show some (UInt8.ofNat (16 * (b.toNat / 16) + b.toNat % 16) :: bs) = some (b :: bs)
    rw [this, UInt8.ofNat_toNat]

/-! ## unfolding `get_opcodes` -/

theorem getOpcodes_end (script : Bytes) (vm : Bool) (pc : Nat) (h : ¬ pc < script.length) :
    getOpcodes script vm pc = ([], none) := by
  rw [getOpcodes]; simp [h]

theorem getOpcodes_step (script : Bytes) (vm : Bool) (pc : Nat) (r : OpResult) (hlt : pc < script.length)
    (h : getOpcode script pc vm = .ok r) :
    getOpcodes script vm pc =
      (⟨r.opcode, r.data, pc, r.pc⟩ :: (getOpcodes script vm r.pc).1, (getOpcodes script vm r.pc).2) := by
  rw [getOpcodes]
  simp only [hlt, dite_true]
  split
  · rename_i e he; rw [h] at he; cases he
  · rename_i r' he; rw [h] at he; cases he; rfl

/-! ## instructions of a clean script -/

inductive Instr
  | plain (op : UInt8)
  | push (d : Bytes)

/-- a known non-data opcode (no handler in the decoder table, and a name in `int_to_opcode`), or a push of fewer than 2^32 bytes -/
def Instr.wf : Instr → Prop
  | .plain op => dictGet op decoder = none ∧ (dictGet op intToOpcodeC).isSome = true
  | .push d => d.length < 2 ^ 32

def Instr.bytes : Instr → Bytes
  | .plain op => [op]
  | .push d => Spec.minimalPush d

def assemble : List Instr → Bytes
  | [] => []
  | i :: r => i.bytes ++ assemble r

theorem minimalPush_ne_nil (d : Bytes) : Spec.minimalPush d ≠ [] := by
  unfold Spec.minimalPush; split <;> (try split) <;> (try split) <;> (try split) <;> simp

/-- first byte of the minimal push (proof-side helper; the list is never empty) -/
def pushOpcode (d : Bytes) : UInt8 :=
  match Spec.minimalPush d with
  | op :: _ => op
  | [] => 0

theorem minimalPush_cons (d : Bytes) : ∃ tail, Spec.minimalPush d = pushOpcode d :: tail := by
  unfold pushOpcode
  cases h : Spec.minimalPush d with
  | nil => exact absurd h (minimalPush_ne_nil d)
  | cons op tail => exact ⟨tail, rfl⟩

/-- the token `opcode_list` prints for an instruction -/
def Instr.token : Instr → Text
  | .plain op => disassembleForOpcodeData op none
  | .push d => disassembleForOpcodeData (pushOpcode d) (some d)

/-- the decoder reads the minimal push of `d` back, wherever it sits -/
theorem getOpcode_minimalPush (pre d rest : Bytes) (vm : Bool) (h : d.length < 2 ^ 32) :
    getOpcode (pre ++ Spec.minimalPush d ++ rest) pre.length vm =
      .ok ⟨pushOpcode d, some d, pre.length + (Spec.minimalPush d).length, true⟩ := by
  obtain ⟨opc, payload, hg, hv, hm⟩ := getScriptOp_minimalPush d rest h
  obtain ⟨tail, htail⟩ := minimalPush_cons d
  have hbr : Spec.minimalPush d ++ rest = pushOpcode d :: (tail ++ rest) := by rw [htail]; rfl
  have hd : (pre ++ Spec.minimalPush d ++ rest).drop pre.length = pushOpcode d :: (tail ++ rest) := by
    rw [List.append_assoc, List.drop_left, hbr]
  rw [getOpcode_refines _ _ vm _ _ hd]
  unfold coreAnswer
  rw [← hbr, hg]
  simp only [hv]
  have hlen : (pre ++ Spec.minimalPush d ++ rest).length - rest.length = pre.length + (Spec.minimalPush d).length := by
    simp only [List.length_append]; omega
  rw [hlen]
  by_cases ho : opc ≤ 0x4e
  · simp [hm ho]
  · simp [ho]

theorem getOpcode_plain (pre rest : Bytes) (op : UInt8) (vm : Bool) (h : dictGet op decoder = none) :
    getOpcode (pre ++ [op] ++ rest) pre.length vm = .ok ⟨op, none, pre.length + 1, true⟩ := by
  have hd : (pre ++ [op] ++ rest).drop pre.length = op :: rest := by
    rw [List.append_assoc, List.drop_left]; rfl
  obtain ⟨hget, _, _⟩ := drop_facts hd
  unfold getOpcode
  rw [hget]
  simp only [h]

/-- decoding an assembled script yields its instructions, one item each, and never raises -/
theorem getOpcodes_assemble (is : List Instr) (hwf : ∀ i ∈ is, i.wf) (pre : Bytes) :
    ((getOpcodes (pre ++ assemble is) false pre.length).1.map fun it => disassembleForOpcodeData it.opcode it.data)
      = is.map Instr.token ∧
    (getOpcodes (pre ++ assemble is) false pre.length).2 = none := by
  induction is generalizing pre with
  | nil =>
    rw [getOpcodes_end _ _ _ (by simp [assemble])]
    exact ⟨rfl, rfl⟩
  | cons i is ih =>
    have hi : i.wf := hwf i (by simp)
    have his : ∀ j ∈ is, j.wf := fun j hj => hwf j (by simp [hj])
    have hscript : pre ++ assemble (i :: is) = (pre ++ i.bytes) ++ assemble is := by simp [assemble]
    have hne : i.bytes ≠ [] := by
      cases i with
      | plain op => simp [Instr.bytes]
      | push d => exact minimalPush_ne_nil d
    have hlt : pre.length < (pre ++ assemble (i :: is)).length := by
      have : 0 < i.bytes.length := List.length_pos_iff.mpr hne
      simp only [assemble, List.length_append]; omega
    obtain ⟨ih1, ih2⟩ := ih his (pre ++ i.bytes)
    have hpc : (pre ++ i.bytes).length = pre.length + i.bytes.length := by simp
    cases i with
    | plain op =>
      have hg := getOpcode_plain pre (assemble is) op false hi.1
      have hs2 : pre ++ assemble (Instr.plain op :: is) = pre ++ [op] ++ assemble is := by simp [assemble, Instr.bytes]
      have e2 : (pre ++ [op]).length = pre.length + 1 := by simp
      simp only [Instr.bytes] at ih1 ih2
      rw [e2] at ih1 ih2
      rw [hs2] at hlt ⊢
      rw [getOpcodes_step _ _ _ _ hlt hg]
      exact ⟨by simp only [List.map_cons, ih1, Instr.token], ih2⟩
    | push d =>
      have hg := getOpcode_minimalPush pre d (assemble is) false hi
      have hs2 : pre ++ assemble (Instr.push d :: is) = pre ++ Spec.minimalPush d ++ assemble is := by
        simp [assemble, Instr.bytes]
      simp only [Instr.bytes] at ih1 ih2 hpc
      rw [hpc] at ih1 ih2
      rw [hs2] at hlt ⊢
      rw [getOpcodes_step _ _ _ _ hlt hg]
      exact ⟨by simp only [List.map_cons, ih1, Instr.token], ih2⟩

/-! ## every printed token compiles back -/

theorem nameOk_spec (op : UInt8) (name : Text) (h : dictGet op intToOpcodeC = some name) :
    compileToken name = .ok [op] := by
  have := names_roundtrip op.toNat op.toNat_lt
  unfold nameOk at this
  simp only [UInt8.ofNat_toNat, h] at this
  cases hc : compileToken name with
  | ok x =>
    rw [hc] at this
    have hx : x = [op] := by simpa [isOkEq] using this
    rw [hx]
  | error e => rw [hc] at this; simp [isOkEq] at this

theorem token_plain (op : UInt8) (h : (dictGet op intToOpcodeC).isSome = true) :
    compileToken (disassembleForOpcodeData op none) = .ok [op] := by
  unfold disassembleForOpcodeData
  cases hn : dictGet op intToOpcodeC with
  | none => rw [hn] at h; simp at h
  | some name => exact nameOk_spec op name hn

theorem upper_bracket (t : Text) : upper ('[' :: t) = '[' :: upper t := by
  simp [upper]

/-- a `[hex]` token is compiled by pushing the bytes it spells -/
theorem token_hex (d : Bytes) : compileToken ('[' :: (hexlify d ++ [']'])) = compilePushData d := by
  have hkeys := name_keys
  have h1 : dictGet (upper ('[' :: (hexlify d ++ [']']))) opcodeToIntC = none := by
    apply dictGet_none
    intro p hp heq
    have := hkeys p hp
    rw [heq, upper_bracket] at this
    simp at this
  have h2 : dictGet ("OP_".toList ++ upper ('[' :: (hexlify d ++ [']']))) opcodeToIntC = none := by
    apply dictGet_none
    intro p hp heq
    have := hkeys p hp
    rw [heq, upper_bracket] at this
    simp at this
  have h3 : "0X".toList.isPrefixOf (upper ('[' :: (hexlify d ++ [']']))) = false := by
    rw [upper_bracket]; simp [List.isPrefixOf]
  have h4 : compileExpression ('[' :: (hexlify d ++ [']'])) = .ok d := by
    unfold compileExpression
    have hl : ('[' :: (hexlify d ++ [']'])).getLast? = some ']' := by
      rw [show '[' :: (hexlify d ++ [']']) = ('[' :: hexlify d) ++ [']'] from rfl, List.getLast?_concat]
    have hin : inner ('[' :: (hexlify d ++ [']'])) = hexlify d := by
      simp [inner]
    simp only [List.head?_cons, hl, hin, unhexlify_hexlify]
    simp
  unfold compileToken
  simp only [h1, h2, h3, h4, Option.isSome_none, Bool.false_eq_true, if_false]

theorem dataName_spec (op : UInt8) (h : op.toNat ≤ 96 ∧ op.toNat ≠ 80) :
    ∃ name, dictGet op intToOpcodeC = some name ∧
      "OP_PUSH".toList.isPrefixOf name = decide (1 ≤ op.toNat ∧ op.toNat ≤ 78) := by
  have := dataNames op.toNat op.toNat_lt
  unfold dataNameOk at this
  simp only [h, and_self, if_true, UInt8.ofNat_toNat, ne_eq, not_false_eq_true] at this
  cases hn : dictGet op intToOpcodeC with
  | none => rw [hn] at this; simp at this
  | some name => rw [hn] at this; exact ⟨name, rfl, by simpa using this⟩

/-- the token printed for a minimal push compiles back to that push -/
theorem token_push (d : Bytes) (h : d.length < 2 ^ 32) :
    compileToken (disassembleForOpcodeData (pushOpcode d) (some d)) = .ok (Spec.minimalPush d) := by
  unfold pushOpcode
  cases hs : Spec.smallIntOpcode d with
  | some op =>
    have hmp : Spec.minimalPush d = [op] := by unfold Spec.minimalPush; rw [hs]
    rw [hmp]
    simp only
    -- constant opcodes: named `OP_0`, `OP_1..OP_16`, `OP_1NEGATE`, none starting with `OP_PUSH`
    have hrange : (op.toNat ≤ 96 ∧ op.toNat ≠ 80) ∧ ¬ (1 ≤ op.toNat ∧ op.toNat ≤ 78) ∨ d.length = 0 := by
      match d, hs with
      | [], _ => right; rfl
      | [x], hs =>
        left
        unfold Spec.smallIntOpcode at hs
        have hx : x.toNat < 256 := x.toNat_lt
        by_cases ha : 1 ≤ x.toNat ∧ x.toNat ≤ 16
        · simp only [ha, and_self, if_true] at hs
          cases hs
          rw [ofNat_toNat_lt (by omega)]; omega
        · by_cases hb : x.toNat = 0x81
          · simp only [ha, if_false, hb, if_true] at hs
            cases hs; decide
          · simp [ha, hb] at hs
    have hop : op.toNat ≤ 96 ∧ op.toNat ≠ 80 := by
      rcases hrange with h | h
      · exact h.1
      · match d, hs, h with
        | [], hs, _ => cases hs; decide
    obtain ⟨name, hname, hpre⟩ := dataName_spec op hop
    have htok : disassembleForOpcodeData op (some d) = name := by
      unfold disassembleForOpcodeData
      rw [hname]
      rcases hrange with h | h
      · have : "OP_PUSH".toList.isPrefixOf name = false := by rw [hpre]; simp [h.2]
        simp only [this, Bool.false_eq_true, and_false, if_false]
      · have : ¬ d.length > 0 := by omega
        simp only [this, false_and, if_false]
    rw [htok]
    exact nameOk_spec op name hname
  | none =>
    have h1 := smallInt_none_len hs
    have hop : ∃ op tail, Spec.minimalPush d = op :: tail ∧ 1 ≤ op.toNat ∧ op.toNat ≤ 78 := by
      unfold Spec.minimalPush; rw [hs]
      simp only
      by_cases h75 : d.length ≤ 75
      · simp only [h75, if_true]
        exact ⟨_, _, rfl, by rw [ofNat_toNat_lt (by omega)]; omega⟩
      · by_cases h255 : d.length ≤ 255
        · simp only [h75, h255, if_false, if_true]; exact ⟨_, _, rfl, by decide⟩
        · by_cases h65535 : d.length ≤ 65535
          · simp only [h75, h255, h65535, if_false, if_true]; exact ⟨_, _, rfl, by decide⟩
          · simp only [h75, h255, h65535, if_false]; exact ⟨_, _, rfl, by decide⟩
    obtain ⟨op, tail, hmp, hlo, hhi⟩ := hop
    rw [hmp]
    simp only
    obtain ⟨name, hname, hpre⟩ := dataName_spec op (by omega)
    have htok : disassembleForOpcodeData op (some d) = '[' :: (hexlify d ++ [']']) := by
      unfold disassembleForOpcodeData
      rw [hname]
      have : "OP_PUSH".toList.isPrefixOf name = true := by rw [hpre]; simp [hlo, hhi]
      have hpos : d.length > 0 := by omega
      simp only [this, hpos, and_self, if_true]
    rw [htok, token_hex, compilePushData_eq d h, hmp]

theorem token_instr (i : Instr) (h : i.wf) : compileToken i.token = .ok i.bytes := by
  cases i with
  | plain op => exact token_plain op h.2
  | push d => exact token_push d h

theorem compileTokens_assemble (is : List Instr) (hwf : ∀ i ∈ is, i.wf) :
    compileTokens (is.map Instr.token) = .ok (assemble is) := by
  induction is with
  | nil => rfl
  | cons i is ih =>
    have hi := token_instr i (hwf i (by simp))
    have hr := ih (fun j hj => hwf j (by simp [hj]))
    simp only [List.map_cons, compileTokens, hi, hr, assemble]

end Pycoin.Script

/-! ## the string layer that can be proved: joining with one space and `str.split()` -/
namespace Pycoin.Script
open Pycoin.Gen.Opcodes

theorem splitWs_go_token (t rest cur : Text) (hns : ∀ c ∈ t, isSpace c = false) :
    splitWs.go (t ++ rest) cur = splitWs.go rest (t.reverse ++ cur) := by
  induction t generalizing cur with
  | nil => rfl
  | cons c t ih =>
    have hc : isSpace c = false := hns c (by simp)
    simp only [List.cons_append, splitWs.go, hc, Bool.false_eq_true, if_false]
    rw [ih (c :: cur) (fun x hx => hns x (by simp [hx]))]
    simp

theorem splitWs_joinSpace (toks : List Text) (h : ∀ t ∈ toks, t ≠ [] ∧ ∀ c ∈ t, isSpace c = false) :
    splitWs (joinSpace toks) = toks := by
  induction toks with
  | nil => rfl
  | cons t r ih =>
    obtain ⟨hne, hns⟩ := h t (by simp)
    have hr : ∀ t' ∈ r, t' ≠ [] ∧ ∀ c ∈ t', isSpace c = false := fun t' ht' => h t' (by simp [ht'])
    have hrev : t.reverse.isEmpty = false := by
      cases t with
      | nil => exact absurd rfl hne
      | cons a b => simp
    cases r with
    | nil =>
      unfold splitWs
      simp only [joinSpace]
      have := splitWs_go_token t [] [] hns
      simp only [List.append_nil] at this
      rw [this]
      simp [splitWs.go, hrev]
    | cons t' r' =>
      unfold splitWs at ih ⊢
      simp only [joinSpace]
      rw [splitWs_go_token t _ [] hns]
      have hsp : isSpace ' ' = true := by decide
      simp only [List.append_nil, splitWs.go, hsp, if_true, hrev, Bool.false_eq_true, if_false, List.reverse_reverse]
      rw [ih hr]
end Pycoin.Script

namespace Pycoin.Script
open Pycoin.Gen.Opcodes

theorem names_nospace : ∀ p ∈ intToOpcodeC, (!p.2.isEmpty && p.2.all (fun c => !isSpace c)) = true := by
  decide +kernel

theorem hexdigit_nospace : ∀ n, n < 16 → isSpace (Hex.digit n) = false := by decide +kernel

theorem hexlify_nospace (d : Bytes) : ∀ c ∈ hexlify d, isSpace c = false := by
  unfold hexlify
  induction d with
  | nil => simp [Hex.encodeChars]
  | cons b bs ih =>
    intro c hc
    simp only [Hex.encodeChars, List.mem_cons] at hc
    have hb : b.toNat < 256 := b.toNat_lt
    rcases hc with h | h | h
    · rw [h]; exact hexdigit_nospace _ (by omega)
    · rw [h]; exact hexdigit_nospace _ (by omega)
    · exact ih c h

def nameOr (op : UInt8) : Text :=
  match dictGet op intToOpcodeC with
  | some s => s
  | none => "???".toList

def tokenShape (s : Text) (data : Option Bytes) : Text :=
  match data with
  | some d => if d.length > 0 ∧ "OP_PUSH".toList.isPrefixOf s then '[' :: (hexlify d ++ [']']) else s
  | none => s

theorem dfod_eq (op : UInt8) (data : Option Bytes) :
    disassembleForOpcodeData op data = tokenShape (nameOr op) data := by
  cases data <;> rfl

theorem nameOr_nospace (op : UInt8) : nameOr op ≠ [] ∧ ∀ c ∈ nameOr op, isSpace c = false := by
  unfold nameOr
  cases hn : dictGet op intToOpcodeC with
  | none => exact ⟨by decide, by decide⟩
  | some name =>
    have := names_nospace (op, name) (dictGet_mem op intToOpcodeC name hn)
    simp only [Bool.and_eq_true, Bool.not_eq_true', List.all_eq_true] at this
    refine ⟨?_, fun c hc => by simpa using this.2 c hc⟩
    intro h
    have h' : name = [] := h
    have h1 := this.1
    rw [h'] at h1
    simp at h1

theorem dfod_nospace (op : UInt8) (data : Option Bytes) :
    disassembleForOpcodeData op data ≠ [] ∧ ∀ c ∈ disassembleForOpcodeData op data, isSpace c = false := by
  rw [dfod_eq]
  have hs' := nameOr_nospace op
  unfold tokenShape
  cases data with
  | none => exact hs'
  | some d =>
    simp only
    split
    · refine ⟨by simp, ?_⟩
      intro c hc
      simp only [List.mem_cons, List.mem_append, List.not_mem_nil, or_false] at hc
      rcases hc with h | h | h
      · rw [h]; decide
      · exact hexlify_nospace d c h
      · rw [h]; decide
    · exact hs'

end Pycoin.Script
