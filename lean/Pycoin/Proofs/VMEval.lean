import Mathlib.Tactic.SplitIfs
import Pycoin.Proofs.VMInstr3
/-!
The whole script: `VM.eval_script` against Core's `EvalScript`, by induction on the loop
(for scripts whose instructions are outside the CHECKSIG family).
-/
namespace Pycoin.VM
open Pycoin.Spec Pycoin.Gen.VM CondStack Consensus

/-- no instruction of the script (walked as Core's loop walks it) is CHECKSIG(VERIFY) / CHECKMULTISIG(VERIFY) -/
def noSigOps : Nat → Bytes → Bool
  | 0, _ => true
  | f + 1, rest =>
    match getScriptOp rest with
    | none => true
    | some (op, _, rest', _) => !(decide (0xac ≤ op) && decide (op ≤ 0xaf)) && noSigOps f rest'

theorem getScriptOp_rest (rest : Bytes) (op : Nat) (d r : Bytes) (sz : Nat)
    (h : getScriptOp rest = some (op, d, r, sz)) : r = rest.drop sz ∧ 0 < sz ∧ sz ≤ rest.length := by
  cases rest with
  | nil => simp [getScriptOp] at h
  | cons b tl =>
    by_cases c1 : b.toNat < 76
    · rw [spec_direct b tl c1] at h
      split_ifs at h with hl
      simp only [Option.some.injEq, Prod.mk.injEq] at h
      obtain ⟨_, _, hr, hs⟩ := h
      subst hr; subst hs
      refine ⟨?_, by omega, by simp only [List.length_cons]; omega⟩
      rw [show 1 + 0 + b.toNat = b.toNat + 1 by omega, List.drop_succ_cons]
    · by_cases c2 : b.toNat ≤ 78
      · have hcase : b.toNat = 76 ∨ b.toNat = 77 ∨ b.toNat = 78 := by omega
        have aux : ∀ k, ((b.toNat = 76 ∧ k = 1) ∨ (b.toNat = 77 ∧ k = 2) ∨ (b.toNat = 78 ∧ k = 4)) →
            r = (b :: tl).drop sz ∧ 0 < sz ∧ sz ≤ (b :: tl).length := by
          intro k hk
          by_cases hkl : k ≤ tl.length
          · rw [spec_var b tl k hk hkl] at h
            split_ifs at h with hl
            simp only [Option.some.injEq, Prod.mk.injEq] at h
            obtain ⟨_, _, hr, hs⟩ := h
            subst hr; subst hs
            have hdl : (tl.drop k).length = tl.length - k := List.length_drop
            refine ⟨?_, by omega, by simp only [List.length_cons]; omega⟩
            rw [show 1 + k + leNat (tl.take k) = (k + leNat (tl.take k)) + 1 by omega, List.drop_succ_cons, List.drop_drop]
          · rw [spec_var_trunc b tl k hk hkl] at h; cases h
        rcases hcase with e | e | e
        · exact aux 1 (Or.inl ⟨e, rfl⟩)
        · exact aux 2 (Or.inr (Or.inl ⟨e, rfl⟩))
        · exact aux 4 (Or.inr (Or.inr ⟨e, rfl⟩))
      · rw [spec_other b tl (by omega)] at h
        simp only [Option.some.injEq, Prod.mk.injEq] at h
        obtain ⟨_, _, hr, hs⟩ := h
        subst hr; subst hs
        simp

variable (chk : Bytes → Bytes → Bytes → Bool → Bool) (cfg : Config)

/-- Core's loop with the pure checker -/
def specLoop (fuel : Nat) (rest : Bytes) (pc : Nat) (st : Consensus.State) : Res Consensus.State :=
  Id.run (Consensus.evalLoop (m := Id) (fun a b c d => pure (specChk chk a b c d)) (specEnv cfg) fuel rest pc st)

theorem specLoop_zero (rest : Bytes) (pc : Nat) (st : Consensus.State) :
    specLoop chk cfg 0 rest pc st = if rest.isEmpty then .ok st else .error .UNKNOWN_ERROR := rfl

theorem specLoop_succ (fuel : Nat) (rest : Bytes) (pc : Nat) (st : Consensus.State) :
    specLoop chk cfg (fuel + 1) rest pc st =
      if rest.isEmpty then .ok st else
      match getScriptOp rest with
      | none => .error .BAD_OPCODE
      | some (opcode, data, rest', size) =>
        match specStep chk cfg st opcode data (pc + size) with
        | .error e => .error e
        | .ok st' => specLoop chk cfg fuel rest' (pc + size) st' := by
  simp only [specLoop, Consensus.evalLoop, Id.run, specStep]
  split_ifs
  · rfl
  · cases getScriptOp rest with
    | none => rfl
    | some r =>
      obtain ⟨op, d, r', sz⟩ := r
      simp only [bind, pure]
      cases stepM (m := Id) (fun a b c d => pure (specChk chk a b c d)) (specEnv cfg) st op d (pc + sz) <;> rfl

/-- the two loops, from corresponding states, with the same fuel: both fail or both end in corresponding states.
Induction on the fuel; `pc` strictly increases (`getScriptOp_rest`: `0 < size`). -/
theorem loop_eq (hw : hasFlag cfg.flags VERIFY_MINIMALIF = true → cfg.witness = true) :
    ∀ (fuel : Nat) (st : Consensus.State) (pc : Nat), pc ≤ cfg.script.length →
      noSigOps fuel (cfg.script.drop pc) = true →
      (evalLoop (stdEnv chk) cfg fuel (absS st pc)).toOption =
        (specLoop chk cfg fuel (cfg.script.drop pc) pc st).toOption.map (absS · cfg.script.length) := by
  intro fuel
  induction fuel with
  | zero =>
    intro st pc hpc _
    rw [specLoop_zero]
    simp only [evalLoop, absS]
    by_cases h : pc < cfg.script.length
    · have : (cfg.script.drop pc).isEmpty = false := by
        cases hd : cfg.script.drop pc with
        | nil => have := List.drop_eq_nil_iff.mp hd; omega
        | cons => rfl
      simp [h, this, Except.toOption]
    · have hpc' : pc = cfg.script.length := by omega
      have : (cfg.script.drop pc).isEmpty = true := by rw [hpc']; simp
      simp [h, this, Except.toOption, pure, Except.pure, hpc']
  | succ fuel ih =>
    intro st pc hpc hns
    rw [specLoop_succ]
    by_cases h : pc < cfg.script.length
    · have hne : (cfg.script.drop pc).isEmpty = false := by
        cases hd : cfg.script.drop pc with
        | nil => have := List.drop_eq_nil_iff.mp hd; omega
        | cons => rfl
      have hi := instr_eq chk cfg st pc h hw
      have hpcs : (absS st pc).pc < cfg.script.length := h
      simp only [evalLoop, hpcs, if_true, hne, Bool.false_eq_true, if_false, bind, Except.bind]
      cases hg : getScriptOp (cfg.script.drop pc) with
      | none =>
        rw [hg] at hi
        simp only at hi
        obtain ⟨e, he⟩ := (toOption_none_iff _).mp hi
        simp [he, Except.toOption]
      | some r =>
        obtain ⟨op, data, rest', size⟩ := r
        rw [hg] at hi
        simp only at hi
        simp only [noSigOps, hg, Bool.and_eq_true, Bool.not_eq_true'] at hns
        have hnsig : ¬ (0xac ≤ op ∧ op ≤ 0xaf) := by
          intro ⟨a, b⟩; have := hns.1; simp [a, b] at this
        have hag := hi hnsig
        obtain ⟨hrest, hpos, hle⟩ := getScriptOp_rest _ _ _ _ _ hg
        have hlen : (cfg.script.drop pc).length = cfg.script.length - pc := List.length_drop
        have hpc2 : pc + size ≤ cfg.script.length := by omega
        have hdrop : rest' = cfg.script.drop (pc + size) := by rw [hrest, List.drop_drop]
        unfold Agree at hag
        cases hs : specStep chk cfg st op data (pc + size) with
        | error e =>
          rw [hs] at hag
          obtain ⟨e', he⟩ := (toOption_none_iff _).mp hag
          simp [he, hs, Except.toOption]
        | ok st' =>
          rw [hs] at hag
          have hm := (toOption_ok_iff _ _).mp hag
          simp only [hm, hs]
          rw [hdrop]
          exact ih st' (pc + size) hpc2 (by rw [← hdrop]; exact hns.2)
    · have hpc' : pc = cfg.script.length := by omega
      subst hpc'
      have h0 : ¬ (absS st cfg.script.length).pc < cfg.script.length := Nat.lt_irrefl _
      simp [evalLoop, h0, Except.toOption, pure, Except.pure]

theorem specEval_def (stack : List Bytes) :
    Consensus.evalScript (specChk chk) stack cfg.script (Flags.ofBits cfg.flags)
        ⟨cfg.ctx.version, cfg.ctx.lockTime, cfg.ctx.sequence⟩ (if cfg.witness then .witnessV0 else .base) =
      if cfg.script.length > Consensus.MAX_SCRIPT_SIZE then .error .SCRIPT_SIZE
      else match specLoop chk cfg cfg.script.length cfg.script 0 { stack := stack } with
        | .error e => .error e
        | .ok st => if !st.vfExec.isEmpty then .error .UNBALANCED_CONDITIONAL else .ok st.stack := by
  rfl

/-- C03.eval_eq for scripts without CHECKSIG-family instructions: same verdict, and on success the same final stack -/
theorem evalScript_eq (hw : hasFlag cfg.flags VERIFY_MINIMALIF = true → cfg.witness = true)
    (hns : noSigOps cfg.script.length cfg.script = true) (stack : List Bytes) :
    (evalScript (stdEnv chk) cfg stack).toOption.map (·.stack) =
      (Consensus.evalScript (specChk chk) stack cfg.script (Flags.ofBits cfg.flags)
        ⟨cfg.ctx.version, cfg.ctx.lockTime, cfg.ctx.sequence⟩ (if cfg.witness then .witnessV0 else .base)).toOption := by
  have hl := loop_eq chk cfg hw cfg.script.length { stack := stack } 0 (Nat.zero_le _) (by simpa using hns)
  have h0 : (absS { stack := stack } 0 : State) = { stack := stack } := by simp [absS, absC]
  rw [h0] at hl
  simp only [List.drop_zero] at hl
  rw [specEval_def]
  unfold evalScript
  by_cases hsz : cfg.script.length > 10000
  · have : cfg.script.length > Gen.VM.MAX_SCRIPT_LENGTH := hsz
    have h2 : cfg.script.length > Consensus.MAX_SCRIPT_SIZE := hsz
    simp [this, h2, Except.toOption, bind, Except.bind]
  · have : ¬ cfg.script.length > Gen.VM.MAX_SCRIPT_LENGTH := hsz
    have h2 : ¬ cfg.script.length > Consensus.MAX_SCRIPT_SIZE := hsz
    simp only [this, h2, if_false, bind, Except.bind, pure, Except.pure]
    cases hsl : specLoop chk cfg cfg.script.length cfg.script 0 { stack := stack } with
    | error e =>
      rw [hsl] at hl
      obtain ⟨e', he⟩ := (toOption_none_iff _).mp hl
      simp [he, Except.toOption]
    | ok st' =>
      rw [hsl] at hl
      have hm := (toOption_ok_iff _ _).mp hl
      simp only [hm, postScriptCheck]
      have hf := absC_final st'.vfExec
      by_cases hv : st'.vfExec = []
      · have hfin := hf.mpr hv
        rw [hv] at hfin
        simp [absS, hfin, hv, Except.toOption]
      · have hne : (absC st'.vfExec).checkFinalState ≠ .ok () := fun hh => hv (hf.mp hh)
        have hemp : st'.vfExec.isEmpty = false := by cases hx : st'.vfExec <;> simp_all
        cases hc : (absC st'.vfExec).checkFinalState with
        | ok u => exact absurd (by rw [hc]) hne
        | error e => simp [absS, hc, hemp, Except.toOption]

end Pycoin.VM
