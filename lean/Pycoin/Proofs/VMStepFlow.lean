import Mathlib.Tactic.SplitIfs
import Mathlib.Tactic.IntervalCases
import Pycoin.Proofs.VMStepArith
/-!
Handler level: flow control (IF/NOTIF/ELSE/ENDIF), NOPs, reserved / undefined opcodes, CLTV/CSV.
-/
namespace Pycoin.VM
open Pycoin.Spec Pycoin.Gen.VM CondStack Consensus

variable (cfg : Config) (st : Consensus.State) (pc' : Nat) (f : Bool)

/-! ### conditionals -/

theorem opIf_abs (vf : List Bool) (v n : Bool) :
    (absC vf).opIf (if (absC vf).allIfTrue then v else false) n =
      absC ((if vf.all id then (if n then !v else v) else false) :: vf) := by
  have h := absC_step vf (.opIf v n)
  simpa [pyStep, coreStep] using h

/-- IF / NOTIF, in executed and dead branches; `MINIMALIF` is only ever given to witness VMs (`hw`) -/
theorem h_IF (rev : Bool) (hw : hasFlag cfg.flags VERIFY_MINIMALIF = true → cfg.witness = true) :
    Agree pc' (doIf rev cfg.flags (absS st pc'))
      (execOp (specEnv cfg) st (st.vfExec.all id) (if rev then 0x64 else 0x63) pc') := by
  rcases st with ⟨stk, alt, vf, n, cs⟩
  have hall := absC_allIfTrue vf
  have hop : (if rev then (0x64 : Nat) else 0x63) = OP_IF ∨ (if rev then (0x64 : Nat) else 0x63) = OP_NOTIF := by
    cases rev <;> simp [OP_IF, OP_NOTIF]
  have hnot : ((if rev then (0x64 : Nat) else 0x63) == OP_NOTIF) = rev := by cases rev <;> simp [OP_NOTIF]
  cases hv : vf.all id
  · -- dead branch
    have h := opIf_abs vf false rev
    rw [hall, hv] at h
    simp only [Bool.false_eq_true, if_false] at h
    cases rev <;>
    simp [Agree, absS, doIf, hall, hv, execOp, Except.toOption, pure, Except.pure, h,
      OP_1NEGATE, OP_1, OP_16, OP_NOP, OP_CHECKLOCKTIMEVERIFY, OP_CHECKSEQUENCEVERIFY, OP_NOP1, OP_NOP4, OP_NOP10, OP_IF, OP_NOTIF]
  · rcases stk with _ | ⟨item, r⟩
    · cases rev <;>
      simp [Agree, absS, doIf, hall, hv, execOp, Except.toOption, bind, Except.bind,
        OP_1NEGATE, OP_1, OP_16, OP_NOP, OP_CHECKLOCKTIMEVERIFY, OP_CHECKSEQUENCEVERIFY, OP_NOP1, OP_NOP4, OP_NOP10, OP_IF, OP_NOTIF]
    · have h := opIf_abs vf (castToBool item) rev
      rw [hall, hv] at h
      simp only [if_true] at h
      have hfl := flag_minimalif cfg.flags
      have hcases : item = [] ∨ item = [1] ∨ (item ≠ [] ∧ item ≠ [1] ∧ (item.length > 1 ∨ (item.length = 1 ∧ item ≠ [1]))) := by
        rcases item with _ | ⟨a, _ | ⟨b, r'⟩⟩
        · left; rfl
        · by_cases ha : a = 1
          · right; left; rw [ha]
          · right; right; simp [ha]
        · right; right; simp
      by_cases hm : hasFlag cfg.flags VERIFY_MINIMALIF = true
      · have hwit := hw hm
        have hm' : (Flags.ofBits cfg.flags).minimalif = true := by rw [← hfl]; exact hm
        rcases hcases with rfl | rfl | ⟨h1, h2, h3⟩ <;>
        cases rev <;>
        simp_all [Agree, absS, doIf, execOp, Except.toOption, bind, Except.bind, pure, Except.pure, pop, specEnv,
          boolFromScriptBytes_false, VM_FALSE, VM_TRUE,
          OP_1NEGATE, OP_1, OP_16, OP_NOP, OP_CHECKLOCKTIMEVERIFY, OP_CHECKSEQUENCEVERIFY, OP_NOP1, OP_NOP4, OP_NOP10, OP_IF, OP_NOTIF]
      · have hm0 : hasFlag cfg.flags VERIFY_MINIMALIF = false := by simpa using hm
        have hm' : (Flags.ofBits cfg.flags).minimalif = false := by rw [← hfl]; exact hm0
        cases rev <;>
        simp_all [Agree, absS, doIf, execOp, Except.toOption, bind, Except.bind, pure, Except.pure, pop, specEnv,
          boolFromScriptBytes_false,
          OP_1NEGATE, OP_1, OP_16, OP_NOP, OP_CHECKLOCKTIMEVERIFY, OP_CHECKSEQUENCEVERIFY, OP_NOP1, OP_NOP4, OP_NOP10, OP_IF, OP_NOTIF]

theorem h_ELSE : Agree pc' (do_ELSE (absS st pc')) (execOp (specEnv cfg) st f 0x67 pc') := by
  rcases st with ⟨stk, alt, vf, n, cs⟩
  have h := absC_step vf .opElse
  simp only [pyStep, coreStep] at h
  rcases vf with _ | ⟨b, r⟩
  · cases hh : (absC []).opElse <;> simp_all [Except.toOption]
    opsimp [do_ELSE, hh]
  · cases hh : (absC (b :: r)).opElse <;> simp_all [Except.toOption]
    opsimp [do_ELSE, hh, h]

theorem h_ENDIF : Agree pc' (do_ENDIF (absS st pc')) (execOp (specEnv cfg) st f 0x68 pc') := by
  rcases st with ⟨stk, alt, vf, n, cs⟩
  have h := absC_step vf .opEndif
  simp only [pyStep, coreStep] at h
  rcases vf with _ | ⟨b, r⟩
  · cases hh : (absC []).opEndif <;> simp_all [Except.toOption]
    opsimp [do_ENDIF, hh]
  · cases hh : (absC (b :: r)).opEndif <;> simp_all [Except.toOption]
    opsimp [do_ENDIF, hh, h]

/-! ### NOPs, reserved and undefined opcodes -/

theorem h_NOPn (op : Nat) (hop : op = 0xb0 ∨ (0xb3 ≤ op ∧ op ≤ 0xb9)) :
    Agree pc' (discourageNops cfg.flags (absS st pc')) (execOp (specEnv cfg) st f op pc') := by
  have hfl := flag_nops cfg.flags
  rcases hop with rfl | ⟨h1, h2⟩
  · cases hd : hasFlag cfg.flags VERIFY_DISCOURAGE_UPGRADABLE_NOPS <;> rw [hd] at hfl <;>
    opsimp [discourageNops, hd, specEnv, ← hfl]
  · interval_cases op <;> cases hd : hasFlag cfg.flags VERIFY_DISCOURAGE_UPGRADABLE_NOPS <;> rw [hd] at hfl <;>
    opsimp [discourageNops, hd, specEnv, ← hfl]

/-- every opcode pycoin maps to a BAD_OPCODE-raising handler is BAD_OPCODE in Core's switch:
OP_RESERVED, OP_VER, OP_VERIF, OP_VERNOTIF, OP_RESERVED1/2 and everything above OP_NOP10 -/
theorem h_bad (op : Nat) (hop : op = 0x50 ∨ op = 0x62 ∨ op = 0x65 ∨ op = 0x66 ∨ op = 0x89 ∨ op = 0x8a ∨ (0xba ≤ op ∧ op < 256))
    (e : Err) : Agree pc' (.error e) (execOp (specEnv cfg) st f op pc') := by
  rcases hop with rfl | rfl | rfl | rfl | rfl | rfl | ⟨h1, h2⟩
  iterate 6 opsimp []
  interval_cases op <;> opsimp []

/-! ### CHECKLOCKTIMEVERIFY / CHECKSEQUENCEVERIFY -/

theorem pyNum5_len (n : Nat) (x : Bytes) (v : Int) (h : pyNum n x 5 = .ok v) : ¬ x.length > 5 := by
  intro hl; simp [pyNum, hl] at h

theorem h_CLTV : Agree pc' (do_CHECKLOCKTIMEVERIFY cfg (absS st pc')) (execOp (specEnv cfg) st f 0xb1 pc') := by
  rcases st with ⟨stk, alt, vf, n, cs⟩
  have h1 := flag_cltv cfg.flags
  have h2 := flag_nops cfg.flags
  cases hc : hasFlag cfg.flags VERIFY_CHECKLOCKTIMEVERIFY <;> rw [hc] at h1
  · cases hd : hasFlag cfg.flags VERIFY_DISCOURAGE_UPGRADABLE_NOPS <;> rw [hd] at h2 <;>
    opsimp [do_CHECKLOCKTIMEVERIFY, hc, hd, specEnv, ← h1, ← h2]
  · rcases stk with _ | ⟨x, r⟩
    · opsimp [do_CHECKLOCKTIMEVERIFY, hc, specEnv, ← h1]
    · rcases num_cases cfg.flags x 5 with ⟨v, h3, h4⟩ | ⟨e, h3, h4⟩
      · have hl := pyNum5_len _ _ _ h3
        opsimp [do_CHECKLOCKTIMEVERIFY, hc, specEnv, ← h1, popInt_cons, h3, h4, hl, Except.map, checkLockTime,
          LOCKTIME_THRESHOLD, SEQUENCE_FINAL]
        by_cases a1 : cfg.ctx.sequence = 4294967295 <;> by_cases a2 : v < 0 <;> by_cases a3 : 500000000 ≤ v <;>
          by_cases a4 : 500000000 ≤ cfg.ctx.lockTime <;> by_cases a5 : (cfg.ctx.lockTime : Int) < v <;>
          simp [a1, a2, a3, a4, a5] <;> (try split_ifs) <;> (try simp_all) <;> (try omega)
      · opsimp [do_CHECKLOCKTIMEVERIFY, hc, specEnv, ← h1, popInt_cons, h3, h4, Except.map]
        split_ifs <;> simp

theorem h_CSV : Agree pc' (do_CHECKSEQUENCEVERIFY cfg (absS st pc')) (execOp (specEnv cfg) st f 0xb2 pc') := by
  rcases st with ⟨stk, alt, vf, n, cs⟩
  have h1 := flag_csv cfg.flags
  have h2 := flag_nops cfg.flags
  cases hc : hasFlag cfg.flags VERIFY_CHECKSEQUENCEVERIFY <;> rw [hc] at h1
  · cases hd : hasFlag cfg.flags VERIFY_DISCOURAGE_UPGRADABLE_NOPS <;> rw [hd] at h2 <;>
    opsimp [do_CHECKSEQUENCEVERIFY, hc, hd, specEnv, ← h1, ← h2]
  · rcases stk with _ | ⟨x, r⟩
    · opsimp [do_CHECKSEQUENCEVERIFY, hc, specEnv, ← h1]
    · rcases num_cases cfg.flags x 5 with ⟨v, h3, h4⟩ | ⟨e, h3, h4⟩
      · have hl := pyNum5_len _ _ _ h3
        have hflag : ∀ a b : Nat, hasFlag a b = (a &&& b != 0) := fun _ _ => rfl
        opsimp [do_CHECKSEQUENCEVERIFY, hc, specEnv, ← h1, popInt_cons, h3, h4, hl, Except.map, checkSequence,
          checkSequenceVerify, hflag, Consensus.SEQUENCE_LOCKTIME_DISABLE_FLAG, Consensus.SEQUENCE_LOCKTIME_TYPE_FLAG,
          Consensus.SEQUENCE_LOCKTIME_MASK, Gen.VM.SEQUENCE_LOCKTIME_DISABLE_FLAG, Gen.VM.SEQUENCE_LOCKTIME_TYPE_FLAG]
        by_cases a1 : v < 0 <;> by_cases a2 : v.toNat &&& 2147483648 = 0 <;> by_cases a3 : cfg.ctx.version < 2 <;>
          by_cases a4 : cfg.ctx.sequence &&& 2147483648 = 0 <;>
          by_cases a5 : cfg.ctx.sequence &&& 4259839 < 4194304 <;> by_cases a6 : v.toNat &&& 4259839 < 4194304 <;>
          by_cases a7 : cfg.ctx.sequence &&& 4259839 < v.toNat &&& 4259839 <;>
          simp [a1, a2, a3, a4, a5, a6, a7] <;> (try split_ifs) <;> (try simp_all) <;> (try omega)
      · opsimp [do_CHECKSEQUENCEVERIFY, hc, specEnv, ← h1, popInt_cons, h3, h4, Except.map]
        split_ifs <;> simp

end Pycoin.VM
