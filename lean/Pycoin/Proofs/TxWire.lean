import Pycoin.Model.Tx
import Pycoin.Spec.Wire
import Pycoin.Proofs.Prefix
/-!
Helper lemmas for C07: the letter table as generated, `TxIn`/`TxOut` codecs obey the prefix law, their streams equal
the independently written wire format, lists of them, witness stacks.
-/
namespace Pycoin
open Pycoin.Wire

/-! ## the generated letter table (re-checked against `Gen/Formats.lean` on every build) -/

theorem tbl_hash : tbl '#' = some (.fixedBytes 32) := by decide
theorem tbl_L : tbl 'L' = some (.uintLE 4) := by decide
theorem tbl_Q : tbl 'Q' = some (.uintLE 8) := by decide
theorem tbl_S : tbl 'S' = some .compactString := by decide
theorem tbl_I : tbl 'I' = some .compactInt := by decide
theorem tbl_b : tbl 'b' = some .bool := by decide

/-! ## well-formedness -/

def U32 (v : Int) : Prop := 0 ≤ v ∧ v < 4294967296
def U64 (v : Int) : Prop := 0 ≤ v ∧ v < 18446744073709551616

/-- a script or witness item whose length a parser can read back (`f.read(n)` needs `n < 2^63`) -/
def LenOk (b : Bytes) : Prop := b.length < 2 ^ 63

instance (v : Int) : Decidable (U32 v) := by unfold U32; infer_instance
instance (v : Int) : Decidable (U64 v) := by unfold U64; infer_instance
instance (b : Bytes) : Decidable (LenOk b) := by unfold LenOk; infer_instance

structure TxIn.WF (t : TxIn) : Prop where
  hash : t.prevHash.length = 32
  index : U32 t.prevIndex
  script : LenOk t.script
  sequence : U32 t.sequence
  witnessCount : t.witness.length < 2 ^ 64
  witnessItems : ∀ w ∈ t.witness, LenOk w

structure TxOut.WF (t : TxOut) : Prop where
  value : U64 t.value
  script : LenOk t.script

/-- every field in its wire range: "any version, lock time, scripts, 64-bit amounts, sequence numbers and witness stacks" -/
structure Tx.WF (tx : Tx) : Prop where
  version : U32 tx.version
  lockTime : U32 tx.lockTime
  inCount : tx.ins.length < 2 ^ 64
  outCount : tx.outs.length < 2 ^ 64
  ins : ∀ t ∈ tx.ins, t.WF
  outs : ∀ o ∈ tx.outs, o.WF

def TxIn.strip (t : TxIn) : TxIn := { t with witness := [] }

/-! ## model encoders = spec encoders -/

theorem le_eq_leBytes : ∀ (k n : Nat), Spec.Wire.le k n = leBytes n k
  | 0, _ => rfl
  | k + 1, n => by simp [Spec.Wire.le, leBytes, le_eq_leBytes k]

theorem packLE_eq (k : Nat) (v : Int) (h0 : 0 ≤ v) (h1 : v < ((256 ^ k : Nat) : Int)) :
    packLE k v = .ok (Spec.Wire.le k v.toNat) := by
  unfold packLE
  rw [if_pos ⟨h0, h1⟩, le_eq_leBytes]

theorem packLE4_eq (v : Int) (h : U32 v) : packLE 4 v = .ok (Spec.Wire.le 4 v.toNat) :=
  packLE_eq 4 v h.1 (by have := h.2; simpa using this)

theorem packLE8_eq (v : Int) (h : U64 v) : packLE 8 v = .ok (Spec.Wire.le 8 v.toNat) :=
  packLE_eq 8 v h.1 (by have := h.2; simpa using this)

theorem u8_ofNat_mod (n : Nat) : UInt8.ofNat (n % 256) = UInt8.ofNat n := by
  apply UInt8.toNat_inj.mp
  simp [UInt8.toNat_ofNat']

theorem streamSatoshiInt_eq (n : Nat) (h : n < 2 ^ 64) :
    streamSatoshiInt n = .ok (Spec.Wire.compactSize n) := by
  unfold streamSatoshiInt Spec.Wire.compactSize
  by_cases h1 : n ≤ 0xFC
  · have : (n : Int) < 253 := by omega
    simp only [this, if_true, h1]
    rw [packLE_eq 1 n (by omega) (by simp; omega)]
    simp [Spec.Wire.le, u8_ofNat_mod]
  · have : ¬ (n : Int) < 253 := by omega
    simp only [this, if_false, h1]
    by_cases h2 : n ≤ 0xFFFF
    · have : (n : Int) ≤ 65535 := by omega
      simp only [this, if_true, h2]
      rw [packLE_eq 2 n (by omega) (by simp; omega)]
      simp [Except.map]
    · have : ¬ (n : Int) ≤ 65535 := by omega
      simp only [this, if_false, h2]
      by_cases h3 : n ≤ 0xFFFFFFFF
      · have : (n : Int) ≤ 0xFFFFFFFF := by omega
        simp only [this, if_true, h3]
        rw [packLE_eq 4 n (by omega) (by simp; omega)]
        simp [Except.map]
      · have : ¬ (n : Int) ≤ 0xFFFFFFFF := by omega
        simp only [this, if_false, h3]
        rw [packLE_eq 8 n (by omega) (by simp; omega)]
        simp [Except.map]

theorem streamSatoshiString_eq (s : Bytes) (h : s.length < 2 ^ 64) :
    streamSatoshiString s = .ok (Spec.Wire.varBytes s) := by
  unfold streamSatoshiString
  rw [streamSatoshiInt_eq s.length h]
  rfl

theorem lenOk_lt {b : Bytes} (h : LenOk b) : b.length < 2 ^ 64 := by
  unfold LenOk at h; omega

theorem TxIn.stream_eq (t : TxIn) (h : t.WF) : t.stream = .ok (Spec.Wire.txin t) := by
  have hh : List.take 32 t.prevHash = t.prevHash := List.take_of_length_le (by rw [h.hash]; exact Nat.le_refl _)
  simp [TxIn.stream, Gen.Formats.txIn_stream, streamStruct, tbl_hash, tbl_L, tbl_S, streamLetter,
    packLE4_eq _ h.index, packLE4_eq _ h.sequence, streamSatoshiString_eq _ (lenOk_lt h.script), hh, Spec.Wire.txin]

theorem TxOut.stream_eq (t : TxOut) (h : t.WF) : t.stream = .ok (Spec.Wire.txout t) := by
  simp [TxOut.stream, Gen.Formats.txOut_stream, streamStruct, tbl_Q, tbl_S, streamLetter,
    packLE8_eq _ h.value, streamSatoshiString_eq _ (lenOk_lt h.script), Spec.Wire.txout]

theorem streamList_eq {α : Type} (s : α → Except Err Bytes) (f : α → Bytes) :
    ∀ (l : List α), (∀ a ∈ l, s a = .ok (f a)) → streamList s l = .ok (l.map f).flatten
  | [], _ => rfl
  | a :: as, h => by
    simp [streamList, h a (by simp), streamList_eq s f as (fun x hx => h x (by simp [hx]))]

theorem streamWitness_eq (w : List Bytes) (hc : w.length < 2 ^ 64) (hi : ∀ x ∈ w, LenOk x) :
    Tx.streamWitness w = .ok (Spec.Wire.witness w) := by
  have h1 := streamList_eq streamSatoshiString Spec.Wire.varBytes w
    (fun x hx => streamSatoshiString_eq x (lenOk_lt (hi x hx)))
  simp [Tx.streamWitness, Gen.Formats.tx_stream_lenWitness, streamStruct, tbl_I, streamLetter,
    streamSatoshiInt_eq _ hc, h1, Spec.Wire.witness, bind, Except.bind, pure, Except.pure]

/-! ## prefix laws for the components -/

theorem TxIn.parse_stream : PrefixLaw (fun t : TxIn => t.stream) TxIn.parse
    (fun t => t.prevHash.length = 32 ∧ LenOk t.script ∧ t.witness = []) := by
  intro t b rest ⟨hh, hs, hw⟩ h
  have hwf : StructWF tbl F.txIn_parse [.bytes t.prevHash, .int t.prevIndex, .bytes t.script, .int t.sequence] := by
    simp [Gen.Formats.txIn_parse, StructWF, tbl_hash, tbl_L, tbl_S, LetterWF, hh]
    exact hs
  have h' : streamStruct tbl F.txIn_parse
      [.bytes t.prevHash, .int t.prevIndex, .bytes t.script, .int t.sequence] = .ok b := by
    simpa [TxIn.stream, Gen.Formats.txIn_parse, Gen.Formats.txIn_stream] using h
  have := parseStruct_streamStruct tbl _ _ b rest hwf h'
  cases t
  simp only at hw
  subst hw
  simp [TxIn.parse, this]

theorem TxOut.parse_stream : PrefixLaw TxOut.stream TxOut.parse (fun t => LenOk t.script) := by
  intro t b rest hs h
  have hwf : StructWF tbl F.txOut_parse [.int t.value, .bytes t.script] := by
    simp [Gen.Formats.txOut_parse, StructWF, tbl_Q, tbl_S, LetterWF]
    exact hs
  have h' : streamStruct tbl F.txOut_parse [.int t.value, .bytes t.script] = .ok b := by
    simpa [TxOut.stream, Gen.Formats.txOut_parse, Gen.Formats.txOut_stream] using h
  have := parseStruct_streamStruct tbl _ _ b rest hwf h'
  cases t
  simp [TxOut.parse, this]

theorem TxIn.stream_strip (t : TxIn) (blank : Bool) : t.strip.stream blank = t.stream blank := rfl

theorem streamList_map {α β : Type} (s : β → Except Err Bytes) (g : α → β) :
    ∀ l : List α, streamList s (l.map g) = streamList (fun a => s (g a)) l
  | [] => rfl
  | a :: as => by simp [streamList, streamList_map s g as]

/-- parsing the inputs section gives the inputs without their witnesses -/
theorem parseN_txIn (ins : List TxIn) (b rest : Bytes)
    (hwf : ∀ t ∈ ins, t.prevHash.length = 32 ∧ LenOk t.script)
    (h : streamList (fun t : TxIn => t.stream) ins = .ok b) :
    parseN TxIn.parse ins.length (b ++ rest) = .ok (ins.map TxIn.strip, rest) := by
  have h' : streamList (fun t : TxIn => t.stream) (ins.map TxIn.strip) = .ok b := by
    rw [streamList_map]; exact h
  have := parseN_streamList TxIn.parse_stream (ins.map TxIn.strip) b rest
    (by
      intro t ht
      obtain ⟨t', ht', rfl⟩ := List.mem_map.mp ht
      exact ⟨(hwf t' ht').1, (hwf t' ht').2, rfl⟩) h'
  simpa using this

theorem parseN_txOut (outs : List TxOut) (b rest : Bytes) (hwf : ∀ t ∈ outs, LenOk t.script)
    (h : streamList TxOut.stream outs = .ok b) :
    parseN TxOut.parse outs.length (b ++ rest) = .ok (outs, rest) :=
  parseN_streamList TxOut.parse_stream outs b rest hwf h

/-- one-letter integer formats -/
theorem streamStruct_int1 (c : Char) (k : Kind) (hk : tbl c = some k) (v : Int) (b : Bytes)
    (h : streamStruct tbl [c] [.int v] = .ok b) : streamLetter k (.int v) = .ok b := by
  unfold streamStruct at h
  simp only [hk] at h
  cases hs : streamLetter k (.int v) with
  | error e => simp [hs] at h
  | ok a => simpa [hs, streamStruct] using h

theorem parseInt1_L (v : Int) (b rest : Bytes) (h : streamStruct tbl ['L'] [.int v] = .ok b) :
    Tx.parseInt1 ['L'] (b ++ rest) = .ok (v, rest) := by
  have hwf : StructWF tbl ['L'] [.int v] := by simp [StructWF, tbl_L, LetterWF]
  have := parseStruct_streamStruct tbl _ _ b rest hwf h
  simp [Tx.parseInt1, this]

theorem streamStruct_I (n : Nat) (b : Bytes) (h : streamStruct tbl ['I'] [.int n] = .ok b) :
    streamSatoshiInt n = .ok b := streamStruct_int1 'I' .compactInt tbl_I n b h

/-- the first byte of the compact size of a positive number is not zero -/
theorem streamSatoshiInt_head (n : Nat) (b : Bytes) (hn : 1 ≤ n) (h : streamSatoshiInt n = .ok b) :
    ∃ x t, b = x :: t ∧ x.toNat ≠ 0 := by
  unfold streamSatoshiInt at h
  split at h
  · obtain ⟨h0, h1, rfl⟩ := packLE_ok h
    refine ⟨_, [], rfl, ?_⟩
    simp [UInt8.toNat_ofNat']
    omega
  · split at h
    · obtain ⟨t, _, rfl⟩ := map_cons_ok h; exact ⟨_, t, rfl, by decide⟩
    · split at h
      · obtain ⟨t, _, rfl⟩ := map_cons_ok h; exact ⟨_, t, rfl, by decide⟩
      · obtain ⟨t, _, rfl⟩ := map_cons_ok h; exact ⟨_, t, rfl, by decide⟩

/-- the witness section restores every input's stack -/
theorem parseWitnesses_stream : ∀ (ins : List TxIn) (b rest : Bytes),
    (∀ t ∈ ins, ∀ w ∈ t.witness, LenOk w) →
    streamList (fun t : TxIn => Tx.streamWitness t.witness) ins = .ok b →
    Tx.parseWitnesses (ins.map TxIn.strip) (b ++ rest) = .ok (ins, rest)
  | [], b, rest => by
    intro _ h
    simp only [streamList] at h
    have h := Except.ok.inj h
    subst h
    simp [Tx.parseWitnesses]
  | t :: ts, b, rest => by
    intro hwf h
    unfold streamList at h
    cases hx : Tx.streamWitness t.witness with
    | error e => simp [hx] at h
    | ok x =>
      cases hr : streamList (fun t : TxIn => Tx.streamWitness t.witness) ts with
      | error e => simp [hx, hr] at h
      | ok r =>
        simp only [hx, hr] at h
        have h := Except.ok.inj h
        subst h
        have hc : streamCounted streamSatoshiString t.witness = .ok x := by
          unfold Tx.streamWitness at hx
          simp only [bind_eq_ok] at hx
          obtain ⟨n, hn, items, hitems, hx⟩ := hx
          have hn' := streamStruct_I _ _ hn
          simp only [pure, Except.pure] at hx
          have hx := Except.ok.inj hx
          subst hx
          unfold streamCounted
          rw [hn', hitems]
        have h1 := parseCounted_streamCounted satoshiString_law t.witness x (r ++ rest)
          (fun w hw => hwf t (by simp) w hw) hc
        have h2 := parseWitnesses_stream ts r rest (fun y hy => hwf y (by simp [hy])) hr
        simp only [List.map_cons, Tx.parseWitnesses, List.append_assoc, h1, h2]
        cases t
        rfl

end Pycoin
