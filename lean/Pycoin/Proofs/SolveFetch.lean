import Pycoin.Model.ConstraintSolver
import Pycoin.Proofs.VMGetOp
import Pycoin.Proofs.SignEvalN
/-!
C05 — the fetch loop of the symbolic run (`Solve.fetchAll`) on the standard templates: which instructions
`get_opcode` yields for `DUP HASH160 <h> EQUALVERIFY CHECKSIG`, `<key> CHECKSIG`, `m <key>… n CHECKMULTISIG` (every count up
to 20), `OP_0 <program>` and `HASH160 <h> EQUAL`.
-/
namespace Pycoin.Solve
open Pycoin Pycoin.VM Pycoin.Gen.VM Pycoin.Sign

/-- prepend instructions to a fetch result -/
def prep (l : List Instr) (r : List Instr × Tail) : List Instr × Tail := (l ++ r.1, r.2)

theorem prep_nil (r : List Instr × Tail) : prep [] r = r := rfl
theorem prep_prep (a b : List Instr) (r : List Instr × Tail) : prep a (prep b r) = prep (a ++ b) r := by
  simp [prep]

theorem fetchAll_end (script : Bytes) (fuel pc : Nat) (h : script.length ≤ pc) : fetchAll script fuel pc = ([], .done) := by
  cases fuel <;> simp [fetchAll, Nat.not_lt.mpr h]

/-- more fuel does not change a fetch that came to the end of the script -/
theorem fetchAll_done_mono (script : Bytes) (j : Nat) : ∀ (fuel pc : Nat) (l : List Instr),
    fetchAll script fuel pc = (l, .done) → fetchAll script (fuel + j) pc = (l, .done) := by
  intro fuel
  induction fuel with
  | zero =>
    intro pc l h
    by_cases hp : pc < script.length
    · simp [fetchAll, hp] at h
    · rw [fetchAll_end _ _ _ (by omega)] at h ⊢
      exact h
  | succ f ih =>
    intro pc l h
    rw [show f + 1 + j = (f + j) + 1 by omega]
    by_cases hp : pc < script.length
    · simp only [fetchAll, hp, if_true] at h ⊢
      cases hg : VM.getOpcode script pc false with
      | error e => rw [hg] at h; simp at h
      | ok fe =>
        rw [hg] at h
        simp only at h ⊢
        by_cases hok : fe.isOk
        · simp only [hok, Bool.not_true, Bool.false_eq_true, if_false] at h ⊢
          cases hr : fetchAll script f fe.pc with
          | mk l' t =>
            rw [hr] at h
            simp only [Prod.mk.injEq] at h
            obtain ⟨h1, h2⟩ := h
            subst h2
            rw [ih fe.pc l' hr]
            simp [h1]
        · simp [hok] at h
    · rw [fetchAll_end _ _ _ (by omega)] at h ⊢
      exact h

theorem fetchAll_step {script : Bytes} {pc : Nat} {fe : Fetched} (fuel : Nat) (hp : pc < script.length)
    (hg : VM.getOpcode script pc false = .ok fe) (hok : fe.isOk = true) :
    fetchAll script (fuel + 1) pc = prep [⟨fe.opcode, fe.data⟩] (fetchAll script fuel fe.pc) := by
  simp [fetchAll, hp, hg, hok, prep]

theorem lt_of_drop_cons {script : Bytes} {pc : Nat} {b : UInt8} {tl : Bytes} (h : script.drop pc = b :: tl) :
    pc < script.length := by
  by_cases hp : pc < script.length
  · exact hp
  · rw [List.drop_eq_nil_iff.mpr (by omega)] at h; cases h

theorem drop_add_of_drop {script : Bytes} {pc : Nat} {a tl : Bytes} (h : script.drop pc = a ++ tl) :
    script.drop (pc + a.length) = tl := by
  rw [← List.drop_drop, h, List.drop_left]

/-- a non-data opcode -/
theorem fetchAll_plain {script : Bytes} {pc : Nat} {b : UInt8} {tl : Bytes} (fuel : Nat) (h : script.drop pc = b :: tl)
    (hd : decoderList[b.toNat]? = some .none) :
    fetchAll script (fuel + 1) pc = prep [⟨b.toNat, none⟩] (fetchAll script fuel (pc + 1)) :=
  fetchAll_step fuel (lt_of_drop_cons h) (model_none h false hd) rfl

/-- `OP_0`, `OP_1NEGATE`, `OP_1 … OP_16` -/
theorem fetchAll_constOp {script : Bytes} {pc : Nat} {b : UInt8} {tl : Bytes} (fuel : Nat) (h : script.drop pc = b :: tl)
    (d : Bytes) (hd : decoderList[b.toNat]? = some (.const d)) :
    fetchAll script (fuel + 1) pc = prep [⟨b.toNat, some d⟩] (fetchAll script fuel (pc + 1)) :=
  fetchAll_step fuel (lt_of_drop_cons h) (model_const h false d hd) rfl

/-- a direct push of 1..75 bytes -/
theorem fetchAll_direct {script : Bytes} {pc : Nat} {d tl : Bytes} (fuel : Nat) (h : script.drop pc = directPush d ++ tl)
    (h1 : 1 ≤ d.length) (h75 : d.length ≤ 75) :
    fetchAll script (fuel + 1) pc = prep [⟨d.length, some d⟩] (fetchAll script fuel (pc + 1 + d.length)) := by
  have hb : (UInt8.ofNat d.length).toNat = d.length := by
    rw [UInt8.toNat_ofNat']; omega
  have h' : script.drop pc = UInt8.ofNat d.length :: (d ++ tl) := h
  have hd := tbl_sized d.length (by omega) h1
  have hm := model_sized h' false constVals (by rw [hb]; exact hd)
  rw [hb] at hm
  have ht : (d ++ tl).take d.length = d := by simp
  rw [ht] at hm
  simp only [Nat.lt_irrefl, if_false, Bool.false_and, Bool.false_eq_true] at hm
  have := fetchAll_step fuel (lt_of_drop_cons h') hm rfl
  simpa using this

/-- the instruction a direct push is fetched as -/
def pushInstr (d : Bytes) : Instr := ⟨d.length, some d⟩

/-- a run of direct pushes -/
theorem fetchAll_pushes : ∀ (items : List Bytes) (script : Bytes) (pc fuel : Nat) (tl : Bytes),
    script.drop pc = pushesOf items ++ tl → (∀ d ∈ items, 1 ≤ d.length ∧ d.length ≤ 75) →
    fetchAll script (fuel + items.length) pc =
      prep (items.map pushInstr) (fetchAll script fuel (pc + (pushesOf items).length)) := by
  intro items
  induction items with
  | nil => intro script pc fuel tl _ _; simp [pushesOf, prep]
  | cons d r ih =>
    intro script pc fuel tl h hall
    have hd := hall d (by simp)
    have e : pushesOf (d :: r) ++ tl = directPush d ++ (pushesOf r ++ tl) := by simp [pushesOf]
    rw [e] at h
    have hnext : script.drop (pc + 1 + d.length) = pushesOf r ++ tl := by
      have := drop_add_of_drop h
      simpa [directPush, Nat.add_assoc, Nat.add_comm d.length 1] using this
    rw [show fuel + (d :: r).length = (fuel + r.length) + 1 by simp; omega, fetchAll_direct _ h hd.1 hd.2,
      ih script (pc + 1 + d.length) fuel tl hnext (fun x hx => hall x (List.mem_cons_of_mem _ hx)), prep_prep]
    have hl : (pushesOf (d :: r)).length = 1 + d.length + (pushesOf r).length := by
      simp [pushesOf, directPush]; omega
    rw [hl]
    simp [pushInstr, Nat.add_assoc]

/-- how a count `k ≤ 20` written by `countPush` is fetched: the opcode differs (`OP_k` or a one-byte push), the data is `[k]` -/
def countInstr (k : Nat) : Instr := if k ≤ 16 then ⟨0x50 + k, some [UInt8.ofNat k]⟩ else ⟨1, some [UInt8.ofNat k]⟩

theorem fetchAll_count {script : Bytes} {pc : Nat} {tl : Bytes} (fuel k : Nat) (h : script.drop pc = countPush k ++ tl)
    (h1 : 1 ≤ k) (h20 : k ≤ 20) :
    fetchAll script (fuel + 1) pc = prep [countInstr k] (fetchAll script fuel (pc + (countPush k).length)) := by
  by_cases h16 : k ≤ 16
  · have hb : (UInt8.ofNat (0x50 + k)).toNat = 0x50 + k := by rw [UInt8.toNat_ofNat']; omega
    have h' : script.drop pc = UInt8.ofNat (0x50 + k) :: tl := by simpa [countPush, h16] using h
    have hd := tbl_num (0x50 + k) (by omega) (by omega)
    have := fetchAll_constOp fuel h' _ (by rw [hb]; exact hd)
    rw [this, hb]
    simp [countInstr, countPush, h16]
  · have h' : script.drop pc = directPush [UInt8.ofNat k] ++ tl := by simpa [countPush, h16, directPush] using h
    have := fetchAll_direct fuel h' (by simp) (by simp)
    rw [this]
    simp [countInstr, countPush, h16]

/-! ## the templates -/

theorem fetch_p2pkh (h : Bytes) (hlen : h.length = 20) :
    fetchAll (p2pkhScript h) (p2pkhScript h).length 0 =
      ([⟨0x76, none⟩, ⟨0xa9, none⟩, pushInstr h, ⟨0x88, none⟩, ⟨0xac, none⟩], .done) := by
  have hl : (p2pkhScript h).length = 5 + 20 := by simp [p2pkhScript, hlen]
  rw [hl]
  apply fetchAll_done_mono _ 20 5 0
  have d0 : (p2pkhScript h).drop 0 = (0x76 : UInt8) :: ([0xa9, 0x14] ++ h ++ [0x88, 0xac]) := by simp [p2pkhScript]
  have d1 : (p2pkhScript h).drop (0 + 1) = (0xa9 : UInt8) :: ([0x14] ++ h ++ [0x88, 0xac]) := by simp [p2pkhScript]
  have d2 : (p2pkhScript h).drop (0 + 1 + 1) = directPush h ++ [0x88, 0xac] := by
    simp [p2pkhScript, directPush, hlen]
  have d3 : (p2pkhScript h).drop (0 + 1 + 1 + 1 + h.length) = (0x88 : UInt8) :: [0xac] := by
    have := drop_add_of_drop d2
    rw [show 0 + 1 + 1 + (directPush h).length = 0 + 1 + 1 + 1 + h.length by simp [directPush]; omega] at this
    exact this
  have d4 : (p2pkhScript h).drop (0 + 1 + 1 + 1 + h.length + 1) = (0xac : UInt8) :: [] := by
    rw [← List.drop_drop, d3]; rfl
  rw [fetchAll_plain 4 d0 (by decide +kernel), fetchAll_plain 3 d1 (by decide +kernel),
    fetchAll_direct 2 d2 (by omega) (by omega), fetchAll_plain 1 d3 (by decide +kernel),
    fetchAll_plain 0 d4 (by decide +kernel), fetchAll_end _ _ _ (by rw [hl, hlen])]
  simp [prep, pushInstr]

theorem fetch_p2pk (key : Bytes) (h1 : 1 ≤ key.length) (h75 : key.length ≤ 75) :
    fetchAll (p2pkScript key) (p2pkScript key).length 0 = ([pushInstr key, ⟨0xac, none⟩], .done) := by
  have hl : (p2pkScript key).length = 2 + key.length := by simp [p2pkScript, directPush]; omega
  rw [hl]
  apply fetchAll_done_mono _ key.length 2 0
  have d0 : (p2pkScript key).drop 0 = directPush key ++ [0xac] := by simp [p2pkScript]
  have d1 : (p2pkScript key).drop (0 + 1 + key.length) = (0xac : UInt8) :: [] := by
    have := drop_add_of_drop d0
    rw [show 0 + (directPush key).length = 0 + 1 + key.length by simp [directPush]; omega] at this
    exact this
  rw [fetchAll_direct 1 d0 h1 h75, fetchAll_plain 0 d1 (by decide +kernel), fetchAll_end _ _ _ (by rw [hl]; omega)]
  simp [prep, pushInstr]

theorem fetch_multisig (m : Nat) (keys : List Bytes) (hm1 : 1 ≤ m) (hm : m ≤ 20) (hn1 : 1 ≤ keys.length) (hn : keys.length ≤ 20)
    (hkeys : ∀ k ∈ keys, 1 ≤ k.length ∧ k.length ≤ 75) :
    fetchAll (multisigScriptN m keys) (multisigScriptN m keys).length 0 =
      (countInstr m :: (keys.map pushInstr ++ [countInstr keys.length, ⟨0xae, none⟩]), .done) := by
  have hcm := countPush_length m
  have hcn := countPush_length keys.length
  have hpl : keys.length ≤ (pushesOf keys).length := by
    clear hcm hcn hn hn1
    induction keys with
    | nil => simp
    | cons d r ih =>
      have := ih (fun x hx => hkeys x (List.mem_cons_of_mem _ hx))
      simp [pushesOf, directPush] at this ⊢
      omega
  have hl : (multisigScriptN m keys).length = (countPush m).length + (pushesOf keys).length + (countPush keys.length).length + 1 := by
    simp [multisigScriptN]; omega
  obtain ⟨j, hj⟩ : ∃ j, (multisigScriptN m keys).length = (0 + 1 + 1 + keys.length + 1) + j :=
    ⟨(multisigScriptN m keys).length - (keys.length + 3), by
      rw [hl]; have : 1 ≤ (countPush m).length := by rw [hcm]; split <;> omega
      have : 1 ≤ (countPush keys.length).length := by rw [hcn]; split <;> omega
      omega⟩
  rw [hj]
  apply fetchAll_done_mono
  have d0 : (multisigScriptN m keys).drop 0 = countPush m ++ (pushesOf keys ++ (countPush keys.length ++ [0xae])) := by
    simp [multisigScriptN]
  have d1 : (multisigScriptN m keys).drop (0 + (countPush m).length) = pushesOf keys ++ (countPush keys.length ++ [0xae]) :=
    drop_add_of_drop d0
  have d2 : (multisigScriptN m keys).drop (0 + (countPush m).length + (pushesOf keys).length) = countPush keys.length ++ [0xae] :=
    drop_add_of_drop d1
  have d3 : (multisigScriptN m keys).drop (0 + (countPush m).length + (pushesOf keys).length + (countPush keys.length).length)
      = (0xae : UInt8) :: [] := drop_add_of_drop d2
  rw [show 0 + 1 + 1 + keys.length + 1 = (0 + 1 + 1 + keys.length) + 1 by omega, fetchAll_count _ m d0 hm1 hm,
    show 0 + 1 + 1 + keys.length = (0 + 1 + 1) + keys.length by omega, fetchAll_pushes keys _ _ _ _ d1 hkeys,
    fetchAll_count _ keys.length d2 hn1 hn, fetchAll_plain 0 d3 (by decide +kernel),
    fetchAll_end _ _ _ (by rw [hl]; omega)]
  simp [prep]

/-- `OP_0 <program>` -/
theorem fetch_witnessV0 (prog : Bytes) (h1 : 1 ≤ prog.length) (h75 : prog.length ≤ 75) :
    fetchAll (witnessV0Script prog) (witnessV0Script prog).length 0 = ([⟨0, some []⟩, pushInstr prog], .done) := by
  have hl : (witnessV0Script prog).length = 2 + prog.length := by simp [witnessV0Script, directPush]; omega
  rw [hl]
  apply fetchAll_done_mono _ prog.length 2 0
  have d0 : (witnessV0Script prog).drop 0 = (0 : UInt8) :: (directPush prog ++ []) := by simp [witnessV0Script]
  have d1 : (witnessV0Script prog).drop (0 + 1) = directPush prog ++ [] := by simp [witnessV0Script]
  rw [fetchAll_constOp 1 d0 [] (by decide +kernel), fetchAll_direct 0 d1 h1 h75, fetchAll_end _ _ _ (by omega)]
  simp [prep, pushInstr]

/-- `HASH160 <h> EQUAL` -/
theorem fetch_p2sh (h : Bytes) (hlen : h.length = 20) :
    fetchAll (p2shScript h) (p2shScript h).length 0 = ([⟨0xa9, none⟩, pushInstr h, ⟨0x87, none⟩], .done) := by
  have hl : (p2shScript h).length = 3 + 20 := by simp [p2shScript, directPush, hlen]
  rw [hl]
  apply fetchAll_done_mono _ 20 3 0
  have d0 : (p2shScript h).drop 0 = (0xa9 : UInt8) :: (directPush h ++ [0x87]) := by simp [p2shScript]
  have d1 : (p2shScript h).drop (0 + 1) = directPush h ++ [0x87] := by simp [p2shScript]
  have d2 : (p2shScript h).drop (0 + 1 + 1 + h.length) = (0x87 : UInt8) :: [] := by
    have := drop_add_of_drop d1
    rw [show 0 + 1 + (directPush h).length = 0 + 1 + 1 + h.length by simp [directPush]; omega] at this
    exact this
  rw [fetchAll_plain 2 d0 (by decide +kernel), fetchAll_direct 1 d1 (by omega) (by omega),
    fetchAll_plain 0 d2 (by decide +kernel), fetchAll_end _ _ _ (by rw [hl, hlen])]
  simp [prep, pushInstr]

end Pycoin.Solve
