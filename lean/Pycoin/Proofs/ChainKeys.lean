import Pycoin.Proofs.ChainMeld
/-! `trees_from_bottom` keeps distinct keys (a Python dict), so every entry is the one `get` returns (core Lean only) -/
namespace Pycoin.Chain

def dkeys {α} (d : Dict α) : List Nat := d.map (·.1)

theorem dkeys_dset {α} (d : Dict α) (k : Nat) (v : α) : ∀ x, x ∈ dkeys (dset d k v) ↔ x ∈ dkeys d ∨ x = k := by
  induction d with
  | nil => intro x; simp [dset, dkeys]
  | cons e r ih =>
    obtain ⟨a, b⟩ := e
    intro x
    unfold dset
    by_cases h : a = k
    · subst h; simp [dkeys]; intro e; exact Or.inl e
    · simp only [h, if_false]
      have := ih x
      simp only [dkeys, List.map_cons, List.mem_cons] at this ⊢
      rw [this]
      constructor
      · rintro (h1 | h1 | h1)
        · exact Or.inl (Or.inl h1)
        · exact Or.inl (Or.inr h1)
        · exact Or.inr h1
      · rintro ((h1 | h1) | h1)
        · exact Or.inl h1
        · exact Or.inr (Or.inl h1)
        · exact Or.inr (Or.inr h1)

theorem nodup_dset {α} (d : Dict α) (k : Nat) (v : α) (h : (dkeys d).Nodup) : (dkeys (dset d k v)).Nodup := by
  induction d with
  | nil => simp [dset, dkeys]
  | cons e r ih =>
    obtain ⟨a, b⟩ := e
    unfold dset
    have hr : (dkeys r).Nodup := (List.nodup_cons.mp (by simpa [dkeys] using h)).2
    have ha : a ∉ dkeys r := (List.nodup_cons.mp (by simpa [dkeys] using h)).1
    by_cases e : a = k
    · subst e; simpa [dkeys] using h
    · simp only [e, if_false]
      show (a :: dkeys (dset r k v)).Nodup
      refine List.nodup_cons.mpr ⟨?_, ih hr⟩
      intro hm
      rcases (dkeys_dset r k v a).mp hm with h1 | h1
      · exact ha h1
      · exact e h1

theorem nodup_ddel {α} (d : Dict α) (k : Nat) (h : (dkeys d).Nodup) : (dkeys (ddel d k)).Nodup := by
  unfold ddel dkeys
  exact List.Nodup.sublist (List.Sublist.map _ List.filter_sublist) h

/-- with distinct keys every entry is visible through `get` -/
theorem dget_of_mem {α} (d : Dict α) (h : (dkeys d).Nodup) (k : Nat) (v : α) (hm : (k, v) ∈ d) : dget d k = some v := by
  induction d with
  | nil => simp at hm
  | cons e r ih =>
    obtain ⟨a, b⟩ := e
    have hr : (dkeys r).Nodup := (List.nodup_cons.mp (by simpa [dkeys] using h)).2
    have ha : a ∉ dkeys r := (List.nodup_cons.mp (by simpa [dkeys] using h)).1
    unfold dget
    rcases List.mem_cons.mp hm with hm | hm
    · injection hm with e1 e2; subst e1; subst e2; simp
    · have : a ≠ k := by
        intro e; subst e
        exact ha (by simpa [dkeys] using List.mem_map_of_mem (f := (·.1)) hm)
      simp only [this, if_false]
      exact ih hr hm

theorem walkUp_keys (pending : PSet) : ∀ (fuel : Nat) (cf : CF) (path : List Nat) (h : Nat) (path' : List Nat) (cf' : CF),
    (dkeys cf.trees).Nodup → walkUp pending fuel cf path h = .ok (path', cf') → (dkeys cf'.trees).Nodup
  | 0, _, _, _, _, _, _, hr => by simp [walkUp] at hr
  | fuel + 1, cf, path, h, path', cf', hk, hr => by
      unfold walkUp at hr
      split at hr
      · injection hr with hr; injection hr with h1 h2; subst h2; exact hk
      · split at hr
        · dsimp only at hr
          split at hr
          · cases hr
          · split at hr
            · injection hr with hr; injection hr with h1 h2; subst h2; exact nodup_ddel _ _ hk
            · cases hr
        · split at hr
          · injection hr with hr; injection hr with h1 h2; subst h2; exact hk
          · exact walkUp_keys pending fuel cf _ _ path' cf' hk hr

theorem extendWaiting_keys (bottom : Nat) (ext : List Nat) : ∀ (ws : List Nat) (trees trees' : Dict (List Nat)),
    (dkeys trees).Nodup → extendWaiting bottom ext ws trees = .ok trees' → (dkeys trees').Nodup
  | [], trees, trees', hk, hr => by simp only [extendWaiting, Except.ok.injEq] at hr; subst hr; exact hk
  | d :: ds, trees, trees', hk, hr => by
      unfold extendWaiting at hr
      split at hr
      · cases hr
      · exact extendWaiting_keys bottom ext ds _ trees' (nodup_ddel _ _ (nodup_dset _ _ _ hk)) hr

theorem meldOne_keys (rev : Bool) (pending : PSet) (cf cf' : CF) (h : Nat) (hk : (dkeys cf.trees).Nodup)
    (hr : meldOne rev pending cf h = .ok cf') : (dkeys cf'.trees).Nodup := by
  unfold meldOne at hr
  obtain ⟨⟨path, cf1⟩, hw, hr⟩ := bind_ok hr
  have hk1 := walkUp_keys pending _ cf [h] h path cf1 hk hw
  dsimp only at hr
  split at hr
  · cases hr
  · split at hr
    · obtain ⟨trees, he, hr⟩ := bind_ok hr
      injection hr with hr; subst hr
      exact extendWaiting_keys _ _ _ _ trees (nodup_dset _ _ _ hk1) he
    · injection hr with hr; subst hr; exact nodup_dset _ _ _ hk1

theorem meld_keys (rev : Bool) (rank : List Nat) : ∀ (n : Nat) (pending : PSet) (cf cf' : CF),
    (dkeys cf.trees).Nodup → meld rev rank n pending cf = .ok cf' → (dkeys cf'.trees).Nodup
  | 0, _, cf, cf', hk, hr => by simp [meld] at hr; subst hr; exact hk
  | n + 1, pending, cf, cf', hk, hr => by
      unfold meld at hr
      split at hr
      · injection hr with hr; subst hr; exact hk
      · obtain ⟨cf1, h1, hr⟩ := bind_ok hr
        exact meld_keys rev rank n _ cf1 cf' (meldOne_keys rev _ cf cf1 _ hk h1) hr

theorem loadNodes_keys (rev : Bool) (rank : List Nat) (cf cf' : CF) (nodes : List (Nat × Nat))
    (hk : (dkeys cf.trees).Nodup) (hr : cf.loadNodes rev rank nodes = .ok cf') : (dkeys cf'.trees).Nodup := by
  unfold CF.loadNodes at hr
  exact meld_keys rev rank _ _ { cf with parent := (register cf.parent [] nodes).1 } cf' hk hr

end Pycoin.Chain
