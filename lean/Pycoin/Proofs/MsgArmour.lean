import Pycoin.Proofs.MsgLines
namespace Pycoin.MsgSigning
open Pycoin Pycoin.Gen.MsgSigning

/-! ## the template -/

def beginPrefix : Str := "-----BEGIN ".toList
def signedSuffix : Str := " SIGNED MESSAGE-----".toList
def sigMarkerLine : Str := "-----BEGIN SIGNATURE-----".toList
def endLinePrefix : Str := "-----END ".toList

def headLine (name : Str) : Str := beginPrefix ++ name ++ signedSuffix
def endLine (name : Str) : Str := endLinePrefix ++ name ++ signedSuffix

/-- the armoured text, written out -/
def armourText (name msg addr sig : Str) : Str :=
  headLine name ++ '\n' :: (msg ++ '\n' :: (sigMarkerLine ++ '\n' :: (addr ++ '\n' :: (sig ++ '\n' :: endLine name))))

theorem parseTemplate_signatureTemplate :
    parseTemplate signatureTemplate.toList
      = .ok [.lit beginPrefix, .field "net_name".toList, .lit (signedSuffix ++ ['\n']), .field "msg".toList,
             .lit ('\n' :: sigMarkerLine ++ ['\n']), .field "addr".toList, .lit ['\n'], .field "sig".toList,
             .lit ('\n' :: endLinePrefix), .field "net_name".toList, .lit signedSuffix] := by
  decide +kernel

theorem armour_eq (name msg addr sig : Str) : armour name msg addr sig = .ok (armourText name msg addr sig) := by
  unfold armour
  rw [parseTemplate_signatureTemplate]
  simp [bind, Except.bind, formatPieces, Except.map, armourText, headLine, endLine]


/-! ## `parse_sections` on the lines of an armoured text -/

theorem splitMarkers_pass (ms : List Str) (hms : ∀ l ∈ ms, isSigMarker l = false) :
    ∀ (cur : List Str) (can : Bool) (rest : List Str),
      splitMarkers cur can (ms ++ rest) = splitMarkers (cur ++ ms) (can || !ms.isEmpty) rest := by
  induction ms with
  | nil => intro cur can rest; simp
  | cons m t ih =>
    intro cur can rest
    have hm : isSigMarker m = false := hms m (by simp)
    simp only [List.cons_append, splitMarkers, hm, Bool.and_false, Bool.false_eq_true, if_false]
    rw [ih (fun l hl => hms l (by simp [hl]))]
    simp

theorem isSigMarker_sigMarkerLine : isSigMarker sigMarkerLine = true := by decide

/-- the body of an armoured text splits into the message lines and the three trailer lines -/
theorem splitMarkers_body (ms : List Str) (a s e : Str) (hne : ms ≠ []) (hms : ∀ l ∈ ms, isSigMarker l = false)
    (hs : isSigMarker s = false) :
    splitMarkers [] false (ms ++ sigMarkerLine :: [a, s, e]) = [ms, [a, s, e]] := by
  rw [splitMarkers_pass ms hms]
  have : (false || !ms.isEmpty) = true := by cases ms <;> simp_all
  rw [this]
  simp [splitMarkers, isSigMarker_sigMarkerLine, hs]

end Pycoin.MsgSigning
