import Pycoin.Model.NativeCurve
/-!
`Gen.f (pureMethods c) = Curve.f c`: the generic code over a method table (`Model/NativeCurve.lean`), instantiated with
the pure-Python methods, is the model of the pure classes (`Model/Curve.lean`) — so every theorem about the latter is a
theorem about the former, and the two descriptions of the Python source cannot drift apart.  Core Lean only.
-/
namespace Pycoin.Native
open Pycoin Pycoin.Curve

theorem Gen.add_pure (c : CurveParams) (P Q : Pt) : Gen.add (pureMethods c) c P Q = Curve.add c P Q := by
  cases P <;> cases Q <;> rfl

theorem Gen.sub_pure (c : CurveParams) (P Q : Pt) : Gen.sub (pureMethods c) c P Q = Curve.sub c P Q := by
  unfold Gen.sub Curve.sub
  cases neg c Q <;> simp [Gen.add_pure]

theorem Gen.mulG_pure (c : CurveParams) (bf e : Int) : Gen.mulG (pureMethods c) c bf e = Curve.mulG c bf e := by
  unfold Gen.mulG Curve.mulG
  simp only [pureMethods]
  cases Curve.rawMul c (e + bf) <;> simp only
  cases Curve.rawMul c (-bf) <;> simp only
  exact Gen.add_pure c _ _

theorem Gen.inverseN_pure (c : CurveParams) (a : Int) : Gen.inverseN (pureMethods c) c a = Curve.inverseN c a := rfl

theorem Gen.verify_pure (c : CurveParams) (bf : Int) (Q : Pt) (z r s : Int) :
    Gen.verify (pureMethods c) c bf Q z r s = Curve.verify c bf Q z r s := by
  unfold Gen.verify Curve.verify
  simp only [Gen.inverseN_pure, Gen.mulG_pure, Gen.add_pure]
  rfl

theorem Gen.signLoop_pure (c : CurveParams) (bf d z : Int) : ∀ (fuel : Nat) (k : Int),
    Gen.signLoop (pureMethods c) c bf d z fuel k = Curve.signLoop c bf d z fuel k := by
  intro fuel
  induction fuel with
  | zero => intro k; rfl
  | succ f ih =>
    intro k
    unfold Gen.signLoop Curve.signLoop
    simp only [Gen.inverseN_pure, Gen.mulG_pure, ih]
    rfl

theorem Gen.signWithRecid_pure (c : CurveParams) (bf : Int) (genK : Nat → Int → Int → Except Err Int) (d z : Int) :
    Gen.signWithRecid (pureMethods c) c bf genK d z = Curve.signWithRecid c bf genK d z := by
  unfold Gen.signWithRecid Curve.signWithRecid
  simp only [Gen.signLoop_pure]
  rfl

theorem Gen.sign_pure (c : CurveParams) (bf : Int) (genK : Nat → Int → Int → Except Err Int) (d z : Int) :
    Gen.sign (pureMethods c) c bf genK d z = Curve.sign c bf genK d z := by
  unfold Gen.sign Curve.sign
  simp only [Gen.signWithRecid_pure]
  rfl

theorem Gen.recover_pure (c : CurveParams) (bf z r s : Int) (par : Option Int) :
    Gen.possiblePublicPairsForSignature (pureMethods c) c bf z r s par =
      Curve.possiblePublicPairsForSignature c bf z r s par := by
  unfold Gen.possiblePublicPairsForSignature Curve.possiblePublicPairsForSignature
  simp only [Gen.inverseN_pure, Gen.mulG_pure, Gen.add_pure]
  rfl

theorem Gen.sharedPublicKey_pure (c : CurveParams) (d : Int) (Q : Pt) :
    Gen.sharedPublicKey (pureMethods c) c d Q = Curve.sharedPublicKey c d Q := rfl

theorem Gen.powersLoop_pure (c : CurveParams) : ∀ (k : Nat) (g : Pt),
    Gen.powersLoop (pureMethods c) c k g = Curve.powersLoop c k g := by
  intro k
  induction k with
  | zero => intro g; rfl
  | succ k ih =>
    intro g
    unfold Gen.powersLoop Curve.powersLoop
    simp only [Gen.add_pure, ih]
    rfl

theorem Gen.generatorInit_pure (c : CurveParams) (bf : Int) :
    Gen.generatorInit (pureMethods c) c bf = Curve.generatorInit c bf := by
  unfold Gen.generatorInit Curve.generatorInit Curve.powers
  simp only [Gen.powersLoop_pure]
  rfl

end Pycoin.Native
