import Pycoin.Proofs.SignEval
import Pycoin.Proofs.Bytes
/-!
C05 — m-of-n multisig for every `1 ≤ m ≤ n ≤ 20`: the counts 17..20 are one-byte data pushes (`01 11` … `01 14`, what pycoin's
script compiler writes for the decimal atoms `17` … `20`, and what the minimal-push rule demands: `OP_1 … OP_16` exist only
up to 16); `OP_CHECKMULTISIG` as an equation in the verdict of its matching loop (accepting and rejecting runs); pushes with
`PUSHDATA1` / `PUSHDATA2` (redeem scripts of 76..520 bytes in a P2SH scriptSig).
-/
namespace Pycoin.Sign
open Pycoin Pycoin.Spec.Consensus

/-- a key or signature count `k` the way `compile` writes the decimal atom `k`: `OP_1 … OP_16`, else a one-byte push -/
def countPush (k : Nat) : Bytes := if k ≤ 16 then [UInt8.ofNat (0x50 + k)] else [0x01, UInt8.ofNat k]

/-- `m <key>… n CHECKMULTISIG` for any counts -/
def multisigScriptN (m : Nat) (keys : List Bytes) : Bytes :=
  countPush m ++ (pushesOf keys ++ (countPush keys.length ++ [0xae]))

theorem multisigScriptN_eq (m : Nat) (keys : List Bytes) (hm : m ≤ 16) (hn : keys.length ≤ 16) :
    multisigScriptN m keys = multisigScript m keys := by
  simp [multisigScriptN, multisigScript, countPush, hm, hn]

theorem countPush_length (k : Nat) : (countPush k).length = if k ≤ 16 then 1 else 2 := by
  unfold countPush; split <;> rfl

theorem countPush_length_le (k : Nat) : (countPush k).length ≤ 2 := by
  rw [countPush_length]; split <;> omega

/-- the minimal-push rule accepts `01 kk` for `kk` in 17..20 (there is no `OP_17`) -/
theorem checkMinimalPush_count (k : Nat) (h17 : 17 ≤ k) (h20 : k ≤ 20) : checkMinimalPush [UInt8.ofNat k] 1 = true := by
  have : k = 17 ∨ k = 18 ∨ k = 19 ∨ k = 20 := by omega
  rcases this with h | h | h | h <;> subst h <;> decide

/-- … and rejects it for `kk` in 1..16: a script that counted 16 or fewer keys with a data push would fail MINIMALDATA -/
theorem checkMinimalPush_count_small (k : Nat) (h1 : 1 ≤ k) (h16 : k ≤ 16) : checkMinimalPush [UInt8.ofNat k] 1 = false := by
  have : k = 1 ∨ k = 2 ∨ k = 3 ∨ k = 4 ∨ k = 5 ∨ k = 6 ∨ k = 7 ∨ k = 8 ∨ k = 9 ∨ k = 10 ∨ k = 11 ∨ k = 12 ∨ k = 13 ∨ k = 14 ∨
      k = 15 ∨ k = 16 := by omega
  rcases this with h | h | h | h | h | h | h | h | h | h | h | h | h | h | h | h <;> subst h <;> decide

/-- executing a count leaves the one-byte number on the stack and does not count as an operation -/
theorem evalLoopP_count (chk : PChk) (env : Env) (k : Nat) (hk1 : 1 ≤ k) (hk : k ≤ 20) (rest : Bytes) (pc : Nat)
    (stack alt : List Bytes) (nOp cs : Nat) (hst : stack.length + alt.length < 1000) (hops : nOp ≤ 201) :
    ∃ pc', evalLoopP chk env (countPush k ++ rest) pc ⟨stack, alt, [], nOp, cs⟩ =
      evalLoopP chk env rest pc' ⟨[UInt8.ofNat k] :: stack, alt, [], nOp, cs⟩ := by
  by_cases h16 : k ≤ 16
  · have tk : (UInt8.ofNat (0x50 + k)).toNat = 0x50 + k := toNat_ofNat_lt (by omega)
    refine ⟨pc + 1, ?_⟩
    simp only [countPush, h16, if_true, List.cons_append, List.nil_append]
    rw [evalLoopP_step _ _ _ _ _ _ _ (getScriptOp_op _ _ (by rw [tk]; omega))
      (by rw [tk]; exact stepP_opn _ _ _ _ _ _ _ k hk1 h16 hst hops)]
  · refine ⟨pc + (1 + 0 + 1), ?_⟩
    have e : countPush k ++ rest = UInt8.ofNat [UInt8.ofNat k].length :: ([UInt8.ofNat k] ++ rest) := by
      simp [countPush, h16]
    rw [e, evalLoopP_step _ _ _ _ _ _ _ (getScriptOp_direct [UInt8.ofNat k] rest (by simp))
      (stepP_push _ _ _ _ _ _ _ _ _ (by simp) (by simp) (checkMinimalPush_count k (by omega) hk) hst hops)]
    rfl

/-- `OP_CHECKMULTISIG` on `… dummy sig_m … sig_1 m key_n … key_1 n` (top of stack on the left), as an equation in the verdict
of the matching loop: an error of the loop is the error of the script; a failed match is `SIG_NULLFAIL` under NULLFAIL (the
signatures are not empty) and a false on the stack otherwise; a successful match is a true. -/
theorem stepP_checkmultisig_eq (chk : PChk) (env : Env) (alt : List Bytes) (nOp cs pcNext : Nat)
    (keysTop sigsTop rest : List Bytes) (hn1 : 1 ≤ keysTop.length) (hn : keysTop.length ≤ 20)
    (hm1 : 1 ≤ sigsTop.length) (hm : sigsTop.length ≤ keysTop.length)
    (hops : nOp + 1 + keysTop.length ≤ 201) (hst : rest.length + alt.length + 1 ≤ 1000) :
    stepP chk env ⟨[UInt8.ofNat keysTop.length] :: (keysTop ++ ([UInt8.ofNat sigsTop.length] :: (sigsTop ++ ([] :: rest)))),
        alt, [], nOp, cs⟩ 0xae [] pcNext =
      match (multisigLoop (m := Id) (liftChk chk) env.flags env.sigversion
          (scriptCodeFor env ⟨[], [], [], 0, cs⟩ sigsTop) sigsTop keysTop : Res Bool) with
      | .error e => .error e
      | .ok ok =>
        if (!ok && env.flags.nullfail && sigsTop.any (fun s => !s.isEmpty)) = true then .error .SIG_NULLFAIL
        else .ok ⟨boolBytes ok :: rest, alt, [], nOp + 1 + keysTop.length, cs⟩ := by
  obtain ⟨_, kn, kg⟩ := smallnum_facts ⟨keysTop.length, by omega⟩ hn1
  obtain ⟨_, sn, sg⟩ := smallnum_facts ⟨sigsTop.length, by omega⟩ hm1
  simp only at kn kg sn sg
  unfold stepP stepM
  have h1 : ¬ ([] : Bytes).length > MAX_SCRIPT_ELEMENT_SIZE := by simp [MAX_SCRIPT_ELEMENT_SIZE]
  have h3 : ¬ nOp + 1 > MAX_OPS_PER_SCRIPT := by simp [MAX_OPS_PER_SCRIPT]; omega
  simp only [h1, h3, if_false, List.all_nil, show (0xae : Nat) > OP_16 from by decide, if_true,
    show isDisabledOpcode 0xae = false from by decide, Bool.false_eq_true,
    show ¬ (0xae : Nat) ≤ OP_PUSHDATA4 from by decide, decide_false, Bool.and_false, Bool.true_or,
    show ((0xae : Nat) == OP_CHECKSIG || (0xae : Nat) == OP_CHECKSIGVERIFY) = false from by decide,
    show ((0xae : Nat) == OP_CHECKMULTISIG || (0xae : Nat) == OP_CHECKMULTISIGVERIFY) = true from by decide]
  have hcode : scriptCodeFor env ⟨[UInt8.ofNat keysTop.length] :: (keysTop ++ ([UInt8.ofNat sigsTop.length] :: (sigsTop ++ ([] :: rest)))), alt, [], nOp + 1, cs⟩ sigsTop
      = scriptCodeFor env ⟨[], [], [], 0, cs⟩ sigsTop := scriptCodeFor_codeSep _ _ _ _ rfl
  simp only [execCheckMultiSig, num, kn, kg, MAX_PUBKEYS_PER_MULTISIG, MAX_OPS_PER_SCRIPT]
  have c1 : (decide ((keysTop.length : Int) < 0) || decide ((keysTop.length : Int) > Int.ofNat 20)) = false := by
    simp; omega
  have c2 : ¬ nOp + 1 + keysTop.length > 201 := by omega
  have c3 : ¬ (keysTop ++ [UInt8.ofNat sigsTop.length] :: (sigsTop ++ [] :: rest)).length < keysTop.length + 1 := by
    simp
  have d1 : List.drop keysTop.length (keysTop ++ [UInt8.ofNat sigsTop.length] :: (sigsTop ++ [] :: rest))
      = [UInt8.ofNat sigsTop.length] :: (sigsTop ++ [] :: rest) := List.drop_left
  have t1 : List.take keysTop.length (keysTop ++ [UInt8.ofNat sigsTop.length] :: (sigsTop ++ [] :: rest)) = keysTop :=
    List.take_left
  have c4 : (decide ((sigsTop.length : Int) < 0) || decide ((sigsTop.length : Int) > (keysTop.length : Int))) = false := by
    simp; omega
  have c5 : ¬ (sigsTop ++ [] :: rest).length < sigsTop.length + 1 := by simp
  have d2 : List.drop sigsTop.length (sigsTop ++ [] :: rest) = [] :: rest := List.drop_left
  have t2 : List.take sigsTop.length (sigsTop ++ [] :: rest) = sigsTop := List.take_left
  simp only [Int.toNat_natCast, c1, c2, c3, d1, t1, sn, sg, c4, c5, d2, t2, hcode, Bool.false_eq_true, if_false,
    bind, pure, Id.run]
  generalize (multisigLoop (m := Id) (liftChk chk) env.flags env.sigversion
    (scriptCodeFor env ⟨[], [], [], 0, cs⟩ sigsTop) sigsTop keysTop) = r
  rcases r with e | ok
  · rfl
  · by_cases hc : (!ok && env.flags.nullfail && sigsTop.any (fun s => !s.isEmpty)) = true
    · simp only [hc, if_true]
    · simp only [hc]
      simp [OP_CHECKMULTISIGVERIFY, MAX_STACK_SIZE]
      omega

theorem multisigScriptN_length_le (m : Nat) (keys : List Bytes) (hkeys : ∀ k ∈ keys, k.length ≤ 75) :
    (multisigScriptN m keys).length ≤ keys.length * 76 + 5 := by
  have hl := pushesOf_length_le keys 75 hkeys
  have := countPush_length_le m
  have := countPush_length_le keys.length
  simp [multisigScriptN]; omega

/-- what the verdict of the matching loop makes of the whole script -/
def multisigOutcome (flags : Flags) (sigsTop rest : List Bytes) : Res Bool → Res (List Bytes)
  | .error e => .error e
  | .ok ok =>
    if (!ok && flags.nullfail && sigsTop.any (fun s => !s.isEmpty)) = true then .error .SIG_NULLFAIL
    else .ok (boolBytes ok :: rest)

/-- **The multisig script as an equation.**  `m <key>… n CHECKMULTISIG` (any `1 ≤ m ≤ n ≤ 20`) run on `sig_top … sig_bottom ""`
(top first; `rest` below the dummy) evaluates to what `multisigOutcome` makes of the verdict of the matching loop. -/
theorem evalScript_multisigN_eq (chk : PChk) (m : Nat) (keys sigsTop rest : List Bytes) (flags : Flags) (tx : TxCtx)
    (sv : SigVersion) (hm : sigsTop.length = m) (hm1 : 1 ≤ m) (hmn : m ≤ keys.length) (hn : keys.length ≤ 20)
    (hkeys : ∀ k ∈ keys, 2 ≤ k.length ∧ k.length ≤ 75) (hrest : rest.length ≤ 100) :
    evalScript chk (sigsTop ++ ([] :: rest)) (multisigScriptN m keys) flags tx sv =
      multisigOutcome flags sigsTop rest (multisigLoop (m := Id) (liftChk chk) flags sv
        (scriptCodeFor ⟨multisigScriptN m keys, flags, sv, tx⟩ ⟨[], [], [], 0, 0⟩ sigsTop) sigsTop keys.reverse) := by
  subst hm
  have hl := multisigScriptN_length_le sigsTop.length keys (fun d hd => (hkeys d hd).2)
  rw [evalScript_eq _ _ _ _ _ _ (by omega)]
  generalize henv : (⟨multisigScriptN sigsTop.length keys, flags, sv, tx⟩ : Env) = env at *
  have hf : env.flags = flags := by rw [← henv]
  have hv : env.sigversion = sv := by rw [← henv]
  unfold multisigScriptN
  obtain ⟨pc1, h1⟩ := evalLoopP_count chk env sigsTop.length hm1 (by omega)
    (pushesOf keys ++ (countPush keys.length ++ [0xae])) 0 (sigsTop ++ ([] :: rest)) [] 0 0 (by simp; omega) (by omega)
  rw [h1]
  obtain ⟨pc2, h2⟩ := evalLoopP_pushes chk env keys (countPush keys.length ++ [0xae]) pc1
    ([UInt8.ofNat sigsTop.length] :: (sigsTop ++ ([] :: rest))) [] 0 0
    (fun d hd => Or.inr (hkeys d hd)) (by simp; omega) (by omega)
  rw [h2]
  obtain ⟨pc3, h3⟩ := evalLoopP_count chk env keys.length (by omega) hn [0xae] pc2
    (keys.reverse ++ ([UInt8.ofNat sigsTop.length] :: (sigsTop ++ ([] :: rest)))) [] 0 0 (by simp; omega) (by omega)
  rw [h3]
  have hkl : keys.length = keys.reverse.length := by simp
  rw [evalLoopP_cons _ _ _ _ _ _ (getScriptOp_op 0xae [] (by decide))]
  rw [show UInt8.toNat 0xae = 0xae from rfl]
  rw [hkl, stepP_checkmultisig_eq chk env [] 0 0 _ keys.reverse sigsTop rest (by omega) (by omega) hm1 (by omega)
    (by omega) (by simp; omega), hf, hv]
  generalize (multisigLoop (m := Id) (liftChk chk) flags sv
    (scriptCodeFor env ⟨[], [], [], 0, 0⟩ sigsTop) sigsTop keys.reverse) = r
  rcases r with e | ok
  · rfl
  · unfold multisigOutcome
    by_cases hc : (!ok && flags.nullfail && sigsTop.any (fun s => !s.isEmpty)) = true
    · simp only [hc, if_true]
    · simp only [hc]
      simp [evalLoopP_nil]

/-- accepting run: `evalScript_multisig` for every `n ≤ 20` -/
theorem evalScript_multisigN (chk : PChk) (m : Nat) (keys sigsTop : List Bytes) (flags : Flags) (tx : TxCtx) (sv : SigVersion)
    (hm : sigsTop.length = m) (hm1 : 1 ≤ m) (hmn : m ≤ keys.length) (hn : keys.length ≤ 20)
    (hkeys : ∀ k ∈ keys, 2 ≤ k.length ∧ k.length ≤ 75)
    (hloop : multisigLoop (m := Id) (liftChk chk) flags sv
      (scriptCodeFor ⟨multisigScriptN m keys, flags, sv, tx⟩ ⟨[], [], [], 0, 0⟩ sigsTop) sigsTop keys.reverse = .ok true) :
    evalScript chk (sigsTop ++ [[]]) (multisigScriptN m keys) flags tx sv = .ok [[1]] := by
  rw [evalScript_multisigN_eq chk m keys sigsTop [] flags tx sv hm hm1 hmn hn hkeys (by simp), hloop]
  simp [multisigOutcome, boolBytes, vchTrue]

theorem not_witness_of_push (b0 : UInt8) (k tail : Bytes) (hk : k.length ≤ 75) (ht : 1 ≤ tail.length) :
    isWitnessProgram (b0 :: UInt8.ofNat k.length :: (k ++ tail)) = none := by
  have tk : (UInt8.ofNat k.length).toNat = k.length := toNat_ofNat_lt (by omega)
  unfold isWitnessProgram
  split
  · rfl
  · simp only [tk, List.length_cons, List.length_append]
    split
    · rfl
    · rw [if_neg]
      simp only [beq_iff_eq]; omega

theorem multisigN_not_witness (m : Nat) (keys : List Bytes) (hk : 1 ≤ keys.length)
    (hkeys : ∀ k ∈ keys, 2 ≤ k.length ∧ k.length ≤ 75) : isWitnessProgram (multisigScriptN m keys) = none := by
  by_cases h16 : m ≤ 16
  · cases keys with
    | nil => simp at hk
    | cons k ks =>
      have e : multisigScriptN m (k :: ks) =
          UInt8.ofNat (0x50 + m) :: UInt8.ofNat k.length :: (k ++ (pushesOf ks ++ (countPush (k :: ks).length ++ [0xae]))) := by
        simp [multisigScriptN, countPush, h16, pushesOf, directPush]
      rw [e]
      exact not_witness_of_push _ k _ (hkeys k (by simp)).2 (by simp; omega)
  · have e : multisigScriptN m keys = 0x01 :: UInt8.ofNat m :: (pushesOf keys ++ (countPush keys.length ++ [0xae])) := by
      simp [multisigScriptN, countPush, h16]
    rw [e]
    unfold isWitnessProgram
    split
    · rfl
    · simp [OP_0, OP_1, OP_16]

theorem multisigN_not_p2sh (m : Nat) (keys : List Bytes) : isPayToScriptHash (multisigScriptN m keys) = false := by
  by_cases h16 : m ≤ 16
  · have tm : (UInt8.ofNat (0x50 + m)).toNat = 0x50 + m := toNat_ofNat_lt (by omega)
    have hne : UInt8.ofNat (0x50 + m) ≠ 0xa9 := by
      intro h; have := congrArg UInt8.toNat h; rw [tm] at this; simp at this; omega
    have e : multisigScriptN m keys = UInt8.ofNat (0x50 + m) :: (pushesOf keys ++ (countPush keys.length ++ [0xae])) := by
      simp [multisigScriptN, countPush, h16]
    rw [e]
    unfold isPayToScriptHash
    have : ((UInt8.ofNat (0x50 + m) :: (pushesOf keys ++ (countPush keys.length ++ [0xae])))[0]? == some 0xa9) = false := by
      simp only [List.getElem?_cons_zero]
      cases hb : (some (UInt8.ofNat (0x50 + m)) == some (0xa9 : UInt8)) with
      | false => rfl
      | true => exact absurd (by simpa using hb) hne
    rw [this]; simp
  · have e : multisigScriptN m keys = 0x01 :: UInt8.ofNat m :: (pushesOf keys ++ (countPush keys.length ++ [0xae])) := by
      simp [multisigScriptN, countPush, h16]
    rw [e]
    simp [isPayToScriptHash]

end Pycoin.Sign
