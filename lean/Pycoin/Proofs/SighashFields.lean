import Pycoin.Proofs.SighashCommit
/-!
C06 helper lemmas: the temporary transaction of the legacy digest, and the ten items of the BIP143 message, read back as
the fields of the transaction they are made of.
-/
namespace Pycoin.Sighash
open Pycoin Pycoin.Wire Pycoin.Spec.Sighash Pycoin.Spec.Wire

/-! ## legacy -/

/-- what a legacy signature on input `idx` with hash type `ht` keeps of input `i`: its outpoint, and its sequence number
unless the input is another one and the base type is NONE or SINGLE (then zero) -/
def inView (idx ht : Nat) (i : Nat) (t : TxIn) : Bytes × Int × Int :=
  (t.prevHash, t.prevIndex, if i ≠ idx ∧ zFlag ht = true then 0 else t.sequence)

/-- the committed fields of the legacy digest, in terms of the transaction: version, lock time, the stripped script code,
the kept inputs (the signed one alone under ANYONECANPAY), the kept outputs (none under NONE, the one at the input's
position under SINGLE) -/
def legacyFields (tx : Tx) (stripped : Bytes) (idx ht : Nat) :
    Int × Int × Bytes × List (Bytes × Int × Int) × List TxOut :=
  (tx.version, tx.lockTime, stripped,
   if fAnyoneCanPay ht then (tx.ins[idx]?.map (inView idx ht idx)).toList else tx.ins.mapIdx (inView idx ht),
   if fHashNone ht then [] else if fHashSingle ht then tx.outs[idx]?.toList else tx.outs)

def mkIn (v : Bytes × Int × Int) (sc : Bytes) : TxIn := ⟨v.1, v.2.1, sc, v.2.2, []⟩

def viewOf (t : TxIn) : Bytes × Int × Int := (t.prevHash, t.prevIndex, t.sequence)

theorem viewOf_mkIn (v : Bytes × Int × Int) (sc : Bytes) : viewOf (mkIn v sc) = v := rfl

theorem ins1_eq (tx : Tx) (stripped : Bytes) (idx ht : Nat) :
    ins1 tx stripped idx ht =
      (tx.ins.mapIdx (inView idx ht)).mapIdx (fun i v => mkIn v (if i = idx then stripped else [])) := by
  unfold ins1
  cases hz : zFlag ht with
  | false =>
    simp only [Bool.false_eq_true, if_false, ins0, List.mapIdx_mapIdx]
    congr 1
    funext i t
    simp [txInForIdx, inView, mkIn, hz, Function.comp]
  | true =>
    simp only [if_true, ins0, zeroOtherSequences, List.mapIdx_mapIdx]
    congr 1
    funext i t
    by_cases h : i = idx <;> simp [txInForIdx, inView, mkIn, hz, h, Function.comp]

theorem mapIdx_view {vs : List (Bytes × Int × Int)} (f : Nat → Bytes) :
    (vs.mapIdx (fun i v => mkIn v (f i))).map viewOf = vs := by
  rw [map_mapIdx']
  simp only [viewOf_mkIn]
  rw [mapIdx_const_eq_map]
  simp

/-- lists of blanked inputs are equal exactly when the views and the script at the signed position are -/
theorem mkIn_lists_iff (vs vs' : List (Bytes × Int × Int)) (st st' : Bytes) (idx : Nat) (hidx : idx < vs.length) :
    vs.mapIdx (fun i v => mkIn v (if i = idx then st else [])) = vs'.mapIdx (fun i v => mkIn v (if i = idx then st' else [])) ↔
      vs = vs' ∧ st = st' := by
  constructor
  · intro h
    have h1 := congrArg (List.map viewOf) h
    rw [mapIdx_view, mapIdx_view] at h1
    subst h1
    refine ⟨rfl, ?_⟩
    have h2 := congrArg (fun l => l[idx]?) h
    simp only [List.getElem?_mapIdx, List.getElem?_eq_getElem hidx, Option.map_some, if_true, Option.some.injEq] at h2
    exact (TxIn.mk.inj h2).2.2.1
  · rintro ⟨rfl, rfl⟩
    rfl

theorem insOf_iff (tx tx' : Tx) (st st' : Bytes) (idx ht : Nat) (hidx : idx < tx.ins.length) (hidx' : idx < tx'.ins.length) :
    insOf tx st idx ht = insOf tx' st' idx ht ↔
      st = st' ∧
      (if fAnyoneCanPay ht then (tx.ins[idx]?.map (inView idx ht idx)).toList else tx.ins.mapIdx (inView idx ht)) =
      (if fAnyoneCanPay ht then (tx'.ins[idx]?.map (inView idx ht idx)).toList else tx'.ins.mapIdx (inView idx ht)) := by
  unfold insOf
  rw [ins1_eq, ins1_eq]
  cases fAnyoneCanPay ht with
  | false =>
    simp only [Bool.false_eq_true, if_false]
    rw [mkIn_lists_iff _ _ st st' idx (by simpa using hidx)]
    exact And.comm
  | true =>
    simp only [if_true, List.getElem?_mapIdx, List.getElem?_eq_getElem hidx, List.getElem?_eq_getElem hidx',
      Option.map_some, Option.toList, List.cons.injEq, and_true]
    constructor
    · intro h
      have := TxIn.mk.inj h
      exact ⟨this.2.2.1, by
        have hv := congrArg viewOf h
        simpa [viewOf_mkIn] using hv⟩
    · rintro ⟨rfl, h⟩
      rw [h]

theorem outsOf_iff (tx tx' : Tx) (idx ht : Nat) :
    outsOf tx idx ht = outsOf tx' idx ht ↔
      (if fHashNone ht then [] else if fHashSingle ht then tx.outs[idx]?.toList else tx.outs) =
      (if fHashNone ht then [] else if fHashSingle ht then tx'.outs[idx]?.toList else tx'.outs) := by
  unfold outsOf
  cases fHashNone ht with
  | true => simp
  | false =>
    cases fHashSingle ht with
    | false => simp
    | true =>
      simp only [Bool.false_eq_true, if_false, if_true]
      cases h : tx.outs[idx]? <;> cases h' : tx'.outs[idx]? <;> simp [Option.toList]

/-- the blanked transactions are equal exactly when the committed fields are -/
theorem tmpOf_iff_fields (tx tx' : Tx) (st st' : Bytes) (idx ht : Nat) (hidx : idx < tx.ins.length) (hidx' : idx < tx'.ins.length) :
    tmpOf tx st idx ht = tmpOf tx' st' idx ht ↔ legacyFields tx st idx ht = legacyFields tx' st' idx ht := by
  unfold tmpOf legacyFields
  simp only [Tx.mk.injEq, Prod.mk.injEq]
  rw [insOf_iff tx tx' st st' idx ht hidx hidx', outsOf_iff]
  constructor
  · rintro ⟨h1, ⟨h2, h3⟩, h4, h5⟩
    exact ⟨h1, h5, h2, h3, h4⟩
  · rintro ⟨h1, h5, h2, h3, h4⟩
    exact ⟨h1, ⟨h2, h3⟩, h4, h5⟩

/-! ## BIP143 -/

/-- the fields of the transaction the ten items of the BIP143 message are made of; the three digested lists are `none`
when the hash type leaves them out (the item is then 32 zero bytes) -/
structure Fields143 where
  version : Nat
  prevouts : Option (List (Bytes × Nat))      -- every outpoint, unless ANYONECANPAY
  sequences : Option (List Nat)               -- every sequence number, unless ANYONECANPAY / NONE / SINGLE
  prevHash : Bytes
  prevIndex : Nat
  code : Bytes
  amount : Nat
  sequence : Nat
  outputs : Option (List TxOut)               -- all outputs; under SINGLE the one at the input's position; else nothing
  lockTime : Nat
  hashType : Nat
  deriving DecidableEq

/-- the outputs a BIP143 signature commits to: all; under SINGLE the one at the input's position, **nothing when there is
none**; under NONE nothing -/
def outsCommitted (tx : Tx) (idx ht : Nat) : Option (List TxOut) :=
  if !fHashSingle ht && !fHashNone ht then some tx.outs
  else if fHashSingle ht then tx.outs[idx]?.map fun o => [o] else none

def fields143 (tx : Tx) (idx : Nat) (code : Bytes) (amount ht : Nat) : Option Fields143 :=
  match tx.ins[idx]? with
  | none => none
  | some t =>
    some ⟨tx.version.toNat,
      if fAnyoneCanPay ht then none else some (tx.ins.map fun t => (t.prevHash, t.prevIndex.toNat)),
      if !fAnyoneCanPay ht && !fHashSingle ht && !fHashNone ht then some (tx.ins.map fun t => t.sequence.toNat) else none,
      t.prevHash, t.prevIndex.toNat, code, amount, t.sequence.toNat, outsCommitted tx idx ht, tx.lockTime.toNat, ht⟩

def hpOf (H : Bytes → Bytes) : Option (List (Bytes × Nat)) → Bytes
  | some l => H (l.map fun p => p.1 ++ le 4 p.2).flatten
  | none => Spec.Sighash.zero32
def hsOf (H : Bytes → Bytes) : Option (List Nat) → Bytes
  | some l => H (l.map fun q => le 4 q).flatten
  | none => Spec.Sighash.zero32
def hoOf (H : Bytes → Bytes) : Option (List TxOut) → Bytes
  | some l => H (l.map txout).flatten
  | none => Spec.Sighash.zero32

def toItems (H : Bytes → Bytes) (f : Fields143) : Items143 :=
  ⟨f.version, hpOf H f.prevouts, hsOf H f.sequences, f.prevHash, f.prevIndex, f.code, f.amount, f.sequence,
    hoOf H f.outputs, f.lockTime, f.hashType⟩

/-- the ten items are a function of the fields -/
theorem committed143_of_fields (H : Bytes → Bytes) (tx : Tx) (idx : Nat) (code : Bytes) (amount ht : Nat) :
    committed143 H tx idx code amount ht = (fields143 tx idx code amount ht).map (toItems H) := by
  unfold committed143 fields143
  cases tx.ins[idx]? with
  | none => rfl
  | some t =>
    simp only [Option.map_some, toItems, Option.some.injEq, Items143.mk.injEq, true_and, and_true]
    refine ⟨?_, ?_, ?_⟩
    · unfold Spec.Sighash.hashPrevouts
      have ho : outpoint = fun t : TxIn => t.prevHash ++ le 4 t.prevIndex.toNat := rfl
      cases fAnyoneCanPay ht <;> simp [hpOf, List.map_map, Function.comp_def, ho]
    · unfold Spec.Sighash.hashSequence
      cases fAnyoneCanPay ht <;> cases fHashSingle ht <;> cases fHashNone ht <;>
        simp [hsOf, List.map_map, Function.comp_def]
    · unfold Spec.Sighash.hashOutputs outsCommitted
      cases fHashSingle ht <;> cases fHashNone ht <;> simp [hoOf]
      all_goals (cases tx.outs[idx]? <;> simp [hoOf])

/-- lists of equally long chunks are determined by their concatenation -/
theorem flatten_fixed_inj (k : Nat) (hk : 0 < k) : ∀ (L L' : List Bytes), (∀ x ∈ L, x.length = k) → (∀ x ∈ L', x.length = k) →
    L.flatten = L'.flatten → L = L'
  | [], [], _, _, _ => rfl
  | [], y :: ys, _, h', h => by
    have := congrArg List.length h
    simp only [List.flatten_nil, List.length_nil, List.flatten_cons, List.length_append, h' y (by simp)] at this
    omega
  | x :: xs, [], h1, _, h => by
    have := congrArg List.length h
    simp only [List.flatten_nil, List.length_nil, List.flatten_cons, List.length_append, h1 x (by simp)] at this
    omega
  | x :: xs, y :: ys, h1, h', h => by
    simp only [List.flatten_cons] at h
    obtain ⟨e1, e2⟩ := List.append_inj h (by rw [h1 x (by simp), h' y (by simp)])
    rw [e1, flatten_fixed_inj k hk xs ys (fun z hz => h1 z (by simp [hz])) (fun z hz => h' z (by simp [hz])) e2]

/-- lists of outputs are determined by the concatenation of their wire forms (each is self-delimiting) -/
theorem outs_flatten_inj : ∀ (l l' : List TxOut), (∀ o ∈ l, o.WF) → (∀ o ∈ l', o.WF) →
    (l.map txout).flatten = (l'.map txout).flatten → l = l'
  | [], [], _, _, _ => rfl
  | [], y :: ys, _, _, h => by
    have := congrArg List.length h
    simp [txout, le_length] at this
    omega
  | x :: xs, [], _, _, h => by
    have := congrArg List.length h
    simp [txout, le_length] at this
  | x :: xs, y :: ys, h1, h', h => by
    simp only [List.map_cons, List.flatten_cons] at h
    have hx := h1 x (by simp)
    have hy := h' y (by simp)
    obtain ⟨e1, e2⟩ := TxOut.parse_stream.unique x y _ _ _ _ hx.script hy.script (TxOut.stream_eq x hx) (TxOut.stream_eq y hy) h
    rw [e1, outs_flatten_inj xs ys (fun z hz => h1 z (by simp [hz])) (fun z hz => h' z (by simp [hz])) e2]

theorem le4_inj_of_lt {a b : Nat} (ha : a < 2 ^ 32) (hb : b < 2 ^ 32) (h : le 4 a = le 4 b) : a = b :=
  le_inj (k := 4) (by omega) (by omega) h

theorem u32_toNat_lt {v : Int} (h : U32 v) : v.toNat < 2 ^ 32 := by
  have := h.1; have := h.2; omega

/-- the digested outpoint list is determined by its bytes -/
theorem prevouts_inj (ins ins' : List TxIn) (h1 : ∀ t ∈ ins, t.WF) (h2 : ∀ t ∈ ins', t.WF)
    (h : ((ins.map fun t => (t.prevHash, t.prevIndex.toNat)).map fun p => p.1 ++ le 4 p.2).flatten =
         ((ins'.map fun t => (t.prevHash, t.prevIndex.toNat)).map fun p => p.1 ++ le 4 p.2).flatten) :
    (ins.map fun t => (t.prevHash, t.prevIndex.toNat)) = ins'.map fun t => (t.prevHash, t.prevIndex.toNat) := by
  have hl : ∀ (l : List TxIn), (∀ t ∈ l, t.WF) →
      ∀ x ∈ ((l.map fun t => (t.prevHash, t.prevIndex.toNat)).map fun p => p.1 ++ le 4 p.2), x.length = 36 := by
    intro l hw x hx
    simp only [List.map_map, List.mem_map, Function.comp] at hx
    obtain ⟨t, ht, rfl⟩ := hx
    simp [(hw t ht).hash, le_length]
  have e := flatten_fixed_inj 36 (by decide) _ _ (hl ins h1) (hl ins' h2) h
  -- the chunks are equal; split each into hash and index
  have hinj : ∀ (l l' : List TxIn), (∀ t ∈ l, t.WF) → (∀ t ∈ l', t.WF) →
      ((l.map fun t => (t.prevHash, t.prevIndex.toNat)).map fun p => p.1 ++ le 4 p.2) =
      ((l'.map fun t => (t.prevHash, t.prevIndex.toNat)).map fun p => p.1 ++ le 4 p.2) →
      (l.map fun t => (t.prevHash, t.prevIndex.toNat)) = l'.map fun t => (t.prevHash, t.prevIndex.toNat) := by
    intro l
    induction l with
    | nil => intro l' _ _ h; cases l' with
      | nil => rfl
      | cons a as => simp at h
    | cons a as ih =>
      intro l' hw hw' h
      cases l' with
      | nil => simp at h
      | cons b bs =>
        simp only [List.map_cons, List.cons.injEq] at h ⊢
        have ha := hw a (by simp)
        have hb := hw' b (by simp)
        obtain ⟨e1, e2⟩ := List.append_inj h.1 (by rw [ha.hash, hb.hash])
        refine ⟨by rw [e1, le4_inj_of_lt (u32_toNat_lt ha.index) (u32_toNat_lt hb.index) e2], ?_⟩
        exact ih bs (fun z hz => hw z (by simp [hz])) (fun z hz => hw' z (by simp [hz])) h.2
  exact hinj ins ins' h1 h2 e

/-- the digested sequence list is determined by its bytes -/
theorem sequences_inj (ins ins' : List TxIn) (h1 : ∀ t ∈ ins, t.WF) (h2 : ∀ t ∈ ins', t.WF)
    (h : ((ins.map fun t => t.sequence.toNat).map fun q => le 4 q).flatten =
         ((ins'.map fun t => t.sequence.toNat).map fun q => le 4 q).flatten) :
    (ins.map fun t => t.sequence.toNat) = ins'.map fun t => t.sequence.toNat := by
  have hl : ∀ (l : List TxIn), ∀ x ∈ ((l.map fun t => t.sequence.toNat).map fun q => le 4 q), x.length = 4 := by
    intro l x hx
    simp only [List.map_map, List.mem_map, Function.comp] at hx
    obtain ⟨t, _, rfl⟩ := hx
    simp [le_length]
  have e := flatten_fixed_inj 4 (by decide) _ _ (hl ins) (hl ins') h
  have hinj : ∀ (l l' : List TxIn), (∀ t ∈ l, t.WF) → (∀ t ∈ l', t.WF) →
      ((l.map fun t => t.sequence.toNat).map fun q => le 4 q) = ((l'.map fun t => t.sequence.toNat).map fun q => le 4 q) →
      (l.map fun t => t.sequence.toNat) = l'.map fun t => t.sequence.toNat := by
    intro l
    induction l with
    | nil => intro l' _ _ h; cases l' with
      | nil => rfl
      | cons a as => simp at h
    | cons a as ih =>
      intro l' hw hw' h
      cases l' with
      | nil => simp at h
      | cons b bs =>
        simp only [List.map_cons, List.cons.injEq] at h ⊢
        exact ⟨le4_inj_of_lt (u32_toNat_lt (hw a (by simp)).sequence) (u32_toNat_lt (hw' b (by simp)).sequence) h.1,
          ih bs (fun z hz => hw z (by simp [hz])) (fun z hz => hw' z (by simp [hz])) h.2⟩
  exact hinj ins ins' h1 h2 e

theorem outsCommitted_wf (tx : Tx) (hwf : tx.WF) (idx ht : Nat) (l : List TxOut) (h : outsCommitted tx idx ht = some l) :
    ∀ o ∈ l, o.WF := by
  unfold outsCommitted at h
  split at h
  · cases h; exact hwf.outs
  · split at h
    · cases ho : tx.outs[idx]? with
      | none => simp [ho] at h
      | some o =>
        simp only [ho, Option.map_some, Option.some.injEq] at h
        subst h
        intro o' ho'
        rw [List.mem_singleton] at ho'
        rw [ho']
        exact hwf.outs _ (List.mem_of_getElem? ho)
    · cases h

/-- equal items give equal fields, provided the part hashes do not collide on the two transactions' lists -/
theorem fields_of_items (H : Bytes → Bytes) (tx tx' : Tx) (hwf : tx.WF) (hwf' : tx'.WF) (idx idx' : Nat)
    (code code' : Bytes) (amt amt' ht ht' : Nat)
    (hP : ∀ a b, a = (tx.ins.map outpoint).flatten → b = (tx'.ins.map outpoint).flatten → H a = H b → a = b)
    (hS : ∀ a b, a = (tx.ins.map fun t => le 4 t.sequence.toNat).flatten →
      b = (tx'.ins.map fun t => le 4 t.sequence.toNat).flatten → H a = H b → a = b)
    (hO : ∀ l l', outsCommitted tx idx ht = some l → outsCommitted tx' idx' ht' = some l' →
      H (l.map txout).flatten = H (l'.map txout).flatten → (l.map txout).flatten = (l'.map txout).flatten)
    (hZ : ∀ l, (outsCommitted tx idx ht = some l ∧ outsCommitted tx' idx' ht' = none) ∨
        (outsCommitted tx' idx' ht' = some l ∧ outsCommitted tx idx ht = none) → H (l.map txout).flatten ≠ Spec.Sighash.zero32)
    (h : committed143 H tx idx code amt ht = committed143 H tx' idx' code' amt' ht') :
    fields143 tx idx code amt ht = fields143 tx' idx' code' amt' ht' := by
  rw [committed143_of_fields, committed143_of_fields] at h
  unfold fields143 at h ⊢
  cases hi : tx.ins[idx]? with
  | none =>
    cases hi' : tx'.ins[idx']? with
    | none => rfl
    | some t' => simp [hi, hi'] at h
  | some t =>
    cases hi' : tx'.ins[idx']? with
    | none => simp [hi, hi'] at h
    | some t' =>
      simp only [hi, hi', Option.map_some, Option.some.injEq, toItems, Items143.mk.injEq] at h
      obtain ⟨e1, e2, e3, e4, e5, e6, e7, e8, e9, e10, e11⟩ := h
      subst e11
      simp only [Option.some.injEq, Fields143.mk.injEq, e1, e4, e5, e6, e7, e8, e10, true_and, and_true]
      refine ⟨?_, ?_, ?_⟩
      · cases hacp : fAnyoneCanPay ht with
        | true => simp
        | false =>
          simp only [hacp, Bool.false_eq_true, if_false, hpOf] at e2 ⊢
          have := hP _ _ (by simp only [List.map_map]; rfl) (by simp only [List.map_map]; rfl) e2
          rw [prevouts_inj tx.ins tx'.ins hwf.ins hwf'.ins this]
      · by_cases hc : (!fAnyoneCanPay ht && !fHashSingle ht && !fHashNone ht) = true
        · simp only [hc, if_true, hsOf] at e3 ⊢
          have := hS _ _ (by simp only [List.map_map]; rfl) (by simp only [List.map_map]; rfl) e3
          rw [sequences_inj tx.ins tx'.ins hwf.ins hwf'.ins this]
        · simp [hc]
      · cases ho : outsCommitted tx idx ht with
        | none =>
          cases ho' : outsCommitted tx' idx' ht with
          | none => rfl
          | some l' =>
            -- SINGLE with the output present on one side only: zero item against a digest
            simp only [ho, ho', hoOf] at e9
            exact absurd e9.symm (hZ l' (Or.inr ⟨ho', ho⟩))
        | some l =>
          cases ho' : outsCommitted tx' idx' ht with
          | none =>
            simp only [ho, ho', hoOf] at e9
            exact absurd e9 (hZ l (Or.inl ⟨ho, ho'⟩))
          | some l' =>
            simp only [ho, ho', hoOf] at e9
            have := hO l l' ho ho' e9
            rw [outs_flatten_inj l l' (outsCommitted_wf tx hwf idx ht l ho) (outsCommitted_wf tx' hwf' idx' ht l' ho') this]

end Pycoin.Sighash
