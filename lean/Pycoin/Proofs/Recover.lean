import Pycoin.Proofs.ECDSA
import Pycoin.Proofs.Sqrt
/-!
C01 — public-key recovery (`possible_public_pairs_for_signature`).
-/
namespace Pycoin.Curve
open Pycoin WeierstrassCurve

/-- the body of the list comprehension `[s_over_r * p + minus_E_over_r for p in points_list]` -/
def recoverStep (c : CurveParams) (sOverR : Int) (mE : Pt) (q : Pt) : Except Err Pt :=
  match multiply c q sOverR with
  | .error e => .error e
  | .ok t => add c t mE

variable {c : CurveParams} [Good c] (ok : ECDSAOk c)

theorem zsm_smul_add [NeZero c.n] (a : ZMod c.n) (T U : (W c).Point) : zsm c a (T + U) = zsm c a T + zsm c a U := by
  unfold zsm; rw [zsmul_add]

include ok

/-- one candidate `R = (r, y)` of the recovery loop: `(s/r)•R − (z/r)•G` is computed without exception, is a reduced
curve point of the `n`-torsion, and the signature verifies under it -/
theorem recover_one (bf' z r s y invR : Int) (mE : Pt) (hz : z ≠ 0)
    (hr1 : 1 ≤ r) (hr2 : r < c.n) (hrp : r < c.p) (hs1 : 1 ≤ s) (hs2 : s < c.n)
    (hRc : containsXY c r y = true) (hy0 : 0 < y) (hyp : y < c.p)
    (hRn : (c.n : Int) • toPoint c (some (r, y)) = 0)
    (hinv : (invR : ZMod c.n) = (r : ZMod c.n)⁻¹)
    (mEc : OnCurve c mE) (mEr : Reduced c mE) (mEt : toPoint c mE = zsm c (-((r : ZMod c.n)⁻¹ * (z : ZMod c.n))) (G c)) :
    ∃ Q, recoverStep c (s * invR) mE (some (r, y)) = .ok Q ∧ OnCurve c Q ∧ Reduced c Q ∧
      toPoint c Q = zsm c ((s : ZMod c.n) * (r : ZMod c.n)⁻¹) (toPoint c (some (r, y))) +
        zsm c (-((r : ZMod c.n)⁻¹ * (z : ZMod c.n))) (G c) ∧
      verify c bf' Q z r s = .ok true := by
  have := ok.neZero
  have := ok.fact
  have hn1 : 1 < c.n := ok.nprime.one_lt
  have rR : Reduced c (some (r, y)) := ⟨by omega, hrp, by omega, hyp⟩
  obtain ⟨T, t1, t2, t3⟩ := multiply_refines c (some (r, y)) hRc (s * invR) (fun _ => hRn)
    (fun h => absurd h ok.nprime.pos.ne')
  have tr : Reduced c T := multiply_reduced c (some (r, y)) hRc rR (fun x' y' h => by cases h; exact hy0) _ T t1
  obtain ⟨Q, q1, q2, q3, -, q4⟩ := add_refines c T mE t2 mEc
  have hQt : toPoint c Q = zsm c ((s : ZMod c.n) * (r : ZMod c.n)⁻¹) (toPoint c (some (r, y))) +
      zsm c (-((r : ZMod c.n)⁻¹ * (z : ZMod c.n))) (G c) := by
    rw [q3, t3, mEt, zsmul_eq_zsm hRn]; push_cast; rw [hinv]
  have hQn : (c.n : Int) • toPoint c Q = 0 := by
    rw [hQt, zsmul_add, zsm_torsion hRn, zsm_torsion ok.gOrd, add_zero]
  refine ⟨Q, by simp only [recoverStep, t1]; exact q1, q2, q4 tr mEr, hQt, ?_⟩
  obtain ⟨b, hb, hiff⟩ := verify_iff ok bf' Q q2 (q4 tr mEr) hQn z r s hz
  rw [hb]; congr 1; rw [hiff]
  refine ⟨hr1, hr2, hs1, hs2, ?_⟩
  have hrne : (r : ZMod c.n) ≠ 0 := intCast_ne_zero_of_range r hr1 hr2
  have hsne : (s : ZMod c.n) ≠ 0 := intCast_ne_zero_of_range s hs1 hs2
  -- (z/s)G + (r/s)((s/r)R − (z/r)G) = R
  rw [hQt, zsm_smul_add, ← zsm_mul hRn, ← zsm_mul ok.gOrd, ← add_assoc, add_comm (zsm c _ (G c)), add_assoc,
    ← zsm_add ok.gOrd]
  have e1 : (r : ZMod c.n) * (s : ZMod c.n)⁻¹ * ((s : ZMod c.n) * (r : ZMod c.n)⁻¹) = 1 := by field_simp
  have e2 : (z : ZMod c.n) * (s : ZMod c.n)⁻¹ + (r : ZMod c.n) * (s : ZMod c.n)⁻¹ * -((r : ZMod c.n)⁻¹ * (z : ZMod c.n)) = 0 := by
    field_simp; ring
  rw [e1, e2, zsm_one hn1, zsm_zero, add_zero, xModN_toPoint_some hRc (by omega) hrp,
    Int.emod_eq_of_lt (by omega) hr2]

omit [Good c] ok in
theorem recover_unfold (bf z r s : Int) (par : Option Int) (q0 q1 : Pt) (invR : Int) (mE : Pt)
    (hrp : ¬ r ≥ c.p) (hpx : pointsForX c r = .ok (q0, q1)) (hinv : inverseN c r = .ok invR)
    (hmE : mulG c bf (-(invR * z)) = .ok mE) :
    possiblePublicPairsForSignature c bf z r s par =
      (match mapMExcept (recoverStep c (s * invR) mE)
          (match par with
           | none => [q0, q1]
           | some p => if fmod p 2 = 1 then [q1] else [q0]) with
       | .error e => if e.isValueError then .ok [] else .error e
       | .ok l => .ok l) := by
  unfold possiblePublicPairsForSignature
  rw [if_neg hrp, hpx]
  simp only [hinv, hmE]
  rfl

/-- the setup shared by soundness and completeness: the inverse of `r` and the point `−(z/r)•G` -/
theorem recover_setup (bf z r : Int) (hr1 : 1 ≤ r) (hr2 : r < c.n) :
    ∃ invR mE, inverseN c r = .ok invR ∧ (invR : ZMod c.n) = (r : ZMod c.n)⁻¹ ∧
      mulG c bf (-(invR * z)) = .ok mE ∧ OnCurve c mE ∧ Reduced c mE ∧
      toPoint c mE = zsm c (-((r : ZMod c.n)⁻¹ * (z : ZMod c.n))) (G c) := by
  have := ok.neZero
  obtain ⟨invR, h1, h2⟩ := inverseN_spec ok r (intCast_ne_zero_of_range r hr1 hr2)
  obtain ⟨mE, m1, m2, m3⟩ := mulG_refines c ok.gOn ok.nprime.pos.ne' ok.n256 ok.gOrd bf (-(invR * z))
  refine ⟨invR, mE, h1, h2, m1, m2, mulG_reduced c ok.gOn ok.gRed ok.nprime.pos.ne' ok.n256 ok.gOrd bf _ mE m1, ?_⟩
  rw [m3, zsmul_eq_zsm ok.gOrd]; push_cast; rw [h2]

/-- recovery returns only keys under which the signature verifies (and never raises), for `1 ≤ r, s < n`, `z ≠ 0`.
Extra hypotheses: `p ≡ 3 mod 4`, `r³+ar+b ≠ 0`, and the curve points with abscissa `r` lie in the `n`-torsion
(automatic if `#E(F_p) = n`). -/
theorem recover_sound (h4 : c.p % 4 = 3) (bf bf' z r s : Int) (par : Option Int) (hz : z ≠ 0)
    (hr1 : 1 ≤ r) (hr2 : r < c.n) (hs1 : 1 ≤ s) (hs2 : s < c.n) (hα : alphaOf c r ≠ 0)
    (htors : ∀ y, containsXY c r y = true → (c.n : Int) • toPoint c (some (r, y)) = 0) :
    ∃ l, possiblePublicPairsForSignature c bf z r s par = .ok l ∧
      ∀ Q ∈ l, OnCurve c Q ∧ verify c bf' Q z r s = .ok true := by
  by_cases hrp : r ≥ c.p
  · exact ⟨[], by simp [possiblePublicPairsForSignature, hrp], by simp⟩
  · have hrp' : r < c.p := by omega
    obtain ⟨hsq, hnsq⟩ := pointsForX_spec c h4 r hα
    by_cases hs : IsSquare (alphaOf c r)
    · obtain ⟨y0, y1, hpx, c0, c1, y0p, y0l, y1p, y1l, -, -, -⟩ := hsq hs
      obtain ⟨invR, mE, hinv, hinvc, hmE, mEc, mEr, mEt⟩ := recover_setup ok bf z r hr1 hr2
      obtain ⟨Q0, s0, q0c, -, -, v0⟩ := recover_one ok bf' z r s y0 invR mE hz hr1 hr2 hrp' hs1 hs2 c0 y0p y0l
        (htors y0 c0) hinvc mEc mEr mEt
      obtain ⟨Q1, s1, q1c, -, -, v1⟩ := recover_one ok bf' z r s y1 invR mE hz hr1 hr2 hrp' hs1 hs2 c1 y1p y1l
        (htors y1 c1) hinvc mEc mEr mEt
      rw [recover_unfold bf z r s par _ _ invR mE hrp hpx hinv hmE]
      match par with
      | none =>
        refine ⟨[Q0, Q1], by simp [mapMExcept, s0, s1], ?_⟩
        intro Q hQ
        simp only [List.mem_cons, List.mem_nil_iff, or_false] at hQ
        rcases hQ with rfl | rfl
        · exact ⟨q0c, v0⟩
        · exact ⟨q1c, v1⟩
      | some p =>
        by_cases hp : fmod p 2 = 1
        · refine ⟨[Q1], by simp [mapMExcept, s1, hp], ?_⟩
          intro Q hQ; simp only [List.mem_cons, List.mem_nil_iff, or_false] at hQ; subst hQ; exact ⟨q1c, v1⟩
        · refine ⟨[Q0], by simp [mapMExcept, s0, hp], ?_⟩
          intro Q hQ; simp only [List.mem_cons, List.mem_nil_iff, or_false] at hQ; subst hQ; exact ⟨q0c, v0⟩
    · obtain ⟨hpx, -⟩ := hnsq hs
      refine ⟨[], ?_, by simp⟩
      unfold possiblePublicPairsForSignature
      rw [if_neg hrp, hpx]; rfl

/-- recovery contains the signer: if `(r, s)` comes from the nonce point `k•G = (x, y)` with `x < n` (so `r = x`) and
`s = k⁻¹(z + d·r)`, then `d•G` is among the recovered keys, and with the parity of `y` it is the only one. -/
theorem recover_complete (h4 : c.p % 4 = 3) (bf bf' bf'' d z k x y s : Int) (hz : z ≠ 0)
    (hk : mulG c bf k = .ok (some (x, y))) (hx1 : 1 ≤ x) (hxn : x < c.n) (hs1 : 1 ≤ s) (hs2 : s < c.n)
    (hs : (s : ZMod c.n) = (k : ZMod c.n)⁻¹ * ((z : ZMod c.n) + (d : ZMod c.n) * (x : ZMod c.n))) :
    ∃ Q l, mulG c bf'' d = .ok Q ∧ possiblePublicPairsForSignature c bf' z x s none = .ok l ∧ Q ∈ l ∧
      possiblePublicPairsForSignature c bf' z x s (some (y % 2)) = .ok [Q] := by
  have := ok.neZero
  have := ok.fact
  have hn1 : 1 < c.n := ok.nprime.one_lt
  -- the nonce point
  obtain ⟨A, a1, a2, a3⟩ := mulG_refines c ok.gOn ok.nprime.pos.ne' ok.n256 ok.gOrd bf k
  rw [hk] at a1; cases a1
  have ar := mulG_reduced c ok.gOn ok.gRed ok.nprime.pos.ne' ok.n256 ok.gOrd bf k _ hk
  have hRt : toPoint c (some (x, y)) = zsm c (k : ZMod c.n) (G c) := by rw [a3, zsmul_eq_zsm ok.gOrd]
  have hRn : (c.n : Int) • toPoint c (some (x, y)) = 0 := by rw [hRt]; exact zsm_torsion ok.gOrd _
  have hy0 : 0 < y := y_pos_of_torsion ok a2 ar.2.2.1 hRn
  have hkne : (k : ZMod c.n) ≠ 0 := by
    intro h0
    have : toPoint c (some (x, y)) = 0 := by rw [hRt, h0, zsm_zero]
    rw [toPoint_some c a2] at this
    exact Affine.Point.some_ne_zero _ this
  have hxp : x < c.p := ar.2.1
  -- x³+ax+b = y² is a non-zero square
  have hαy : alphaOf c x = (y : ZMod c.p) ^ 2 := by
    have := (containsXY_iff c x y).mp a2
    rw [W_equation_iff] at this; exact this.symm
  have hyne : (y : ZMod c.p) ≠ 0 := by
    rw [Ne, ZMod.intCast_zmod_eq_zero_iff_dvd]
    intro h; have := Int.le_of_dvd hy0 h; have := ar.2.2.2; omega
  have hα : alphaOf c x ≠ 0 := by rw [hαy]; exact pow_ne_zero 2 hyne
  have hsq : IsSquare (alphaOf c x) := ⟨(y : ZMod c.p), by rw [hαy]; ring⟩
  obtain ⟨y0, y1, hpx, c0, c1, y0p, y0l, y1p, y1l, hev, hsum, hall⟩ := (pointsForX_spec c h4 x hα).1 hsq
  have hrp : ¬ x ≥ c.p := by omega
  obtain ⟨invR, mE, hinv, hinvc, hmE, mEc, mEr, mEt⟩ := recover_setup ok bf' z x hx1 hxn
  -- both candidates are ±R, hence in the n-torsion
  have htors : ∀ y', containsXY c x y' = true → 0 ≤ y' → y' < c.p → (c.n : Int) • toPoint c (some (x, y')) = 0 := by
    intro y' hc' h0' hp'
    have hx : ((x : ZMod c.p)) = x := rfl
    have e1 := (containsXY_iff c x y').mp hc'
    have e0 := (containsXY_iff c x y).mp a2
    rw [toPoint_some c hc']
    rcases (Affine.Point.X_eq_iff (h₁ := nonsingular_of_equation c e1) (h₂ := nonsingular_of_equation c e0)).mp hx with h | h
    · rw [h, ← toPoint_some c a2]; exact hRn
    · rw [h, ← toPoint_some c a2, zsmul_neg, hRn, neg_zero]
  obtain ⟨Q0, s0, q0c, q0r, q0t, -⟩ := recover_one ok bf z x s y0 invR mE hz hx1 hxn hxp hs1 hs2 c0 y0p y0l
    (htors y0 c0 y0p.le y0l) hinvc mEc mEr mEt
  obtain ⟨Q1, s1, q1c, q1r, q1t, -⟩ := recover_one ok bf z x s y1 invR mE hz hx1 hxn hxp hs1 hs2 c1 y1p y1l
    (htors y1 c1 y1p.le y1l) hinvc mEc mEr mEt
  obtain ⟨Q, p1, p2, p3, p4, -⟩ := pubkey_spec ok bf'' d
  have hxne : (x : ZMod c.n) ≠ 0 := intCast_ne_zero_of_range x hx1 hxn
  -- the candidate built from R itself is the public key
  have hkey : ∀ Qc, toPoint c Qc = zsm c ((s : ZMod c.n) * (x : ZMod c.n)⁻¹) (toPoint c (some (x, y))) +
      zsm c (-((x : ZMod c.n)⁻¹ * (z : ZMod c.n))) (G c) → OnCurve c Qc → Reduced c Qc → Qc = Q := by
    intro Qc ht hc hr
    apply toPoint_inj c hc p2 hr p3
    rw [ht, p4, hRt, ← zsm_mul ok.gOrd, ← zsm_add ok.gOrd]
    congr 1
    rw [hs]; field_simp; ring
  have hodd := p_odd_of_mod4 c h4
  rw [recover_unfold bf' z x s none _ _ invR mE hrp hpx hinv hmE,
    recover_unfold bf' z x s (some (y % 2)) _ _ invR mE hrp hpx hinv hmE]
  rcases hall y ar.2.2.1 ar.2.2.2 a2 with rfl | rfl
  · have e0 : Q0 = Q := hkey Q0 q0t q0c q0r
    subst e0
    refine ⟨Q0, [Q0, Q1], p1, by simp [mapMExcept, s0, s1], by simp, ?_⟩
    have : ¬ fmod (y % 2) 2 = 1 := by rw [hev]; decide
    simp [mapMExcept, s0, this]
  · have e1 : Q1 = Q := hkey Q1 q1t q1c q1r
    subst e1
    refine ⟨Q1, [Q0, Q1], p1, by simp [mapMExcept, s0, s1], by simp, ?_⟩
    have hy1 : y % 2 = 1 := by omega
    have : fmod (y % 2) 2 = 1 := by rw [hy1]; decide
    simp [mapMExcept, s1, this]

end Pycoin.Curve
