import Pycoin.Model.Subpaths
/-!
C09 helper lemmas (core Lean only): `itertools.product`, decimal text, elements of a range list.
-/
namespace Pycoin.Subpaths

/-! ### `itertools.product` -/

/-- `l` picks one element from each pool, in order -/
def Chooses {α} : List α → List (List α) → Prop
  | [], [] => True
  | x :: l, pool :: pools => x ∈ pool ∧ Chooses l pools
  | _, _ => False

theorem mem_product {α} : ∀ (pools : List (List α)) (l : List α), l ∈ product pools ↔ Chooses l pools := by
  intro pools
  induction pools with
  | nil => intro l; cases l <;> simp [product, Chooses]
  | cons xs rest ih =>
    intro l
    simp only [product, List.mem_flatMap, List.mem_map]
    constructor
    · rintro ⟨x, hx, t, ht, rfl⟩
      exact ⟨hx, (ih t).mp ht⟩
    · intro h
      cases l with
      | nil => exact absurd h (by simp [Chooses])
      | cons x t => exact ⟨x, h.1, t, (ih t).mpr h.2, rfl⟩

theorem length_product {α} : ∀ pools : List (List α), (product pools).length = (pools.map List.length).foldr (· * ·) 1 := by
  intro pools
  induction pools with
  | nil => rfl
  | cons xs rest ih =>
    simp only [product, List.map_cons, List.foldr_cons, ← ih]
    induction xs with
    | nil => simp
    | cons x xs ihx => simp only [List.flatMap_cons, List.length_append, List.length_map, ihx, List.length_cons]; rw [Nat.add_mul, Nat.one_mul, Nat.add_comm]

/-- the order of `itertools.product`: the tuple at position `i * m + j` (`m` = number of tuples of the remaining
pools) is the `i`-th element of the first pool followed by the `j`-th tuple of the rest — last pool fastest -/
theorem product_order {α} (xs : List α) (rest : List (List α)) (i j : Nat) (hi : i < xs.length)
    (hj : j < (product rest).length) :
    (product (xs :: rest))[i * (product rest).length + j]? =
      (match xs[i]?, (product rest)[j]? with
       | some x, some t => some (x :: t)
       | _, _ => none) := by
  induction xs generalizing i with
  | nil => simp at hi
  | cons x xs ih =>
    simp only [product, List.flatMap_cons]
    cases i with
    | zero =>
      simp only [Nat.zero_mul, Nat.zero_add, List.getElem?_cons_zero]
      rw [List.getElem?_append_left (by simpa using hj)]
      simp [List.getElem?_map]
      cases (product rest)[j]? <;> rfl
    | succ i =>
      have hi' : i < xs.length := by simpa using hi
      rw [List.getElem?_append_right (by simp [Nat.succ_mul]; omega)]
      simp only [List.length_map, List.getElem?_cons_succ]
      have : (i + 1) * (product rest).length + j - (product rest).length = i * (product rest).length + j := by
        rw [Nat.succ_mul]; omega
      rw [this]
      exact ih i hi'

/-! ### decimal text -/

def valOf (ds : List Char) (acc : Nat) : Nat := ds.foldl (fun a c => a * 10 + (c.toNat - 48)) acc

theorem digit_facts : ∀ k, k < 10 →
    (Char.ofNat (48 + k)).isDigit = true ∧ (Char.ofNat (48 + k)).toNat - 48 = k ∧ Char.ofNat (48 + k) ≠ '-' ∧
    Char.ofNat (48 + k) ≠ '+' ∧ isPySpace (Char.ofNat (48 + k)) = false ∧ hardeningChars.contains (Char.ofNat (48 + k)) = false ∧
    Char.ofNat (48 + k) ≠ ',' ∧ Char.ofNat (48 + k) ≠ '/' := by
  decide

/-- a decimal numeral: non-empty, digits only -/
def IsNumeral (ds : List Char) : Prop :=
  ds ≠ [] ∧ ∀ c ∈ ds, c.isDigit = true ∧ c ≠ '-' ∧ c ≠ '+' ∧ isPySpace c = false ∧ hardeningChars.contains c = false ∧
    c ≠ ',' ∧ c ≠ '/'

theorem natDigits_spec : ∀ (fuel n : Nat) (acc : List Char), n < 10 ^ (fuel + 1) →
    ∃ ds, natDigits (fuel + 1) n acc = ds ++ acc ∧ IsNumeral ds ∧ ∀ a, valOf ds a = a * 10 ^ ds.length + n := by
  intro fuel
  induction fuel with
  | zero =>
    intro n acc h
    have hn : n < 10 := by simpa using h
    obtain ⟨f1, f2, f3, f4, f5, f6, f7, f8⟩ := digit_facts (n % 10) (Nat.mod_lt _ (by omega))
    unfold natDigits
    simp only [hn, if_true]
    refine ⟨[Char.ofNat (48 + n % 10)], rfl, ⟨by simp, ?_⟩, ?_⟩
    · intro c hc; simp only [List.mem_singleton] at hc; subst hc; exact ⟨f1, f3, f4, f5, f6, f7, f8⟩
    · intro a; simp only [valOf, List.foldl_cons, List.foldl_nil, f2, List.length_singleton, Nat.pow_one]
      rw [Nat.mod_eq_of_lt hn]
  | succ fuel ih =>
    intro n acc h
    obtain ⟨f1, f2, f3, f4, f5, f6, f7, f8⟩ := digit_facts (n % 10) (Nat.mod_lt _ (by omega))
    unfold natDigits
    simp only
    by_cases hn : n < 10
    · rw [if_pos hn]
      refine ⟨[Char.ofNat (48 + n % 10)], rfl, ⟨by simp, ?_⟩, ?_⟩
      · intro c hc; simp only [List.mem_singleton] at hc; subst hc; exact ⟨f1, f3, f4, f5, f6, f7, f8⟩
      · intro a; simp only [valOf, List.foldl_cons, List.foldl_nil, f2, List.length_singleton, Nat.pow_one]
        rw [Nat.mod_eq_of_lt hn]
    · rw [if_neg hn]
      have hlt : n / 10 < 10 ^ (fuel + 1) := by
        rw [Nat.div_lt_iff_lt_mul (by omega)]; rw [Nat.pow_succ] at h; exact h
      obtain ⟨ds, h1, ⟨h2, h3⟩, h4⟩ := ih (n / 10) (Char.ofNat (48 + n % 10) :: acc) hlt
      refine ⟨ds ++ [Char.ofNat (48 + n % 10)], by rw [h1]; simp, ⟨by simp, ?_⟩, ?_⟩
      · intro c hc
        simp only [List.mem_append, List.mem_singleton] at hc
        rcases hc with hc | rfl
        · exact h3 c hc
        · exact ⟨f1, f3, f4, f5, f6, f7, f8⟩
      · intro a
        simp only [valOf, List.foldl_append, List.foldl_cons, List.foldl_nil, f2, List.length_append, List.length_singleton]
        have := h4 a
        simp only [valOf] at this
        rw [this, Nat.pow_succ]
        have := Nat.div_add_mod n 10
        rw [Nat.add_mul, Nat.mul_assoc]
        omega

/-- `"%d" % n` for `n ≥ 0` is a decimal numeral whose value is `n` -/
theorem showInt_nat (n : Nat) : IsNumeral (showInt (n : Int)) ∧ valOf (showInt (n : Int)) 0 = n := by
  unfold showInt
  rw [if_neg (by omega)]
  simp only [Int.toNat_natCast]
  have hlt : n < 10 ^ (n + 1) := Nat.lt_of_lt_of_le (Nat.lt_pow_self (by omega)) (Nat.pow_le_pow_right (by omega) (by omega))
  obtain ⟨ds, h1, h2, h3⟩ := natDigits_spec n n [] hlt
  rw [h1, List.append_nil]
  exact ⟨h2, by rw [h3 0]; simp⟩

theorem digitsVal_numeral : ∀ (ds : List Char), (∀ c ∈ ds, c.isDigit = true) → ∀ (prev : Bool) (acc : Nat),
    (ds ≠ [] ∨ prev = true) → digitsVal ds prev acc = some (valOf ds acc) := by
  intro ds
  induction ds with
  | nil => intro _ prev acc h; rcases h with h | h; exact absurd rfl h; simp [digitsVal, h, valOf]
  | cons c cs ih =>
    intro hd prev acc _
    have hc := hd c (by simp)
    unfold digitsVal
    rw [if_pos hc]
    rw [ih (fun x hx => hd x (by simp [hx])) true _ (Or.inr rfl)]
    rfl

theorem dropWhile_nospace (ds : List Char) (h : ∀ c ∈ ds, isPySpace c = false) : ds.dropWhile isPySpace = ds := by
  cases ds with
  | nil => rfl
  | cons c cs => simp [List.dropWhile, h c (by simp)]

theorem strip_numeral (ds : List Char) (h : ∀ c ∈ ds, isPySpace c = false) : strip ds = ds := by
  unfold strip
  rw [dropWhile_nospace ds h, dropWhile_nospace ds.reverse (fun c hc => h c (by simpa using hc)), List.reverse_reverse]

/-- `int(numeral)` is its value -/
theorem pyInt_numeral (ds : List Char) (h : IsNumeral ds) : pyInt ds = some ((valOf ds 0 : Nat) : Int) := by
  obtain ⟨hne, hd⟩ := h
  unfold pyInt
  rw [strip_numeral ds (fun c hc => (hd c hc).2.2.2.1)]
  cases ds with
  | nil => exact absurd rfl hne
  | cons c cs =>
    obtain ⟨-, h2, h3, -, -, -, -⟩ := hd c (by simp)
    have := digitsVal_numeral (c :: cs) (fun x hx => (hd x hx).1) false 0 (Or.inl (by simp))
    split
    · rename_i heq; injection heq with h _; exact absurd h h2
    · rename_i heq; injection heq with h _; exact absurd h h3
    · rw [this]; rfl

theorem pyInt_showInt (n : Nat) : pyInt (showInt (n : Int)) = some (n : Int) := by
  obtain ⟨h1, h2⟩ := showInt_nat n
  rw [pyInt_numeral _ h1, h2]


/-! ### one element of a range list -/

theorem getLast?_snoc {α} (pre : List α) (l : α) : (pre ++ [l]).getLast? = some l := by simp

theorem splitOnce_sep (c : Char) (da db : List Char) (h : c ∉ da) : splitOnce c (da ++ c :: db) = (da, db) := by
  unfold splitOnce
  induction da with
  | nil => simp
  | cons x xs ih =>
    have hx : x ≠ c := fun e => h (by simp [e])
    have hxs : c ∉ xs := fun e => h (by simp [e])
    simpa [List.takeWhile_cons, List.dropWhile_cons, hx] using ih hxs

theorem numeral_no_dash {ds : List Char} (h : IsNumeral ds) : '-' ∉ ds := fun hm => (h.2 _ hm).2.1 rfl

theorem numeral_last {ds : List Char} (h : IsNumeral ds) : ∃ init l, ds = init ++ [l] ∧ hardeningChars.contains l = false := by
  obtain ⟨hne, hd⟩ := h
  refine ⟨ds.dropLast, ds.getLast hne, (List.dropLast_concat_getLast hne).symm, ?_⟩
  exact (hd _ (List.getLast_mem hne)).2.2.2.2.1

/-- the core of a range element once the hardening mark is removed: `a-b` expands to `a, a+1, …, b` -/
theorem rangeCore (a b : Nat) :
    (showInt (a : Int) ++ '-' :: showInt (b : Int)).contains '-' = true ∧
    splitOnce '-' (showInt (a : Int) ++ '-' :: showInt (b : Int)) = (showInt (a : Int), showInt (b : Int)) :=
  ⟨by simp, splitOnce_sep '-' _ _ (numeral_no_dash (showInt_nat a).1)⟩

/-- **range, not hardened**: the text `a-b` (decimal, `a b ≥ 0`) yields the decimal texts of `a, a+1, …, b` in order
(nothing when `b < a`) -/
theorem rangeElement_range (a b : Nat) :
    rangeElement hardeningChars (showInt (a : Int) ++ '-' :: showInt (b : Int)) =
      .ok ((intRange a b).map fun t => showInt t ++ []) := by
  obtain ⟨init, l, hl, hnh⟩ := numeral_last (showInt_nat b).1
  obtain ⟨c1, c2⟩ := rangeCore a b
  unfold rangeElement
  have hlast : (showInt (a : Int) ++ '-' :: showInt (b : Int)).getLast? = some l := by
    have : showInt (a : Int) ++ '-' :: (init ++ [l]) = (showInt (a : Int) ++ '-' :: init) ++ [l] := by simp
    rw [hl, this]; exact getLast?_snoc _ _
  rw [hlast]
  simp only [hnh, Bool.false_eq_true, if_false, c1, if_true, c2, pyInt_showInt]

/-- **range, hardened**: `a-b` followed by any of `'`, `p`, `H` yields the same numbers, each followed by `H` -/
theorem rangeElement_range_hardened (a b : Nat) (h : Char) (hh : hardeningChars.contains h = true) :
    rangeElement hardeningChars (showInt (a : Int) ++ '-' :: showInt (b : Int) ++ [h]) =
      .ok ((intRange a b).map fun t => showInt t ++ ['H']) := by
  obtain ⟨c1, c2⟩ := rangeCore a b
  unfold rangeElement
  have hassoc : showInt (a : Int) ++ '-' :: showInt (b : Int) ++ [h] = (showInt (a : Int) ++ '-' :: showInt (b : Int)) ++ [h] := by simp
  rw [hassoc]
  have hlast : ((showInt (a : Int) ++ '-' :: showInt (b : Int)) ++ [h]).getLast? = some h := getLast?_snoc _ _
  rw [hlast]
  have hdl : ((showInt (a : Int) ++ '-' :: showInt (b : Int)) ++ [h]).dropLast = showInt (a : Int) ++ '-' :: showInt (b : Int) := by
    rw [List.dropLast_concat]
  simp only [hh, if_true, hdl, c1, c2, pyInt_showInt]
  rfl

/-- **single element, not hardened**: text without `-` whose last character is not a hardening mark passes through -/
theorem rangeElement_single (r : List Char) (l : Char) (hl : r.getLast? = some l)
    (hnh : hardeningChars.contains l = false) (hnd : r.contains '-' = false) :
    rangeElement hardeningChars r = .ok [r ++ []] := by
  unfold rangeElement
  rw [hl]
  simp only [hnh, Bool.false_eq_true, if_false, hnd]

/-- **single element, hardened**: the mark is normalised to `H` -/
theorem rangeElement_single_hardened (r : List Char) (h : Char) (hh : hardeningChars.contains h = true)
    (hnd : r.contains '-' = false) :
    rangeElement hardeningChars (r ++ [h]) = .ok [r ++ ['H']] := by
  unfold rangeElement
  have hlast : (r ++ [h]).getLast? = some h := by simp
  rw [hlast]
  simp only [hh, if_true, List.dropLast_concat, hnd, Bool.false_eq_true, if_false]
  rfl

/-! ### Unicode decimal digits (what `int()` accepts besides ASCII) -/

theorem uniDigit_table : ∀ z ∈ uniZeros, ∀ d < 10, (Char.ofNat (z + d)).isDigit = false ∧ uniDigit (Char.ofNat (z + d)) = some d ∧
    pyDigit (Char.ofNat (z + d)) = some d ∧ isPySpace (Char.ofNat (z + d)) = false := by
  decide +kernel
theorem digitsVal_uni_cons (z : Nat) (hz : z ∈ uniZeros) (d : Nat) (hd : d < 10) (cs : List Char) (prev : Bool) (acc : Nat) :
    digitsVal (Char.ofNat (z + d) :: cs) prev acc = digitsVal cs true (acc * 10 + d) := by
  obtain ⟨h1, h2, -, -⟩ := uniDigit_table z hz d hd
  conv => lhs; unfold digitsVal
  simp [h1, h2]
/-- a numeral written with the digits of one Unicode block has the value of its ASCII spelling -/
theorem digitsVal_uni_block (z : Nat) (hz : z ∈ uniZeros) : ∀ (ds : List Nat), (∀ d ∈ ds, d < 10) → ∀ (prev : Bool) (acc : Nat),
    digitsVal (ds.map fun d => Char.ofNat (z + d)) prev acc = digitsVal (ds.map fun d => Char.ofNat (48 + d)) prev acc := by
  intro ds
  induction ds with
  | nil => intro _ prev acc; rfl
  | cons d ds ih =>
    intro h prev acc
    have hd : d < 10 := h d (by simp)
    have ha : digitsVal (Char.ofNat (48 + d) :: ds.map fun d => Char.ofNat (48 + d)) prev acc =
        digitsVal (ds.map fun d => Char.ofNat (48 + d)) true (acc * 10 + d) := by
      have h0 : ∀ k, k < 10 → (Char.ofNat (48 + k)).isDigit = true ∧ (Char.ofNat (48 + k)).toNat - 48 = k := by decide
      have h1 := h0 d hd
      conv => lhs; unfold digitsVal
      simp [h1.1, h1.2]
    simp only [List.map_cons]
    rw [digitsVal_uni_cons z hz d hd, ha]
    exact ih (fun x hx => h x (by simp [hx])) true _

end Pycoin.Subpaths
