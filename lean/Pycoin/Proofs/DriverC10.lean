import Pycoin.Driver.C10
/-!
The C10 driver multiplies the generator with `mulFast` (the model's fixed-base loop over a table built once) where
the model says `Curve.mulG c bf`.  With blinding factor 0 the two are the same function.  Core Lean only.
-/
namespace Pycoin.Curve

theorem rawMulLoop_zero (c : CurveParams) : ∀ tbl : List Pt, rawMulLoop c tbl 0 none = .ok none := by
  intro tbl
  induction tbl with
  | nil => rfl
  | cons g gs ih =>
    have h1 : add c none g = .ok g := by cases g <;> rfl
    have h2 : ¬ (fmod 0 2 = 1) := by decide
    have h3 : fdiv 0 2 = 0 := by decide
    simp only [rawMulLoop, h1, h2, if_false, h3, ih]

theorem add_none_right (c : CurveParams) (a : Pt) : add c a none = .ok a := by
  cases a <;> rfl

/-- `Generator.__mul__` with blinding factor 0 is `raw_mul` -/
theorem mulG_zero_bf (c : CurveParams) (e : Int) : mulG c 0 e = rawMul c e := by
  unfold mulG
  have h0 : e + 0 = e := by omega
  rw [h0]
  cases hr : rawMul c e with
  | error er => rfl
  | ok a =>
    simp only
    -- rawMul succeeded, so the order is set and the table was built
    unfold rawMul at hr ⊢
    by_cases hn : c.n = 0
    · simp [hn] at hr
    · simp only [hn, if_false] at hr ⊢
      cases hp : powers c with
      | error er => rw [hp] at hr; cases hr
      | ok tbl =>
        simp only
        have : fmod (-0) (c.n : Int) = 0 := by
          show Int.fmod (-0) (c.n : Int) = 0
          simp
        rw [this, rawMulLoop_zero]
        simp only
        exact add_none_right c a

end Pycoin.Curve

namespace Pycoin.Driver.C10
open Pycoin.Curve

/-- what the driver computes for `secret_exponent * generator` is the model's `mulG` with blinding factor 0 -/
theorem mulFast_eq (e : Int) : mulFast e = Curve.mulG k1 0 e := by
  rw [mulG_zero_bf]
  unfold mulFast rawMul k1Powers
  by_cases hn : k1.n = 0
  · simp [hn]
  · simp only [hn, if_false]
    cases powers k1 <;> rfl

end Pycoin.Driver.C10
