import Pycoin.Proofs.Recover
/-!
C17 — public-key recovery at an arbitrary abscissa `x < p` with `x ≢ 0 (mod n)` (the compact-signature format also
names nonce points with `x = r + n`), without any torsion hypothesis on the candidate points: it never raises, what it
returns is determined by `(x, parity)` up to the term `−(z/x)•G`, hence it is injective in `z mod n`; for the nonce
point of a signature it returns the signer.  Complements `Proofs/Recover.lean` (C01), which treats `1 ≤ x < n`.
-/
namespace Pycoin.Curve
open Pycoin WeierstrassCurve

variable {c : CurveParams} [Good c]

/-- `Curve.multiply` on a curve point never raises; the result is `(e mod n)•P` (no assumption that `n•P = ∞`) -/
theorem multiply_total (P : Pt) (hP : OnCurve c P) (e : Int) (hn0 : c.n ≠ 0) :
    ∃ R, multiply c P e = .ok R ∧ OnCurve c R ∧ toPoint c R = (e % (c.n : Int)) • toPoint c P := by
  unfold multiply
  have he' : (if c.n ≠ 0 then fmod e c.n else e) = e % (c.n : Int) := by simp [hn0]
  have he0 : 0 ≤ e % (c.n : Int) := Int.emod_nonneg e (by exact_mod_cast hn0)
  simp only [he']
  generalize e % (c.n : Int) = e' at he0 ⊢
  by_cases h0 : P = none ∨ e' = 0
  · rw [if_pos h0]
    refine ⟨none, rfl, rfl, ?_⟩
    rcases h0 with rfl | rfl <;> simp [toPoint_none, zsmul_zero]
  · rw [if_neg h0]
    push Not at h0
    obtain ⟨hPne, he'ne⟩ := h0
    obtain ⟨⟨px, py⟩, rfl⟩ : ∃ q, P = some q := Option.ne_none_iff_exists'.mp hPne
    have hpos : 0 < 3 * e' := by omega
    obtain ⟨k, hk, hk1, hk2⟩ := leftmostBit_spec (3 * e') hpos
    rw [hk]
    simp only
    have hk0 : k ≠ 0 := by rintro rfl; simp at hk2; omega
    obtain ⟨j, rfl⟩ : ∃ j, k = j + 1 := ⟨k - 1, by omega⟩
    have hshift : 2 ^ (j + 1) >>> 1 = 2 ^ j := by
      rw [Nat.shiftRight_eq_div_pow, pow_succ]; simp
    rw [hshift]
    obtain ⟨R, h1, h2, h3⟩ := ladderLoop_spec c (some (px, py)) rfl hP e'.toNat (3 * e').toNat j (2 ^ j) (some (px, py))
      (Nat.lt_two_pow_self).le hP
    refine ⟨R, h1, h2, ?_⟩
    rw [h3, ← add_zsmul, sub_eq_add_neg, ← neg_zsmul, ← add_zsmul]
    congr 1
    have hK : 2 ^ (j + 1) = 2 * 2 ^ j := by ring
    have e3 : (3 * e').toNat = 3 * e'.toNat := by omega
    unfold midBits
    have m3 : (3 * e').toNat % 2 ^ (j + 1) = (3 * e').toNat - 2 ^ (j + 1) := by
      rw [Nat.mod_eq_sub_mod hk1, Nat.mod_eq_of_lt (by omega)]
    have m1 : e'.toNat % 2 ^ (j + 1) = e'.toNat := Nat.mod_eq_of_lt (by omega)
    rw [m3, m1]
    have : (e'.toNat : Int) = e' := Int.toNat_of_nonneg he0
    omega


/-- `points_for_x(x)` when `x³+ax+b = 0`: `modular_sqrt` returns 0 and the code raises `ValueError` -/
theorem pointsForX_alpha_zero (h4 : c.p % 4 = 3) (x : Int) (hα : alphaOf c x = 0) : pointsForX c x = .error .value := by
  have hp := p_pos c
  obtain ⟨h3c, -, -⟩ := powMod_spec c.p hp x 3
  set ai : Int := fmod (powMod x 3 c.p + c.a * x + c.b) c.p with hai
  have haic : (ai : ZMod c.p) = alphaOf c x := by
    rw [hai, intCast_fmod]; push_cast; rw [h3c]; rfl
  have hk : (fdiv ((c.p : Int) + 1) 4).toNat = (c.p + 1) / 4 := by
    rw [fdiv_eq_ediv _ (by norm_num)]; norm_cast
  obtain ⟨hyc, hy0, hyp⟩ := powMod_spec c.p hp ai ((c.p + 1) / 4)
  set yi : Int := powMod ai ((c.p + 1) / 4) c.p with hyi
  rw [haic, hα] at hyc
  have hp2 : 2 ≤ c.p := (Good.prime (c := c)).two_le
  have he : (c.p + 1) / 4 ≠ 0 := by omega
  have hz : (yi : ZMod c.p) = 0 := by rw [hyc]; exact zero_pow he
  have hyi0 : yi = 0 := by
    have := (ZMod.intCast_zmod_eq_zero_iff_dvd yi c.p).mp hz
    rcases this with ⟨t, ht⟩
    have : t = 0 := by
      by_contra hne
      have : (c.p : Int) ≤ yi := by
        rcases lt_or_gt_of_ne hne with h | h
        · have : (c.p : Int) * t < 0 := by nlinarith
          omega
        · nlinarith
      omega
    rw [ht, this]; simp
  unfold pointsForX modularSqrt
  simp only [hk]
  rw [← hai, ← hyi, if_pos hyi0]

variable (ok : ECDSAOk c)
include ok

/-- one candidate `(x, y)` of the recovery loop, no torsion hypothesis -/
theorem recover_step_x (s invR : Int) (mE : Pt) (x y : Int) (hRc : containsXY c x y = true)
    (hx0 : 0 ≤ x) (hxp : x < c.p) (hy0 : 0 < y) (hyp : y < c.p) (mEc : OnCurve c mE) (mEr : Reduced c mE) :
    ∃ Q, recoverStep c (s * invR) mE (some (x, y)) = .ok Q ∧ OnCurve c Q ∧ Reduced c Q ∧
      toPoint c Q = ((s * invR) % (c.n : Int)) • toPoint c (some (x, y)) + toPoint c mE := by
  have rR : Reduced c (some (x, y)) := ⟨hx0, hxp, by omega, hyp⟩
  obtain ⟨T, t1, t2, t3⟩ := multiply_total (some (x, y)) hRc (s * invR) ok.nprime.pos.ne'
  have tr : Reduced c T := multiply_reduced c (some (x, y)) hRc rR (fun x' y' h => by cases h; exact hy0) _ T t1
  obtain ⟨Q, q1, q2, q3, -, q4⟩ := add_refines c T mE t2 mEc
  exact ⟨Q, by simp only [recoverStep, t1]; exact q1, q2, q4 tr mEr, by rw [q3, t3]⟩

theorem recover_setup_x (bf z x : Int) (hx : (x : ZMod c.n) ≠ 0) :
    ∃ invR mE, inverseN c x = .ok invR ∧ (invR : ZMod c.n) = (x : ZMod c.n)⁻¹ ∧
      mulG c bf (-(invR * z)) = .ok mE ∧ OnCurve c mE ∧ Reduced c mE ∧
      toPoint c mE = zsm c (-((x : ZMod c.n)⁻¹ * (z : ZMod c.n))) (G c) := by
  have := ok.neZero
  obtain ⟨invR, h1, h2⟩ := inverseN_spec ok x hx
  obtain ⟨mE, m1, m2, m3⟩ := mulG_refines c ok.gOn ok.nprime.pos.ne' ok.n256 ok.gOrd bf (-(invR * z))
  refine ⟨invR, mE, h1, h2, m1, m2, mulG_reduced c ok.gOn ok.gRed ok.nprime.pos.ne' ok.n256 ok.gOrd bf _ mE m1, ?_⟩
  rw [m3, zsmul_eq_zsm ok.gOrd]; push_cast; rw [h2]

/-- **recovery at any abscissa.**  For `0 ≤ x < p`, `x ≢ 0 (mod n)`, `p ≡ 3 (mod 4)` and a parity:
`possible_public_pairs_for_signature` raises nothing; it returns `[]`, or exactly one reduced curve point
`Q = ((s/x) mod n)•(x, y) − (z/x)•G`, where `(x, y)` is *the* reduced curve point with abscissa `x` and the requested
parity and `1/x` is what `inverse_mod` returns — neither depends on `z` or `s`. -/
theorem recover_x (h4 : c.p % 4 = 3) (bf z x s par : Int) (hx0 : 0 ≤ x) (hxp : x < c.p) (hxn : (x : ZMod c.n) ≠ 0) :
    (possiblePublicPairsForSignature c bf z x s (some par) = .ok [] ∧
      ∀ y : Int, 0 < y → y < c.p → containsXY c x y = false) ∨
    ∃ y invR Q, containsXY c x y = true ∧ 0 < y ∧ y < c.p ∧ (y % 2 = 1 ↔ fmod par 2 = 1) ∧
      (∀ y' : Int, 0 ≤ y' → y' < c.p → containsXY c x y' = true → (y' % 2 = 1 ↔ fmod par 2 = 1) → y' = y) ∧
      inverseN c x = .ok invR ∧ (invR : ZMod c.n) = (x : ZMod c.n)⁻¹ ∧
      possiblePublicPairsForSignature c bf z x s (some par) = .ok [Q] ∧ OnCurve c Q ∧ Reduced c Q ∧
      toPoint c Q = ((s * invR) % (c.n : Int)) • toPoint c (some (x, y)) +
        zsm c (-((x : ZMod c.n)⁻¹ * (z : ZMod c.n))) (G c) := by
  have hrp : ¬ x ≥ c.p := by omega
  by_cases hα : alphaOf c x = 0
  · left
    refine ⟨by unfold possiblePublicPairsForSignature; rw [if_neg hrp, pointsForX_alpha_zero h4 x hα]; rfl, ?_⟩
    intro y hy0 hyp
    by_contra hc
    have hc' : containsXY c x y = true := by simpa using hc
    have h2 : (y : ZMod c.p) ^ 2 = alphaOf c x := by
      have := (containsXY_iff c x y).mp hc'
      rw [W_equation_iff] at this; exact this
    rw [hα] at h2
    have h3 : (y : ZMod c.p) = 0 := by simpa using h2
    have := Int.le_of_dvd hy0 ((ZMod.intCast_zmod_eq_zero_iff_dvd y c.p).mp h3)
    omega
  obtain ⟨hsq, hnsq⟩ := pointsForX_spec c h4 x hα
  by_cases hs : IsSquare (alphaOf c x)
  · right
    obtain ⟨y0, y1, hpx, c0, c1, y0p, y0l, y1p, y1l, hev, hsum, hall⟩ := hsq hs
    obtain ⟨invR, mE, hinv, hinvc, hmE, mEc, mEr, mEt⟩ := recover_setup_x ok bf z x hxn
    have hodd := p_odd_of_mod4 c h4
    have hy1odd : y1 % 2 = 1 := by omega
    rw [recover_unfold bf z x s (some par) _ _ invR mE hrp hpx hinv hmE]
    by_cases hp : fmod par 2 = 1
    · obtain ⟨Q, s1, qc, qr, qt⟩ := recover_step_x ok s invR mE x y1 c1 hx0 hxp y1p y1l mEc mEr
      refine ⟨y1, invR, Q, c1, y1p, y1l, by simp [hy1odd, hp], ?_, hinv, hinvc, by simp [mapMExcept, s1, hp], qc, qr,
        by rw [qt, mEt]⟩
      intro y' h0 h1 hc hpar
      rcases hall y' h0 h1 hc with rfl | rfl
      · have := hpar.mpr hp; omega
      · rfl
    · obtain ⟨Q, s0, qc, qr, qt⟩ := recover_step_x ok s invR mE x y0 c0 hx0 hxp y0p y0l mEc mEr
      refine ⟨y0, invR, Q, c0, y0p, y0l, by simp [hev, hp], ?_, hinv, hinvc, by simp [mapMExcept, s0, hp], qc, qr,
        by rw [qt, mEt]⟩
      intro y' h0 h1 hc hpar
      rcases hall y' h0 h1 hc with rfl | rfl
      · rfl
      · exact absurd (hpar.mp hy1odd) hp
  · left
    obtain ⟨hpx, hno⟩ := hnsq hs
    exact ⟨by unfold possiblePublicPairsForSignature; rw [if_neg hrp, hpx]; rfl, fun y _ _ => hno y⟩


/-- a non-zero scalar does not annihilate the generator (`n` prime, `G ≠ ∞`) -/
theorem zsm_G_ne_zero (a : ZMod c.n) (ha : a ≠ 0) : zsm c a (G c) ≠ 0 := by
  have := ok.neZero
  have := ok.fact
  intro h0
  have h1 : zsm c a⁻¹ (zsm c a (G c)) = G c := by
    rw [← zsm_mul ok.gOrd, inv_mul_cancel₀ ha, zsm_one ok.nprime.one_lt]
  rw [h0] at h1
  have h2 : zsm c a⁻¹ (0 : (W c).Point) = 0 := by unfold zsm; exact zsmul_zero _
  rw [h2] at h1
  have hG : G c = toPoint c (some (c.gx, c.gy)) := rfl
  rw [hG, toPoint_some c ok.gOn] at h1
  exact Affine.Point.some_ne_zero _ h1.symm

/-- recovery never raises, and returns reduced curve points -/
theorem recover_total_x (h4 : c.p % 4 = 3) (bf z x s par : Int) (hx0 : 0 ≤ x) (hxp : x < c.p) (hxn : (x : ZMod c.n) ≠ 0) :
    ∃ l, possiblePublicPairsForSignature c bf z x s (some par) = .ok l ∧ ∀ Q ∈ l, OnCurve c Q ∧ Reduced c Q := by
  rcases recover_x ok h4 bf z x s par hx0 hxp hxn with ⟨h, -⟩ | ⟨y, invR, Q, -, -, -, -, -, -, -, h, qc, qr, -⟩
  · exact ⟨[], h, by simp⟩
  · exact ⟨[Q], h, by intro Q' hQ'; simp only [List.mem_cons, List.not_mem_nil, or_false] at hQ'; subst hQ'; exact ⟨qc, qr⟩⟩

/-- for fixed `(x, s, parity)` the recovered key determines the digest modulo `n` -/
theorem recover_injective_x (h4 : c.p % 4 = 3) (bf z z' x s par : Int) (hx0 : 0 ≤ x) (hxp : x < c.p)
    (hxn : (x : ZMod c.n) ≠ 0) (P : Pt) (rest rest' : List Pt)
    (h : possiblePublicPairsForSignature c bf z x s (some par) = .ok (P :: rest))
    (h' : possiblePublicPairsForSignature c bf z' x s (some par) = .ok (P :: rest')) :
    z % (c.n : Int) = z' % (c.n : Int) := by
  have := ok.neZero
  have := ok.fact
  rcases recover_x ok h4 bf z x s par hx0 hxp hxn with ⟨e, -⟩ | ⟨y, invR, Q, yc, y0, yp, ypar, -, hinv, hinvc, e, -, -, qt⟩
  · rw [e] at h; cases h
  rcases recover_x ok h4 bf z' x s par hx0 hxp hxn with ⟨e', -⟩ | ⟨y2, invR2, Q2, yc2, y02, yp2, ypar2, yuniq2, hinv2, -, e', -, -, qt2⟩
  · rw [e'] at h'; cases h'
  rw [e] at h; rw [e'] at h'
  injection h with h; injection h with hQ _
  injection h' with h'; injection h' with hQ2 _
  have hy : y = y2 := yuniq2 y y0.le yp yc ypar
  have hi : invR = invR2 := by rw [hinv] at hinv2; injection hinv2
  subst hy; subst hi
  rw [hQ] at qt; rw [hQ2] at qt2
  rw [qt] at qt2
  have hz := add_left_cancel qt2
  have h0 : -((x : ZMod c.n)⁻¹ * (z : ZMod c.n)) - -((x : ZMod c.n)⁻¹ * (z' : ZMod c.n)) = 0 := by
    generalize -((x : ZMod c.n)⁻¹ * (z : ZMod c.n)) = a at hz ⊢
    generalize -((x : ZMod c.n)⁻¹ * (z' : ZMod c.n)) = a' at hz ⊢
    by_contra hne
    apply zsm_G_ne_zero ok _ hne
    have e1 : zsm c (a - a') (G c) = zsm c a (G c) + zsm c (-a') (G c) := by
      rw [sub_eq_add_neg]; exact zsm_add ok.gOrd _ _
    rw [e1, zsm_neg ok.gOrd, hz]
    exact add_neg_cancel _
  have hxi : (x : ZMod c.n)⁻¹ ≠ 0 := inv_ne_zero hxn
  have hzz : (z : ZMod c.n) = (z' : ZMod c.n) := by
    have : (x : ZMod c.n)⁻¹ * ((z' : ZMod c.n) - (z : ZMod c.n)) = 0 := by rw [← h0]; ring
    rcases mul_eq_zero.mp this with h | h
    · exact absurd h hxi
    · exact (sub_eq_zero.mp h).symm
  exact (ZMod.intCast_eq_intCast_iff' z z' c.n).mp hzz

/-- recovery returns the signer for the nonce point of a signature, at any abscissa `x < p` with `x ≢ 0 (mod n)`
(`x ≥ n` included: recovery ids 2 and 3 of the compact format) -/
theorem recover_complete_x (h4 : c.p % 4 = 3) (bf bf' bf'' d z k x y s : Int)
    (hk : mulG c bf k = .ok (some (x, y))) (hxn : (x : ZMod c.n) ≠ 0)
    (hs : (s : ZMod c.n) = (k : ZMod c.n)⁻¹ * ((z : ZMod c.n) + (d : ZMod c.n) * (x : ZMod c.n))) :
    ∃ Q, mulG c bf'' d = .ok Q ∧ possiblePublicPairsForSignature c bf' z x s (some (y % 2)) = .ok [Q] := by
  have := ok.neZero
  have := ok.fact
  obtain ⟨A, a1, a2, a3⟩ := mulG_refines c ok.gOn ok.nprime.pos.ne' ok.n256 ok.gOrd bf k
  rw [hk] at a1; cases a1
  have ar := mulG_reduced c ok.gOn ok.gRed ok.nprime.pos.ne' ok.n256 ok.gOrd bf k _ hk
  have hRt : toPoint c (some (x, y)) = zsm c (k : ZMod c.n) (G c) := by rw [a3, zsmul_eq_zsm ok.gOrd]
  have hRn : (c.n : Int) • toPoint c (some (x, y)) = 0 := by rw [hRt]; exact zsm_torsion ok.gOrd _
  have hy0 : 0 < y := y_pos_of_torsion ok a2 ar.2.2.1 hRn
  have hkne : (k : ZMod c.n) ≠ 0 := by
    intro h0
    have : toPoint c (some (x, y)) = 0 := by rw [hRt, h0, zsm_zero]
    rw [toPoint_some c a2] at this
    exact Affine.Point.some_ne_zero _ this
  obtain ⟨Q, p1, p2, p3, p4, -⟩ := pubkey_spec ok bf'' d
  have hpar : (y % 2 = 1 ↔ fmod (y % 2) 2 = 1) := by
    rw [fmod_eq_emod _ (by norm_num)]; omega
  rcases recover_x ok h4 bf' z x s (y % 2) ar.1 ar.2.1 hxn with ⟨-, hno⟩ | ⟨y', invR, Q', yc, y0', yp', ypar, yuniq, hinv, hinvc, e, qc, qr, qt⟩
  · have := hno y hy0 ar.2.2.2
    have a2' : containsXY c x y = true := a2
    rw [a2'] at this; cases this
  have hyy : y = y' := yuniq y hy0.le ar.2.2.2 a2 hpar
  subst hyy
  refine ⟨Q, p1, ?_⟩
  rw [e]
  congr 2
  apply toPoint_inj c qc p2 qr p3
  rw [qt, p4, zsmul_eq_zsm hRn, hRt, ← zsm_mul ok.gOrd, ← zsm_add ok.gOrd]
  congr 1
  rw [ZMod.intCast_mod]; push_cast; rw [hinvc, hs]
  field_simp
  ring

end Pycoin.Curve
