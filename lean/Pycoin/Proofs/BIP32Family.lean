import Pycoin.Proofs.BIP32Basic
/-!
C09 helper lemmas (core Lean only): a family of objects derived from one root, one cache per object.
-/
namespace Pycoin.BIP32

/-- every cache entry of every object memoises what `_subkey` returns for its key, and names an existing object -/
def CellsSound (g : Gen) (fuel : Nat) (cells : Cells) : Prop :=
  ∀ (pid : Nat) (n : Node) (c : List (CKey × Nat)), cells[pid]? = some (n, c) → ∀ (k : CKey) (j : Nat), (k, j) ∈ c →
    ∃ m cj, cells[j]? = some (m, cj) ∧ subkeyRaw g fuel n k.1 k.2.1 k.2.2 = .ok m

/-- objects keep their node value (caches may grow, objects may be added) -/
def Ext (cells cells' : Cells) : Prop :=
  ∀ (pid : Nat) (n : Node) (c : List (CKey × Nat)), cells[pid]? = some (n, c) → ∃ c', cells'[pid]? = some (n, c')

theorem Ext.refl (cells : Cells) : Ext cells cells := fun _ n c h => ⟨c, h⟩

theorem Ext.trans {a b c : Cells} (h1 : Ext a b) (h2 : Ext b c) : Ext a c := by
  intro pid n ca h
  obtain ⟨cb, hb⟩ := h1 pid n ca h
  exact h2 pid n cb hb

/-- the answer `r` (a cell of `cells`) and the uncached answer `a` agree -/
def Rel (cells : Cells) (r : Except Err Nat) (a : Except Err Node) : Prop :=
  match r, a with
  | .ok j, .ok m => ∃ cj, cells[j]? = some (m, cj)
  | .error e, .error e' => e = e'
  | _, _ => False

theorem Rel.ext {cells cells' : Cells} {r : Except Err Nat} {a : Except Err Node} (h : Rel cells r a) (he : Ext cells cells') :
    Rel cells' r a := by
  cases r with
  | error e => cases a <;> simpa [Rel] using h
  | ok j =>
    cases a with
    | error e => simp [Rel] at h
    | ok m =>
      obtain ⟨cj, hj⟩ := h
      exact he j m cj hj

theorem get_append_new (cells : Cells) (x : Cell) : (cells ++ [x])[cells.length]? = some x := by
  simp

theorem get_append_old {cells : Cells} {x : Cell} {q : Nat} {y : Cell} (h : cells[q]? = some y) : (cells ++ [x])[q]? = some y := by
  have hq : q < cells.length := by
    rcases Nat.lt_or_ge q cells.length with h' | h'
    · exact h'
    · rw [List.getElem?_eq_none h'] at h; cases h
  rw [List.getElem?_append_left hq]; exact h

theorem append_sound {g : Gen} {fuel : Nat} {cells : Cells} (hs : CellsSound g fuel cells) (v : Node) :
    CellsSound g fuel (cells ++ [(v, [])]) ∧ Ext cells (cells ++ [(v, [])]) := by
  have hext : Ext cells (cells ++ [(v, [])]) := fun pid n c h => ⟨c, get_append_old h⟩
  refine ⟨?_, hext⟩
  intro pid n c h k j hm
  rcases Nat.lt_or_ge pid cells.length with hp | hp
  · rw [List.getElem?_append_left hp] at h
    obtain ⟨m, cj, h1, h2⟩ := hs pid n c h k j hm
    exact ⟨m, cj, get_append_old h1, h2⟩
  · rcases Nat.eq_or_lt_of_le hp with he | hl
    · rw [← he, get_append_new] at h
      injection h with h; injection h with _ hc; subst hc; cases hm
    · rw [List.getElem?_eq_none (by simp; omega)] at h; cases h

theorem publicCopyCell_spec {g : Gen} {fuel : Nat} {cells : Cells} (hs : CellsSound g fuel cells) {pid : Nat} {n : Node}
    {c : List (CKey × Nat)} (hc : cells[pid]? = some (n, c)) :
    CellsSound g fuel (publicCopyCell g cells pid).2 ∧ Ext cells (publicCopyCell g cells pid).2 ∧
      Rel (publicCopyCell g cells pid).2 (publicCopyCell g cells pid).1 (n.publicCopy g) := by
  unfold publicCopyCell
  rw [hc]
  simp only
  cases hp : n.publicCopy g with
  | error e => exact ⟨hs, Ext.refl _, rfl⟩
  | ok v =>
    obtain ⟨h1, h2⟩ := append_sound hs v
    exact ⟨h1, h2, ⟨[], get_append_new cells (v, [])⟩⟩

theorem find_mem {c : List (CKey × Nat)} {k : CKey} {j : Nat} (h : (c.find? (·.1 = k)).map (·.2) = some j) : (k, j) ∈ c := by
  cases hf : c.find? (·.1 = k) with
  | none => simp [hf] at h
  | some e =>
    simp only [hf, Option.map_some, Option.some.injEq] at h
    have hm := List.mem_of_find?_eq_some hf
    have hp := List.find?_some hf
    simp only [decide_eq_true_eq] at hp
    obtain ⟨k', v'⟩ := e
    simp only at hp h
    subst hp; subst h
    exact hm

theorem subkeyCell_spec {g : Gen} {fuel : Nat} {cells : Cells} (hs : CellsSound g fuel cells) {pid : Nat} {n : Node}
    {c : List (CKey × Nat)} (hc : cells[pid]? = some (n, c)) (i : Int) (hd : Bool) (p : Option Bool) :
    CellsSound g fuel (subkeyCell g fuel cells pid i hd p).2 ∧ Ext cells (subkeyCell g fuel cells pid i hd p).2 ∧
      Rel (subkeyCell g fuel cells pid i hd p).2 (subkeyCell g fuel cells pid i hd p).1 (subkey0 g fuel n i hd p) := by
  have hpid : pid < cells.length := by
    rcases Nat.lt_or_ge pid cells.length with h' | h'
    · exact h'
    · rw [List.getElem?_eq_none h'] at hc; cases hc
  have h0 : subkey0 g fuel n i hd p = subkeyRaw g fuel n (lookupKey n i hd p).1 (lookupKey n i hd p).2.1 (lookupKey n i hd p).2.2 := rfl
  rw [h0]
  unfold subkeyCell
  rw [hc]
  simp only
  generalize lookupKey n i hd p = k
  cases hf : (c.find? (·.1 = k)).map (·.2) with
  | some j =>
    simp only
    obtain ⟨m, cj, h1, h2⟩ := hs pid n c hc _ j (find_mem hf)
    refine ⟨hs, Ext.refl _, ?_⟩
    rw [h2]
    exact ⟨cj, h1⟩
  | none =>
    simp only
    cases hr : subkeyRaw g fuel n k.1 k.2.1 k.2.2 with
    | error e => exact ⟨hs, Ext.refl _, rfl⟩
    | ok v =>
      simp only
      -- the new cells
      have hnew : ∀ q, (cells.set pid (n, (k, cells.length) :: c) ++ [(v, [])])[q]? =
          if q = cells.length then some (v, [])
          else if q = pid then some (n, (k, cells.length) :: c)
          else cells[q]? := by
        intro q
        rcases Nat.lt_trichotomy q cells.length with hq | hq | hq
        · rw [List.getElem?_append_left (by simpa using hq), if_neg (by omega), List.getElem?_set]
          by_cases hqp : pid = q
          · subst hqp; simp [hq]
          · rw [if_neg hqp, if_neg (fun h => hqp h.symm)]
        · subst hq
          rw [if_pos rfl]
          rw [List.getElem?_append_right (by simp)]
          simp
        · rw [List.getElem?_eq_none (by simp; omega), if_neg (by omega), if_neg (by omega), List.getElem?_eq_none (by omega)]
      have hext : Ext cells (cells.set pid (n, (k, cells.length) :: c) ++ [(v, [])]) := by
        intro q n' c' hq
        have hql : q < cells.length := by
          rcases Nat.lt_or_ge q cells.length with h' | h'
          · exact h'
          · rw [List.getElem?_eq_none h'] at hq; cases hq
        rw [hnew q, if_neg (by omega)]
        by_cases hqp : q = pid
        · subst hqp; rw [hc] at hq; injection hq with hq; injection hq with h1 h2; subst h1
          exact ⟨_, by rw [if_pos rfl]⟩
        · exact ⟨c', by rw [if_neg hqp]; exact hq⟩
      refine ⟨?_, hext, ⟨[], by rw [hnew, if_pos rfl]⟩⟩
      intro q n' c' hq k' j hm
      rw [hnew q] at hq
      by_cases hq1 : q = cells.length
      · rw [if_pos hq1] at hq; injection hq with hq; injection hq with _ h2; subst h2; cases hm
      · rw [if_neg hq1] at hq
        by_cases hqp : q = pid
        · rw [if_pos hqp] at hq
          injection hq with hq; injection hq with h1 h2; subst h1; subst h2
          simp only [List.mem_cons] at hm
          rcases hm with hm | hm
          · injection hm with e1 e2; subst e1; subst e2
            exact ⟨v, [], by rw [hnew, if_pos rfl], hr⟩
          · obtain ⟨m, cj, h1, h2⟩ := hs pid n c hc k' j hm
            obtain ⟨cj', h1'⟩ := hext j m cj h1
            exact ⟨m, cj', h1', h2⟩
        · rw [if_neg hqp] at hq
          obtain ⟨m, cj, h1, h2⟩ := hs q n' c' hq k' j hm
          obtain ⟨cj', h1'⟩ := hext j m cj h1
          exact ⟨m, cj', h1', h2⟩

theorem pathLoopCell_spec {g : Gen} {fuel : Nat} (vs : List (List Char)) :
    ∀ (cells : Cells) (pid : Nat) (n : Node) (c : List (CKey × Nat)), CellsSound g fuel cells → cells[pid]? = some (n, c) →
      CellsSound g fuel (pathLoopCell g fuel cells pid vs).2 ∧ Ext cells (pathLoopCell g fuel cells pid vs).2 ∧
        Rel (pathLoopCell g fuel cells pid vs).2 (pathLoopCell g fuel cells pid vs).1 (pathLoop g fuel n vs) := by
  induction vs with
  | nil => intro cells pid n c hs hc; exact ⟨hs, Ext.refl _, ⟨c, hc⟩⟩
  | cons v vs ih =>
    intro cells pid n c hs hc
    unfold pathLoopCell pathLoop
    cases hp : parseStep v with
    | error e => exact ⟨hs, Ext.refl _, rfl⟩
    | ok r =>
      obtain ⟨i, hd⟩ := r
      simp only [hc]
      obtain ⟨s1, s2, s3⟩ := subkeyCell_spec hs hc i hd (some n.secretExponent.isSome)
      generalize hsk : subkeyCell g fuel cells pid i hd (some n.secretExponent.isSome) = res at s1 s2 s3
      obtain ⟨r, cells'⟩ := res
      simp only at s1 s2 s3 ⊢
      cases r with
      | error e =>
        cases ha : subkey0 g fuel n i hd (some n.secretExponent.isSome) with
        | ok m => rw [ha] at s3; simp [Rel] at s3
        | error e' => rw [ha] at s3; simp only [Rel] at s3; subst s3; exact ⟨s1, s2, rfl⟩
      | ok j =>
        cases ha : subkey0 g fuel n i hd (some n.secretExponent.isSome) with
        | error e' => rw [ha] at s3; simp [Rel] at s3
        | ok m =>
          rw [ha] at s3
          obtain ⟨cj, hj⟩ := s3
          simp only
          obtain ⟨t1, t2, t3⟩ := ih cells' j m cj s1 hj
          exact ⟨t1, Ext.trans s2 t2, t3⟩

theorem subkeyForPathCell_spec {g : Gen} {fuel : Nat} {cells : Cells} (hs : CellsSound g fuel cells) {pid : Nat} {n : Node}
    {c : List (CKey × Nat)} (hc : cells[pid]? = some (n, c)) (path : List Char) :
    CellsSound g fuel (subkeyForPathCell g fuel cells pid path).2 ∧ Ext cells (subkeyForPathCell g fuel cells pid path).2 ∧
      Rel (subkeyForPathCell g fuel cells pid path).2 (subkeyForPathCell g fuel cells pid path).1 (subkeyForPath g fuel n path) := by
  unfold subkeyForPathCell subkeyForPath
  simp only
  generalize (if List.drop (path.length - 4) path = ".pub".toList then List.take (path.length - 4) path else path) = p'
  generalize hfp : decide (List.drop (path.length - 4) path = ".pub".toList) = fp
  have hfp' : (List.drop (path.length - 4) path = ".pub".toList) ↔ fp = true := by rw [← hfp]; simp
  -- the loop part
  have hloop : ∃ (r : Except Err Nat) (cells' : Cells),
      (if p'.isEmpty = true then (Except.ok pid, cells) else pathLoopCell g fuel cells pid (Subpaths.split '/' p')) = (r, cells') ∧
      CellsSound g fuel cells' ∧ Ext cells cells' ∧
      Rel cells' r (if p'.isEmpty = true then .ok n else pathLoop g fuel n (Subpaths.split '/' p')) := by
    cases he : p'.isEmpty with
    | true => exact ⟨.ok pid, cells, by simp, hs, Ext.refl _, ⟨c, hc⟩⟩
    | false =>
      obtain ⟨t1, t2, t3⟩ := pathLoopCell_spec (g := g) (fuel := fuel) (Subpaths.split '/' p') cells pid n c hs hc
      exact ⟨(pathLoopCell g fuel cells pid (Subpaths.split '/' p')).1, (pathLoopCell g fuel cells pid (Subpaths.split '/' p')).2,
        by simp, t1, t2, by simpa using t3⟩
  obtain ⟨r, cells', e1, s1, s2, s3⟩ := hloop
  rw [e1]
  simp only
  generalize (if p'.isEmpty = true then Except.ok n else pathLoop g fuel n (Subpaths.split '/' p')) = a at s3
  cases r with
  | error e =>
    cases a with
    | ok m => simp [Rel] at s3
    | error e' => simp only [Rel] at s3; subst s3; exact ⟨s1, s2, rfl⟩
  | ok j =>
    cases a with
    | error e' => simp [Rel] at s3
    | ok m =>
      obtain ⟨cj, hj⟩ := s3
      simp only [hj]
      by_cases hcond : List.drop (path.length - 4) path = ".pub".toList ∧ m.secretExponent.isSome = true
      · rw [if_pos hcond, if_pos hcond]
        obtain ⟨t1, t2, t3⟩ := publicCopyCell_spec (g := g) s1 hj
        exact ⟨t1, Ext.trans s2 t2, t3⟩
      · rw [if_neg hcond, if_neg hcond]
        exact ⟨s1, s2, ⟨cj, hj⟩⟩

/-! ### histories -/

/-- result numbers name cells holding the node values of the cache-free run -/
def RefsOk (cells : Cells) : List (Option Nat) → List (Option Node) → Prop
  | [], [] => True
  | some pid :: rs, some v :: vs => (∃ c, cells[pid]? = some (v, c)) ∧ RefsOk cells rs vs
  | none :: rs, none :: vs => RefsOk cells rs vs
  | _, _ => False

theorem RefsOk.ext {cells cells' : Cells} (he : Ext cells cells') : ∀ {rs : List (Option Nat)} {vs : List (Option Node)},
    RefsOk cells rs vs → RefsOk cells' rs vs := by
  intro rs
  induction rs with
  | nil => intro vs h; cases vs <;> simpa [RefsOk] using h
  | cons r rs ih =>
    intro vs h
    cases vs with
    | nil => cases r <;> simp [RefsOk] at h
    | cons v vs =>
      cases r with
      | none => cases v with
        | none => exact ih h
        | some _ => simp [RefsOk] at h
      | some pid => cases v with
        | none => simp [RefsOk] at h
        | some w =>
          obtain ⟨⟨c, hc⟩, h2⟩ := h
          exact ⟨he pid w c hc, ih h2⟩

theorem RefsOk.snoc {cells : Cells} : ∀ {rs : List (Option Nat)} {vs : List (Option Node)} (r : Option Nat) (v : Option Node),
    RefsOk cells rs vs → RefsOk cells [r] [v] → RefsOk cells (rs ++ [r]) (vs ++ [v]) := by
  intro rs
  induction rs with
  | nil => intro vs r v h h1; cases vs with
    | nil => simpa using h1
    | cons _ _ => simp [RefsOk] at h
  | cons a rs ih =>
    intro vs r v h h1
    cases vs with
    | nil => cases a <;> simp [RefsOk] at h
    | cons w vs =>
      cases a with
      | none => cases w with
        | none => exact ih r v h h1
        | some _ => simp [RefsOk] at h
      | some pid => cases w with
        | none => simp [RefsOk] at h
        | some x => exact ⟨h.1, ih r v h.2 h1⟩

theorem RefsOk.get {cells : Cells} : ∀ {rs : List (Option Nat)} {vs : List (Option Node)}, RefsOk cells rs vs → ∀ k : Nat,
    (match rs[k]?, vs[k]? with
     | some (some pid), some (some v) => ∃ c, cells[pid]? = some (v, c)
     | some none, some none => True
     | none, none => True
     | _, _ => False) := by
  intro rs
  induction rs with
  | nil => intro vs h k; cases vs with
    | nil => simp
    | cons _ _ => simp [RefsOk] at h
  | cons a rs ih =>
    intro vs h k
    cases vs with
    | nil => cases a <;> simp [RefsOk] at h
    | cons w vs =>
      cases k with
      | zero =>
        cases a with
        | none => cases w with
          | none => simp
          | some _ => simp [RefsOk] at h
        | some pid => cases w with
          | none => simp [RefsOk] at h
          | some x => simpa using h.1
      | succ k =>
        have h2 : RefsOk cells rs vs := by
          cases a with
          | none => cases w with
            | none => exact h
            | some _ => simp [RefsOk] at h
          | some pid => cases w with
            | none => simp [RefsOk] at h
            | some x => exact h.2
        simpa using ih h2 k

theorem famStep_spec {g : Gen} {fuel : Nat} (F : Fam) (vals : List (Option Node)) (hs : CellsSound g fuel F.cells)
    (hr : RefsOk F.cells F.refs vals) (s : FStep) :
    (famStep g fuel F s).1 = famStep0 g fuel vals s ∧ CellsSound g fuel (famStep g fuel F s).2.cells ∧
      RefsOk (famStep g fuel F s).2.cells (famStep g fuel F s).2.refs (vals ++ [toOpt (famStep0 g fuel vals s)]) := by
  have hget := hr.get s.ref
  unfold famStep famStep0
  cases hrr : F.refs[s.ref]? with
  | none =>
    rw [hrr] at hget
    cases hv : vals[s.ref]? with
    | some _ => rw [hv] at hget; simp at hget
    | none => exact ⟨rfl, hs, hr.snoc none none trivial⟩
  | some o =>
    cases o with
    | none =>
      rw [hrr] at hget
      cases hv : vals[s.ref]? with
      | none => rw [hv] at hget; simp at hget
      | some w => cases w with
        | some _ => rw [hv] at hget; simp at hget
        | none => exact ⟨rfl, hs, hr.snoc none none trivial⟩
    | some pid =>
      rw [hrr] at hget
      cases hv : vals[s.ref]? with
      | none => rw [hv] at hget; simp at hget
      | some w => cases w with
        | none => rw [hv] at hget; simp at hget
        | some n =>
          rw [hv] at hget
          obtain ⟨c, hc⟩ := hget
          simp only
          -- the three kinds of step share the shape of their specification
          have key : ∀ (res : Except Err Nat × Cells) (a : Except Err Node),
              CellsSound g fuel res.2 → Ext F.cells res.2 → Rel res.2 res.1 a →
              (match res.1 with
                | .error e => ((.error e : Except Err Node), (⟨res.2, F.refs ++ [none]⟩ : Fam))
                | .ok j =>
                  match res.2[j]? with
                  | some (v, _) => (.ok v, ⟨res.2, F.refs ++ [some j]⟩)
                  | none => (.error .noObject, ⟨res.2, F.refs ++ [none]⟩)).1 = a ∧
              CellsSound g fuel (match res.1 with
                | .error e => ((.error e : Except Err Node), (⟨res.2, F.refs ++ [none]⟩ : Fam))
                | .ok j =>
                  match res.2[j]? with
                  | some (v, _) => (.ok v, ⟨res.2, F.refs ++ [some j]⟩)
                  | none => (.error .noObject, ⟨res.2, F.refs ++ [none]⟩)).2.cells ∧
              RefsOk (match res.1 with
                | .error e => ((.error e : Except Err Node), (⟨res.2, F.refs ++ [none]⟩ : Fam))
                | .ok j =>
                  match res.2[j]? with
                  | some (v, _) => (.ok v, ⟨res.2, F.refs ++ [some j]⟩)
                  | none => (.error .noObject, ⟨res.2, F.refs ++ [none]⟩)).2.cells
                (match res.1 with
                | .error e => ((.error e : Except Err Node), (⟨res.2, F.refs ++ [none]⟩ : Fam))
                | .ok j =>
                  match res.2[j]? with
                  | some (v, _) => (.ok v, ⟨res.2, F.refs ++ [some j]⟩)
                  | none => (.error .noObject, ⟨res.2, F.refs ++ [none]⟩)).2.refs (vals ++ [toOpt a]) := by
            intro res a t1 t2 t3
            obtain ⟨r, cells'⟩ := res
            simp only at t1 t2 t3 ⊢
            cases r with
            | error e =>
              cases a with
              | ok m => simp [Rel] at t3
              | error e' => simp only [Rel] at t3; subst t3; exact ⟨rfl, t1, (hr.ext t2).snoc none none trivial⟩
            | ok j =>
              cases a with
              | error e' => simp [Rel] at t3
              | ok m =>
                obtain ⟨cj, hj⟩ := t3
                simp only [hj]
                exact ⟨trivial, t1, (hr.ext t2).snoc (some j) (some m) ⟨⟨cj, hj⟩, trivial⟩⟩
          cases s with
          | pubcopy r =>
            obtain ⟨t1, t2, t3⟩ := publicCopyCell_spec (g := g) (fuel := fuel) hs hc
            exact key _ _ t1 t2 t3
          | subkey r i h p =>
            obtain ⟨t1, t2, t3⟩ := subkeyCell_spec hs hc i h p
            exact key _ _ t1 t2 t3
          | path r t =>
            obtain ⟨t1, t2, t3⟩ := subkeyForPathCell_spec hs hc t
            exact key _ _ t1 t2 t3

theorem famRun_eq {g : Gen} {fuel : Nat} (steps : List FStep) :
    ∀ (F : Fam) (vals : List (Option Node)), CellsSound g fuel F.cells → RefsOk F.cells F.refs vals →
      famRun g fuel F steps = famRun0 g fuel vals steps := by
  induction steps with
  | nil => intro F vals _ _; rfl
  | cons s rest ih =>
    intro F vals hs hr
    obtain ⟨h1, h2, h3⟩ := famStep_spec F vals hs hr s
    simp only [famRun, famRun0]
    rw [h1]
    congr 1
    exact ih _ _ h2 h3

/-! ### a public-only object never yields a secret or a hardened child -/

theorem subkey0_public {g : Gen} {fuel : Nat} {n m : Node} (hn : n.secretExponent = none) {i : Int} {hd : Bool}
    {p : Option Bool} (h : subkey0 g fuel n i hd p = .ok m) : m.secretExponent = none ∧ hd = false := by
  unfold subkey0 at h
  obtain ⟨-, -, -, -, -, -, h6, h7, h8⟩ := subkeyRaw_meta h
  refine ⟨?_, h8 hn⟩
  cases hp : p.getD n.secretExponent.isSome with
  | false => exact h6 hp
  | true =>
    have := h7 hp
    rw [hn] at this
    cases hm : m.secretExponent with
    | none => rfl
    | some _ => rw [hm] at this; simp at this

theorem pathLoop_public {g : Gen} {fuel : Nat} (vs : List (List Char)) : ∀ (n m : Node), n.secretExponent = none →
    pathLoop g fuel n vs = .ok m → m.secretExponent = none := by
  induction vs with
  | nil => intro n m hn h; simp only [pathLoop, Except.ok.injEq] at h; subst h; exact hn
  | cons v vs ih =>
    intro n m hn h
    unfold pathLoop at h
    cases hp : parseStep v with
    | error e => simp [hp] at h
    | ok r =>
      obtain ⟨i, hd⟩ := r
      simp only [hp] at h
      cases hs : subkey0 g fuel n i hd (some n.secretExponent.isSome) with
      | error e => simp [hs] at h
      | ok k =>
        simp only [hs] at h
        exact ih k m (subkey0_public hn hs).1 h

theorem subkeyForPath_public {g : Gen} {fuel : Nat} {n m : Node} (hn : n.secretExponent = none) {path : List Char}
    (h : subkeyForPath g fuel n path = .ok m) : m.secretExponent = none := by
  unfold subkeyForPath at h
  simp only at h
  generalize (if List.drop (path.length - 4) path = ".pub".toList then List.take (path.length - 4) path else path) = p' at h
  have hkey : ∀ key, (if p'.isEmpty = true then Except.ok n else pathLoop g fuel n (Subpaths.split '/' p')) = .ok key →
      key.secretExponent = none := by
    intro key hk
    cases he : p'.isEmpty with
    | true => simp [he] at hk; subst hk; exact hn
    | false => simp [he] at hk; exact pathLoop_public _ n key hn hk
  cases hr : (if p'.isEmpty = true then Except.ok n else pathLoop g fuel n (Subpaths.split '/' p')) with
  | error e => rw [hr] at h; simp at h
  | ok key =>
    have hk := hkey key hr
    rw [hr] at h
    simp only [hk, Option.isSome_none, Bool.false_eq_true, and_false, if_false, Except.ok.injEq] at h
    subst h; exact hk

end Pycoin.BIP32
