import Pycoin.Model.Validate
/-!
C06 — what a closure of `check_solution` answers, in terms of the committed bytes (`preimageOf`).  (Moved here from
`Props/C06.lean` unchanged so that the proofs about the instantiated interpreter can use it; `C06_oracle_reads_preimage_only`
restates it.)
-/
namespace Pycoin.Validate
open Pycoin Pycoin.Sighash

/-- the script code a closure digests: the witness closure and Bitcoin Cash take the script as it stands, the others
remove the signature pushes first -/
def closureCode (c : Coin) (q : Query) : Except Sighash.Err Bytes :=
  if q.witness || !closureDeletesSigs c then .ok q.script else deleteSignatures q.script q.sigs

/-- from the bytes a signature commits to, to the number handed to `generator.verify` -/
def digestOf (c : Coin) (witness : Bool) : Except Sighash.Err (Option Bytes) → Except Sighash.Err Nat
  | .error e => .error e
  | .ok none => .ok Gen.Sighash.singleBugValue
  | .ok (some p) => .ok (beNat (sha (if witness || requiresForkId c then segwitSingleSha c else legacySingleSha c) p))

/-- C06.oracle_reads_preimage_only: what a closure of `check_solution` answers depends on the transaction and the
unspents **only through the committed bytes** (`preimageOf`: the legacy message, or the BIP143 message with the fork id
folded in) -/
theorem oracle_reads_preimage_only (c : Coin) (s : State) (idx : Nat) (q : Query) :
    oracle c s idx q =
      match closureCode c q with
      | .error e => .error e
      | .ok code => digestOf c q.witness (preimageOf c s q.witness code idx q.ht) := by
  unfold oracle closureCode preimageOf
  cases hw : q.witness with
  | true =>
    simp only [if_true, Bool.true_or, witnessSighashF, segwitSignatureHash, digestOf]
    split
    · rfl
    · cases segwitPreimage c s.tx s.us q.script idx (q.ht ||| forkId c <<< 8) <;> rfl
  | false =>
    simp only [Bool.false_eq_true, if_false, Bool.false_or, sighashF]
    cases hd : closureDeletesSigs c with
    | false =>
      simp only [Bool.not_false, if_true, Bool.false_eq_true, if_false]
      unfold signatureHash
      cases hr : requiresForkId c with
      | true =>
        simp only [if_true, Bool.true_and, decide_eq_true_eq]
        unfold segwitSignatureHash
        by_cases hf : q.ht &&& Gen.Sighash.sighashForkid ≠ Gen.Sighash.sighashForkid
        · simp [hf, digestOf]
        · simp only [hf, if_false, decide_false, Bool.and_false, Bool.false_eq_true]
          cases segwitPreimage c s.tx s.us q.script idx (q.ht ||| forkId c <<< 8) <;> simp [digestOf, hr]
      | false =>
        simp only [Bool.false_eq_true, if_false, legacySignatureHash]
        cases Sighash.legacyPreimage c s.tx q.script idx q.ht with
        | error e => rfl
        | ok o => cases o <;> simp [digestOf, hr]
    | true =>
      simp only [Bool.not_true, Bool.false_eq_true, if_false, if_true]
      cases deleteSignatures q.script q.sigs with
      | error e => rfl
      | ok code =>
        simp only
        unfold signatureHash
        cases hr : requiresForkId c with
        | true =>
          simp only [if_true, Bool.true_and, decide_eq_true_eq]
          unfold segwitSignatureHash
          by_cases hf : q.ht &&& Gen.Sighash.sighashForkid ≠ Gen.Sighash.sighashForkid
          · simp [hf, digestOf]
          · simp only [hf, if_false, decide_false, Bool.and_false, Bool.false_eq_true]
            cases segwitPreimage c s.tx s.us code idx (q.ht ||| forkId c <<< 8) <;> simp [digestOf, hr]
        | false =>
          simp only [Bool.false_eq_true, if_false, legacySignatureHash]
          cases Sighash.legacyPreimage c s.tx code idx q.ht with
          | error e => rfl
          | ok o => cases o <;> simp [digestOf, hr]

end Pycoin.Validate
