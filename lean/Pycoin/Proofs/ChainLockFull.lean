import Pycoin.Proofs.ChainReload
/-! `lock_to_index` without hypotheses on the rebuilt finder (core Lean only) -/
namespace Pycoin.Chain

/-- the invariant a BlockChain state carries besides `Good`: its finder satisfies the melding invariant with nothing
pending, and `trees_from_bottom` has distinct keys -/
structure FinderOK (cf : CF) : Prop where
  inv : InvX [] [] cf
  keys : (dkeys cf.trees).Nodup

theorem FinderOK.empty : FinderOK CF.empty := ⟨InvX.empty, by simp [CF.empty, dkeys]⟩

theorem FinderOK.load {cf cf' : CF} (h : FinderOK cf) (rev : Bool) (rank : List Nat) (nodes : List (Nat × Nat))
    (hr : cf.loadNodes rev rank nodes = .ok cf') : FinderOK cf' :=
  ⟨loadNodes_inv rev rank cf cf' nodes h.inv hr, loadNodes_keys rev rank cf cf' nodes h.keys hr⟩

theorem FinderOK.trees_upPath {cf : CF} (h : FinderOK cf) : ∀ t ∈ cf.trees.map (·.2), UpPath cf.parent t := by
  intro t ht
  obtain ⟨⟨b, t'⟩, hm, e⟩ := List.mem_map.mp ht
  simp only at e; subst e
  exact (UpQ_nil_iff _ _).mp (h.inv.tree b t' (dget_of_mem _ h.keys b t' hm)).2.2

/-- links up to `z`, then an upward path from `z` -/
theorem UpPath.glue {pl : Dict Nat} : ∀ (a : List Nat) (z : Nat) (r : List Nat), Links pl (a ++ [z]) →
    UpPath pl (z :: r) → UpPath pl (a ++ z :: r)
  | [], _, _, _, h => h
  | [x], z, r, hl, h => by
      simp only [List.cons_append, List.nil_append, Links] at hl
      simp only [List.cons_append, List.nil_append, UpPath]
      exact ⟨hl.1, h⟩
  | x :: y :: a, z, r, hl, h => by
      simp only [List.cons_append, Links] at hl
      simp only [List.cons_append, UpPath]
      exact ⟨hl.1, UpPath.glue (y :: a) z r hl.2 h⟩

theorem lockToIndex_full (anchor0 : Nat) (rev : Bool) (rank : List Nat) (bc bc' : BC) (c : List Nat)
    (index : Nat) (cb : Option (List Item × Nat))
    (g : Good anchor0 bc c) (fo : FinderOK bc.finder)
    (hr : bc.lockToIndex rev rank index = .ok (cb, bc')) :
    (∃ c', Good anchor0 bc' c' ∧ lockedHashes bc' ++ c'.reverse = lockedHashes bc ++ c.reverse) ∧
    FinderOK bc'.finder ∧
    ((∀ c'', UpPath bc.finder.parent (c'' ++ [bc.parentHash]) → chainWeight bc.weight c'' ≤ chainWeight bc.weight c) →
      ∀ c1, bc'.cache = some c1 → ∀ c'', UpPath bc'.finder.parent (c'' ++ [bc'.parentHash]) →
        chainWeight bc'.weight c'' ≤ chainWeight bc'.weight c1) := by
  have hr0 := hr
  unfold BC.lockToIndex at hr
  obtain ⟨⟨old, bc1⟩, h1, hr⟩ := bind_ok hr
  have e1 := h1.symm.trans (longest_of_cur rev bc c g.cur)
  simp only [Except.ok.injEq, Prod.mk.injEq] at e1
  obtain ⟨e1a, e1b⟩ := e1
  subst e1b
  have e1a' := e1a.symm
  subst e1a'
  try simp only at hr
  split at hr
  · simp only [Except.ok.injEq, Prod.mk.injEq] at hr
    obtain ⟨_, rfl⟩ := hr
    refine ⟨lockToIndex_good anchor0 rev rank bc _ c index cb g hr0 ?_, fo, ?_⟩
    · intro c' hc'
      simp only [Option.some.injEq] at hc'; subst hc'
      exact g.path
    · intro hmax c1 hc1 c'' hu
      simp only [Option.some.injEq] at hc1; subst hc1
      exact hmax c'' hu
  · rename_i hidx
    split at hr
    · cases hr
    · rename_i hk
      obtain ⟨finder', h2, hr⟩ := bind_ok hr
      simp only [Except.ok.injEq, Prod.mk.injEq] at hr
      obtain ⟨_, rfl⟩ := hr
      have fo' : FinderOK finder' := FinderOK.empty.load rev rank _ h2
      -- facts about the newly locked part, shared by the two remaining goals
      generalize hkk : index - bc.locked.length = k at *
      have hk1 : 1 ≤ k := by omega
      have hk2 : k ≤ c.length := by omega
      generalize htaken : c.reverse.take k = taken at *
      have hl : (c.reverse.take k).length = k := by rw [List.length_take, List.length_reverse]; omega
      obtain ⟨ys, z, hz⟩ : ∃ ys z, taken = ys ++ [z] := by
        rcases List.eq_nil_or_concat taken with h | ⟨ys, z, h⟩
        · rw [htaken, h] at hl; simp at hl; omega
        · exact ⟨ys, z, by simpa using h⟩
      have hhash : taken.getLastD bc.parentHash = z := by rw [hz]; simp [List.getLastD_eq_getLast?]
      have hc : c = c.take (c.length - k) ++ taken.reverse := by
        have h3 : c.reverse = taken ++ (c.take (c.length - k)).reverse := by
          rw [reverse_split c k hk2, ← htaken, List.take_append_drop]
        have := congrArg List.reverse h3
        simpa using this
      obtain ⟨c', hcp⟩ : ∃ c', c.take (c.length - k) = c' := ⟨_, rfl⟩
      rw [hcp] at hc
      have hR : taken.reverse = z :: ys.reverse := by rw [hz]; simp
      have hpath : UpPath bc.finder.parent (c' ++ (taken.reverse ++ [bc.parentHash])) := by
        have := g.path; rw [hc, List.append_assoc] at this; exact this
      have hRpath : UpPath bc.finder.parent (taken.reverse ++ [bc.parentHash]) :=
        UpPath.suffix c' _ hpath (by simp)
      have hclosed : Closed bc.finder.parent taken.reverse := by
        intro y hy v hv
        have := UpPath.succ_mem _ hRpath y v (List.mem_append_left _ hy) hv
        rcases List.mem_append.mp this with h | h
        · exact Or.inl h
        · simp at h
          exact Or.inr (h ▸ UpPath.last_unregistered _ hRpath bc.parentHash (by simp))
      have hnd : (c' ++ taken.reverse).Nodup := by
        have := UpPath.nodup _ g.path
        rw [hc] at this
        exact (List.nodup_append.mp this).1
      have hpl := loadNodes_parent rev rank CF.empty finder' _ h2
      have Fnew : ∀ x v, dget finder'.parent x = some v →
          dget bc.finder.parent x = some v ∧ x ∉ taken.reverse := by
        intro x v hv
        rw [hpl] at hv
        rcases register_new _ _ _ _ _ hv with h | h
        · simp [CF.empty, dget] at h
        · exact lockNodes_spec _ _ _ x v h
      refine ⟨lockToIndex_good anchor0 rev rank bc _ c index cb g hr0 ?_, fo', ?_⟩
      · intro c1 hc1
        simp only [Option.some.injEq] at hc1; subst hc1
        simp only
        rw [hhash, hcp]
        have hagree : ∀ x ∈ c', ∀ v, dget bc.finder.parent x = some v → dget finder'.parent x = some v := by
          intro x hx v hv
          rcases fo.inv.covers x v hv (by simp) with ⟨b, t, hb, hm⟩ | h
          · have ht : t ∈ bc.finder.trees.map (·.2) := List.mem_map.mpr ⟨(b, t), dget_mem _ b t hb, rfl⟩
            rcases lockNodes_complete bc.finder.parent _ taken.reverse fo.trees_upPath hclosed t ht x hm v hv with h | h
            · exact absurd rfl ((List.nodup_append.mp hnd).2.2 x hx x h)
            · obtain ⟨v', hv'⟩ := register_mem _ CF.empty.parent [] x v h
              rw [← hpl] at hv'
              have := (Fnew x v' hv').1
              rw [hv] at this; injection this with this; subst this
              exact hv'
          · simp at h
        have hlinks : Links bc.finder.parent (c' ++ [z]) := by
          have h1 := Links.of_upPath _ hpath
          rw [hR] at h1
          have : c' ++ (z :: ys.reverse ++ [bc.parentHash]) = (c' ++ [z]) ++ (ys.reverse ++ [bc.parentHash]) := by simp
          rw [this] at h1
          exact Links.prefix _ _ h1
        apply UpPath.of_links _ (by simp) (Links.agree _ hlinks (by
          intro x hx v hv
          rw [List.dropLast_concat] at hx
          exact hagree x hx v hv))
        intro x hx
        have hxz : x = z := by simpa [eq_comm] using hx
        rw [hxz]
        cases hv : dget finder'.parent z with
        | none => rfl
        | some v =>
          have := (Fnew z v hv).2
          rw [hR] at this; simp at this
      · intro hmax c1 hc1 c'' hu
        simp only [Option.some.injEq] at hc1; subst hc1
        simp only at hu ⊢
        rw [hhash] at hu
        rw [hcp]
        -- a chain above the new anchor in the rebuilt finder is a chain above the old anchor in the old finder
        have hl1 : Links bc.finder.parent (c'' ++ [z]) :=
          Links.agree _ (Links.of_upPath _ hu) (by intro x _ v hv; exact (Fnew x v hv).1)
        have hglue : UpPath bc.finder.parent ((c'' ++ taken.reverse) ++ [bc.parentHash]) := by
          rw [List.append_assoc, hR]
          rw [hR] at hRpath
          exact UpPath.glue c'' z _ hl1 hRpath
        have := hmax _ hglue
        rw [hc, chainWeight_append', chainWeight_append'] at this
        omega
