import Mathlib.Tactic.SplitIfs
import Pycoin.Proofs.VMEval2
/-!
Which verification flags `EvalScript` looks at (`evalPart`): the specification evaluates alike under two flag sets that
agree there — what lets `check_solution` strip MINIMALIF / WITNESS_PUBKEYTYPE (and P2SH) from the flags of its
base-version VMs and add CLEANSTACK to those of its witness VMs.
-/
namespace Pycoin.VM
open Pycoin.Spec Pycoin.Gen.VM CondStack Consensus

/-- the script `OP_1` pycoin runs for an undefined witness version leaves exactly one true item, whatever the flags -/
theorem spec_op1 (chk : Bytes → Bytes → Bytes → SigVersion → Bool) (F : Flags) (tx : Consensus.TxCtx) :
    Consensus.evalScript chk [] [0x51] F tx .witnessV0 = .ok [[1]] := by rfl

/-- the flags `EvalScript` looks at in signature version `sv` -/
def evalPart (sv : SigVersion) (F : Flags) : Flags :=
  { strictenc := F.strictenc, dersig := F.dersig, lowS := F.lowS, nulldummy := F.nulldummy, minimaldata := F.minimaldata,
    discourageUpgradableNops := F.discourageUpgradableNops, checklocktimeverify := F.checklocktimeverify,
    checksequenceverify := F.checksequenceverify, nullfail := F.nullfail,
    minimalif := sv == .witnessV0 && F.minimalif, witnessPubkeytype := sv == .witnessV0 && F.witnessPubkeytype }

theorem execOp_evalPart (env : Consensus.Env) (st : Consensus.State) (f : Bool) (op pc : Nat) :
    execOp { env with flags := evalPart env.sigversion env.flags } st f op pc = execOp env st f op pc := by
  unfold execOp
  simp only [evalPart, Bool.and_self_left, Consensus.num]
  rfl

theorem sigEnc_evalPart (sig : Bytes) (sv : SigVersion) (F : Flags) :
    checkSignatureEncoding sig (evalPart sv F) = checkSignatureEncoding sig F := rfl

theorem pubEnc_evalPart (key : Bytes) (sv : SigVersion) (F : Flags) :
    checkPubKeyEncoding key (evalPart sv F) sv = checkPubKeyEncoding key F sv := by
  unfold checkPubKeyEncoding
  have : (sv == SigVersion.witnessV0 && F.witnessPubkeytype && sv == SigVersion.witnessV0) =
      (F.witnessPubkeytype && sv == SigVersion.witnessV0) := by
    cases sv <;> cases F.witnessPubkeytype <;> rfl
  simp only [evalPart, this]

theorem multisigLoop_evalPart (chk : SigChecker Id) (sv : SigVersion) (F : Flags) (code : Bytes) :
    ∀ (keys sigs : List Bytes), multisigLoop chk (evalPart sv F) sv code sigs keys = multisigLoop chk F sv code sigs keys := by
  intro keys
  induction keys with
  | nil => intro sigs; cases sigs <;> rfl
  | cons k ks ih =>
    intro sigs
    cases sigs with
    | nil => rfl
    | cons s ss =>
      simp only [multisigLoop, sigEnc_evalPart, pubEnc_evalPart, ih]

theorem stepM_evalPart (chk : SigChecker Id) (env : Consensus.Env) (st : Consensus.State) (op : Nat) (data : Bytes) (pcNext : Nat) :
    stepM chk { env with flags := evalPart env.sigversion env.flags } st op data pcNext = stepM chk env st op data pcNext := by
  have h1 := execOp_evalPart env
  have h2 : ∀ st' o, execCheckSig chk { env with flags := evalPart env.sigversion env.flags } st' o = execCheckSig chk env st' o := by
    intro st' o
    unfold execCheckSig
    simp only [sigEnc_evalPart, pubEnc_evalPart, scriptCodeFor]
    rfl
  have h3 : ∀ st' o, execCheckMultiSig chk { env with flags := evalPart env.sigversion env.flags } st' o =
      execCheckMultiSig chk env st' o := by
    intro st' o
    unfold execCheckMultiSig
    simp only [multisigLoop_evalPart, scriptCodeFor, Consensus.num]
    rfl
  unfold stepM
  simp only [h1, h2, h3]
  rfl

theorem evalLoop_evalPart (chk : SigChecker Id) (env : Consensus.Env) :
    ∀ (fuel : Nat) (rest : Bytes) (pc : Nat) (st : Consensus.State),
      Consensus.evalLoop chk { env with flags := evalPart env.sigversion env.flags } fuel rest pc st =
        Consensus.evalLoop chk env fuel rest pc st := by
  intro fuel
  induction fuel with
  | zero => intro rest pc st; rfl
  | succ f ih =>
    intro rest pc st
    simp only [Consensus.evalLoop, stepM_evalPart, ih]

theorem evalScript_evalPart (chk : Bytes → Bytes → Bytes → SigVersion → Bool) (stack : List Bytes) (script : Bytes)
    (F : Flags) (tx : Consensus.TxCtx) (sv : SigVersion) :
    Consensus.evalScript chk stack script (evalPart sv F) tx sv = Consensus.evalScript chk stack script F tx sv := by
  unfold Consensus.evalScript evalScriptM
  have := evalLoop_evalPart (fun a b c d => pure (chk a b c d)) ⟨script, F, sv, tx⟩
  simp only [] at this
  simp only [this]

/-- `EvalScript` only looks at `evalPart`: two flag sets that agree there evaluate alike -/
theorem evalScript_congr (chk : Bytes → Bytes → Bytes → SigVersion → Bool) (stack : List Bytes) (script : Bytes)
    (F G : Flags) (tx : Consensus.TxCtx) (sv : SigVersion) (h : evalPart sv F = evalPart sv G) :
    Consensus.evalScript chk stack script F tx sv = Consensus.evalScript chk stack script G tx sv := by
  rw [← evalScript_evalPart chk stack script F, ← evalScript_evalPart chk stack script G, h]

theorem testBit_andNot (a m i : Nat) : (andNot a m).testBit i = (a.testBit i && !m.testBit i) := by
  unfold andNot
  rw [Nat.testBit_xor, Nat.testBit_and]
  cases a.testBit i <;> cases m.testBit i <;> rfl

theorem bits_minimalif : ∀ i, i < 16 → VERIFY_MINIMALIF.testBit i = decide (i = 13) := by decide
theorem bits_wpk : ∀ i, i < 16 → VERIFY_WITNESS_PUBKEYTYPE.testBit i = decide (i = 15) := by decide
theorem bits_p2sh : ∀ i, i < 16 → VERIFY_P2SH.testBit i = decide (i = 0) := by decide
theorem bits_cleanstack : ∀ i, i < 16 → VERIFY_CLEANSTACK.testBit i = decide (i = 8) := by decide
theorem base_ne_wit : (SigVersion.base == SigVersion.witnessV0) = false := rfl

/-- `flags & ~(VERIFY_MINIMALIF | VERIFY_WITNESS_PUBKEYTYPE)` changes nothing a base-version script looks at -/
theorem evalPart_strip (flags : Nat) :
    evalPart .base (Flags.ofBits (andNot flags (VERIFY_MINIMALIF ||| VERIFY_WITNESS_PUBKEYTYPE))) =
      evalPart .base (Flags.ofBits flags) := by
  simp [evalPart, Flags.ofBits, testBit_andNot, Nat.testBit_or, bits_minimalif, bits_wpk, base_ne_wit]

theorem evalPart_strip_p2sh (flags : Nat) :
    evalPart .base (Flags.ofBits (andNot (andNot flags (VERIFY_MINIMALIF ||| VERIFY_WITNESS_PUBKEYTYPE)) VERIFY_P2SH)) =
      evalPart .base (Flags.ofBits flags) := by
  simp [evalPart, Flags.ofBits, testBit_andNot, Nat.testBit_or, bits_minimalif, bits_wpk, bits_p2sh, base_ne_wit]

theorem evalPart_cleanstack (flags : Nat) :
    evalPart .witnessV0 (Flags.ofBits (flags ||| VERIFY_CLEANSTACK)) = evalPart .witnessV0 (Flags.ofBits flags) := by
  simp [evalPart, Flags.ofBits, Nat.testBit_or, bits_cleanstack]

theorem strip_minimalif (flags : Nat) :
    hasFlag (andNot flags (VERIFY_MINIMALIF ||| VERIFY_WITNESS_PUBKEYTYPE)) VERIFY_MINIMALIF = false := by
  rw [show VERIFY_MINIMALIF = 2 ^ 13 from rfl, hasFlag_pow, testBit_andNot, ← show VERIFY_MINIMALIF = 2 ^ 13 from rfl]
  simp [Nat.testBit_or, bits_minimalif]

theorem strip_wpk (flags : Nat) :
    hasFlag (andNot flags (VERIFY_MINIMALIF ||| VERIFY_WITNESS_PUBKEYTYPE)) VERIFY_WITNESS_PUBKEYTYPE = false := by
  rw [show VERIFY_WITNESS_PUBKEYTYPE = 2 ^ 15 from rfl, hasFlag_pow, testBit_andNot, ← show VERIFY_WITNESS_PUBKEYTYPE = 2 ^ 15 from rfl]
  simp [Nat.testBit_or, bits_wpk]

theorem strip_minimalif_p2sh (flags : Nat) :
    hasFlag (andNot (andNot flags (VERIFY_MINIMALIF ||| VERIFY_WITNESS_PUBKEYTYPE)) VERIFY_P2SH) VERIFY_MINIMALIF = false := by
  rw [show VERIFY_MINIMALIF = 2 ^ 13 from rfl, hasFlag_pow, testBit_andNot, testBit_andNot, ← show VERIFY_MINIMALIF = 2 ^ 13 from rfl]
  simp [Nat.testBit_or, bits_minimalif]

theorem strip_wpk_p2sh (flags : Nat) :
    hasFlag (andNot (andNot flags (VERIFY_MINIMALIF ||| VERIFY_WITNESS_PUBKEYTYPE)) VERIFY_P2SH) VERIFY_WITNESS_PUBKEYTYPE = false := by
  rw [show VERIFY_WITNESS_PUBKEYTYPE = 2 ^ 15 from rfl, hasFlag_pow, testBit_andNot, testBit_andNot,
    ← show VERIFY_WITNESS_PUBKEYTYPE = 2 ^ 15 from rfl]
  simp [Nat.testBit_or, bits_wpk]
end Pycoin.VM
