import Pycoin.Proofs.SighashFind
/-!
C04 helper lemmas: decoding an instruction does not depend on what follows it, so a script assembled from whole
instructions followed by undecodable bytes decodes into exactly those; hence `FindAndDelete` of a push keeps the
pushes of a script complete, and never touches the undecodable rest.
-/
namespace Pycoin.Sighash
open Pycoin Pycoin.Script Pycoin.Spec.Sighash

theorem tail_step (r' : Bytes) (m : Nat) (hm : ¬ r'.length < m) (t : Bytes) (n : Nat) :
    (if (r'.take m ++ t).length < m then none else some (n, (r'.take m ++ t).take m, (r'.take m ++ t).drop m)) =
      some (n, r'.take m, t) := by
  have hl : (r'.take m).length = m := by rw [List.length_take]; omega
  have h1 : ¬ (r'.take m ++ t).length < m := by rw [List.length_append, hl]; omega
  rw [if_neg h1, List.take_left' hl, List.drop_left' hl]

theorem head_step (r : Bytes) (w m : Nat) (hw : ¬ r.length < w) (hm : ¬ (r.drop w).length < m) (t : Bytes) :
    ¬ (r.take (w + m) ++ t).length < w ∧ (r.take (w + m) ++ t).take w = r.take w ∧
      (r.take (w + m) ++ t).drop w = (r.drop w).take m ++ t := by
  rw [List.length_drop] at hm
  have hl : (r.take (w + m)).length = w + m := by rw [List.length_take]; omega
  refine ⟨by rw [List.length_append, hl]; omega, ?_, ?_⟩
  · rw [List.take_append_of_le_length (by omega), List.take_take]
    congr 1; omega
  · rw [List.drop_append_of_le_length (by omega), List.drop_take]
    congr 2; omega

/-- decoding an instruction does not depend on what follows it -/
theorem getScriptOp_prefix {s : Bytes} {o : Nat} {p rest : Bytes} (h : Spec.getScriptOp s = some (o, p, rest)) (t : Bytes) :
    Spec.getScriptOp (s.take (s.length - rest.length) ++ t) = some (o, p, t) := by
  match s, h with
  | b :: r, h =>
    rw [getScriptOp_cons] at h
    unfold specOp at h
    by_cases h1 : b.toNat ≤ 0x4e
    · simp only [h1, if_true] at h
      by_cases h2 : b.toNat < 0x4c
      · simp only [h2, if_true] at h
        have hn : ¬ r.length < b.toNat := by intro hh; rw [if_pos hh] at h; cases h
        simp only [hn, if_false, Option.some.injEq, Prod.mk.injEq] at h
        obtain ⟨ho, hp, hr⟩ := h
        subst ho hp hr
        have hk : (b :: r).length - (r.drop b.toNat).length = b.toNat + 1 := by
          simp only [List.length_cons, List.length_drop]; omega
        rw [hk, List.take_succ_cons, List.cons_append, getScriptOp_cons]
        unfold specOp
        simp only [h1, h2, if_true]
        exact tail_step r b.toNat hn t b.toNat
      · simp only [h2, if_false] at h
        by_cases h4 : b.toNat = 0x4c
        · simp only [h4, if_true] at h
          have hw : ¬ r.length < 1 := by intro hh; rw [if_pos hh] at h; cases h
          simp only [hw, if_false] at h
          have hn : ¬ (r.drop 1).length < leNat (r.take 1) := by intro hh; rw [if_pos hh] at h; cases h
          simp only [hn, if_false, Option.some.injEq, Prod.mk.injEq] at h
          obtain ⟨ho, hp, hr⟩ := h
          subst ho hp hr
          have hk : (b :: r).length - ((r.drop 1).drop (leNat (r.take 1))).length = (1 + leNat (r.take 1)) + 1 := by
            simp only [List.length_cons, List.length_drop] at hn ⊢; omega
          obtain ⟨e1, e2, e3⟩ := head_step r 1 (leNat (r.take 1)) hw hn t
          rw [hk, List.take_succ_cons, List.cons_append, getScriptOp_cons]
          unfold specOp
          simp only [h1, h2, h4, if_true, if_false, e1, e2, e3]
          exact tail_step (r.drop 1) _ hn t _
        · simp only [h4, if_false] at h
          by_cases h5 : b.toNat = 0x4d
          · simp only [h5, if_true] at h
            have hw : ¬ r.length < 2 := by intro hh; rw [if_pos hh] at h; cases h
            simp only [hw, if_false] at h
            have hn : ¬ (r.drop 2).length < leNat (r.take 2) := by intro hh; rw [if_pos hh] at h; cases h
            simp only [hn, if_false, Option.some.injEq, Prod.mk.injEq] at h
            obtain ⟨ho, hp, hr⟩ := h
            subst ho hp hr
            have hk : (b :: r).length - ((r.drop 2).drop (leNat (r.take 2))).length = (2 + leNat (r.take 2)) + 1 := by
              simp only [List.length_cons, List.length_drop] at hn ⊢; omega
            obtain ⟨e1, e2, e3⟩ := head_step r 2 (leNat (r.take 2)) hw hn t
            rw [hk, List.take_succ_cons, List.cons_append, getScriptOp_cons]
            unfold specOp
            simp only [h1, h2, h4, h5, if_true, if_false, e1, e2, e3]
            exact tail_step (r.drop 2) _ hn t _
          · simp only [h5, if_false] at h
            have hw : ¬ r.length < 4 := by intro hh; rw [if_pos hh] at h; cases h
            simp only [hw, if_false] at h
            have hn : ¬ (r.drop 4).length < leNat (r.take 4) := by intro hh; rw [if_pos hh] at h; cases h
            simp only [hn, if_false, Option.some.injEq, Prod.mk.injEq] at h
            obtain ⟨ho, hp, hr⟩ := h
            subst ho hp hr
            have hk : (b :: r).length - ((r.drop 4).drop (leNat (r.take 4))).length = (4 + leNat (r.take 4)) + 1 := by
              simp only [List.length_cons, List.length_drop] at hn ⊢; omega
            obtain ⟨e1, e2, e3⟩ := head_step r 4 (leNat (r.take 4)) hw hn t
            rw [hk, List.take_succ_cons, List.cons_append, getScriptOp_cons]
            unfold specOp
            simp only [h1, h2, h4, h5, if_true, if_false, e1, e2, e3]
            exact tail_step (r.drop 4) _ hn t _
    · simp only [h1, if_false, Option.some.injEq, Prod.mk.injEq] at h
      obtain ⟨ho, hp, hr⟩ := h
      subst ho hp hr
      have hk : (b :: r).length - r.length = 0 + 1 := by simp
      rw [hk, List.take_succ_cons, List.take_zero, List.cons_append, List.nil_append, getScriptOp_cons]
      unfold specOp
      simp [h1]

/-- every section Core's decoder yields is a whole instruction -/
theorem instructions_isInstr : ∀ (fuel : Nat) (s : Bytes), ∀ i ∈ (instructions fuel s).1, IsInstr i.2 := by
  intro fuel
  induction fuel with
  | zero => intro s i hi; simp [instructions] at hi
  | succ f ih =>
    intro s i hi
    unfold instructions at hi
    cases hg : Spec.getScriptOp s with
    | none => simp [hg] at hi
    | some t =>
      obtain ⟨o, p, rest⟩ := t
      simp only [hg, List.mem_cons] at hi
      rcases hi with hi | hi
      · subst hi
        obtain ⟨b, r, k, hs, ho, hrest, hk1, hk2, hk⟩ := getScriptOp_some hg
        have hrl : rest.length = s.length - k := by rw [hrest, List.length_drop]
        refine ⟨?_, fun t => ⟨o, p, getScriptOp_prefix hg t⟩⟩
        show s.take (s.length - rest.length) ≠ []
        intro h0
        have := congrArg List.length h0
        rw [List.length_take] at this
        simp only [List.length_nil] at this
        omega
      · exact ih rest i hi

/-- what Core's decoder leaves is empty or starts with an instruction it cannot decode -/
theorem instructions_tail_none : ∀ (fuel : Nat) (s : Bytes), s.length ≤ fuel →
    Spec.getScriptOp (instructions fuel s).2 = none := by
  intro fuel
  induction fuel with
  | zero =>
    intro s hl
    have : s = [] := List.eq_nil_of_length_eq_zero (by omega)
    subst this
    rfl
  | succ f ih =>
    intro s hl
    unfold instructions
    cases hg : Spec.getScriptOp s with
    | none => exact hg
    | some t =>
      obtain ⟨o, p, rest⟩ := t
      obtain ⟨b, r, k, hs, ho, hrest, hk1, hk2, hk⟩ := getScriptOp_some hg
      have hrl : rest.length = s.length - k := by rw [hrest, List.length_drop]
      exact ih rest (by omega)

/-- a script assembled from whole instructions and an undecodable rest decodes into exactly those -/
theorem instructions_assemble : ∀ (l : List Bytes), (∀ x ∈ l, IsInstr x) → ∀ (T : Bytes), Spec.getScriptOp T = none →
    ∀ (fuel : Nat), l.length ≤ fuel →
      (instructions fuel (l.flatten ++ T)).1.map (·.2) = l ∧ (instructions fuel (l.flatten ++ T)).2 = T := by
  intro l
  induction l with
  | nil =>
    intro _ T hT fuel _
    cases fuel with
    | zero => simp [instructions]
    | succ f => simp [instructions, hT]
  | cons x xs ih =>
    intro hl T hT fuel hf
    cases fuel with
    | zero => simp at hf
    | succ f =>
      obtain ⟨o, p, hg⟩ := (hl x (by simp)).2 (xs.flatten ++ T)
      have ihx := ih (fun y hy => hl y (by simp [hy])) T hT f (by simpa using hf)
      have e : (x :: xs).flatten ++ T = x ++ (xs.flatten ++ T) := by simp
      rw [e]
      unfold instructions
      simp only [hg, List.map_cons, ihx.1, ihx.2, and_true]
      congr 1
      have : (x ++ (xs.flatten ++ T)).length - (xs.flatten ++ T).length = x.length := by
        rw [List.length_append]; omega
      rw [this, List.take_left]

theorem length_le_flatten : ∀ (l : List Bytes), (∀ x ∈ l, x ≠ []) → l.length ≤ l.flatten.length
  | [], _ => by simp
  | x :: xs, h => by
    have h1 : 1 ≤ x.length := by
      have := h x (by simp)
      cases x with
      | nil => exact absurd rfl this
      | cons a as => simp
    have := length_le_flatten xs (fun y hy => h y (by simp [hy]))
    simp only [List.length_cons, List.flatten_cons, List.length_append]
    omega

/-- `FindAndDelete` of a whole instruction, seen by the decoder: the other instructions, and the same undecodable rest -/
theorem instr_findAndDelete (script sub : Bytes) (hsub : IsInstr sub) :
    instrSections (findAndDelete script sub) = (instrSections script).filter (fun x => x ≠ sub) ∧
    instrTail (findAndDelete script sub) = instrTail script := by
  rw [findAndDelete_instr_all script sub hsub]
  have hall : ∀ x ∈ (instrSections script).filter (fun x => x ≠ sub), IsInstr x := by
    intro x hx
    have hx' := (List.mem_filter.mp hx).1
    unfold instrSections at hx'
    obtain ⟨i, hi, rfl⟩ := List.mem_map.mp hx'
    exact instructions_isInstr _ _ i hi
  have hT : Spec.getScriptOp (instrTail script) = none := instructions_tail_none _ _ (Nat.le_refl _)
  have hlen := length_le_flatten _ (fun x hx => (hall x hx).1)
  exact instructions_assemble _ hall _ hT _ (by rw [List.length_append]; omega)

theorem findAndDelete_complete (script sub : Bytes) (hsub : IsInstr sub) (hc : Complete script) :
    Complete (findAndDelete script sub) := by
  show instrTail (findAndDelete script sub) = []
  rw [(instr_findAndDelete script sub hsub).2]
  exact hc

theorem findAndDelete_tailWritten (script sub : Bytes) (hsub : IsInstr sub) (hc : TailWritten script) :
    TailWritten (findAndDelete script sub) := by
  unfold TailWritten
  rw [(instr_findAndDelete script sub hsub).2]
  exact hc

theorem filter_flatten_le (l : List Bytes) (p : Bytes → Bool) : (l.filter p).flatten.length ≤ l.flatten.length := by
  induction l with
  | nil => simp
  | cons a as ih =>
    simp only [List.filter_cons]
    split <;> simp only [List.flatten_cons, List.length_append] <;> omega

theorem findAndDelete_length_le (script sub : Bytes) (hsub : IsInstr sub) :
    (findAndDelete script sub).length ≤ script.length := by
  rw [findAndDelete_instr_all script sub hsub]
  have h1 := congrArg List.length (instrSections_tail script)
  have h2 := filter_flatten_le (instrSections script) (fun x => decide (x ≠ sub))
  simp only [List.length_append] at h1 ⊢
  omega

/-- the script code of a CHECKSIG / CHECKMULTISIG (every signature's push removed) keeps complete pushes complete, keeps
the undecodable rest, and is no longer than the script -/
theorem scriptCodeFor_facts : ∀ (sigs : List Bytes) (script : Bytes), (∀ s ∈ sigs, s.length < 2 ^ 32) →
    (Complete script → Complete (scriptCodeFor script sigs)) ∧
    (TailWritten script → TailWritten (scriptCodeFor script sigs)) ∧
    (scriptCodeFor script sigs).length ≤ script.length
  | [], script, _ => ⟨id, id, Nat.le_refl _⟩
  | s :: ss, script, h => by
    have hs := pushData_isInstr s (h s (by simp))
    obtain ⟨i1, i2, i3⟩ := scriptCodeFor_facts ss (findAndDelete script (pushData s)) (fun x hx => h x (by simp [hx]))
    have e : scriptCodeFor script (s :: ss) = scriptCodeFor (findAndDelete script (pushData s)) ss := by
      simp [scriptCodeFor]
    rw [e]
    exact ⟨fun hc => i1 (findAndDelete_complete _ _ hs hc), fun hc => i2 (findAndDelete_tailWritten _ _ hs hc),
      Nat.le_trans i3 (findAndDelete_length_le _ _ hs)⟩

end Pycoin.Sighash
