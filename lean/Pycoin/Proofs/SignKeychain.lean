import Pycoin.Model.Sign
/-!
C05 — lemmas about the Keychain model (`Model/Sign.lean`): `dict` semantics of the cache, `_add_key_to_cache`, the
derivation loop of `Keychain.get`.
-/
namespace Pycoin.Sign
open Pycoin

/-- `dict` semantics: later insertions win -/
theorem assocGet_append {β} (h : Bytes) (l m : List (Bytes × β)) :
    assocGet h (l ++ m) = match assocGet h m with | some v => some v | none => assocGet h l := by
  induction l with
  | nil => cases hm : assocGet h m <;> simp [assocGet, hm]
  | cons a r ih =>
    obtain ⟨k, v⟩ := a
    simp only [List.cons_append, assocGet, ih]
    cases assocGet h m <;> simp

theorem assocGet_isSome_append {β} (h : Bytes) (l m : List (Bytes × β)) (hl : (assocGet h l).isSome = true) :
    (assocGet h (l ++ m)).isSome = true := by
  rw [assocGet_append]
  cases assocGet h m with
  | some v => rfl
  | none => exact hl

theorem assocGet_isSome_of_mem {β} (h : Bytes) (v : β) (l : List (Bytes × β)) (hm : (h, v) ∈ l) :
    (assocGet h l).isSome = true := by
  induction l with
  | nil => simp at hm
  | cons a r ih =>
    obtain ⟨k, w⟩ := a
    simp only [assocGet]
    rcases List.mem_cons.mp hm with e | e
    · cases e
      cases assocGet h r <;> simp
    · have := ih e
      cases hr : assocGet h r with
      | some x => rfl
      | none => rw [hr] at this; simp at this

/-- what `_add_key_to_cache` does to the state -/
theorem addKeyToCache_spec {kc kc' : Keychain} {k : KeyRec} (h : kc.addKeyToCache k = .ok kc') :
    kc'.paths = kc.paths ∧ kc'.secrets = kc.secrets ∧ kc'.p2s = kc.p2s ∧
    ∃ hc hu, keyHash160 k true = .ok hc ∧ keyHash160 k false = .ok hu ∧
      kc'.cache = kc.cache ++ [(hc, ⟨k.secret, k.x, k.y, true⟩), (hu, ⟨k.secret, k.x, k.y, false⟩)] := by
  unfold Keychain.addKeyToCache at h
  split at h
  · rename_i hc hu e1 e2
    cases h
    exact ⟨rfl, rfl, rfl, hc, hu, e1, e2, rfl⟩
  · cases h
  · cases h

/-- the derivation loop only appends to the cache -/
theorem cacheDerived_spec (derive : KeyRec → String → Option KeyRec) (fp : Bytes) (path : String) :
    ∀ (secs : List KeyRec) (kc kc' : Keychain), Keychain.cacheDerived derive fp path secs kc = .ok kc' →
      kc'.paths = kc.paths ∧ kc'.secrets = kc.secrets ∧ kc'.p2s = kc.p2s ∧ ∃ extra, kc'.cache = kc.cache ++ extra := by
  intro secs
  induction secs with
  | nil => intro kc kc' h; simp [Keychain.cacheDerived] at h; subst h; exact ⟨rfl, rfl, rfl, [], by simp⟩
  | cons k r ih =>
    intro kc kc' h
    simp only [Keychain.cacheDerived] at h
    split at h
    · split at h
      · cases h
      · split at h
        · cases h
        · rename_i sub _ kc1 hadd
          obtain ⟨a1, a2, a3, hc, hu, _, _, a4⟩ := addKeyToCache_spec hadd
          obtain ⟨b1, b2, b3, extra, b4⟩ := ih _ _ h
          exact ⟨b1.trans a1, b2.trans a2, b3.trans a3, _, by rw [b4, a4, List.append_assoc]⟩
    · exact ih _ _ h

/-- a secret with the registered fingerprint whose sub-key hashes to `h` makes the loop put `h` into the cache -/
theorem cacheDerived_hit (derive : KeyRec → String → Option KeyRec) (fp : Bytes) (path : String) (h : Bytes)
    (k sub : KeyRec) (hfp : k.fingerprint = fp) (hd : derive k path = some sub)
    (hh : keyHash160 sub true = .ok h ∨ keyHash160 sub false = .ok h) :
    ∀ (secs : List KeyRec) (kc kc' : Keychain), k ∈ secs → Keychain.cacheDerived derive fp path secs kc = .ok kc' →
      (assocGet h kc'.cache).isSome = true := by
  intro secs
  induction secs with
  | nil => intro kc kc' hm; simp at hm
  | cons a r ih =>
    intro kc kc' hm hrun
    simp only [Keychain.cacheDerived] at hrun
    by_cases ha : a = k
    · subst ha
      rw [if_pos hfp, hd] at hrun
      simp only at hrun
      split at hrun
      · cases hrun
      · rename_i kc1 hadd
        obtain ⟨_, _, _, hc, hu, e1, e2, a4⟩ := addKeyToCache_spec hadd
        obtain ⟨_, _, _, extra, b4⟩ := cacheDerived_spec derive fp path r kc1 kc' hrun
        rw [b4]
        apply assocGet_isSome_append
        rw [a4]
        rw [hd] at *
        rcases hh with hh | hh
        · rw [hh] at e1; cases e1
          exact assocGet_isSome_of_mem h ⟨sub.secret, sub.x, sub.y, true⟩ _ (by simp)
        · rw [hh] at e2; cases e2
          exact assocGet_isSome_of_mem h ⟨sub.secret, sub.x, sub.y, false⟩ _ (by simp)
    · have hm' : k ∈ r := by
        rcases List.mem_cons.mp hm with h1 | h1
        · exact absurd h1.symm ha
        · exact h1
      split at hrun
      · split at hrun
        · cases hrun
        · split at hrun
          · cases hrun
          · exact ih _ _ hm' hrun
      · exact ih _ _ hm' hrun

end Pycoin.Sign
