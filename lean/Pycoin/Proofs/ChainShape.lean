import Pycoin.Proofs.ChainFull
/-! what `add_headers` and `lock_to_index` do to the fields, call by call (core Lean only) -/
namespace Pycoin.Chain

/-- `add_headers`: `weight_lookup` is what the generator wrote, the finder is the old one after `load_nodes` of what
the generator yielded; the locked part and the anchor are untouched -/
theorem addHeaders_shape (rev : Bool) (rank : List Nat) (bc bc' : BC) (c : List Nat) (batch : List Header)
    (ops : List Op) (hcur : curChain bc c) (hr : bc.addHeaders rev rank batch = .ok (ops, bc')) :
    bc'.weight = (feed bc.h2i bc.locked.length bc.weight batch).1 ∧
    bc.finder.loadNodes rev rank (feed bc.h2i bc.locked.length bc.weight batch).2 = .ok bc'.finder ∧
    bc'.locked = bc.locked ∧ bc'.parentHash = bc.parentHash := by
  unfold BC.addHeaders at hr
  obtain ⟨⟨old, bc1⟩, h1, hr⟩ := bind_ok hr
  have e1 := h1.symm.trans (longest_of_cur rev bc c hcur)
  simp only [Except.ok.injEq, Prod.mk.injEq] at e1
  obtain ⟨e1a, e1b⟩ := e1
  subst e1b
  try simp only at hr
  obtain ⟨finder', h2, hr⟩ := bind_ok hr
  try simp only at hr
  obtain ⟨⟨new, bc3⟩, h3, hr⟩ := bind_ok hr
  try simp only at hr
  obtain ⟨⟨oldPath, newPath⟩, h4, hr⟩ := bind_ok hr
  try simp only at hr
  unfold BC.longest at h3
  try simp only at h3
  obtain ⟨chains, h3a, h3⟩ := bind_ok h3
  simp only [Except.ok.injEq, Prod.mk.injEq] at h3
  obtain ⟨_, rfl⟩ := h3
  unfold BC.emitOps at hr
  obtain ⟨⟨rops, m1⟩, h5, hr⟩ := bind_ok hr
  try simp only at hr
  simp only [Except.ok.injEq, Prod.mk.injEq] at hr
  obtain ⟨_, rfl⟩ := hr
  exact ⟨rfl, h2, rfl, rfl⟩

/-- `lock_to_index(index)`: nothing but the cache when `index` does not exceed the locked length; otherwise the
first `k = index - locked_length` blocks of the reported unlocked chain move to `_locked_chain` (these items are what
`did_lock_to_index_f` receives, with the old locked length), the finder is rebuilt from the old trees without them,
`weight_lookup` and `hash_to_index_lookup` are untouched -/
theorem lockToIndex_shape (rev : Bool) (rank : List Nat) (bc bc' : BC) (c : List Nat)
    (index : Nat) (cb : Option (List Item × Nat)) (hcur : curChain bc c)
    (hr : bc.lockToIndex rev rank index = .ok (cb, bc')) :
    (index ≤ bc.locked.length ∧ cb = none ∧ bc'.locked = bc.locked ∧ bc'.finder = bc.finder ∧
      bc'.weight = bc.weight ∧ bc'.parentHash = bc.parentHash ∧ bc'.h2i = bc.h2i ∧ bc'.cache = some c) ∨
    (bc.locked.length < index ∧ index - bc.locked.length ≤ c.length ∧
      cb = some (mkItems bc.weight bc.parentHash (c.reverse.take (index - bc.locked.length)), bc.locked.length) ∧
      bc'.locked = bc.locked ++ mkItems bc.weight bc.parentHash (c.reverse.take (index - bc.locked.length)) ∧
      CF.empty.loadNodes rev rank (lockNodes bc.finder.parent (bc.finder.trees.map (·.2))
        (c.reverse.take (index - bc.locked.length)).reverse) = .ok bc'.finder ∧
      bc'.weight = bc.weight ∧
      bc'.parentHash = (c.reverse.take (index - bc.locked.length)).getLastD bc.parentHash ∧ bc'.h2i = bc.h2i ∧
      bc'.cache = some (c.take (c.length - (index - bc.locked.length)))) := by
  unfold BC.lockToIndex at hr
  obtain ⟨⟨old, bc1⟩, h1, hr⟩ := bind_ok hr
  have e1 := h1.symm.trans (longest_of_cur rev bc c hcur)
  simp only [Except.ok.injEq, Prod.mk.injEq] at e1
  obtain ⟨e1a, e1b⟩ := e1
  subst e1b
  have e1a' := e1a.symm
  subst e1a'
  try simp only at hr
  split at hr
  · rename_i hidx
    simp only [Except.ok.injEq, Prod.mk.injEq] at hr
    obtain ⟨rfl, rfl⟩ := hr
    exact Or.inl ⟨hidx, rfl, rfl, rfl, rfl, rfl, rfl, rfl⟩
  · rename_i hidx
    split at hr
    · cases hr
    · rename_i hk
      obtain ⟨finder', h2, hr⟩ := bind_ok hr
      simp only [Except.ok.injEq, Prod.mk.injEq] at hr
      obtain ⟨rfl, rfl⟩ := hr
      exact Or.inr ⟨by omega, by omega, rfl, rfl, h2, rfl, rfl, rfl, rfl⟩

end Pycoin.Chain
