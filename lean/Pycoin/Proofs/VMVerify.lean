import Mathlib.Tactic.SplitIfs
import Pycoin.Proofs.VMPushOnly
import Pycoin.Model.VM.Verify
/-!
`check_solution` (SolutionChecker / P2SChecker / SegwitChecker) against `VerifyScript`, part 1: the specification written
with the pure `evalScript` (`verifyP`), P2SH and witness-program detection, canonical pushes, one loop pass
(`runStage_spec`), `VerifyWitnessProgram` (v0 20/32-byte rules, 520-byte item limit, upgradable versions), and the end
of the pipeline (`witnessTail_spec`: malleation rules, the witness VM, CLEANSTACK, WITNESS_UNEXPECTED).
-/
namespace Pycoin.VM
open Pycoin.Spec Pycoin.Gen.VM CondStack Consensus

abbrev SChk := Bytes → Bytes → Bytes → SigVersion → Bool

/-- `VerifyWitnessProgram` with a pure checker -/
def specWitness (chk : SChk) (witness : List Bytes) (v : Nat) (prog : Bytes) (F : Flags) (tx : Consensus.TxCtx) : Option ScriptError :=
  Id.run (verifyWitnessProgramM (m := Id) (fun a b c d => pure (chk a b c d)) witness v prog F tx)

def truthy (stack : List Bytes) : Bool := match stack with | [] => false | top :: _ => castToBool top

/-- `VerifyScript` written out with the pure `evalScript` -/
def verifyP (chk : SChk) (scriptSig spk : Bytes) (witness : List Bytes) (F : Flags) (tx : Consensus.TxCtx) : Option ScriptError :=
  if F.sigpushonly && !isPushOnly scriptSig then some .SIG_PUSHONLY else
  match Consensus.evalScript chk [] scriptSig F tx .base with
  | .error e => some e
  | .ok stackCopy =>
  match Consensus.evalScript chk stackCopy spk F tx .base with
  | .error e => some e
  | .ok stack =>
  if !truthy stack then some .EVAL_FALSE else
  let bare : Except ScriptError (Bool × List Bytes) :=
    match (if F.witness then isWitnessProgram spk else none) with
    | some (v, prog) =>
      if !scriptSig.isEmpty then .error .WITNESS_MALLEATED else
      match specWitness chk witness v prog F tx with
      | some e => .error e
      | none => .ok (true, stack.take 1)
    | none => .ok (false, stack)
  match bare with
  | .error e => some e
  | .ok (hadWitness, stack) =>
  let p2sh : Except ScriptError (Bool × List Bytes) :=
    if F.p2sh && Consensus.isPayToScriptHash spk then
      if !isPushOnly scriptSig then .error .SIG_PUSHONLY else
      match stackCopy with
      | [] => .error .UNKNOWN_ERROR
      | redeem :: stack2 =>
        match Consensus.evalScript chk stack2 redeem F tx .base with
        | .error e => .error e
        | .ok stack3 =>
        if !truthy stack3 then .error .EVAL_FALSE else
        match (if F.witness then isWitnessProgram redeem else none) with
        | some (v, prog) =>
          if scriptSig != pushData redeem then .error .WITNESS_MALLEATED_P2SH else
          match specWitness chk witness v prog F tx with
          | some e => .error e
          | none => .ok (true, stack3.take 1)
        | none => .ok (hadWitness, stack3)
    else .ok (hadWitness, stack)
  match p2sh with
  | .error e => some e
  | .ok (hadWitness, stack) =>
  if F.cleanstack && stack.length != 1 then some .CLEANSTACK
  else if F.witness && !hadWitness && !witness.isEmpty then some .WITNESS_UNEXPECTED
  else none

theorem verifyScript_eq (chk : SChk) (scriptSig spk : Bytes) (witness : List Bytes) (F : Flags) (tx : Consensus.TxCtx) :
    verifyScript chk scriptSig spk witness F tx = verifyP chk scriptSig spk witness F tx := by
  unfold verifyScript verifyScriptM verifyP Consensus.evalScript specWitness truthy
  simp only [Id.run, bind, pure]
  rfl

/-! ### detection of P2SH and witness programs, canonical pushes -/

theorem isP2SH_eq (spk : Bytes) : isPayToScriptHash spk = Consensus.isPayToScriptHash spk := by
  unfold isPayToScriptHash Consensus.isPayToScriptHash
  by_cases hl : spk.length = 23
  · have h22 : spk.getLast? = spk[22]? := by
      rw [List.getLast?_eq_getElem?, hl]
    have h0 : spk.head? = spk[0]? := by cases spk <;> simp
    simp only [hl, h22, h0, p2s_OP_HASH160, p2s_OP_EQUAL]
    rfl
  · have : (spk.length == 23) = false := by simpa using hl
    simp [this]

theorem witnessProgram_eq (s : Bytes) :
    isWitnessProgram s = (witnessProgramVersion s).map (fun v => (v, s.drop 2)) := by
  unfold isWitnessProgram witnessProgramVersion
  by_cases hl : (decide (s.length < 4) || decide (s.length > 42)) = true
  · simp [hl]
  simp only [hl, Bool.false_eq_true, if_false]
  rcases s with _ | ⟨v, _ | ⟨l, prog⟩⟩
  · rfl
  · rfl
  simp only [segwit_OP_0, segwit_OP_1, segwit_OP_16, OP_0, OP_1, OP_16, List.drop_succ_cons, List.drop_zero]
  by_cases h1 : l.toNat + 2 = (v :: l :: prog).length
  · have h1' : (l.toNat + 2 == (v :: l :: prog).length) = true := by simpa using h1
    simp only [h1, h1', ne_eq, not_true_eq_false, if_false, if_true]
    by_cases h0 : v.toNat = 0
    · simp [h0]
    · have h0' : (v.toNat == 0) = false := by simpa using h0
      have h0'' : (v.toNat != 0) = true := by simpa using h0
      simp only [h0, h0', h0'', Bool.true_and, if_false, Bool.false_eq_true]
      by_cases hr : 81 ≤ v.toNat ∧ v.toNat ≤ 96
      · have a1 : ¬ v.toNat < 81 := by omega
        have a2 : ¬ 96 < v.toNat := by omega
        have e : v.toNat - (81 - 1) = v.toNat - 81 + 1 := by omega
        simp [a1, a2, hr.1, hr.2, e]
      · rcases Nat.lt_or_ge v.toNat 81 with a | a
        · have b : ¬ 81 ≤ v.toNat := by omega
          simp [a, b]
        · have a2 : 96 < v.toNat := by omega
          have b : ¬ v.toNat ≤ 96 := by omega
          simp [a2, b]
  · have h1' : (l.toNat + 2 == (v :: l :: prog).length) = false := by simpa using h1
    simp only [h1, h1', ne_eq, not_false_eq_true, if_true, Bool.false_eq_true, if_false]
    split_ifs <;> rfl

variable (chk : Bytes → Bytes → Bytes → Bool → Bool)

abbrev specTx (t : TxCtx) : Consensus.TxCtx := ⟨t.version, t.lockTime, t.sequence⟩

/-- the VM `cfg` run on `stack` gives Core's verdict and, on success, Core's final stack -/
def EvalAgree (cfg : Config) (stack : List Bytes) : Prop :=
  (evalScript (stdEnv chk) cfg stack).toOption.map (·.stack) =
    (Consensus.evalScript (specChk chk) stack cfg.script (Flags.ofBits cfg.flags)
      ⟨cfg.ctx.version, cfg.ctx.lockTime, cfg.ctx.sequence⟩ (if cfg.witness then .witnessV0 else .base)).toOption

/-- one pass of the loop of `check_solution` (run the VM, truth test) against `EvalScript` + the truth test -/
theorem runStage_agree (c : SolCtx) (stg : Stage)
    (he : EvalAgree chk ⟨stg.puzzle, c.tx, stg.flags, stg.witness⟩ stg.solutionStackPy.reverse) :
    (runStage (stdEnv chk) c stg).toOption =
      (Consensus.evalScript (specChk chk) stg.solutionStackPy.reverse stg.puzzle (Flags.ofBits stg.flags) (specTx c.tx)
        (if stg.witness then .witnessV0 else .base)).toOption.bind
        (fun stk => if truthy stk then some stk.reverse else none) := by
  unfold EvalAgree at he
  simp only at he
  unfold runStage
  rw [← he]
  cases hr : evalScript (stdEnv chk) ⟨stg.puzzle, c.tx, stg.flags, stg.witness⟩ stg.solutionStackPy.reverse with
  | error e => rfl
  | ok s =>
    simp only [bind, Except.bind, Except.toOption, Option.map, Option.bind]
    cases hs : s.stack with
    | nil => simp [truthy, Except.toOption]
    | cons top rest =>
      simp only [boolFromScriptBytes_false, truthy, pure, Except.pure]
      by_cases hc : castToBool top = true <;> simp [hc]

theorem runStage_spec (hchk : ChkWF chk) (c : SolCtx) (stg : Stage)
    (hw : hasFlag stg.flags VERIFY_MINIMALIF = true → stg.witness = true)
    (hwp : hasFlag stg.flags VERIFY_WITNESS_PUBKEYTYPE = true → stg.witness = true)
    (hdel : SigDelShared chk ⟨stg.puzzle, c.tx, stg.flags, stg.witness⟩ stg.solutionStackPy.reverse) :
    (runStage (stdEnv chk) c stg).toOption =
      (Consensus.evalScript (specChk chk) stg.solutionStackPy.reverse stg.puzzle (Flags.ofBits stg.flags) (specTx c.tx)
        (if stg.witness then .witnessV0 else .base)).toOption.bind
        (fun stk => if truthy stk then some stk.reverse else none) :=
  runStage_agree chk c stg
    (evalScript_eq_all chk ⟨stg.puzzle, c.tx, stg.flags, stg.witness⟩ hw hwp hchk stg.solutionStackPy.reverse hdel)

/-! ### the witness program -/

/-- the inner `run` of `VerifyWitnessProgram`: item sizes, evaluation in witness-v0 mode, exactly one true item -/
def witRun (chk : SChk) (stack : List Bytes) (spk : Bytes) (F : Flags) (tx : Consensus.TxCtx) : Option ScriptError :=
  if stack.any (fun it => it.length > MAX_SCRIPT_ELEMENT_SIZE) then some .PUSH_SIZE else
  match Consensus.evalScript chk stack spk F tx .witnessV0 with
  | .error e => some e
  | .ok out =>
    match out with
    | [top] => if castToBool top then none else some .EVAL_FALSE
    | _ => some .EVAL_FALSE

def p2wpkhScript (program : Bytes) : Bytes :=
  [UInt8.ofNat OP_DUP, UInt8.ofNat OP_HASH160] ++ pushData program ++ [UInt8.ofNat OP_EQUALVERIFY, UInt8.ofNat OP_CHECKSIG]

theorem specWitness_eq (chk : SChk) (witness : List Bytes) (v : Nat) (prog : Bytes) (F : Flags) (tx : Consensus.TxCtx) :
    specWitness chk witness v prog F tx =
      if v == 0 then
        if prog.length == WITNESS_V0_SCRIPTHASH_SIZE then
          match witness.reverse with
          | [] => some .WITNESS_PROGRAM_WITNESS_EMPTY
          | spk :: stack => if Hash.sha256 spk != prog then some .WITNESS_PROGRAM_MISMATCH else witRun chk stack spk F tx
        else if prog.length == WITNESS_V0_KEYHASH_SIZE then
          if witness.length != 2 then some .WITNESS_PROGRAM_MISMATCH else witRun chk witness.reverse (p2wpkhScript prog) F tx
        else some .WITNESS_PROGRAM_WRONG_LENGTH
      else if F.discourageUpgradableWitnessProgram then some .DISCOURAGE_UPGRADABLE_WITNESS_PROGRAM
      else none := by
  unfold specWitness verifyWitnessProgramM witRun p2wpkhScript Consensus.evalScript
  simp only [Id.run, bind, pure]
  rfl

/-- what `VerifyScript` still does once the script to look at (`puzzle`: the scriptPubKey, or the redeem script) is
known: witness program or not, malleation rule, `VerifyWitnessProgram`, CLEANSTACK, WITNESS_UNEXPECTED -/
def specTail (chk : SChk) (scriptSig : Bytes) (witness : List Bytes) (F : Flags) (tx : Consensus.TxCtx) (puzzle : Bytes)
    (isP2sh : Bool) (n : Nat) : Option ScriptError :=
  match (if F.witness then isWitnessProgram puzzle else none) with
  | some (v, prog) =>
    if (if isP2sh then scriptSig != pushData puzzle else !scriptSig.isEmpty) then
      some (if isP2sh then .WITNESS_MALLEATED_P2SH else .WITNESS_MALLEATED)
    else specWitness chk witness v prog F tx
  | none =>
    if F.cleanstack && n != 1 then some .CLEANSTACK
    else if F.witness && !witness.isEmpty then some .WITNESS_UNEXPECTED
    else none

theorem flag_witness (n : Nat) : hasFlag n VERIFY_WITNESS = (Flags.ofBits n).witness := hasFlag_pow n 11
theorem flag_cleanstack (n : Nat) : hasFlag n VERIFY_CLEANSTACK = (Flags.ofBits n).cleanstack := hasFlag_pow n 8
theorem flag_p2sh (n : Nat) : hasFlag n VERIFY_P2SH = (Flags.ofBits n).p2sh := hasFlag_pow n 0
theorem flag_sigpushonly (n : Nat) : hasFlag n VERIFY_SIGPUSHONLY = (Flags.ofBits n).sigpushonly := hasFlag_pow n 5
theorem flag_duwp (n : Nat) :
    hasFlag n VERIFY_DISCOURAGE_UPGRADABLE_WITNESS_PROGRAM = (Flags.ofBits n).discourageUpgradableWitnessProgram := hasFlag_pow n 12


theorem hasFlag_or_self (n m : Nat) (hm : m ≠ 0) : hasFlag (n ||| m) m = true := by
  unfold hasFlag
  have : (n ||| m) &&& m = m := by
    apply Nat.eq_of_testBit_eq; intro i
    simp only [Nat.testBit_and, Nat.testBit_or]
    cases n.testBit i <;> cases m.testBit i <;> rfl
  rw [this]
  simpa using hm

/-! ### `check_solution` written out (every `do` block as explicit matches), phase by phase -/

/-- the CLEANSTACK rule at the end of `check_solution` -/
def cleanCheck (fl : Nat) (out : List Bytes) : M Unit :=
  if (hasFlag fl VERIFY_CLEANSTACK && decide (out.length ≠ 1)) = true then .error (scriptErr errno_CLEANSTACK) else .ok ()

/-- one loop pass for the tuple `st`, then the CLEANSTACK rule with its flags -/
def stageThenClean (env : Env) (c : SolCtx) (st : Stage) : M Unit :=
  match runStage env c st with
  | .error e => .error e
  | .ok v => cleanCheck st.flags v

/-- what follows `witness_program_tuple` -/
def tailOf (env : Env) (c : SolCtx) (lastFlags : Nat) (stackPy : List Bytes) (r : M (Option Stage)) : M Unit :=
  match r with
  | .error e => .error e
  | .ok (some st) => stageThenClean env c st
  | .ok none => cleanCheck lastFlags stackPy

def witnessTail (env : Env) (c : SolCtx) (puzzle : Bytes) (flags : Nat) (isP2sh : Bool) (lastFlags : Nat) (stackPy : List Bytes) :
    M Unit :=
  tailOf env c lastFlags stackPy (witnessProgramTuple env c puzzle flags isP2sh)

/-- version 0 of `witness_program_tuple` -/
def wpt0 (env : Env) (c : SolCtx) (program : Bytes) (flags : Nat) : M (Option Stage) :=
  match checkWitnessProgramV0 env c.witnessPy program with
  | .error e => .error e
  | .ok (stackPy, puzzle) =>
    if stackPy.any (fun s => s.length > MAX_BLOB_LENGTH) then .error (scriptErr errno_PUSH_SIZE)
    else .ok (some ⟨puzzle, stackPy, flags ||| VERIFY_CLEANSTACK, true⟩)

def wptV (env : Env) (c : SolCtx) (flags version : Nat) (program : Bytes) : M (Option Stage) :=
  if version = 0 then wpt0 env c program flags
  else if hasFlag flags VERIFY_DISCOURAGE_UPGRADABLE_WITNESS_PROGRAM then
    .error (scriptErr errno_DISCOURAGE_UPGRADABLE_WITNESS_PROGRAM)
  else .ok (some ⟨op1Script, [], flags, true⟩)

def wpt (env : Env) (c : SolCtx) (puzzle : Bytes) (flags : Nat) (isP2sh : Bool) : M (Option Stage) :=
  if !hasFlag flags VERIFY_WITNESS then .ok none else
  match witnessProgramVersion puzzle with
  | none => if c.witnessPy.length > 0 then .error (scriptErr errno_WITNESS_UNEXPECTED) else .ok none
  | some version =>
    match (if isP2sh then compilePushData puzzle else .ok []) with
    | .error e => .error e
    | .ok expected =>
      if c.solutionScript ≠ expected then
        .error (scriptErr (if isP2sh then errno_WITNESS_MALLEATED_P2SH else errno_WITNESS_MALLEATED))
      else wptV env c flags version (puzzle.drop 2)

theorem wpt_eq (env : Env) (c : SolCtx) (puzzle : Bytes) (flags : Nat) (isP2sh : Bool) :
    witnessProgramTuple env c puzzle flags isP2sh = wpt env c puzzle flags isP2sh := by
  unfold witnessProgramTuple wpt wptV wpt0
  simp only [bind, Except.bind, pure, Except.pure]
  by_cases hw : (!hasFlag flags VERIFY_WITNESS) = true
  · simp only [hw, if_true]
  simp only [hw, Bool.false_eq_true, if_false]
  cases witnessProgramVersion puzzle with
  | none => simp only []
  | some v =>
    simp only []
    cases isP2sh
    · simp only [Bool.false_eq_true, if_false]
      split_ifs
      · rfl
      · cases checkWitnessProgramV0 env c.witnessPy (List.drop 2 puzzle) with
        | error e => rfl
        | ok p => obtain ⟨a, b⟩ := p; simp only []
      · rfl
      · rfl
    · simp only [if_true]
      cases compilePushData puzzle with
      | error e => rfl
      | ok ex =>
        simp only []
        split_ifs
        · rfl
        · cases checkWitnessProgramV0 env c.witnessPy (List.drop 2 puzzle) with
          | error e => rfl
          | ok p => obtain ⟨a, b⟩ := p; simp only []
        · rfl
        · rfl

variable (chk : Bytes → Bytes → Bytes → Bool → Bool)

theorem cleanCheck_isSome (fl : Nat) (out : List Bytes) :
    (cleanCheck fl out).toOption.isSome = !(hasFlag fl VERIFY_CLEANSTACK && out.length != 1) := by
  unfold cleanCheck
  cases hasFlag fl VERIFY_CLEANSTACK <;> by_cases h : out.length = 1 <;> simp [h, Except.toOption]

/-- Core's verdict on the outcome of a witness-v0 evaluation: exactly one true item -/
def oneTrue (r : Res (List Bytes)) : Bool :=
  match r with
  | .error _ => false
  | .ok out => match out with | [top] => castToBool top | _ => false

/-- a witness-v0 VM run by `check_solution` (flags ∪ CLEANSTACK, BIP143 closure), then the CLEANSTACK rule:
succeeds exactly when Core's `run` finds exactly one true item -/
theorem stage_witness (hchk : ChkWF chk) (c : SolCtx) (flags : Nat) (puzzle : Bytes) (stackPy : List Bytes) :
    (stageThenClean (stdEnv chk) c ⟨puzzle, stackPy, flags ||| VERIFY_CLEANSTACK, true⟩).toOption.isSome =
      oneTrue (Consensus.evalScript (specChk chk) stackPy.reverse puzzle (Flags.ofBits flags) (specTx c.tx) .witnessV0) := by
  have hs := runStage_spec chk hchk c ⟨puzzle, stackPy, flags ||| VERIFY_CLEANSTACK, true⟩ (fun _ => rfl) (fun _ => rfl)
    (sigDelShared_witness chk _ rfl _)
  simp only [if_true] at hs
  rw [evalScript_congr (specChk chk) _ _ _ (Flags.ofBits flags) _ _ (evalPart_cleanstack flags)] at hs
  unfold stageThenClean
  cases hr : runStage (stdEnv chk) c ⟨puzzle, stackPy, flags ||| VERIFY_CLEANSTACK, true⟩ with
  | error e =>
    rw [hr] at hs
    cases he : Consensus.evalScript (specChk chk) stackPy.reverse puzzle (Flags.ofBits flags) (specTx c.tx) .witnessV0 with
    | error e' => rfl
    | ok out =>
      rw [he] at hs
      simp only [Except.toOption, Option.bind] at hs
      rcases out with _ | ⟨top, _ | ⟨b, r⟩⟩
      · rfl
      · simp only [truthy] at hs
        by_cases hc : castToBool top = true
        · simp [hc] at hs
        · simp [hc, oneTrue, Except.toOption]
      · rfl
  | ok v =>
    rw [hr] at hs
    simp only [cleanCheck_isSome, hasFlag_or_self flags VERIFY_CLEANSTACK (by decide), Bool.true_and]
    cases he : Consensus.evalScript (specChk chk) stackPy.reverse puzzle (Flags.ofBits flags) (specTx c.tx) .witnessV0 with
    | error e' => rw [he] at hs; simp [Except.toOption] at hs
    | ok out =>
      rw [he] at hs
      simp only [Except.toOption, Option.bind] at hs
      by_cases ht : truthy out = true
      · simp only [ht, if_true, Option.some.injEq] at hs
        subst hs
        rcases out with _ | ⟨top, _ | ⟨b, r⟩⟩
        · simp [truthy] at ht
        · simp only [truthy] at ht
          simp [ht, oneTrue]
        · simp [oneTrue]
      · simp [ht] at hs

/-- the `OP_1` VM of an undefined witness version always passes -/
theorem stage_op1 (hchk : ChkWF chk) (c : SolCtx) (flags : Nat) :
    (stageThenClean (stdEnv chk) c ⟨op1Script, [], flags, true⟩).toOption.isSome = true := by
  have hs := runStage_spec chk hchk c ⟨op1Script, [], flags, true⟩ (fun _ => rfl) (fun _ => rfl)
    (sigDelShared_witness chk _ rfl _)
  simp only [if_true, List.reverse_nil] at hs
  have h1 : Consensus.evalScript (specChk chk) [] op1Script (Flags.ofBits flags) (specTx c.tx) .witnessV0 = .ok [[1]] :=
    spec_op1 _ _ _
  rw [h1] at hs
  have : truthy [[1]] = true := by decide
  simp only [Except.toOption, Option.bind, this, if_true] at hs
  unfold stageThenClean
  cases hr : runStage (stdEnv chk) c ⟨op1Script, [], flags, true⟩ with
  | error e => rw [hr] at hs; cases hs
  | ok v =>
    rw [hr] at hs
    simp only [Option.some.injEq] at hs
    subst hs
    simp [cleanCheck_isSome]

theorem witRun_isNone (sc : SChk) (stack : List Bytes) (spk : Bytes) (F : Flags) (tx : Consensus.TxCtx) :
    (witRun sc stack spk F tx).isNone =
      (!stack.any (fun it => decide (it.length > MAX_SCRIPT_ELEMENT_SIZE)) &&
        oneTrue (Consensus.evalScript sc stack spk F tx .witnessV0)) := by
  unfold witRun oneTrue
  cases stack.any (fun it => decide (it.length > MAX_SCRIPT_ELEMENT_SIZE))
  · simp only [Bool.false_eq_true, if_false, Bool.not_false, Bool.true_and]
    cases Consensus.evalScript sc stack spk F tx .witnessV0 with
    | error e => rfl
    | ok out =>
      rcases out with _ | ⟨top, _ | ⟨b, r⟩⟩
      · rfl
      · simp only []; cases castToBool top <;> rfl
      · rfl
  · rfl

theorem p2wpkh_script (program : Bytes) (h : program.length = 20) :
    segwitV0Len20Prefix ++ pushData program ++ segwitV0Len20Postfix = p2wpkhScript program := by
  unfold p2wpkhScript segwitV0Len20Prefix segwitV0Len20Postfix
  rfl

/-- `_check_witness_program_v0` + the 520-byte item rule + the witness VM + CLEANSTACK = `VerifyWitnessProgram` (v0) -/
theorem wpt0_spec (hchk : ChkWF chk) (c : SolCtx) (program : Bytes) (flags lf : Nat) (sp : List Bytes) :
    (tailOf (stdEnv chk) c lf sp (wpt0 (stdEnv chk) c program flags)).toOption.isSome =
      (specWitness (specChk chk) c.witnessPy 0 program (Flags.ofBits flags) (specTx c.tx)).isNone := by
  rw [specWitness_eq]
  simp only [beq_self_eq_true, if_true, WITNESS_V0_SCRIPTHASH_SIZE, WITNESS_V0_KEYHASH_SIZE]
  unfold wpt0 checkWitnessProgramV0
  have hany : ∀ l : List Bytes, (l.any fun s => decide (s.length > MAX_BLOB_LENGTH)) =
      (l.reverse.any fun it => decide (it.length > MAX_SCRIPT_ELEMENT_SIZE)) := by
    intro l; rw [List.any_reverse]; rfl
  by_cases h32 : program.length = 32
  · have h32' : (program.length == 32) = true := by simpa using h32
    simp only [h32, beq_self_eq_true, if_true]
    rcases List.eq_nil_or_concat c.witnessPy with hnil | ⟨L, a, hcat⟩
    · simp [hnil, tailOf, Except.toOption]
    · have hl : c.witnessPy.getLast? = some a := by rw [hcat]; simp
      have hr : c.witnessPy.reverse = a :: L.reverse := by rw [hcat]; simp
      have hd : c.witnessPy.dropLast = L := by rw [hcat]; simp
      simp only [hl, hr, hd, stdEnv]
      by_cases hsha : Hash.sha256 a = program
      · have : (Hash.sha256 a != program) = false := by simp [hsha]
        simp only [hsha, ne_eq, not_true_eq_false, if_false, bne_self_eq_false, Bool.false_eq_true, pure, Except.pure,
          witRun_isNone, hany L]
        cases hbig : (L.reverse.any fun it => decide (it.length > MAX_SCRIPT_ELEMENT_SIZE))
        · simp only [Bool.false_eq_true, if_false, tailOf, Bool.not_false, Bool.true_and]
          exact stage_witness chk hchk c flags a L
        · simp [tailOf, Except.toOption]
      · have : (Hash.sha256 a != program) = true := by simp [hsha]
        simp [hsha, this, tailOf, Except.toOption]
  · have h32' : (program.length == 32) = false := by simpa using h32
    simp only [h32, h32', if_false, Bool.false_eq_true]
    by_cases h20 : program.length = 20
    · have h20' : (program.length == 20) = true := by simpa using h20
      simp only [h20, beq_self_eq_true, if_true]
      by_cases h2 : c.witnessPy.length = 2
      · have h2' : (c.witnessPy.length != 2) = false := by simp [h2]
        have hcp : compilePushData program = .ok (pushData program) := compilePushData_direct program (by omega) (by omega)
        simp only [h2, ne_eq, not_true_eq_false, if_false, bne_self_eq_false, Bool.false_eq_true, hcp, bind, Except.bind, pure,
          Except.pure, p2wpkh_script program h20, witRun_isNone, hany c.witnessPy]
        cases hbig : (c.witnessPy.reverse.any fun it => decide (it.length > MAX_SCRIPT_ELEMENT_SIZE))
        · simp only [Bool.false_eq_true, if_false, tailOf, Bool.not_false, Bool.true_and]
          exact stage_witness chk hchk c flags _ c.witnessPy
        · simp [tailOf, Except.toOption]
      · have h2' : (c.witnessPy.length != 2) = true := by simp [h2]
        simp [h2, h2', tailOf, Except.toOption]
    · have h20' : (program.length == 20) = false := by simpa using h20
      simp [h20, h20', tailOf, Except.toOption]

theorem wptV_spec (hchk : ChkWF chk) (c : SolCtx) (program : Bytes) (flags v lf : Nat) (sp : List Bytes) :
    (tailOf (stdEnv chk) c lf sp (wptV (stdEnv chk) c flags v program)).toOption.isSome =
      (specWitness (specChk chk) c.witnessPy v program (Flags.ofBits flags) (specTx c.tx)).isNone := by
  unfold wptV
  by_cases hv : v = 0
  · subst hv
    simp only [if_true]
    exact wpt0_spec chk hchk c program flags lf sp
  · have hv' : (v == 0) = false := by simpa using hv
    rw [specWitness_eq]
    simp only [hv, if_false, hv', Bool.false_eq_true, flag_duwp]
    cases (Flags.ofBits flags).discourageUpgradableWitnessProgram
    · simp only [Bool.false_eq_true, if_false, tailOf]
      exact stage_op1 chk hchk c flags
    · simp [tailOf, Except.toOption]

theorem wpv_len (puzzle : Bytes) (v : Nat) (h : witnessProgramVersion puzzle = some v) : 4 ≤ puzzle.length ∧ puzzle.length ≤ 42 := by
  unfold witnessProgramVersion at h
  by_cases hl : (decide (puzzle.length < 4) || decide (puzzle.length > 42)) = true
  · simp [hl] at h
  · have : ¬ (puzzle.length < 4 ∨ puzzle.length > 42) := by simpa using hl
    omega

/-- **the end of `check_solution`** against the end of `VerifyScript` -/
theorem witnessTail_spec (hchk : ChkWF chk) (c : SolCtx) (puzzle : Bytes) (flags : Nat) (isP2sh : Bool) (lastFlags : Nat)
    (stackPy : List Bytes) (hcl : hasFlag lastFlags VERIFY_CLEANSTACK = (Flags.ofBits flags).cleanstack) :
    (witnessTail (stdEnv chk) c puzzle flags isP2sh lastFlags stackPy).toOption.isSome =
      (specTail (specChk chk) c.solutionScript c.witnessPy (Flags.ofBits flags) (specTx c.tx) puzzle isP2sh stackPy.length).isNone := by
  unfold witnessTail specTail
  rw [wpt_eq, witnessProgram_eq]
  unfold wpt
  rw [flag_witness]
  cases hwf : (Flags.ofBits flags).witness
  · simp only [Bool.not_false, if_true, Bool.false_eq_true, if_false, tailOf, cleanCheck_isSome, hcl, Bool.false_and]
    cases ((Flags.ofBits flags).cleanstack && stackPy.length != 1) <;> rfl
  simp only [Bool.not_true, Bool.false_eq_true, if_false, if_true, Bool.true_and]
  cases hv : witnessProgramVersion puzzle with
  | none =>
    simp only [Option.map_none]
    by_cases hwn : c.witnessPy.length > 0
    · have : c.witnessPy.isEmpty = false := by cases h : c.witnessPy <;> simp_all
      simp only [hwn, if_true, this, Bool.not_false, tailOf]
      split_ifs <;> rfl
    · have : c.witnessPy.isEmpty = true := by cases h : c.witnessPy <;> simp_all
      simp only [hwn, if_false, this, Bool.not_true, Bool.false_eq_true, tailOf, cleanCheck_isSome, hcl]
      cases ((Flags.ofBits flags).cleanstack && stackPy.length != 1) <;> rfl
  | some v =>
    obtain ⟨hl4, hl42⟩ := wpv_len puzzle v hv
    have hcp : compilePushData puzzle = .ok (pushData puzzle) := compilePushData_direct puzzle (by omega) (by omega)
    simp only [Option.map_some]
    cases isP2sh
    · simp only [Bool.false_eq_true, if_false]
      by_cases hne : c.solutionScript = []
      · have : c.solutionScript.isEmpty = true := by rw [hne]; rfl
        simp only [hne, ne_eq, not_true_eq_false, if_false, List.isEmpty_nil, Bool.not_true, Bool.false_eq_true]
        exact wptV_spec chk hchk c _ flags v lastFlags stackPy
      · have : c.solutionScript.isEmpty = false := by cases h : c.solutionScript <;> simp_all
        simp [hne, this, tailOf, Except.toOption]
    · simp only [if_true, hcp]
      by_cases hne : c.solutionScript = pushData puzzle
      · have : (c.solutionScript != pushData puzzle) = false := by simp [hne]
        simp only [hne, ne_eq, not_true_eq_false, if_false, bne_self_eq_false, Bool.false_eq_true]
        exact wptV_spec chk hchk c _ flags v lastFlags stackPy
      · have : (c.solutionScript != pushData puzzle) = true := by simp [hne]
        simp [hne, this, tailOf, Except.toOption]
end Pycoin.VM
