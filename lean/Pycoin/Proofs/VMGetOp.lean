import Pycoin.Model.VM.Streamer
import Pycoin.Spec.ScriptParse
import Pycoin.Proofs.VMNum
/-!
pycoin's table-driven decoder (`ScriptStreamer.get_opcode` over the generated `decoderList`) against Core's
`GetScriptOp` + `CheckMinimalPush`.
-/
namespace Pycoin.VM
open Pycoin.Spec.Consensus Pycoin.Gen.VM

/-! ### the generated table, checked entry by entry against what the proofs need -/

def constVals : List Bytes := [[], [1], [2], [3], [4], [5], [6], [7], [8], [9], [10], [11], [12], [13], [14], [15], [16], [129]]
def sizedVals : List Nat := (List.range 76).tail

theorem tbl_zero : decoderList[0]? = some (.const []) := by decide +kernel
theorem tbl_sized : ∀ n, n < 76 → 1 ≤ n → decoderList[n]? = some (.sized n constVals) := by decide +kernel
theorem tbl_pd1 : decoderList[76]? = some (.variable 1 sizedVals 1) := by decide +kernel
theorem tbl_pd2 : decoderList[77]? = some (.variable 2 sizedVals 256) := by decide +kernel
theorem tbl_pd4 : decoderList[78]? = some (.variable 4 sizedVals 65536) := by decide +kernel
theorem tbl_neg : decoderList[79]? = some (.const [129]) := by decide +kernel
theorem tbl_num : ∀ n, n < 97 → 81 ≤ n → decoderList[n]? = some (.const [UInt8.ofNat (n - 80)]) := by decide +kernel
theorem tbl_none : ∀ n, n < 256 → (n = 80 ∨ 97 ≤ n) → decoderList[n]? = some .none := by decide +kernel

theorem constVals_short : ∀ c ∈ constVals, c.length ≤ 1 := by decide
theorem constVals_one : ∀ n, n < 256 →
    constVals.contains [UInt8.ofNat n] = ((1 ≤ n && n ≤ 16) || n == 129) := by decide +kernel
theorem sizedVals_mem (n : Nat) : sizedVals.contains n = (1 ≤ n && n ≤ 75) := by
  by_cases h : n < 80
  · revert n; decide +kernel
  · have : ¬ n ∈ sizedVals := by
      simp only [sizedVals]
      intro hm
      have := List.mem_of_mem_tail hm
      simp at this <;> omega
    have h2 : ¬ (n ≤ 75) := by omega
    simp [this, h2]

theorem numEnc_small : ∀ n : Nat, n < 97 → 81 ≤ n →
    scriptNumEncode (Int.ofNat n - Int.ofNat (OP_1 - 1)) = [UInt8.ofNat (n - 80)] := by decide +kernel
theorem numEnc_neg : scriptNumEncode (Int.ofNat 79 - Int.ofNat (OP_1 - 1)) = [129] := by decide +kernel

/-! ### lists -/

theorem drop_succ_of_drop {α} {l : List α} {n : Nat} {b : α} {tl : List α} (h : l.drop n = b :: tl) :
    l.drop (n + 1) = tl := by
  have : l.drop (n + 1) = (l.drop n).drop 1 := by rw [List.drop_drop]
  rw [this, h]; rfl

theorem getElem?_of_drop {α} {l : List α} {n : Nat} {b : α} {tl : List α} (h : l.drop n = b :: tl) : l[n]? = some b := by
  have : (l.drop n)[0]? = l[n + 0]? := List.getElem?_drop
  rw [h] at this
  simpa using this.symm

theorem slice_of_drop {script : Bytes} {pc : Nat} {b : UInt8} {tl : Bytes} (h : script.drop pc = b :: tl) (k n : Nat) :
    slice script (pc + 1 + k) (pc + 1 + k + n) = (tl.drop k).take n := by
  unfold slice
  have : script.drop (pc + 1 + k) = (script.drop (pc + 1)).drop k := by rw [List.drop_drop]
  rw [this, drop_succ_of_drop h, Nat.add_sub_cancel_left]

theorem hasAtLeast_iff (l : Bytes) (n : Nat) : hasAtLeast l n = decide (n ≤ l.length) := by
  unfold hasAtLeast
  cases n with
  | zero => simp
  | succ n =>
    simp only [Nat.add_one_ne_zero, beq_iff_eq, Nat.add_sub_cancel, Bool.false_or, Nat.succ_eq_add_one]
    by_cases h : n + 1 ≤ l.length
    · have : l.drop n ≠ [] := by
        intro hh; have := List.drop_eq_nil_iff.mp hh <;> omega
      cases hd : l.drop n with
      | nil => exact absurd hd this
      | cons => simp [h]
    · have : l.drop n = [] := List.drop_eq_nil_iff.mpr (by omega)
      simp [this, h]

/-! ### `GetScriptOp` by opcode class -/

theorem spec_direct (b : UInt8) (tl : Bytes) (hb : b.toNat < 76) :
    getScriptOp (b :: tl) =
      if b.toNat ≤ tl.length then some (b.toNat, tl.take b.toNat, tl.drop b.toNat, 1 + 0 + b.toNat) else none := by
  have h1 : b.toNat ≤ OP_PUSHDATA4 := by simp [OP_PUSHDATA4] <;> omega
  have h2 : b.toNat < OP_PUSHDATA1 := by simp [OP_PUSHDATA1] <;> omega
  simp only [getScriptOp, h1, h2, if_true, hasAtLeast_iff, Nat.zero_le, decide_true, Bool.not_true, Bool.false_eq_true,
    if_false, List.drop_zero]
  by_cases h : b.toNat ≤ tl.length <;> simp [h]

theorem spec_var (b : UInt8) (tl : Bytes) (k : Nat)
    (hb : (b.toNat = 76 ∧ k = 1) ∨ (b.toNat = 77 ∧ k = 2) ∨ (b.toNat = 78 ∧ k = 4)) (hk : k ≤ tl.length) :
    getScriptOp (b :: tl) =
      if leNat (tl.take k) ≤ (tl.drop k).length then
        some (b.toNat, (tl.drop k).take (leNat (tl.take k)), (tl.drop k).drop (leNat (tl.take k)), 1 + k + leNat (tl.take k))
      else none := by
  rcases hb with ⟨h, rfl⟩ | ⟨h, rfl⟩ | ⟨h, rfl⟩ <;>
  · simp [getScriptOp, h, OP_PUSHDATA4, OP_PUSHDATA1, OP_PUSHDATA2, hasAtLeast_iff, hk]
    split <;> split <;> first | rfl | omega

theorem spec_var_trunc (b : UInt8) (tl : Bytes) (k : Nat)
    (hb : (b.toNat = 76 ∧ k = 1) ∨ (b.toNat = 77 ∧ k = 2) ∨ (b.toNat = 78 ∧ k = 4)) (hk : ¬ k ≤ tl.length) :
    getScriptOp (b :: tl) = none := by
  rcases hb with ⟨h, rfl⟩ | ⟨h, rfl⟩ | ⟨h, rfl⟩ <;>
  · simp [getScriptOp, h, OP_PUSHDATA4, OP_PUSHDATA1, OP_PUSHDATA2, hasAtLeast_iff, hk]

theorem spec_other (b : UInt8) (tl : Bytes) (hb : 78 < b.toNat) : getScriptOp (b :: tl) = some (b.toNat, [], tl, 1) := by
  have h1 : ¬ b.toNat ≤ OP_PUSHDATA4 := by simp [OP_PUSHDATA4] <;> omega
  simp [getScriptOp, h1]

/-! ### `get_opcode` by decoder kind -/

theorem model_none {script : Bytes} {pc : Nat} {b : UInt8} {tl : Bytes} (h : script.drop pc = b :: tl) (vm : Bool)
    (hd : decoderList[b.toNat]? = some .none) :
    getOpcode script pc vm = .ok ⟨b.toNat, none, pc + 1, true⟩ := by
  unfold getOpcode
  rw [getElem?_of_drop h]
  simp only [hd]

theorem model_const {script : Bytes} {pc : Nat} {b : UInt8} {tl : Bytes} (h : script.drop pc = b :: tl) (vm : Bool)
    (d : Bytes) (hd : decoderList[b.toNat]? = some (.const d)) :
    getOpcode script pc vm = .ok ⟨b.toNat, some d, pc + 1, true⟩ := by
  unfold getOpcode
  rw [getElem?_of_drop h]
  simp only [hd, runDecoder]
  rfl

theorem model_sized {script : Bytes} {pc : Nat} {b : UInt8} {tl : Bytes} (h : script.drop pc = b :: tl) (vm : Bool)
    (cv : List Bytes) (hd : decoderList[b.toNat]? = some (.sized b.toNat cv)) :
    getOpcode script pc vm =
      if (tl.take b.toNat).length < b.toNat then .ok ⟨b.toNat, none, pc + 1 + 1, false⟩
      else if vm && cv.contains (tl.take b.toNat) then .error nonMinimal
      else .ok ⟨b.toNat, some (tl.take b.toNat), pc + 1 + b.toNat, true⟩ := by
  unfold getOpcode
  rw [getElem?_of_drop h]
  have hs := slice_of_drop h 0 b.toNat
  simp only [Nat.add_zero, List.drop_zero] at hs
  simp only [hd, runDecoder, hs]
  split
  · rfl
  · split <;> rfl

theorem model_var {script : Bytes} {pc : Nat} {b : UInt8} {tl : Bytes} (h : script.drop pc = b :: tl) (vm : Bool)
    (k : Nat) (sv : List Nat) (ms : Nat) (hd : decoderList[b.toNat]? = some (.variable k sv ms)) :
    getOpcode script pc vm =
      if ¬ k ≤ tl.length then .ok ⟨b.toNat, none, pc + 1 + 1, false⟩
      else if ((tl.drop k).take (leNat (tl.take k))).length < leNat (tl.take k) then .ok ⟨b.toNat, none, pc + 1 + k + 1, false⟩
      else if vm && (sv.contains (leNat (tl.take k)) || decide (leNat (tl.take k) < ms)) then .error nonMinimal
      else .ok ⟨b.toNat, some ((tl.drop k).take (leNat (tl.take k))), pc + 1 + k + leNat (tl.take k), true⟩ := by
  unfold getOpcode
  rw [getElem?_of_drop h]
  have hs := slice_of_drop h 0 k
  simp only [Nat.add_zero, List.drop_zero] at hs
  by_cases hk : k ≤ tl.length
  · have hl : (tl.take k).length = k := by simp [hk]
    simp only [hd, runDecoder, hs, hl, hk, ne_eq, not_true_eq_false, if_false]
    rw [slice_of_drop h k]
    split
    · rfl
    · split <;> rfl
  · have hl : (tl.take k).length ≠ k := by simp; omega
    simp only [hd, runDecoder, hs, hl, hk, ne_eq, not_false_eq_true, if_true]
    rfl

/-! ### minimal-push rule -/

theorem cmp_one (x : UInt8) (op : Nat) :
    checkMinimalPush [x] op = (!((1 ≤ x.toNat && x.toNat ≤ 16) || x.toNat == 129) && op == 1) := by
  have h81 : (x == 0x81) = (x.toNat == 129) := by
    have : ∀ n, n < 256 → ((UInt8.ofNat n == 0x81) = (n == 129)) := by decide +kernel
    have := this x.toNat x.toNat_lt; rwa [UInt8.ofNat_toNat] at this
  simp only [checkMinimalPush, h81]
  by_cases h1 : (1 ≤ x.toNat && x.toNat ≤ 16) = true
  · simp [h1]
  · by_cases h2 : (x.toNat == 129) = true
    · simp [h1, h2]
    · simp [h1, h2]

theorem cmp_long (a c : UInt8) (r : Bytes) (op : Nat) :
    checkMinimalPush (a :: c :: r) op =
      (let n := r.length + 2
       if n ≤ 75 then op == n else if n ≤ 255 then op == OP_PUSHDATA1 else if n ≤ 65535 then op == OP_PUSHDATA2 else true) := by
  simp [checkMinimalPush]

theorem cmp_direct (data : Bytes) (h1 : 1 ≤ data.length) (h2 : data.length ≤ 75) :
    constVals.contains data = !checkMinimalPush data data.length := by
  match data, h1, h2 with
  | [x], _, _ =>
    have := constVals_one x.toNat x.toNat_lt
    rw [UInt8.ofNat_toNat] at this
    rw [this, cmp_one]; simp
  | a :: c :: r, _, h2 =>
    have hn : ¬ (a :: c :: r) ∈ constVals := fun hm => by have := constVals_short _ hm; simp at this
    have h3 : r.length + 2 ≤ 75 := by simpa using h2
    rw [cmp_long]; simp [hn, h3]

theorem cmp_var1 (data : Bytes) (h : data.length ≤ 255) :
    (sizedVals.contains data.length || decide (data.length < 1)) = !checkMinimalPush data 76 := by
  rw [sizedVals_mem]
  match data, h with
  | [], _ => simp [checkMinimalPush, OP_0]
  | [x], _ => rw [cmp_one]; simp
  | a :: c :: r, h =>
    rw [cmp_long]
    have h3 : r.length + 2 ≤ 255 := by simpa using h
    simp only [List.length_cons, OP_PUSHDATA1]
    by_cases h4 : r.length + 2 ≤ 75
    · have : ¬ (76 = r.length + 2) := by omega
      simp [h4, this] <;> omega
    · simp [h4, h3] <;> omega

theorem cmp_var2 (data : Bytes) (h : data.length ≤ 65535) :
    (sizedVals.contains data.length || decide (data.length < 256)) = !checkMinimalPush data 77 := by
  rw [sizedVals_mem]
  match data, h with
  | [], _ => simp [checkMinimalPush, OP_0]
  | [x], _ => rw [cmp_one]; simp
  | a :: c :: r, h =>
    rw [cmp_long]
    have h3 : r.length + 2 ≤ 65535 := by simpa using h
    simp only [List.length_cons, OP_PUSHDATA1, OP_PUSHDATA2]
    by_cases h4 : r.length + 2 ≤ 75
    · have : ¬ (77 = r.length + 2) := by omega
      simp [h4, this] <;> omega
    · by_cases h6 : r.length + 2 ≤ 255
      · simp [h4, h6] <;> omega
      · simp [h4, h6, h3] <;> omega

theorem cmp_var4 (data : Bytes) :
    (sizedVals.contains data.length || decide (data.length < 65536)) = !checkMinimalPush data 78 := by
  rw [sizedVals_mem]
  match data with
  | [] => simp [checkMinimalPush, OP_0]
  | [x] => rw [cmp_one]; simp
  | a :: c :: r =>
    rw [cmp_long]
    simp only [List.length_cons, OP_PUSHDATA1, OP_PUSHDATA2]
    by_cases h4 : r.length + 2 ≤ 75
    · have : ¬ (78 = r.length + 2) := by omega
      simp [h4, this] <;> omega
    · by_cases h6 : r.length + 2 ≤ 255
      · simp [h4, h6] <;> omega
      · by_cases h7 : r.length + 2 ≤ 65535
        · simp [h4, h6, h7] <;> omega
        · simp [h4, h6, h7] <;> omega

/-! ### the refinement statement -/

/-- pycoin's `get_opcode` at `pc` does what `GetScriptOp` + `CheckMinimalPush` (+ the `OP_1NEGATE`/`OP_n` arm of the
opcode switch, which pycoin folds into the decoder) do on `script[pc:]` -/
def GetOpRefines (script : Bytes) (pc : Nat) (vm : Bool) : Prop :=
  match getScriptOp (script.drop pc) with
  | none => ∃ f, getOpcode script pc vm = .ok f ∧ f.isOk = false ∧ f.opcode ≤ OP_PUSHDATA4
  | some (op, data, _, size) =>
    if op ≤ OP_PUSHDATA4 then
      if vm && !checkMinimalPush data op then getOpcode script pc vm = .error nonMinimal
      else getOpcode script pc vm = .ok ⟨op, some data, pc + size, true⟩
    else if op = OP_1NEGATE ∨ (OP_1 ≤ op ∧ op ≤ OP_16) then
      getOpcode script pc vm = .ok ⟨op, some (scriptNumEncode (Int.ofNat op - Int.ofNat (OP_1 - 1))), pc + size, true⟩
    else getOpcode script pc vm = .ok ⟨op, none, pc + size, true⟩

theorem leNat_lt (l : Bytes) : leNat l < 256 ^ l.length := by
  induction l with
  | nil => simp [leNat]
  | cons a t ih =>
    have := a.toNat_lt
    simp only [leNat, List.length_cons, Nat.pow_succ]
    omega

theorem getOp_refines (script : Bytes) (pc : Nat) (vm : Bool) (hpc : pc < script.length) :
    GetOpRefines script pc vm := by
  unfold GetOpRefines
  cases h : script.drop pc with
  | nil => have := List.drop_eq_nil_iff.mp h; omega
  | cons b tl =>
    have hb := b.toNat_lt
    by_cases c0 : b.toNat = 0
    · -- OP_0
      have hd : decoderList[b.toNat]? = some (.const []) := by rw [c0]; exact tbl_zero
      rw [model_const h vm _ hd, spec_direct b tl (by omega)]
      simp [c0, OP_PUSHDATA4, checkMinimalPush, OP_0]
    by_cases c1 : b.toNat < 76
    · -- direct pushes
      have hd := tbl_sized b.toNat c1 (by omega)
      rw [model_sized h vm _ hd, spec_direct b tl c1]
      by_cases hl : b.toNat ≤ tl.length
      · have hlen : (tl.take b.toNat).length = b.toNat := by simp [hl]
        have hnl : ¬ (tl.take b.toNat).length < b.toNat := by omega
        have hop : b.toNat ≤ OP_PUSHDATA4 := by simp [OP_PUSHDATA4]; omega
        have hc := cmp_direct (tl.take b.toNat) (by omega) (by omega)
        rw [hlen] at hc
        simp only [hl, if_true, hnl, if_false, hop, hc]
        split <;> simp [Nat.add_assoc]
      · have hnl : (tl.take b.toNat).length < b.toNat := by simp; omega
        simp [hl, hnl, OP_PUSHDATA4]; omega
    by_cases c2 : b.toNat ≤ 78
    · -- PUSHDATA1/2/4
      have hcase : b.toNat = 76 ∨ b.toNat = 77 ∨ b.toNat = 78 := by omega
      have hop : b.toNat ≤ OP_PUSHDATA4 := by simp [OP_PUSHDATA4]; omega
      rcases hcase with e | e | e
      · have hd : decoderList[b.toNat]? = some (.variable 1 sizedVals 1) := by rw [e]; exact tbl_pd1
        rw [model_var h vm 1 _ _ hd]
        by_cases hk : 1 ≤ tl.length
        case neg =>
          rw [spec_var_trunc b tl 1 (Or.inl ⟨e, rfl⟩) hk]
          simp only [hk, not_false_eq_true, if_true]
          exact ⟨_, rfl, rfl, hop⟩
        rw [spec_var b tl 1 (Or.inl ⟨e, rfl⟩) hk]
        simp only [hk, not_true_eq_false, if_false]
        have hsz : leNat (tl.take 1) < 256 := by
          have := leNat_lt (tl.take 1); simp [hk] at this; omega
        have hdl : (tl.drop 1).length = tl.length - 1 := List.length_drop
        have hop' : (76 : Nat) ≤ OP_PUSHDATA4 := by decide
        by_cases hl : leNat (tl.take 1) ≤ (tl.drop 1).length
        · have hlen : ((tl.drop 1).take (leNat (tl.take 1))).length = leNat (tl.take 1) := by simp; omega
          have hc := cmp_var1 ((tl.drop 1).take (leNat (tl.take 1))) (by omega)
          rw [hlen] at hc
          simp only [e, hl, if_true, hlen, Nat.lt_irrefl, if_false, hop', hc]
          split <;> simp [Nat.add_assoc]
        · have hnl : ((tl.drop 1).take (leNat (tl.take 1))).length < leNat (tl.take 1) := by simp; omega
          simp only [hl, if_false, hnl, if_true]
          exact ⟨_, rfl, rfl, hop⟩
      · have hd : decoderList[b.toNat]? = some (.variable 2 sizedVals 256) := by rw [e]; exact tbl_pd2
        rw [model_var h vm 2 _ _ hd]
        by_cases hk : 2 ≤ tl.length
        case neg =>
          rw [spec_var_trunc b tl 2 (Or.inr (Or.inl ⟨e, rfl⟩)) hk]
          simp only [hk, not_false_eq_true, if_true]
          exact ⟨_, rfl, rfl, hop⟩
        rw [spec_var b tl 2 (Or.inr (Or.inl ⟨e, rfl⟩)) hk]
        simp only [hk, not_true_eq_false, if_false]
        have hsz : leNat (tl.take 2) < 65536 := by
          have := leNat_lt (tl.take 2); simp [hk] at this; omega
        have hdl : (tl.drop 2).length = tl.length - 2 := List.length_drop
        have hop' : (77 : Nat) ≤ OP_PUSHDATA4 := by decide
        by_cases hl : leNat (tl.take 2) ≤ (tl.drop 2).length
        · have hlen : ((tl.drop 2).take (leNat (tl.take 2))).length = leNat (tl.take 2) := by simp; omega
          have hc := cmp_var2 ((tl.drop 2).take (leNat (tl.take 2))) (by omega)
          rw [hlen] at hc
          simp only [e, hl, if_true, hlen, Nat.lt_irrefl, if_false, hop', hc]
          split <;> simp [Nat.add_assoc]
        · have hnl : ((tl.drop 2).take (leNat (tl.take 2))).length < leNat (tl.take 2) := by simp; omega
          simp only [hl, if_false, hnl, if_true]
          exact ⟨_, rfl, rfl, hop⟩
      · have hd : decoderList[b.toNat]? = some (.variable 4 sizedVals 65536) := by rw [e]; exact tbl_pd4
        rw [model_var h vm 4 _ _ hd]
        by_cases hk : 4 ≤ tl.length
        case neg =>
          rw [spec_var_trunc b tl 4 (Or.inr (Or.inr ⟨e, rfl⟩)) hk]
          simp only [hk, not_false_eq_true, if_true]
          exact ⟨_, rfl, rfl, hop⟩
        rw [spec_var b tl 4 (Or.inr (Or.inr ⟨e, rfl⟩)) hk]
        simp only [hk, not_true_eq_false, if_false]
        have hdl : (tl.drop 4).length = tl.length - 4 := List.length_drop
        have hop' : (78 : Nat) ≤ OP_PUSHDATA4 := by decide
        by_cases hl : leNat (tl.take 4) ≤ (tl.drop 4).length
        · have hlen : ((tl.drop 4).take (leNat (tl.take 4))).length = leNat (tl.take 4) := by simp; omega
          have hc := cmp_var4 ((tl.drop 4).take (leNat (tl.take 4)))
          rw [hlen] at hc
          simp only [e, hl, if_true, hlen, Nat.lt_irrefl, if_false, hop', hc]
          split <;> simp [Nat.add_assoc]
        · have hnl : ((tl.drop 4).take (leNat (tl.take 4))).length < leNat (tl.take 4) := by simp; omega
          simp only [hl, if_false, hnl, if_true]
          exact ⟨_, rfl, rfl, hop⟩
    -- opcodes above PUSHDATA4
    have c3 : 78 < b.toNat := by omega
    have hnop : ¬ b.toNat ≤ OP_PUSHDATA4 := by simp [OP_PUSHDATA4]; omega
    rw [spec_other b tl c3]
    simp only [hnop, if_false, OP_1NEGATE, OP_1, OP_16]
    by_cases c4 : b.toNat = 79
    · have hd : decoderList[b.toNat]? = some (.const [129]) := by rw [c4]; exact tbl_neg
      rw [model_const h vm _ hd]
      have := numEnc_neg
      simp [c4, OP_1] at this ⊢
      exact this.symm
    by_cases c5 : 81 ≤ b.toNat ∧ b.toNat ≤ 96
    · have hd := tbl_num b.toNat (by omega) c5.1
      rw [model_const h vm _ hd]
      have := numEnc_small b.toNat (by omega) c5.1
      simp only [OP_1] at this
      simp [c5]
      exact this.symm
    · have hd := tbl_none b.toNat hb (by omega)
      rw [model_none h vm hd]
      have : ¬ (b.toNat = 79 ∨ 81 ≤ b.toNat ∧ b.toNat ≤ 96) := by omega
      simp [this]

end Pycoin.VM
