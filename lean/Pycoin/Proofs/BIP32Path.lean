import Pycoin.Proofs.BIP32Basic
/-!
C09 helper lemmas (core Lean only): `subkey_for_path` is the fold of `subkey`; spellings of the hardening mark;
`split`/`join`.
-/
namespace Pycoin.BIP32
open Pycoin

/-- the fold of `subkey(i, is_hardened)` (default `as_private`: private iff the node is) over parsed path elements -/
def foldSteps (g : Gen) (fuel : Nat) : Node → List (Int × Bool) → Except Err Node
  | key, [] => .ok key
  | key, (i, hardened) :: rest =>
    match subkey0 g fuel key i hardened none with
    | .error e => .error e
    | .ok key' => foldSteps g fuel key' rest

theorem pathLoop_eq_fold {g : Gen} {fuel : Nat} (vs : List (List Char)) :
    ∀ (key : Node) (steps : List (Int × Bool)), mapMExcept parseStep vs = .ok steps →
      pathLoop g fuel key vs = foldSteps g fuel key steps := by
  induction vs with
  | nil => intro key steps h; simp [mapMExcept] at h; subst h; rfl
  | cons v vs ih =>
    intro key steps h
    unfold mapMExcept at h
    cases hp : parseStep v with
    | error e => simp [hp] at h
    | ok r =>
      simp only [hp] at h
      cases hr : mapMExcept parseStep vs with
      | error e => simp [hr] at h
      | ok rest =>
        simp only [hr, Except.ok.injEq] at h
        subst h
        obtain ⟨i, hd⟩ := r
        unfold pathLoop foldSteps
        simp only [hp]
        have : subkey0 g fuel key i hd (some key.secretExponent.isSome) = subkey0 g fuel key i hd none := rfl
        rw [this]
        cases subkey0 g fuel key i hd none with
        | error e => rfl
        | ok k => exact ih k rest hr

/-- a syntax error in an element is raised when the loop reaches it (earlier derivation errors win) -/
theorem pathLoop_first_error {g : Gen} {fuel : Nat} (key : Node) (v : List Char) (vs : List (List Char)) (e : Err)
    (h : parseStep v = .error e) : pathLoop g fuel key (v :: vs) = .error e := by
  unfold pathLoop; simp [h]

/-! ### spellings of the hardening mark -/

/-- replace a trailing hardening mark (`'`, `p` or `H`) by `c` -/
def respell (c : Char) (v : List Char) : List Char :=
  match v.getLast? with
  | some l => if Subpaths.hardeningChars.contains l then v.dropLast ++ [c] else v
  | none => v

theorem parseStep_snoc (init : List Char) (l : Char) :
    parseStep (init ++ [l]) =
      (match Subpaths.pyInt (if Subpaths.hardeningChars.contains l then init else init ++ [l]) with
       | none => .error .value
       | some i => .ok (i, Subpaths.hardeningChars.contains l)) := by
  unfold parseStep
  simp only [List.getLast?_append, List.getLast?_singleton, Option.some_or, List.dropLast_concat]
  rfl

theorem parseStep_respell (c : Char) (hc : Subpaths.hardeningChars.contains c = true) (v : List Char) :
    parseStep (respell c v) = parseStep v := by
  unfold respell
  cases hl : v.getLast? with
  | none => rfl
  | some l =>
    simp only
    obtain ⟨init, rfl⟩ := List.getLast?_eq_some_iff.mp hl
    by_cases hh : Subpaths.hardeningChars.contains l = true
    · rw [if_pos hh, List.dropLast_concat, parseStep_snoc, parseStep_snoc]
      simp only [hc, hh, if_true]
    · rw [if_neg hh]

/-- **spellings.** `H`, `p` and `'` are interchangeable in every element of a path -/
theorem pathLoop_respell {g : Gen} {fuel : Nat} (c : Char) (hc : Subpaths.hardeningChars.contains c = true)
    (vs : List (List Char)) : ∀ key : Node, pathLoop g fuel key (vs.map (respell c)) = pathLoop g fuel key vs := by
  induction vs with
  | nil => intro key; rfl
  | cons v vs ih =>
    intro key
    simp only [List.map_cons]
    unfold pathLoop
    rw [parseStep_respell c hc v]
    cases parseStep v with
    | error e => rfl
    | ok r =>
      obtain ⟨i, hd⟩ := r
      simp only
      cases subkey0 g fuel key i hd (some key.secretExponent.isSome) with
      | error e => rfl
      | ok k => exact ih k

/-! ### `split` and `join` -/

theorem splitGo_append_nosep (c : Char) (p r acc : List Char) (hp : c ∉ p) :
    Subpaths.splitGo c (p ++ r) acc = Subpaths.splitGo c r (p.reverse ++ acc) := by
  induction p generalizing acc with
  | nil => rfl
  | cons x xs ih =>
    have hx : x ≠ c := fun h => hp (by simp [h])
    have hxs : c ∉ xs := fun h => hp (by simp [h])
    simp only [List.cons_append, Subpaths.splitGo, hx, if_false]
    rw [ih _ hxs]
    simp

theorem split_nosep (c : Char) (p : List Char) (hp : c ∉ p) : Subpaths.split c p = [p] := by
  unfold Subpaths.split
  have := splitGo_append_nosep c p [] [] hp
  simp only [List.append_nil] at this
  rw [this]; simp [Subpaths.splitGo]

/-- `"/".join(parts).split("/") = parts` for a non-empty list of parts without the separator -/
theorem split_join (c : Char) (ps : List (List Char)) (hne : ps ≠ []) (hp : ∀ p ∈ ps, c ∉ p) :
    Subpaths.split c (Subpaths.join c ps) = ps := by
  induction ps with
  | nil => exact absurd rfl hne
  | cons p ps ih =>
    cases ps with
    | nil => simp only [Subpaths.join]; exact split_nosep c p (hp p (by simp))
    | cons q qs =>
      have ih' := ih (by simp) (fun x hx => hp x (by simp [hx]))
      simp only [Subpaths.join]
      unfold Subpaths.split at ih' ⊢
      rw [splitGo_append_nosep c p _ [] (hp p (by simp))]
      simp only [List.append_nil, Subpaths.splitGo, if_true, List.reverse_reverse]
      rw [ih']


theorem parseStep_ne_nil {v : List Char} {r : Int × Bool} (h : parseStep v = .ok r) : v ≠ [] := by
  rintro rfl
  simp [parseStep] at h

theorem join_ne_nil (c : Char) {ps : List (List Char)} (hne : ps ≠ []) (hp : ∀ p ∈ ps, p ≠ []) : Subpaths.join c ps ≠ [] := by
  cases ps with
  | nil => exact absurd rfl hne
  | cons p ps =>
    have := hp p (by simp)
    cases ps with
    | nil => simpa [Subpaths.join] using this
    | cons q qs => simp [Subpaths.join, this]

theorem mapMExcept_ok_all {vs : List (List Char)} {steps : List (Int × Bool)} (h : mapMExcept parseStep vs = .ok steps) :
    ∀ v ∈ vs, v ≠ [] := by
  induction vs generalizing steps with
  | nil => intro v hv; cases hv
  | cons a as ih =>
    unfold mapMExcept at h
    cases hp : parseStep a with
    | error e => simp [hp] at h
    | ok r =>
      simp only [hp] at h
      cases hr : mapMExcept parseStep as with
      | error e => simp [hr] at h
      | ok rest =>
        intro v hv
        simp only [List.mem_cons] at hv
        rcases hv with rfl | hv
        · exact parseStep_ne_nil hp
        · exact ih hr v hv

/-- `subkey_for_path` of a path without the `.pub` suffix -/
theorem subkeyForPath_plain {g : Gen} {fuel : Nat} (n : Node) (vs : List (List Char)) (hne : vs ≠ [])
    (hsep : ∀ v ∈ vs, '/' ∉ v) (steps : List (Int × Bool)) (hparse : mapMExcept parseStep vs = .ok steps)
    (hnopub : (Subpaths.join '/' vs).drop ((Subpaths.join '/' vs).length - 4) ≠ ".pub".toList) :
    subkeyForPath g fuel n (Subpaths.join '/' vs) = foldSteps g fuel n steps := by
  unfold subkeyForPath
  simp only [hnopub, if_false, false_and]
  have hnn : (Subpaths.join '/' vs).isEmpty = false := by
    have := join_ne_nil '/' hne (mapMExcept_ok_all hparse)
    cases hj : Subpaths.join '/' vs with
    | nil => exact absurd hj this
    | cons a b => rfl
  simp only [hnn, Bool.false_eq_true, if_false]
  rw [split_join '/' vs hne hsep, pathLoop_eq_fold vs n steps hparse]
  cases foldSteps g fuel n steps <;> rfl

/-- `subkey_for_path` of a path with the `.pub` suffix -/
theorem subkeyForPath_pub {g : Gen} {fuel : Nat} (n : Node) (vs : List (List Char)) (hne : vs ≠ [])
    (hsep : ∀ v ∈ vs, '/' ∉ v) (steps : List (Int × Bool)) (hparse : mapMExcept parseStep vs = .ok steps) :
    subkeyForPath g fuel n (Subpaths.join '/' vs ++ ".pub".toList) =
      (match foldSteps g fuel n steps with
       | .error e => .error e
       | .ok key => if key.secretExponent.isSome then key.publicCopy g else .ok key) := by
  unfold subkeyForPath
  have hlen : (Subpaths.join '/' vs ++ ".pub".toList).length - 4 = (Subpaths.join '/' vs).length := by
    simp [List.length_append]
  have hd : (Subpaths.join '/' vs ++ ".pub".toList).drop ((Subpaths.join '/' vs ++ ".pub".toList).length - 4) = ".pub".toList := by
    rw [hlen]; exact List.drop_left' rfl
  have ht : (Subpaths.join '/' vs ++ ".pub".toList).take ((Subpaths.join '/' vs ++ ".pub".toList).length - 4) = Subpaths.join '/' vs := by
    rw [hlen]; exact List.take_left' rfl
  simp only [hd, if_true, ht, true_and]
  have hnn : (Subpaths.join '/' vs).isEmpty = false := by
    have := join_ne_nil '/' hne (mapMExcept_ok_all hparse)
    cases hj : Subpaths.join '/' vs with
    | nil => exact absurd hj this
    | cons a b => rfl
  simp only [hnn, Bool.false_eq_true, if_false]
  rw [split_join '/' vs hne hsep, pathLoop_eq_fold vs n steps hparse]
  cases foldSteps g fuel n steps <;> rfl

end Pycoin.BIP32
