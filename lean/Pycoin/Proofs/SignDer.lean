import Pycoin.Model.Sign
import Pycoin.Proofs.Bytes
import Pycoin.Spec.SigEncoding
/-!
C05 — lemmas about the DER writer of the signer (`encode_integer`, `sigencode_der`) against the consensus
specification of signature encodings (`Spec/SigEncoding.lean`: BIP66 `IsValidSignatureEncoding`, the lax parser behind
`IsLowDERSignature`).
-/
namespace Pycoin.Sign
open Pycoin Pycoin.Spec.Consensus



theorem leBytes_succ_append (n k : Nat) :
    leBytes n (k + 1) = leBytes n k ++ [UInt8.ofNat (n / 256 ^ k % 256)] := by
  induction k generalizing n with
  | zero => simp [leBytes]
  | succ k ih =>
    rw [leBytes, ih (n / 256)]
    simp only [leBytes, List.cons_append]
    congr 3
    rw [Nat.div_div_eq_div_mul, Nat.pow_succ, Nat.mul_comm]

theorem byteLen_bounds {v : Nat} (hv : 1 ≤ v) : 256 ^ (byteLen v - 1) ≤ v ∧ v < 256 ^ byteLen v := by
  unfold byteLen
  have h1 : 2 ^ v.log2 ≤ v := Nat.log2_self_le (by omega)
  have h2 : v < 2 ^ (v.log2 + 1) := Nat.lt_log2_self
  have e : (256 : Nat) = 2 ^ 8 := by decide
  constructor
  · simp only [Nat.add_sub_cancel]
    rw [e, ← Nat.pow_mul]
    exact Nat.le_trans (Nat.pow_le_pow_right (by omega) (by omega)) h1
  · rw [e, ← Nat.pow_mul]
    exact Nat.lt_of_lt_of_le h2 (Nat.pow_le_pow_right (by omega) (by omega))

theorem byteLen_le {v k : Nat} (hk : 1 ≤ k) (hv : v < 256 ^ k) : byteLen v ≤ k := by
  unfold byteLen
  by_cases h0 : v = 0
  · subst h0; simp [Nat.log2]; omega
  · have : v.log2 < 8 * k := by
      rw [Nat.log2_lt h0]
      have e : (256 : Nat) = 2 ^ 8 := by decide
      rwa [e, ← Nat.pow_mul] at hv
    omega

@[simp] theorem beMin_length (v : Nat) : (beMin v).length = byteLen v := by simp [beMin]

theorem byteLen_pos (v : Nat) : 1 ≤ byteLen v := by unfold byteLen; omega

/-- the most significant byte of the minimal big-endian form of `v ≥ 1` is `v / 256^(k-1)`, between 1 and 255 -/
theorem beMin_head {v : Nat} (hv : 1 ≤ v) :
    ∃ h rest, beMin v = h :: rest ∧ h.toNat = v / 256 ^ (byteLen v - 1) ∧ 1 ≤ h.toNat := by
  obtain ⟨lo, hi⟩ := byteLen_bounds hv
  have hk := byteLen_pos v
  obtain ⟨k, hk'⟩ : ∃ k, byteLen v = k + 1 := ⟨byteLen v - 1, by omega⟩
  rw [hk'] at lo hi
  simp only [Nat.add_sub_cancel] at lo
  have hq : v / 256 ^ k < 256 := by
    rw [Nat.div_lt_iff_lt_mul (Nat.pow_pos (by omega))]
    rwa [Nat.pow_succ, Nat.mul_comm] at hi
  have hq1 : 1 ≤ v / 256 ^ k := by
    rw [Nat.le_div_iff_mul_le (Nat.pow_pos (by omega))]; omega
  refine ⟨UInt8.ofNat (v / 256 ^ k % 256), (leBytes v k).reverse, ?_, ?_, ?_⟩
  · simp [beMin, beBytes, hk', leBytes_succ_append]
  · simp [hk', UInt8.toNat_ofNat', Nat.mod_eq_of_lt hq]
  · simp [UInt8.toNat_ofNat', Nat.mod_eq_of_lt hq]; exact hq1

theorem leNat_append_zero (l : Bytes) : leNat (l ++ [0]) = leNat l := by
  induction l with
  | nil => simp [leNat]
  | cons x xs ih => simp [leNat, ih]

theorem beNat_cons_zero (b : Bytes) : beNat (0 :: b) = beNat b := by
  simp [beNat, leNat_append_zero]

theorem beNat_beMin {v : Nat} (hv : 1 ≤ v) : beNat (beMin v) = v :=
  beNat_beBytes_of_lt (byteLen_bounds hv).2

/-- the bytes `encode_integer` puts after tag and length -/
def derBody (v : Nat) : Bytes :=
  if ((beMin v).headD 0).toNat ≤ 0x7F then beMin v else 0 :: beMin v

theorem derBody_props {v : Nat} (hv : 1 ≤ v) (hv' : v < 2 ^ 256) :
    1 ≤ (derBody v).length ∧ (derBody v).length ≤ 33 ∧ beNat (derBody v) = v ∧
    (∃ b0 rest, derBody v = b0 :: rest ∧ b0.toNat < 0x80 ∧
      (b0 = 0 → ∃ b1 rest', rest = b1 :: rest' ∧ 0x80 ≤ b1.toNat)) ∧
    (derBody v = beMin v ∨ derBody v = 0 :: beMin v) ∧ byteLen v ≤ 32 := by
  obtain ⟨h, rest, he, _, h1⟩ := beMin_head hv
  have hlen : byteLen v ≤ 32 := byteLen_le (by omega) (by
    have e : (256 : Nat) ^ 32 = 2 ^ 256 := by decide
    omega)
  have hl : (beMin v).length = byteLen v := beMin_length v
  have hd : derBody v = if h.toNat ≤ 0x7F then h :: rest else 0 :: h :: rest := by
    unfold derBody; rw [he]; rfl
  rw [hd]
  rw [he] at hl
  rw [he]
  by_cases hle : h.toNat ≤ 0x7F
  · rw [if_pos hle]
    refine ⟨by simp, by simp at hl ⊢; omega, by rw [← he]; exact beNat_beMin hv, ⟨h, rest, rfl, by omega, ?_⟩, Or.inl rfl, hlen⟩
    intro h0; subst h0; simp at h1
  · rw [if_neg hle]
    refine ⟨by simp, by simp at hl ⊢; omega, by rw [beNat_cons_zero, ← he]; exact beNat_beMin hv,
      ⟨0, h :: rest, rfl, by simp, ?_⟩, Or.inr rfl, hlen⟩
    intro _; exact ⟨h, rest, rfl, by omega⟩

theorem encodeInteger_eq {v : Nat} (hv : 1 ≤ v) (hv' : v < 2 ^ 256) :
    encodeInteger (v : Int) = .ok (0x02 :: UInt8.ofNat (derBody v).length :: derBody v) := by
  obtain ⟨_, h33, _⟩ := derBody_props hv hv'
  unfold encodeInteger
  have : ¬ ((v : Int) < 0) := by omega
  simp only [this, if_false, Int.toNat_natCast]
  have hd : (if ((beMin v).headD 0).toNat ≤ 127 then beMin v else 0 :: beMin v) = derBody v := rfl
  rw [hd, if_neg (by omega)]




/-- body of a DER INTEGER as the signer writes it: non-empty, at most 33 bytes, not negative, no superfluous leading zero -/
def GoodBody (B : Bytes) : Prop :=
  ∃ b0 rest, B = b0 :: rest ∧ b0.toNat < 128 ∧ (b0 = 0 → ∃ b1 rest', rest = b1 :: rest' ∧ 128 ≤ b1.toNat) ∧ B.length ≤ 33

theorem byteAt_zero (a : UInt8) (l : Bytes) : byteAt (a :: l) 0 = a.toNat := by simp [byteAt]
theorem byteAt_succ (a : UInt8) (l : Bytes) (i : Nat) : byteAt (a :: l) (i + 1) = byteAt l i := by simp [byteAt]
theorem byteAt_append_right (A B : Bytes) (i : Nat) : byteAt (A ++ B) (A.length + i) = byteAt B i := by
  simp [byteAt, List.getElem?_append_right]
theorem byteAt_skip4 (a b c d : UInt8) (l : Bytes) (i : Nat) : byteAt (a :: b :: c :: d :: l) (i + 4) = byteAt l i := by
  simp [byteAt]

theorem and128_lt : ∀ x : Fin 256, (x.val &&& 128 = 0 ↔ x.val < 128) := by decide +kernel

theorem and128_eq_zero {x : Nat} (h : x < 128) : x &&& 128 = 0 := by
  have := (and128_lt ⟨x, by omega⟩).2 h; simpa using this

theorem and128_ne_zero {x : UInt8} (h : 128 ≤ x.toNat) : x.toNat &&& 128 ≠ 0 := by
  intro h0
  have := (and128_lt ⟨x.toNat, x.toNat_lt⟩).1 h0
  simp at this; omega

/-- the layout `30 L 02 lr R 02 ls S ht` with well-formed integer bodies passes BIP66's `IsValidSignatureEncoding` -/
theorem strict_of_layout (R S : Bytes) (ht : UInt8) (hR : GoodBody R) (hS : GoodBody S) :
    isValidSignatureEncoding
      (0x30 :: UInt8.ofNat (4 + R.length + S.length) :: 0x02 :: UInt8.ofNat R.length ::
        (R ++ (0x02 :: UInt8.ofNat S.length :: (S ++ [ht])))) = true := by
  obtain ⟨r0, Rt, hRe, hr0, hr1, hRl⟩ := hR
  obtain ⟨s0, St, hSe, hs0, hs1, hSl⟩ := hS
  generalize hX : (0x02 :: UInt8.ofNat S.length :: (S ++ [ht])) = X
  generalize hsig : (0x30 :: UInt8.ofNat (4 + R.length + S.length) :: 0x02 :: UInt8.ofNat R.length :: (R ++ X)) = sig
  have hRlen : R.length = Rt.length + 1 := by rw [hRe]; simp
  have hSlen : S.length = St.length + 1 := by rw [hSe]; simp
  have hn : sig.length = 7 + R.length + S.length := by
    rw [← hsig, ← hX]; simp; omega
  have b0 : byteAt sig 0 = 0x30 := by rw [← hsig]; simp [byteAt]
  have b1 : byteAt sig 1 = 4 + R.length + S.length := by
    rw [← hsig]; simp [byteAt, UInt8.toNat_ofNat']; omega
  have b2 : byteAt sig 2 = 2 := by rw [← hsig]; simp [byteAt]
  have b3 : byteAt sig 3 = R.length := by
    rw [← hsig]; simp [byteAt, UInt8.toNat_ofNat']; omega
  have b4 : byteAt sig 4 = r0.toNat := by
    rw [← hsig, hRe]; simp [byteAt]
  have bR : ∀ i, byteAt sig (R.length + 4 + i) = byteAt X i := by
    intro i
    rw [← hsig, show R.length + 4 + i = (R.length + i) + 4 by omega, byteAt_skip4, byteAt_append_right]
  have bX0 : byteAt X 0 = 2 := by rw [← hX]; simp [byteAt]
  have bX1 : byteAt X 1 = S.length := by rw [← hX]; simp [byteAt, UInt8.toNat_ofNat']; omega
  have bX2 : byteAt X 2 = s0.toNat := by rw [← hX, hSe]; simp [byteAt]
  have c4 : byteAt sig (R.length + 4) = 2 := by have := bR 0; simpa [bX0] using this
  have c5 : byteAt sig (5 + R.length) = S.length := by
    have := bR 1; rw [show R.length + 4 + 1 = 5 + R.length by omega] at this; rw [this, bX1]
  have c6 : byteAt sig (R.length + 6) = s0.toNat := by
    have := bR 2; rw [show R.length + 4 + 2 = R.length + 6 by omega] at this; rw [this, bX2]
  -- second bytes, only needed when the first is zero
  have d5 : r0 = 0 → 128 ≤ byteAt sig 5 := by
    intro h0
    obtain ⟨r1, Rt', hRt, h128⟩ := hr1 h0
    rw [← hsig, hRe, hRt]; simpa [byteAt] using h128
  have d7 : s0 = 0 → 128 ≤ byteAt sig (R.length + 7) := by
    intro h0
    obtain ⟨s1, St', hSt, h128⟩ := hs1 h0
    have := bR 3; rw [show R.length + 4 + 3 = R.length + 7 by omega] at this
    rw [this, ← hX, hSe, hSt]; simpa [byteAt] using h128
  have e5 : r0 = 0 → byteAt sig 5 &&& 128 ≠ 0 := by
    intro h0
    have h := d5 h0
    have hlt : byteAt sig 5 < 256 := by
      unfold byteAt; split
      · rename_i b _; exact b.toNat_lt
      · omega
    intro hz
    have := (and128_lt ⟨byteAt sig 5, hlt⟩).1 hz
    simp at this; omega
  have e7 : s0 = 0 → byteAt sig (R.length + 7) &&& 128 ≠ 0 := by
    intro h0
    have h := d7 h0
    have hlt : byteAt sig (R.length + 7) < 256 := by
      unfold byteAt; split
      · rename_i b _; exact b.toNat_lt
      · omega
    intro hz
    have := (and128_lt ⟨_, hlt⟩).1 hz
    simp at this; omega
  have r0z : r0.toNat = 0 → r0 = 0 := by
    intro h; exact UInt8.toNat_inj.mp (by simpa using h)
  have s0z : s0.toNat = 0 → s0 = 0 := by
    intro h; exact UInt8.toNat_inj.mp (by simpa using h)
  unfold isValidSignatureEncoding
  simp only [hn, b0, b1, b2, b3, b4, c4, c5, c6]
  have a4 := and128_eq_zero hr0
  have a6 := and128_eq_zero hs0
  have k11 : (decide (R.length > 1) && r0.toNat == 0 && byteAt sig 5 &&& 128 == 0) = false := by
    by_cases hr : r0.toNat = 0
    · have := e5 (r0z hr); simp [this]
    · simp [hr]
  have k15 : (decide (S.length > 1) && s0.toNat == 0 && byteAt sig (R.length + 7) &&& 128 == 0) = false := by
    by_cases hs : s0.toNat = 0
    · have := e7 (s0z hs); simp [this]
    · simp [hs]
  simp only [k11, k15, a4, a6]
  simp
  refine ⟨by omega, by omega, by omega, by omega, by omega, ?_, ?_⟩
  · rw [hRe]; simp
  · rw [hSe]; simp





theorem u8_and80_eq_zero {k : Nat} (hk : k < 128) : (UInt8.ofNat k) &&& 0x80 = 0 := by
  have h1 : (UInt8.ofNat k).toNat = k := by simp [UInt8.toNat_ofNat']; omega
  have h2 : ((UInt8.ofNat k) &&& 0x80).toNat = 0 := by
    rw [UInt8.toNat_and, h1]
    have := (and128_lt ⟨k, by omega⟩).2 hk
    simpa using this
  exact UInt8.toNat_inj.mp (by simpa using h2)

theorem stripZeros_ne {h : UInt8} (rest : Bytes) (hh : h ≠ 0) : stripZeros (h :: rest) = h :: rest := by
  unfold stripZeros
  split
  · rename_i heq; cases heq; exact absurd rfl hh
  · rfl

theorem stripZeros_zero (rest : Bytes) : stripZeros (0 :: rest) = stripZeros rest := by
  rw [stripZeros]

/-- Core's lax parser reads the layout `30 L 02 lr R 02 ls S` (short-form lengths) back -/
theorem laxDerParse_layout' (R S : Bytes) (L lr ls : UInt8) (hL : L &&& 0x80 = 0) (hlr : lr &&& 0x80 = 0)
    (hls : ls &&& 0x80 = 0) (tR : lr.toNat = R.length) (tS : ls.toNat = S.length) :
    laxDerParse (0x30 :: L :: 0x02 :: lr :: (R ++ (0x02 :: ls :: S))) =
      (if (stripZeros R).length > 32 || (stripZeros S).length > 32 || beNat (stripZeros R) ≥ secp256k1N ||
            beNat (stripZeros S) ≥ secp256k1N then some (0, 0)
       else some (beNat (stripZeros R), beNat (stripZeros S))) := by
  simp [laxDerParse, laxLen, hL, hlr, hls, tR, tS]
  intro h; omega

theorem laxDerParse_layout (R S : Bytes) (hR : R.length ≤ 33) (hS : S.length ≤ 33) :
    laxDerParse (0x30 :: UInt8.ofNat (4 + R.length + S.length) :: 0x02 :: UInt8.ofNat R.length ::
        (R ++ (0x02 :: UInt8.ofNat S.length :: S))) =
      (if (stripZeros R).length > 32 || (stripZeros S).length > 32 || beNat (stripZeros R) ≥ secp256k1N ||
            beNat (stripZeros S) ≥ secp256k1N then some (0, 0)
       else some (beNat (stripZeros R), beNat (stripZeros S))) := by
  apply laxDerParse_layout'
  · exact u8_and80_eq_zero (by omega)
  · exact u8_and80_eq_zero (by omega)
  · exact u8_and80_eq_zero (by omega)
  · simp [UInt8.toNat_ofNat']; omega
  · simp [UInt8.toNat_ofNat']; omega


/-- `30 L 02 lr R 02 ls S`: what `sigencode_der` writes for bodies `R`, `S` -/
def sigLayout (R S : Bytes) : Bytes :=
  0x30 :: UInt8.ofNat (4 + R.length + S.length) :: 0x02 :: UInt8.ofNat R.length :: (R ++ (0x02 :: UInt8.ofNat S.length :: S))

theorem sigencodeDer_eq {r s : Nat} (hr : 1 ≤ r) (hr' : r < 2 ^ 256) (hs : 1 ≤ s) (hs' : s < 2 ^ 256) :
    sigencodeDer (r : Int) (s : Int) = .ok (sigLayout (derBody r) (derBody s)) := by
  obtain ⟨_, hR, _⟩ := derBody_props hr hr'
  obtain ⟨_, hS, _⟩ := derBody_props hs hs'
  unfold sigencodeDer
  rw [encodeInteger_eq hr hr', encodeInteger_eq hs hs']
  simp only [sigLayout, List.length_cons, encodeLength]
  rw [if_pos (by omega)]
  have : (derBody r).length + 1 + 1 + ((derBody s).length + 1 + 1) = 4 + (derBody r).length + (derBody s).length := by omega
  rw [this]
  simp

theorem goodBody_derBody {v : Nat} (hv : 1 ≤ v) (hv' : v < 2 ^ 256) : GoodBody (derBody v) := by
  obtain ⟨_, h33, _, ⟨b0, rest, he, hb, hz⟩, _, _⟩ := derBody_props hv hv'
  exact ⟨b0, rest, he, hb, hz, h33⟩

theorem stripZeros_derBody {v : Nat} (hv : 1 ≤ v) (hv' : v < 2 ^ 256) : stripZeros (derBody v) = beMin v := by
  obtain ⟨h, rest, he, _, h1⟩ := beMin_head hv
  have hne : h ≠ 0 := by intro h0; subst h0; simp at h1
  obtain ⟨_, _, _, _, hcase, _⟩ := derBody_props hv hv'
  rcases hcase with hc | hc
  · rw [hc, he, stripZeros_ne _ hne]
  · rw [hc, stripZeros_zero, he, stripZeros_ne _ hne]

theorem secp256k1N_lt : secp256k1N < 2 ^ 256 := by decide

theorem laxDerParse_sigLayout {r s : Nat} (hr : 1 ≤ r) (hr' : r < secp256k1N) (hs : 1 ≤ s) (hs' : s < secp256k1N) :
    laxDerParse (sigLayout (derBody r) (derBody s)) = some (r, s) := by
  have hN := secp256k1N_lt
  obtain ⟨_, hR, _, _, _, hlr⟩ := derBody_props hr (by omega : r < 2 ^ 256)
  obtain ⟨_, hS, _, _, _, hls⟩ := derBody_props hs (by omega : s < 2 ^ 256)
  unfold sigLayout
  rw [laxDerParse_layout _ _ hR hS, stripZeros_derBody hr (by omega), stripZeros_derBody hs (by omega),
    beNat_beMin hr, beNat_beMin hs]
  simp only [beMin_length]
  rw [if_neg]
  simp
  omega

end Pycoin.Sign
