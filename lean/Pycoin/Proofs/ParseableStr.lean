import Pycoin.Model.ParseableStr
/-!
The cache of `parseable_str` is transparent when distinct decoders use distinct keys.  Core Lean only.
-/
namespace Pycoin.Pstr
open Pycoin Pycoin.Gen.PstrKeys

/-- every binding a decoder key has in the cache is that decoder's uncached answer -/
def Inv (tb : Bytes) (tc : List Char) (c : Cache) : Prop :=
  ∀ d v, get c (key d) = some v → v = pure d tb tc

theorem get_cons (k' : String) (v : Val) (c : Cache) (k : String) :
    get ((k', v) :: c) k = if k' = k then some v else get c k := rfl

theorem inv_nil (tb : Bytes) (tc : List Char) : Inv tb tc [] := by
  intro d v h; cases h

/-- a leaf decoder (`f` does not touch the cache): value and resulting cache -/
theorem viaCache_leaf (c : Cache) (k : String) (x : Val) :
    (viaCache c k (fun c => (x, c))).1 = (match get c k with | some v => v | none => x) ∧
    ∀ k', get (viaCache c k (fun c => (x, c))).2 k' =
      if k = k' then some (viaCache c k (fun c => (x, c))).1 else get c k' := by
  unfold viaCache
  cases hg : get c k with
  | some v =>
    refine ⟨rfl, ?_⟩
    intro k'
    by_cases hk : k = k'
    · subst hk; simp [hg]
    · simp [hk]
  | none =>
    refine ⟨rfl, ?_⟩
    intro k'
    simp only [get_cons]
    by_cases hk : k = k' <;> simp [hk]

variable (hinj : ∀ d d', key d = key d' → d = d')
include hinj

theorem leafB58_spec (tb : Bytes) (tc : List Char) (c : Cache)
    (h58 : ∀ v, get c (key .b58) = some v → v = pure .b58 tb tc) :
    (leafB58 tb c).1 = pure .b58 tb tc ∧
    ∀ k', get (leafB58 tb c).2 k' = if key .b58 = k' then some (pure .b58 tb tc) else get c k' := by
  have hl := viaCache_leaf c (key .b58) (.bytes (Base58.parseB58 tb))
  have hv : (leafB58 tb c).1 = pure .b58 tb tc := by
    unfold leafB58
    rw [hl.1]
    cases hg : get c (key .b58) with
    | some v => exact h58 v hg
    | none => rfl
  refine ⟨hv, ?_⟩
  intro k'
  have := hl.2 k'
  unfold leafB58 at hv ⊢
  rw [this, hv]

theorem nested_spec (tb : Bytes) (tc : List Char) (d : Dec) (h : Bytes → Bytes) (c : Cache)
    (hd : key d ≠ key .b58)
    (hpure : pure d tb tc = .bytes (checkHashed h (Base58.parseB58 tb)))
    (hinv : Inv tb tc c) :
    let r := viaCache c (key d) (fun c =>
      let r := leafB58 tb c
      (.bytes (checkHashed h (asBytes r.1)), r.2))
    r.1 = pure d tb tc ∧ Inv tb tc r.2 := by
  intro r
  show (viaCache c (key d) _).1 = _ ∧ Inv tb tc (viaCache c (key d) _).2
  unfold viaCache
  cases hg : get c (key d) with
  | some v => exact ⟨hinv d v hg, hinv⟩
  | none =>
    simp only
    have h58 : ∀ v, get ((key d, Val.bytes none) :: c) (key .b58) = some v → v = pure .b58 tb tc := by
      intro v hv
      rw [get_cons, if_neg hd] at hv
      exact hinv .b58 v hv
    obtain ⟨hval, hget⟩ := leafB58_spec hinj tb tc _ h58
    have hx : Val.bytes (checkHashed h (asBytes (leafB58 tb ((key d, Val.bytes none) :: c)).1)) = pure d tb tc := by
      rw [hval, hpure]; rfl
    refine ⟨hx, ?_⟩
    intro d' w hw
    rw [get_cons] at hw
    by_cases h1 : key d = key d'
    · rw [if_pos h1] at hw
      injection hw with hw
      rw [← hw, hx, hinj d d' h1]
    · rw [if_neg h1, hget] at hw
      by_cases h2 : key .b58 = key d'
      · rw [if_pos h2] at hw
        injection hw with hw
        rw [← hw, hinj _ _ h2]
      · rw [if_neg h2, get_cons, if_neg h1] at hw
        exact hinv d' w hw

theorem leaf_spec (tb : Bytes) (tc : List Char) (d : Dec) (x : Val) (c : Cache)
    (hpure : pure d tb tc = x) (hinv : Inv tb tc c) :
    (viaCache c (key d) (fun c => (x, c))).1 = pure d tb tc ∧
    Inv tb tc (viaCache c (key d) (fun c => (x, c))).2 := by
  have hl := viaCache_leaf c (key d) x
  have hv : (viaCache c (key d) (fun c => (x, c))).1 = pure d tb tc := by
    rw [hl.1]
    cases hg : get c (key d) with
    | some v => exact hinv d v hg
    | none => exact hpure.symm
  refine ⟨hv, ?_⟩
  intro d' w hw
  rw [hl.2] at hw
  by_cases h1 : key d = key d'
  · rw [if_pos h1] at hw
    injection hw with hw
    rw [← hw, hv, hinj d d' h1]
  · rw [if_neg h1] at hw
    exact hinv d' w hw

theorem run_spec (tb : Bytes) (tc : List Char) (d : Dec) (c : Cache) (hinv : Inv tb tc c) :
    (run d tb tc c).1 = pure d tb tc ∧ Inv tb tc (run d tb tc c).2 := by
  cases d with
  | b58 => exact leaf_spec hinj tb tc .b58 _ c rfl hinv
  | bech32 => exact leaf_spec hinj tb tc .bech32 _ c rfl hinv
  | b58sha =>
    exact nested_spec hinj tb tc .b58sha Hash.dsha256 c (fun h => by cases hinj _ _ h) rfl hinv
  | b58grs =>
    exact nested_spec hinj tb tc .b58grs grsHash c (fun h => by cases hinj _ _ h) rfl hinv

theorem runSeq_spec (tb : Bytes) (tc : List Char) (steps : List Dec) (c : Cache) (hinv : Inv tb tc c) :
    runSeq tb tc steps c = steps.map (fun d => pure d tb tc) := by
  induction steps generalizing c with
  | nil => rfl
  | cons d ds ih =>
    obtain ⟨h1, h2⟩ := run_spec hinj tb tc d c hinv
    simp only [runSeq, List.map_cons]
    rw [h1, ih _ h2]

end Pycoin.Pstr
