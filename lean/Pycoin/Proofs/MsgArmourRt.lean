import Pycoin.Proofs.MsgField
namespace Pycoin.MsgSigning
open Pycoin Pycoin.Gen.MsgSigning

theorem noNL_headLine (name : Str) (hn : '\n' ∉ name) : '\n' ∉ headLine name := by
  have h1 : '\n' ∉ beginPrefix := by decide
  have h2 : '\n' ∉ signedSuffix := by decide
  simp [headLine, h1, h2, hn]

theorem noNL_endLine (name : Str) (hn : '\n' ∉ name) : '\n' ∉ endLine name := by
  have h1 : '\n' ∉ endLinePrefix := by decide
  have h2 : '\n' ∉ signedSuffix := by decide
  simp [endLine, h1, h2, hn]

theorem getLast_signed (pre name : Str) : (pre ++ name ++ signedSuffix).getLast? = some '-' := by
  rw [List.getLast?_append]
  have : signedSuffix.getLast? = some '-' := by decide
  simp [this]

theorem noCR_headLine (name : Str) : endsWithCR (headLine name) = false := by
  unfold endsWithCR headLine
  rw [getLast_signed]
  decide

/-- the lines of the armoured text -/
theorem splitLines_armourText (name msg addr sig : Str) (hn : '\n' ∉ name) (ha : FieldOK addr) (hs : FieldOK sig) :
    splitLines (armourText name msg addr sig)
      = headLine name :: (splitLines msg ++ sigMarkerLine :: [addr, sig, endLine name]) := by
  unfold armourText splitLines
  rw [splitOn_append, splitOn_noSep _ _ (noNL_headLine name hn), splitOn_append, splitOn_append,
    splitOn_noSep _ sigMarkerLine (by decide), splitOn_append, splitOn_noSep _ _ ha.noNL, splitOn_append,
    splitOn_noSep _ _ hs.noNL, splitOn_noSep _ _ (noNL_endLine name hn)]
  simp

theorem sectionSuffix_eq : sectionSuffix = some "SIGNED MESSAGE-----".toList := by decide

theorem suffix_headLine (name : Str) : ("SIGNED MESSAGE-----".toList).isSuffixOf (headLine name) = true := by
  rw [List.isSuffixOf_iff_suffix]
  have : signedSuffix = [' '] ++ "SIGNED MESSAGE-----".toList := by decide
  unfold headLine
  rw [this, ← List.append_assoc]
  exact List.suffix_append _ _

theorem afterSection_head (name b : Str) (rest : List Str) :
    afterSection "SIGNED MESSAGE-----".toList (headLine name :: b :: rest) = some (b :: rest) := by
  simp only [afterSection, suffix_headLine, if_true]

theorem noCR_endLine (name : Str) : endsWithCR (endLine name) = false := by
  unfold endsWithCR endLine
  rw [getLast_signed]
  decide

/-- what `parse_sections` does once the lines are normalised: head line, message lines without markers, the marker,
three trailer lines -/
theorem sections_of_lines (name : Str) (ms : List Str) (addr sig : Str) (hne : ms ≠ [])
    (hms : ∀ l ∈ ms, isSigMarker l = false) (hs : FieldOK sig) :
    ∃ body, afterSection "SIGNED MESSAGE-----".toList (headLine name :: (ms ++ sigMarkerLine :: [addr, sig, endLine name])) = some body
      ∧ splitMarkers [] false body = [ms, [addr, sig, endLine name]] := by
  cases ms with
  | nil => exact absurd rfl hne
  | cons m t =>
    refine ⟨(m :: t) ++ sigMarkerLine :: [addr, sig, endLine name], afterSection_head name m _, ?_⟩
    exact splitMarkers_body (m :: t) addr sig (endLine name) hne hms hs.notMarker

/-- `parse_sections` of an armoured text whose message uses bare `\n` newlines -/
theorem parseSections_armour_lf (name msg addr sig : Str) (hn : '\n' ∉ name) (ha : FieldOK addr) (hs : FieldOK sig)
    (hcr : ∀ l ∈ splitLines msg, endsWithCR l = false) (hmk : ∀ l ∈ splitLines msg, isSigMarker l = false) :
    parseSections (armourText name msg addr sig) = .ok (msg, joinLines [addr, sig, endLine name]) := by
  unfold parseSections
  rw [splitLines_armourText name msg addr sig hn ha hs]
  have hdos : anyInit endsWithCR (headLine name :: (splitLines msg ++ sigMarkerLine :: [addr, sig, endLine name])) = false := by
    apply anyInit_false
    intro x hx
    simp only [List.mem_cons, List.mem_append, List.not_mem_nil, or_false] at hx
    rcases hx with rfl | hx | rfl | rfl | rfl | rfl
    · exact noCR_headLine name
    · exact hcr x hx
    · decide
    · exact ha.noCR
    · exact hs.noCR
    · exact noCR_endLine name
  obtain ⟨body, hb1, hb2⟩ := sections_of_lines name (splitLines msg) addr sig (splitLines_ne_nil msg) hmk hs
  simp only [hdos, Bool.false_eq_true, if_false, sectionSuffix_eq, hb1, hb2]
  simp [joinLines_splitLines]


theorem pyStrip_endLine (name : Str) : pyStrip (endLine name) = endLine name := by
  have h1 : endLine name = '-' :: ("----END ".toList ++ name ++ signedSuffix) := by
    have : endLinePrefix = '-' :: "----END ".toList := by decide
    simp [endLine, this]
  exact pyStrip_of_ends _ '-' '-' _ h1 (getLast_signed _ _) (by decide) (by decide)

theorem endLine_ne_nil (name : Str) : endLine name ≠ [] := by
  have : endLinePrefix = '-' :: "----END ".toList := by decide
  simp [endLine, this]

theorem isInfix_endLine (name : Str) : isInfix endMarker.toList (endLine name) = true := by
  have h1 : endLine name = '-' :: ("----END ".toList ++ name ++ signedSuffix) := by
    have : endLinePrefix = '-' :: "----END ".toList := by decide
    simp [endLine, this]
  have h2 : (endMarker.toList).isPrefixOf (endLine name) = true := by
    rw [List.isPrefixOf_iff_prefix]
    have : endLinePrefix = endMarker.toList ++ [' '] := by decide
    unfold endLine
    rw [this, List.append_assoc, List.append_assoc]
    exact List.prefix_append _ _
  rw [h1] at h2 ⊢
  simp only [isInfix, h2, Bool.true_or]

theorem findAddr_field (addr : Str) (rest : List Str) (ha : FieldOK addr) : findAddr (addr :: rest) = some addr := by
  unfold findAddr
  have hne : addr.isEmpty = false := by
    cases h : addr with
    | nil => exact absurd h ha.ne
    | cons _ _ => rfl
  simp only [ha.strip, hne, Bool.false_eq_true, if_false, ha.notEnd, splitOn1_noSep ':' addr ha.noColon]

/-- the trailer `addr \n sig \n -----END …` read by `parse_signed_message` -/
theorem parseSigned_of_sections (text msg name addr sig : Str) (hn : '\n' ∉ name) (ha : FieldOK addr) (hs : FieldOK sig)
    (hne : addr ≠ sig) (hsec : parseSections text = .ok (msg, joinLines [addr, sig, endLine name])) :
    parseSignedMessage text = .ok (msg, addr, sig) := by
  unfold parseSignedMessage
  rw [hsec]
  have hl : splitLines (joinLines [addr, sig, endLine name]) = [addr, sig, endLine name] :=
    splitLines_joinLines _ (by simp) (by
      intro l hl
      simp only [List.mem_cons, List.not_mem_nil, or_false] at hl
      rcases hl with rfl | rfl | rfl
      · exact ha.noNL
      · exact hs.noNL
      · exact noNL_endLine name hn)
  have hA : addr.isEmpty = false := by cases h : addr with
    | nil => exact absurd h ha.ne
    | cons _ _ => rfl
  have hS : sig.isEmpty = false := by cases h : sig with
    | nil => exact absurd h hs.ne
    | cons _ _ => rfl
  have hE : (endLine name).isEmpty = false := by cases h : endLine name with
    | nil => exact absurd h (endLine_ne_nil name)
    | cons _ _ => rfl
  simp only [hl, List.map_cons, List.map_nil, ha.strip, hs.strip, pyStrip_endLine, List.filter_cons, hA, hS, hE,
    Bool.not_false, if_true, List.filter_nil, List.reverse_cons, List.reverse_nil, List.nil_append, List.cons_append,
    isInfix_endLine, not_true_eq_false, if_false, findAddr_field addr _ ha]
  simp [hne]


/-! ### messages with `\r\n` newlines -/

def addCR (l : Str) : Str := l ++ ['\r']

theorem endsWithCR_addCR (l : Str) : endsWithCR (addCR l) = true := by
  unfold endsWithCR addCR
  rw [List.getLast?_append]
  rfl

theorem stripCR_addCR (l : Str) : stripCR (addCR l) = l := by
  have h := endsWithCR_addCR l
  unfold stripCR
  rw [h]
  simp [addCR]

theorem stripCR_of_not (l : Str) (h : endsWithCR l = false) : stripCR l = l := by simp [stripCR, h]

theorem joinWith_crlf (ms : List Str) : joinWith ['\r', '\n'] ms = joinLines (mapInit addCR ms) := by
  induction ms with
  | nil => rfl
  | cons a rest ih =>
    cases rest with
    | nil => rfl
    | cons b rest' =>
      have hy : ∃ y r, mapInit addCR (b :: rest') = y :: r := by
        cases rest' <;> simp [mapInit]
      obtain ⟨y, r, hy⟩ := hy
      simp only [joinWith, mapInit, joinLines] at ih ⊢
      rw [ih, hy]
      simp [joinWith, addCR]

theorem map_stripCR_mapInit (ms : List Str) (hlast : ∀ l, ms.getLast? = some l → endsWithCR l = false) :
    (mapInit addCR ms).map stripCR = ms := by
  induction ms with
  | nil => rfl
  | cons a rest ih =>
    cases rest with
    | nil => simp [mapInit, stripCR_of_not a (hlast a rfl)]
    | cons b rest' =>
      simp only [mapInit, List.map_cons, stripCR_addCR]
      rw [ih (fun l hl => hlast l (by simpa [List.getLast?_cons_cons] using hl))]

theorem mem_mapInit_addCR_noNL (ms : List Str) (h : ∀ l ∈ ms, '\n' ∉ l) : ∀ l ∈ mapInit addCR ms, '\n' ∉ l := by
  induction ms with
  | nil => intro l hl; simp [mapInit] at hl
  | cons a rest ih =>
    cases rest with
    | nil => intro l hl; simp only [mapInit, List.mem_singleton] at hl; rw [hl]; exact h a (by simp)
    | cons b rest' =>
      intro l hl
      simp only [mapInit, List.mem_cons] at hl
      rcases hl with rfl | hl
      · have := h a (by simp)
        simp [addCR, this]
      · exact ih (fun l hl => h l (by simp [hl])) l (by simpa [mapInit] using hl)

/-- `parse_sections` of an armoured text whose message uses `\r\n` newlines throughout (at least one) -/
theorem parseSections_armour_crlf (name addr sig : Str) (ms : List Str) (hn : '\n' ∉ name) (ha : FieldOK addr) (hs : FieldOK sig)
    (h2 : 2 ≤ ms.length) (hnl : ∀ l ∈ ms, '\n' ∉ l) (hmk : ∀ l ∈ ms, isSigMarker l = false)
    (hlast : ∀ l, ms.getLast? = some l → endsWithCR l = false) :
    parseSections (armourText name (joinWith ['\r', '\n'] ms) addr sig)
      = .ok (joinWith ['\r', '\n'] ms, joinLines [addr, sig, endLine name]) := by
  have hms0 : ms ≠ [] := by intro h; simp [h] at h2
  have hmi : mapInit addCR ms ≠ [] := by
    cases ms with
    | nil => exact absurd rfl hms0
    | cons a r => cases r <;> simp [mapInit]
  unfold parseSections
  rw [splitLines_armourText name _ addr sig hn ha hs, joinWith_crlf,
    splitLines_joinLines _ hmi (mem_mapInit_addCR_noNL ms hnl)]
  have hdos : anyInit endsWithCR (headLine name :: (mapInit addCR ms ++ sigMarkerLine :: [addr, sig, endLine name])) = true := by
    have e1 : headLine name :: (mapInit addCR ms ++ sigMarkerLine :: [addr, sig, endLine name])
        = (headLine name :: mapInit addCR ms) ++ (sigMarkerLine :: [addr, sig, endLine name]) := by simp
    rw [e1, anyInit_append _ _ _ (by simp)]
    have : (mapInit addCR ms).any endsWithCR = true := by
      match ms, h2 with
      | a :: b :: r, _ => simp [mapInit, endsWithCR_addCR]
    simp [this]
  have hstrip : mapInit stripCR (headLine name :: (mapInit addCR ms ++ sigMarkerLine :: [addr, sig, endLine name]))
      = headLine name :: (ms ++ sigMarkerLine :: [addr, sig, endLine name]) := by
    have e1 : headLine name :: (mapInit addCR ms ++ sigMarkerLine :: [addr, sig, endLine name])
        = (headLine name :: mapInit addCR ms) ++ (sigMarkerLine :: [addr, sig, endLine name]) := by simp
    rw [e1, mapInit_append _ _ _ (by simp)]
    simp only [List.map_cons, map_stripCR_mapInit ms hlast, stripCR_of_not _ (noCR_headLine name), mapInit,
      stripCR_of_not _ ha.noCR, stripCR_of_not _ hs.noCR]
    have : stripCR sigMarkerLine = sigMarkerLine := by decide
    simp [this]
  obtain ⟨body, hb1, hb2⟩ := sections_of_lines name ms addr sig hms0 hmk hs
  simp only [hdos, if_true, hstrip, sectionSuffix_eq, hb1, hb2]
  have hj : splitLines (joinLines ms) = ms := splitLines_joinLines ms hms0 hnl
  simp [hj, joinWith_crlf]

end Pycoin.MsgSigning
