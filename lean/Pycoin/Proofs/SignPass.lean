import Pycoin.Model.Sign
import Pycoin.Proofs.SignOrder
/-!
C05 — one signing pass of `signing_solver` over a partially signed m-of-n input, in closed form.

`K` is `sec_list` (the keys, top of stack first), `sg i` the signature blob the secret of `K[i]` makes for the input's digest
(RFC 6979: there is exactly one).  A partially signed input shows the solver a list of blobs (`Slot`s): junk it cannot parse
(the dummy `""`, the redeem / witness script), parsable blobs that verify for no listed key (the placeholder), and signatures
`sg i` made in earlier passes.  `_find_signatures` re-finds exactly the latter (`findSignatures_slots`); the signing loop then
adds, walking the keys from the last index down, the first missing ones the lookup holds until `m` are there
(`signLoop_eq`); padding and sorting give `m − j` placeholders followed by the signatures by key index (`signingSolver_slots`).
-/
namespace Pycoin.Sign
open Pycoin Pycoin.Curve

/-- what the passes rely on about the listed keys and their signatures: the digest exists; every `sg i` parses (hash type
`ht`); every key decodes; `sg i` verifies for key `j` exactly when `i = j` (own key: ECDSA correctness, C01; other listed keys:
an unforgeability-style hypothesis — for a given `(r, s, z)` at most the two recoverable keys verify at all) -/
structure KeyFacts (C : Crypto) (dig : Digest) (ht : Nat) (z : Int) (K : List Bytes) (sg : Nat → Bytes) : Prop where
  hz : dig ht = some z
  sigs : ∀ i, i < K.length → ∃ r s : Nat, parseSignatureBlob (sg i) = some ((r, s), ht) ∧
    ∀ j kj, K[j]? = some kj → ∃ Q, C.secToPair kj = some Q ∧ C.verify Q z (r : Int) (s : Int) = .ok (decide (i = j))

theorem findKey_hit (C : Crypto) (dig : Digest) (ht : Nat) (z : Int) (hz : dig ht = some z) (r s : Int) (i : Nat) (k : Bytes) :
    ∀ (l : List Bytes) (off : Nat), off ≤ i → l[i - off]? = some k →
      (∀ t kt, l[t]? = some kt → ∃ Q, C.secToPair kt = some Q ∧ C.verify Q z r s = .ok (decide (i = off + t))) →
      findKey C dig r s ht l off = .ok (some (i, k)) := by
  intro l
  induction l with
  | nil => intro off _ h; simp at h
  | cons a l' ih =>
    intro off hoff hk hall
    obtain ⟨Q, hQ, hv⟩ := hall 0 a rfl
    simp only [findKey, hQ, hz, hv]
    by_cases hi : i = off
    · subst hi
      simp at hk
      simp [hk]
    · have hd : decide (i = off + 0) = false := by simp; omega
      rw [hd]
      simp only []
      apply ih (off + 1) (by omega)
      · have : i - off = (i - (off + 1)) + 1 := by omega
        rw [this] at hk
        simpa using hk
      · intro t kt ht'
        obtain ⟨Q', hQ', hv'⟩ := hall (t + 1) kt (by simpa using ht')
        refine ⟨Q', hQ', ?_⟩
        rw [hv']
        have : (i = off + (t + 1)) ↔ (i = off + 1 + t) := by omega
        simp [this]

/-- a blob of the existing script or witness, as the solver sees it -/
inductive Slot
  | junk (b : Bytes)
  | dud (b : Bytes)
  | sig (i : Nat)
  deriving DecidableEq, Repr

def Slot.render (sg : Nat → Bytes) : Slot → Bytes
  | .junk b => b
  | .dud b => b
  | .sig i => sg i

/-- the classification is right: junk does not parse; a dud parses and verifies for no listed key; a signature index is in range -/
def Slot.ok (C : Crypto) (dig : Digest) (K : List Bytes) : Slot → Prop
  | .junk b => parseSignatureBlob b = none
  | .dud b => ∃ r s t, parseSignatureBlob b = some ((r, s), t) ∧ findKey C dig (r : Int) (s : Int) t K 0 = .ok none
  | .sig i => i < K.length

def Slot.idx : Slot → Option Nat
  | .sig i => some i
  | _ => none

/-- counted by `seen` -/
def Slot.counts : Slot → Bool
  | .junk _ => false
  | _ => true

theorem counts_junk (b : Bytes) (rest : List Slot) :
    (Slot.junk b :: rest).filter (·.counts) = rest.filter (·.counts) := List.filter_cons_of_neg (by simp [Slot.counts])
theorem counts_dud (b : Bytes) (rest : List Slot) :
    (Slot.dud b :: rest).filter (·.counts) = Slot.dud b :: rest.filter (·.counts) := List.filter_cons_of_pos (by simp [Slot.counts])
theorem counts_sig (i : Nat) (rest : List Slot) :
    (Slot.sig i :: rest).filter (·.counts) = Slot.sig i :: rest.filter (·.counts) := List.filter_cons_of_pos (by simp [Slot.counts])
theorem idx_junk (b : Bytes) (rest : List Slot) : (Slot.junk b :: rest).filterMap (·.idx) = rest.filterMap (·.idx) :=
  List.filterMap_cons_none (by simp [Slot.idx])
theorem idx_dud (b : Bytes) (rest : List Slot) : (Slot.dud b :: rest).filterMap (·.idx) = rest.filterMap (·.idx) :=
  List.filterMap_cons_none (by simp [Slot.idx])
theorem idx_sig (i : Nat) (rest : List Slot) : (Slot.sig i :: rest).filterMap (·.idx) = i :: rest.filterMap (·.idx) :=
  List.filterMap_cons_some (by simp [Slot.idx])

theorem idx_nil_of_no_counts : ∀ (slots : List Slot), (slots.filter (·.counts)).length = 0 → slots.filterMap (·.idx) = []
  | [], _ => rfl
  | s :: r, h => by
    cases s with
    | junk b =>
      rw [counts_junk] at h
      rw [idx_junk, idx_nil_of_no_counts r h]
    | dud b => rw [counts_dud] at h; simp at h
    | sig i => rw [counts_sig] at h; simp at h

/-- `_find_signatures` on a partially signed input finds exactly the signatures of earlier passes, in the order they appear -/
theorem findSignatures_slots {C : Crypto} {dig : Digest} {ht : Nat} {z : Int} {K : List Bytes} {sg : Nat → Bytes}
    (F : KeyFacts C dig ht z K sg) (m : Nat) :
    ∀ (slots : List Slot) (seen : Nat), (∀ s ∈ slots, s.ok C dig K) → seen + (slots.filter (·.counts)).length ≤ m →
      findSignatures C dig m K (slots.map (·.render sg)) seen =
        .ok ((slots.filterMap (·.idx)).map (fun (i : Nat) => ((i : Int), sg i)),
             (slots.filterMap (·.idx)).filterMap (fun i => K[i]?)) := by
  intro slots
  induction slots with
  | nil => intro seen _ _; rfl
  | cons sl rest ih =>
    intro seen hok hcount
    have hrest : ∀ s ∈ rest, s.ok C dig K := fun s hs => hok s (List.mem_cons_of_mem _ hs)
    have hsl := hok sl (by simp)
    rw [List.map_cons]
    unfold findSignatures
    by_cases hseen : seen ≥ m
    · rw [if_pos hseen]
      have : ((sl :: rest).filter (·.counts)).length = 0 := by omega
      rw [idx_nil_of_no_counts _ this]; rfl
    · rw [if_neg hseen]
      cases sl with
      | junk b =>
        have hp : parseSignatureBlob b = none := hsl
        rw [counts_junk] at hcount
        rw [idx_junk, show Slot.render sg (.junk b) = b from rfl, hp]
        exact ih seen hrest hcount
      | dud b =>
        obtain ⟨r, s, t, hp, hf⟩ := hsl
        rw [counts_dud, List.length_cons] at hcount
        rw [idx_dud, show Slot.render sg (.dud b) = b from rfl, hp]
        simp only []
        rw [hf, ih (seen + 1) hrest (by omega)]
      | sig i =>
        have hi : i < K.length := hsl
        obtain ⟨r, s, hp, hall⟩ := F.sigs i hi
        rw [counts_sig, List.length_cons] at hcount
        have hki : K[i]? = some K[i] := List.getElem?_eq_getElem hi
        have hfk : findKey C dig (r : Int) (s : Int) ht K 0 = .ok (some (i, K[i])) :=
          findKey_hit C dig ht z F.hz r s i K[i] K 0 (by omega) (by simpa using hki)
            (fun t kt hkt => by
              obtain ⟨Q, hQ, hv⟩ := hall t kt hkt
              exact ⟨Q, hQ, by simpa using hv⟩)
        rw [idx_sig, show Slot.render sg (.sig i) = sg i from rfl, hp]
        simp only []
        rw [hfk, ih (seen + 1) hrest (by omega)]
        simp [hki]

/-- the keys the signing loop will sign with: not yet solved and present in the lookup, in the order of `todo` -/
def availOf (lookup : Lookup) (solved : List Bytes) (todo : List (Nat × Bytes)) : List (Nat × Bytes) :=
  todo.filter (fun p => !(decide (p.2 ∈ solved)) && (lookup (Hash.hash160 p.2)).isSome)

/-- what the lookup holds is the secret of the listed key: signing with it gives `sg i`; keys it does not hold still decode -/
def LookupHonest (C : Crypto) (lookup : Lookup) (ht : Nat) (z : Int) (sg : Nat → Bytes) (todo : List (Nat × Bytes)) : Prop :=
  ∀ p ∈ todo,
    (∀ e, lookup (Hash.hash160 p.2) = some e →
      ∃ r s, C.sign e.secret z = .ok (r, s) ∧ binarySignature r (lowS C.order s) ht = .ok (sg p.1)) ∧
    (lookup (Hash.hash160 p.2) = none → (C.secToPair p.2).isSome = true)

/-- **the signing loop in closed form**: it appends, in the order of `todo`, the signatures of the first `m − |ex|` available keys -/
theorem signLoop_eq (C : Crypto) (lookup : Lookup) (dig : Digest) (ht : Nat) (z : Int) (hz : dig ht = some z) (m : Nat)
    (solved : List Bytes) (sg : Nat → Bytes) :
    ∀ (todo : List (Nat × Bytes)) (ex : List (Int × Bytes)), LookupHonest C lookup ht z sg todo →
      signLoop C lookup dig ht m solved todo ex =
        .ok (ex ++ ((availOf lookup solved todo).take (m - ex.length)).map (fun (p : Nat × Bytes) => ((p.1 : Int), sg p.1))) := by
  intro todo
  induction todo with
  | nil => intro ex _; simp [signLoop, availOf]
  | cons p rest ih =>
    intro ex hh
    obtain ⟨i, k⟩ := p
    have hrest : LookupHonest C lookup ht z sg rest := fun q hq => hh q (List.mem_cons_of_mem _ hq)
    obtain ⟨hsome, hnone⟩ := hh (i, k) (by simp)
    simp only at hsome hnone
    simp only [signLoop]
    by_cases hs : k ∈ solved
    · rw [if_pos hs, ih ex hrest]
      simp [availOf, List.filter, hs]
    · rw [if_neg hs]
      by_cases hlen : ex.length ≥ m
      · rw [if_pos hlen]
        have : m - ex.length = 0 := by omega
        simp [this]
      · rw [if_neg hlen]
        cases hl : lookup (Hash.hash160 k) with
        | some e =>
          obtain ⟨r, s, hsign, hbin⟩ := hsome e hl
          simp only [hz, hsign, hbin]
          rw [ih _ hrest]
          have hav : availOf lookup solved ((i, k) :: rest) = (i, k) :: availOf lookup solved rest := by
            simp [availOf, List.filter, hs, hl]
          have hm : m - ex.length = (m - (ex ++ [((i : Int), sg i)]).length) + 1 := by simp; omega
          rw [hav, hm]
          simp
        | none =>
          have := hnone hl
          cases hd : C.secToPair k with
          | none => rw [hd] at this; simp at this
          | some Q =>
            simp only []
            rw [ih ex hrest]
            simp [availOf, List.filter, hs, hl]

/-- the blobs of a pass, with the signature indices `_find_signatures` reports -/
def slotIdxs (slots : List Slot) : List Nat := slots.filterMap (·.idx)

/-- **`signing_solver` on a partially signed input**, before padding and sorting: the signatures found, then the new ones -/
theorem signingSolver_slots {C : Crypto} {dig : Digest} {ht : Nat} {z : Int} {K : List Bytes} {sg : Nat → Bytes}
    (F : KeyFacts C dig ht z K sg) (lookup : Lookup) (m : Nat) (slots : List Slot) (ph : Option Bytes)
    (hok : ∀ s ∈ slots, s.ok C dig K) (hcount : (slots.filter (·.counts)).length ≤ m)
    (hh : LookupHonest C lookup ht z sg (enumFrom 0 K).reverse) :
    signingSolver C lookup dig K m (slots.map (·.render sg)) ht ph =
      .ok (assemble m ph (((slotIdxs slots).map (fun (i : Nat) => ((i : Int), sg i))) ++
        ((availOf lookup ((slotIdxs slots).filterMap (fun i => K[i]?)) (enumFrom 0 K).reverse).take
          (m - (slotIdxs slots).length)).map (fun (p : Nat × Bytes) => ((p.1 : Int), sg p.1)))) := by
  unfold signingSolver
  rw [findSignatures_slots F m slots 0 hok (by omega)]
  simp only []
  rw [signLoop_eq C lookup dig ht z F.hz m _ sg _ _ hh]
  simp [slotIdxs]

end Pycoin.Sign
