import Pycoin.Proofs.MsgArmour
import Pycoin.Proofs.Base64
namespace Pycoin.MsgSigning
open Pycoin Pycoin.Gen.MsgSigning

def fieldChar (c : Char) : Bool := c.isAlphanum || c == '+' || c == '/' || c == '='

theorem pyIsSpace_cases (c : Char) (h : pyIsSpace c = true) : c.toNat = 9 ∨ c.toNat = 10 ∨ c.toNat = 11 ∨ c.toNat = 12 ∨ c.toNat = 13 ∨ c.toNat = 28 ∨ c.toNat = 29 ∨ c.toNat = 30 ∨ c.toNat = 31 ∨ c.toNat = 32 ∨ c.toNat = 133 ∨ c.toNat = 160 ∨ c.toNat = 5760 ∨ c.toNat = 8192 ∨ c.toNat = 8193 ∨ c.toNat = 8194 ∨ c.toNat = 8195 ∨ c.toNat = 8196 ∨ c.toNat = 8197 ∨ c.toNat = 8198 ∨ c.toNat = 8199 ∨ c.toNat = 8200 ∨ c.toNat = 8201 ∨ c.toNat = 8202 ∨ c.toNat = 8232 ∨ c.toNat = 8233 ∨ c.toNat = 8239 ∨ c.toNat = 8287 ∨ c.toNat = 12288 := by
  unfold pyIsSpace at h
  simp only [Bool.or_eq_true, Bool.and_eq_true, decide_eq_true_eq, beq_iff_eq] at h
  omega

theorem fieldChar_notSpace (c : Char) (h : fieldChar c = true) : pyIsSpace c = false := by
  cases hsp : pyIsSpace c with
  | false => rfl
  | true =>
    exfalso
    have hc : Char.ofNat c.toNat = c := Char.ofNat_toNat c
    rcases pyIsSpace_cases c hsp with e | e | e | e | e | e | e | e | e | e | e | e | e | e | e | e | e | e | e | e | e | e | e | e | e | e | e | e | e <;> (rw [e] at hc; subst hc; revert h; decide)

theorem fieldChar_ne (c : Char) (h : fieldChar c = true) : c ≠ '\n' ∧ c ≠ '\r' ∧ c ≠ '-' ∧ c ≠ ':' := by
  refine ⟨?_, ?_, ?_, ?_⟩ <;> (intro e; subst e; revert h; decide)


/-- an address or a signature as the signer writes them into the armour: non-empty text over letters, digits and
`+ / =` (the Base58, Bech32 and Base64 alphabets) -/
structure FieldOK (s : Str) : Prop where
  ne : s ≠ []
  chars : ∀ c ∈ s, fieldChar c = true

namespace FieldOK
variable {s : Str} (h : FieldOK s)
include h

theorem noNL : '\n' ∉ s := fun hm => (fieldChar_ne _ (h.chars _ hm)).1 rfl
theorem noColon : ':' ∉ s := fun hm => (fieldChar_ne _ (h.chars _ hm)).2.2.2 rfl

theorem strip : pyStrip s = s := by
  have hall : ∀ c ∈ s, pyIsSpace c = false := fun c hc => fieldChar_notSpace c (h.chars c hc)
  unfold pyStrip
  rw [dropWhile_of_all_false _ _ hall, dropWhile_of_all_false _ _ (fun c hc => hall c (List.mem_reverse.mp hc))]
  simp

theorem noCR : endsWithCR s = false := by
  unfold endsWithCR
  cases hl : s.getLast? with
  | none => rfl
  | some d =>
    have hd : d ∈ s := List.mem_of_getLast? hl
    have := (fieldChar_ne _ (h.chars _ hd)).2.1
    simp [this]

theorem head_ne_dash : ∃ c t, s = c :: t ∧ c ≠ '-' := by
  cases hs : s with
  | nil => exact absurd hs h.ne
  | cons c t => exact ⟨c, t, rfl, (fieldChar_ne _ (h.chars c (by simp [hs]))).2.2.1⟩

theorem notMarker : isSigMarker s = false := by
  obtain ⟨c, t, rfl, hc⟩ := h.head_ne_dash
  have : ("-----BEGIN ".toList).isPrefixOf (c :: t) = false := by
    have : "-----BEGIN ".toList = '-' :: "----BEGIN ".toList := by decide
    rw [this]
    simp [List.isPrefixOf, Ne.symm hc]
  unfold isSigMarker
  simp only [this, Bool.false_and]

theorem notEnd : endPrefix.toList.isPrefixOf s = false := by
  obtain ⟨c, t, rfl, hc⟩ := h.head_ne_dash
  have : endPrefix.toList = '-' :: "----END".toList := by decide
  rw [this]
  simp [List.isPrefixOf, Ne.symm hc]

end FieldOK

theorem pyStrip_of_ends (s : Str) (c d : Char) (t : Str) (hs : s = c :: t) (hl : s.getLast? = some d)
    (hc : pyIsSpace c = false) (hd : pyIsSpace d = false) : pyStrip s = s := by
  obtain ⟨ys, hys⟩ := List.getLast?_eq_some_iff.mp hl
  unfold pyStrip
  have h1 : s.dropWhile pyIsSpace = s := by rw [hs]; simp [hc]
  rw [h1]
  have h2 : s.reverse = d :: ys.reverse := by rw [hys]; simp
  rw [h2]
  simp [hd]
  rw [hys]

end Pycoin.MsgSigning
