import Mathlib.Tactic.Ring
import Pycoin.Model.VM.Num
import Pycoin.Spec.ScriptBasics
/-!
pycoin's `IntStreamer` = Core's `CScriptNum`; `bool_from_script_bytes` = `CastToBool`.
-/
namespace Pycoin.VM
open Pycoin.Spec.Consensus

/-! ### bytes -/

theorem u8_and80 : ∀ n, n < 256 → ((UInt8.ofNat n &&& 0x80 != 0) = decide (n ≥ 128)) := by decide +kernel
theorem u8_and7f : ∀ n, n < 256 → ((UInt8.ofNat n &&& 0x7f == 0) = decide (n % 128 = 0)) := by decide +kernel
theorem u8_or80 : ∀ n, n < 128 → (UInt8.ofNat n ||| 0x80) = UInt8.ofNat (n + 128) := by decide +kernel
theorem u8_ne0 : ∀ n, n < 256 → ((UInt8.ofNat n != 0) = decide (n ≠ 0)) := by decide +kernel
theorem u8_ne80 : ∀ n, n < 256 → ((UInt8.ofNat n != 0x80) = decide (n ≠ 128)) := by decide +kernel

theorem b_and80 (b : UInt8) : (b &&& 0x80 != 0) = decide (b.toNat ≥ 128) := by
  have := u8_and80 b.toNat b.toNat_lt; rwa [UInt8.ofNat_toNat] at this
theorem b_and7f (b : UInt8) : (b &&& 0x7f == 0) = decide (b.toNat % 128 = 0) := by
  have := u8_and7f b.toNat b.toNat_lt; rwa [UInt8.ofNat_toNat] at this
theorem b_ne0 (b : UInt8) : (b != 0) = decide (b.toNat ≠ 0) := by
  have := u8_ne0 b.toNat b.toNat_lt; rwa [UInt8.ofNat_toNat] at this
theorem b_ne80 (b : UInt8) : (b != 0x80) = decide (b.toNat ≠ 128) := by
  have := u8_ne80 b.toNat b.toNat_lt; rwa [UInt8.ofNat_toNat] at this

/-! ### decoding -/

theorem leNat_append (a b : Bytes) : leNat (a ++ b) = leNat a + 256 ^ a.length * leNat b := by
  induction a with
  | nil => simp [leNat]
  | cons x xs ih => simp only [List.cons_append, leNat, ih, List.length_cons, Nat.pow_succ]; ring_nf

theorem foldl_be (init : Bytes) (v0 : Nat) :
    init.reverse.foldl (fun v b => v * 256 + b.toNat) v0 = v0 * 256 ^ init.length + leNat init := by
  induction init generalizing v0 with
  | nil => simp [leNat]
  | cons a t ih =>
    simp only [List.reverse_cons, List.foldl_append, List.foldl_cons, List.foldl_nil, ih, leNat, List.length_cons,
      Nat.pow_succ]
    ring_nf

theorem snoc_of_reverse {s : Bytes} {i : UInt8} {rest : Bytes} (h : s.reverse = i :: rest) : s = rest.reverse ++ [i] := by
  have := congrArg List.reverse h
  simpa using this

theorem sub_sign (L P i : Nat) (h : i ≥ 128) (hi : i < 256) :
    L + P * (i + 256 * 0) - 0x80 * P = (i % 128) * P + L := by
  obtain ⟨j, hj⟩ : ∃ j, i = j + 128 := ⟨i - 128, by omega⟩
  subst hj
  have hm : (j + 128) % 128 = j := by omega
  rw [hm]
  have : L + P * (j + 128 + 256 * 0) = (j * P + L) + 0x80 * P := by ring
  rw [this, Nat.add_sub_cancel]

theorem decode_snoc (init : Bytes) (i : UInt8) :
    scriptNumDecode (init ++ [i]) =
      if i.toNat ≥ 128 then -((((i.toNat % 128) * 256 ^ init.length + leNat init : Nat)) : Int)
      else (((i.toNat % 128) * 256 ^ init.length + leNat init : Nat) : Int) := by
  have hlast : (init ++ [i]).getLast? = some i := by simp
  simp only [scriptNumDecode, hlast, b_and80, leNat_append, leNat, List.length_append, List.length_cons, List.length_nil,
    Nat.add_sub_cancel, Int.ofNat_eq_natCast]
  by_cases h : i.toNat ≥ 128
  · simp only [h, decide_true, if_true]
    rw [sub_sign _ _ _ h i.toNat_lt]
  · have hm : i.toNat % 128 = i.toNat := by omega
    simp only [h, decide_false, hm, if_false, Bool.false_eq_true]
    congr 1
    ring

/-- the body of `int_from_script_bytes` after `ba = reversed(s)`, `i = ba[0]`, `rest = ba[1:]` -/
def decodeRev (i : UInt8) (rest : Bytes) (requireMinimal : Bool) : M Int :=
  if requireMinimal && i.toNat % 128 == 0 &&
      (match rest with | [] => true | b :: _ => b.toNat < 128) then
    .error (scriptErr Gen.VM.errno_UNKNOWN_ERROR)
  else
    let mag : Nat := rest.foldl (fun v b => v * 256 + b.toNat) (i.toNat % 128)
    .ok (if i.toNat ≥ 128 then -(mag : Int) else (mag : Int))

theorem intFromScriptBytes_def (s : Bytes) (m : Bool) :
    intFromScriptBytes s m = match s.reverse with | [] => .ok 0 | i :: rest => decodeRev i rest m := rfl

theorem decodeRev_false (i : UInt8) (rest : Bytes) :
    decodeRev i rest false = .ok (scriptNumDecode (rest.reverse ++ [i])) := by
  have hf := foldl_be rest.reverse (i.toNat % 128)
  simp only [List.reverse_reverse, List.length_reverse] at hf
  simp only [decodeRev, Bool.false_and, Bool.false_eq_true, if_false, hf, decode_snoc, List.length_reverse]

theorem isMinimal_snoc (init : Bytes) (i : UInt8) :
    isMinimalNum (init ++ [i]) =
      !(i.toNat % 128 == 0 && (match init.reverse with | [] => true | b :: _ => decide (b.toNat < 128))) := by
  simp only [isMinimalNum, List.reverse_append, List.reverse_cons, List.reverse_nil, List.nil_append, List.cons_append,
    b_and7f]
  by_cases h : i.toNat % 128 = 0
  · simp only [h, decide_true, if_true, beq_self_eq_true, Bool.true_and]
    cases init.reverse with
    | nil => rfl
    | cons b r =>
      simp only [b_and80]
      by_cases hb : b.toNat < 128
      · have : ¬ b.toNat ≥ 128 := by omega
        simp [hb, this]
      · have : b.toNat ≥ 128 := by omega
        simp [hb, this]
  · simp [h]

theorem decodeRev_true (i : UInt8) (rest : Bytes) :
    decodeRev i rest true =
      if isMinimalNum (rest.reverse ++ [i]) then .ok (scriptNumDecode (rest.reverse ++ [i]))
      else .error (scriptErr Gen.VM.errno_UNKNOWN_ERROR) := by
  have hd := decodeRev_false i rest
  rw [isMinimal_snoc, List.reverse_reverse, ← hd]
  clear hd
  simp only [decodeRev, Bool.true_and, Bool.false_and, Bool.false_eq_true, if_false]
  split <;> split <;> simp_all

/-- C03M.scriptnum_decode: without the minimal flag pycoin's decoder is `CScriptNum::set_vch` (any length) -/
theorem intFromScriptBytes_false (s : Bytes) : intFromScriptBytes s false = .ok (scriptNumDecode s) := by
  rw [intFromScriptBytes_def]
  cases h : s.reverse with
  | nil =>
    have : s = [] := by simpa using h
    subst this; rfl
  | cons i rest => show decodeRev i rest false = _; rw [decodeRev_false, ← snoc_of_reverse h]

/-- C03M.scriptnum_minimal: with the flag, pycoin raises exactly when `CScriptNum`'s minimal-encoding test fails -/
theorem intFromScriptBytes_true (s : Bytes) :
    intFromScriptBytes s true =
      if isMinimalNum s then .ok (scriptNumDecode s) else .error (scriptErr Gen.VM.errno_UNKNOWN_ERROR) := by
  rw [intFromScriptBytes_def]
  cases h : s.reverse with
  | nil =>
    have : s = [] := by simpa using h
    subst this; rfl
  | cons i rest => show decodeRev i rest true = _; rw [decodeRev_true, ← snoc_of_reverse h]

/-! ### encoding -/

theorem natLEAux_zero (f : Nat) : natLEAux f 0 = [] := by cases f <;> simp [natLEAux]

theorem natLE_eq_leDigits (f n : Nat) (hn : 0 < n) (hf : n ≤ f) : natLEAux f n = leDigits f n := by
  induction f generalizing n with
  | zero => omega
  | succ f ih =>
    have hne : n ≠ 0 := by omega
    simp only [natLEAux, leDigits, hne, if_false]
    by_cases h : n ≥ 256
    · simp only [h, if_true]
      rw [ih (n / 256) (by omega) (by omega)]
    · have h1 : n / 256 = 0 := by omega
      have h2 : n % 256 = n := by omega
      simp [h, h1, h2, natLEAux_zero]

theorem leDigits_ne_nil (f n : Nat) : leDigits f n ≠ [] := by
  cases f <;> simp [leDigits]
  split <;> simp

theorem signFix_spec (neg : Bool) (l : Bytes) (hl : l ≠ []) :
    signFix neg l =
      match l.getLast? with
      | none => []
      | some last =>
        if last &&& 0x80 != 0 then l ++ [if neg then 0x80 else 0x00]
        else if neg then l.dropLast ++ [last ||| 0x80] else l := by
  induction l with
  | nil => exact absurd rfl hl
  | cons b t ih =>
    cases t with
    | nil =>
      simp only [signFix, List.getLast?_singleton, b_and80, List.dropLast_singleton, List.nil_append]
      by_cases hb : b.toNat ≥ 128
      · simp [hb]
      · have hb' : b.toNat < 128 := by omega
        have := u8_or80 b.toNat hb'
        rw [UInt8.ofNat_toNat] at this
        cases neg <;> simp [hb, this]
    | cons c t =>
      have := ih (by simp)
      simp only [signFix, this, List.getLast?_cons_cons, List.dropLast_cons₂]
      cases hg : List.getLast? (c :: t) with
      | none => simp at hg
      | some last =>
        simp only
        split
        · rfl
        · split <;> rfl

/-- C03M.scriptnum_encode: `int_to_script_bytes` = `CScriptNum::serialize` -/
theorem intToScriptBytes_eq (v : Int) : intToScriptBytes v = scriptNumEncode v := by
  unfold intToScriptBytes scriptNumEncode
  by_cases h : v = 0
  · simp [h]
  · have hn : 0 < v.natAbs := by omega
    simp only [h, if_false, natLE, natLE_eq_leDigits _ _ hn (Nat.le_refl _)]
    rw [signFix_spec _ _ (leDigits_ne_nil _ _)]
    cases List.getLast? (leDigits v.natAbs v.natAbs) <;> simp

/-! ### truthiness -/

theorem leNat_eq_zero (l : Bytes) : leNat l = 0 ↔ l.all (fun b => b.toNat == 0) = true := by
  induction l with
  | nil => simp [leNat]
  | cons a t ih =>
    simp only [leNat, List.all_cons, Bool.and_eq_true, beq_iff_eq]
    constructor
    · intro h; exact ⟨by omega, ih.mp (by omega)⟩
    · intro ⟨h1, h2⟩; have := ih.mpr h2; omega

theorem castToBool_snoc (init : Bytes) (i : UInt8) :
    castToBool (init ++ [i]) = (!(init.all (fun b => b.toNat == 0)) || decide (i.toNat % 128 ≠ 0)) := by
  induction init with
  | nil =>
    simp only [List.nil_append, castToBool, b_ne0, b_ne80, List.all_nil, Bool.not_true, Bool.false_or]
    have := i.toNat_lt
    by_cases h : i.toNat % 128 = 0
    · have : i.toNat = 0 ∨ i.toNat = 128 := by omega
      rcases this with h1 | h1 <;> simp [h, h1]
    · have h1 : i.toNat ≠ 0 := by omega
      have h2 : i.toNat ≠ 128 := by omega
      simp [h, h1, h2]
  | cons a t ih =>
    have hne : t ++ [i] ≠ [] := by simp
    have : castToBool (a :: (t ++ [i])) = (a != 0 || castToBool (t ++ [i])) := by
      cases hh : t ++ [i] with
      | nil => exact absurd hh hne
      | cons c r => rfl
    simp only [List.cons_append, this, ih, b_ne0, List.all_cons]
    by_cases ha : a.toNat = 0 <;> simp [ha]

theorem decode_ne_zero (s : Bytes) : (scriptNumDecode s != 0) = castToBool s := by
  cases h : s.reverse with
  | nil =>
    have : s = [] := by simpa using h
    subst this; rfl
  | cons i rest =>
    rw [snoc_of_reverse h, decode_snoc, castToBool_snoc]
    have hp : 0 < 256 ^ rest.reverse.length := Nat.pow_pos (by decide)
    have hz := leNat_eq_zero rest.reverse
    generalize 256 ^ rest.reverse.length = P at hp
    generalize leNat rest.reverse = L at hz
    generalize hq : (rest.reverse.all fun b => b.toNat == 0) = q at hz
    by_cases hi : i.toNat % 128 = 0
    · rw [hi]
      simp only [Nat.zero_mul, Nat.zero_add, ne_eq, not_true_eq_false, decide_false, Bool.or_false]
      cases q
      · have hL : L ≠ 0 := fun hh => by have := hz.mp hh; cases this
        split <;> simp <;> omega
      · have hL : L = 0 := hz.mpr rfl
        subst hL; split <;> simp
    · have hpos : 0 < i.toNat % 128 * P + L := by
        have : 0 < i.toNat % 128 * P := Nat.mul_pos (by omega) hp
        omega
      simp only [ne_eq, hi, not_false_eq_true, decide_true, Bool.or_true]
      generalize i.toNat % 128 * P + L = m at hpos
      split <;> simp <;> omega

/-- C03M.castToBool_eq -/
theorem boolFromScriptBytes_false (v : Bytes) : boolFromScriptBytes v false = .ok (castToBool v) := by
  simp only [boolFromScriptBytes, intFromScriptBytes_false, bind, Except.bind, Bool.false_eq_true, if_false, pure, Except.pure,
    decode_ne_zero]

end Pycoin.VM
