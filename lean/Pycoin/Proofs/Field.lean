import Pycoin.Model.Curve
import Mathlib.Algebra.Field.ZMod
import Mathlib.Data.ZMod.Basic
import Mathlib.Tactic.Ring
import Mathlib.Tactic.Linarith
import Mathlib.Tactic.LinearCombination
/-!
F5 — arithmetic facts behind C02/C01: Python `%`/`//` versus `Int.emod`/`Int.ediv`, correctness and
termination of the extended Euclid loop of `Curve.inverse_mod`, casts into `ZMod`.
-/
namespace Pycoin.Curve
open Pycoin

theorem fmod_eq_emod (x : Int) {m : Int} (hm : 0 ≤ m) : fmod x m = x % m :=
  Int.fmod_eq_emod_of_nonneg x hm

theorem fdiv_eq_ediv (x : Int) {m : Int} (hm : 0 ≤ m) : fdiv x m = x / m :=
  Int.fdiv_eq_ediv_of_nonneg x hm

@[simp] theorem fmod_natCast (x : Int) (m : Nat) : fmod x (m : Int) = x % (m : Int) :=
  fmod_eq_emod x (Int.natCast_nonneg m)

/-- loop invariant of `inverse_mod`: Bézout rows, `0 ≤ c < d`, and the sign pattern of the `u` column
(`uc = s·A`, `ud = −s·B` with `0 ≤ B ≤ A`, `A·d + B·c = m`) that bounds the result -/
structure EInv (a m c d uc vc ud vd s : Int) : Prop where
  c0 : 0 ≤ c
  cd : c < d
  bz1 : uc * a + vc * m = c
  bz2 : ud * a + vd * m = d
  s1 : s = 1 ∨ s = -1
  A0 : 0 ≤ s * uc
  B0 : 0 ≤ -(s * ud)
  sum : s * uc * d + (-(s * ud)) * c = m
  BA : -(s * ud) ≤ s * uc
  g : Int.gcd c d = Int.gcd a m

theorem egcdLoop_spec (a m : Int) :
    ∀ (fuel : Nat) (c d uc vc ud vd s : Int), EInv a m c d uc vc ud vd s → c.toNat < fuel →
      ∃ d' ud', egcdLoop fuel c d uc vc ud vd = .ok (d', ud') ∧ d' = Int.gcd a m ∧
        (∃ v, ud' * a + v * m = d') ∧ -m ≤ ud' ∧ ud' ≤ m := by
  intro fuel
  induction fuel with
  | zero => intro c d uc vc ud vd s _ h; omega
  | succ f ih =>
    intro c d uc vc ud vd s inv hf
    unfold egcdLoop
    by_cases hc : c = 0
    · subst hc
      simp only [if_true]
      have hd : 0 < d := inv.cd
      have hg : d = Int.gcd a m := by
        have := inv.g
        rw [Int.gcd_zero_left] at this
        omega
      refine ⟨d, ud, rfl, hg, ⟨vd, inv.bz2⟩, ?_, ?_⟩
      · have h1 := inv.sum; have h2 := inv.BA; have h3 := inv.B0
        simp only [mul_zero, add_zero] at h1
        have : s * uc ≤ m := by nlinarith [inv.A0]
        rcases inv.s1 with rfl | rfl <;> omega
      · have h1 := inv.sum; have h2 := inv.BA; have h3 := inv.B0
        simp only [mul_zero, add_zero] at h1
        have : s * uc ≤ m := by nlinarith [inv.A0]
        rcases inv.s1 with rfl | rfl <;> omega
    · simp only [hc, if_false]
      have hcpos : 0 < c := lt_of_le_of_ne inv.c0 (Ne.symm hc)
      rw [fmod_eq_emod d hcpos.le, fdiv_eq_ediv d hcpos.le]
      have hq : 1 ≤ d / c := by
        have : c ≤ d := inv.cd.le
        exact Int.le_ediv_of_mul_le hcpos (by omega)
      have hmod : d % c = d - c * (d / c) := by
        have := Int.emod_add_mul_ediv d c; omega
      have hlt : d % c < c := Int.emod_lt_of_pos d hcpos
      have hge : 0 ≤ d % c := Int.emod_nonneg d hc
      apply ih (d % c) c (ud - d / c * uc) (vd - d / c * vc) uc vc (-s)
      · refine ⟨hge, hlt, ?_, inv.bz1, ?_, ?_, ?_, ?_, ?_, ?_⟩
        · rw [hmod]; linear_combination inv.bz2 - (d / c) * inv.bz1
        · rcases inv.s1 with h | h <;> simp [h]
        · have := inv.A0; have := inv.B0
          nlinarith [mul_nonneg (by omega : (0:Int) ≤ d / c) inv.A0]
        · have := inv.A0; linarith
        · rw [hmod]; linear_combination inv.sum
        · have := inv.A0; have := inv.B0
          nlinarith [mul_nonneg (by omega : (0:Int) ≤ d / c - 1) inv.A0]
        · rw [← inv.g, Int.gcd_emod, Int.gcd_comm]
      · omega

theorem dvd_one_false {m : Int} (hm : 1 < m) (k : Int) (h : m * k = 1) : False := by
  have h1 : m ∣ 1 := ⟨k, h.symm⟩
  have := Int.le_of_dvd (by omega) h1
  omega

/-- `Curve.inverse_mod(a, m)` for `gcd(a, m) = 1`, `m > 1`: never out of fuel, never the assertion, result in
`[1, m−1]` and an inverse of `a` modulo `m` -/
theorem inverseMod_spec (a m : Int) (hm : 1 < m) (hg : Int.gcd a m = 1) :
    ∃ r, inverseMod a m = .ok r ∧ 1 ≤ r ∧ r < m ∧ (a * r) % m = 1 := by
  unfold inverseMod
  -- the normalised argument
  obtain ⟨a', ha', ha0, ham, t, hat⟩ : ∃ a', (if a < 0 ∨ m ≤ a then fmod a m else a) = a' ∧ 0 ≤ a' ∧ a' < m ∧
      ∃ t, a = a' + m * t := by
    by_cases h : a < 0 ∨ m ≤ a
    · refine ⟨a % m, by simp [h, fmod_eq_emod a (by omega : (0:Int) ≤ m)], Int.emod_nonneg a (by omega),
        Int.emod_lt_of_pos a (by omega), a / m, ?_⟩
      have := Int.emod_add_mul_ediv a m; omega
    · exact ⟨a, by simp [h], by omega, by omega, 0, by simp⟩
  simp only [ha']
  have hg' : Int.gcd a' m = 1 := by
    have : a' = a % m := by
      rw [hat, Int.add_mul_emod_self_left, Int.emod_eq_of_lt ha0 ham]
    rw [this, Int.gcd_emod, hg]
  have inv0 : EInv a' m a' m 1 0 0 1 1 := by
    refine ⟨ha0, ham, by ring, by ring, Or.inl rfl, by norm_num, by norm_num, by ring, by norm_num, rfl⟩
  obtain ⟨d', ud', hrun, hd', ⟨v, hbz⟩, hlo, hhi⟩ := egcdLoop_spec a' m (a'.toNat + 1) a' m 1 0 0 1 1 inv0 (by omega)
  rw [hrun]
  simp only
  rw [hg'] at hd'
  have hd1 : d' = 1 := by simpa using hd'
  subst hd1
  simp only [ne_eq, not_true_eq_false, if_false]
  -- ud' is none of 0, m, -m
  have h0 : ud' ≠ 0 := by
    rintro rfl
    exact dvd_one_false hm v (by linarith)
  have h1 : ud' ≠ m := by
    rintro rfl
    exact dvd_one_false hm (a' + v) (by linarith)
  have h2 : ud' ≠ -m := by
    rintro rfl
    exact dvd_one_false hm (-a' + v) (by linarith)
  have key : ∀ r ε, r = ud' + m * ε → (a * r) % m = 1 := by
    intro r ε hr
    have : a * r = 1 + m * (-v + a' * ε + t * ud' + m * t * ε) := by
      rw [hr, hat]; linear_combination hbz
    rw [this, Int.add_mul_emod_self_left]
    exact Int.emod_eq_of_lt (by omega) hm
  by_cases hpos : ud' > 0
  · simp only [hpos, if_true]
    exact ⟨ud', rfl, by omega, by omega, key ud' 0 (by ring)⟩
  · simp only [hpos, if_false]
    exact ⟨ud' + m, rfl, by omega, by omega, key (ud' + m) 1 (by ring)⟩

theorem intCast_fmod (p : Nat) (x : Int) : ((fmod x (p : Int) : Int) : ZMod p) = (x : ZMod p) := by
  rw [fmod_natCast, ZMod.intCast_mod]

theorem fmod_eq_zero_iff (p : Nat) (x : Int) : fmod x (p : Int) = 0 ↔ (x : ZMod p) = 0 := by
  rw [fmod_natCast, ZMod.intCast_zmod_eq_zero_iff_dvd, Int.dvd_iff_emod_eq_zero]

theorem fmod_range (p : Nat) (hp : 0 < p) (x : Int) : 0 ≤ fmod x (p : Int) ∧ fmod x (p : Int) < p := by
  rw [fmod_natCast]
  exact ⟨Int.emod_nonneg x (by omega), Int.emod_lt_of_pos x (by omega)⟩

theorem gcd_eq_one_of_prime (p : Nat) [hp : Fact p.Prime] (a : Int) (ha : (a : ZMod p) ≠ 0) :
    Int.gcd a (p : Int) = 1 := by
  rw [Ne, ZMod.intCast_zmod_eq_zero_iff_dvd, Int.natCast_dvd] at ha
  have := ((Nat.Prime.coprime_iff_not_dvd hp.out).2 ha).symm
  simpa [Int.gcd] using this

/-- `inverse_mod(a, p)` over a prime modulus is the field inverse -/
theorem inverseMod_prime (p : Nat) [hp : Fact p.Prime] (a : Int) (ha : (a : ZMod p) ≠ 0) :
    ∃ r, inverseMod a (p : Int) = .ok r ∧ 1 ≤ r ∧ r < p ∧ (r : ZMod p) = (a : ZMod p)⁻¹ := by
  have hp1 : (1 : Int) < p := by exact_mod_cast hp.out.one_lt
  obtain ⟨r, hr, h1, h2, h3⟩ := inverseMod_spec a p hp1 (gcd_eq_one_of_prime p a ha)
  refine ⟨r, hr, h1, h2, ?_⟩
  have : ((a * r : Int) : ZMod p) = 1 := by
    rw [← ZMod.intCast_mod, h3]; simp
  push_cast at this
  exact eq_inv_of_mul_eq_one_right this
