import Pycoin.Proofs.BIP32Ckd
import Pycoin.Proofs.BIP32Basic
/-!
C09 — master key generation from a seed (`BIP32Node.from_master_secret`, `network.keys.bip32_seed`) is the BIP's, and a
count of the HMAC outputs for which CKD declares a key invalid.
-/
namespace Pycoin.BIP32
open Pycoin.Curve WeierstrassCurve

theorem sha512_length (m : Bytes) : (Hash.sha512 m).length = 64 := by simp [Hash.sha512, Hash.u64be]

theorem hmacSha512_length (k m : Bytes) : (Hash.hmacSha512 k m).length = 64 := by
  unfold Hash.hmacSha512 Hash.hmacWith; exact sha512_length _

variable {g : Gen} [Good g.c]

theorem master_eq (seed : Bytes) :
    Spec.BIP32.master (mathCrypto g.c) seed =
      if beNat ((Hash.hmacSha512 seedKey seed).take 32) = 0 ∨ g.c.n ≤ beNat ((Hash.hmacSha512 seedKey seed).take 32) then none
      else some ⟨beNat ((Hash.hmacSha512 seedKey seed).take 32), (Hash.hmacSha512 seedKey seed).drop 32⟩ := rfl

theorem master_sound (kind : Kind) (seed : Bytes) (n : Node) (h : fromMasterSecret g kind seed = .ok n) :
    ∃ x, Spec.BIP32.master (mathCrypto g.c) seed = some x ∧ n.kind = kind ∧ n.secretExponent = some (x.k : Int) ∧
      n.chainCode = x.c ∧ n.depth = 0 ∧ n.parentFingerprint = [0, 0, 0, 0] ∧ n.childIndex = 0 ∧
      g.mul (x.k : Int) = .ok (some n.publicPair) ∧ 1 ≤ x.k ∧ x.k < g.c.n := by
  unfold fromMasterSecret at h
  obtain ⟨h1, h2, h3, h4, h5, -, -, hk⟩ := mkNode_ok h
  obtain ⟨hse, hlo, hhi, hmul, -⟩ := keyInit_priv_ok hk
  simp only [fromBytes32] at hse hlo hhi hmul
  have hlo' : 1 ≤ beNat ((Hash.hmacSha512 seedKey seed).take 32) := by exact_mod_cast hlo
  have hhi' : beNat ((Hash.hmacSha512 seedKey seed).take 32) < g.c.n := by exact_mod_cast hhi
  refine ⟨⟨beNat ((Hash.hmacSha512 seedKey seed).take 32), (Hash.hmacSha512 seedKey seed).drop 32⟩, ?_, h1, hse, h2, h3, h4, h5,
    hmul, hlo', hhi'⟩
  have hc : ¬ (beNat ((Hash.hmacSha512 seedKey seed).take 32) = 0 ∨ g.c.n ≤ beNat ((Hash.hmacSha512 seedKey seed).take 32)) := by
    omega
  rw [master_eq]
  exact if_neg hc

/-! ## counting the invalid case of CKD -/

/-- the 32-byte strings `I_L` with `parse256(I_L) ≥ n` are exactly the encodings `ser256(v)` of the `2²⁵⁶ − n` numbers
`n ≤ v < 2²⁵⁶` -/
theorem invalid_IL_iff (n : Nat) (IL : Bytes) (hl : IL.length = 32) :
    n ≤ Spec.BIP32.parse256 IL ↔ ∃ v, n ≤ v ∧ v < 2 ^ 256 ∧ IL = Spec.BIP32.ser256 v := by
  have h256 : (256 : Nat) ^ 32 = 2 ^ 256 := by decide
  constructor
  · intro h
    refine ⟨beNat IL, h, ?_, ?_⟩
    · have := leNat_lt IL.reverse
      simp only [List.length_reverse, hl, h256] at this
      exact this
    · have := beBytes_beNat IL
      rw [hl] at this
      exact this.symm
  · rintro ⟨v, h1, h2, rfl⟩
    simp only [Spec.BIP32.parse256, Spec.BIP32.ser256]
    rw [beNat_beBytes_of_lt (by rw [h256]; exact h2)]
    exact h1

/-- the numbers `n ≤ v < 2²⁵⁶`, listed: there are `2²⁵⁶ − n` of them and `ser256` maps them injectively -/
theorem ser256_injective {a b : Nat} (ha : a < 2 ^ 256) (hb : b < 2 ^ 256) (h : Spec.BIP32.ser256 a = Spec.BIP32.ser256 b) :
    a = b := by
  have h256 : (256 : Nat) ^ 32 = 2 ^ 256 := by decide
  have := congrArg beNat h
  simp only [Spec.BIP32.ser256] at this
  rwa [beNat_beBytes_of_lt (by rw [h256]; exact ha), beNat_beBytes_of_lt (by rw [h256]; exact hb)] at this

end Pycoin.BIP32
