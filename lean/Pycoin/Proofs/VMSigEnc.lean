import Mathlib.Tactic.SplitIfs
import Pycoin.Model.VM.CheckSig
import Pycoin.Spec.SigEncoding
import Pycoin.Proofs.VMStep
/-!
Signature / public-key / hash-type **encoding rules**: pycoin's checks (`checksigops.py`) against Core's
(`IsValidSignatureEncoding`, `IsDefinedHashtypeSignature`, `IsCompressedOrUncompressedPubKey`, `IsCompressedPubKey`).
-/
namespace Pycoin.VM
open Pycoin.Spec Pycoin.Gen.VM Consensus

theorem at'_eq (sig : Bytes) (i : Nat) (h : i < sig.length) : at' sig i = .ok (byteAt sig i) := by
  unfold at' byteAt
  rw [List.getElem?_eq_getElem h]

theorem pkOk_eq (fb : UInt8) (t : Bytes) :
    (decide ((fb :: t).length ≥ 33) && ((fb = 4 && (fb :: t).length = 65) || ((fb = 2 || fb = 3) && (fb :: t).length = 33))) =
      isCompressedOrUncompressedPubKey (fb :: t) := by
  unfold isCompressedOrUncompressedPubKey
  simp only [List.length_cons, List.getElem?_cons_zero]
  by_cases hl : t.length + 1 < 33
  · have : ¬ (t.length + 1 ≥ 33) := by omega
    simp [hl, this]
  · have h33 : t.length + 1 ≥ 33 := by omega
    simp only [hl, if_false, h33, decide_true, Bool.true_and]
    by_cases h4 : fb = 4
    · subst h4; simp [beq_iff_eq, decide_eq_decide]; by_cases hh : t.length = 64 <;> simp [hh]
    · by_cases h2 : fb = 2
      · subst h2; simp; by_cases hh : t.length = 32 <;> simp [hh]
      · by_cases h3 : fb = 3
        · subst h3; simp; by_cases hh : t.length = 32 <;> simp [hh]
        · simp only [h4, h2, h3, decide_false, Bool.false_and, Bool.or_self, Bool.false_or]
          split <;> simp_all

/-- `check_public_key_encoding` = `IsCompressedOrUncompressedPubKey` -/
theorem pubkeyEncoding_eq (blob : Bytes) :
    checkPublicKeyEncoding blob = if isCompressedOrUncompressedPubKey blob then .ok () else .error (scriptErr errno_PUBKEYTYPE) := by
  rcases blob with _ | ⟨fb, t⟩
  · simp [checkPublicKeyEncoding, isCompressedOrUncompressedPubKey]
  · rw [← pkOk_eq]
    simp only [checkPublicKeyEncoding]
    rfl

/-- the WITNESS_PUBKEYTYPE test of `checksig` = `IsCompressedPubKey` -/
theorem compressedKey_eq (blob : Bytes) :
    (decide (blob.length ≠ 33) || !(decide (blob.head? = some 2) || decide (blob.head? = some 3))) = !isCompressedPubKey blob := by
  unfold isCompressedPubKey
  rcases blob with _ | ⟨fb, t⟩
  · simp
  · by_cases hl : t.length + 1 = 33 <;> by_cases h2 : fb = 2 <;> by_cases h3 : fb = 3 <;> simp [hl, h2, h3] <;> omega

theorem hashtype_byte : ∀ n, n < 256 → andNot n SIGHASH_ANYONECANPAY = n &&& (255 - 0x80) := by decide +kernel

/-- `check_defined_hashtype_signature` = `IsDefinedHashtypeSignature` (on a non-empty signature) -/
theorem definedHashtype_eq (sig : Bytes) (h : sig ≠ []) :
    checkDefinedHashtypeSignature sig =
      if isDefinedHashtypeSignature sig then .ok () else .error (scriptErr errno_SIG_HASHTYPE) := by
  unfold checkDefinedHashtypeSignature isDefinedHashtypeSignature
  cases hl : sig.getLast? with
  | none => simp at hl; exact absurd hl h
  | some b =>
    simp only [hashtype_byte b.toNat b.toNat_lt, SIGHASH_ALL, SIGHASH_SINGLE]
    by_cases h1 : b.toNat &&& (255 - 0x80) < 1
    · simp [h1]
    · by_cases h3 : b.toNat &&& (255 - 0x80) > 3
      · simp [h1, h3]
      · simp [h1, h3, pure, Except.pure]

theorem byte_ge128 (n : Nat) : (n &&& 0x80 != 0) = decide (n % 256 ≥ 128) ∨ n ≥ 256 := by
  by_cases h : n < 256
  · left
    have : ∀ m, m < 256 → ((m &&& 0x80 != 0) = decide (m % 256 ≥ 128)) := by decide +kernel
    exact this n h
  · right; omega

theorem byteAt_lt (sig : Bytes) (i : Nat) : byteAt sig i < 256 := by
  unfold byteAt; split
  · exact UInt8.toNat_lt _
  · decide

theorem byteAt_hi (sig : Bytes) (i : Nat) : (byteAt sig i &&& 0x80 != 0) = decide (byteAt sig i ≥ 128) := by
  have h := byteAt_lt sig i
  rcases byte_ge128 (byteAt sig i) with h1 | h1
  · rw [h1, Nat.mod_eq_of_lt h]
  · omega

theorem byteAt_lo (sig : Bytes) (i : Nat) : (byteAt sig i &&& 0x80 == 0) = decide (byteAt sig i < 128) := by
  have := byteAt_hi sig i
  by_cases h : byteAt sig i ≥ 128
  · simp only [h, decide_true] at this
    have h2 : ¬ byteAt sig i < 128 := by omega
    simp only [h2, decide_false]
    cases hh : (byteAt sig i &&& 0x80 == 0) <;> simp_all
  · simp only [h, decide_false] at this
    have h2 : byteAt sig i < 128 := by omega
    simp only [h2, decide_true]
    cases hh : (byteAt sig i &&& 0x80 == 0) <;> simp_all

/-- `check_valid_signature` (`_check_valid_signature_1/_2`) = `IsValidSignatureEncoding`, for every byte string -/
theorem validSignature_eq (sig : Bytes) :
    checkValidSignature sig = if isValidSignatureEncoding sig then .ok () else .error sigDer := by
  unfold checkValidSignature isValidSignatureEncoding
  simp only [bind, Except.bind, pure, Except.pure]
  by_cases h1 : sig.length < 9
  · simp [h1]
  by_cases h2 : sig.length > 73
  · simp [h1, h2]
  have i0 : 0 < sig.length := by omega
  have i1 : 1 < sig.length := by omega
  have i2 : 2 < sig.length := by omega
  have i3 : 3 < sig.length := by omega
  have i4 : 4 < sig.length := by omega
  have i5 : 5 < sig.length := by omega
  simp only [h1, h2, Bool.or_self, Bool.false_eq_true, if_false, at'_eq sig 0 i0, at'_eq sig 1 i1, at'_eq sig 3 i3,
    decide_false]
  by_cases h3 : byteAt sig 0 = 0x30
  case neg => simp [h3]
  by_cases h4 : byteAt sig 1 = sig.length - 3
  case neg => simp [h3, h4]
  by_cases h5 : 5 + byteAt sig 3 ≥ sig.length
  · simp [h3, h4, h5]
  have i6 : 5 + byteAt sig 3 < sig.length := by omega
  simp only [h3, h4, h5, at'_eq sig _ i6, ne_eq, not_true_eq_false, if_false, bne_self_eq_false, Bool.false_eq_true,
    decide_false]
  by_cases h6 : byteAt sig 3 + byteAt sig (5 + byteAt sig 3) + 7 = sig.length
  case neg => simp [h6]
  have i7 : byteAt sig 3 + 4 < sig.length := by omega
  simp only [h6, at'_eq sig 2 i2, at'_eq sig 4 i4, at'_eq sig 5 i5, at'_eq sig _ i7, ne_eq, not_true_eq_false, if_false,
    bne_self_eq_false, Bool.false_eq_true, byteAt_hi, byteAt_lo]
  by_cases h7 : byteAt sig 2 = 2
  case neg => simp [h7]
  by_cases h8 : byteAt sig 3 = 0
  · simp [h7, h8]
  by_cases h9 : byteAt sig 4 ≥ 128
  · simp [h7, h8, h9]
  by_cases h10 : (decide (byteAt sig 3 > 1) && decide (byteAt sig 4 = 0) && decide (byteAt sig 5 < 128)) = true
  · simp only [Bool.and_eq_true, decide_eq_true_eq] at h10
    simp [h7, h8, h9, h10.1.1, h10.1.2, h10.2]
  have h10' : ¬ (1 < byteAt sig 3 ∧ byteAt sig 4 = 0 ∧ byteAt sig 5 < 128) := by
    intro ⟨a, b, c⟩; apply h10; simp [a, b, c]
  have hA : ¬ ((1 < byteAt sig 3 ∧ byteAt sig 4 = 0) ∧ byteAt sig 5 < 128) := fun ⟨⟨a, b⟩, c⟩ => h10' ⟨a, b, c⟩
  by_cases h11 : byteAt sig (byteAt sig 3 + 4) = 2
  case neg => simp [h7, h8, h9, h11, hA]
  by_cases h12 : byteAt sig (5 + byteAt sig 3) = 0
  · simp [h7, h8, h9, h11, h12, hA]
  have i8 : byteAt sig 3 + 6 < sig.length := by omega
  have i9 : byteAt sig 3 + 7 < sig.length := by omega
  simp only [h7, h8, h9, h11, h12, at'_eq sig _ i8, at'_eq sig _ i9, ne_eq, not_true_eq_false, if_false, decide_false,
    Bool.false_eq_true, bne_self_eq_false, beq_iff_eq]
  by_cases h13 : byteAt sig (byteAt sig 3 + 6) ≥ 128
  · simp [h13, hA]
  · simp only [h13, hA, Bool.and_eq_true, decide_eq_true_eq, decide_false, Bool.false_eq_true, if_false, gt_iff_lt]
    split_ifs <;> simp_all

end Pycoin.VM
