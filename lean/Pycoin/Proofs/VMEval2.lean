import Mathlib.Tactic.SplitIfs
import Pycoin.Proofs.VMInstr4
import Pycoin.Proofs.VMEval
namespace Pycoin.VM
open Pycoin.Spec Pycoin.Gen.VM CondStack Consensus

variable (chk : Bytes → Bytes → Bytes → Bool → Bool) (cfg : Config)

theorem getScriptOp_facts (rest : Bytes) (op : Nat) (d r : Bytes) (sz : Nat)
    (h : getScriptOp rest = some (op, d, r, sz)) : op < 256 ∧ (0x4e < op → d = []) := by
  cases rest with
  | nil => simp [getScriptOp] at h
  | cons b tl =>
    have hopb := getScriptOp_op b tl op d r sz h
    refine ⟨by rw [hopb]; exact b.toNat_lt, fun ho => ?_⟩
    rw [spec_other b tl (by rw [← hopb]; exact ho)] at h
    simp only [Option.some.injEq, Prod.mk.injEq] at h
    exact h.2.1.symm

/-- the states Core's loop is in while it follows `cfg.script`, started on `stack0`: `(pc, state)` -/
inductive Reach (stack0 : List Bytes) : Nat → Consensus.State → Prop
  | init : Reach stack0 0 { stack := stack0 }
  | step {pc : Nat} {st st' : Consensus.State} {op : Nat} {data rest' : Bytes} {size : Nat} :
      Reach stack0 pc st → getScriptOp (cfg.script.drop pc) = some (op, data, rest', size) →
      specStep chk cfg st op data (pc + size) = .ok st' → Reach stack0 (pc + size) st'

/-- **signature deletion is shared**: in every state of Core's run of `cfg.script`, for any signatures taken from its
stack, pycoin's `_delete_signature` walk (bottom-most signature first) and Core's `FindAndDelete` (top-most first)
produce the same script code — the content of property C04.  Holds trivially for witness VMs, and for every script whose
instructions all decode (`sigDelShared_walkable`). -/
def SigDelShared (stack0 : List Bytes) : Prop :=
  ∀ pc st, Reach chk cfg stack0 pc st → ∀ sigs, (∀ x ∈ sigs, x ∈ st.stack) → DelAgrees cfg st sigs

theorem sigDelShared_witness (h : cfg.witness = true) (stack0 : List Bytes) : SigDelShared chk cfg stack0 :=
  fun _ st _ sigs _ => delAgrees_witness cfg h st sigs

/-- the two loops from corresponding states, all opcodes -/
theorem loop_eq_all (hw : hasFlag cfg.flags VERIFY_MINIMALIF = true → cfg.witness = true)
    (hwp : hasFlag cfg.flags VERIFY_WITNESS_PUBKEYTYPE = true → cfg.witness = true) (hchk : ChkWF chk)
    (stack0 : List Bytes) (hdel : SigDelShared chk cfg stack0) :
    ∀ (fuel : Nat) (st : Consensus.State) (pc : Nat), Reach chk cfg stack0 pc st → pc ≤ cfg.script.length →
      (evalLoop (stdEnv chk) cfg fuel (absS st pc)).toOption =
        (specLoop chk cfg fuel (cfg.script.drop pc) pc st).toOption.map (absS · cfg.script.length) := by
  intro fuel
  induction fuel with
  | zero =>
    intro st pc _ hpc
    rw [specLoop_zero]
    simp only [evalLoop, absS]
    by_cases h : pc < cfg.script.length
    · have : (cfg.script.drop pc).isEmpty = false := by
        cases hd : cfg.script.drop pc with
        | nil => have := List.drop_eq_nil_iff.mp hd; omega
        | cons => rfl
      simp [h, this, Except.toOption]
    · have hpc' : pc = cfg.script.length := by omega
      have : (cfg.script.drop pc).isEmpty = true := by rw [hpc']; simp
      simp [h, this, Except.toOption, pure, Except.pure, hpc']
  | succ fuel ih =>
    intro st pc hreach hpc
    rw [specLoop_succ]
    by_cases h : pc < cfg.script.length
    · have hne : (cfg.script.drop pc).isEmpty = false := by
        cases hd : cfg.script.drop pc with
        | nil => have := List.drop_eq_nil_iff.mp hd; omega
        | cons => rfl
      have hi := instr_eq_all chk cfg st pc h hw hwp hchk (hdel pc st hreach)
      have hpcs : (absS st pc).pc < cfg.script.length := h
      simp only [evalLoop, hpcs, if_true, hne, Bool.false_eq_true, if_false, bind, Except.bind]
      cases hg : getScriptOp (cfg.script.drop pc) with
      | none =>
        rw [hg] at hi
        simp only at hi
        obtain ⟨e, he⟩ := (toOption_none_iff _).mp hi
        simp [he, Except.toOption]
      | some r =>
        obtain ⟨op, data, rest', size⟩ := r
        rw [hg] at hi
        simp only at hi
        obtain ⟨hrest, hpos, hle⟩ := getScriptOp_rest _ _ _ _ _ hg
        have hlen : (cfg.script.drop pc).length = cfg.script.length - pc := List.length_drop
        have hpc2 : pc + size ≤ cfg.script.length := by omega
        have hdrop : rest' = cfg.script.drop (pc + size) := by rw [hrest, List.drop_drop]
        unfold Agree at hi
        cases hs : specStep chk cfg st op data (pc + size) with
        | error e =>
          rw [hs] at hi
          obtain ⟨e', he⟩ := (toOption_none_iff _).mp hi
          simp [he, hs, Except.toOption]
        | ok st' =>
          rw [hs] at hi
          have hm := (toOption_ok_iff _ _).mp hi
          simp only [hm, hs]
          rw [hdrop]
          exact ih st' (pc + size) (Reach.step hreach hg hs) hpc2
    · have hpc' : pc = cfg.script.length := by omega
      subst hpc'
      have h0 : ¬ (absS st cfg.script.length).pc < cfg.script.length := Nat.lt_irrefl _
      simp [evalLoop, h0, Except.toOption, pure, Except.pure]

/-- C03.eval_eq, every opcode: same verdict, and on success the same final stack -/
theorem evalScript_eq_all (hw : hasFlag cfg.flags VERIFY_MINIMALIF = true → cfg.witness = true)
    (hwp : hasFlag cfg.flags VERIFY_WITNESS_PUBKEYTYPE = true → cfg.witness = true) (hchk : ChkWF chk)
    (stack : List Bytes) (hdel : SigDelShared chk cfg stack) :
    (evalScript (stdEnv chk) cfg stack).toOption.map (·.stack) =
      (Consensus.evalScript (specChk chk) stack cfg.script (Flags.ofBits cfg.flags)
        ⟨cfg.ctx.version, cfg.ctx.lockTime, cfg.ctx.sequence⟩ (if cfg.witness then .witnessV0 else .base)).toOption := by
  have hl := loop_eq_all chk cfg hw hwp hchk stack hdel cfg.script.length { stack := stack } 0 Reach.init (Nat.zero_le _)
  have h0 : (absS { stack := stack } 0 : State) = { stack := stack } := by simp [absS, absC]
  rw [h0] at hl
  simp only [List.drop_zero] at hl
  rw [specEval_def]
  unfold evalScript
  by_cases hsz : cfg.script.length > 10000
  · have : cfg.script.length > Gen.VM.MAX_SCRIPT_LENGTH := hsz
    have h2 : cfg.script.length > Consensus.MAX_SCRIPT_SIZE := hsz
    simp [this, h2, Except.toOption, bind, Except.bind]
  · have : ¬ cfg.script.length > Gen.VM.MAX_SCRIPT_LENGTH := hsz
    have h2 : ¬ cfg.script.length > Consensus.MAX_SCRIPT_SIZE := hsz
    simp only [this, h2, if_false, bind, Except.bind, pure, Except.pure]
    cases hsl : specLoop chk cfg cfg.script.length cfg.script 0 { stack := stack } with
    | error e =>
      rw [hsl] at hl
      obtain ⟨e', he⟩ := (toOption_none_iff _).mp hl
      simp [he, Except.toOption]
    | ok st' =>
      rw [hsl] at hl
      have hm := (toOption_ok_iff _ _).mp hl
      simp only [hm, postScriptCheck]
      have hf := absC_final st'.vfExec
      by_cases hv : st'.vfExec = []
      · have hfin := hf.mpr hv
        rw [hv] at hfin
        simp [absS, hfin, hv, Except.toOption]
      · have hne : (absC st'.vfExec).checkFinalState ≠ .ok () := fun hh => hv (hf.mp hh)
        have hemp : st'.vfExec.isEmpty = false := by cases hx : st'.vfExec <;> simp_all
        cases hc : (absC st'.vfExec).checkFinalState with
        | ok u => exact absurd (by rw [hc]) hne
        | error e => simp [absS, hc, hemp, Except.toOption]
end Pycoin.VM
