import Pycoin.Proofs.SignEvalN
/-!
C05 — the P2SH scriptSig: direct pushes followed by the push of the redeem script the way Core's `CScript << vch` (and pycoin's
`compile_push_data`) write it for 2..520 bytes: direct (≤ 75), `PUSHDATA1` (76..255), `PUSHDATA2` (256..520).
-/
namespace Pycoin.Sign
open Pycoin Pycoin.Spec.Consensus

theorem hasAtLeast_of_le (l : Bytes) (n : Nat) (h : n ≤ l.length) : hasAtLeast l n = true := by
  unfold hasAtLeast
  cases n with
  | zero => simp
  | succ k =>
    have hl : (l.drop k).length = l.length - k := List.length_drop
    cases hd : l.drop k with
    | nil => rw [hd] at hl; simp at hl; omega
    | cons a b => simp [hd]

theorem pushData_direct (d : Bytes) (h : d.length ≤ 75) : pushData d = UInt8.ofNat d.length :: d := by
  unfold pushData
  simp only []
  rw [if_pos (show d.length < OP_PUSHDATA1 by simp only [OP_PUSHDATA1]; omega)]

theorem pushData_1 (d : Bytes) (h75 : ¬ d.length ≤ 75) (h : d.length ≤ 255) :
    pushData d = 0x4c :: UInt8.ofNat d.length :: d := by
  unfold pushData
  simp only []
  rw [if_neg (show ¬ d.length < OP_PUSHDATA1 by simp only [OP_PUSHDATA1]; omega), if_pos (show d.length ≤ 0xff by omega)]
  rfl

theorem pushData_2 (d : Bytes) (h255 : ¬ d.length ≤ 255) (h : d.length ≤ 65535) :
    pushData d = 0x4d :: (leBytes d.length 2 ++ d) := by
  unfold pushData
  simp only []
  rw [if_neg (show ¬ d.length < OP_PUSHDATA1 by simp only [OP_PUSHDATA1]; omega), if_neg (show ¬ d.length ≤ 0xff by omega),
    if_pos (show d.length ≤ 0xffff by omega)]
  rfl

theorem leNat_one (x : UInt8) : leNat [x] = x.toNat := by simp [leNat]

/-- `GetScriptOp` reads `CScript << d` back as `d` with an opcode the minimal-push rule accepts (2..520 bytes) -/
theorem getScriptOp_pushData (d rest : Bytes) (h : d.length ≤ 520) :
    ∃ opc size, getScriptOp (pushData d ++ rest) = some (opc, d, rest, size) ∧ opc ≤ 0x4e ∧
      (2 ≤ d.length → checkMinimalPush d opc = true) := by
  by_cases h75 : d.length ≤ 75
  · refine ⟨d.length, 1 + 0 + d.length, ?_, by omega, fun h2 => checkMinimalPush_direct d h2 h75⟩
    rw [pushData_direct d h75]; exact getScriptOp_direct d rest h75
  · have hmin : ∀ opc, (if d.length ≤ 255 then opc = OP_PUSHDATA1 else opc = OP_PUSHDATA2) → checkMinimalPush d opc = true := by
      intro opc ho
      unfold checkMinimalPush
      match d, h75 with
      | a :: b :: t, h75 =>
        simp only [h75, if_false]
        by_cases h255 : (a :: b :: t).length ≤ 255
        · simp only [h255, if_true] at ho ⊢; simp [ho]
        · have : (a :: b :: t).length ≤ 65535 := by omega
          simp only [h255, if_false, this, if_true] at ho ⊢; simp [ho]
      | [x], h75 => simp at h75
      | [], h75 => simp at h75
    by_cases h255 : d.length ≤ 255
    · have e : pushData d ++ rest = 0x4c :: UInt8.ofNat d.length :: (d ++ rest) := by
        rw [pushData_1 d h75 h255]; rfl
      have tn : (UInt8.ofNat d.length).toNat = d.length := toNat_ofNat_lt (by omega)
      refine ⟨0x4c, 1 + 1 + d.length, ?_, by decide, fun _ => hmin _ (by simp [h255, OP_PUSHDATA1])⟩
      rw [e]
      unfold getScriptOp
      have ha1 : hasAtLeast (UInt8.ofNat d.length :: (d ++ rest)) 1 = true := hasAtLeast_of_le _ _ (by simp)
      have ha2 : hasAtLeast (d ++ rest) d.length = true := hasAtLeast_of_le _ _ (by simp)
      simp [OP_PUSHDATA4, OP_PUSHDATA1, OP_PUSHDATA2, ha1, ha2, leNat_one, tn]
    · have hl : leNat (leBytes d.length 2) = d.length :=
        leNat_leBytes_of_lt (show d.length < 256 ^ 2 by omega)
      have e : pushData d ++ rest = 0x4d :: (leBytes d.length 2 ++ (d ++ rest)) := by
        rw [pushData_2 d h255 (by omega)]; simp
      refine ⟨0x4d, 1 + 2 + d.length, ?_, by decide, fun _ => hmin _ (by simp [h255, OP_PUSHDATA2])⟩
      rw [e]
      unfold getScriptOp
      have ha1 : hasAtLeast (leBytes d.length 2 ++ (d ++ rest)) 2 = true := hasAtLeast_of_le _ _ (by simp [leBytes])
      have t2 : (leBytes d.length 2 ++ (d ++ rest)).take 2 = leBytes d.length 2 := by
        rw [List.take_left' (by simp [leBytes])]
      have d2 : (leBytes d.length 2 ++ (d ++ rest)).drop 2 = d ++ rest := by
        rw [List.drop_left' (by simp [leBytes])]
      have ha2 : hasAtLeast (d ++ rest) d.length = true := hasAtLeast_of_le _ _ (by simp)
      simp [OP_PUSHDATA4, OP_PUSHDATA1, OP_PUSHDATA2, ha1, ha2, t2, d2, hl]

/-- executing `CScript << d` (2..520 bytes) pushes `d` -/
theorem evalLoopP_pushData (chk : PChk) (env : Env) (d rest : Bytes) (h2 : 2 ≤ d.length) (h : d.length ≤ 520) (pc : Nat)
    (stack alt : List Bytes) (nOp cs : Nat) (hst : stack.length + alt.length < 1000) (hops : nOp ≤ 201) :
    ∃ pc', evalLoopP chk env (pushData d ++ rest) pc ⟨stack, alt, [], nOp, cs⟩ =
      evalLoopP chk env rest pc' ⟨d :: stack, alt, [], nOp, cs⟩ := by
  obtain ⟨opc, size, hg, ho, hmin⟩ := getScriptOp_pushData d rest h
  have hne : pushData d ++ rest ≠ [] := by
    intro h0; rw [h0] at hg; simp [getScriptOp] at hg
  cases hp : pushData d ++ rest with
  | nil => exact absurd hp hne
  | cons b r =>
    rw [hp] at hg
    exact ⟨pc + size, evalLoopP_step _ _ _ _ _ _ _ hg
      (stepP_push _ _ _ _ _ _ _ _ _ ho h (hmin h2) hst hops)⟩

theorem isPushOnlyAux_nil (f : Nat) : isPushOnlyAux f [] = true := by
  cases f <;> simp [isPushOnlyAux]

/-- direct pushes followed by a push-only tail are push-only -/
theorem isPushOnlyAux_pushes_append : ∀ (items : List Bytes) (tail : Bytes) (f : Nat), (∀ d ∈ items, d.length ≤ 75) →
    (∀ f', tail.length ≤ f' → isPushOnlyAux f' tail = true) →
    (pushesOf items ++ tail).length ≤ f → isPushOnlyAux f (pushesOf items ++ tail) = true := by
  intro items
  induction items with
  | nil => intro tail f _ ht hf; simpa [pushesOf] using ht f (by simpa [pushesOf] using hf)
  | cons d r ih =>
    intro tail f hall ht hf
    have hd : d.length ≤ 75 := hall d (by simp)
    have e : pushesOf (d :: r) ++ tail = UInt8.ofNat d.length :: (d ++ (pushesOf r ++ tail)) := by
      simp [pushesOf, directPush]
    rw [e] at hf ⊢
    cases f with
    | zero => simp at hf
    | succ f' =>
      simp only [isPushOnlyAux, List.isEmpty_cons, getScriptOp_direct d _ hd]
      have : ¬ d.length > OP_16 := by simp [OP_16]; omega
      simp only [Bool.false_eq_true, if_false, this]
      apply ih tail f' (fun x hx => hall x (List.mem_cons_of_mem _ hx)) ht
      simp only [List.length_cons, List.length_append] at hf ⊢; omega

theorem isPushOnlyAux_pushData (d : Bytes) (h : d.length ≤ 520) (f : Nat) (hf : (pushData d).length ≤ f) :
    isPushOnlyAux f (pushData d) = true := by
  obtain ⟨opc, size, hg, ho, _⟩ := getScriptOp_pushData d [] h
  simp only [List.append_nil] at hg
  cases f with
  | zero =>
    have : (pushData d).length = 0 := by omega
    have : pushData d = [] := List.eq_nil_of_length_eq_zero this
    rw [this] at hg; simp [getScriptOp] at hg
  | succ f' =>
    simp only [isPushOnlyAux, hg]
    have : ¬ opc > OP_16 := by simp [OP_16]; omega
    simp [this, isPushOnlyAux_nil]

/-- a P2SH scriptSig: direct pushes, then the redeem script -/
theorem isPushOnly_pushes_pushData (items : List Bytes) (redeem : Bytes) (hall : ∀ d ∈ items, d.length ≤ 75)
    (h : redeem.length ≤ 520) : isPushOnly (pushesOf items ++ pushData redeem) = true :=
  isPushOnlyAux_pushes_append items _ _ hall (fun f' hf' => isPushOnlyAux_pushData redeem h f' hf') (Nat.le_refl _)

theorem pushData_length_le (d : Bytes) (h : d.length ≤ 520) : (pushData d).length ≤ d.length + 3 := by
  by_cases h75 : d.length ≤ 75
  · rw [pushData_direct d h75]; simp
  · by_cases h255 : d.length ≤ 255
    · rw [pushData_1 d h75 h255]; simp
    · rw [pushData_2 d h255 (by omega)]; simp [leBytes]

/-- evaluating the P2SH scriptSig leaves the redeem script on top of the items -/
theorem evalScript_pushes_pushData (chk : PChk) (items : List Bytes) (redeem : Bytes) (flags : Flags) (tx : TxCtx)
    (hall : ∀ d ∈ items, d.length = 0 ∨ (2 ≤ d.length ∧ d.length ≤ 75)) (hcount : items.length ≤ 100)
    (h2 : 2 ≤ redeem.length) (h : redeem.length ≤ 520) :
    evalScript chk [] (pushesOf items ++ pushData redeem) flags tx .base = .ok (redeem :: items.reverse) := by
  have hl := pushesOf_length_le items 75 (fun d hd => by rcases hall d hd with h | h <;> omega)
  have hl2 := pushData_length_le redeem h
  apply evalScript_of_loop _ _ _ _ _ _ (by simp; omega) ⟨redeem :: items.reverse, [], [], 0, 0⟩ _ rfl
  generalize (⟨pushesOf items ++ pushData redeem, flags, .base, tx⟩ : Env) = env
  obtain ⟨pc', h1⟩ := evalLoopP_pushes chk env items (pushData redeem) 0 [] [] 0 0 hall (by simp; omega) (by omega)
  rw [h1]
  simp only [List.append_nil]
  obtain ⟨pc'', h2'⟩ := evalLoopP_pushData chk env redeem [] h2 h pc' (items.reverse ++ []) [] 0 0 (by simp; omega) (by omega)
  simp only [List.append_nil] at h2'
  rw [h2', evalLoopP_nil]

end Pycoin.Sign
