import Pycoin.Model.Address
/-!
What the C08 theorems assume of the codecs (the C11 round trips), as hypotheses on the address model's `Env`.
`Proofs/RealEnv.lean` proves them for the C11 codec models.
-/
namespace Pycoin.Addr

/-- Python `str.lower()` on ASCII (Bech32 strings are ASCII) -/
def asciiLower (s : String) : String := String.ofList (s.toList.map Char.toLower)

/-- what the theorems assume of Base58Check -/
structure B58Laws (env : Env) : Prop where
  /-- C11_b58check_rt -/
  b58_rt : ∀ k d, d ≠ [] → env.b58cDec k (env.b58cEnc k d) = some d
  /-- C11_b58check_accepts_iff + C11_b58_enc_dec: an accepted string is the encoding of its payload -/
  b58_canon : ∀ k s d, env.b58cDec k s = some d → env.b58cEnc k d = s

/-- an HRP BIP173 allows and short enough for a 32-byte program to fit 90 characters (checked over the table) -/
def hrpOk (hrp : String) : Bool :=
  !hrp.toList.isEmpty && hrp.toList.all (fun c => decide (33 ≤ c.toNat) && decide (c.toNat ≤ 126) && (c.toLower == c)) &&
  decide (hrp.length ≤ 30)

/-- what the theorems assume of the segwit address codec -/
structure SegLaws (env : Env) : Prop where
  /-- C11_segwit_rt, encode then parse -/
  seg_rt : ∀ hrp ver prog s, hrpOk hrp = true → ver ≤ 16 → (prog.length = 20 ∨ prog.length = 32) →
    env.segwitEnc hrp ver prog = some s →
    env.bech32Parse s = some (hrp, ver, prog, if ver = 0 then .bech32 else .bech32m)
  /-- C11_segwit_rt_conv, parse then encode (Bech32 is case-insensitive: the encoder writes lower case) -/
  seg_canon : ∀ s hrp ver prog spec, env.bech32Parse s = some (hrp, ver, prog, spec) →
    (ver = 0 → spec = .bech32) → (ver ≠ 0 → spec = .bech32m) → (prog.length = 20 ∨ prog.length = 32) → ver ≤ 16 →
    env.segwitEnc hrp ver prog = some (asciiLower s)

/-- what the theorems assume of the codecs: the C11 round trips -/
structure CodecLaws (env : Env) : Prop extends B58Laws env, SegLaws env

end Pycoin.Addr
