import Pycoin.Proofs.BIP32Ser
import Pycoin.Proofs.BIP32Curve
import Pycoin.Proofs.Sqrt
/-!
C09 helper lemmas: serialize/deserialize round trip of a public node (decompression through `points_for_x`).
-/
namespace Pycoin.BIP32
open Pycoin Pycoin.Curve WeierstrassCurve

variable {g : Gen} [Good g.c]

/-- `sec_to_public_pair(public_pair_to_sec(pair))` is the pair, for an on-curve pair with `0 ≤ x < 2²⁵⁶` and
`x < p`, `0 < y < p` (`p ≡ 3 mod 4`, 256-bit `p`): decompression through `points_for_x` picks the right root -/
theorem sec_roundtrip (h4 : g.c.p % 4 = 3) (hbc : byteCount g.c.p = 32) {x y : Int}
    (hon : containsXY g.c x y = true) (hx0 : 0 ≤ x) (hx1 : x < 2 ^ 256) (hxp : x < g.c.p) (hy0 : 0 < y) (hy1 : y < g.c.p) :
    secToPublicPair g.c ((if fmod y 2 = 1 then 3 else 2) :: beBytes x.toNat 32) = .ok (x, y) := by
  have hp : 0 < g.c.p := p_pos g.c
  have hcontains : (y : ZMod g.c.p) ^ 2 = alphaOf g.c x := by
    have := (containsXY_iff g.c x y).mp hon
    rw [W_equation_iff] at this
    exact this
  have hyne : (y : ZMod g.c.p) ≠ 0 := by
    intro h
    rw [ZMod.intCast_zmod_eq_zero_iff_dvd] at h
    have := Int.le_of_dvd hy0 h
    omega
  have hα : alphaOf g.c x ≠ 0 := by
    rw [← hcontains]; exact pow_ne_zero 2 hyne
  have hsq : IsSquare (alphaOf g.c x) := ⟨(y : ZMod g.c.p), by rw [← hcontains]; ring⟩
  obtain ⟨y0, y1, hpts, -, -, a0, a1, b0, b1, heven, hsum, huniq⟩ := (pointsForX_spec g.c h4 x hα).1 hsq
  have hodd : g.c.p % 2 = 1 := by omega
  have hxnat : (beNat (beBytes x.toNat 32) : Int) = x := by
    rw [beNat_beBytes_of_lt (by
      have : (x.toNat : Int) < 2 ^ 256 := by rw [Int.toNat_of_nonneg hx0]; exact hx1
      exact_mod_cast this)]
    exact Int.toNat_of_nonneg hx0
  rcases huniq y hy0.le hy1 hon with hy | hy
  · -- y = y0 is even
    have hf : ¬ (fmod y 2 = 1) := by
      rw [show fmod y 2 = y % 2 from fmod_eq_emod y (by norm_num), hy]; omega
    rw [if_neg hf]
    unfold secToPublicPair
    simp only [Nat.ne_of_gt hp, if_false, hbc]
    have hs : slice ((2 : UInt8) :: beBytes x.toNat 32) 1 (1 + 32) = beBytes x.toNat 32 := by
      unfold slice; simp
    rw [hs]
    unfold fromBytes32
    have hge : ¬ (x ≥ (g.c.p : Int)) := by omega
    rw [hxnat, if_neg hge, hpts]
    simp [hy]
  · have hf : fmod y 2 = 1 := by
      rw [show fmod y 2 = y % 2 from fmod_eq_emod y (by norm_num), hy]
      have : (g.c.p : Int) % 2 = 1 := by exact_mod_cast hodd
      omega
    rw [if_pos hf]
    unfold secToPublicPair
    simp only [Nat.ne_of_gt hp, if_false, hbc]
    have hs : slice ((3 : UInt8) :: beBytes x.toNat 32) 1 (1 + 32) = beBytes x.toNat 32 := by
      unfold slice; simp
    rw [hs]
    unfold fromBytes32
    have hge : ¬ (x ≥ (g.c.p : Int)) := by omega
    rw [hxnat, if_neg hge, hpts]
    simp [hy]

/-- **serialize_rt, public form.** -/
theorem serialize_rt_public (h4 : g.c.p % 4 = 3) (hbc : byteCount g.c.p = 32) (n : Node) (hv : n.Valid g)
    (hd : n.depth ≤ 255) (hi : n.childIndex < 2 ^ 32)
    (hx0 : 0 ≤ n.publicPair.1) (hx1 : n.publicPair.1 < 2 ^ 256) (hxp : n.publicPair.1 < g.c.p) (hy0 : 0 < n.publicPair.2)
    (hy1 : n.publicPair.2 < g.c.p) (ver : Bytes) (hver : ver.length = 4) :
    ∃ blob, n.serialize (some false) = .ok blob ∧ blob.length = 74 ∧
      blob = UInt8.ofNat n.depth :: (n.parentFingerprint ++ beBytes n.childIndex 4 ++ n.chainCode) ++
        ((if fmod n.publicPair.2 2 = 1 then 3 else 2) :: beBytes n.publicPair.1.toNat 32) ∧
      deserialize g n.kind (ver ++ blob) = .ok { n with secretExponent := none } := by
  have hpc := publicCopy_of_valid hv
  have hv' := hv
  unfold Node.Valid at hv'
  obtain ⟨-, -, -, -, -, l1, l2, hk⟩ := mkNode_ok hv'
  have hon : containsXY g.c n.publicPair.1 n.publicPair.2 = true := by
    cases hse : n.secretExponent with
    | none => rw [hse] at hk; exact (keyInit_pub_ok hk).2.2
    | some se => rw [hse] at hk; exact (keyInit_priv_ok hk).2.2.2.2
  have hsec : n.sec = .ok ((if fmod n.publicPair.2 2 = 1 then 3 else 2) :: beBytes n.publicPair.1.toNat 32) := by
    unfold Node.sec publicPairToSec
    rw [toBytes32_ok hx0 hx1]
  refine ⟨_, ?_, ?_, rfl, ?_⟩
  · unfold Node.serialize
    simp only [Option.getD_some, Bool.false_eq_true, and_false, if_false]
    rw [if_neg (by omega), packL_ok hi]
    simp only [hsec]
  · simp [l1, l2]
  · obtain ⟨a1, a2, a3, a4, a5, a6⟩ := layout ver n.parentFingerprint (beBytes n.childIndex 4) n.chainCode
      ((if fmod n.publicPair.2 2 = 1 then 3 else 2) :: beBytes n.publicPair.1.toNat 32) (UInt8.ofNat n.depth) hver l2 (by simp) l1
    unfold deserialize
    rw [a1, a2, a3, a4, a5]
    have h8 : ¬ (n.parentFingerprint ++ beBytes n.childIndex 4).length ≠ 8 := by simp [l2]
    rw [if_neg h8]
    simp only
    have h45 : slice (ver ++ (UInt8.ofNat n.depth :: (n.parentFingerprint ++ beBytes n.childIndex 4 ++ n.chainCode) ++
        ((if fmod n.publicPair.2 2 = 1 then 3 else 2) :: beBytes n.publicPair.1.toNat 32))) 45 46 ≠ [0] := by
      unfold slice; rw [a6]; split <;> simp
    rw [if_neg h45, a6, sec_roundtrip h4 hbc hon hx0 hx1 hxp hy0 hy1]
    simp only
    rw [ofNat_toNat_of_le hd, beNat_beBytes_of_lt hi]
    exact hpc

end Pycoin.BIP32
