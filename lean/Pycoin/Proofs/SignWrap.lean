import Pycoin.Proofs.SignEvalP2SH
/-!
C05 — `VerifyScript` for the four ways a script is wrapped (bare, P2SH, P2WSH, P2SH-P2WSH), each as an *equation* in the result
of evaluating the inner script on the items the signer supplies: accepting and rejecting runs follow from the same lemma.
-/
namespace Pycoin.Sign
open Pycoin Pycoin.Spec.Consensus

/-- Core's `CastToBool(stack.back())` on a possibly empty stack -/
def truthy (stack : List Bytes) : Bool := match stack with | [] => false | top :: _ => castToBool top

/-- the verdict on the stack an inner script leaves, in a legacy context (CLEANSTACK is a flag) -/
def legacyVerdict (flags : Flags) : Res (List Bytes) → Option ScriptError
  | .error e => some e
  | .ok stack =>
    if truthy stack = false then some .EVAL_FALSE
    else if (flags.cleanstack && stack.length != 1) = true then some .CLEANSTACK else none

/-- the verdict on the stack a witness script leaves (exactly one true item) -/
def witnessVerdict : Res (List Bytes) → Option ScriptError
  | .error e => some e
  | .ok [top] => if castToBool top then none else some .EVAL_FALSE
  | .ok _ => some .EVAL_FALSE

theorem legacyVerdict_true (flags : Flags) : legacyVerdict flags (.ok [[1]]) = none := by
  simp [legacyVerdict, truthy, castToBool]

theorem witnessVerdict_true : witnessVerdict (.ok [[1]]) = none := by
  simp [witnessVerdict, castToBool]

theorem legacyVerdict_ne_none {flags : Flags} {r : Res (List Bytes)} {rest : List Bytes}
    (h : (∃ e, r = .error e) ∨ r = .ok ([] :: rest)) : legacyVerdict flags r ≠ none := by
  rcases h with ⟨e, rfl⟩ | rfl <;> simp [legacyVerdict, truthy, castToBool]

theorem witnessVerdict_ne_none {r : Res (List Bytes)} {rest : List Bytes}
    (h : (∃ e, r = .error e) ∨ r = .ok ([] :: rest)) : witnessVerdict r ≠ none := by
  rcases h with ⟨e, rfl⟩ | rfl
  · simp [witnessVerdict]
  · cases rest <;> simp [witnessVerdict, castToBool]

/-- **bare**: a scriptPubKey that is neither P2SH nor a witness program, spent without witness -/
theorem verifyScript_bare_eq (chk : PChk) (scriptSig spk : Bytes) (flags : Flags) (tx : TxCtx) (s1 : List Bytes)
    (hpo : isPushOnly scriptSig = true)
    (h1 : evalScript chk [] scriptSig flags tx .base = .ok s1)
    (hnw : isWitnessProgram spk = none) (hnp : isPayToScriptHash spk = false) :
    verifyScript chk scriptSig spk [] flags tx = legacyVerdict flags (evalScript chk s1 spk flags tx .base) := by
  unfold verifyScript verifyScriptM
  simp only [evalScriptM_id, h1, hpo, hnw, hnp]
  simp only [Id.run, bind, pure]
  cases h2 : evalScript chk s1 spk flags tx .base with
  | error e => simp [legacyVerdict]
  | ok stack =>
    simp only [legacyVerdict, truthy]
    cases stack with
    | nil => simp
    | cons top r =>
      by_cases ht : castToBool top = true
      · simp [ht]
      · simp [ht]

/-- `VerifyWitnessProgram` for a version-0 script-hash program -/
theorem verifyWitnessProgram_scripthash_eq (chk : PChk) (items : List Bytes) (ws prog : Bytes) (flags : Flags) (tx : TxCtx)
    (hprog : Hash.sha256 ws = prog) (hplen : prog.length = 32) (hitems : ∀ d ∈ items, d.length ≤ 520) :
    verifyWitnessProgramM (m := Id) (fun a b c d => pure (chk a b c d)) (items ++ [ws]) 0 prog flags tx =
      witnessVerdict (evalScript chk items.reverse ws flags tx .witnessV0) := by
  unfold verifyWitnessProgramM
  have hrev : (items ++ [ws]).reverse = ws :: items.reverse := by simp
  have hany : items.reverse.any (fun it => decide (it.length > MAX_SCRIPT_ELEMENT_SIZE)) = false := by
    rw [List.any_eq_false]
    intro x hx
    have := hitems x (List.mem_reverse.mp hx)
    simp [MAX_SCRIPT_ELEMENT_SIZE]; omega
  simp only [hplen, WITNESS_V0_SCRIPTHASH_SIZE, hrev, hprog, evalScriptM_id]
  simp [hany, bind, pure]
  cases h : evalScript chk items.reverse ws flags tx .witnessV0 with
  | error e => simp [witnessVerdict]
  | ok out =>
    match out with
    | [] => simp [witnessVerdict]
    | [top] => by_cases ht : castToBool top = true <;> simp [witnessVerdict, ht]
    | a :: b :: t => simp [witnessVerdict]

/-- **P2WSH**: empty scriptSig, witness = items and the witness script, against `OP_0 <sha256 witnessScript>` -/
theorem verifyScript_p2wsh_eq (chk : PChk) (items : List Bytes) (ws prog : Bytes) (flags : Flags) (tx : TxCtx)
    (hw : flags.witness = true)
    (hprog : Hash.sha256 ws = prog) (hplen : prog.length = 32) (htrue : castToBool prog = true)
    (hitems : ∀ d ∈ items, d.length ≤ 520) :
    verifyScript chk [] (witnessV0Script prog) (items ++ [ws]) flags tx =
      witnessVerdict (evalScript chk items.reverse ws flags tx .witnessV0) := by
  have hvw : verifyWitnessProgramM (m := Id) (fun a b c d => chk a b c d) (items ++ [ws]) 0 prog flags tx =
      witnessVerdict (evalScript chk items.reverse ws flags tx .witnessV0) :=
    verifyWitnessProgram_scripthash_eq chk items ws prog flags tx hprog hplen hitems
  unfold verifyScript verifyScriptM
  have hpo : isPushOnly [] = true := by simp [isPushOnly, isPushOnlyAux]
  simp only [evalScriptM_id, hpo]
  simp only [Id.run, bind, pure]
  rw [evalScript_empty]
  simp only []
  rw [evalScript_witnessV0Script chk [] prog flags tx (by omega) (by omega) (by simp)]
  simp only [hw, isWitnessProgram_v0 prog (by omega) (by omega), htrue, witnessV0_not_p2sh prog (Or.inr hplen)]
  simp only [↓reduceIte]
  rw [hvw]
  cases witnessVerdict (evalScript chk items.reverse ws flags tx .witnessV0) <;> simp

/-- **P2SH**: the scriptSig is push-only and leaves the redeem script on top of `stack2`; the redeem script is not itself a
witness program; needs the P2SH flag (without it the redeem script is not run and CLEANSTACK fails) -/
theorem verifyScript_p2sh_eq (chk : PChk) (scriptSig redeem hr : Bytes) (stack2 : List Bytes) (flags : Flags) (tx : TxCtx)
    (hp : flags.p2sh = true) (hpo : isPushOnly scriptSig = true)
    (h1 : evalScript chk [] scriptSig flags tx .base = .ok (redeem :: stack2))
    (hhr : Hash.hash160 redeem = hr) (hrlen : hr.length = 20) (hs2 : stack2.length ≤ 30)
    (hnw : isWitnessProgram redeem = none) :
    verifyScript chk scriptSig (p2shScript hr) [] flags tx =
      legacyVerdict flags (evalScript chk stack2 redeem flags tx .base) := by
  unfold verifyScript verifyScriptM
  simp only [evalScriptM_id, hpo, h1]
  simp only [Id.run, bind, pure]
  rw [evalScript_p2sh chk redeem hr stack2 flags tx hhr hrlen hs2]
  simp only [hp, p2sh_not_witness hr hrlen, p2sh_is_p2sh hr hrlen, hnw]
  simp only [castToBool]
  cases h2 : evalScript chk stack2 redeem flags tx .base with
  | error e => simp [legacyVerdict]
  | ok stack =>
    simp only [legacyVerdict, truthy]
    cases stack with
    | nil => simp
    | cons top r =>
      by_cases ht : castToBool top = true
      · simp [ht]
      · simp [ht]

/-- **P2SH-P2WSH**: scriptSig = the push of `OP_0 <sha256 witnessScript>`, witness = items and the witness script -/
theorem verifyScript_p2sh_p2wsh_eq (chk : PChk) (items : List Bytes) (ws prog hr : Bytes) (flags : Flags) (tx : TxCtx)
    (hp : flags.p2sh = true) (hw : flags.witness = true)
    (hprog : Hash.sha256 ws = prog) (hplen : prog.length = 32) (htrue : castToBool prog = true)
    (hhr : Hash.hash160 (witnessV0Script prog) = hr) (hrlen : hr.length = 20)
    (hitems : ∀ d ∈ items, d.length ≤ 520) :
    verifyScript chk (pushesOf [witnessV0Script prog]) (p2shScript hr) (items ++ [ws]) flags tx =
      witnessVerdict (evalScript chk items.reverse ws flags tx .witnessV0) := by
  have hvw : verifyWitnessProgramM (m := Id) (fun a b c d => chk a b c d) (items ++ [ws]) 0 prog flags tx =
      witnessVerdict (evalScript chk items.reverse ws flags tx .witnessV0) :=
    verifyWitnessProgram_scripthash_eq chk items ws prog flags tx hprog hplen hitems
  have hrl : (witnessV0Script prog).length = 34 := by simp [witnessV0Script, directPush, hplen]
  unfold verifyScript verifyScriptM
  have hpo : isPushOnly (pushesOf [witnessV0Script prog]) = true :=
    isPushOnly_pushes _ (by intro d hd; simp at hd; subst hd; omega)
  have hpd : pushesOf [witnessV0Script prog] = pushData (witnessV0Script prog) := by
    simp [pushesOf, directPush, pushData, hrl, OP_PUSHDATA1]
  simp only [evalScriptM_id, hpo]
  simp only [Id.run, bind, pure]
  rw [evalScript_one_push chk (witnessV0Script prog) flags tx (by omega) (by omega)]
  simp only []
  rw [evalScript_p2sh chk (witnessV0Script prog) hr [] flags tx hhr hrlen (by simp)]
  simp only [hw, hp, p2sh_not_witness hr hrlen, p2sh_is_p2sh hr hrlen, hpo]
  simp only [castToBool]
  rw [evalScript_witnessV0Script chk [] prog flags tx (by omega) (by omega) (by simp)]
  simp only [isWitnessProgram_v0 prog (by omega) (by omega), htrue, hpd]
  simp only [↓reduceIte]
  rw [hvw]
  cases witnessVerdict (evalScript chk items.reverse ws flags tx .witnessV0) <;> simp

end Pycoin.Sign
