import Pycoin.Proofs.NativeOssl
import Pycoin.Proofs.Sqrt
import Pycoin.Proofs.Recover
/-!
`Generator.verify / sign_with_recid / sign / possible_public_pairs_for_signature`, `generate_shared_public_key` and the
constructor, run in the OpenSSL class (`Gen.* (Ossl.methods L c)`), equal the same methods of the pure class — under the
contract on libcrypto.  Every call the generic code makes lands in the domain where the primitives were shown equal.
-/
namespace Pycoin.Native
open Pycoin Pycoin.Curve WeierstrassCurve

variable {c : CurveParams} [Good c] {L : LibCrypto} {den : L.EcPoint → Pt}

theorem one_lt_n (ok : ECDSAOk c) : (1 : Int) < c.n := by
  have := ok.nprime.one_lt; exact_mod_cast this

/-- `Generator.inverse(a)` -/
theorem ossl_inverseN_eq (spec : LibCryptoSpec c L den) (fits : CurveFits c) (ok : ECDSAOk c) (a : Int) (fa : Fits a) :
    Gen.inverseN (Ossl.methods L c) c a = Curve.inverseN c a := by
  unfold Gen.inverseN Curve.inverseN
  simp only [Ossl.methods]
  rw [ossl_inverseMod_eq spec a c.n (one_lt_n ok) fa (fits_n fits)]

theorem fits_of_range {m : Nat} {a : Int} (h0 : 0 ≤ a) (h1 : a < m) (hm : Pycoin.RFC6979.bitLength m + 2 ≤ bnBits) : Fits a :=
  fits_of_lt_four_mul (m := m) (by omega) hm

/-- **verify** in the OpenSSL class = verify in the pure class, for a reduced curve point `Q` of the `n`-torsion and all
`z, r, s` (in or out of range, `z = 0` included) -/
theorem ossl_verify_eq (spec : LibCryptoSpec c L den) (fits : CurveFits c) (ok : ECDSAOk c) (bf : Int) (Q : Pt)
    (hQ : OnCurve c Q) (rQ : Reduced c Q) (hQn : (c.n : Int) • toPoint c Q = 0) (z r s : Int) :
    Gen.verify (Ossl.methods L c) c bf Q z r s = Curve.verify c bf Q z r s := by
  unfold Gen.verify Curve.verify
  by_cases hz : z = 0
  · rw [if_pos hz, if_pos hz]
  rw [if_neg hz, if_neg hz]
  by_cases hr : r < 1 ∨ r ≥ c.n ∨ s < 1 ∨ s ≥ c.n
  · rw [if_pos hr, if_pos hr]
  rw [if_neg hr, if_neg hr]
  push Not at hr
  rw [ossl_inverseN_eq spec fits ok s (fits_of_range (by omega) hr.2.2.2 fits.2)]
  cases hsi : Curve.inverseN c s with
  | error e => rfl
  | ok si =>
    simp only
    rw [ossl_mulG_eq spec fits ok]
    cases ha : Curve.mulG c bf (z * si) with
    | error e => rfl
    | ok A =>
      simp only
      have hQ' : containsPoint c Q = true := hQ
      simp only [hQ', not_true_eq_false, if_false]
      have hmul : (Ossl.methods L c).multiply Q (r * si) = Curve.multiply c Q (r * si) :=
        ossl_multiply_eq spec fits ok Q hQ rQ hQn (r * si)
      rw [hmul]
      cases hb : Curve.multiply c Q (r * si) with
      | error e => rfl
      | ok B =>
        simp only
        have ar := mulG_reduced c ok.gOn ok.gRed ok.nprime.pos.ne' ok.n256 ok.gOrd bf (z * si) A ha
        have br : Reduced c B := multiply_reduced c Q hQ rQ
          (fun x y h => by subst h; exact y_pos_of_torsion ok hQ rQ.2.2.1 hQn) (r * si) B hb
        rw [ossl_add_eq spec fits A B (coordFits_of_reduced fits ar) (coordFits_of_reduced fits br)]
        rfl

/-- the signing loop: equal as long as the nonces tried fit a bignum -/
theorem ossl_signLoop_eq (spec : LibCryptoSpec c L den) (fits : CurveFits c) (ok : ECDSAOk c) (bf d z : Int) :
    ∀ (fuel : Nat) (k : Int), (∀ j : Nat, j < fuel → Fits (k + j)) →
      Gen.signLoop (Ossl.methods L c) c bf d z fuel k = Curve.signLoop c bf d z fuel k := by
  intro fuel
  induction fuel with
  | zero => intro k _; rfl
  | succ f ih =>
    intro k hk
    unfold Gen.signLoop Curve.signLoop
    rw [ossl_mulG_eq spec fits ok]
    cases hm : Curve.mulG c bf k with
    | error e => rfl
    | ok A =>
      match A with
      | none => rfl
      | some (x, y) =>
        simp only
        have fk : Fits k := by simpa using hk 0 (by omega)
        rw [ossl_inverseN_eq spec fits ok k fk]
        cases hi : Curve.inverseN c k with
        | error e => rfl
        | ok ki =>
          simp only
          rw [ih (k + 1) (fun j hj => by have := hk (j + 1) (by omega); push_cast at this; rw [add_assoc, add_comm 1]; exact this)]

/-- **sign_with_recid** in the OpenSSL class = in the pure class (`gen_k` any function whose nonce is at most `2n` in
absolute value: the RFC 6979 nonce lies in `[1, n)`) -/
theorem ossl_signWithRecid_eq (spec : LibCryptoSpec c L den) (fits : CurveFits c) (ok : ECDSAOk c) (bf : Int)
    (genK : Nat → Int → Int → Except Err Int) (d z : Int)
    (hk : ∀ k, genK c.n d z = .ok k → k.natAbs ≤ 2 * c.n) :
    Gen.signWithRecid (Ossl.methods L c) c bf genK d z = Curve.signWithRecid c bf genK d z := by
  unfold Gen.signWithRecid Curve.signWithRecid
  by_cases hz : z = 0
  · rw [if_pos hz, if_pos hz]
  rw [if_neg hz, if_neg hz]
  cases hg : genK c.n d z with
  | error e => rfl
  | ok k =>
    simp only
    have hb := hk k hg
    have hnpos := ok.nprime.pos
    exact ossl_signLoop_eq spec fits ok bf d z (c.n + 1) k
      (fun j hj => fits_of_lt_four_mul (m := c.n) (by omega) fits.2)

theorem ossl_sign_eq (spec : LibCryptoSpec c L den) (fits : CurveFits c) (ok : ECDSAOk c) (bf : Int)
    (genK : Nat → Int → Int → Except Err Int) (d z : Int)
    (hk : ∀ k, genK c.n d z = .ok k → k.natAbs ≤ 2 * c.n) :
    Gen.sign (Ossl.methods L c) c bf genK d z = Curve.sign c bf genK d z := by
  unfold Gen.sign Curve.sign
  rw [ossl_signWithRecid_eq spec fits ok bf genK d z hk]
  rfl

/-! ### the RFC 6979 nonce lies in `[1, n)` -/

theorem kLoop_range (n bln orderSize : Nat) : ∀ (fuel : Nat) (K V : Bytes) (k : Int),
    Pycoin.RFC6979.kLoop n bln orderSize fuel K V = .ok k → 1 ≤ k ∧ k < n := by
  intro fuel
  induction fuel with
  | zero => intro K V k h; simp [Pycoin.RFC6979.kLoop] at h
  | succ f ih =>
    intro K V k h
    unfold Pycoin.RFC6979.kLoop at h
    simp only at h
    split at h
    · rename_i hc
      cases h
      constructor
      · exact_mod_cast hc.1
      · exact_mod_cast hc.2
    · exact ih _ _ _ h

theorem deterministicGenerateK_range (n : Nat) (d z k : Int)
    (h : Pycoin.RFC6979.deterministicGenerateK n d z = .ok k) : 1 ≤ k ∧ k < n := by
  unfold Pycoin.RFC6979.deterministicGenerateK Pycoin.RFC6979.deterministicGenerateKFuel at h
  simp only at h
  split at h
  · cases h
  · split at h
    · cases h
    · exact kLoop_range _ _ _ _ _ _ _ h

/-! ### recovery -/

theorem mapMExcept_congr {α β} (f g : α → Except Err β) : ∀ l : List α, (∀ a ∈ l, f a = g a) →
    mapMExcept f l = mapMExcept g l := by
  intro l
  induction l with
  | nil => intro _; rfl
  | cons a as ih =>
    intro h
    unfold mapMExcept
    rw [h a (by simp), ih (fun b hb => h b (by simp [hb]))]

/-- the two points `points_for_x(x)` returns for `0 ≤ x < p` are reduced affine curve points with abscissa `x` -/
theorem pointsForX_points (x : Int) (hx0 : 0 ≤ x) (hxp : x < c.p) (q0 q1 : Pt) (h : pointsForX c x = .ok (q0, q1)) :
    ∀ q, q = q0 ∨ q = q1 → ∃ y, q = some (x, y) ∧ containsXY c x y = true ∧ 0 < y ∧ y < c.p := by
  unfold pointsForX at h
  simp only at h
  obtain ⟨-, y0lo, y0hi⟩ := powMod_spec c.p (p_pos c)
    (fmod (powMod x 3 c.p + c.a * x + c.b) c.p) (fdiv ((c.p : Int) + 1) 4).toNat
  change 0 ≤ modularSqrt c _ at y0lo
  change modularSqrt c _ < _ at y0hi
  generalize modularSqrt c (fmod (powMod x 3 c.p + c.a * x + c.b) c.p) = y0 at h y0lo y0hi
  by_cases hy0 : y0 = 0
  · rw [if_pos hy0] at h; cases h
  rw [if_neg hy0] at h
  unfold mkPoint at h
  by_cases h1 : containsXY c x y0 = true
  · simp only [h1, if_true] at h
    by_cases h2 : containsXY c x (c.p - y0) = true
    · simp only [h2, if_true] at h
      have A : ∃ y, (some (x, y0) : Pt) = some (x, y) ∧ containsXY c x y = true ∧ 0 < y ∧ y < c.p :=
        ⟨y0, rfl, h1, by omega, y0hi⟩
      have B : ∃ y, (some (x, (c.p : Int) - y0) : Pt) = some (x, y) ∧ containsXY c x y = true ∧ 0 < y ∧ y < c.p :=
        ⟨c.p - y0, rfl, h2, by omega, by omega⟩
      split at h <;> cases h <;> intro q hq <;> rcases hq with rfl | rfl <;> assumption
    · simp only [h2] at h; cases h
  · simp only [h1] at h; cases h

/-- **possible_public_pairs_for_signature** in the OpenSSL class = in the pure class, for `r ≥ 0` (any `z`, `s`, parity),
when the curve points with abscissa `r` lie in the `n`-torsion (every curve point does if `#E(F_p) = n`) -/
theorem ossl_recover_eq (spec : LibCryptoSpec c L den) (fits : CurveFits c) (ok : ECDSAOk c) (bf z r s : Int)
    (par : Option Int) (hr0 : 0 ≤ r)
    (htors : ∀ y, containsXY c r y = true → (c.n : Int) • toPoint c (some (r, y)) = 0) :
    Gen.possiblePublicPairsForSignature (Ossl.methods L c) c bf z r s par =
      Curve.possiblePublicPairsForSignature c bf z r s par := by
  unfold Gen.possiblePublicPairsForSignature Curve.possiblePublicPairsForSignature
  by_cases hrp : r ≥ c.p
  · rw [if_pos hrp, if_pos hrp]
  rw [if_neg hrp, if_neg hrp]
  cases hpx : pointsForX c r with
  | error e => rfl
  | ok qq =>
    obtain ⟨q0, q1⟩ := qq
    simp only
    have hpts := pointsForX_points r hr0 (by omega) q0 q1 hpx
    rw [ossl_inverseN_eq spec fits ok r (fits_of_range hr0 (by omega) fits.1)]
    cases hi : Curve.inverseN c r with
    | error e => rfl
    | ok invR =>
      simp only
      rw [ossl_mulG_eq spec fits ok]
      cases hm : Curve.mulG c bf (-(invR * z)) with
      | error e => rfl
      | ok mE =>
        simp only
        have mr := mulG_reduced c ok.gOn ok.gRed ok.nprime.pos.ne' ok.n256 ok.gOrd bf _ mE hm
        have key : ∀ q, q = q0 ∨ q = q1 →
            Gen.recoverStep (Ossl.methods L c) c (s * invR) mE q = Curve.recoverStep c (s * invR) mE q := by
          intro q hq
          obtain ⟨y, rfl, hc, hy0, hyp⟩ := hpts q hq
          have rq : Reduced c (some (r, y)) := ⟨hr0, by omega, by omega, hyp⟩
          have hmul : (Ossl.methods L c).multiply (some (r, y)) (s * invR) = Curve.multiply c (some (r, y)) (s * invR) :=
            ossl_multiply_eq spec fits ok (some (r, y)) hc rq (htors y hc) (s * invR)
          unfold Gen.recoverStep Curve.recoverStep
          rw [hmul]
          cases hb : Curve.multiply c (some (r, y)) (s * invR) with
          | error e => rfl
          | ok t =>
            simp only
            have tr : Reduced c t := multiply_reduced c (some (r, y)) hc rq (fun x' y' h => by cases h; exact hy0) _ t hb
            exact ossl_add_eq spec fits t mE (coordFits_of_reduced fits tr) (coordFits_of_reduced fits mr)
        have hcongr : ∀ pts : List Pt, (∀ q ∈ pts, q = q0 ∨ q = q1) →
            mapMExcept (Gen.recoverStep (Ossl.methods L c) c (s * invR) mE) pts =
            mapMExcept (Curve.recoverStep c (s * invR) mE) pts :=
          fun pts hp => mapMExcept_congr _ _ pts (fun q hq => key q (hp q hq))
        cases par with
        | none =>
          simp only
          rw [hcongr [q0, q1] (by simp)]
          rfl
        | some pv =>
          simp only
          by_cases hpar : fmod pv 2 = 1
          · simp only [hpar, if_true]
            rw [hcongr [q1] (by simp)]
            rfl
          · simp only [hpar, if_false]
            rw [hcongr [q0] (by simp)]
            rfl

/-- **generate_shared_public_key** (encrypt.py) in the OpenSSL class: the pure result with coordinates reduced; raises
`NoSuchPointError` off the curve exactly as the pure class does -/
theorem ossl_shared_eq (spec : LibCryptoSpec c L den) (fits : CurveFits c) (ok : ECDSAOk c) (d : Int) (Q : Pt)
    (hQn : OnCurve c Q → (c.n : Int) • toPoint c Q = 0) :
    Gen.sharedPublicKey (Ossl.methods L c) c d Q = (Curve.sharedPublicKey c d Q).map (reducePt c) := by
  unfold Gen.sharedPublicKey Curve.sharedPublicKey
  by_cases hQ : containsPoint c Q = true
  · simp only [hQ, not_true_eq_false, if_false]
    exact ossl_multiply_eq_map spec fits ok.nprime Q hQ (hQn hQ) d
  · simp only [hQ]
    rfl

/-! ### the constructor -/

theorem ossl_powersLoop_eq (spec : LibCryptoSpec c L den) (fits : CurveFits c) : ∀ (k : Nat) (g : Pt), OnCurve c g →
    Reduced c g → Gen.powersLoop (Ossl.methods L c) c k g = Curve.powersLoop c k g := by
  intro k
  induction k with
  | zero => intro g _ _; rfl
  | succ k ih =>
    intro g hg rg
    unfold Gen.powersLoop Curve.powersLoop
    rw [ossl_add_eq spec fits g g (coordFits_of_reduced fits rg) (coordFits_of_reduced fits rg)]
    obtain ⟨R, h1, h2, -, -, h4⟩ := add_refines c g g hg hg
    rw [h1]
    simp only
    rw [ih R h2 (h4 rg rg)]
    rfl

/-- `Generator.__init__` of the OpenSSL class performs the checks of the pure constructor with the same outcome -/
theorem ossl_generatorInit_eq (spec : LibCryptoSpec c L den) (fits : CurveFits c) (ok : ECDSAOk c) (bf : Int) :
    Gen.generatorInit (Ossl.methods L c) c bf = Curve.generatorInit c bf := by
  unfold Gen.generatorInit Curve.generatorInit Curve.powers
  rw [ossl_powersLoop_eq spec fits 256 (basis c) ok.gOn ok.gRed]
  simp only [Ossl.methods]
  rw [ossl_rawMul_eq spec fits ok]
  rfl

end Pycoin.Native
