import Pycoin.Proofs.ChainPath
/-! replaying add/remove ops; the index map (core Lean only) -/
namespace Pycoin.Chain

/-- apply one returned op to a list: "add" must append at the end, "remove" must take the last element -/
def replayOp (L : List Nat) : Op → Option (List Nat)
  | .add (some h) i => if i = (L.length : Int) then some (L ++ [h]) else none
  | .remove (some h) i => if L.getLast? = some h ∧ i + 1 = (L.length : Int) then some L.dropLast else none
  | _ => none

def replay : List Op → List Nat → Option (List Nat)
  | [], L => some L
  | op :: r, L => (replayOp L op).bind (replay r)

theorem replay_append (a b : List Op) (L : List Nat) : replay (a ++ b) L = (replay a L).bind (replay b) := by
  induction a generalizing L with
  | nil => simp [replay]
  | cons op r ih =>
    simp only [List.cons_append, replay]
    cases replayOp L op with
    | none => simp
    | some L' => simp [ih]

/-- `hash_to_index_lookup` describes the list `L` exactly -/
def Exact (m : Dict Int) (L : List Nat) : Prop :=
  ∀ h i, dget m h = some i ↔ ∃ n : Nat, i = (n : Int) ∧ L[n]? = some h

theorem Exact.nil : Exact [] [] := by
  intro h i; simp [dget]

theorem Exact.pop {m : Dict Int} {L : List Nat} {x : Nat} (he : Exact m (L ++ [x])) (hn : (L ++ [x]).Nodup) :
    Exact (ddel m x) L := by
  intro h i
  rw [dget_ddel]
  have hxL : x ∉ L := by
    have := List.nodup_append.mp hn
    intro hx; exact this.2.2 x hx x (by simp) rfl
  by_cases hx : x = h
  · subst hx
    simp only [if_true]
    constructor
    · intro h; cases h
    · rintro ⟨n, _, hn'⟩
      exact absurd (List.mem_of_getElem? hn') hxL
  · simp only [hx, if_false]
    rw [he h i]
    constructor
    · rintro ⟨n, hi, hn'⟩
      refine ⟨n, hi, ?_⟩
      rcases Nat.lt_or_ge n L.length with hl | hl
      · rwa [List.getElem?_append_left hl] at hn'
      · rw [List.getElem?_append_right hl] at hn'
        have : x = h := by
          cases hnl : n - L.length with
          | zero => simp [hnl] at hn'; exact hn'
          | succ k => simp [hnl] at hn'
        exact absurd this hx
    · rintro ⟨n, hi, hn'⟩
      refine ⟨n, hi, ?_⟩
      have hl : n < L.length := by
        rcases Nat.lt_or_ge n L.length with hl | hl
        · exact hl
        · rw [List.getElem?_eq_none hl] at hn'; cases hn'
      rwa [List.getElem?_append_left hl]

theorem Exact.push {m : Dict Int} {L : List Nat} {x : Nat} (he : Exact m L) (hx : x ∉ L) :
    Exact (dset m x (L.length : Int)) (L ++ [x]) := by
  intro h i
  rw [dget_dset]
  by_cases hxh : x = h
  · subst hxh
    simp only [if_true]
    constructor
    · intro hi
      injection hi with hi
      exact ⟨L.length, hi.symm, by simp⟩
    · rintro ⟨n, hi, hn'⟩
      rcases Nat.lt_or_ge n L.length with hl | hl
      · rw [List.getElem?_append_left hl] at hn'
        exact absurd (List.mem_of_getElem? hn') hx
      · rw [List.getElem?_append_right hl] at hn'
        cases hnl : n - L.length with
        | zero =>
          have : n = L.length := by omega
          subst this; rw [hi]
        | succ k => simp [hnl] at hn'
  · simp only [hxh, if_false]
    rw [he h i]
    constructor
    · rintro ⟨n, hi, hn'⟩
      have hl : n < L.length := by
        rcases Nat.lt_or_ge n L.length with hl | hl
        · exact hl
        · rw [List.getElem?_eq_none hl] at hn'; cases hn'
      exact ⟨n, hi, by rwa [List.getElem?_append_left hl]⟩
    · rintro ⟨n, hi, hn'⟩
      refine ⟨n, hi, ?_⟩
      rcases Nat.lt_or_ge n L.length with hl | hl
      · rwa [List.getElem?_append_left hl] at hn'
      · rw [List.getElem?_append_right hl] at hn'
        cases hnl : n - L.length with
        | zero => simp [hnl] at hn'; exact absurd hn' hxh
        | succ k => simp [hnl] at hn'

/-- the "remove" loop of `add_headers`: takes `path` (tip first) off the end of `base ++ path.reverse` -/
theorem removeOps_spec (bc : BC) (size : Int) : ∀ (path : List Nat) (idx : Nat) (base : List Nat) (m m' : Dict Int) (ops : List Op),
    Exact m (base ++ path.reverse) → (base ++ path.reverse).Nodup →
    (∀ h ∈ path, dhas bc.weight h = true) →
    size = ((base ++ path.reverse).length : Int) + idx →
    removeOps bc size idx path m = .ok (ops, m') →
    Exact m' base ∧ replay ops (base ++ path.reverse) = some base
  | [], idx, base, m, m', ops, he, _, _, _, hr => by
      simp [removeOps] at hr
      obtain ⟨rfl, rfl⟩ := hr
      simpa [replay] using he
  | h :: r, idx, base, m, m', ops, he, hn, hw, hs, hr => by
      unfold removeOps at hr
      split at hr
      · cases hrec : removeOps bc size (idx + 1) r (ddel m h) with
        | error e => simp [hrec, bind, Except.bind] at hr
        | ok res =>
          obtain ⟨ops1, m1⟩ := res
          simp [hrec, bind, Except.bind] at hr
          obtain ⟨rfl, rfl⟩ := hr
          have hL : base ++ (h :: r).reverse = (base ++ r.reverse) ++ [h] := by simp
          rw [hL] at he hn hs ⊢
          have he1 := Exact.pop he hn
          have hn1 : (base ++ r.reverse).Nodup := (List.nodup_append.mp hn).1
          have hs1 : size = ((base ++ r.reverse).length : Int) + (idx + 1 : Nat) := by
            rw [hs]; simp [List.length_append]; omega
          obtain ⟨ih1, ih2⟩ := removeOps_spec bc size r (idx + 1) base (ddel m h) _ ops1 he1 hn1
            (fun x hx => hw x (List.mem_cons_of_mem _ hx)) hs1 hrec
          refine ⟨ih1, ?_⟩
          have hbf : bc.blockFor h = some h := by simp [BC.blockFor, hw h (by simp)]
          simp only [replay, hbf, replayOp]
          have hc : ((base ++ r.reverse) ++ [h]).getLast? = some h ∧
              size - (idx : Int) - 1 + 1 = (((base ++ r.reverse) ++ [h]).length : Int) := by
            refine ⟨by simp, ?_⟩
            rw [hs]; omega
          simp only [hc, and_self, if_true, Option.bind_some, List.dropLast_concat]
          exact ih2
      · cases hr

/-- the "add" loop of `add_headers` on `(index-from-the-tip, hash)` pairs listed anchor side first -/
theorem addOps_spec (bc : BC) (size : Int) : ∀ (xs : List (Nat × Nat)) (L : List Nat) (m m' : Dict Int) (ops : List Op),
    Exact m L → (L ++ xs.map (·.2)).Nodup →
    (∀ e ∈ xs, dhas bc.weight e.2 = true) →
    (∀ j (hj : j < xs.length), size - ((xs[j]).1 : Int) - 1 = (L.length : Int) + j) →
    addOps bc size xs m = (ops, m') →
    Exact m' (L ++ xs.map (·.2)) ∧ replay ops L = some (L ++ xs.map (·.2))
  | [], L, m, m', ops, he, _, _, _, hr => by
      simp [addOps] at hr
      obtain ⟨rfl, rfl⟩ := hr
      simpa [replay] using he
  | (idx, h) :: r, L, m, m', ops, he, hn, hw, hi, hr => by
      unfold addOps at hr
      cases hrec : addOps bc size r (dset m h (size - (idx : Int) - 1)) with
      | mk ops1 m1 =>
        simp [hrec] at hr
        obtain ⟨rfl, rfl⟩ := hr
        have h0 : size - (idx : Int) - 1 = (L.length : Int) := by
          have := hi 0 (by simp); simpa using this
        have hL : L ++ ((idx, h) :: r).map (·.2) = (L ++ [h]) ++ r.map (·.2) := by simp
        rw [hL] at hn ⊢
        have hxL : h ∉ L := by
          have h1 : (L ++ [h]).Nodup := (List.nodup_append.mp hn).1
          have := List.nodup_append.mp h1
          intro hx; exact this.2.2 h hx h (by simp) rfl
        have he1 : Exact (dset m h (size - (idx : Int) - 1)) (L ++ [h]) := by
          rw [h0]; exact Exact.push he hxL
        obtain ⟨ih1, ih2⟩ := addOps_spec bc size r (L ++ [h]) _ _ ops1 he1 hn
          (fun e he' => hw e (List.mem_cons_of_mem _ he'))
          (by
            intro j hj
            have := hi (j + 1) (by simp; omega)
            simp only [List.getElem_cons_succ] at this
            rw [this]; simp [List.length_append]; omega)
          hrec
        refine ⟨ih1, ?_⟩
        have hbf : bc.blockFor h = some h := by
          have := hw (idx, h) (by simp)
          simp [BC.blockFor, this]
        simp only [replay, hbf, replayOp, h0, if_true, Option.bind_some]
        exact ih2

theorem enumFrom_getElem? : ∀ (p : List Nat) (i j : Nat), (enumFrom i p)[j]? = (p[j]?).map (fun h => (i + j, h))
  | [], i, j => by simp [enumFrom]
  | h :: r, i, 0 => by simp [enumFrom]
  | h :: r, i, j + 1 => by
      simp only [enumFrom, List.getElem?_cons_succ]
      rw [enumFrom_getElem? r (i + 1) j]
      congr 1; funext x; congr 1; omega

theorem enumFrom_length : ∀ (p : List Nat) (i : Nat), (enumFrom i p).length = p.length
  | [], _ => rfl
  | _ :: r, i => by simp [enumFrom, enumFrom_length r (i + 1)]

theorem enumFrom_map_snd : ∀ (p : List Nat) (i : Nat), (enumFrom i p).map (·.2) = p
  | [], _ => rfl
  | _ :: r, i => by simp [enumFrom, enumFrom_map_snd r (i + 1)]

end Pycoin.Chain
