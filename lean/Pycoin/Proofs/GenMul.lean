import Pycoin.Proofs.Group
/-!
F6 — the generator's fixed-base table (`_powers`), `raw_mul` and the blinded `__mul__`.
-/
namespace Pycoin.Curve
open Pycoin WeierstrassCurve

variable (c : CurveParams) [Good c]

/-- `l` is a table of on-curve points denoting `B, 2B, 4B, …` -/
def IsTable (B : (W c).Point) : List Pt → Prop
  | [] => True
  | g :: gs => OnCurve c g ∧ toPoint c g = B ∧ IsTable ((2 : Int) • B) gs

theorem powersLoop_spec : ∀ (k : Nat) (g : Pt), OnCurve c g →
    ∃ l, powersLoop c k g = .ok l ∧ l.length = k ∧ IsTable c (toPoint c g) l := by
  intro k
  induction k with
  | zero => intro g _; exact ⟨[], rfl, rfl, trivial⟩
  | succ k ih =>
    intro g hg
    obtain ⟨g2, h1, h2, h3, -⟩ := add_refines c g g hg hg
    obtain ⟨l, hl, hlen, ht⟩ := ih g2 h2
    refine ⟨g :: l, by simp [powersLoop, h1, hl], by simp [hlen], hg, rfl, ?_⟩
    have : (2 : Int) • toPoint c g = toPoint c g2 := by rw [h3, two_zsmul]
    rw [this]; exact ht

theorem rawMulLoop_spec : ∀ (l : List Pt) (B : (W c).Point) (e : Nat) (P : Pt), IsTable c B l → OnCurve c P →
    ∃ R, rawMulLoop c l (e : Int) P = .ok R ∧ OnCurve c R ∧
      toPoint c R = toPoint c P + ((e % 2 ^ l.length : Nat) : Int) • B := by
  intro l
  induction l with
  | nil => intro B e P _ hP; exact ⟨P, rfl, hP, by simp [Nat.mod_one]⟩
  | cons g gs ih =>
    intro B e P ht hP
    obtain ⟨hg, hgB, hrest⟩ := ht
    obtain ⟨s, hs, hsc, hst, -⟩ := add_refines c P g hP hg
    have hdiv : fdiv (e : Int) 2 = ((e / 2 : Nat) : Int) := by
      rw [fdiv_eq_ediv _ (by norm_num)]; norm_cast
    have hmod : fmod (e : Int) 2 = ((e % 2 : Nat) : Int) := by
      rw [fmod_eq_emod _ (by norm_num)]; norm_cast
    unfold rawMulLoop
    simp only [hs, hdiv, hmod]
    have hsplit : e % 2 ^ (g :: gs).length = e % 2 + 2 * (e / 2 % 2 ^ gs.length) := by
      rw [List.length_cons, pow_succ, mul_comm, Nat.mod_mul]
    by_cases hb : e % 2 = 1
    · obtain ⟨R, h1, h2, h3⟩ := ih ((2 : Int) • B) (e / 2) s hrest hsc
      refine ⟨R, by simpa [hb] using h1, h2, ?_⟩
      rw [h3, hst, hgB, hsplit, hb]
      push_cast
      module
    · have hb0 : e % 2 = 0 := by omega
      obtain ⟨R, h1, h2, h3⟩ := ih ((2 : Int) • B) (e / 2) P hrest hP
      refine ⟨R, by simpa [hb0] using h1, h2, ?_⟩
      rw [h3, hsplit, hb0]
      push_cast
      module

/-- `Generator.raw_mul(e)`: for an order `0 < n ≤ 2²⁵⁶` (the table has 256 entries: bits above are lost,
hence the bound) with `n • G = ∞`, every integer `e` gives `e • G`; no exception, no fuel exhaustion. -/
theorem rawMul_refines (hG : containsXY c c.gx c.gy = true) (hn0 : c.n ≠ 0) (hn256 : c.n ≤ 2 ^ 256)
    (hn : (c.n : Int) • toPoint c (basis c) = 0) (e : Int) :
    ∃ R, rawMul c e = .ok R ∧ OnCurve c R ∧ toPoint c R = e • toPoint c (basis c) := by
  unfold rawMul
  rw [if_neg hn0]
  obtain ⟨tbl, h1, hlen, ht⟩ := powersLoop_spec c 256 (basis c) hG
  unfold powers
  simp only [h1]
  have hnpos : (0 : Int) < c.n := by exact_mod_cast Nat.pos_of_ne_zero hn0
  have hr := Int.emod_nonneg e hnpos.ne'
  have hlt := Int.emod_lt_of_pos e hnpos
  rw [fmod_natCast]
  obtain ⟨e', he'⟩ : ∃ e' : Nat, (e' : Int) = e % c.n := ⟨(e % c.n).toNat, Int.toNat_of_nonneg hr⟩
  rw [← he']
  obtain ⟨R, r1, r2, r3⟩ := rawMulLoop_spec c tbl (toPoint c (basis c)) e' none ht rfl
  refine ⟨R, r1, r2, ?_⟩
  rw [r3, toPoint_none, zero_add, hlen, Nat.mod_eq_of_lt (by omega), he']
  conv_rhs => rw [← Int.emod_add_mul_ediv e c.n]
  rw [add_zsmul, mul_comm, mul_zsmul, hn, zsmul_zero, add_zero]

/-- `Generator.__mul__(e)`: the blinded multiplication equals `e • G` for every blinding factor -/
theorem mulG_refines (hG : containsXY c c.gx c.gy = true) (hn0 : c.n ≠ 0) (hn256 : c.n ≤ 2 ^ 256)
    (hn : (c.n : Int) • toPoint c (basis c) = 0) (bf e : Int) :
    ∃ R, mulG c bf e = .ok R ∧ OnCurve c R ∧ toPoint c R = e • toPoint c (basis c) := by
  obtain ⟨A, a1, a2, a3⟩ := rawMul_refines c hG hn0 hn256 hn (e + bf)
  obtain ⟨M, m1, m2, m3⟩ := rawMul_refines c hG hn0 hn256 hn (-bf)
  obtain ⟨R, r1, r2, r3, -⟩ := add_refines c A M a2 m2
  refine ⟨R, by simp [mulG, a1, m1, r1], r2, ?_⟩
  rw [r3, a3, m3, ← add_zsmul]; congr 1; ring

end Pycoin.Curve
