import Pycoin.Model.Message
/-!
Lemmas for C16: the generic pack / parse engine of `Model/Message.lean` over an arbitrary letter table.
If every letter used obeys the prefix-parser law (the last scalar field may obey only the end-of-stream law),
`parse_struct` undoes `pack_from_data` — arrays, tuples, optional trailing field.  Core Lean only.
-/
namespace Pycoin.Msg

/-- the prefix-parser law (DESIGN F2) for one registered `(parse_f, stream_f)` pair -/
def CodecLaw (ci : CodecImpl) (WF : MVal → Prop) : Prop :=
  ∀ v b rest, WF v → ci.ser v = .ok b → ci.parse (b ++ rest) = .ok (v, rest)

/-- the weaker law of a codec that may only close a message: round trip at the end of the stream -/
def CodecFinalLaw (ci : CodecImpl) (WF : MVal → Prop) : Prop :=
  ∀ v b, WF v → ci.ser v = .ok b → ci.parse b = .ok (v, [])

theorem CodecLaw.final {ci : CodecImpl} {WF : MVal → Prop} (h : CodecLaw ci WF) : CodecFinalLaw ci WF := by
  intro v b hw hs
  have := h v b [] hw hs
  simpa using this

/-- the array count written by `stream_struct(countLetter, f, len(..))` is read back by `array_count_parse_f` -/
def CountLaw (tbl : Table) (countLetter : List Char) (count : Bytes → Except Err (Nat × Bytes)) : Prop :=
  ∀ (n : Nat) (nb rest : Bytes), streamStruct tbl countLetter [.int n] = .ok nb → count (nb ++ rest) = .ok (n, rest)

/-- letters between brackets: registered, not brackets themselves, each with the prefix law -/
def FlatOK (tbl : Table) (wf : Char → MVal → Prop) (sub : List Char) : Prop :=
  ∀ c ∈ sub, c ≠ '[' ∧ c ≠ ']' ∧ ∃ ci, tbl c = some ci ∧ CodecLaw ci (wf c)

/-- one value per letter, each in its letter's type -/
def ArgsOK (wf : Char → MVal → Prop) : List Char → List MVal → Prop
  | [], [] => True
  | c :: cs, v :: vs => wf c v ∧ ArgsOK wf cs vs
  | _, _ => False

theorem parseFlat_streamStruct {tbl : Table} {wf : Char → MVal → Prop} :
    ∀ (sub : List Char) (args : List MVal) (a rest : Bytes), FlatOK tbl wf sub → ArgsOK wf sub args →
      streamStruct tbl sub args = .ok a → parseFlat tbl sub (a ++ rest) = .ok (args, rest)
  | [], [], a, rest => by
    intro _ _ h
    simp only [streamStruct] at h
    have h := Except.ok.inj h
    subst h
    simp [parseFlat]
  | [], _ :: _, _, _ => by intro _ h; simp [ArgsOK] at h
  | _ :: _, [], _, _ => by intro _ h; simp [ArgsOK] at h
  | c :: cs, v :: vs, a, rest => by
    intro hf ha h
    obtain ⟨hc1, _, ci, hci, hlaw⟩ := hf c (by simp)
    obtain ⟨hv, hvs⟩ := ha
    unfold streamStruct at h
    simp only [hci] at h
    cases hx : ci.ser v with
    | error e => simp [hx] at h
    | ok x =>
      cases hr : streamStruct tbl cs vs with
      | error e => simp [hx, hr] at h
      | ok r =>
        simp only [hx, hr] at h
        have h := Except.ok.inj h
        subst h
        have h1 := hlaw v x (r ++ rest) hv hx
        have h2 := parseFlat_streamStruct cs vs r rest (fun d hd => hf d (by simp [hd])) hvs hr
        simp only [parseFlat, hc1, if_false, hci, List.append_assoc, h1, h2]

/-- an array element in its type: a lone value that is not itself a sequence for a one-letter body,
a tuple with one value per letter otherwise -/
def ElemOK (wf : Char → MVal → Prop) (sub : List Char) (item : MVal) : Prop :=
  (sub.length = 1 ∧ (∀ l, item ≠ .seq l) ∧ ArgsOK wf sub [item]) ∨
  (sub.length ≠ 1 ∧ ∃ l, item = .seq l ∧ ArgsOK wf sub l)

theorem asArgs_of_not_seq {v : MVal} (h : ∀ l, v ≠ .seq l) : asArgs v = [v] := by
  cases v <;> first | rfl | exact absurd rfl (h _)

theorem parseElem_stream {tbl : Table} {wf : Char → MVal → Prop} (sub : List Char) (item : MVal) (a rest : Bytes)
    (hf : FlatOK tbl wf sub) (hi : ElemOK wf sub item) (h : streamStruct tbl sub (asArgs item) = .ok a) :
    parseElem tbl sub (a ++ rest) = .ok (item, rest) := by
  rcases hi with ⟨h1, hns, hargs⟩ | ⟨h1, l, rfl, hargs⟩
  · rw [asArgs_of_not_seq hns] at h
    simp [parseElem, parseFlat_streamStruct sub [item] a rest hf hargs h, h1]
  · simp only [asArgs] at h
    simp [parseElem, parseFlat_streamStruct sub l a rest hf hargs h, h1]

theorem parseN_streamItems {tbl : Table} {wf : Char → MVal → Prop} (sub : List Char) (hf : FlatOK tbl wf sub) :
    ∀ (items : List MVal) (body rest : Bytes), (∀ i ∈ items, ElemOK wf sub i) → streamItems tbl sub items = .ok body →
      parseN (parseElem tbl sub) items.length (body ++ rest) = .ok (items, rest)
  | [], body, rest => by
    intro _ h
    simp only [streamItems] at h
    have h := Except.ok.inj h
    subst h
    simp [parseN]
  | i :: is, body, rest => by
    intro hi h
    unfold streamItems at h
    cases hx : streamStruct tbl sub (asArgs i) with
    | error e => simp [hx] at h
    | ok x =>
      cases hr : streamItems tbl sub is with
      | error e => simp [hx, hr] at h
      | ok r =>
        simp only [hx, hr] at h
        have h := Except.ok.inj h
        subst h
        have h1 := parseElem_stream sub i x (r ++ rest) hf (hi i (by simp)) hx
        have h2 := parseN_streamItems sub hf is r rest (fun j hj => hi j (by simp [hj])) hr
        simp only [List.length_cons, parseN, List.append_assoc, h1, h2]

/-- a field type as `pack_from_data` reads it: one letter, or letters between brackets -/
inductive FieldTy
  | scalar (c : Char)
  | array (sub : List Char)
  deriving DecidableEq, Repr

def FieldTy.chars : FieldTy → List Char
  | .scalar c => [c]
  | .array sub => '[' :: (sub ++ [']'])

/-- a field value in its type.  `isLast`: nothing follows, so the end-of-stream law is enough for a scalar -/
def FieldOK (tbl : Table) (wf : Char → MVal → Prop) (isLast : Bool) : FieldTy → MVal → Prop
  | .scalar c, v => c ≠ '[' ∧ ∃ ci, tbl c = some ci ∧ wf c v ∧
      (CodecLaw ci (wf c) ∨ (isLast = true ∧ CodecFinalLaw ci (wf c)))
  | .array sub, v => FlatOK tbl wf sub ∧ ∃ items, v = .seq items ∧ ∀ i ∈ items, ElemOK wf sub i

/-- every field present in `kwargs`, in its type -/
def FieldsOK (tbl : Table) (wf : Char → MVal → Prop) (kwargs : Kwargs) : List (List Char × FieldTy) → List MVal → Prop
  | [], [] => True
  | (n, t) :: fs, v :: vs => lookup n kwargs = some v ∧ FieldOK tbl wf fs.isEmpty t v ∧ FieldsOK tbl wf kwargs fs vs
  | _, _ => False

def fieldPairs (fields : List (List Char × FieldTy)) : List (List Char × List Char) := fields.map fun f => (f.1, f.2.chars)
def fieldTypes (fields : List (List Char × FieldTy)) : List Char := (fields.map fun f => f.2.chars).flatten

/-- collecting the characters after a `[` up to the first `]` -/
theorem parseStructGo_collect (tbl : Table) (count : Bytes → Except Err (Nat × Bytes)) :
    ∀ (sub acc rs : List Char) (b : Bytes), (∀ c ∈ sub, c ≠ ']') →
      parseStructGo tbl count (sub ++ ']' :: rs) (some acc) b = parseStructGo tbl count (']' :: rs) (some (sub.reverse ++ acc)) b
  | [], acc, rs, b => by intro _; simp
  | c :: cs, acc, rs, b => by
    intro h
    have hc : c ≠ ']' := h c (by simp)
    have := parseStructGo_collect tbl count cs (c :: acc) rs b (fun d hd => h d (by simp [hd]))
    have step : parseStructGo tbl count (c :: (cs ++ ']' :: rs)) (some acc) b =
        parseStructGo tbl count (cs ++ ']' :: rs) (some (c :: acc)) b := by
      simp only [parseStructGo, hc, if_false]
    rw [List.cons_append, step, this]
    simp

/-- C16.struct_rt, engine form: `parse_struct` over the concatenated field types undoes `pack_from_data` -/
theorem parseStruct_packFields {tbl : Table} {wf : Char → MVal → Prop} {countLetter : List Char}
    {count : Bytes → Except Err (Nat × Bytes)} (hcount : CountLaw tbl countLetter count) (kwargs : Kwargs) :
    ∀ (fields : List (List Char × FieldTy)) (vals : List MVal) (b : Bytes), FieldsOK tbl wf kwargs fields vals →
      packFields tbl countLetter kwargs (fieldPairs fields) = .ok b →
      parseStructGo tbl count (fieldTypes fields) Option.none b = .ok (vals, [])
  | [], [], b => by
    intro _ h
    simp only [fieldPairs, List.map_nil, packFields] at h
    have h := Except.ok.inj h
    subst h
    simp [fieldTypes, parseStructGo]
  | [], _ :: _, _ => by intro h; simp [FieldsOK] at h
  | _ :: _, [], _ => by intro h; simp [FieldsOK] at h
  | (n, t) :: fs, v :: vs, b => by
    intro hok h
    obtain ⟨hlook, hfield, hrest⟩ := hok
    simp only [fieldPairs, List.map_cons, packFields] at h
    cases hx : packField tbl countLetter kwargs n t.chars with
    | error e => simp [hx] at h
    | ok a =>
      cases hr : packFields tbl countLetter kwargs (fieldPairs fs) with
      | error e => simp [hx, fieldPairs] at h hr; simp [hr] at h
      | ok r =>
        have hr' : packFields tbl countLetter kwargs (List.map (fun f => (f.1, f.2.chars)) fs) = .ok r := hr
        simp only [hx, hr'] at h
        have h := Except.ok.inj h
        subst h
        have ih := parseStruct_packFields hcount kwargs fs vs r hrest hr
        have htypes : fieldTypes ((n, t) :: fs) = t.chars ++ fieldTypes fs := by simp [fieldTypes]
        rw [htypes]
        cases t with
        | scalar c =>
          obtain ⟨hc, ci, hci, hwf, hlaw⟩ := hfield
          have hser : ci.ser v = .ok a := by
            simp only [FieldTy.chars, packField, hc, if_false, hlook, streamStruct, hci] at hx
            cases hs : ci.ser v with
            | error e => simp [hs] at hx
            | ok y => simpa [hs] using hx
          rcases hlaw with hlaw | ⟨hlast, hlaw⟩
          · simp only [FieldTy.chars, List.cons_append, List.nil_append, parseStructGo, hc, if_false, hci,
              hlaw v a r hwf hser, ih]
          · have hfs : fs = [] := by simpa using hlast
            subst hfs
            cases vs with
            | cons _ _ => simp [FieldsOK] at hrest
            | nil =>
              simp only [fieldPairs, List.map_nil, packFields] at hr
              have hr := Except.ok.inj hr
              subst hr
              simp only [FieldTy.chars, fieldTypes, List.map_nil, List.flatten_nil, List.append_nil, parseStructGo, hc,
                if_false, hci, hlaw v a hwf hser]
        | array sub =>
          obtain ⟨hflat, items, rfl, hitems⟩ := hfield
          have hsub : ∀ c ∈ sub, c ≠ ']' := fun c hc => (hflat c hc).2.1
          -- what pack_from_data wrote: the count, then the elements
          have hdrop : (sub ++ [']']).dropLast = sub := by simp
          simp only [FieldTy.chars, packField, if_true, hlook, iterItems, hdrop] at hx
          cases hn : streamStruct tbl countLetter [.int items.length] with
          | error e => simp [hn] at hx
          | ok nb =>
            cases hb : streamItems tbl sub items with
            | error e => simp [hn, hb] at hx
            | ok body =>
              simp only [hn, hb] at hx
              have hx := Except.ok.inj hx
              subst hx
              have h1 := hcount items.length nb (body ++ r) hn
              have h2 := parseN_streamItems sub hflat items body r hitems hb
              have hcontains : (sub ++ ']' :: fieldTypes fs).contains ']' = true := by simp
              simp only [FieldTy.chars, List.cons_append, List.append_assoc, List.nil_append, parseStructGo, if_true,
                hcontains, parseStructGo_collect tbl count sub [] _ _ hsub, List.append_nil, List.reverse_reverse,
                h1, h2, ih]

end Pycoin.Msg
