import Pycoin.Proofs.ChainLock
/-! histories of `add_headers` / `lock_to_index` calls; the lookups (core Lean only) -/
namespace Pycoin.Chain

/-- run a whole history, collecting what each call lets the outside see -/
def runHist (rev : Bool) : BC → List Step → Except Err (List Obs × BC)
  | bc, [] => .ok ([], bc)
  | bc, s :: ss => do
    let (o, bc1) ← bc.step rev s
    let (os, bc2) ← runHist rev bc1 ss
    .ok (o :: os, bc2)

/-- what the BlockChain proofs need from the finder after a call: after `add_headers` its answers are sound;
after `lock_to_index` the rebuilt finder still knows the unlocked remainder of the reported chain -/
def StepHyp (bc : BC) : Step → Prop
  | .add _ _ => FinderSound bc.finder
  | .lock _ _ => ∀ c, bc.cache = some c → UpPath bc.finder.parent (c ++ [bc.parentHash])

/-- `StepHyp` holds after every call of the history -/
def HypRun (rev : Bool) : BC → List Step → Prop
  | _, [] => True
  | bc, s :: ss => ∀ o bc', bc.step rev s = .ok (o, bc') → StepHyp bc' s ∧ HypRun rev bc' ss

/-- no delivered header carries the anchor's hash (the anchor is outside the forest) -/
def Step.avoids (anchor0 : Nat) : Step → Prop
  | .add batch _ => ∀ hd ∈ batch, hd.hash ≠ anchor0
  | .lock _ _ => True

def allOps (obs : List Obs) : List Op := obs.flatMap (·.ops)

theorem run_good (anchor0 : Nat) (rev : Bool) : ∀ (steps : List Step) (bc bc' : BC) (c : List Nat) (obs : List Obs),
    Good anchor0 bc c → (∀ s ∈ steps, s.avoids anchor0) → HypRun rev bc steps →
    runHist rev bc steps = .ok (obs, bc') →
    ∃ c', Good anchor0 bc' c' ∧
      replay (allOps obs) (lockedHashes bc ++ c.reverse) = some (lockedHashes bc' ++ c'.reverse)
  | [], bc, bc', c, obs, g, _, _, hr => by
      simp only [runHist, Except.ok.injEq, Prod.mk.injEq] at hr
      obtain ⟨rfl, rfl⟩ := hr
      exact ⟨c, g, by simp [allOps, replay]⟩
  | s :: ss, bc, bc', c, obs, g, hav, hh, hr => by
      unfold runHist at hr
      obtain ⟨⟨o, bc1⟩, h1, hr⟩ := bind_ok hr
      try simp only at hr
      obtain ⟨⟨os, bc2⟩, h2, hr⟩ := bind_ok hr
      simp only [Except.ok.injEq, Prod.mk.injEq] at hr
      obtain ⟨rfl, rfl⟩ := hr
      obtain ⟨hsp, hh'⟩ := hh o bc1 h1
      have hav' : ∀ s ∈ ss, s.avoids anchor0 := fun s hs => hav s (List.mem_cons_of_mem _ hs)
      cases s with
      | add batch rank =>
        unfold BC.step at h1
        obtain ⟨⟨ops, bcx⟩, h1a, h1⟩ := bind_ok h1
        simp only [Except.ok.injEq, Prod.mk.injEq] at h1
        obtain ⟨rfl, rfl⟩ := h1
        obtain ⟨c1, g1, _, r1⟩ := addHeaders_good anchor0 rev rank bc bcx c batch ops
          (hav (.add batch rank) (by simp)) g h1a hsp
        obtain ⟨c2, g2, r2⟩ := run_good anchor0 rev ss bcx bc2 c1 os g1 hav' hh' h2
        refine ⟨c2, g2, ?_⟩
        simp only [allOps, List.flatMap_cons] at r2 ⊢
        rw [replay_append, r1]; exact r2
      | lock index rank =>
        unfold BC.step at h1
        obtain ⟨⟨cb, bcx⟩, h1a, h1⟩ := bind_ok h1
        simp only [Except.ok.injEq, Prod.mk.injEq] at h1
        obtain ⟨rfl, rfl⟩ := h1
        obtain ⟨c1, g1, e1⟩ := lockToIndex_good anchor0 rev rank bc bcx c index cb g h1a hsp
        obtain ⟨c2, g2, r2⟩ := run_good anchor0 rev ss bcx bc2 c1 os g1 hav' hh' h2
        refine ⟨c2, g2, ?_⟩
        simp only [allOps, List.flatMap_cons, List.nil_append] at r2 ⊢
        rw [← e1]; exact r2

/-! ### lookups -/

theorem length_good {anchor0 : Nat} {bc : BC} {c : List Nat} (rev : Bool) (g : Good anchor0 bc c) :
    bc.length rev = .ok (lockedHashes bc ++ c.reverse).length := by
  unfold BC.length
  rw [longest_of_cur rev bc c g.cur]
  simp [bind, Except.bind, lockedHashes, Nat.add_comm]

theorem tupleForIndex_good {anchor0 : Nat} {bc : BC} {c : List Nat} (rev : Bool) (g : Good anchor0 bc c)
    (i : Nat) (hi : i < (lockedHashes bc ++ c.reverse).length) :
    ∃ t, bc.tupleForIndex rev i = .ok t ∧ t.1 = (lockedHashes bc ++ c.reverse)[i] := by
  unfold BC.tupleForIndex
  by_cases hlt : i < bc.locked.length
  · refine ⟨bc.locked[i], by simp [hlt], ?_⟩
    have hl : i < (lockedHashes bc).length := by simpa [lockedHashes] using hlt
    rw [List.getElem_append_left hl]
    simp [lockedHashes]
  · have hlen : (lockedHashes bc).length = bc.locked.length := by simp [lockedHashes]
    have hj : i - bc.locked.length < c.length := by
      simp [List.length_append, hlen] at hi; omega
    have hge : (lockedHashes bc).length ≤ i := by rw [hlen]; omega
    rw [List.getElem_append_right hge]
    simp only [hlt, dite_false]
    rw [longest_of_cur rev bc c g.cur]
    simp only [bind, Except.bind]
    have hnot : ¬ (i - bc.locked.length ≥ c.length) := by omega
    simp only [hnot, if_false]
    have h1 : c.length - 1 - (i - bc.locked.length) < c.length := by omega
    rw [List.getElem?_eq_getElem h1]
    simp only
    by_cases hz : i - bc.locked.length = 0
    · refine ⟨_, by simp [hz, pure, Except.pure]; rfl, ?_⟩
      simp [List.getElem_reverse, hlen, hz]
    · have h2 : c.length - (i - bc.locked.length) < c.length := by omega
      refine ⟨_, by simp [hz, List.getElem?_eq_getElem h2, pure, Except.pure]; rfl, ?_⟩
      simp [List.getElem_reverse, hlen]

end Pycoin.Chain
