import Mathlib.Tactic.SplitIfs
import Mathlib.Tactic.IntervalCases
import Pycoin.Proofs.VMDelete
/-!
`SigDelShared` discharged: along Core's run of any script started on items of at most 520 bytes, every item stays
within 520 bytes, so signature deletion agrees (`VMDelete.delAgrees_all`, every script code since the repair of
`delete_subscript`); hence `evalScript_eq_full`: `eval_script` = `EvalScript` with no hypothesis on the script.
-/
namespace Pycoin.VM
open Pycoin.Spec Pycoin.Gen.VM CondStack Consensus

set_option maxHeartbeats 4000000 in
/-- only OP_CODESEPARATOR moves `pbegincodehash`, and it moves it to just after itself -/
theorem execOp_codeSep (env : Consensus.Env) (st st' : Consensus.State) (f : Bool) (op p : Nat) (hop : op < 256)
    (h : execOp env st f op p = .ok st') : st'.codeSep = st.codeSep ∨ st'.codeSep = p := by
  interval_cases op <;>
  (simp [execOp, Consensus.num, unaryNumOp, binaryNumOp, Consensus.hashOp,
    OP_1NEGATE, OP_1, OP_16, OP_NOP, OP_CHECKLOCKTIMEVERIFY, OP_CHECKSEQUENCEVERIFY, OP_NOP1, OP_NOP4, OP_NOP10, OP_IF, OP_NOTIF,
    OP_ELSE, OP_ENDIF, OP_VERIFY, OP_RETURN, OP_TOALTSTACK, OP_FROMALTSTACK, OP_2DROP, OP_2DUP, OP_3DUP, OP_2OVER, OP_2ROT,
    OP_2SWAP, OP_IFDUP, OP_DEPTH, OP_DROP, OP_DUP, OP_NIP, OP_OVER, OP_PICK, OP_ROLL, OP_ROT, OP_SWAP, OP_TUCK, OP_SIZE,
    OP_EQUAL, OP_EQUALVERIFY, OP_1ADD, OP_1SUB, OP_NEGATE, OP_ABS, OP_NOT, OP_0NOTEQUAL, OP_ADD, OP_MAX, OP_WITHIN,
    OP_RIPEMD160, OP_SHA1, OP_SHA256, OP_HASH160, OP_HASH256, OP_CODESEPARATOR, OP_SUB, OP_BOOLAND, OP_BOOLOR, OP_NUMEQUAL,
    OP_NUMEQUALVERIFY, OP_NUMNOTEQUAL, OP_LESSTHAN, OP_GREATERTHAN, OP_LESSTHANOREQUAL, OP_GREATERTHANOREQUAL, OP_MIN] at h) <;>
  (repeat' (split at h)) <;>
  first
    | (cases h; exact Or.inl rfl)
    | (cases h; exact Or.inr rfl)
    | (simp at h; done)
    | (simp at h; obtain ⟨_, rfl⟩ := h; exact Or.inl rfl)
    | (subst h; exact Or.inr rfl)
    | (subst h; exact Or.inl rfl)
    | skip

variable (chk : Bytes → Bytes → Bytes → Bool → Bool) (cfg : Config)

theorem specCheckSig_codeSep (st st' : Consensus.State) (op : Nat) (h : specCheckSig chk cfg st op = .ok st') :
    st'.codeSep = st.codeSep := by
  rw [specCheckSig_eq] at h
  repeat' split at h
  all_goals first
    | (cases h; rfl)
    | (cases h; done)

theorem specCheckMultiSig_codeSep (st st' : Consensus.State) (op : Nat) (h : specCheckMultiSig chk cfg st op = .ok st') :
    st'.codeSep = st.codeSep := by
  rw [specCheckMultiSig_eq] at h
  repeat' split at h
  all_goals first
    | (cases h; rfl)
    | (cases h; done)

theorem specStep_codeSep (st st' : Consensus.State) (op : Nat) (data : Bytes) (pcNext : Nat) (hop : op < 256)
    (hd : 0x4e < op → data = []) (h : specStep chk cfg st op data pcNext = .ok st') :
    st'.codeSep = st.codeSep ∨ st'.codeSep = pcNext := by
  by_cases h1 : op ≤ 0x4e
  · rw [specStep_push chk cfg st op pcNext data h1] at h
    split_ifs at h
    · obtain ⟨he, _⟩ := afterC_ok _ _ h; cases he; exact Or.inl rfl
    · obtain ⟨he, _⟩ := afterC_ok _ _ h; cases he; exact Or.inl rfl
  have h1' : 0x4e < op := by omega
  rw [hd h1'] at h
  by_cases hs : 0xac ≤ op ∧ op ≤ 0xaf
  · rw [specStep_sig chk cfg st op pcNext hs] at h
    split_ifs at h
    · obtain ⟨he, _⟩ := afterC_ok _ _ h
      unfold specSigOp at he
      split_ifs at he
      · have := specCheckSig_codeSep chk cfg _ _ _ he; exact Or.inl this
      · have := specCheckMultiSig_codeSep chk cfg _ _ _ he; exact Or.inl this
    · obtain ⟨he, _⟩ := afterC_ok _ _ h; cases he; exact Or.inl rfl
  · rw [specStep_op chk cfg st op pcNext h1' hs] at h
    simp only at h
    generalize (if op > 0x60 then st.nOpCount + 1 else st.nOpCount) = n' at h
    split_ifs at h
    · obtain ⟨he, _⟩ := afterC_ok _ _ h
      have := execOp_codeSep (specEnv cfg) _ st' _ op pcNext hop he
      exact this
    · obtain ⟨he, _⟩ := afterC_ok _ _ h; cases he; exact Or.inl rfl

/-- along Core's run of any script started on items of at most 520 bytes, items stay within 520 bytes -/
theorem reach_items (stack0 : List Bytes) (hok : okL stack0) :
    ∀ pc st, Reach chk cfg stack0 pc st → ItemsOk st := by
  intro pc st hr
  induction hr with
  | init => exact ⟨hok, okL_nil⟩
  | @step pc st st' op data rest' size _ hg hs ih =>
    obtain ⟨hlt, hdat⟩ := getScriptOp_facts _ _ _ _ _ hg
    exact specStep_items chk cfg st st' op data (pc + size) hlt hdat hs ih

/-- **signature deletion is shared** for every script, run on items of at most 520 bytes -/
theorem sigDelShared_items (stack0 : List Bytes) (hok : okL stack0) : SigDelShared chk cfg stack0 := by
  intro pc st hr sigs hmem
  have hi := reach_items chk cfg stack0 hok pc st hr
  exact delAgrees_all cfg st sigs (fun s hs => hi.1 s (hmem s hs))

theorem sigDelShared_walkable (stack0 : List Bytes) (hok : okL stack0) (_hw : Walkable cfg.script) :
    SigDelShared chk cfg stack0 := sigDelShared_items chk cfg stack0 hok

/-- **C03.eval_eq, no hypothesis on the script**: `eval_script` = `EvalScript` for every script (decodable or not), every
initial stack of items within 520 bytes, every flag set, both signature versions -/
theorem evalScript_eq_full (hw : hasFlag cfg.flags VERIFY_MINIMALIF = true → cfg.witness = true)
    (hwp : hasFlag cfg.flags VERIFY_WITNESS_PUBKEYTYPE = true → cfg.witness = true) (hchk : ChkWF chk)
    (stack : List Bytes) (hok : okL stack) :
    (evalScript (stdEnv chk) cfg stack).toOption.map (·.stack) =
      (Consensus.evalScript (specChk chk) stack cfg.script (Flags.ofBits cfg.flags)
        ⟨cfg.ctx.version, cfg.ctx.lockTime, cfg.ctx.sequence⟩ (if cfg.witness then .witnessV0 else .base)).toOption :=
  evalScript_eq_all chk cfg hw hwp hchk stack (sigDelShared_items chk cfg stack hok)
end Pycoin.VM
