import Pycoin.Proofs.Field
import Mathlib.AlgebraicGeometry.EllipticCurve.Affine.Point
import Mathlib.Tactic.FieldSimp
import Mathlib.Tactic.Module
/-!
F6 — `Curve.add` refines the group law of Mathlib's `WeierstrassCurve.Affine.Point` over `ZMod p`.
-/
namespace Pycoin.Curve
open Pycoin WeierstrassCurve

/-- the short Weierstrass curve `y² = x³ + a x + b` over `ZMod p` -/
abbrev W (c : CurveParams) : Affine (ZMod c.p) := ⟨0, 0, 0, (c.a : ZMod c.p), (c.b : ZMod c.p)⟩

/-- what the theorems assume of a curve: `p` prime and non-zero discriminant (`Δ = −16(4a³ + 27b²)`) -/
class Good (c : CurveParams) : Prop where
  prime : Nat.Prime c.p
  disc : (W c).Δ ≠ 0

instance (c : CurveParams) [g : Good c] : Fact (Nat.Prime c.p) := ⟨g.prime⟩

variable (c : CurveParams)

theorem W_equation_iff (x y : ZMod c.p) : (W c).Equation x y ↔ y ^ 2 = x ^ 3 + (c.a : ZMod c.p) * x + (c.b : ZMod c.p) := by
  rw [Affine.equation_iff]; simp

theorem containsXY_iff (x y : Int) :
    containsXY c x y = true ↔ (W c).Equation (x : ZMod c.p) (y : ZMod c.p) := by
  unfold containsXY
  rw [beq_iff_eq, fmod_eq_zero_iff, W_equation_iff]
  push_cast
  constructor
  · intro h; linear_combination h
  · intro h; linear_combination h

variable [Good c]

theorem nonsingular_of_equation {x y : ZMod c.p} (h : (W c).Equation x y) : (W c).Nonsingular x y :=
  (Affine.equation_iff_nonsingular_of_Δ_ne_zero Good.disc).mp h

open Classical in
/-- the group element a model point denotes (off-curve pairs, which no theorem mentions, are sent to 0) -/
noncomputable def toPoint : Pt → (W c).Point
  | none => 0
  | some (x, y) =>
    if h : (W c).Equation (x : ZMod c.p) (y : ZMod c.p) then .some _ _ (nonsingular_of_equation c h) else 0

theorem toPoint_none : toPoint c none = 0 := rfl

theorem toPoint_some {x y : Int} (h : containsXY c x y = true) :
    toPoint c (some (x, y)) = .some _ _ (nonsingular_of_equation c ((containsXY_iff c x y).mp h)) := by
  simp only [toPoint, (containsXY_iff c x y).mp h, dite_true]

/-- coordinates in `[0, p)` -/
def Reduced : Pt → Prop
  | none => True
  | some (x, y) => 0 ≤ x ∧ x < c.p ∧ 0 ≤ y ∧ y < c.p

theorem p_pos : 0 < c.p := (Good.prime (c := c)).pos

theorem mkPoint_ok {x y : Int} (h : (W c).Equation (x : ZMod c.p) (y : ZMod c.p)) :
    mkPoint c x y = .ok (some (x, y)) := by
  simp [mkPoint, (containsXY_iff c x y).mpr h]

omit [Good c] in
theorem some_congr {x y x' y' : ZMod c.p} (h : (W c).Nonsingular x y) (h' : (W c).Nonsingular x' y')
    (hx : x = x') (hy : y = y') : Affine.Point.some x y h = Affine.Point.some x' y' h' := by
  subst hx; subst hy; rfl

/-- the common tail of `Curve.add`: from a slope that denotes Mathlib's `slope` to the sum -/
theorem addFinish_refines {x0 y0 x1 y1 sl : Int}
    (e0 : (W c).Equation (x0 : ZMod c.p) (y0 : ZMod c.p)) (e1 : (W c).Equation (x1 : ZMod c.p) (y1 : ZMod c.p))
    (hxy : ¬((x0 : ZMod c.p) = x1 ∧ (y0 : ZMod c.p) = (W c).negY x1 y1))
    (hsl : (sl : ZMod c.p) = (W c).slope x0 x1 y0 y1) :
    ∃ R, addFinish c x0 y0 x1 sl = .ok R ∧ containsPoint c R = true ∧ Reduced c R ∧
      toPoint c R = Affine.Point.some _ _ (nonsingular_of_equation c e0) + Affine.Point.some _ _ (nonsingular_of_equation c e1) := by
  have n0 := nonsingular_of_equation c e0
  have n1 := nonsingular_of_equation c e1
  unfold addFinish
  simp only
  generalize hx3 : fmod (sl * sl - x0 - x1) c.p = x3
  generalize hy3 : fmod (sl * (x0 - x3) - y0) c.p = y3
  have hX3 : (x3 : ZMod c.p) = (W c).addX x0 x1 ((W c).slope x0 x1 y0 y1) := by
    rw [← hx3, intCast_fmod, ← hsl]; push_cast; simp [Affine.addX]; ring
  have hY3 : (y3 : ZMod c.p) = (W c).addY x0 x1 y0 ((W c).slope x0 x1 y0 y1) := by
    rw [← hy3, intCast_fmod, Affine.addY, Affine.negAddY, Affine.negY, ← hX3, ← hsl]; push_cast; simp; ring
  have ns := Affine.nonsingular_add n0 n1 hxy
  have eq3 : (W c).Equation (x3 : ZMod c.p) (y3 : ZMod c.p) := by rw [hX3, hY3]; exact ns.1
  have hc3 : containsXY c x3 y3 = true := (containsXY_iff c x3 y3).mpr eq3
  refine ⟨some (x3, y3), mkPoint_ok c eq3, hc3, ?_, ?_⟩
  · have r1 := fmod_range c.p (p_pos c) (sl * sl - x0 - x1)
    have r2 := fmod_range c.p (p_pos c) (sl * (x0 - x3) - y0)
    rw [hx3] at r1; rw [hy3] at r2
    exact ⟨r1.1, r1.2, r2.1, r2.2⟩
  · rw [toPoint_some c hc3, Affine.Point.add_some hxy]
    exact some_congr c _ _ hX3 hY3

/-- `Curve.add` on two affine on-curve points (possibly unreduced): never raises, the result is on the curve,
reduced unless it is infinity, and denotes the Mathlib sum -/
theorem add_some_refines {x0 y0 x1 y1 : Int} (h0 : containsXY c x0 y0 = true) (h1 : containsXY c x1 y1 = true) :
    ∃ R, add c (some (x0, y0)) (some (x1, y1)) = .ok R ∧ containsPoint c R = true ∧ Reduced c R ∧
      toPoint c R = toPoint c (some (x0, y0)) + toPoint c (some (x1, y1)) := by
  have e0 := (containsXY_iff c x0 y0).mp h0
  have e1 := (containsXY_iff c x1 y1).mp h1
  have n0 := nonsingular_of_equation c e0
  have n1 := nonsingular_of_equation c e1
  rw [toPoint_some c h0, toPoint_some c h1]
  unfold add
  simp only
  by_cases hx : fmod (x0 - x1) c.p = 0
  · have hX : (x0 : ZMod c.p) = x1 := by
      have := (fmod_eq_zero_iff c.p _).mp hx
      push_cast at this; linear_combination this
    simp only [hx, if_true]
    by_cases hy : fmod (y0 + y1) c.p = 0
    · -- P = -Q
      have hY : (y0 : ZMod c.p) = (W c).negY x1 y1 := by
        have := (fmod_eq_zero_iff c.p _).mp hy
        push_cast at this; simp [Affine.negY]; linear_combination this
      simp only [hy, if_true]
      exact ⟨none, rfl, rfl, trivial, by rw [toPoint_none, Affine.Point.add_of_Y_eq hX hY]⟩
    · -- doubling
      have hYne : (y0 : ZMod c.p) ≠ (W c).negY x1 y1 := by
        intro h
        apply hy
        rw [fmod_eq_zero_iff]
        push_cast; simp [Affine.negY] at h; linear_combination h
      have hYeq : (y0 : ZMod c.p) = y1 := by
        rcases Affine.Y_eq_of_X_eq e0 e1 hX with h | h
        · exact h
        · exact absurd h hYne
      have h2y : ((2 * y0 : Int) : ZMod c.p) ≠ 0 := by
        intro h
        apply hYne
        push_cast at h
        simp [Affine.negY]; rw [← hYeq]; linear_combination h
      obtain ⟨inv, hinv, -, -, hinvc⟩ := inverseMod_prime c.p (2 * y0) h2y
      simp only [hy, if_false, hinv]
      apply addFinish_refines c e0 e1 (fun h => hYne h.2)
      rw [intCast_fmod, Affine.slope_of_Y_ne hX hYne]
      push_cast at hinvc ⊢
      rw [hinvc]
      simp only [Affine.negY, div_eq_mul_inv, sub_zero, mul_zero, zero_mul, sub_neg_eq_add]
      rw [show ((y0 : ZMod c.p) + y0) = 2 * y0 by ring]
      ring
  · have hX : (x0 : ZMod c.p) ≠ x1 := by
      intro h
      apply hx
      rw [fmod_eq_zero_iff]; push_cast; linear_combination h
    have hdx : ((x1 - x0 : Int) : ZMod c.p) ≠ 0 := by
      intro h; apply hX; push_cast at h; linear_combination -h
    obtain ⟨inv, hinv, -, -, hinvc⟩ := inverseMod_prime c.p (x1 - x0) hdx
    simp only [hx, if_false, hinv]
    apply addFinish_refines c e0 e1 (fun h => hX h.1)
    rw [intCast_fmod, Affine.slope_of_X_ne hX]
    push_cast at hinvc ⊢
    rw [hinvc, div_eq_mul_inv, ← neg_sub (y0 : ZMod c.p), ← neg_sub (x0 : ZMod c.p), inv_neg]
    ring

/-- the point lies on the curve (`contains_point`); infinity does -/
def OnCurve (P : Pt) : Prop := containsPoint c P = true

/-- `Curve.add` refines the group law: for on-curve operands (unreduced coordinates allowed, infinity allowed)
it never raises, the sum is on the curve and denotes `toPoint P + toPoint Q`; a computed sum has reduced
coordinates (with an infinite operand the other operand is handed back as given). -/
theorem add_refines (P Q : Pt) (hP : OnCurve c P) (hQ : OnCurve c Q) :
    ∃ R, add c P Q = .ok R ∧ OnCurve c R ∧ toPoint c R = toPoint c P + toPoint c Q ∧
      ((P ≠ none → Q ≠ none → Reduced c R) ∧ (Reduced c P → Reduced c Q → Reduced c R)) := by
  match P, Q with
  | none, Q => exact ⟨Q, by cases Q <;> rfl, hQ, by simp [toPoint_none], by simp, fun _ h => h⟩
  | some (x0, y0), none => exact ⟨some (x0, y0), rfl, hP, by simp [toPoint_none], by simp, fun h _ => h⟩
  | some (x0, y0), some (x1, y1) =>
    obtain ⟨R, h1, h2, h3, h4⟩ := add_some_refines c (x0 := x0) (y0 := y0) (x1 := x1) (y1 := y1) hP hQ
    exact ⟨R, h1, h2, h4, fun _ _ => h3, fun _ _ => h3⟩

/-- `Point.__neg__` on an affine on-curve point: `(x, p − y)`, on the curve, the group inverse -/
theorem neg_refines {x y : Int} (h : containsXY c x y = true) :
    neg c (some (x, y)) = .ok (some (x, c.p - y)) ∧ containsXY c x (c.p - y) = true ∧
      toPoint c (some (x, c.p - y)) = - toPoint c (some (x, y)) := by
  have e0 := (containsXY_iff c x y).mp h
  have hcast : (((c.p : Int) - y : Int) : ZMod c.p) = -(y : ZMod c.p) := by push_cast; simp
  have e1 : (W c).Equation (x : ZMod c.p) (((c.p : Int) - y : Int) : ZMod c.p) := by
    rw [hcast, W_equation_iff]; rw [W_equation_iff] at e0; rw [← e0]; ring
  have h1 := (containsXY_iff c x (c.p - y)).mpr e1
  refine ⟨by simp [neg, mkPoint, h1], h1, ?_⟩
  rw [toPoint_some c h1, toPoint_some c h, Affine.Point.neg_some]
  exact some_congr c _ _ rfl (by rw [hcast]; simp [Affine.negY])

/-- `Point.__sub__` with an affine subtrahend -/
theorem sub_refines (P : Pt) {x y : Int} (hP : OnCurve c P) (h : containsXY c x y = true) :
    ∃ R, sub c P (some (x, y)) = .ok R ∧ OnCurve c R ∧ toPoint c R = toPoint c P - toPoint c (some (x, y)) := by
  obtain ⟨hn, hc, ht⟩ := neg_refines c h
  obtain ⟨R, h1, h2, h3, -⟩ := add_refines c P (some (x, c.p - y)) hP hc
  refine ⟨R, by simp [sub, hn, h1], h2, ?_⟩
  rw [h3, ht, sub_eq_add_neg]

/-! ### the `(e, 3e)` ladder -/

theorem and_two_pow_ne_zero (x j : Nat) : x &&& 2 ^ j ≠ 0 ↔ x / 2 ^ j % 2 = 1 := by
  have key : x &&& 2 ^ j = if x.testBit j then 2 ^ j else 0 := by
    apply Nat.eq_of_testBit_eq
    intro i
    rw [Nat.testBit_and, Nat.testBit_two_pow]
    by_cases hji : j = i
    · subst hji; cases h : x.testBit j <;> simp
    · cases h : x.testBit j <;> simp [hji]
  rw [key, Nat.testBit_eq_decide_div_mod_eq]
  by_cases h : x / 2 ^ j % 2 = 1 <;> simp [h]

/-- bits `j … 1` of `x`, i.e. what the loop consumes from `i = 2^j` down to `i = 2` -/
def midBits (j x : Nat) : Nat := x % 2 ^ (j + 1) / 2

theorem midBits_succ (j x : Nat) : midBits (j + 1) x = 2 ^ j * (x / 2 ^ (j + 1) % 2) + midBits j x := by
  unfold midBits
  have h1 : x % 2 ^ (j + 2) = 2 ^ (j + 1) * (x / 2 ^ (j + 1) % 2) + x % 2 ^ (j + 1) := by
    rw [show 2 ^ (j + 2) = 2 ^ (j + 1) * 2 by ring, Nat.mod_mul]; ring
  rw [h1, show 2 ^ (j + 1) * (x / 2 ^ (j + 1) % 2) = 2 * (2 ^ j * (x / 2 ^ (j + 1) % 2)) by ring]
  omega

local macro "fin_step" : tactic =>
  `(tactic| (simp only [Nat.cast_one, Nat.cast_zero, one_smul, zero_smul, two_smul, add_zero, sub_zero]; try abel))

theorem ladderLoop_spec (P : Pt) {px py : Int} (hPe : P = some (px, py)) (hP : containsXY c px py = true) (e e3 : Nat) :
    ∀ (j fuel : Nat) (r : Pt), j ≤ fuel → OnCurve c r →
      ∃ R, ladderLoop c P e e3 fuel (2 ^ j) r = .ok R ∧ OnCurve c R ∧
        toPoint c R = ((2 ^ j : Nat) : Int) • toPoint c r + ((midBits j e3 : Nat) : Int) • toPoint c P
          - ((midBits j e : Nat) : Int) • toPoint c P := by
  intro j
  induction j with
  | zero =>
    intro fuel r _ hr
    refine ⟨r, by unfold ladderLoop; simp, hr, ?_⟩
    have h1 : ∀ x, midBits 0 x = 0 := fun x => by
      unfold midBits; have := Nat.mod_lt x (show 0 < 2 ^ (0 + 1) by norm_num); omega
    simp [h1]
  | succ j ih =>
    intro fuel r hf hr
    obtain ⟨f, rfl⟩ : ∃ f, fuel = f + 1 := ⟨fuel - 1, by omega⟩
    have hPon : OnCurve c P := by rw [hPe]; exact hP
    unfold ladderLoop
    have hi : ¬ (2 ^ (j + 1) ≤ 1) := by
      have : 2 ^ (j + 1) = 2 * 2 ^ j := by ring
      have := Nat.one_le_two_pow (n := j); omega
    simp only [hi, if_false]
    obtain ⟨r2, hr2, hr2c, hr2t, -⟩ := add_refines c r r hr hr
    simp only [hr2]
    have hshift : 2 ^ (j + 1) >>> 1 = 2 ^ j := by
      rw [Nat.shiftRight_eq_div_pow]; rw [pow_succ]; simp
    rw [hshift]
    have hstep : ∀ (r' : Pt), OnCurve c r' →
        toPoint c r' = (2 : Int) • toPoint c r + ((e3 / 2 ^ (j + 1) % 2 : Nat) : Int) • toPoint c P
          - ((e / 2 ^ (j + 1) % 2 : Nat) : Int) • toPoint c P →
        ∃ R, ladderLoop c P e e3 f (2 ^ j) r' = .ok R ∧ OnCurve c R ∧
          toPoint c R = ((2 ^ (j + 1) : Nat) : Int) • toPoint c r + ((midBits (j + 1) e3 : Nat) : Int) • toPoint c P
            - ((midBits (j + 1) e : Nat) : Int) • toPoint c P := by
      intro r' hr' ht
      obtain ⟨R, h1, h2, h3⟩ := ih f r' (by omega) hr'
      refine ⟨R, h1, h2, ?_⟩
      rw [h3, ht, midBits_succ, midBits_succ]
      push_cast
      module
    by_cases h3 : e3 &&& 2 ^ (j + 1) ≠ 0
    · have b3 := (and_two_pow_ne_zero e3 (j + 1)).mp h3
      rw [if_pos h3]
      obtain ⟨s, hs, hsc, hst, -⟩ := add_refines c r2 P hr2c hPon
      simp only [hs]
      by_cases hb : e &&& 2 ^ (j + 1) ≠ 0
      · have b := (and_two_pow_ne_zero e (j + 1)).mp hb
        rw [if_pos hb]
        apply hstep r2 hr2c
        rw [hr2t, b3, b]; fin_step
      · have b : e / 2 ^ (j + 1) % 2 = 0 := by
          have := (and_two_pow_ne_zero e (j + 1)).not.mp hb; omega
        rw [if_neg hb]
        apply hstep s hsc
        rw [hst, hr2t, b3, b]; fin_step
    · have b3 : e3 / 2 ^ (j + 1) % 2 = 0 := by
        have := (and_two_pow_ne_zero e3 (j + 1)).not.mp h3; omega
      rw [if_neg h3]
      subst hPe
      obtain ⟨s, hs, hsc, hst⟩ := sub_refines c r2 hr2c hP
      simp only [hs]
      by_cases hb : e &&& 2 ^ (j + 1) ≠ 0
      · have b := (and_two_pow_ne_zero e (j + 1)).mp hb
        rw [if_pos hb]
        apply hstep s hsc
        rw [hst, hr2t, b3, b]; fin_step
      · have b : e / 2 ^ (j + 1) % 2 = 0 := by
          have := (and_two_pow_ne_zero e (j + 1)).not.mp hb; omega
        rw [if_neg hb]
        apply hstep r2 hr2c
        rw [hr2t, b3, b]; fin_step

theorem lmbLoop_spec (x : Nat) (hx : 0 < x) :
    ∀ (fuel t : Nat), (t = 0 ∨ 2 ^ (t - 1) ≤ x) → x + 1 - 2 ^ t < fuel →
      ∃ k, lmbLoop fuel (2 ^ t) x = .ok (2 ^ k) ∧ 2 ^ k ≤ x ∧ x < 2 ^ (k + 1) := by
  intro fuel
  induction fuel with
  | zero => intro t _ h; omega
  | succ f ih =>
    intro t ht hf
    unfold lmbLoop
    by_cases hle : 2 ^ t ≤ x
    · rw [if_pos hle]
      have h2 : 2 ^ t <<< 1 = 2 ^ (t + 1) := by rw [Nat.shiftLeft_eq]; ring
      rw [h2]
      have hpos : 0 < 2 ^ t := Nat.two_pow_pos t
      have h2' : 2 ^ (t + 1) = 2 * 2 ^ t := by ring
      exact ih (t + 1) (Or.inr (by simpa using hle)) (by omega)
    · rw [if_neg hle]
      have ht0 : t ≠ 0 := by rintro rfl; simp at hle; omega
      obtain ⟨s, rfl⟩ : ∃ s, t = s + 1 := ⟨t - 1, by omega⟩
      refine ⟨s, ?_, ?_, by omega⟩
      · rw [Nat.shiftRight_eq_div_pow, pow_succ]; simp
      · rcases ht with h | h
        · omega
        · simpa using h

theorem leftmostBit_spec (x : Int) (hx : 0 < x) :
    ∃ k, leftmostBit x = .ok (2 ^ k) ∧ 2 ^ k ≤ x.toNat ∧ x.toNat < 2 ^ (k + 1) := by
  unfold leftmostBit
  rw [if_neg (by omega)]
  have := lmbLoop_spec x.toNat (by omega) (x.toNat + 1) 0 (Or.inl rfl) (by simp)
  simpa using this

theorem leftmostBit_nonpos (x : Int) (hx : x ≤ 0) : leftmostBit x = .error .assertion := by
  simp [leftmostBit, hx]

/-- `Curve.multiply(P, e)` computes `e • P` for every integer `e` when the curve has an order `n` with `n • P = 0`,
and for every `e ≥ 0` on an order-less curve; it never raises and never runs out of fuel. -/
theorem multiply_refines (P : Pt) (hP : OnCurve c P) (e : Int)
    (hn : c.n ≠ 0 → (c.n : Int) • toPoint c P = 0) (he : c.n = 0 → 0 ≤ e) :
    ∃ R, multiply c P e = .ok R ∧ OnCurve c R ∧ toPoint c R = e • toPoint c P := by
  unfold multiply
  -- the reduced scalar
  obtain ⟨e', he', he0, hsm⟩ : ∃ e' : Int, (if c.n ≠ 0 then fmod e c.n else e) = e' ∧ 0 ≤ e' ∧
      e' • toPoint c P = e • toPoint c P := by
    by_cases h : c.n ≠ 0
    · refine ⟨e % c.n, by simp [h], Int.emod_nonneg e (by exact_mod_cast h), ?_⟩
      conv_rhs => rw [← Int.emod_add_mul_ediv e c.n]
      rw [add_zsmul, mul_comm, mul_zsmul, hn h, zsmul_zero, add_zero]
    · exact ⟨e, by simp [h], he (by simpa using h), rfl⟩
  simp only [he']
  by_cases h0 : P = none ∨ e' = 0
  · rw [if_pos h0]
    refine ⟨none, rfl, rfl, ?_⟩
    rw [← hsm]
    rcases h0 with rfl | rfl <;> simp [toPoint_none, zsmul_zero]
  · rw [if_neg h0]
    push Not at h0
    obtain ⟨hPne, he'ne⟩ := h0
    obtain ⟨⟨px, py⟩, rfl⟩ : ∃ q, P = some q := Option.ne_none_iff_exists'.mp hPne
    have hpos : 0 < 3 * e' := by omega
    obtain ⟨k, hk, hk1, hk2⟩ := leftmostBit_spec (3 * e') hpos
    rw [hk]
    simp only
    have hk0 : k ≠ 0 := by rintro rfl; simp at hk2; omega
    obtain ⟨j, rfl⟩ : ∃ j, k = j + 1 := ⟨k - 1, by omega⟩
    have hshift : 2 ^ (j + 1) >>> 1 = 2 ^ j := by
      rw [Nat.shiftRight_eq_div_pow, pow_succ]; simp
    rw [hshift]
    obtain ⟨R, h1, h2, h3⟩ := ladderLoop_spec c (some (px, py)) rfl hP e'.toNat (3 * e').toNat j (2 ^ j) (some (px, py))
      (Nat.lt_two_pow_self).le hP
    refine ⟨R, h1, h2, ?_⟩
    rw [h3, ← hsm, ← add_zsmul, sub_eq_add_neg, ← neg_zsmul, ← add_zsmul]
    congr 1
    -- arithmetic: 2^j + ⌊(3e mod 2^(j+1))/2⌋ − ⌊(e mod 2^(j+1))/2⌋ = e
    have hK : 2 ^ (j + 1) = 2 * 2 ^ j := by ring
    have e3 : (3 * e').toNat = 3 * e'.toNat := by omega
    unfold midBits
    have m3 : (3 * e').toNat % 2 ^ (j + 1) = (3 * e').toNat - 2 ^ (j + 1) := by
      rw [Nat.mod_eq_sub_mod hk1, Nat.mod_eq_of_lt (by omega)]
    have m1 : e'.toNat % 2 ^ (j + 1) = e'.toNat := Nat.mod_eq_of_lt (by omega)
    rw [m3, m1]
    have : (e'.toNat : Int) = e' := Int.toNat_of_nonneg he0
    omega

omit [Good c] in
/-- on an order-less curve a negative scalar is an `AssertionError` (`_leftmost_bit` asserts `x > 0`) -/
theorem multiply_negative_orderless (P : Pt) (hP : P ≠ none) (e : Int) (hn : c.n = 0) (he : e < 0) :
    multiply c P e = .error .assertion := by
  unfold multiply
  simp only [hn, ne_eq, not_true_eq_false, if_false]
  rw [if_neg (by push Not; exact ⟨hP, by omega⟩), leftmostBit_nonpos _ (by omega)]

/-! ### from group elements back to model points -/

theorem toPoint_eq_zero {R : Pt} (hR : OnCurve c R) (h : toPoint c R = 0) : R = none := by
  match R, hR with
  | none, _ => rfl
  | some (x, y), hR =>
    rw [toPoint_some c hR] at h
    exact absurd h (Affine.Point.some_ne_zero _)

theorem intCast_inj_of_reduced {x x' : Int} (h0 : 0 ≤ x) (h1 : x < c.p) (h0' : 0 ≤ x') (h1' : x' < c.p)
    (h : (x : ZMod c.p) = (x' : ZMod c.p)) : x = x' := by
  have := (ZMod.intCast_eq_intCast_iff x x' c.p).mp h
  unfold Int.ModEq at this
  rwa [Int.emod_eq_of_lt h0 h1, Int.emod_eq_of_lt h0' h1'] at this

/-- on reduced on-curve points `toPoint` is injective: equal group elements are equal coordinate pairs -/
theorem toPoint_inj {P Q : Pt} (hP : OnCurve c P) (hQ : OnCurve c Q) (rP : Reduced c P) (rQ : Reduced c Q)
    (h : toPoint c P = toPoint c Q) : P = Q := by
  match P, Q, hP, hQ, rP, rQ with
  | none, Q, _, hQ, _, _ => exact (toPoint_eq_zero c hQ h.symm).symm
  | some _, none, hP, _, _, _ => exact toPoint_eq_zero c hP h
  | some (x, y), some (x', y'), hP, hQ, rP, rQ =>
    rw [toPoint_some c hP, toPoint_some c hQ] at h
    injection h with hx hy
    obtain ⟨a1, a2, a3, a4⟩ := rP
    obtain ⟨b1, b2, b3, b4⟩ := rQ
    rw [intCast_inj_of_reduced c a1 a2 b1 b2 hx, intCast_inj_of_reduced c a3 a4 b3 b4 hy]

/-- `Δ = −16(4a³ + 27b²)`: the usual integer side condition gives `Good` -/
theorem Good.of_int (c : CurveParams) (hp : Nat.Prime c.p)
    (hd : ¬ (c.p : Int) ∣ 16 * (4 * c.a ^ 3 + 27 * c.b ^ 2)) : Good c := by
  refine ⟨hp, ?_⟩
  intro h
  apply hd
  rw [← ZMod.intCast_zmod_eq_zero_iff_dvd]
  have : (W c).Δ = -(16 * (4 * (c.a : ZMod c.p) ^ 3 + 27 * (c.b : ZMod c.p) ^ 2)) := by
    simp only [WeierstrassCurve.Δ, WeierstrassCurve.b₂, WeierstrassCurve.b₄, WeierstrassCurve.b₆, WeierstrassCurve.b₈]
    ring
  rw [this, neg_eq_zero] at h
  push_cast
  exact h


/-! ### the order of the generator by evaluation -/

/-- the same curve with `order=None`: `multiply` then runs the ladder on the scalar as given -/
def orderless (c : CurveParams) : CurveParams := { c with n := 0 }

instance (c : CurveParams) [Good c] : Good (orderless c) := ⟨Good.prime (c := c), Good.disc (c := c)⟩

/-- if the model ladder, run on the scalar `n` itself, returns infinity, then `n • G = ∞` in the group -/
theorem order_of_eval (c : CurveParams) [Good c] (hG : containsXY c c.gx c.gy = true)
    (h : (multiply (orderless c) (basis c) c.n).toOption = some none) :
    (c.n : Int) • toPoint c (basis c) = 0 := by
  obtain ⟨R, h1, -, h3⟩ := multiply_refines (orderless c) (basis c) hG c.n (fun h => absurd rfl h)
    (fun _ => Int.natCast_nonneg _)
  rw [h1] at h
  simp only [Except.toOption, Option.some.injEq] at h
  subst h
  exact h3.symm


/-- conversely: if the ladder run on the scalar `k` returns an affine point, then `k • P ≠ ∞` -/
theorem smul_ne_zero_of_eval (c : CurveParams) [Good c] (P : Pt) (hP : OnCurve c P) (k : Nat)
    (h : (multiply (orderless c) P k).toOption ≠ some none) :
    (k : Int) • toPoint c P ≠ 0 := by
  obtain ⟨R, h1, h2, h3⟩ := multiply_refines (orderless c) P hP k (fun h => absurd rfl h)
    (fun _ => Int.natCast_nonneg _)
  intro h0
  apply h
  rw [h1]
  have : toPoint (orderless c) R = 0 := by rw [h3]; exact h0
  rw [toPoint_eq_zero (orderless c) h2 this]
  rfl

end Pycoin.Curve
