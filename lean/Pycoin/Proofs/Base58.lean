import Pycoin.Model.Base58
/-!
Radix-conversion lemmas behind C11 (core Lean only): `to_long`/`from_long` are mutually inverse on
"digit strings with leading zeros", for every base ≥ 2.
-/
namespace Pycoin.Base58

/-- value of a big-endian digit string -/
def ofDigits (b : Nat) (ds : List Nat) : Nat := ds.foldl (fun v d => v * b + d) 0

/-- value of a little-endian digit string -/
def ofDigitsLE (b : Nat) : List Nat → Nat
  | [] => 0
  | d :: ds => d + b * ofDigitsLE b ds

/-- number of leading zero digits -/
def lz : List Nat → Nat
  | 0 :: ds => lz ds + 1
  | _ => 0

/-- what `from_long(v, p, b, id)` returns: `p` zeros, then the digits of `v`, most significant first -/
def encDigits (b : Nat) (hb : 2 ≤ b) (v p : Nat) : List Nat :=
  List.replicate p 0 ++ (digitsLE b hb v).reverse

/-! ### digits -/

theorem digitsLE_zero (b : Nat) (hb : 2 ≤ b) : digitsLE b hb 0 = [] := by
  rw [digitsLE]; simp

theorem digitsLE_pos (b : Nat) (hb : 2 ≤ b) {v : Nat} (h : 0 < v) :
    digitsLE b hb v = v % b :: digitsLE b hb (v / b) := by
  rw [digitsLE]; simp [h]

theorem ofDigitsLE_digitsLE (b : Nat) (hb : 2 ≤ b) (v : Nat) : ofDigitsLE b (digitsLE b hb v) = v := by
  induction v using Nat.strongRecOn with
  | _ v ih =>
    rcases Nat.eq_zero_or_pos v with h | h
    · subst h; simp [digitsLE_zero, ofDigitsLE]
    · rw [digitsLE_pos b hb h, ofDigitsLE, ih _ (Nat.div_lt_self h hb)]
      exact Nat.mod_add_div v b

theorem digitsLE_lt (b : Nat) (hb : 2 ≤ b) (v : Nat) : ∀ d ∈ digitsLE b hb v, d < b := by
  induction v using Nat.strongRecOn with
  | _ v ih =>
    rcases Nat.eq_zero_or_pos v with h | h
    · subst h; simp [digitsLE_zero]
    · rw [digitsLE_pos b hb h]
      intro d hd
      rcases List.mem_cons.mp hd with rfl | hd
      · exact Nat.mod_lt _ (by omega)
      · exact ih _ (Nat.div_lt_self h hb) d hd

/-- the most significant digit is not zero -/
theorem digitsLE_getLast (b : Nat) (hb : 2 ≤ b) (v : Nat) : (digitsLE b hb v).getLast? ≠ some 0 := by
  induction v using Nat.strongRecOn with
  | _ v ih =>
    rcases Nat.eq_zero_or_pos v with h | h
    · subst h; simp [digitsLE_zero]
    · rw [digitsLE_pos b hb h]
      rcases Nat.eq_zero_or_pos (v / b) with h0 | h0
      · rw [h0, digitsLE_zero]
        have : v < b := by
          rcases Nat.lt_or_ge v b with h1 | h1
          · exact h1
          · have := Nat.div_pos h1 (by omega : 0 < b); omega
        simp [Nat.mod_eq_of_lt this]; omega
      · have hne : digitsLE b hb (v / b) ≠ [] := by rw [digitsLE_pos b hb h0]; simp
        rw [List.getLast?_cons_of_ne_nil hne] <;> try exact hne
        exact ih _ (Nat.div_lt_self h hb)

/-- uniqueness: a little-endian digit string without a zero at the top is the digit string of its value -/
theorem digitsLE_ofDigitsLE (b : Nat) (hb : 2 ≤ b) (l : List Nat) (hlt : ∀ d ∈ l, d < b)
    (hlast : l.getLast? ≠ some 0) : digitsLE b hb (ofDigitsLE b l) = l := by
  induction l with
  | nil => simp [ofDigitsLE, digitsLE_zero]
  | cons d ds ih =>
    have hd : d < b := hlt d (by simp)
    have hds : ∀ x ∈ ds, x < b := fun x hx => hlt x (by simp [hx])
    have hlast' : ds.getLast? ≠ some 0 := by
      intro h
      cases ds with
      | nil => simp at h
      | cons e es => apply hlast; rw [List.getLast?_cons_cons]; exact h
    have hpos : 0 < d + b * ofDigitsLE b ds := by
      cases ds with
      | nil =>
        simp [ofDigitsLE]
        rcases Nat.eq_zero_or_pos d with h | h
        · subst h; simp at hlast
        · exact h
      | cons e es =>
        have := ih hds hlast'
        rcases Nat.eq_zero_or_pos (ofDigitsLE b (e :: es)) with h | h
        · rw [h, digitsLE_zero] at this; cases this
        · have : 0 < b * ofDigitsLE b (e :: es) := Nat.mul_pos (by omega) h
          omega
    rw [ofDigitsLE, digitsLE_pos b hb hpos]
    have h1 : (d + b * ofDigitsLE b ds) % b = d := by
      rw [Nat.add_mul_mod_self_left, Nat.mod_eq_of_lt hd]
    have h2 : (d + b * ofDigitsLE b ds) / b = ofDigitsLE b ds := by
      rw [Nat.add_mul_div_left _ _ (by omega : 0 < b), Nat.div_eq_of_lt hd, Nat.zero_add]
    rw [h1, h2, ih hds hlast']

theorem foldl_digits_append (b : Nat) (l : List Nat) (d v : Nat) :
    (l ++ [d]).foldl (fun v d => v * b + d) v = l.foldl (fun v d => v * b + d) v * b + d := by
  simp [List.foldl_append]

theorem ofDigits_reverse (b : Nat) (l : List Nat) : ofDigits b l.reverse = ofDigitsLE b l := by
  induction l with
  | nil => rfl
  | cons d ds ih =>
    unfold ofDigits at ih ⊢
    rw [List.reverse_cons, foldl_digits_append, ih, ofDigitsLE, Nat.mul_comm, Nat.add_comm]

theorem foldl_digits_zero (b : Nat) (l : List Nat) (v : Nat) :
    l.foldl (fun v d => v * b + d) v = v * b ^ l.length + l.foldl (fun v d => v * b + d) 0 := by
  induction l generalizing v with
  | nil => simp
  | cons d ds ih =>
    simp only [List.foldl_cons, List.length_cons]
    rw [ih (v * b + d), ih (0 * b + d), Nat.pow_succ]
    simp [Nat.add_mul, Nat.mul_assoc, Nat.add_assoc, Nat.mul_comm b]

theorem ofDigits_zero_cons (b : Nat) (l : List Nat) : ofDigits b (0 :: l) = ofDigits b l := by
  simp [ofDigits]

theorem ofDigits_replicate_append (b p : Nat) (l : List Nat) :
    ofDigits b (List.replicate p 0 ++ l) = ofDigits b l := by
  induction p with
  | zero => simp
  | succ p ih => rw [List.replicate_succ, List.cons_append, ofDigits_zero_cons, ih]

theorem lz_replicate_append (p : Nat) (l : List Nat) (h : l.head? ≠ some 0) :
    lz (List.replicate p 0 ++ l) = p := by
  induction p with
  | zero =>
    cases l with
    | nil => rfl
    | cons d ds =>
      cases d with
      | zero => simp at h
      | succ d => rfl
  | succ p ih => rw [List.replicate_succ, List.cons_append, lz, ih]

theorem head?_reverse_digits (b : Nat) (hb : 2 ≤ b) (v : Nat) : (digitsLE b hb v).reverse.head? ≠ some 0 := by
  rw [List.head?_reverse]; exact digitsLE_getLast b hb v

/-! ### `encDigits` is a bijection between `(v, p)` and digit strings -/

theorem ofDigits_encDigits (b : Nat) (hb : 2 ≤ b) (v p : Nat) : ofDigits b (encDigits b hb v p) = v := by
  rw [encDigits, ofDigits_replicate_append, ofDigits_reverse, ofDigitsLE_digitsLE]

theorem lz_encDigits (b : Nat) (hb : 2 ≤ b) (v p : Nat) : lz (encDigits b hb v p) = p :=
  lz_replicate_append p _ (head?_reverse_digits b hb v)

theorem encDigits_lt (b : Nat) (hb : 2 ≤ b) (v p : Nat) : ∀ d ∈ encDigits b hb v p, d < b := by
  intro d hd
  rcases List.mem_append.mp hd with h | h
  · rw [(List.mem_replicate.mp h).2]; omega
  · exact digitsLE_lt b hb v d (List.mem_reverse.mp h)

/-- every digit string is `encDigits` of its value and its number of leading zeros -/
theorem encDigits_norm (b : Nat) (hb : 2 ≤ b) (l : List Nat) (hlt : ∀ d ∈ l, d < b) :
    encDigits b hb (ofDigits b l) (lz l) = l := by
  induction l with
  | nil => simp [encDigits, ofDigits, lz, digitsLE_zero]
  | cons d ds ih =>
    cases d with
    | zero =>
      have := ih (fun x hx => hlt x (by simp [hx]))
      rw [ofDigits_zero_cons, lz]
      unfold encDigits at this ⊢
      rw [List.replicate_succ, List.cons_append, this]
    | succ d =>
      have h1 : lz ((d + 1) :: ds) = 0 := rfl
      rw [h1, encDigits, List.replicate_zero, List.nil_append]
      have h2 : ofDigits b ((d + 1) :: ds) = ofDigitsLE b ((d + 1) :: ds).reverse := by
        rw [← ofDigits_reverse, List.reverse_reverse]
      rw [h2, digitsLE_ofDigitsLE b hb, List.reverse_reverse]
      · intro x hx; exact hlt x (List.mem_reverse.mp hx)
      · rw [List.getLast?_reverse]; simp

/-! ### the model functions in terms of `ofDigits`, `lz`, `encDigits` -/

theorem toLongAux_eq {α} (b : Nat) (hb : 0 < b) (lookup : α → Option Nat) (f : α → Nat) (s : List α)
    (h : ∀ c ∈ s, lookup c = some (f c)) (v p : Nat) :
    toLongAux b lookup s v p =
      .ok ((s.map f).foldl (fun v d => v * b + d) v, if v = 0 then p + lz (s.map f) else p) := by
  induction s generalizing v p with
  | nil => simp [toLongAux, lz]
  | cons c cs ih =>
    have hc := h c (by simp)
    have hcs : ∀ x ∈ cs, lookup x = some (f x) := fun x hx => h x (by simp [hx])
    rw [toLongAux, hc]
    simp only [List.map_cons, List.foldl_cons]
    rw [ih hcs]
    congr 2
    by_cases hv : v = 0
    · subst hv
      simp only [Nat.zero_mul, Nat.zero_add, if_true]
      cases hf : f c with
      | zero => simp [lz]; omega
      | succ d => simp [lz]
    · have hv' : v * b + f c ≠ 0 := by
        have : 0 < v * b := Nat.mul_pos (by omega) hb
        omega
      rw [if_neg hv', if_neg hv', if_neg hv]

theorem toLong_eq {α} (b : Nat) (hb : 0 < b) (lookup : α → Option Nat) (f : α → Nat) (s : List α)
    (h : ∀ c ∈ s, lookup c = some (f c)) :
    toLong b lookup s = .ok (ofDigits b (s.map f), lz (s.map f)) := by
  rw [toLong, toLongAux_eq b hb lookup f s h]; simp [ofDigits]

theorem toLongAux_error {α} (b : Nat) (lookup : α → Option Nat) (s : List α) (v p : Nat) :
    toLongAux b lookup s v p = .error .encodingError ↔ ∃ c ∈ s, lookup c = none := by
  induction s generalizing v p with
  | nil => simp [toLongAux]
  | cons c cs ih =>
    rw [toLongAux]
    cases hc : lookup c with
    | none => simp [hc]
    | some d =>
      simp only [ih, List.mem_cons, exists_eq_or_imp, hc]
      simp

theorem mapM_some_of_forall {α β} (f : α → Option β) (g : α → β) (l : List α) (h : ∀ x ∈ l, f x = some (g x)) :
    l.mapM f = some (l.map g) := by
  induction l with
  | nil => rfl
  | cons x xs ih =>
    rw [List.mapM_cons, h x (by simp), ih (fun y hy => h y (by simp [hy]))]
    rfl

theorem fromLong_eq {β} (v p b : Nat) (hb : 2 ≤ b) (charset : Nat → Option β) (g : Nat → β)
    (h : ∀ d, d < b → charset d = some (g d)) :
    fromLong v p b hb charset = .ok ((encDigits b hb v p).map g) := by
  unfold fromLong
  rw [mapM_some_of_forall charset g _ (fun d hd => h d (digitsLE_lt b hb v d hd)), h 0 (by omega)]
  simp [optToExcept, encDigits, bind, Except.bind, pure, Except.pure]

end Pycoin.Base58
