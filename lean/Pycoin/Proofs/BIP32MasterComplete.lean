import Pycoin.Proofs.BIP32Master
import Pycoin.Proofs.KeyOrder
/-!
C09 — the converse of `master_sound`: where the BIP's master key generation is valid, `from_master_secret` returns a node.

Small pointwise lemmas (`keyInit_priv_complete`, `mkNode_of_keyInit`) and `rw`; the HMAC output is generalised to an
opaque 64-byte string before anything is unfolded, so that neither the elaborator nor the kernel ever evaluates
`"Bitcoin seed".toUTF8.toList` or the hash.
-/
namespace Pycoin.BIP32
open Pycoin.Curve WeierstrassCurve

/-- `BIP32Node.__init__` on key material `Key.__init__` accepts, a 32-byte chain code and a 4-byte fingerprint -/
theorem mkNode_of_keyInit {g : Gen} {kind : Kind} {cc : Bytes} {d : Nat} {fp : Bytes} {idx : Nat} {key : KeyArg}
    {se : Option Int} {pp : Int × Int} (hk : keyInit g key = .ok (se, pp)) (hcc : cc.length = 32) (hfp : fp.length = 4) :
    mkNode g kind cc d fp idx key = .ok ⟨kind, cc, d, fp, idx, se, pp⟩ := by
  unfold mkNode
  rw [hk]
  show (if cc.length ≠ 32 then (Except.error Err.value : Except Err Node)
        else if fp.length ≠ 4 then Except.error Err.encoding
        else Except.ok (⟨kind, cc, d, fp, idx, se, pp⟩ : Node)) = _
  rw [if_neg (not_not.mpr hcc), if_neg (not_not.mpr hfp)]

variable {g : Gen} [Good g.c]

/-- `Key.__init__(secret_exponent=se)` accepts every `1 ≤ se < n`: `se • G` is an affine point of the curve (`n` prime) -/
theorem keyInit_priv_complete (S : Setting g) (hnp : Nat.Prime g.c.n) {se : Int} (h1 : 1 ≤ se) (h2 : se < g.c.n) :
    ∃ x y, keyInit g (.priv se) = .ok (some se, (x, y)) ∧ g.mul se = .ok (some (x, y)) ∧
      containsXY g.c x y = true := by
  obtain ⟨x, y, hm, hon⟩ := mulG_some g.c S.hG hnp S.hn256 S.hord g.bf se h1 h2
  rw [← Gen.mul_eq S.wf] at hm
  refine ⟨x, y, ?_, hm, hon⟩
  have hr : ¬ (se < 1 ∨ se ≥ g.c.n) := by omega
  show (if se < 1 ∨ se ≥ g.c.n then (Except.error Err.invalidSecretExponent : Except Err (Option Int × (Int × Int)))
        else
          match g.mul se with
          | .error e => .error (.curve e)
          | .ok none => .error .invalidPublicPair
          | .ok (some (x, y)) =>
            if Curve.containsXY g.c x y then .ok (some se, (x, y)) else .error .invalidPublicPair) = _
  rw [if_neg hr, hm]
  show (if Curve.containsXY g.c x y then (Except.ok (some se, (x, y)) : Except Err (Option Int × (Int × Int)))
        else Except.error Err.invalidPublicPair) = _
  rw [if_pos hon]

/-- `from_master_secret` on an opaque 64-byte HMAC output whose left half is a valid exponent -/
theorem mkNode_master_complete (S : Setting g) (hnp : Nat.Prime g.c.n) (kind : Kind) (I : Bytes) (hl : I.length = 64)
    (h1 : 1 ≤ beNat (I.take 32)) (h2 : beNat (I.take 32) < g.c.n) :
    ∃ x y, mkNode g kind (I.drop 32) 0 [0, 0, 0, 0] 0 (.priv (fromBytes32 (I.take 32))) =
      .ok ⟨kind, I.drop 32, 0, [0, 0, 0, 0], 0, some (beNat (I.take 32) : Int), (x, y)⟩ := by
  have h1' : (1 : Int) ≤ fromBytes32 (I.take 32) := by unfold fromBytes32; exact_mod_cast h1
  have h2' : fromBytes32 (I.take 32) < (g.c.n : Int) := by unfold fromBytes32; exact_mod_cast h2
  obtain ⟨x, y, hk, -, -⟩ := keyInit_priv_complete S hnp h1' h2'
  have hcc : (I.drop 32).length = 32 := by rw [List.length_drop, hl]
  exact ⟨x, y, mkNode_of_keyInit hk hcc rfl⟩

/-- **completeness of master key generation**: where the BIP's master key is valid the code returns a node -/
theorem master_complete (S : Setting g) (hnp : Nat.Prime g.c.n) (kind : Kind) (seed : Bytes) (x : Spec.BIP32.XPrv)
    (hx : Spec.BIP32.master (mathCrypto g.c) seed = some x) : ∃ n, fromMasterSecret g kind seed = .ok n := by
  rw [master_eq] at hx
  have hl := hmacSha512_length seedKey seed
  unfold fromMasterSecret
  show ∃ n, mkNode g kind ((Hash.hmacSha512 seedKey seed).drop 32) 0 [0, 0, 0, 0] 0
    (.priv (fromBytes32 ((Hash.hmacSha512 seedKey seed).take 32))) = .ok n
  generalize Hash.hmacSha512 seedKey seed = I at hx hl
  by_cases hc : beNat (I.take 32) = 0 ∨ g.c.n ≤ beNat (I.take 32)
  · rw [if_pos hc] at hx; cases hx
  · obtain ⟨px, py, h⟩ := mkNode_master_complete S hnp kind I hl (by omega) (by omega)
    exact ⟨_, h⟩

/-- `master` reads only the order `n` and HMAC-SHA512 of its `Crypto` -/
theorem master_congr {P Q : Type} (C : Spec.BIP32.Crypto P) (D : Spec.BIP32.Crypto Q) (hn : C.n = D.n)
    (hh : C.hmacSha512 = D.hmacSha512) (seed : Bytes) : Spec.BIP32.master C seed = Spec.BIP32.master D seed := by
  unfold Spec.BIP32.master
  rw [hn, hh]

end Pycoin.BIP32
