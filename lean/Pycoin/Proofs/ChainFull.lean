import Pycoin.Proofs.ChainMax
import Pycoin.Proofs.ChainHist
/-! `add_headers` and whole histories with no hypothesis on the finder (core Lean only) -/
namespace Pycoin.Chain

/-- the finder after `add_headers` is the old one after `load_nodes` of what the generator yielded -/
theorem addHeaders_finder (rev : Bool) (rank : List Nat) (bc bc' : BC) (c : List Nat) (batch : List Header)
    (ops : List Op) (hcur : curChain bc c) (hr : bc.addHeaders rev rank batch = .ok (ops, bc')) :
    ∃ nodes, bc.finder.loadNodes rev rank nodes = .ok bc'.finder := by
  unfold BC.addHeaders at hr
  obtain ⟨⟨old, bc1⟩, h1, hr⟩ := bind_ok hr
  have e1 := h1.symm.trans (longest_of_cur rev bc c hcur)
  simp only [Except.ok.injEq, Prod.mk.injEq] at e1
  obtain ⟨e1a, e1b⟩ := e1
  subst e1b
  try simp only at hr
  obtain ⟨finder', h2, hr⟩ := bind_ok hr
  try simp only at hr
  obtain ⟨⟨new, bc3⟩, h3, hr⟩ := bind_ok hr
  try simp only at hr
  obtain ⟨⟨oldPath, newPath⟩, h4, hr⟩ := bind_ok hr
  try simp only at hr
  unfold BC.longest at h3
  try simp only at h3
  obtain ⟨chains, h3a, h3⟩ := bind_ok h3
  simp only [Except.ok.injEq, Prod.mk.injEq] at h3
  obtain ⟨_, rfl⟩ := h3
  unfold BC.emitOps at hr
  obtain ⟨⟨rops, m1⟩, h5, hr⟩ := bind_ok hr
  try simp only at hr
  simp only [Except.ok.injEq, Prod.mk.injEq] at hr
  obtain ⟨_, rfl⟩ := hr
  exact ⟨_, h2⟩

theorem mapM_trees_ok (cf : CF) : ∀ (bs : List Nat), (∀ b ∈ bs, ∃ t, dget cf.trees b = some t) →
    ∃ cs, bs.mapM (fun b => match dget cf.trees b with
      | none => (Except.error Err.keyError : Except Err (List Nat))
      | some t => .ok t) = .ok cs ∧ ∀ b ∈ bs, ∀ t, dget cf.trees b = some t → t ∈ cs
  | [], _ => ⟨[], by simp [List.mapM_nil, pure, Except.pure], by simp⟩
  | b :: bs, h => by
      obtain ⟨t, ht⟩ := h b (by simp)
      obtain ⟨cs, hcs, hm⟩ := mapM_trees_ok cf bs (fun b' hb' => h b' (List.mem_cons_of_mem _ hb'))
      refine ⟨t :: cs, ?_, ?_⟩
      · rw [List.mapM_cons]
        simp [ht, hcs, bind, Except.bind, pure, Except.pure]
      · intro b' hb' t' ht'
        rcases List.mem_cons.mp hb' with e | e
        · subst e; rw [ht] at ht'; injection ht' with ht'; subst ht'; simp
        · exact List.mem_cons_of_mem _ (hm b' e t' ht')

/-- **a finder satisfying the invariant is complete**: every chain of registered headers above `a` is the upper part
of an enumerated leaf-to-`a` path (and the enumeration does not raise) -/
theorem FinderOK.complete {cf : CF} (fo : FinderOK cf) (rev : Bool) (a : Nat) : FinderComplete rev cf a := by
  intro c' hne hu
  cases c' with
  | nil => exact absurd rfl hne
  | cons x r =>
    obtain ⟨v, hv⟩ := UpPath.registered (x :: r) a hu x (by simp)
    rcases fo.inv.covers x v hv (by simp) with ⟨b, t, hb, hm⟩ | h
    · obtain ⟨pre, post, e⟩ := List.append_of_mem hm
      have hut : UpPath cf.parent t := (UpQ_nil_iff _ _).mp (fo.inv.tree b t hb).2.2
      have hs : UpPath cf.parent (x :: post) := UpPath.suffix pre _ (e ▸ hut) (by simp)
      have heq : x :: post = (x :: r) ++ [a] := UpPath.det _ _ hs hu rfl
      have ht : t = pre ++ (x :: r) ++ [a] := by rw [e, heq, List.append_assoc]
      obtain ⟨top, s, hl, hd, hbs⟩ := fo.inv.dcompl b t hb
      have htop : top = a := by
        rw [ht, List.getLast?_concat] at hl; injection hl with hl; exact hl.symm
      subst htop
      obtain ⟨cs, hcs, hmem⟩ := mapM_trees_ok cf (siter rev s) (by
        intro b' hb'
        obtain ⟨t', ht', _⟩ := fo.inv.dsound top s b' hd ((mem_siter rev s b').mp hb')
        exact ⟨t', ht'⟩)
      refine ⟨cs, pre, ?_, ?_⟩
      · unfold CF.allChainsEndingAt; rw [hd]; exact hcs
      · rw [← ht]; exact hmem b ((mem_siter rev s b).mpr hbs) t hb
    · simp at h

/-- what a BlockChain state carries between calls -/
structure Full (anchor0 : Nat) (bc : BC) (c : List Nat) : Prop where
  good : Good anchor0 bc c
  finder : FinderOK bc.finder
  /-- no chain of registered headers above the anchor is heavier than the reported unlocked chain -/
  heaviest : ∀ c'', UpPath bc.finder.parent (c'' ++ [bc.parentHash]) → chainWeight bc.weight c'' ≤ chainWeight bc.weight c

theorem Full.init (anchor0 : Nat) : Full anchor0 (BC.new anchor0) [] := by
  refine ⟨Good.init anchor0, FinderOK.empty, ?_⟩
  intro c'' hu
  cases c'' with
  | nil => simp
  | cons x r =>
    obtain ⟨v, hv⟩ := UpPath.registered (x :: r) _ hu x (by simp)
    simp [BC.new, CF.empty, dget] at hv

theorem Good.cache_eq {anchor0 : Nat} {bc : BC} {c c1 : List Nat} (g : Good anchor0 bc c) (h : bc.cache = some c1) :
    c1 = c := by
  rcases g.cur with h2 | ⟨h2, _⟩
  · rw [h] at h2; injection h2
  · rw [h] at h2; cases h2

theorem addHeaders_full (anchor0 : Nat) (rev : Bool) (rank : List Nat) (bc bc' : BC) (c : List Nat)
    (batch : List Header) (ops : List Op) (h0 : ∀ hd ∈ batch, hd.hash ≠ anchor0)
    (f : Full anchor0 bc c) (hr : bc.addHeaders rev rank batch = .ok (ops, bc')) :
    ∃ c', Full anchor0 bc' c' ∧ lockedHashes bc' = lockedHashes bc ∧
      replay ops (lockedHashes bc ++ c.reverse) = some (lockedHashes bc' ++ c'.reverse) := by
  obtain ⟨nodes, hload⟩ := addHeaders_finder rev rank bc bc' c batch ops f.good.cur hr
  have fo' := f.finder.load rev rank nodes hload
  obtain ⟨c', g', hl, hrep⟩ := addHeaders_good anchor0 rev rank bc bc' c batch ops h0 f.good hr fo'.inv.sound
  obtain ⟨c2, _, hcache, _, hmax⟩ := addHeaders_max anchor0 rev rank bc bc' c batch ops h0 f.good hr fo'.inv.sound
    (fo'.complete rev bc'.parentHash)
  have : c2 = c' := g'.cache_eq hcache
  subst this
  exact ⟨c2, ⟨g', fo', hmax⟩, hl, hrep⟩

theorem lockToIndex_full' (anchor0 : Nat) (rev : Bool) (rank : List Nat) (bc bc' : BC) (c : List Nat)
    (index : Nat) (cb : Option (List Item × Nat))
    (f : Full anchor0 bc c) (hr : bc.lockToIndex rev rank index = .ok (cb, bc')) :
    ∃ c', Full anchor0 bc' c' ∧ lockedHashes bc' ++ c'.reverse = lockedHashes bc ++ c.reverse := by
  obtain ⟨⟨c', g', e⟩, fo', hmax⟩ := lockToIndex_full anchor0 rev rank bc bc' c index cb f.good f.finder hr
  refine ⟨c', ⟨g', fo', ?_⟩, e⟩
  rcases g'.cur with h | ⟨h, hd, hc'⟩
  · exact hmax f.heaviest c' h
  · -- a fresh object: no trees at all
    subst hc'
    intro c'' hu
    cases c'' with
    | nil => simp
    | cons x r =>
      obtain ⟨v, hv⟩ := UpPath.registered (x :: r) _ hu x (by simp)
      rcases fo'.inv.covers x v hv (by simp) with ⟨b, t, hb, _⟩ | h
      · obtain ⟨top, s, _, hds, _⟩ := fo'.inv.dcompl b t hb
        rw [hd] at hds; simp [dget] at hds
      · simp at h

/-- **every history keeps the full invariant**, and the ops of all its calls replay to the reported chain -/
theorem run_full (anchor0 : Nat) (rev : Bool) : ∀ (steps : List Step) (bc bc' : BC) (c : List Nat) (obs : List Obs),
    Full anchor0 bc c → (∀ s ∈ steps, s.avoids anchor0) →
    runHist rev bc steps = .ok (obs, bc') →
    ∃ c', Full anchor0 bc' c' ∧
      replay (allOps obs) (lockedHashes bc ++ c.reverse) = some (lockedHashes bc' ++ c'.reverse)
  | [], bc, bc', c, obs, f, _, hr => by
      simp only [runHist, Except.ok.injEq, Prod.mk.injEq] at hr
      obtain ⟨rfl, rfl⟩ := hr
      exact ⟨c, f, by simp [allOps, replay]⟩
  | s :: ss, bc, bc', c, obs, f, hav, hr => by
      unfold runHist at hr
      obtain ⟨⟨o, bc1⟩, h1, hr⟩ := bind_ok hr
      try simp only at hr
      obtain ⟨⟨os, bc2⟩, h2, hr⟩ := bind_ok hr
      simp only [Except.ok.injEq, Prod.mk.injEq] at hr
      obtain ⟨rfl, rfl⟩ := hr
      have hav' : ∀ s ∈ ss, s.avoids anchor0 := fun s hs => hav s (List.mem_cons_of_mem _ hs)
      cases s with
      | add batch rank =>
        unfold BC.step at h1
        obtain ⟨⟨ops, bcx⟩, h1a, h1⟩ := bind_ok h1
        simp only [Except.ok.injEq, Prod.mk.injEq] at h1
        obtain ⟨rfl, rfl⟩ := h1
        obtain ⟨c1, f1, _, r1⟩ := addHeaders_full anchor0 rev rank bc bcx c batch ops
          (hav (.add batch rank) (by simp)) f h1a
        obtain ⟨c2, f2, r2⟩ := run_full anchor0 rev ss bcx bc2 c1 os f1 hav' h2
        refine ⟨c2, f2, ?_⟩
        simp only [allOps, List.flatMap_cons] at r2 ⊢
        rw [replay_append, r1]; exact r2
      | lock index rank =>
        unfold BC.step at h1
        obtain ⟨⟨cb, bcx⟩, h1a, h1⟩ := bind_ok h1
        simp only [Except.ok.injEq, Prod.mk.injEq] at h1
        obtain ⟨rfl, rfl⟩ := h1
        obtain ⟨c1, f1, e1⟩ := lockToIndex_full' anchor0 rev rank bc bcx c index cb f h1a
        obtain ⟨c2, f2, r2⟩ := run_full anchor0 rev ss bcx bc2 c1 os f1 hav' h2
        refine ⟨c2, f2, ?_⟩
        simp only [allOps, List.flatMap_cons, List.nil_append] at r2 ⊢
        rw [← e1]; exact r2

end Pycoin.Chain
