import Pycoin.Proofs.ScriptPush
/-! C12: the minimal push is the *only* push instruction of `d` that Core's `CheckMinimalPush` accepts. -/
namespace Pycoin.Script
open Pycoin.Gen.Opcodes

theorem smallInt_none_of_check (d : Bytes) (n : Nat) (hn : 1 ≤ d.length) (h : Spec.checkMinimalPush n d = true) :
    Spec.smallIntOpcode d = none := by
  match d, hn with
  | [x], _ =>
    unfold Spec.checkMinimalPush at h
    unfold Spec.smallIntOpcode
    by_cases ha : 1 ≤ x.toNat ∧ x.toNat ≤ 16
    · simp [ha] at h
    · by_cases hb : x.toNat = 0x81
      · simp [ha, hb] at h
      · simp [ha, hb]
  | _ :: _ :: _, _ => rfl

theorem check_len (n : Nat) (d : Bytes) (h : Spec.checkMinimalPush n d = true) :
    (n = 76 → 76 ≤ d.length) ∧ (n = 77 → 256 ≤ d.length) ∧ (n = 78 → 65536 ≤ d.length) := by
  unfold Spec.checkMinimalPush at h
  refine ⟨?_, ?_, ?_⟩ <;> intro hn <;> subst hn <;> apply Nat.le_of_not_lt <;> intro hlt
  all_goals
    by_cases h0 : d.length = 0
    · simp [h0] at h
    · by_cases h75 : d.length ≤ 75
      · simp only [h0, h75, if_false, if_true] at h
        split at h
        · simp at h
        · split at h
          · simp at h
          · simp at h; omega
      · have hne1 : ¬ d.length = 1 := by omega
        by_cases h255 : d.length ≤ 255
        · simp [h0, h75, hne1, h255] at h <;> omega
        · by_cases h65535 : d.length ≤ 65535
          · simp [h0, h75, hne1, h255, h65535] at h <;> omega
          · omega

theorem byte_eq_of_toNat {b : UInt8} {k : Nat} (h : b.toNat = k) : b = UInt8.ofNat k := by
  rw [← h]; simp

/-- **uniqueness**: any single instruction that Core reads as a push of `d` and that `CheckMinimalPush` accepts
is, byte for byte, `minimalPush d` -/
theorem minimalPush_unique (bs d rest : Bytes) (opc : Nat) (payload : Bytes)
    (hg : Spec.getScriptOp bs = some (opc, payload, rest)) (hv : Spec.pushValue opc payload = some d)
    (hm : opc ≤ 0x4e → Spec.checkMinimalPush opc payload = true) : bs = Spec.minimalPush d ++ rest := by
  match bs, hg with
  | b :: r, hg =>
    rw [getScriptOp_cons] at hg
    have hb : b.toNat < 256 := b.toNat_lt
    have hbn : b = UInt8.ofNat b.toNat := by simp
    rw [hbn]
    generalize b.toNat = n at *
    unfold specOp at hg
    by_cases h78 : n ≤ 78
    · simp only [h78, if_true] at hg
      -- length field
      have key : ∀ (w : Nat) (size : Nat) (r' : Bytes), (r'.length < size → False) → opc = n →
          payload = r'.take size → rest = r'.drop size → d = payload ∧ d.length = size ∧ r' = d ++ rest := by
        intro w size r' hlen ho hp hr
        have hd : d = payload := by
          have : opc ≤ 78 := by omega
          simp [Spec.pushValue, this] at hv; exact hv.symm
        refine ⟨hd, ?_, ?_⟩
        · have hl' : ¬ r'.length < size := hlen
          rw [hd, hp, List.length_take]; omega
        · rw [hd, hp, hr, List.take_append_drop]
      by_cases h76 : n < 76
      · simp only [h76, if_true] at hg
        split at hg
        · cases hg
        · rename_i hlen
          injection hg with hg; injection hg with ho hg; injection hg with hp hr
          obtain ⟨hd, hdl, hr'⟩ := key 0 n r (fun h => hlen h) ho.symm hp.symm hr.symm
          have hmin := hm (by omega)
          rw [← ho, ← hd, ← hdl] at hmin
          rw [hr']
          by_cases h0 : d.length = 0
          · have : d = [] := List.length_eq_zero_iff.mp h0
            subst this
            simp at hdl; subst hdl
            rfl
          · have hs := smallInt_none_of_check d d.length (by omega) hmin
            unfold Spec.minimalPush
            have h75 : d.length ≤ 75 := by omega
            have h75n : n ≤ 75 := by omega
            simp [hs, h75, hdl, h75n]
      · have hcases : n = 76 ∨ n = 77 ∨ n = 78 := by omega
        rcases hcases with h | h | h <;> subst h
        · simp only [Nat.lt_irrefl, if_false, if_true] at hg
          by_cases hw : r.length < 1
          · simp [hw] at hg
          · simp only [hw, if_false] at hg
            split at hg
            · cases hg
            · rename_i hlen
              injection hg with hg; injection hg with ho hg; injection hg with hp hr
              obtain ⟨hd, hdl, hr'⟩ := key 1 _ _ (fun h => hlen h) ho.symm hp.symm hr.symm
              have hmin := hm (by omega)
              rw [← ho, ← hd] at hmin
              have hl := (check_len 76 d hmin).1 rfl
              have hlt := leNat_take_lt r 1
              have hs : Spec.smallIntOpcode d = none := smallInt_none_of_check d 76 (by omega) hmin
              have htake : r.take 1 = leBytes d.length 1 := by
                have := leBytes_leNat (r.take 1)
                rw [take_len hw] at this
                rw [hdl, this]
              have : r = r.take 1 ++ r.drop 1 := (List.take_append_drop 1 r).symm
              rw [this, hr', htake]
              unfold Spec.minimalPush
              have h75 : ¬ d.length ≤ 75 := by omega
              have h255 : d.length ≤ 255 := by omega
              simp [hs, h75, h255]
        · simp only [show ¬ (77 < 76) by omega, show ¬ (77 = 76) by omega, if_false, if_true] at hg
          by_cases hw : r.length < 2
          · simp [hw] at hg
          · simp only [hw, if_false] at hg
            split at hg
            · cases hg
            · rename_i hlen
              injection hg with hg; injection hg with ho hg; injection hg with hp hr
              obtain ⟨hd, hdl, hr'⟩ := key 2 _ _ (fun h => hlen h) ho.symm hp.symm hr.symm
              have hmin := hm (by omega)
              rw [← ho, ← hd] at hmin
              have hl := (check_len 77 d hmin).2.1 rfl
              have hlt := leNat_take_lt r 2
              have hs : Spec.smallIntOpcode d = none := smallInt_none_of_check d 77 (by omega) hmin
              have htake : r.take 2 = leBytes d.length 2 := by
                have := leBytes_leNat (r.take 2)
                rw [take_len hw] at this
                rw [hdl, this]
              have : r = r.take 2 ++ r.drop 2 := (List.take_append_drop 2 r).symm
              rw [this, hr', htake]
              unfold Spec.minimalPush
              have h75 : ¬ d.length ≤ 75 := by omega
              have h255 : ¬ d.length ≤ 255 := by omega
              have h65535 : d.length ≤ 65535 := by omega
              simp [hs, h75, h255, h65535]
        · simp only [show ¬ (78 < 76) by omega, show ¬ (78 = 76) by omega, show ¬ (78 = 77) by omega, if_false] at hg
          by_cases hw : r.length < 4
          · simp [hw] at hg
          · simp only [hw, if_false] at hg
            split at hg
            · cases hg
            · rename_i hlen
              injection hg with hg; injection hg with ho hg; injection hg with hp hr
              obtain ⟨hd, hdl, hr'⟩ := key 4 _ _ (fun h => hlen h) ho.symm hp.symm hr.symm
              have hmin := hm (by omega)
              rw [← ho, ← hd] at hmin
              have hl := (check_len 78 d hmin).2.2 rfl
              have hs : Spec.smallIntOpcode d = none := smallInt_none_of_check d 78 (by omega) hmin
              have htake : r.take 4 = leBytes d.length 4 := by
                have := leBytes_leNat (r.take 4)
                rw [take_len hw] at this
                rw [hdl, this]
              have : r = r.take 4 ++ r.drop 4 := (List.take_append_drop 4 r).symm
              rw [this, hr', htake]
              unfold Spec.minimalPush
              have h75 : ¬ d.length ≤ 75 := by omega
              have h255 : ¬ d.length ≤ 255 := by omega
              have h65535 : ¬ d.length ≤ 65535 := by omega
              simp [hs, h75, h255, h65535]
    · simp only [h78, if_false] at hg
      injection hg with hg; injection hg with ho hg; injection hg with hp hr
      subst ho hp hr
      unfold Spec.pushValue at hv
      simp only [h78, if_false] at hv
      by_cases h79 : n = 79
      · subst h79
        simp at hv; subst hv
        rfl
      · simp only [h79, if_false] at hv
        by_cases hr : 81 ≤ n ∧ n ≤ 96
        · simp only [hr, and_self, if_true] at hv
          injection hv with hv
          subst hv
          have ht : (UInt8.ofNat (n - 80)).toNat = n - 80 := ofNat_toNat_lt (by omega)
          have h1 : 1 ≤ n - 80 ∧ n - 80 ≤ 16 := by omega
          have h2 : 80 + (n - 80) = n := by omega
          unfold Spec.minimalPush Spec.smallIntOpcode
          simp [ht, h1, h2]
        · simp [hr] at hv

end Pycoin.Script
