import Pycoin.Proofs.SignPass
/-!
C05 — one signing pass on the *set* of keys that have signed.

The state of a partially signed m-of-n input is the set `sgn` of key indices (into `sec_list`) whose signatures are present.
A pass with a lookup holding the keys `inT` adds `picks`: walking the indices from the last down, the first `m − |sgn|` that are
in `inT` and not in `sgn`.  `signingSolver_pass`: on any rendering of the state (whatever the order of the blobs) the model's
`signing_solver` returns `m − |sgn'|` placeholders followed by the signatures of `sgn'` in index order, `sgn' = passSet …`.
-/
namespace Pycoin.Sign
open Pycoin Pycoin.Curve

variable {C : Crypto} {dig : Digest} {ht : Nat} {z : Int} {K : List Bytes} {sg : Nat → Bytes}

/-- the listed keys are pairwise different (a signature verifies for its own key only) -/
theorem KeyFacts.inj (F : KeyFacts C dig ht z K sg) {i j : Nat} {k : Bytes}
    (hi : K[i]? = some k) (hj : K[j]? = some k) : i = j := by
  have hil : i < K.length := by
    apply Classical.byContradiction
    intro h
    rw [List.getElem?_eq_none (by omega)] at hi; cases hi
  obtain ⟨r, s, _, hall⟩ := F.sigs i hil
  obtain ⟨Q, hQ, hv⟩ := hall i k hi
  obtain ⟨Q', hQ', hv'⟩ := hall j k hj
  rw [hQ] at hQ'; cases hQ'
  rw [hv] at hv'
  simpa using hv'

theorem enumFrom_map_fst {α} : ∀ (a : Nat) (l : List α), (enumFrom a l).map Prod.fst = List.range' a l.length
  | _, [] => rfl
  | a, x :: r => by
    simp only [enumFrom, List.map_cons, List.length_cons, enumFrom_map_fst (a + 1) r]
    rw [List.range'_succ]

theorem enumFrom_get {α} : ∀ (a : Nat) (l : List α) (p : Nat × α), p ∈ enumFrom a l → a ≤ p.1 ∧ l[p.1 - a]? = some p.2
  | _, [], p, h => by simp [enumFrom] at h
  | a, x :: r, p, h => by
    simp only [enumFrom, List.mem_cons] at h
    rcases h with h | h
    · subst h; simp
    · obtain ⟨h1, h2⟩ := enumFrom_get (a + 1) r p h
      refine ⟨by omega, ?_⟩
      have : p.1 - a = (p.1 - (a + 1)) + 1 := by omega
      rw [this]; simpa using h2

/-- the lookup holds the secret of key `i` -/
def inTOf (lookup : Lookup) (K : List Bytes) (i : Nat) : Bool :=
  match K[i]? with
  | some k => (lookup (Hash.hash160 k)).isSome
  | none => false

/-- the available keys of `availOf`, as indices: last index first -/
theorem availOf_idx {K : List Bytes} (L : List Nat)
    (hinj : ∀ {i j : Nat} {k : Bytes}, i ∈ L → K[i]? = some k → K[j]? = some k → i = j) (lookup : Lookup)
    (sgn : Nat → Bool)
    (hmem : ∀ i, i ∈ L ↔ (i < K.length ∧ sgn i = true)) :
    (availOf lookup (L.filterMap (fun i => K[i]?)) (enumFrom 0 K).reverse).map Prod.fst =
      (List.range K.length).reverse.filter (fun i => !sgn i && inTOf lookup K i) := by
  unfold availOf
  have hcongr : ∀ p ∈ (enumFrom 0 K).reverse,
      (!(decide (p.2 ∈ L.filterMap (fun i => K[i]?))) && (lookup (Hash.hash160 p.2)).isSome) =
        ((fun i => !sgn i && inTOf lookup K i) ∘ Prod.fst) p := by
    intro p hp
    obtain ⟨_, hK⟩ := enumFrom_get 0 K p (List.mem_reverse.mp hp)
    simp only [Nat.sub_zero] at hK
    have hlt : p.1 < K.length := by
      apply Classical.byContradiction
      intro h
      rw [List.getElem?_eq_none (by omega)] at hK; cases hK
    have h1 : (p.2 ∈ L.filterMap (fun i => K[i]?)) ↔ sgn p.1 = true := by
      rw [List.mem_filterMap]
      constructor
      · rintro ⟨j, hj, hjk⟩
        have := hinj hj hjk hK
        subst this
        exact ((hmem _).mp hj).2
      · intro hs
        exact ⟨p.1, (hmem _).mpr ⟨hlt, hs⟩, hK⟩
    have h2 : inTOf lookup K p.1 = (lookup (Hash.hash160 p.2)).isSome := by simp [inTOf, hK]
    simp only [Function.comp, h2]
    by_cases hs : sgn p.1 = true
    · simp [h1.mpr hs, hs]
    · have : ¬ (p.2 ∈ L.filterMap (fun i => K[i]?)) := fun h => hs (h1.mp h)
      simp [this, hs]
  rw [List.filter_congr hcongr, ← List.filter_map, List.map_reverse, enumFrom_map_fst, ← List.range_eq_range']

/-- the signed keys, by increasing index -/
def signedList (n : Nat) (sgn : Nat → Bool) : List Nat := (List.range n).filter sgn

/-- the keys a pass adds -/
def picks (n m : Nat) (sgn inT : Nat → Bool) : List Nat :=
  ((List.range n).reverse.filter (fun i => !sgn i && inT i)).take (m - (signedList n sgn).length)

/-- the set of signed keys after a pass -/
def passSet (n m : Nat) (sgn inT : Nat → Bool) : Nat → Bool := fun i => sgn i || (picks n m sgn inT).contains i

theorem mem_signedList {n : Nat} {sgn : Nat → Bool} {i : Nat} : i ∈ signedList n sgn ↔ (i < n ∧ sgn i = true) := by
  simp [signedList]

theorem signedList_nodup (n : Nat) (sgn : Nat → Bool) : (signedList n sgn).Nodup :=
  List.Nodup.sublist List.filter_sublist List.nodup_range

theorem mem_picks {n m : Nat} {sgn inT : Nat → Bool} {i : Nat} (h : i ∈ picks n m sgn inT) :
    i < n ∧ sgn i = false ∧ inT i = true := by
  have := List.mem_of_mem_take h
  simp at this
  exact ⟨this.1, this.2.1, this.2.2⟩

theorem picks_nodup (n m : Nat) (sgn inT : Nat → Bool) : (picks n m sgn inT).Nodup :=
  List.Nodup.sublist (List.take_sublist _ _) (List.Nodup.sublist List.filter_sublist ((List.reverse_perm _).nodup_iff.mpr List.nodup_range))

theorem slotIdxs_length_le (slots : List Slot) : (slotIdxs slots).length ≤ (slots.filter (·.counts)).length := by
  unfold slotIdxs
  induction slots with
  | nil => simp
  | cons s r ih =>
    cases s with
    | junk b => rw [idx_junk, counts_junk]; exact ih
    | dud b => rw [idx_dud, counts_dud]; simp; omega
    | sig i => rw [idx_sig, counts_sig]; simp; omega

theorem sorted_map_idx (l : List Nat) (h : l.Pairwise (· < ·)) (sg : Nat → Bytes) :
    (l.map (fun (i : Nat) => ((i : Int), sg i))).Pairwise (fun x y => sigLe x y = true) := by
  rw [List.pairwise_map]
  apply List.Pairwise.imp _ h
  intro a b hab
  unfold sigLe
  have : (a : Int) < (b : Int) := by omega
  simp [this]

/-- padding and sorting what was there (`L`, any order) plus what the pass added gives the next state's signature variables -/
theorem assemble_pass (n m : Nat) (sg : Nat → Bytes) (ph : Bytes) (L : List Nat) (sgn inT : Nat → Bool)
    (hnd : L.Nodup) (hmem : ∀ i, i ∈ L ↔ (i < n ∧ sgn i = true)) (hlm : L.length ≤ m) :
    assemble m (some ph) ((L ++ picks n m sgn inT).map (fun (i : Nat) => ((i : Int), sg i))) =
      List.replicate (m - (signedList n (passSet n m sgn inT)).length) (some ph) ++
        (signedList n (passSet n m sgn inT)).map (fun i => some (sg i)) := by
  have hperm0 : L.Perm (signedList n sgn) :=
    (List.perm_ext_iff_of_nodup hnd (signedList_nodup _ _)).mpr (fun i => by rw [hmem, mem_signedList])
  have hlen0 : L.length = (signedList n sgn).length := hperm0.length_eq
  have hnd2 : (L ++ picks n m sgn inT).Nodup := by
    rw [List.nodup_append]
    refine ⟨hnd, picks_nodup _ _ _ _, ?_⟩
    intro a ha b hb hab
    subst hab
    have h1 := ((hmem a).mp ha).2
    have h2 := (mem_picks hb).2.1
    rw [h1] at h2; cases h2
  have hperm : (L ++ picks n m sgn inT).Perm (signedList n (passSet n m sgn inT)) := by
    apply (List.perm_ext_iff_of_nodup hnd2 (signedList_nodup _ _)).mpr
    intro i
    rw [List.mem_append, hmem, mem_signedList]
    simp only [passSet, Bool.or_eq_true, List.contains_iff_mem]
    constructor
    · rintro (⟨h1, h2⟩ | h)
      · exact ⟨h1, Or.inl h2⟩
      · exact ⟨(mem_picks h).1, Or.inr h⟩
    · rintro ⟨h1, h2 | h2⟩
      · exact Or.inl ⟨h1, h2⟩
      · exact Or.inr h2
  rw [assemble_perm m (some ph) (List.Perm.map _ hperm)]
  have hle : ((signedList n (passSet n m sgn inT)).map (fun (i : Nat) => ((i : Int), sg i))).length ≤ m := by
    rw [List.length_map, ← hperm.length_eq, List.length_append]
    have : (picks n m sgn inT).length ≤ m - (signedList n sgn).length := by
      unfold picks; exact List.length_take_le _ _
    omega
  rw [assemble_placeholders m ph _ (by intro p hp; simp at hp; obtain ⟨i, _, rfl⟩ := hp; simp) hle]
  have hs := sorted_map_idx (signedList n (passSet n m sgn inT))
    (by unfold signedList; exact List.Pairwise.filter _ List.pairwise_lt_range) sg
  rw [sortSigs_of_sorted _ hs]
  simp [List.map_map, Function.comp]

/-- **One pass of `signing_solver` on a partially signed input.**  Whatever the order of the blobs, when the signature slots
hold the signatures of the key set `sgn` (and placeholders / junk otherwise), the solver returns `m − |sgn'|` placeholders
followed by the signatures of `sgn'` by key index, where `sgn'` adds to `sgn` the keys the lookup holds, last index first, until
`m` have signed. -/
theorem signingSolver_pass (F : KeyFacts C dig ht z K sg) (lookup : Lookup) (m : Nat) (slots : List Slot) (ph : Bytes)
    (sgn : Nat → Bool)
    (hok : ∀ s ∈ slots, s.ok C dig K) (hcount : (slots.filter (·.counts)).length ≤ m)
    (hnd : (slotIdxs slots).Nodup) (hmem : ∀ i, i ∈ slotIdxs slots ↔ (i < K.length ∧ sgn i = true))
    (hh : LookupHonest C lookup ht z sg (enumFrom 0 K).reverse) :
    signingSolver C lookup dig K m (slots.map (·.render sg)) ht (some ph) =
      .ok (List.replicate (m - (signedList K.length (passSet K.length m sgn (inTOf lookup K))).length) (some ph) ++
           (signedList K.length (passSet K.length m sgn (inTOf lookup K))).map (fun i => some (sg i))) := by
  rw [signingSolver_slots F lookup m slots (some ph) hok hcount hh]
  have hperm0 : (slotIdxs slots).Perm (signedList K.length sgn) :=
    (List.perm_ext_iff_of_nodup hnd (signedList_nodup _ _)).mpr (fun i => by rw [hmem, mem_signedList])
  have hlen0 : (slotIdxs slots).length = (signedList K.length sgn).length := hperm0.length_eq
  have hlm : (slotIdxs slots).length ≤ m := Nat.le_trans (slotIdxs_length_le slots) hcount
  have hP : ((availOf lookup ((slotIdxs slots).filterMap (fun i => K[i]?)) (enumFrom 0 K).reverse).take
      (m - (slotIdxs slots).length)).map (fun (p : Nat × Bytes) => ((p.1 : Int), sg p.1)) =
      (picks K.length m sgn (inTOf lookup K)).map (fun (i : Nat) => ((i : Int), sg i)) := by
    have : (fun (p : Nat × Bytes) => ((p.1 : Int), sg p.1)) = (fun (i : Nat) => ((i : Int), sg i)) ∘ Prod.fst := rfl
    rw [this, ← List.map_map, List.map_take, availOf_idx _ (fun _ hi hj => F.inj hi hj) lookup sgn hmem, hlen0]
    rfl
  rw [hP, ← List.map_append, assemble_pass K.length m sg ph _ sgn _ hnd hmem hlm]

/-- **The first pass over a fresh input** (no script, no witness): nothing is searched for, nothing is verified — no hypothesis
on the keys beyond what the lookup holds -/
theorem signingSolver_fresh (lookup : Lookup) (hz : dig ht = some z) (m : Nat) (ph : Bytes)
    (hh : LookupHonest C lookup ht z sg (enumFrom 0 K).reverse) :
    signingSolver C lookup dig K m [] ht (some ph) =
      .ok (List.replicate (m - (signedList K.length (passSet K.length m (fun _ => false) (inTOf lookup K))).length) (some ph) ++
           (signedList K.length (passSet K.length m (fun _ => false) (inTOf lookup K))).map (fun i => some (sg i))) := by
  unfold signingSolver
  simp only [findSignatures]
  rw [signLoop_eq C lookup dig ht z hz m [] sg _ _ hh]
  simp only [List.nil_append, List.length_nil, Nat.sub_zero]
  have hP : ((availOf lookup [] (enumFrom 0 K).reverse).take m).map (fun (p : Nat × Bytes) => ((p.1 : Int), sg p.1)) =
      (picks K.length m (fun _ => false) (inTOf lookup K)).map (fun (i : Nat) => ((i : Int), sg i)) := by
    have : (fun (p : Nat × Bytes) => ((p.1 : Int), sg p.1)) = (fun (i : Nat) => ((i : Int), sg i)) ∘ Prod.fst := rfl
    have h0 : (signedList K.length (fun _ => false)).length = 0 := by simp [signedList]
    have := availOf_idx (K := K) [] (fun hi _ _ => by simp at hi) lookup (fun _ => false) (by intro i; simp)
    rw [‹(fun (p : Nat × Bytes) => ((p.1 : Int), sg p.1)) = _›, ← List.map_map, List.map_take]
    simp only [List.filterMap_nil] at this
    rw [this]
    unfold picks
    rw [h0]; rfl
  rw [hP]
  have := assemble_pass K.length m sg ph [] (fun _ => false) (inTOf lookup K) List.nodup_nil (by intro i; simp) (by simp)
  simpa using this

end Pycoin.Sign
