import Mathlib.Tactic.SplitIfs
import Pycoin.Proofs.VMVerify
/-!
`check_solution` against `VerifyScript`, part 2: the `do` block of `check_solution` written out phase by phase
(`checkSolution_eq`), the specification reordered the way pycoin works (P2SH before the witness program: `verifyP_main`),
and the refinement `verify_eq`: SIGPUSHONLY, scriptSig evaluation, stack copy, scriptPubKey evaluation, P2SH detection
and redeem script, witness program (native and P2SH-wrapped), malleation rules, CLEANSTACK, WITNESS_UNEXPECTED.
-/
namespace Pycoin.VM
open Pycoin.Spec Pycoin.Gen.VM CondStack Consensus

/-- the P2SH step of `puzzle_and_solution_iterator` + the loop pass for its tuple:
`(flags of the last tuple, its final stack, the script to test for a witness program, is_p2sh)` -/
def p2shPhase (env : Env) (c : SolCtx) (f1 : Nat) (solutionStackPy stackPy : List Bytes) :
    M (Nat × List Bytes × Bytes × Bool) :=
  if hasFlag f1 VERIFY_P2SH && isPayToScriptHash c.puzzleScript then
    match checkScriptPushOnly c.solutionScript with
    | .error e => .error e
    | .ok _ =>
      match solutionStackPy.getLast? with
      | none => .error (.py "IndexError")
      | some redeem =>
        match runStage env c ⟨redeem, solutionStackPy.dropLast, andNot f1 VERIFY_P2SH, false⟩ with
        | .error e => .error e
        | .ok out => .ok (andNot f1 VERIFY_P2SH, out, redeem, true)
  else .ok (f1, stackPy, c.puzzleScript, false)

/-- `check_solution` after the SIGPUSHONLY test -/
def mainPhase (env : Env) (c : SolCtx) (flags : Nat) : M Unit :=
  match evalScript env ⟨c.solutionScript, c.tx, andNot flags (VERIFY_MINIMALIF ||| VERIFY_WITNESS_PUBKEYTYPE), false⟩ [] with
  | .error e => .error e
  | .ok sol =>
    match runStage env c ⟨c.puzzleScript, sol.stack.reverse, andNot flags (VERIFY_MINIMALIF ||| VERIFY_WITNESS_PUBKEYTYPE), false⟩ with
    | .error e => .error e
    | .ok stackPy =>
      match p2shPhase env c (andNot flags (VERIFY_MINIMALIF ||| VERIFY_WITNESS_PUBKEYTYPE)) sol.stack.reverse stackPy with
      | .error e => .error e
      | .ok (lastFlags, stackPy, puzzle, isP2sh) => witnessTail env c puzzle flags isP2sh lastFlags stackPy

set_option maxHeartbeats 1000000 in
/-- `check_solution` is the SIGPUSHONLY test followed by `mainPhase` (the `do` block written out) -/
theorem checkSolution_eq (env : Env) (c : SolCtx) (flags : Nat) :
    checkSolution env c flags =
      if hasFlag flags VERIFY_SIGPUSHONLY then
        match checkScriptPushOnly c.solutionScript with
        | .error e => .error e
        | .ok _ => mainPhase env c flags
      else mainPhase env c flags := by
  unfold checkSolution mainPhase p2shPhase witnessTail tailOf stageThenClean cleanCheck
  simp only [bind, Except.bind, pure, Except.pure]
  by_cases h1 : hasFlag flags VERIFY_SIGPUSHONLY = true
  · simp only [h1, if_true]
    cases checkScriptPushOnly c.solutionScript with
    | error e => rfl
    | ok u =>
      simp only []
      cases evalScript env ⟨c.solutionScript, c.tx, andNot flags (VERIFY_MINIMALIF ||| VERIFY_WITNESS_PUBKEYTYPE), false⟩ [] with
      | error e => rfl
      | ok sol =>
        simp only []
        cases runStage env c ⟨c.puzzleScript, sol.stack.reverse, andNot flags (VERIFY_MINIMALIF ||| VERIFY_WITNESS_PUBKEYTYPE), false⟩ with
        | error e => rfl
        | ok stackPy =>
          simp only []
          by_cases hp : (hasFlag (andNot flags (VERIFY_MINIMALIF ||| VERIFY_WITNESS_PUBKEYTYPE)) VERIFY_P2SH &&
              isPayToScriptHash c.puzzleScript) = true
          · simp only [hp, if_true]
            cases sol.stack.reverse.getLast? with
            | none => rfl
            | some redeem =>
              simp only []
              cases runStage env c ⟨redeem, sol.stack.reverse.dropLast,
                  andNot (andNot flags (VERIFY_MINIMALIF ||| VERIFY_WITNESS_PUBKEYTYPE)) VERIFY_P2SH, false⟩ with
              | error e => rfl
              | ok out =>
                simp only []
                cases witnessProgramTuple env c redeem flags true with
                | error e => rfl
                | ok o =>
                  cases o with
                  | none => rfl
                  | some st =>
                    simp only []
                    cases runStage env c st with
                    | error e => rfl
                    | ok v => rfl
          · simp only [hp, Bool.false_eq_true, if_false]
            cases witnessProgramTuple env c c.puzzleScript flags false with
            | error e => rfl
            | ok o =>
              cases o with
              | none => rfl
              | some st =>
                simp only []
                cases runStage env c st with
                | error e => rfl
                | ok v => rfl
  · simp only [h1, Bool.false_eq_true, if_false]
    cases evalScript env ⟨c.solutionScript, c.tx, andNot flags (VERIFY_MINIMALIF ||| VERIFY_WITNESS_PUBKEYTYPE), false⟩ [] with
    | error e => rfl
    | ok sol =>
      simp only []
      cases runStage env c ⟨c.puzzleScript, sol.stack.reverse, andNot flags (VERIFY_MINIMALIF ||| VERIFY_WITNESS_PUBKEYTYPE), false⟩ with
      | error e => rfl
      | ok stackPy =>
        simp only []
        by_cases hp : (hasFlag (andNot flags (VERIFY_MINIMALIF ||| VERIFY_WITNESS_PUBKEYTYPE)) VERIFY_P2SH &&
            isPayToScriptHash c.puzzleScript) = true
        · simp only [hp, if_true]
          cases checkScriptPushOnly c.solutionScript with
          | error e => rfl
          | ok u =>
            simp only []
            cases sol.stack.reverse.getLast? with
            | none => rfl
            | some redeem =>
              simp only []
              cases runStage env c ⟨redeem, sol.stack.reverse.dropLast,
                  andNot (andNot flags (VERIFY_MINIMALIF ||| VERIFY_WITNESS_PUBKEYTYPE)) VERIFY_P2SH, false⟩ with
              | error e => rfl
              | ok out =>
                simp only []
                cases witnessProgramTuple env c redeem flags true with
                | error e => rfl
                | ok o =>
                  cases o with
                  | none => rfl
                  | some st =>
                    simp only []
                    cases runStage env c st with
                    | error e => rfl
                    | ok v => rfl
        · simp only [hp, Bool.false_eq_true, if_false]
          cases witnessProgramTuple env c c.puzzleScript flags false with
          | error e => rfl
          | ok o =>
            cases o with
            | none => rfl
            | some st =>
              simp only []
              cases runStage env c st with
              | error e => rfl
              | ok v => rfl

/-! ### the specification in the order `check_solution` works in -/

theorem p2sh_not_witness (spk : Bytes) (h : Consensus.isPayToScriptHash spk = true) : isWitnessProgram spk = none := by
  unfold Consensus.isPayToScriptHash at h
  simp only [Bool.and_eq_true, beq_iff_eq] at h
  obtain ⟨⟨⟨hl, h0⟩, _⟩, _⟩ := h
  unfold isWitnessProgram
  rcases spk with _ | ⟨v, _ | ⟨l, prog⟩⟩
  · simp at hl
  · simp at hl
  · simp only [List.getElem?_cons_zero, Option.some.injEq] at h0
    subst h0
    simp [OP_0, OP_1, OP_16]

/-- `VerifyScript` after the SIGPUSHONLY test, P2SH first (a P2SH scriptPubKey is no witness program) -/
def specMain (chk : SChk) (scriptSig spk : Bytes) (witness : List Bytes) (F : Flags) (tx : Consensus.TxCtx) : Option ScriptError :=
  match Consensus.evalScript chk [] scriptSig F tx .base with
  | .error e => some e
  | .ok stackCopy =>
  match Consensus.evalScript chk stackCopy spk F tx .base with
  | .error e => some e
  | .ok stack =>
  if !truthy stack then some .EVAL_FALSE else
  if F.p2sh && Consensus.isPayToScriptHash spk then
    if !isPushOnly scriptSig then some .SIG_PUSHONLY else
    match stackCopy with
    | [] => some .UNKNOWN_ERROR
    | redeem :: stack2 =>
      match Consensus.evalScript chk stack2 redeem F tx .base with
      | .error e => some e
      | .ok stack3 =>
        if !truthy stack3 then some .EVAL_FALSE else specTail chk scriptSig witness F tx redeem true stack3.length
  else specTail chk scriptSig witness F tx spk false stack.length

theorem truthy_take (stack : List Bytes) (h : truthy stack = true) : (stack.take 1).length = 1 := by
  cases stack with
  | nil => simp [truthy] at h
  | cons a r => simp

theorem verifyP_main (chk : SChk) (scriptSig spk : Bytes) (witness : List Bytes) (F : Flags) (tx : Consensus.TxCtx) :
    (verifyP chk scriptSig spk witness F tx).isNone =
      (if F.sigpushonly && !isPushOnly scriptSig then false else (specMain chk scriptSig spk witness F tx).isNone) := by
  unfold verifyP specMain
  by_cases h0 : (F.sigpushonly && !isPushOnly scriptSig) = true
  · simp [h0]
  simp only [h0, Bool.false_eq_true, if_false]
  cases Consensus.evalScript chk [] scriptSig F tx .base with
  | error e => rfl
  | ok stackCopy =>
    simp only []
    cases Consensus.evalScript chk stackCopy spk F tx .base with
    | error e => rfl
    | ok stack =>
      simp only []
      by_cases ht : truthy stack = true
      swap
      · simp [ht]
      simp only [ht, Bool.not_true, Bool.false_eq_true, if_false]
      by_cases hp : (F.p2sh && Consensus.isPayToScriptHash spk) = true
      · have hps : Consensus.isPayToScriptHash spk = true := by
          simp only [Bool.and_eq_true] at hp; exact hp.2
        simp only [hp, if_true, p2sh_not_witness spk hps]
        have hnone : (if F.witness = true then (none : Option (Nat × Bytes)) else none) = none := by split_ifs <;> rfl
        simp only [hnone]
        by_cases hpo : isPushOnly scriptSig = true
        swap
        · simp [hpo]
        simp only [hpo, Bool.not_true, Bool.false_eq_true, if_false]
        cases stackCopy with
        | nil => rfl
        | cons redeem stack2 =>
          simp only []
          cases Consensus.evalScript chk stack2 redeem F tx .base with
          | error e => rfl
          | ok stack3 =>
            simp only []
            by_cases ht3 : truthy stack3 = true
            swap
            · simp [ht3]
            simp only [ht3, Bool.not_true, Bool.false_eq_true, if_false, specTail, if_true]
            cases hw : (if F.witness = true then isWitnessProgram redeem else none) with
            | none =>
              simp only [Bool.not_false, Bool.and_true]
            | some p =>
              obtain ⟨v, prog⟩ := p
              simp only []
              by_cases hm : (scriptSig != pushData redeem) = true
              · simp [hm]
              · simp only [hm, Bool.false_eq_true, if_false]
                cases specWitness chk witness v prog F tx with
                | some e => rfl
                | none =>
                  simp only [Bool.not_true, Bool.and_false, Bool.false_eq_true, if_false, truthy_take stack3 ht3]
                  simp
      · simp only [hp, Bool.false_eq_true, if_false, specTail]
        cases hw : (if F.witness = true then isWitnessProgram spk else none) with
        | none =>
          simp only [Bool.not_false, Bool.and_true]
        | some p =>
          obtain ⟨v, prog⟩ := p
          simp only []
          by_cases hm : (!scriptSig.isEmpty) = true
          · simp [hm]
          · simp only [hm, Bool.false_eq_true, if_false]
            cases specWitness chk witness v prog F tx with
            | some e => rfl
            | none =>
              simp only [Bool.not_true, Bool.and_false, Bool.false_eq_true, if_false, truthy_take stack ht]
              simp

/-! ### `mainPhase` against `specMain` -/

/-- `flags & ~(VERIFY_MINIMALIF | VERIFY_WITNESS_PUBKEYTYPE)`: the flags of the base-version VMs -/
abbrev baseFlags (flags : Nat) : Nat := andNot flags (VERIFY_MINIMALIF ||| VERIFY_WITNESS_PUBKEYTYPE)

theorem baseFlags_p2sh (flags : Nat) : hasFlag (baseFlags flags) VERIFY_P2SH = (Flags.ofBits flags).p2sh := by
  rw [show VERIFY_P2SH = 2 ^ 0 from rfl, hasFlag_pow, testBit_andNot]
  have a : VERIFY_MINIMALIF % 2 = 0 := by decide
  have b : VERIFY_WITNESS_PUBKEYTYPE % 2 = 0 := by decide
  simp [Nat.testBit_or, Flags.ofBits, a, b]

theorem baseFlags_cs (flags : Nat) : hasFlag (baseFlags flags) VERIFY_CLEANSTACK = (Flags.ofBits flags).cleanstack := by
  rw [show VERIFY_CLEANSTACK = 2 ^ 8 from rfl, hasFlag_pow, testBit_andNot]
  simp [Nat.testBit_or, bits_minimalif, bits_wpk, Flags.ofBits]

theorem baseFlags_cs' (flags : Nat) :
    hasFlag (andNot (baseFlags flags) VERIFY_P2SH) VERIFY_CLEANSTACK = (Flags.ofBits flags).cleanstack := by
  rw [show VERIFY_CLEANSTACK = 2 ^ 8 from rfl, hasFlag_pow, testBit_andNot, testBit_andNot]
  simp [Nat.testBit_or, bits_minimalif, bits_wpk, bits_p2sh, Flags.ofBits]

variable (chk : Bytes → Bytes → Bytes → Bool → Bool)

/-- **signature deletion is shared**, for the (up to) three base-version VMs of one `check_solution` call: scriptSig,
scriptPubKey on the stack the scriptSig left, redeem script on the rest of that stack (property C04; the witness VM
deletes nothing) -/
structure VerifyDelShared (c : SolCtx) (flags : Nat) : Prop where
  sig : SigDelShared chk ⟨c.solutionScript, c.tx, baseFlags flags, false⟩ []
  spk : ∀ stackCopy, Consensus.evalScript (specChk chk) [] c.solutionScript (Flags.ofBits flags) (specTx c.tx) .base = .ok stackCopy →
    SigDelShared chk ⟨c.puzzleScript, c.tx, baseFlags flags, false⟩ stackCopy
  redeem : ∀ r stack2, Consensus.evalScript (specChk chk) [] c.solutionScript (Flags.ofBits flags) (specTx c.tx) .base = .ok (r :: stack2) →
    SigDelShared chk ⟨r, c.tx, andNot (baseFlags flags) VERIFY_P2SH, false⟩ stack2

/-- the (up to) three base-version VMs of one `check_solution` call agree with `EvalScript`: scriptSig, scriptPubKey on
the stack the scriptSig left, redeem script on the rest of that stack -/
structure VerifyAgree (c : SolCtx) (flags : Nat) : Prop where
  sig : EvalAgree chk ⟨c.solutionScript, c.tx, baseFlags flags, false⟩ []
  spk : ∀ stackCopy, Consensus.evalScript (specChk chk) [] c.solutionScript (Flags.ofBits flags) (specTx c.tx) .base = .ok stackCopy →
    EvalAgree chk ⟨c.puzzleScript, c.tx, baseFlags flags, false⟩ stackCopy
  redeem : ∀ r stack2, Consensus.evalScript (specChk chk) [] c.solutionScript (Flags.ofBits flags) (specTx c.tx) .base = .ok (r :: stack2) →
    EvalAgree chk ⟨r, c.tx, andNot (baseFlags flags) VERIFY_P2SH, false⟩ stack2

theorem VerifyAgree.of_delShared (hchk : ChkWF chk) (c : SolCtx) (flags : Nat) (h : VerifyDelShared chk c flags) :
    VerifyAgree chk c flags where
  sig := evalScript_eq_all chk _ (by rw [strip_minimalif]; exact id) (by rw [strip_wpk]; exact id) hchk [] h.sig
  spk := fun sc hs => evalScript_eq_all chk _ (by rw [strip_minimalif]; exact id) (by rw [strip_wpk]; exact id) hchk sc (h.spk sc hs)
  redeem := fun r s2 hs => evalScript_eq_all chk _ (by rw [strip_minimalif_p2sh]; exact id) (by rw [strip_wpk_p2sh]; exact id)
    hchk s2 (h.redeem r s2 hs)

/-- a base-version loop pass of `check_solution` against `EvalScript` under the caller's flags -/
theorem runStage_base (c : SolCtx) (flags fl : Nat) (puzzle : Bytes) (stackPy : List Bytes)
    (hfl : fl = baseFlags flags ∨ fl = andNot (baseFlags flags) VERIFY_P2SH)
    (he : EvalAgree chk ⟨puzzle, c.tx, fl, false⟩ stackPy.reverse) :
    (runStage (stdEnv chk) c ⟨puzzle, stackPy, fl, false⟩).toOption =
      (Consensus.evalScript (specChk chk) stackPy.reverse puzzle (Flags.ofBits flags) (specTx c.tx) .base).toOption.bind
        (fun stk => if truthy stk then some stk.reverse else none) := by
  have hs := runStage_agree chk c ⟨puzzle, stackPy, fl, false⟩ he
  simp only [Bool.false_eq_true, if_false] at hs
  have hc : evalPart .base (Flags.ofBits fl) = evalPart .base (Flags.ofBits flags) := by
    rcases hfl with rfl | rfl
    · exact evalPart_strip flags
    · exact evalPart_strip_p2sh flags
  rw [evalScript_congr (specChk chk) _ _ _ (Flags.ofBits flags) _ _ hc] at hs
  exact hs

/-- the scriptSig VM against `EvalScript` under the caller's flags -/
theorem sigEval_base (c : SolCtx) (flags : Nat)
    (he : EvalAgree chk ⟨c.solutionScript, c.tx, baseFlags flags, false⟩ []) :
    (evalScript (stdEnv chk) ⟨c.solutionScript, c.tx, baseFlags flags, false⟩ []).toOption.map (·.stack) =
      (Consensus.evalScript (specChk chk) [] c.solutionScript (Flags.ofBits flags) (specTx c.tx) .base).toOption := by
  unfold EvalAgree at he
  simp only [Bool.false_eq_true, if_false] at he
  rw [evalScript_congr (specChk chk) _ _ _ (Flags.ofBits flags) _ _ (evalPart_strip flags)] at he
  exact he

theorem specLoop_of_eval (cfg : Config) (stack out : List Bytes)
    (h : Consensus.evalScript (specChk chk) stack cfg.script (Flags.ofBits cfg.flags)
      ⟨cfg.ctx.version, cfg.ctx.lockTime, cfg.ctx.sequence⟩ (if cfg.witness then .witnessV0 else .base) = .ok out) :
    ∃ st', specLoop chk cfg cfg.script.length cfg.script 0 { stack := stack } = .ok st' := by
  rw [specEval_def] at h
  split_ifs at h
  cases hs : specLoop chk cfg cfg.script.length cfg.script 0 { stack := stack } with
  | error e => rw [hs] at h; cases h
  | ok st' => exact ⟨st', rfl⟩

/-- the push-only test of the scriptSig, once `EvalScript` has run it to the end -/
theorem pushonly_sig (c : SolCtx) (flags : Nat) (out : List Bytes)
    (h : Consensus.evalScript (specChk chk) [] c.solutionScript (Flags.ofBits flags) (specTx c.tx) .base = .ok out) :
    (checkScriptPushOnly c.solutionScript = .ok ()) ↔ isPushOnly c.solutionScript = true := by
  obtain ⟨st', hl⟩ := specLoop_of_eval chk ⟨c.solutionScript, c.tx, flags, false⟩ [] out (by simpa using h)
  exact pushonly_agree chk ⟨c.solutionScript, c.tx, flags, false⟩ [] st' hl

theorem mainPhase_spec (hchk : ChkWF chk) (c : SolCtx) (flags : Nat) (hdel : VerifyAgree chk c flags) :
    (mainPhase (stdEnv chk) c flags).toOption.isSome =
      (specMain (specChk chk) c.solutionScript c.puzzleScript c.witnessPy (Flags.ofBits flags) (specTx c.tx)).isNone := by
  have h1 := sigEval_base chk c flags hdel.sig
  unfold mainPhase specMain
  cases hm1 : evalScript (stdEnv chk) ⟨c.solutionScript, c.tx, baseFlags flags, false⟩ [] with
  | error e =>
    rw [hm1] at h1
    cases hs1 : Consensus.evalScript (specChk chk) [] c.solutionScript (Flags.ofBits flags) (specTx c.tx) .base with
    | error e' => rfl
    | ok v => rw [hs1] at h1; simp [Except.toOption] at h1
  | ok sol =>
    rw [hm1] at h1
    cases hs1 : Consensus.evalScript (specChk chk) [] c.solutionScript (Flags.ofBits flags) (specTx c.tx) .base with
    | error e' => rw [hs1] at h1; simp [Except.toOption] at h1
    | ok stackCopy =>
      rw [hs1] at h1
      simp only [Except.toOption, Option.map, Option.some.injEq] at h1
      subst h1
      simp only []
      -- the scriptPubKey on the stack the scriptSig left
      have h2 := runStage_base chk c flags (baseFlags flags) c.puzzleScript sol.stack.reverse (Or.inl rfl)
        (by rw [List.reverse_reverse]; exact hdel.spk sol.stack hs1)
      rw [List.reverse_reverse] at h2
      cases hm2 : runStage (stdEnv chk) c ⟨c.puzzleScript, sol.stack.reverse, baseFlags flags, false⟩ with
      | error e =>
        rw [hm2] at h2
        cases hs2 : Consensus.evalScript (specChk chk) sol.stack c.puzzleScript (Flags.ofBits flags) (specTx c.tx) .base with
        | error e' => rfl
        | ok stack =>
          rw [hs2] at h2
          simp only [Except.toOption, Option.bind] at h2
          by_cases ht : truthy stack = true
          · simp [ht] at h2
          · simp [ht, Except.toOption]
      | ok stackPy =>
        rw [hm2] at h2
        cases hs2 : Consensus.evalScript (specChk chk) sol.stack c.puzzleScript (Flags.ofBits flags) (specTx c.tx) .base with
        | error e' => rw [hs2] at h2; simp [Except.toOption] at h2
        | ok stack =>
          rw [hs2] at h2
          simp only [Except.toOption, Option.bind] at h2
          by_cases ht : truthy stack = true
          swap
          · simp [ht] at h2
          simp only [ht, if_true, Option.some.injEq] at h2
          subst h2
          simp only [ht, Bool.not_true, Bool.false_eq_true, if_false]
          unfold p2shPhase
          rw [baseFlags_p2sh, isP2SH_eq]
          by_cases hp : ((Flags.ofBits flags).p2sh && Consensus.isPayToScriptHash c.puzzleScript) = true
          swap
          · -- no P2SH: the scriptPubKey itself is tested for a witness program
            simp only [hp, Bool.false_eq_true, if_false]
            have := witnessTail_spec chk hchk c c.puzzleScript flags false (baseFlags flags) stack.reverse (baseFlags_cs flags)
            rw [List.length_reverse] at this
            exact this
          simp only [hp, if_true]
          have hpo := pushonly_sig chk c flags sol.stack hs1
          cases hcp : checkScriptPushOnly c.solutionScript with
          | error e =>
            have : isPushOnly c.solutionScript = false := by
              cases hx : isPushOnly c.solutionScript with
              | false => rfl
              | true => rw [hpo.mpr hx] at hcp; cases hcp
            simp [this, Except.toOption]
          | ok u =>
            have : isPushOnly c.solutionScript = true := hpo.mp (by rw [hcp])
            simp only [this, Bool.not_true, Bool.false_eq_true, if_false]
            rcases hst : sol.stack with _ | ⟨redeem, stack2⟩
            · simp [Except.toOption]
            · have hgl : (redeem :: stack2).reverse.getLast? = some redeem := by simp
              have hdl : (redeem :: stack2).reverse.dropLast = stack2.reverse := by simp
              simp only [hgl, hdl]
              rw [hst] at hs1
              have h3 := runStage_base chk c flags (andNot (baseFlags flags) VERIFY_P2SH) redeem stack2.reverse (Or.inr rfl)
                (by rw [List.reverse_reverse]; exact hdel.redeem redeem stack2 hs1)
              rw [List.reverse_reverse] at h3
              cases hm3 : runStage (stdEnv chk) c ⟨redeem, stack2.reverse, andNot (baseFlags flags) VERIFY_P2SH, false⟩ with
              | error e =>
                rw [hm3] at h3
                cases hs3 : Consensus.evalScript (specChk chk) stack2 redeem (Flags.ofBits flags) (specTx c.tx) .base with
                | error e' => rfl
                | ok stack3 =>
                  rw [hs3] at h3
                  simp only [Except.toOption, Option.bind] at h3
                  by_cases ht3 : truthy stack3 = true
                  · simp [ht3] at h3
                  · simp [ht3, Except.toOption]
              | ok out =>
                rw [hm3] at h3
                cases hs3 : Consensus.evalScript (specChk chk) stack2 redeem (Flags.ofBits flags) (specTx c.tx) .base with
                | error e' => rw [hs3] at h3; simp [Except.toOption] at h3
                | ok stack3 =>
                  rw [hs3] at h3
                  simp only [Except.toOption, Option.bind] at h3
                  by_cases ht3 : truthy stack3 = true
                  swap
                  · simp [ht3] at h3
                  simp only [ht3, if_true, Option.some.injEq] at h3
                  subst h3
                  simp only [ht3, Bool.not_true, Bool.false_eq_true, if_false]
                  have := witnessTail_spec chk hchk c redeem flags true (andNot (baseFlags flags) VERIFY_P2SH) stack3.reverse
                    (baseFlags_cs' flags)
                  rw [List.length_reverse] at this
                  exact this

theorem specMain_sigfail (sc : SChk) (scriptSig spk : Bytes) (witness : List Bytes) (F : Flags) (tx : Consensus.TxCtx) (e : ScriptError)
    (h : Consensus.evalScript sc [] scriptSig F tx .base = .error e) : (specMain sc scriptSig spk witness F tx).isNone = false := by
  unfold specMain
  rw [h]
  rfl

/-- **C03.verify_eq**: `check_solution` succeeds exactly when `VerifyScript` does -/
theorem verify_eq (hchk : ChkWF chk) (c : SolCtx) (flags : Nat) (hdel : VerifyAgree chk c flags) :
    (checkSolution (stdEnv chk) c flags).toOption.isSome =
      (verifyScript (specChk chk) c.solutionScript c.puzzleScript c.witnessPy (Flags.ofBits flags) (specTx c.tx)).isNone := by
  rw [verifyScript_eq, verifyP_main, checkSolution_eq, flag_sigpushonly]
  have hmain := mainPhase_spec chk hchk c flags hdel
  cases (Flags.ofBits flags).sigpushonly
  · simp only [Bool.false_eq_true, if_false, Bool.false_and]
    exact hmain
  simp only [if_true, Bool.true_and]
  cases hs1 : Consensus.evalScript (specChk chk) [] c.solutionScript (Flags.ofBits flags) (specTx c.tx) .base with
  | error e =>
    have hf := specMain_sigfail (specChk chk) c.solutionScript c.puzzleScript c.witnessPy _ _ e hs1
    rw [hf] at hmain ⊢
    cases checkScriptPushOnly c.solutionScript with
    | error e' => simp [Except.toOption]
    | ok u => simp only []; rw [hmain]; split_ifs <;> rfl
  | ok out =>
    have hpo := pushonly_sig chk c flags out hs1
    cases hcp : checkScriptPushOnly c.solutionScript with
    | error e' =>
      have : isPushOnly c.solutionScript = false := by
        cases hx : isPushOnly c.solutionScript with
        | false => rfl
        | true => rw [hpo.mpr hx] at hcp; cases hcp
      simp [this, Except.toOption]
    | ok u =>
      have : isPushOnly c.solutionScript = true := hpo.mp (by rw [hcp])
      simp only [this, Bool.not_true, Bool.false_eq_true, if_false]
      exact hmain
end Pycoin.VM
