import Pycoin.Proofs.SignWrap
import Pycoin.Proofs.SignSeq
/-!
C05 — accepting and rejecting runs of the multisig script on the signature variables of a state: signatures in key-index order
embed into the keys; a blob that verifies for no listed key (the placeholder, a signature made with a wrong secret) makes the
matching loop fail, whatever else is there.
-/
namespace Pycoin.Sign
open Pycoin Pycoin.Spec.Consensus

/-- the matching loop succeeds only when every signature verifies for some key -/
theorem multisigLoop_true_all (chk : PChk) (flags : Flags) (sv : SigVersion) (code : Bytes) :
    ∀ (keys sigs : List Bytes), multisigLoop (m := Id) (liftChk chk) flags sv code sigs keys = .ok true →
      ∀ s ∈ sigs, ∃ k ∈ keys, chk s k code sv = true := by
  intro keys
  induction keys with
  | nil =>
    intro sigs h s hs
    cases sigs with
    | nil => simp at hs
    | cons a r => simp only [multisigLoop, pure] at h; cases h
  | cons k ks ih =>
    intro sigs h s hs
    cases sigs with
    | nil => simp at hs
    | cons a r =>
      simp only [multisigLoop] at h
      split at h
      · simp [pure] at h
      · split at h
        · simp [pure] at h
        · simp only [liftChk, bind, pure] at h
          by_cases hc : chk a k code sv = true
          · simp only [hc, if_true] at h
            split at h
            · cases h
            · rcases List.mem_cons.mp hs with hs | hs
              · exact ⟨k, by simp, by rw [hs]; exact hc⟩
              · obtain ⟨k', hk', hv⟩ := ih r h s hs
                exact ⟨k', List.mem_cons_of_mem _ hk', hv⟩
          · have hcf : chk a k code sv = false := by simpa using hc
            simp only [hcf, Bool.false_eq_true, if_false] at h
            split at h
            · cases h
            · obtain ⟨k', hk', hv⟩ := ih (a :: r) h s hs
              exact ⟨k', List.mem_cons_of_mem _ hk', hv⟩

theorem multisigOutcome_bad (flags : Flags) (sigsTop rest : List Bytes) (r : Res Bool) (h : r ≠ .ok true) :
    (∃ e, multisigOutcome flags sigsTop rest r = .error e) ∨ multisigOutcome flags sigsTop rest r = .ok ([] :: rest) := by
  rcases r with e | ok
  · exact Or.inl ⟨e, rfl⟩
  · cases ok with
    | true => exact absurd rfl h
    | false =>
      unfold multisigOutcome
      by_cases hc : (!false && flags.nullfail && sigsTop.any (fun s => !s.isEmpty)) = true
      · left; exact ⟨.SIG_NULLFAIL, by simp only [hc, if_true]⟩
      · right; simp only [hc]; rfl

/-- **a blob that verifies for no listed key makes the multisig script fail**: an error, or a false on the stack -/
theorem evalScript_multisigN_bad (chk : PChk) (m : Nat) (keys sigsTop : List Bytes) (flags : Flags) (tx : TxCtx)
    (sv : SigVersion) (hm : sigsTop.length = m) (hm1 : 1 ≤ m) (hmn : m ≤ keys.length) (hn : keys.length ≤ 20)
    (hkeys : ∀ k ∈ keys, 2 ≤ k.length ∧ k.length ≤ 75)
    (hbad : ∃ s ∈ sigsTop, ∀ k ∈ keys,
      chk s k (scriptCodeFor ⟨multisigScriptN m keys, flags, sv, tx⟩ ⟨[], [], [], 0, 0⟩ sigsTop) sv = false) :
    (∃ e, evalScript chk (sigsTop ++ [[]]) (multisigScriptN m keys) flags tx sv = .error e) ∨
      evalScript chk (sigsTop ++ [[]]) (multisigScriptN m keys) flags tx sv = .ok [[]] := by
  rw [evalScript_multisigN_eq chk m keys sigsTop [] flags tx sv hm hm1 hmn hn hkeys (by simp)]
  apply multisigOutcome_bad
  intro hloop
  obtain ⟨s, hs, hall⟩ := hbad
  obtain ⟨k, hk, hv⟩ := multisigLoop_true_all chk flags sv _ keys.reverse sigsTop hloop s hs
  rw [hall k (List.mem_reverse.mp hk)] at hv
  cases hv

/-- signatures listed by increasing key index verify for a subsequence of the keys -/
theorem embeds_range (chk : PChk) (code : Bytes) (sv : SigVersion) (sg : Nat → Bytes) (sgn : Nat → Bool) :
    ∀ (l : List Bytes) (a : Nat), (∀ t k, l[t]? = some k → sgn (a + t) = true → chk (sg (a + t)) k code sv = true) →
      Embeds chk code sv (((List.range' a l.length).filter sgn).map sg) l := by
  intro l
  induction l with
  | nil => intro a _; exact Embeds.nil _
  | cons k l' ih =>
    intro a h
    have hrec := ih (a + 1) (fun t k' hk' hs => by
      have := h (t + 1) k' (by simpa using hk') (by rw [show a + (t + 1) = a + 1 + t by omega]; exact hs)
      rw [show a + (t + 1) = a + 1 + t by omega] at this; exact this)
    rw [List.length_cons, List.range'_succ]
    by_cases hs : sgn a = true
    · rw [List.filter_cons_of_pos hs, List.map_cons]
      exact Embeds.take (by simpa using h 0 k rfl (by simpa using hs)) hrec
    · rw [List.filter_cons_of_neg hs]
      exact Embeds.skip hrec

theorem embeds_signedList (chk : PChk) (code : Bytes) (sv : SigVersion) (sg : Nat → Bytes) (sgn : Nat → Bool) (K : List Bytes)
    (h : ∀ i k, K[i]? = some k → sgn i = true → chk (sg i) k code sv = true) :
    Embeds chk code sv ((signedList K.length sgn).map sg) K := by
  have := embeds_range chk code sv sg sgn K 0 (fun t k hk hs => by simpa using h t k hk (by simpa using hs))
  rw [← List.range_eq_range'] at this
  exact this

end Pycoin.Sign
