import Pycoin.Proofs.Group
import Pycoin.Proofs.CurvePrimes
/-!
Facts about the shipped curve `bls12_381` (constants generated from /repo): p prime and non-zero discriminant
(`Good`), the generator is on the curve, and `n • G = ∞` — the last by kernel evaluation of the model's own
ladder (`Curve.multiply` on the order-less copy of the curve), transported by `multiply_refines`.
-/
namespace Pycoin.Gen.Curves
open Pycoin.Curve

instance good_bls12_381 : Good bls12_381 :=
  Good.of_int bls12_381 prime_p_bls12_381 (by decide +kernel)

theorem G_on_curve_bls12_381 : containsXY bls12_381 bls12_381.gx bls12_381.gy = true := by decide +kernel

theorem order_G_bls12_381 : (bls12_381.n : Int) • toPoint bls12_381 (basis bls12_381) = 0 :=
  order_of_eval bls12_381 G_on_curve_bls12_381 (by decide +kernel)

/-- BLS12-381 G1 has a cofactor: `(0, 2)` is a point of the curve that the order `r` does not annihilate -/
theorem cofactor_point_on_curve_bls12_381 : containsXY bls12_381 0 2 = true := by decide +kernel

theorem order_not_all_points_bls12_381 : (bls12_381.n : Int) • toPoint bls12_381 (some (0, 2)) ≠ 0 :=
  smul_ne_zero_of_eval bls12_381 (some (0, 2)) cofactor_point_on_curve_bls12_381 bls12_381.n (by decide +kernel)

end Pycoin.Gen.Curves
