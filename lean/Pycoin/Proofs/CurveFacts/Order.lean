import Pycoin.Proofs.CurveCard
import Pycoin.Proofs.CurveFacts.secp256k1
import Pycoin.Proofs.CurveFacts.secp256r1
/-!
`#E(F_p) = n` for secp256k1 and secp256r1 (constants and certificates generated from /repo), without Hasse's theorem:
`Proofs/CurveCard.lean` with the generated certificate that `x³ + ax + b` has no root modulo `p` (checked in the kernel),
`n` prime (Pratt certificate), `n • G = ∞` (kernel evaluation) and `2p + 1 < 3n`.  Consequences: the order annihilates
every point of the curve, every point other than infinity has order exactly `n`, no point has `y = 0`.
-/
namespace Pycoin.Gen.Curves
open Pycoin.Curve WeierstrassCurve

/-- `x³ + 7` has no root modulo `p`: secp256k1 has no point with `y = 0` (no point of order two) -/
theorem no_root_secp256k1 (x : ZMod secp256k1.p) :
    x ^ 3 + (secp256k1.a : ZMod secp256k1.p) * x + (secp256k1.b : ZMod secp256k1.p) ≠ 0 :=
  no_root_of_cert secp256k1 noroot_secp256k1 (by decide +kernel) x

/-- `x³ − 3x + b` has no root modulo `p`: secp256r1 has no point with `y = 0` (no point of order two) -/
theorem no_root_secp256r1 (x : ZMod secp256r1.p) :
    x ^ 3 + (secp256r1.a : ZMod secp256r1.p) * x + (secp256r1.b : ZMod secp256r1.p) ≠ 0 :=
  no_root_of_cert secp256r1 noroot_secp256r1 (by decide +kernel) x

/-- `#E(F_p) = n` for secp256k1 -/
theorem card_secp256k1 : Nat.card (W secp256k1).Point = secp256k1.n :=
  card_point_eq secp256k1 prime_n_secp256k1 G_on_curve_secp256k1 order_G_secp256k1 (by decide +kernel) (by decide +kernel)
    no_root_secp256k1

/-- `#E(F_p) = n` for secp256r1 -/
theorem card_secp256r1 : Nat.card (W secp256r1).Point = secp256r1.n :=
  card_point_eq secp256r1 prime_n_secp256r1 G_on_curve_secp256r1 order_G_secp256r1 (by decide +kernel) (by decide +kernel)
    no_root_secp256r1

/-- the order annihilates every point of secp256k1 -/
theorem order_all_secp256k1 (P : (W secp256k1).Point) : (secp256k1.n : Int) • P = 0 :=
  order_smul_eq_zero secp256k1 prime_n_secp256k1 G_on_curve_secp256k1 order_G_secp256k1 (by decide +kernel)
    (by decide +kernel) no_root_secp256k1 P

/-- the order annihilates every point of secp256r1 -/
theorem order_all_secp256r1 (P : (W secp256r1).Point) : (secp256r1.n : Int) • P = 0 :=
  order_smul_eq_zero secp256r1 prime_n_secp256r1 G_on_curve_secp256r1 order_G_secp256r1 (by decide +kernel)
    (by decide +kernel) no_root_secp256r1 P

/-- every point of secp256k1 other than infinity has order exactly `n` -/
theorem addOrderOf_secp256k1 (P : (W secp256k1).Point) (hP : P ≠ 0) : addOrderOf P = secp256k1.n :=
  addOrderOf_eq_order secp256k1 prime_n_secp256k1 G_on_curve_secp256k1 order_G_secp256k1 (by decide +kernel)
    (by decide +kernel) no_root_secp256k1 P hP

/-- every point of secp256r1 other than infinity has order exactly `n` -/
theorem addOrderOf_secp256r1 (P : (W secp256r1).Point) (hP : P ≠ 0) : addOrderOf P = secp256r1.n :=
  addOrderOf_eq_order secp256r1 prime_n_secp256r1 G_on_curve_secp256r1 order_G_secp256r1 (by decide +kernel)
    (by decide +kernel) no_root_secp256r1 P hP

end Pycoin.Gen.Curves
