import Pycoin.Proofs.Group
import Pycoin.Proofs.CurvePrimes
/-!
Facts about the shipped curve `secp256r1` (constants generated from /repo): p prime and non-zero discriminant
(`Good`), the generator is on the curve, and `n • G = ∞` — the last by kernel evaluation of the model's own
ladder (`Curve.multiply` on the order-less copy of the curve), transported by `multiply_refines`.
-/
namespace Pycoin.Gen.Curves
open Pycoin.Curve

instance good_secp256r1 : Good secp256r1 :=
  Good.of_int secp256r1 prime_p_secp256r1 (by decide +kernel)

theorem G_on_curve_secp256r1 : containsXY secp256r1 secp256r1.gx secp256r1.gy = true := by decide +kernel

theorem order_G_secp256r1 : (secp256r1.n : Int) • toPoint secp256r1 (basis secp256r1) = 0 :=
  order_of_eval secp256r1 G_on_curve_secp256r1 (by decide +kernel)

end Pycoin.Gen.Curves
