import Pycoin.Model.ScriptTools
/-! C12: facts about the name tables of `BitcoinScriptTools`, each re-proved by kernel evaluation of the whole
generated table (so they are re-checked against what the code builds *now*). Slow (≈1–2 min): kept in its own file. -/
namespace Pycoin.Script
open Pycoin.Gen.Opcodes

def isOkEq (r : Except Err Bytes) (b : Bytes) : Bool :=
  match r with
  | .ok x => x == b
  | .error _ => false

/-- the name disassembly prints for byte `n` (if any) compiles back to exactly that byte -/
def nameOk (n : Nat) : Bool :=
  match dictGet (UInt8.ofNat n) intToOpcodeC with
  | some name => isOkEq (compileToken name) [UInt8.ofNat n]
  | none => true

/-- every printed name compiles back to the byte it was printed for — aliases (0xb1 `OP_CHECKLOCKTIMEVERIFY`/`OP_NOP2`,
0xb2 `OP_CHECKSEQUENCEVERIFY`/`OP_NOP3`) included -/
theorem names_roundtrip : ∀ n, n < 256 → nameOk n = true := by
  decide +kernel

/-- data opcodes (0..96 except 80) all have a name, and it starts with `OP_PUSH` exactly for 1..78 -/
def dataNameOk (n : Nat) : Bool :=
  if n ≤ 96 ∧ n ≠ 80 then
    match dictGet (UInt8.ofNat n) intToOpcodeC with
    | some name => "OP_PUSH".toList.isPrefixOf name == decide (1 ≤ n ∧ n ≤ 78)
    | none => false
  else true

theorem dataNames : ∀ n, n < 256 → dataNameOk n = true := by
  decide +kernel

/-- every name in `opcode_to_int` starts with `O` and has no `[` as its fourth character -/
theorem name_keys : ∀ p ∈ opcodeToIntC, (p.1.head? == some 'O' && !(p.1[3]? == some '[')) = true := by
  decide +kernel

end Pycoin.Script
