import Mathlib.Tactic.SplitIfs
import Mathlib.Tactic.IntervalCases
import Pycoin.Proofs.VMStepFlow
import Pycoin.Proofs.VMStepPick
/-!
One whole instruction: `VM.eval_instruction` (decode, push-size, op count, dispatch through the generated table,
op-count limit, stack-size limit) against one iteration of Core's loop (`GetScriptOp` + `stepM`), for every opcode
outside the CHECKSIG family.
-/
namespace Pycoin.VM
open Pycoin.Spec Pycoin.Gen.VM CondStack Consensus

/-- Core's signature checker seen from the model's oracle (`witness` flag instead of `SigVersion`) -/
def specChk (chk : Bytes → Bytes → Bytes → Bool → Bool) : Bytes → Bytes → Bytes → SigVersion → Bool :=
  fun sig pk code sv => chk sig pk code (sv == .witnessV0)

/-- one iteration of Core's loop after `GetScriptOp`, pure checker -/
def specStep (chk : Bytes → Bytes → Bytes → Bool → Bool) (cfg : Config) (st : Consensus.State) (op : Nat) (data : Bytes)
    (pcNext : Nat) : Res Consensus.State :=
  Id.run (stepM (m := Id) (fun a b c d => pure (specChk chk a b c d)) (specEnv cfg) st op data pcNext)

/-- the size check Core applies after every instruction -/
def afterC (r : Res Consensus.State) : Res Consensus.State :=
  match r with
  | .error e => .error e
  | .ok st' => if st'.stack.length + st'.alt.length > Consensus.MAX_STACK_SIZE then .error .STACK_SIZE else .ok st'

theorem tbl_push : ∀ n, n < 97 → n ≠ 80 →
    lookupList[n]? = some (.noOp, false) ∨ lookupList[n]? = some (.lambda0, false) := by decide +kernel

theorem not_disabled_low (op : Nat) (h : op ≤ 0x60) : isDisabledOpcode op = false := by
  interval_cases op <;> rfl

/-- `eval_instruction` once the decoder's answer is known (a data opcode: `data` is not `None`) -/
theorem evalInstr_data (env : Env) (cfg : Config) (s : State) (op : Nat) (data : Bytes) (pc' : Nat)
    (hget : getOpcode cfg.script s.pc (hasFlag cfg.flags VERIFY_MINIMALDATA && s.cond.allIfTrue) = .ok ⟨op, some data, pc', true⟩)
    (htab : lookupList[op]? = some (.noOp, false) ∨ lookupList[op]? = some (.lambda0, false)) :
    evalInstruction env cfg s =
      if data.length > MAX_BLOB_LENGTH then .error (scriptErr errno_PUSH_SIZE)
      else
        let s' : State := { (if s.cond.allIfTrue then push data s else s) with pc := pc' }
        if s'.opCount > MAX_OP_COUNT then .error (scriptErr errno_OP_COUNT)
        else if s'.stack.length + s'.altstack.length > Gen.VM.MAX_STACK_SIZE then .error (scriptErr errno_STACK_SIZE)
        else .ok s' := by
  unfold evalInstruction
  simp only [hget, bind, Except.bind, pure, Except.pure, Bool.not_true, Bool.false_eq_true, if_false, Option.isNone_some]
  rcases htab with h | h <;>
  · simp only [h, runHandler, checkStackSize]
    by_cases hl : data.length > MAX_BLOB_LENGTH
    · simp [hl]
    · cases hc : s.cond.allIfTrue <;> simp [hl, push, pure, Except.pure, bind, Except.bind] <;> split_ifs <;> simp_all

set_option maxHeartbeats 4000000 in
/-- no arm of the opcode switch touches `nOpCount` (checked opcode by opcode) -/
theorem execOp_count (env : Consensus.Env) (st st' : Consensus.State) (f : Bool) (op p : Nat) (hop : op < 256)
    (h : execOp env st f op p = .ok st') : st'.nOpCount = st.nOpCount := by
  interval_cases op <;>
  (simp [execOp, Consensus.num, unaryNumOp, binaryNumOp, Consensus.hashOp,
    OP_1NEGATE, OP_1, OP_16, OP_NOP, OP_CHECKLOCKTIMEVERIFY, OP_CHECKSEQUENCEVERIFY, OP_NOP1, OP_NOP4, OP_NOP10, OP_IF, OP_NOTIF,
    OP_ELSE, OP_ENDIF, OP_VERIFY, OP_RETURN, OP_TOALTSTACK, OP_FROMALTSTACK, OP_2DROP, OP_2DUP, OP_3DUP, OP_2OVER, OP_2ROT,
    OP_2SWAP, OP_IFDUP, OP_DEPTH, OP_DROP, OP_DUP, OP_NIP, OP_OVER, OP_PICK, OP_ROLL, OP_ROT, OP_SWAP, OP_TUCK, OP_SIZE,
    OP_EQUAL, OP_EQUALVERIFY, OP_1ADD, OP_1SUB, OP_NEGATE, OP_ABS, OP_NOT, OP_0NOTEQUAL, OP_ADD, OP_MAX, OP_WITHIN,
    OP_RIPEMD160, OP_SHA1, OP_SHA256, OP_HASH160, OP_HASH256, OP_CODESEPARATOR, OP_SUB, OP_BOOLAND, OP_BOOLOR, OP_NUMEQUAL,
    OP_NUMEQUALVERIFY, OP_NUMNOTEQUAL, OP_LESSTHAN, OP_GREATERTHAN, OP_LESSTHANOREQUAL, OP_GREATERTHANOREQUAL, OP_MIN] at h) <;>
  (repeat' (split at h)) <;>
  first | (cases h; rfl) | (simp at h; done) | (simp at h; obtain ⟨_, rfl⟩ := h; rfl) | skip

/-- `eval_instruction` once the decoder's answer is known (not a data opcode: `data is None`) -/
theorem evalInstr_op (env : Env) (cfg : Config) (s : State) (op : Nat) (pc' : Nat) (h : Handler) (oc : Bool)
    (hget : getOpcode cfg.script s.pc (hasFlag cfg.flags VERIFY_MINIMALDATA && s.cond.allIfTrue) = .ok ⟨op, none, pc', true⟩)
    (htab : lookupList[op]? = some (h, oc)) :
    evalInstruction env cfg s =
      (if s.cond.allIfTrue || oc then runHandler env cfg h { s with opCount := s.opCount + 1, pc := pc' }
       else .ok { s with opCount := s.opCount + 1, pc := pc' }).bind fun s3 =>
        if s3.opCount > MAX_OP_COUNT then .error (scriptErr errno_OP_COUNT)
        else if s3.stack.length + s3.altstack.length > Gen.VM.MAX_STACK_SIZE then .error (scriptErr errno_STACK_SIZE)
        else .ok s3 := by
  unfold evalInstruction
  simp only [hget, htab, bind, Except.bind, pure, Except.pure, Bool.not_true, Bool.false_eq_true, if_false, Option.isNone_none,
    if_true, checkStackSize]
  cases hc : (s.cond.allIfTrue || oc)
  · simp only [Bool.false_eq_true, if_false]
    split_ifs <;> simp_all
  · simp only [if_true]
    cases runHandler env cfg h { s with opCount := s.opCount + 1, pc := pc' } with
    | error e => rfl
    | ok s3 => simp only []; split_ifs <;> simp_all

/-- Core's iteration for an opcode above OP_PUSHDATA4 outside the CHECKSIG family -/
theorem specStep_op (chk : Bytes → Bytes → Bytes → Bool → Bool) (cfg : Config) (st : Consensus.State) (op pcNext : Nat)
    (h1 : 0x4e < op) (hns : ¬ (0xac ≤ op ∧ op ≤ 0xaf)) :
    specStep chk cfg st op [] pcNext =
      let n' := if op > 0x60 then st.nOpCount + 1 else st.nOpCount
      if n' > 201 then .error .OP_COUNT
      else if isDisabledOpcode op then .error .DISABLED_OPCODE
      else if st.vfExec.all id || (0x63 ≤ op && op ≤ 0x68) then
        afterC (execOp (specEnv cfg) { st with nOpCount := n' } (st.vfExec.all id) op pcNext)
      else afterC (.ok { st with nOpCount := n' }) := by
  have e1 : ¬ op ≤ OP_PUSHDATA4 := by simp [OP_PUSHDATA4]; omega
  have e2 : (op == OP_CHECKSIG || op == OP_CHECKSIGVERIFY) = false := by
    simp [OP_CHECKSIG, OP_CHECKSIGVERIFY]; omega
  have e3 : (op == OP_CHECKMULTISIG || op == OP_CHECKMULTISIGVERIFY) = false := by
    simp [OP_CHECKMULTISIG, OP_CHECKMULTISIGVERIFY]; omega
  simp only [specStep, stepM, Id.run, List.length_nil, MAX_SCRIPT_ELEMENT_SIZE, Nat.not_lt_zero, gt_iff_lt, if_false,
    MAX_OPS_PER_SCRIPT, OP_16, e1, e2, e3, Bool.and_false, Bool.false_eq_true, decide_false, OP_IF, OP_ENDIF, afterC,
    Consensus.MAX_STACK_SIZE, pure]
  split_ifs <;> first | rfl | contradiction

theorem absS_bump (st : Consensus.State) (pc pcNext : Nat) :
    ({ absS st pc with opCount := (absS st pc).opCount + 1, pc := pcNext } : State) =
      absS { st with nOpCount := st.nOpCount + 1 } pcNext := by
  simp [absS]

theorem toOption_ok_iff {ε α} (r : Except ε α) (a : α) : r.toOption = some a ↔ r = .ok a := by
  cases r <;> simp [Except.toOption]

theorem toOption_none_iff {ε α} (r : Except ε α) : r.toOption = none ↔ ∃ e, r = .error e := by
  cases r <;> simp [Except.toOption]

/-- the tail of `eval_instruction` (op-count limit, stack-size limit) against Core's `after` -/
theorem tail_agree (pcNext : Nat) (r : M State) (c : Res Consensus.State) (n : Nat) (hn : ¬ n > 201)
    (hag : Agree pcNext r c) (hcount : ∀ st'', c = .ok st'' → st''.nOpCount = n) :
    Agree pcNext
      (r.bind fun s3 =>
        if s3.opCount > MAX_OP_COUNT then .error (scriptErr errno_OP_COUNT)
        else if s3.stack.length + s3.altstack.length > Gen.VM.MAX_STACK_SIZE then .error (scriptErr errno_STACK_SIZE)
        else .ok s3)
      (afterC c) := by
  unfold Agree at hag ⊢
  cases c with
  | error e =>
    simp only [Except.toOption, Option.map] at hag
    obtain ⟨e', he⟩ := (toOption_none_iff r).mp hag
    simp [he, Except.bind, afterC, Except.toOption]
  | ok st'' =>
    simp only [Except.toOption, Option.map] at hag
    have hr := (toOption_ok_iff r _).mp hag
    have hc := hcount st'' rfl
    have h201 : ¬ ((st''.nOpCount : Int) > (MAX_OP_COUNT : Nat)) := by
      simp only [MAX_OP_COUNT]; omega
    simp only [hr, Except.bind, afterC, absS, h201, if_false, Gen.VM.MAX_STACK_SIZE, Consensus.MAX_STACK_SIZE]
    by_cases hs : 1000 < st''.stack.length + st''.alt.length <;> simp [hs, Except.toOption]

end Pycoin.VM
