import Pycoin.Proofs.BIP32Ckd
import Pycoin.Proofs.CurveFacts.secp256k1
import Pycoin.Gen.Networks
/-!
C09 helper lemmas: the generator object of the shipped curve meets the side conditions (`Setting`).
-/
namespace Pycoin.BIP32
open Pycoin Pycoin.Curve Pycoin.Gen.Curves WeierstrassCurve

/-- the curve every network's key classes are built on is the generated `secp256k1` -/
theorem networks_use_secp256k1 :
    Pycoin.Gen.Networks.generatorShared = true ∧
    Pycoin.Gen.Networks.genP = secp256k1.p ∧ (Pycoin.Gen.Networks.genA : Int) = secp256k1.a ∧
    (Pycoin.Gen.Networks.genB : Int) = secp256k1.b ∧ Pycoin.Gen.Networks.genOrder = secp256k1.n ∧
    (Pycoin.Gen.Networks.genGx : Int) = secp256k1.gx ∧ (Pycoin.Gen.Networks.genGy : Int) = secp256k1.gy := by
  decide +kernel

/-- every generator object over secp256k1 that the constructor returns meets the side conditions of the theorems -/
theorem setting_secp256k1 (bf : Int) (tbl : List Pt) (m : Pt)
    (h : Gen.new secp256k1 bf = .ok ⟨secp256k1, bf, tbl, m⟩) : Setting (⟨secp256k1, bf, tbl, m⟩ : Gen) where
  wf := (Gen.new_wf h).1
  hG := G_on_curve_secp256k1
  hn0 := by show secp256k1.n ≠ 0; decide +kernel
  hn256 := by show secp256k1.n ≤ 2 ^ 256; decide +kernel
  hord := order_G_secp256k1
  hbasis := by
    show 0 ≤ secp256k1.gx ∧ secp256k1.gx < (secp256k1.p : Int) ∧ 0 ≤ secp256k1.gy ∧ secp256k1.gy < (secp256k1.p : Int)
    decide +kernel
  hp256 := by show secp256k1.p ≤ 2 ^ 256; decide +kernel

/-- … and the constructor succeeds for every blinding factor -/
theorem gen_new_secp256k1 (bf : Int) : ∃ tbl m, Gen.new secp256k1 bf = .ok ⟨secp256k1, bf, tbl, m⟩ := by
  obtain ⟨tbl, h1, -, -⟩ := powersLoop_spec secp256k1 256 (basis secp256k1) G_on_curve_secp256k1
  obtain ⟨M, m1, -, -⟩ := rawMul_refines secp256k1 G_on_curve_secp256k1 (by decide +kernel) (by decide +kernel)
    order_G_secp256k1 (-bf)
  refine ⟨tbl, M, ?_⟩
  have hp : powers secp256k1 = .ok tbl := h1
  unfold Gen.new
  simp only [hp]
  have : Gen.rawMul ⟨secp256k1, bf, tbl, none⟩ (-bf) = .ok M := by
    rw [← m1]; unfold Gen.rawMul Curve.rawMul; simp [hp]
  simp [this]

end Pycoin.BIP32
