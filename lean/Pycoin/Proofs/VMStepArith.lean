import Mathlib.Tactic.SplitIfs
import Pycoin.Proofs.VMStepStack
/-!
Handler level: numeric opcodes (4-byte `CScriptNum` operands, minimal flag), PICK/ROLL, WITHIN.
-/
namespace Pycoin.VM
open Pycoin.Spec Pycoin.Gen.VM CondStack Consensus

/-- what `pop_check_bounds` / `pop_int(max_size=k)` do with the top item `x` -/
def pyNum (flags : Nat) (x : Bytes) (k : Nat := 4) : M Int :=
  if x.length > k then .error (scriptErr errno_UNKNOWN_ERROR) else intFromScriptBytes x (hasFlag flags VERIFY_MINIMALDATA)

theorem popInt_cons (flags : Nat) (x : Bytes) (r : List Bytes) (k : Nat) (p : Nat) (alt : List Bytes) (c : CondStack) (oc : Int) (bc : Nat) :
    popInt flags ⟨p, x :: r, alt, c, oc, bc⟩ k = (pyNum flags x k).map (fun v => (v, ⟨p, r, alt, c, oc, bc⟩)) := by
  simp only [popInt, peek, pop, pyNum, bind, Except.bind, pure, Except.pure, List.getElem?_cons_zero, Nat.sub_self]
  split_ifs <;> simp [Except.map]

theorem popInt_nil (flags : Nat) (k : Nat) (p : Nat) (alt : List Bytes) (c : CondStack) (oc : Int) (bc : Nat) :
    popInt flags ⟨p, [], alt, c, oc, bc⟩ k = .error invalidStack := by
  simp [popInt, peek, bind, Except.bind]

theorem popCheckBounds_cons (flags : Nat) (x : Bytes) (r : List Bytes) (p : Nat) (alt : List Bytes) (c : CondStack) (oc : Int) (bc : Nat) :
    popCheckBounds flags ⟨p, x :: r, alt, c, oc, bc⟩ = (pyNum flags x 4).map (fun v => (v, ⟨p, r, alt, c, oc, bc⟩)) := by
  have h4 : maxIntSize = 4 := rfl
  simp only [popCheckBounds, peek, bind, Except.bind, List.getElem?_cons_zero, Nat.sub_self, popInt_cons, h4, pyNum]
  split_ifs <;> simp [Except.map]

theorem popCheckBounds_nil (flags : Nat) (p : Nat) (alt : List Bytes) (c : CondStack) (oc : Int) (bc : Nat) :
    popCheckBounds flags ⟨p, [], alt, c, oc, bc⟩ = .error invalidStack := by
  simp [popCheckBounds, peek, bind, Except.bind]

/-- pycoin's operand decoding and Core's `CScriptNum(vch, fRequireMinimal, k)` succeed together, with the same value -/
theorem num_cases (n : Nat) (x : Bytes) (k : Nat) :
    (∃ v, pyNum n x k = .ok v ∧ scriptNum x (Flags.ofBits n).minimaldata k = .ok v) ∨
    (∃ e, pyNum n x k = .error e ∧ scriptNum x (Flags.ofBits n).minimaldata k = .error .UNKNOWN_ERROR) := by
  unfold pyNum scriptNum
  rw [flag_minimaldata]
  by_cases hl : x.length > k
  · right; exact ⟨scriptErr errno_UNKNOWN_ERROR, by simp [hl], by simp [hl]⟩
  · simp only [hl, if_false]
    cases hm : (Flags.ofBits n).minimaldata
    · left; exact ⟨_, intFromScriptBytes_false x, by simp⟩
    · rw [intFromScriptBytes_true]
      cases hmin : isMinimalNum x
      · right; exact ⟨scriptErr errno_UNKNOWN_ERROR, by simp, by simp⟩
      · left; exact ⟨scriptNumDecode x, by simp, by simp⟩

@[simp] theorem enc_b2i (b : Bool) : scriptNumEncode (b2i b) = boolBytes b := by cases b <;> decide
@[simp] theorem enc_one : scriptNumEncode 1 = [1] := by decide
@[simp] theorem enc_zero : scriptNumEncode 0 = [] := by decide

variable (cfg : Config) (st : Consensus.State) (pc' : Nat) (f : Bool)

/-- unary numeric opcode: empty stack, undecodable operand, value -/
macro "unarytac" "[" ts:Lean.Parser.Tactic.simpLemma,* "]" : tactic => `(tactic| (
  rcases st with ⟨stk, alt, vf, n, cs⟩
  rcases stk with _ | ⟨x, r⟩
  · opsimp [unaryOp, popCheckBounds_nil, $ts,*]
  rcases num_cases cfg.flags x 4 with ⟨v, h1, h2⟩ | ⟨e, h1, h2⟩ <;>
    opsimp [unaryOp, popCheckBounds_cons, h1, h2, num, specEnv, unaryNumOp, Except.map, $ts,*]))

theorem h_1ADD : Agree pc' (do_1ADD cfg.flags (absS st pc')) (execOp (specEnv cfg) st f 0x8b pc') := by
  unarytac [do_1ADD]
theorem h_1SUB : Agree pc' (do_1SUB cfg.flags (absS st pc')) (execOp (specEnv cfg) st f 0x8c pc') := by
  unarytac [do_1SUB]
theorem h_NEGATE : Agree pc' (do_NEGATE cfg.flags (absS st pc')) (execOp (specEnv cfg) st f 0x8f pc') := by
  unarytac [do_NEGATE]
theorem h_ABS : Agree pc' (do_ABS cfg.flags (absS st pc')) (execOp (specEnv cfg) st f 0x90 pc') := by
  unarytac [do_ABS]
  congr 1; omega
theorem h_NOT : Agree pc' (do_NOT cfg.flags (absS st pc')) (execOp (specEnv cfg) st f 0x91 pc') := by
  unarytac [do_NOT]
  split_ifs <;> simp_all
theorem h_0NOTEQUAL : Agree pc' (do_0NOTEQUAL cfg.flags (absS st pc')) (execOp (specEnv cfg) st f 0x92 pc') := by
  unarytac [do_0NOTEQUAL]
  split_ifs <;> simp_all

/-- binary numeric opcode: 0, 1, ≥ 2 items; each operand undecodable or a value -/
macro "binarytac" "[" ts:Lean.Parser.Tactic.simpLemma,* "]" : tactic => `(tactic| (
  rcases st with ⟨stk, alt, vf, n, cs⟩
  rcases stk with _ | ⟨x2, _ | ⟨x1, r⟩⟩
  · opsimp [binOp, boolBinOp, popCheckBounds_nil, $ts,*]
  · rcases num_cases cfg.flags x2 4 with ⟨v, h1, h2⟩ | ⟨e, h1, h2⟩ <;>
    opsimp [binOp, boolBinOp, popCheckBounds_cons, popCheckBounds_nil, h1, Except.map, $ts,*]
  rcases num_cases cfg.flags x2 4 with ⟨v2, h1, h2⟩ | ⟨e, h1, h2⟩ <;>
  rcases num_cases cfg.flags x1 4 with ⟨v1, h3, h4⟩ | ⟨e', h3, h4⟩ <;>
    opsimp [binOp, boolBinOp, popCheckBounds_cons, h1, h2, h3, h4, num, specEnv, binaryNumOp, Except.map,
      OP_BOOLAND, OP_BOOLOR, OP_NUMEQUAL, OP_NUMEQUALVERIFY, OP_NUMNOTEQUAL, OP_LESSTHAN, OP_GREATERTHAN, OP_LESSTHANOREQUAL,
      OP_GREATERTHANOREQUAL, OP_MIN, OP_SUB, $ts,*]))

theorem h_ADD : Agree pc' (do_ADD cfg.flags (absS st pc')) (execOp (specEnv cfg) st f 0x93 pc') := by
  binarytac [do_ADD]
theorem h_SUB : Agree pc' (do_SUB cfg.flags (absS st pc')) (execOp (specEnv cfg) st f 0x94 pc') := by
  binarytac [do_SUB]
theorem h_BOOLAND : Agree pc' (do_BOOLAND cfg.flags (absS st pc')) (execOp (specEnv cfg) st f 0x9a pc') := by
  binarytac [do_BOOLAND]
theorem h_BOOLOR : Agree pc' (do_BOOLOR cfg.flags (absS st pc')) (execOp (specEnv cfg) st f 0x9b pc') := by
  binarytac [do_BOOLOR]
theorem h_NUMEQUAL : Agree pc' (do_NUMEQUAL cfg.flags (absS st pc')) (execOp (specEnv cfg) st f 0x9c pc') := by
  binarytac [do_NUMEQUAL]
theorem h_NUMNOTEQUAL : Agree pc' (do_NUMNOTEQUAL cfg.flags (absS st pc')) (execOp (specEnv cfg) st f 0x9e pc') := by
  binarytac [do_NUMNOTEQUAL]
theorem h_LESSTHAN : Agree pc' (do_LESSTHAN cfg.flags (absS st pc')) (execOp (specEnv cfg) st f 0x9f pc') := by
  binarytac [do_LESSTHAN]
theorem h_GREATERTHAN : Agree pc' (do_GREATERTHAN cfg.flags (absS st pc')) (execOp (specEnv cfg) st f 0xa0 pc') := by
  binarytac [do_GREATERTHAN]
theorem h_LESSTHANOREQUAL : Agree pc' (do_LESSTHANOREQUAL cfg.flags (absS st pc')) (execOp (specEnv cfg) st f 0xa1 pc') := by
  binarytac [do_LESSTHANOREQUAL]
theorem h_GREATERTHANOREQUAL : Agree pc' (do_GREATERTHANOREQUAL cfg.flags (absS st pc')) (execOp (specEnv cfg) st f 0xa2 pc') := by
  binarytac [do_GREATERTHANOREQUAL]
theorem h_MIN : Agree pc' (do_MIN cfg.flags (absS st pc')) (execOp (specEnv cfg) st f 0xa3 pc') := by
  binarytac [do_MIN]
  congr 1; rw [Int.min_def]; split_ifs <;> omega
theorem h_MAX : Agree pc' (do_MAX cfg.flags (absS st pc')) (execOp (specEnv cfg) st f 0xa4 pc') := by
  binarytac [do_MAX]
  congr 1; rw [Int.max_def]; split_ifs <;> omega
theorem h_NUMEQUALVERIFY : Agree pc' (do_NUMEQUALVERIFY cfg.flags (absS st pc')) (execOp (specEnv cfg) st f 0x9d pc') := by
  binarytac [do_NUMEQUALVERIFY, do_NUMEQUAL, do_VERIFY]
  split_ifs <;> simp_all

theorem maxIntSize_eq : maxIntSize = 4 := rfl

theorem h_WITHIN : Agree pc' (do_WITHIN cfg.flags (absS st pc')) (execOp (specEnv cfg) st f 0xa5 pc') := by
  rcases st with ⟨stk, alt, vf, n, cs⟩
  rcases stk with _ | ⟨x3, _ | ⟨x2, _ | ⟨x1, r⟩⟩⟩
  · opsimp [do_WITHIN, popInt_nil]
  · rcases num_cases cfg.flags x3 4 with ⟨v, h1, h2⟩ | ⟨e, h1, h2⟩ <;>
    opsimp [do_WITHIN, popInt_cons, popInt_nil, maxIntSize_eq, h1, Except.map]
  · rcases num_cases cfg.flags x3 4 with ⟨v, h1, h2⟩ | ⟨e, h1, h2⟩ <;>
    rcases num_cases cfg.flags x2 4 with ⟨v', h3, h4⟩ | ⟨e', h3, h4⟩ <;>
    opsimp [do_WITHIN, popInt_cons, popInt_nil, maxIntSize_eq, h1, h3, Except.map]
  rcases num_cases cfg.flags x3 4 with ⟨v3, h1, h2⟩ | ⟨e, h1, h2⟩ <;>
  rcases num_cases cfg.flags x2 4 with ⟨v2, h3, h4⟩ | ⟨e', h3, h4⟩ <;>
  rcases num_cases cfg.flags x1 4 with ⟨v1, h5, h6⟩ | ⟨e'', h5, h6⟩ <;>
    opsimp [do_WITHIN, popInt_cons, maxIntSize_eq, h1, h2, h3, h4, h5, h6, num, specEnv, Except.map]
  all_goals (split_ifs <;> simp_all)

end Pycoin.VM
