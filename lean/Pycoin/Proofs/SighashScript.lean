import Pycoin.Model.Sighash
import Pycoin.Spec.Sighash
import Pycoin.Proofs.ScriptPush
/-!
C04 helper lemmas, script side: `ScriptTools.get_opcodes` walks a script whose pushes are complete exactly as Core's
`GetScriptOp` does, so `delete_subscript` is an instruction filter; OP_CODESEPARATOR stripping equals
`SerializeScriptCode`; signature removal equals `FindAndDelete`.
-/
namespace Pycoin.Sighash
open Pycoin Pycoin.Script Pycoin.Spec.Sighash

/-! ## `GetScriptOp` consumes a non-empty prefix -/

theorem final_step {r' : Bytes} {n o' o : Nat} {p rest : Bytes}
    (h : (if r'.length < n then none else some (o', r'.take n, r'.drop n)) = some (o, p, rest)) :
    o' = o ∧ rest = r'.drop n ∧ n ≤ r'.length := by
  split at h
  · cases h
  · simp only [Option.some.injEq, Prod.mk.injEq] at h
    exact ⟨h.1, h.2.2.symm, by omega⟩

theorem drop_cons_add (b : UInt8) (r : Bytes) (w n : Nat) : (b :: r).drop (w + n + 1) = (r.drop w).drop n := by
  rw [List.drop_succ_cons, List.drop_drop]

/-- a successful `GetScriptOp` consumes `k ≥ 1` bytes; the opcode is the first byte; an opcode above
`OP_PUSHDATA4` is a one-byte instruction -/
theorem getScriptOp_some {s : Bytes} {o : Nat} {p rest : Bytes} (h : Spec.getScriptOp s = some (o, p, rest)) :
    ∃ b r k, s = b :: r ∧ o = b.toNat ∧ rest = s.drop k ∧ 1 ≤ k ∧ k ≤ s.length ∧ (0x4e < o → k = 1) := by
  match s, h with
  | b :: r, h =>
    rw [getScriptOp_cons] at h
    unfold specOp at h
    by_cases h1 : b.toNat ≤ 0x4e
    · simp only [h1, if_true] at h
      by_cases h2 : b.toNat < 0x4c
      · simp only [h2, if_true] at h
        obtain ⟨ho, hr, hn⟩ := final_step h
        refine ⟨b, r, 0 + b.toNat + 1, rfl, ho.symm, ?_, by omega, by simp; omega, by omega⟩
        rw [drop_cons_add]; simpa using hr
      · simp only [h2, if_false] at h
        by_cases h4 : b.toNat = 0x4c
        · simp only [h4, if_true] at h
          by_cases hw : r.length < 1
          · simp [hw] at h
          · simp only [hw, if_false] at h
            obtain ⟨ho, hr, hn⟩ := final_step h
            simp only [List.length_drop] at hn
            refine ⟨b, r, 1 + leNat (r.take 1) + 1, rfl, by omega, ?_, by omega, by simp; omega, by omega⟩
            rw [drop_cons_add]; exact hr
        · simp only [h4, if_false] at h
          by_cases h5 : b.toNat = 0x4d
          · simp only [h5, if_true] at h
            by_cases hw : r.length < 2
            · simp [hw] at h
            · simp only [hw, if_false] at h
              obtain ⟨ho, hr, hn⟩ := final_step h
              simp only [List.length_drop] at hn
              refine ⟨b, r, 2 + leNat (r.take 2) + 1, rfl, by omega, ?_, by omega, by simp; omega, by omega⟩
              rw [drop_cons_add]; exact hr
          · simp only [h5, if_false] at h
            by_cases hw : r.length < 4
            · simp [hw] at h
            · simp only [hw, if_false] at h
              obtain ⟨ho, hr, hn⟩ := final_step h
              simp only [List.length_drop] at hn
              refine ⟨b, r, 4 + leNat (r.take 4) + 1, rfl, by omega, ?_, by omega, by simp; omega, by omega⟩
              rw [drop_cons_add]; exact hr
    · simp only [h1, if_false, Option.some.injEq, Prod.mk.injEq] at h
      obtain ⟨ho, _, hr⟩ := h
      exact ⟨b, r, 1, rfl, ho.symm, by rw [← hr]; rfl, by omega, by simp, fun _ => rfl⟩

/-! ## `get_opcodes` on a script whose pushes are complete -/

theorem getOpcodes_end (script : Bytes) (pc : Nat) (h : ¬ pc < script.length) :
    Script.getOpcodes script false pc = ([], none) := by
  rw [Script.getOpcodes]
  simp [h]

theorem getOpcodes_step (script : Bytes) (pc : Nat) (b : UInt8) (r : Bytes) (hd : script.drop pc = b :: r)
    (o : Nat) (p rest : Bytes) (hg : Spec.getScriptOp (b :: r) = some (o, p, rest)) :
    Script.getOpcodes script false pc =
      (⟨b, Spec.pushValue o p, pc, script.length - rest.length⟩ ::
        (Script.getOpcodes script false (script.length - rest.length)).1,
       (Script.getOpcodes script false (script.length - rest.length)).2) := by
  have hlt : pc < script.length := by
    have := (drop_facts hd).2.2; omega
  have hop : getOpcode script pc false = .ok ⟨b, Spec.pushValue o p, script.length - rest.length, true⟩ := by
    rw [getOpcode_refines script pc false b r hd]
    unfold coreAnswer
    simp [hg]
  rw [Script.getOpcodes]
  simp only [hlt, dite_true]
  split
  · rename_i e he
    rw [hop] at he
    cases he
  · rename_i res he
    rw [hop] at he
    cases he
    rfl

theorem getOpcodes_step_trunc (script : Bytes) (pc : Nat) (b : UInt8) (r : Bytes) (hd : script.drop pc = b :: r)
    (hg : Spec.getScriptOp (b :: r) = none) :
    Script.getOpcodes script false pc =
      (⟨b, none, pc, truncPc pc b.toNat r⟩ :: (Script.getOpcodes script false (truncPc pc b.toNat r)).1,
       (Script.getOpcodes script false (truncPc pc b.toNat r)).2) := by
  have hlt : pc < script.length := by
    have := (drop_facts hd).2.2; omega
  have hop : getOpcode script pc false = .ok ⟨b, none, truncPc pc b.toNat r, false⟩ := by
    rw [getOpcode_refines script pc false b r hd]
    unfold coreAnswer
    simp [hg]
  rw [Script.getOpcodes]
  simp only [hlt, dite_true]
  split
  · rename_i e he
    rw [hop] at he
    cases he
  · rename_i res he
    rw [hop] at he
    cases he
    rfl

theorem drop_nil_of_not_lt (script : Bytes) (pc : Nat) (h : ¬ pc < script.length) : script.drop pc = [] :=
  List.drop_eq_nil_of_le (by omega)

theorem getOpcodes_complete (script : Bytes) : ∀ (fuel pc : Nat), script.length - pc ≤ fuel →
    (instructions fuel (script.drop pc)).2 = [] →
    (Script.getOpcodes script false pc).2 = none ∧
    (Script.getOpcodes script false pc).1.map (fun it => slice script it.pc it.newPc) =
      (instructions fuel (script.drop pc)).1.map (·.2) := by
  intro fuel
  induction fuel with
  | zero =>
    intro pc hf _
    have hlt : ¬ pc < script.length := by omega
    rw [getOpcodes_end script pc hlt]
    simp [instructions]
  | succ f ih =>
    intro pc hf hc
    by_cases hlt : pc < script.length
    · have hd : script.drop pc = script[pc] :: script.drop (pc + 1) := List.drop_eq_getElem_cons hlt
      generalize script[pc] = b at hd
      generalize script.drop (pc + 1) = r at hd
      rw [hd] at hc ⊢
      unfold instructions at hc ⊢
      cases hg : Spec.getScriptOp (b :: r) with
      | none => simp [hg] at hc
      | some t =>
        obtain ⟨o, p, rest⟩ := t
        simp only [hg] at hc ⊢
        obtain ⟨b', r', k, hs, ho, hrest, hk1, hk2, _⟩ := getScriptOp_some hg
        have hlen := (drop_facts hd).2.2
        have hrl : rest.length = (b :: r).length - k := by rw [hrest, List.length_drop]
        simp only [List.length_cons] at hrl hk2
        have hnew : script.length - rest.length = pc + k := by omega
        have hdrop : script.drop (pc + k) = rest := by
          rw [← List.drop_drop, hd, hrest]
        rw [getOpcodes_step script pc b r hd o p rest hg, hnew]
        have := ih (pc + k) (by omega) (by rw [hdrop]; exact hc)
        rw [hdrop] at this
        refine ⟨this.1, ?_⟩
        simp only [List.map_cons, this.2]
        congr 1
        rw [slice_drop script (b :: r) pc k hd]
        congr 1
        simp only [List.length_cons]
        omega
    · rw [getOpcodes_end script pc hlt, drop_nil_of_not_lt script pc hlt]
      simp [instructions, Spec.getScriptOp]

/-- the instruction sections of a script, by Core's decoder -/
def instrSections (s : Bytes) : List Bytes := (instructions s.length s).1.map (·.2)

theorem sections_complete (script : Bytes) (hc : Complete script) : sections script = .ok (instrSections script) := by
  have := getOpcodes_complete script script.length 0 (by omega) (by rw [List.drop_zero]; exact hc)
  unfold sections
  generalize Script.getOpcodes script false 0 = g at this
  obtain ⟨items, e⟩ := g
  simp only at this
  obtain ⟨h1, h2⟩ := this
  subst h1
  simp only [h2, instrSections, List.drop_zero]

/-- `delete_subscript` on a script whose pushes are complete: the instructions that differ from `subscript` -/
theorem deleteSubscript_complete (script sub : Bytes) (hc : Complete script) :
    deleteSubscript script sub = .ok ((instrSections script).filter (fun s => s ≠ sub)).flatten := by
  simp [deleteSubscript, sections_complete script hc]

/-! ## the instruction list of Core's decoder -/

/-- an instruction is the one-byte `OP_CODESEPARATOR` exactly when its opcode is `0xab` -/
def SepOk (i : Nat × Bytes) : Prop := i.2 = [0xab] ↔ i.1 = OP_CODESEPARATOR

theorem u8_eq_of_toNat {b : UInt8} {n : Nat} (hn : n < 256) (h : b.toNat = n) : b = UInt8.ofNat n := by
  apply UInt8.toNat_inj.mp
  rw [h, UInt8.toNat_ofNat']
  omega

theorem instructions_sepOk : ∀ (fuel : Nat) (s : Bytes), ∀ i ∈ (instructions fuel s).1, SepOk i := by
  intro fuel
  induction fuel with
  | zero => intro s i hi; simp [instructions] at hi
  | succ f ih =>
    intro s i hi
    unfold instructions at hi
    cases hg : Spec.getScriptOp s with
    | none => simp [hg] at hi
    | some t =>
      obtain ⟨o, p, rest⟩ := t
      simp only [hg, List.mem_cons] at hi
      rcases hi with hi | hi
      · subst hi
        obtain ⟨b, r, k, hs, ho, hrest, hk1, hk2, hk⟩ := getScriptOp_some hg
        subst hs
        have hrl : rest.length = (b :: r).length - k := by rw [hrest, List.length_drop]
        have hkk : (b :: r).length - rest.length = (k - 1) + 1 := by omega
        unfold SepOk
        simp only [hkk, List.take_succ_cons]
        constructor
        · intro h
          injection h with h1 h2
          rw [ho, h1]; rfl
        · intro h
          have h78 : 0x4e < o := by rw [h]; decide
          have hk1' := hk h78
          have hb : b = 0xab := by
            have := u8_eq_of_toNat (b := b) (n := 0xab) (by decide) (by rw [← ho, h]; rfl)
            simpa using this
          rw [hk1', hb]; rfl
      · exact ih rest i hi

theorem instructions_flatten : ∀ (fuel : Nat) (s : Bytes),
    ((instructions fuel s).1.map (·.2)).flatten ++ (instructions fuel s).2 = s := by
  intro fuel
  induction fuel with
  | zero => intro s; simp [instructions]
  | succ f ih =>
    intro s
    unfold instructions
    cases hg : Spec.getScriptOp s with
    | none => simp
    | some t =>
      obtain ⟨o, p, rest⟩ := t
      obtain ⟨b, r, k, hs, ho, hrest, hk1, hk2, hk⟩ := getScriptOp_some hg
      have hrl : rest.length = s.length - k := by rw [hrest, List.length_drop]
      have hkk : s.length - rest.length = k := by omega
      simp only [List.map_cons, List.flatten_cons, List.append_assoc, ih rest, hkk]
      rw [hrest, List.take_append_drop]

theorem instrSections_flatten (s : Bytes) (hc : Complete s) : (instrSections s).flatten = s := by
  have := instructions_flatten s.length s
  rw [hc, List.append_nil] at this
  exact this

theorem strip_eq (l : List (Nat × Bytes)) (hP : ∀ i ∈ l, SepOk i) :
    (l.filter (fun i => i.1 != OP_CODESEPARATOR)).map (·.2) = (l.map (·.2)).filter (fun s => s ≠ [0xab]) := by
  induction l with
  | nil => rfl
  | cons a as ih =>
    have ha := hP a (by simp)
    have ih := ih (fun i hi => hP i (by simp [hi]))
    unfold SepOk at ha
    by_cases h : a.1 = OP_CODESEPARATOR
    · have h2 : a.2 = [0xab] := ha.mpr h
      simp [List.filter_cons, h, h2, ih]
    · have h2 : ¬ a.2 = [0xab] := fun hh => h (ha.mp hh)
      simp [List.filter_cons, h, h2, ih]

theorem strip_len (l : List (Nat × Bytes)) (hP : ∀ i ∈ l, SepOk i) :
    (((l.map (·.2)).filter (fun s => s ≠ [0xab])).flatten).length + (l.filter (fun i => i.1 == OP_CODESEPARATOR)).length =
      ((l.map (·.2)).flatten).length := by
  induction l with
  | nil => rfl
  | cons a as ih =>
    have ha := hP a (by simp)
    have ih := ih (fun i hi => hP i (by simp [hi]))
    unfold SepOk at ha
    by_cases h : a.1 = OP_CODESEPARATOR
    · have h2 : a.2 = [0xab] := ha.mpr h
      simp [List.filter_cons, h, h2] at ih ⊢
      omega
    · have h2 : ¬ a.2 = [0xab] := fun hh => h (ha.mp hh)
      simp [List.filter_cons, h, h2] at ih ⊢
      omega

/-- OP_CODESEPARATOR stripping as pycoin does it (`delete_subscript(script, compile("OP_CODESEPARATOR"))`, then the
length-prefixed write of `TxIn.stream`) is Core's `SerializeScriptCode`, for every script whose pushes are complete -/
theorem strip_is_serializeScriptCode (code : Bytes) (hc : Complete code) :
    ∃ stripped, deleteSubscript code Gen.Sighash.strippedSubscript = .ok stripped ∧
      stripped.length ≤ code.length ∧
      serializeScriptCode code = Spec.Wire.varBytes stripped := by
  refine ⟨_, deleteSubscript_complete code _ hc, ?_, ?_⟩
  · have h1 := strip_len (instructions code.length code).1 (instructions_sepOk _ _)
    have h2 := instrSections_flatten code hc
    unfold instrSections at h2 ⊢
    rw [h2] at h1
    show (List.flatten (List.filter (fun s => decide (s ≠ [0xab])) _)).length ≤ _
    omega
  · have h1 := strip_len (instructions code.length code).1 (instructions_sepOk _ _)
    have h2 := instrSections_flatten code hc
    have h3 := strip_eq (instructions code.length code).1 (instructions_sepOk _ _)
    unfold instrSections at h2
    rw [h2] at h1
    unfold serializeScriptCode Spec.Wire.varBytes instrSections
    have hc' : (instructions code.length code).2 = [] := hc
    simp only [hc', List.take_nil, List.append_nil, h3]
    show _ = Spec.Wire.compactSize (List.flatten (List.filter (fun s => decide (s ≠ [0xab])) _)).length ++ _
    congr 2
    omega

end Pycoin.Sighash
