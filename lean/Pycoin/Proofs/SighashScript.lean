import Pycoin.Model.Sighash
import Pycoin.Spec.Sighash
import Pycoin.Proofs.ScriptPush
/-!
C04 helper lemmas, script side: `ScriptTools.get_opcodes` walks a script whose pushes are complete exactly as Core's
`GetScriptOp` does, so `delete_subscript` is an instruction filter; OP_CODESEPARATOR stripping equals
`SerializeScriptCode`; signature removal equals `FindAndDelete`.
-/
namespace Pycoin.Sighash
open Pycoin Pycoin.Script Pycoin.Spec.Sighash

/-! ## `GetScriptOp` consumes a non-empty prefix -/

theorem final_step {r' : Bytes} {n o' o : Nat} {p rest : Bytes}
    (h : (if r'.length < n then none else some (o', r'.take n, r'.drop n)) = some (o, p, rest)) :
    o' = o ∧ rest = r'.drop n ∧ n ≤ r'.length := by
  split at h
  · cases h
  · simp only [Option.some.injEq, Prod.mk.injEq] at h
    exact ⟨h.1, h.2.2.symm, by omega⟩

theorem drop_cons_add (b : UInt8) (r : Bytes) (w n : Nat) : (b :: r).drop (w + n + 1) = (r.drop w).drop n := by
  rw [List.drop_succ_cons, List.drop_drop]

/-- a successful `GetScriptOp` consumes `k ≥ 1` bytes; the opcode is the first byte; an opcode above
`OP_PUSHDATA4` is a one-byte instruction -/
theorem getScriptOp_some {s : Bytes} {o : Nat} {p rest : Bytes} (h : Spec.getScriptOp s = some (o, p, rest)) :
    ∃ b r k, s = b :: r ∧ o = b.toNat ∧ rest = s.drop k ∧ 1 ≤ k ∧ k ≤ s.length ∧ (0x4e < o → k = 1) := by
  match s, h with
  | b :: r, h =>
    rw [getScriptOp_cons] at h
    unfold specOp at h
    by_cases h1 : b.toNat ≤ 0x4e
    · simp only [h1, if_true] at h
      by_cases h2 : b.toNat < 0x4c
      · simp only [h2, if_true] at h
        obtain ⟨ho, hr, hn⟩ := final_step h
        refine ⟨b, r, 0 + b.toNat + 1, rfl, ho.symm, ?_, by omega, by simp; omega, by omega⟩
        rw [drop_cons_add]; simpa using hr
      · simp only [h2, if_false] at h
        by_cases h4 : b.toNat = 0x4c
        · simp only [h4, if_true] at h
          by_cases hw : r.length < 1
          · simp [hw] at h
          · simp only [hw, if_false] at h
            obtain ⟨ho, hr, hn⟩ := final_step h
            simp only [List.length_drop] at hn
            refine ⟨b, r, 1 + leNat (r.take 1) + 1, rfl, by omega, ?_, by omega, by simp; omega, by omega⟩
            rw [drop_cons_add]; exact hr
        · simp only [h4, if_false] at h
          by_cases h5 : b.toNat = 0x4d
          · simp only [h5, if_true] at h
            by_cases hw : r.length < 2
            · simp [hw] at h
            · simp only [hw, if_false] at h
              obtain ⟨ho, hr, hn⟩ := final_step h
              simp only [List.length_drop] at hn
              refine ⟨b, r, 2 + leNat (r.take 2) + 1, rfl, by omega, ?_, by omega, by simp; omega, by omega⟩
              rw [drop_cons_add]; exact hr
          · simp only [h5, if_false] at h
            by_cases hw : r.length < 4
            · simp [hw] at h
            · simp only [hw, if_false] at h
              obtain ⟨ho, hr, hn⟩ := final_step h
              simp only [List.length_drop] at hn
              refine ⟨b, r, 4 + leNat (r.take 4) + 1, rfl, by omega, ?_, by omega, by simp; omega, by omega⟩
              rw [drop_cons_add]; exact hr
    · simp only [h1, if_false, Option.some.injEq, Prod.mk.injEq] at h
      obtain ⟨ho, _, hr⟩ := h
      exact ⟨b, r, 1, rfl, ho.symm, by rw [← hr]; rfl, by omega, by simp, fun _ => rfl⟩

/-! ## the walk of `delete_subscript` is Core's decoder, on every script -/

theorem sectionsFrom_end (script : Bytes) (pc : Nat) (h : ¬ pc < script.length) :
    sectionsFrom script pc = .ok ([], []) := by
  rw [sectionsFrom]
  simp [h]

theorem sectionsFrom_step (script : Bytes) (pc : Nat) (b : UInt8) (r : Bytes) (hd : script.drop pc = b :: r)
    (o : Nat) (p rest : Bytes) (hg : Spec.getScriptOp (b :: r) = some (o, p, rest)) :
    sectionsFrom script pc =
      match sectionsFrom script (script.length - rest.length) with
      | .error e => .error e
      | .ok (secs, tail) => .ok (slice script pc (script.length - rest.length) :: secs, tail) := by
  have hlt : pc < script.length := by
    have := (drop_facts hd).2.2; omega
  have hop : getOpcode script pc false = .ok ⟨b, Spec.pushValue o p, script.length - rest.length, true⟩ := by
    rw [getOpcode_refines script pc false b r hd]
    unfold coreAnswer
    simp [hg]
  rw [sectionsFrom]
  simp only [hlt, dite_true]
  split
  · rename_i e he
    rw [hop] at he
    cases he
  · rename_i res he
    rw [hop] at he
    cases he
    rfl

theorem sectionsFrom_trunc (script : Bytes) (pc : Nat) (b : UInt8) (r : Bytes) (hd : script.drop pc = b :: r)
    (hg : Spec.getScriptOp (b :: r) = none) :
    sectionsFrom script pc = .ok ([], script.drop pc) := by
  have hlt : pc < script.length := by
    have := (drop_facts hd).2.2; omega
  have hop : getOpcode script pc false = .ok ⟨b, none, truncPc pc b.toNat r, false⟩ := by
    rw [getOpcode_refines script pc false b r hd]
    unfold coreAnswer
    simp [hg]
  rw [sectionsFrom]
  simp only [hlt, dite_true]
  split
  · rename_i e he
    rw [hop] at he
    cases he
  · rename_i res he
    rw [hop] at he
    cases he
    rfl

theorem drop_nil_of_not_lt (script : Bytes) (pc : Nat) (h : ¬ pc < script.length) : script.drop pc = [] :=
  List.drop_eq_nil_of_le (by omega)

/-- from any position, the walk yields the instructions Core's `GetScriptOp` decodes and stops where it fails -/
theorem sectionsFrom_eq (script : Bytes) : ∀ (fuel pc : Nat), script.length - pc ≤ fuel →
    sectionsFrom script pc =
      .ok ((instructions fuel (script.drop pc)).1.map (·.2), (instructions fuel (script.drop pc)).2) := by
  intro fuel
  induction fuel with
  | zero =>
    intro pc hf
    have hlt : ¬ pc < script.length := by omega
    rw [sectionsFrom_end script pc hlt, drop_nil_of_not_lt script pc hlt]
    simp [instructions]
  | succ f ih =>
    intro pc hf
    by_cases hlt : pc < script.length
    · have hd : script.drop pc = script[pc] :: script.drop (pc + 1) := List.drop_eq_getElem_cons hlt
      generalize script[pc] = b at hd
      generalize script.drop (pc + 1) = r at hd
      cases hg : Spec.getScriptOp (b :: r) with
      | none =>
        rw [sectionsFrom_trunc script pc b r hd hg, hd]
        unfold instructions
        simp [hg]
      | some t =>
        obtain ⟨o, p, rest⟩ := t
        obtain ⟨b', r', k, hs, ho, hrest, hk1, hk2, _⟩ := getScriptOp_some hg
        have hlen := (drop_facts hd).2.2
        have hrl : rest.length = (b :: r).length - k := by rw [hrest, List.length_drop]
        simp only [List.length_cons] at hrl hk2
        have hnew : script.length - rest.length = pc + k := by omega
        have hdrop : script.drop (pc + k) = rest := by
          rw [← List.drop_drop, hd, hrest]
        rw [sectionsFrom_step script pc b r hd o p rest hg, hnew, ih (pc + k) (by omega), hdrop, hd]
        conv => rhs; unfold instructions
        simp only [hg, List.map_cons]
        congr 3
        rw [slice_drop script (b :: r) pc k hd]
        congr 1
        simp only [List.length_cons]
        omega
    · rw [sectionsFrom_end script pc hlt, drop_nil_of_not_lt script pc hlt]
      simp [instructions, Spec.getScriptOp]

/-- the instruction sections of a script, by Core's decoder -/
def instrSections (s : Bytes) : List Bytes := (instructions s.length s).1.map (·.2)

/-- what Core's decoder leaves undecoded: empty, or starting with a push cut short by the end of the script -/
def instrTail (s : Bytes) : Bytes := (instructions s.length s).2

theorem sections_eq (script : Bytes) : sections script = .ok (instrSections script, instrTail script) := by
  have := sectionsFrom_eq script script.length 0 (by omega)
  rw [List.drop_zero] at this
  exact this

/-- `delete_subscript` on any script: the decodable instructions that differ from `sub`, then the undecodable rest -/
theorem deleteSubscript_eq (script sub : Bytes) :
    deleteSubscript script sub = .ok (((instrSections script).filter (fun s => s ≠ sub)).flatten ++ instrTail script) := by
  simp [deleteSubscript, sections_eq script]

/-- `delete_subscript` on a script whose pushes are complete: the instructions that differ from `subscript` -/
theorem deleteSubscript_complete (script sub : Bytes) (hc : Complete script) :
    deleteSubscript script sub = .ok ((instrSections script).filter (fun s => s ≠ sub)).flatten := by
  have : instrTail script = [] := hc
  rw [deleteSubscript_eq, this, List.append_nil]

/-! ## the instruction list of Core's decoder -/

/-- an instruction is the one-byte `OP_CODESEPARATOR` exactly when its opcode is `0xab` -/
def SepOk (i : Nat × Bytes) : Prop := i.2 = [0xab] ↔ i.1 = OP_CODESEPARATOR

theorem u8_eq_of_toNat {b : UInt8} {n : Nat} (hn : n < 256) (h : b.toNat = n) : b = UInt8.ofNat n := by
  apply UInt8.toNat_inj.mp
  rw [h, UInt8.toNat_ofNat']
  omega

theorem instructions_sepOk : ∀ (fuel : Nat) (s : Bytes), ∀ i ∈ (instructions fuel s).1, SepOk i := by
  intro fuel
  induction fuel with
  | zero => intro s i hi; simp [instructions] at hi
  | succ f ih =>
    intro s i hi
    unfold instructions at hi
    cases hg : Spec.getScriptOp s with
    | none => simp [hg] at hi
    | some t =>
      obtain ⟨o, p, rest⟩ := t
      simp only [hg, List.mem_cons] at hi
      rcases hi with hi | hi
      · subst hi
        obtain ⟨b, r, k, hs, ho, hrest, hk1, hk2, hk⟩ := getScriptOp_some hg
        subst hs
        have hrl : rest.length = (b :: r).length - k := by rw [hrest, List.length_drop]
        have hkk : (b :: r).length - rest.length = (k - 1) + 1 := by omega
        unfold SepOk
        simp only [hkk, List.take_succ_cons]
        constructor
        · intro h
          injection h with h1 h2
          rw [ho, h1]; rfl
        · intro h
          have h78 : 0x4e < o := by rw [h]; decide
          have hk1' := hk h78
          have hb : b = 0xab := by
            have := u8_eq_of_toNat (b := b) (n := 0xab) (by decide) (by rw [← ho, h]; rfl)
            simpa using this
          rw [hk1', hb]; rfl
      · exact ih rest i hi

theorem instructions_flatten : ∀ (fuel : Nat) (s : Bytes),
    ((instructions fuel s).1.map (·.2)).flatten ++ (instructions fuel s).2 = s := by
  intro fuel
  induction fuel with
  | zero => intro s; simp [instructions]
  | succ f ih =>
    intro s
    unfold instructions
    cases hg : Spec.getScriptOp s with
    | none => simp
    | some t =>
      obtain ⟨o, p, rest⟩ := t
      obtain ⟨b, r, k, hs, ho, hrest, hk1, hk2, hk⟩ := getScriptOp_some hg
      have hrl : rest.length = s.length - k := by rw [hrest, List.length_drop]
      have hkk : s.length - rest.length = k := by omega
      simp only [List.map_cons, List.flatten_cons, List.append_assoc, ih rest, hkk]
      rw [hrest, List.take_append_drop]

theorem instrSections_flatten (s : Bytes) (hc : Complete s) : (instrSections s).flatten = s := by
  have := instructions_flatten s.length s
  rw [hc, List.append_nil] at this
  exact this

theorem strip_eq (l : List (Nat × Bytes)) (hP : ∀ i ∈ l, SepOk i) :
    (l.filter (fun i => i.1 != OP_CODESEPARATOR)).map (·.2) = (l.map (·.2)).filter (fun s => s ≠ [0xab]) := by
  induction l with
  | nil => rfl
  | cons a as ih =>
    have ha := hP a (by simp)
    have ih := ih (fun i hi => hP i (by simp [hi]))
    unfold SepOk at ha
    by_cases h : a.1 = OP_CODESEPARATOR
    · have h2 : a.2 = [0xab] := ha.mpr h
      simp [List.filter_cons, h, h2, ih]
    · have h2 : ¬ a.2 = [0xab] := fun hh => h (ha.mp hh)
      simp [List.filter_cons, h, h2, ih]

theorem strip_len (l : List (Nat × Bytes)) (hP : ∀ i ∈ l, SepOk i) :
    (((l.map (·.2)).filter (fun s => s ≠ [0xab])).flatten).length + (l.filter (fun i => i.1 == OP_CODESEPARATOR)).length =
      ((l.map (·.2)).flatten).length := by
  induction l with
  | nil => rfl
  | cons a as ih =>
    have ha := hP a (by simp)
    have ih := ih (fun i hi => hP i (by simp [hi]))
    unfold SepOk at ha
    by_cases h : a.1 = OP_CODESEPARATOR
    · have h2 : a.2 = [0xab] := ha.mpr h
      simp [List.filter_cons, h, h2] at ih ⊢
      omega
    · have h2 : ¬ a.2 = [0xab] := fun hh => h (ha.mp hh)
      simp [List.filter_cons, h, h2] at ih ⊢
      omega

theorem instrSections_tail (s : Bytes) : (instrSections s).flatten ++ instrTail s = s :=
  instructions_flatten s.length s

/-- what `delete_subscript(code, OP_CODESEPARATOR)` keeps of the decodable part -/
def strippedBody (code : Bytes) : Bytes := ((instrSections code).filter (fun s => s ≠ [0xab])).flatten

/-- Core's `SerializeScriptCode` writes the whole undecodable rest of the script: the rest is empty (every push is
complete), or the failed `GetScriptOp` left its iterator at the end of the script — the rest is a push opcode alone, or a
PUSHDATA1/2/4 opcode with its complete length field and not one byte of payload -/
def TailWritten (s : Bytes) : Prop := (instrTail s).length ≤ failAdvance (instrTail s)

instance (s : Bytes) : Decidable (TailWritten s) := by unfold TailWritten; infer_instance

theorem tailWritten_of_complete {s : Bytes} (h : Complete s) : TailWritten s := by
  have : instrTail s = [] := h
  simp [TailWritten, this, failAdvance]

/-- OP_CODESEPARATOR stripping on **every** script: `delete_subscript(script, compile("OP_CODESEPARATOR"))` keeps the
decodable instructions other than `ab` and then the undecodable rest; its length is the size Core announces
(`size − #OP_CODESEPARATOR`); Core's `SerializeScriptCode` writes the same bytes, except that of the undecodable rest it
writes only the part the failed `GetScriptOp` moved over -/
theorem strip_serializeScriptCode_all (code : Bytes) :
    deleteSubscript code Gen.Sighash.strippedSubscript = .ok (strippedBody code ++ instrTail code) ∧
    (strippedBody code ++ instrTail code).length ≤ code.length ∧
    serializeScriptCode code =
      Spec.Wire.compactSize (strippedBody code ++ instrTail code).length ++
        (strippedBody code ++ (instrTail code).take (failAdvance (instrTail code))) := by
  have h1 := strip_len (instructions code.length code).1 (instructions_sepOk _ _)
  have h2 := instrSections_tail code
  have h3 := strip_eq (instructions code.length code).1 (instructions_sepOk _ _)
  have hlen := congrArg List.length h2
  simp only [List.length_append] at hlen
  unfold instrSections instrTail at hlen
  refine ⟨deleteSubscript_eq code _, ?_, ?_⟩
  · simp only [List.length_append]
    show (List.flatten (List.filter (fun s => decide (s ≠ [0xab])) (instrSections code))).length + _ ≤ _
    unfold instrSections instrTail
    omega
  · unfold serializeScriptCode
    simp only [h3, List.append_assoc]
    show _ = Spec.Wire.compactSize (List.flatten (List.filter (fun s => decide (s ≠ [0xab])) (instrSections code)) ++ _).length ++ _
    simp only [List.length_append]
    unfold instrSections instrTail strippedBody instrSections
    congr 2
    omega

/-- the two serialisations of the script code coincide exactly when Core writes the whole undecodable rest -/
theorem strip_serializeScriptCode_iff (code : Bytes) :
    serializeScriptCode code = Spec.Wire.varBytes (strippedBody code ++ instrTail code) ↔ TailWritten code := by
  rw [(strip_serializeScriptCode_all code).2.2]
  unfold Spec.Wire.varBytes TailWritten
  constructor
  · intro h
    have h1 := List.append_cancel_left (List.append_cancel_left h)
    have := congrArg List.length h1
    rw [List.length_take] at this
    omega
  · intro h
    rw [List.take_of_length_le h]

/-- OP_CODESEPARATOR stripping as pycoin does it (`delete_subscript(script, compile("OP_CODESEPARATOR"))`, then the
length-prefixed write of `TxIn.stream`) is Core's `SerializeScriptCode`, for every script of which Core writes the whole
undecodable rest — in particular every script whose pushes are complete -/
theorem strip_is_serializeScriptCode_tw (code : Bytes) (hc : TailWritten code) :
    ∃ stripped, deleteSubscript code Gen.Sighash.strippedSubscript = .ok stripped ∧
      stripped.length ≤ code.length ∧
      serializeScriptCode code = Spec.Wire.varBytes stripped :=
  ⟨_, (strip_serializeScriptCode_all code).1, (strip_serializeScriptCode_all code).2.1,
    (strip_serializeScriptCode_iff code).mpr hc⟩

theorem strip_is_serializeScriptCode (code : Bytes) (hc : Complete code) :
    ∃ stripped, deleteSubscript code Gen.Sighash.strippedSubscript = .ok stripped ∧
      stripped.length ≤ code.length ∧
      serializeScriptCode code = Spec.Wire.varBytes stripped :=
  strip_is_serializeScriptCode_tw code (tailWritten_of_complete hc)

end Pycoin.Sighash
