import Pycoin.Proofs.GenMul
import Pycoin.Proofs.Sqrt
import Pycoin.Proofs.Pratt
import Pycoin.Proofs.CurvePrimes
import Pycoin.Proofs.CurveFacts.secp256k1
import Mathlib.GroupTheory.OrderOfElement
import Mathlib.FieldTheory.Finite.Basic
/-!
Facts about the shipped generator that the C10 key theorems need from C02:
* `d • G ≠ ∞` for `1 ≤ d < n` (`n` prime, `n • G = ∞`, `G ≠ ∞`), hence `Generator.__mul__` returns an affine
  curve point for every valid secret exponent;
* secp256k1 has no point with `y = 0` (−7 is not a cube modulo `p`: kernel evaluation of one modular power).
-/
namespace Pycoin.Curve
open Pycoin WeierstrassCurve

variable (c : CurveParams) [Good c]

theorem smul_basis_ne_zero (hG : containsXY c c.gx c.gy = true) (hnp : Nat.Prime c.n)
    (hn : (c.n : Int) • toPoint c (basis c) = 0) (d : Int) (h1 : 1 ≤ d) (h2 : d < c.n) :
    d • toPoint c (basis c) ≠ 0 := by
  intro h0
  have hG0 : toPoint c (basis c) ≠ 0 := by
    intro hz
    have hon : OnCurve c (basis c) := by simpa [OnCurve, containsPoint, basis] using hG
    have := toPoint_eq_zero c hon hz
    simp [basis] at this
  have hdvd : addOrderOf (toPoint c (basis c)) ∣ c.n := by
    apply addOrderOf_dvd_of_nsmul_eq_zero
    rw [← natCast_zsmul]; exact hn
  rcases (Nat.dvd_prime hnp).mp hdvd with h | h
  · exact hG0 (AddMonoid.addOrderOf_eq_one_iff.mp h)
  · have h3 := (addOrderOf_dvd_iff_zsmul_eq_zero).mpr h0
    rw [h] at h3
    have := Int.le_of_dvd (by omega) h3
    omega

/-- `secret_exponent * generator` is an affine point on the curve for `1 ≤ d < n`, whatever the blinding factor -/
theorem mulG_some (hG : containsXY c c.gx c.gy = true) (hnp : Nat.Prime c.n) (hn256 : c.n ≤ 2 ^ 256)
    (hn : (c.n : Int) • toPoint c (basis c) = 0) (bf d : Int) (h1 : 1 ≤ d) (h2 : d < c.n) :
    ∃ x y, mulG c bf d = .ok (some (x, y)) ∧ containsXY c x y = true := by
  obtain ⟨R, hR, hon, hpt⟩ := mulG_refines c hG hnp.ne_zero hn256 hn bf d
  cases R with
  | none =>
    exfalso
    rw [toPoint_none] at hpt
    exact smul_basis_ne_zero c hG hnp hn d h1 h2 hpt.symm
  | some P =>
    obtain ⟨x, y⟩ := P
    exact ⟨x, y, hR, by simpa [OnCurve, containsPoint] using hon⟩

end Pycoin.Curve

namespace Pycoin.Gen.Curves
open Pycoin Pycoin.Curve

/-- `(p − 7)^((p−1)/3) mod p` is neither 0 nor 1 (evaluated in the kernel) -/
theorem cubic_nonresidue_eval :
    Pratt.powMod (secp256k1.p - 7) ((secp256k1.p - 1) / 3) secp256k1.p ≠ 0 ∧
    Pratt.powMod (secp256k1.p - 7) ((secp256k1.p - 1) / 3) secp256k1.p ≠ 1 ∧
    3 * ((secp256k1.p - 1) / 3) = secp256k1.p - 1 ∧ 7 < secp256k1.p := by
  decide +kernel

/-- secp256k1 has no point of order two: no `x` with `(x, 0)` on the curve -/
theorem no_y_zero_secp256k1 (x : Int) : containsXY secp256k1 x 0 = false := by
  by_contra hcon
  have hon : containsXY secp256k1 x 0 = true := by simpa using hcon
  have heq := (containsXY_iff secp256k1 x 0).mp hon
  rw [W_equation_iff] at heq
  obtain ⟨hv0, hv1, h3, h7⟩ := cubic_nonresidue_eval
  have ha : secp256k1.a = 0 := rfl
  have hb : secp256k1.b = 7 := rfl
  rw [ha, hb] at heq
  have hx3 : (x : ZMod secp256k1.p) ^ 3 = -7 := by
    push_cast at heq
    linear_combination -heq
  -- (−7)^e = x^(p−1) ∈ {0, 1}
  have hpow : (-7 : ZMod secp256k1.p) ^ ((secp256k1.p - 1) / 3) = (x : ZMod secp256k1.p) ^ (secp256k1.p - 1) := by
    rw [← hx3, ← pow_mul, h3]
  have hcast : ((Pratt.powMod (secp256k1.p - 7) ((secp256k1.p - 1) / 3) secp256k1.p : Nat) : ZMod secp256k1.p)
      = (-7 : ZMod secp256k1.p) ^ ((secp256k1.p - 1) / 3) := by
    rw [Pratt.powMod_eq, ZMod.natCast_mod, Nat.cast_pow, Nat.cast_sub (by omega)]
    simp
  have hlt : Pratt.powMod (secp256k1.p - 7) ((secp256k1.p - 1) / 3) secp256k1.p < secp256k1.p := by
    rw [Pratt.powMod_eq]; exact Nat.mod_lt _ (by omega)
  by_cases hx0 : (x : ZMod secp256k1.p) = 0
  · rw [hpow, hx0, zero_pow (by omega)] at hcast
    have := (ZMod.natCast_eq_zero_iff _ _).mp hcast
    exact hv0 (Nat.eq_zero_of_dvd_of_lt this hlt)
  · rw [hpow, ZMod.pow_card_sub_one_eq_one hx0] at hcast
    have h1 : ((Pratt.powMod (secp256k1.p - 7) ((secp256k1.p - 1) / 3) secp256k1.p : Nat) : ZMod secp256k1.p)
        = ((1 : Nat) : ZMod secp256k1.p) := by rw [hcast]; simp
    have := (ZMod.natCast_eq_natCast_iff' _ _ _).mp h1
    rw [Nat.mod_eq_of_lt hlt, Nat.mod_eq_of_lt (by omega)] at this
    exact hv1 this

end Pycoin.Gen.Curves
